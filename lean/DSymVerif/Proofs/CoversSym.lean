/-
Property C05, part 3: `build_sym_using_ms` on a complete valid D-set.

With a degree function `m i d = some (M i d)` that is constant on the ⟨op i, op (i+1)⟩-orbits,
the double loop (`for i in 0..dim`, `for d in orbit_reps_2d(i, i+1)`) never panics and stores
`M i x / r` for the orbit of *every* chamber `x` (r = the orbit's length, from `collect_orbits`).
-/
import DSymVerif.Proofs.CoversReps
import DSymVerif.Proofs.DSetSym

namespace DSymVerif.DS

/-- the symbol with its branching table replaced -/
def DSymData.withVs (s : DSymData) (vs : Array Nat) : DSymData := { s with orbitVs := vs }

theorem ValidTables.withVs {s : DSymData} (h : ValidTables s) {vs : Array Nat} (hv : vs.size = s.orbitRs.size) :
    ValidTables (s.withVs vs) := ⟨h.set, h.index_eq, h.rs_eq, hv⟩

theorem DSymData.withVs_self (s : DSymData) : s.withVs s.orbitVs = s := rfl

/-- a complete valid D-set passes `SimpleDSet::from_partial` -/
theorem ValidSet.isCompletePartial {s : DSetData} (h : ValidSet s) : s.isCompletePartial = true := by
  unfold DSetData.isCompletePartial
  simp only [List.all_eq_true, List.mem_range, bne_iff_ne, ne_eq]
  intro i hi d hd
  have := h.range i (d + 1) (by omega) (by omega) (by omega)
  omega

theorem ValidSet.ofPartial {s : DSetData} (h : ValidSet s) : DSymData.ofPartial s = .ok (DSymData.ofSimple s) := by
  unfold DSymData.ofPartial DSetData.toSimple
  rw [h.isCompletePartial]
  rfl

/-! ### the loops of `build_sym_using_ms` / `build_sym_using_vs` -/

/-- body of `for d in dsym.orbit_reps_2d(i, i + 1)` in `build_sym_using_ms` -/
def msStep (m : Nat → Nat → Option Nat) (i : Nat) (acc : Outcome DSymData) (d : Nat) : Outcome DSymData :=
  match acc with
  | .ok sym =>
    (match sym.rPartial i (i + 1) d with
     | .ok (some r) =>
       (match m i d with
        | some mm => if r = 0 then .panic else sym.setV i d (mm / r)
        | none => .ok sym)
     | .ok none => .ok sym
     | .err => .err
     | .panic => .panic)
  | o => o

/-- body of `for d in dsym.orbit_reps_2d(i, i + 1)` in `build_sym_using_vs` -/
def vsStep (v : Nat → Nat → Option Nat) (i : Nat) (acc : Outcome DSymData) (d : Nat) : Outcome DSymData :=
  match acc with
  | .ok sym =>
    (match v i d with
     | some x => sym.setV i d x
     | none => .ok sym)
  | o => o

/-- body of `for i in 0..dsym.dim()` (both constructors) -/
def rowOf (step : Nat → Outcome DSymData → Nat → Outcome DSymData) (acc : Outcome DSymData) (i : Nat) :
    Outcome DSymData :=
  match acc with
  | .ok sym => (sym.view.orbitReps2d i (i + 1)).foldl (step i) (.ok sym)
  | o => o

theorem buildSymUsingMs_eq (dset : DSetData) (m : Nat → Nat → Option Nat) :
    buildSymUsingMs dset m =
      match DSymData.ofPartial dset with
      | .ok sym0 => (List.range sym0.dim).foldl (rowOf (msStep m)) (.ok sym0)
      | .err => .err
      | .panic => .panic := rfl

theorem buildSymUsingVs_eq (dset : DSetData) (v : Nat → Nat → Option Nat) :
    buildSymUsingVs dset v =
      match DSymData.ofPartial dset with
      | .ok sym0 => (List.range sym0.dim).foldl (rowOf (vsStep v)) (.ok sym0)
      | .err => .err
      | .panic => .panic := rfl

/-- all chambers of row `i` carry their target value -/
def RowDone (T : DSymData) (tgt : Nat → Nat → Nat) (vs : Array Nat) (i : Nat) : Prop :=
  ∀ x, 1 ≤ x → x ≤ T.size → vs.getD (T.ixAt i x) 0 = tgt i x

section
variable {T : DSymData} (hT : ValidTables T)
  {step : Nat → Outcome DSymData → Nat → Outcome DSymData} {tgt : Nat → Nat → Nat}
  (hstep : ∀ (vs : Array Nat) (i d : Nat), vs.size = T.orbitRs.size → i < T.dim → 1 ≤ d → d ≤ T.size →
    step i (.ok (T.withVs vs)) d = .ok (T.withVs (vs.setIfInBounds (T.ixAt i d) (tgt i d))))
  (htgt : ∀ i x y, i < T.dim → 1 ≤ x → x ≤ T.size → Orb2 T.dset i (i + 1) x y → tgt i x = tgt i y)
include hT hstep htgt

/-- the inner loop over a list of chambers: only the entries of their orbits are written, each
    with the target value of its orbit -/
theorem step_fold {i : Nat} (hi : i < T.dim) :
    ∀ (l : List Nat) (vs : Array Nat), (∀ e ∈ l, 1 ≤ e ∧ e ≤ T.size) → vs.size = T.orbitRs.size →
      ∃ vs', l.foldl (step i) (.ok (T.withVs vs)) = .ok (T.withVs vs') ∧ vs'.size = T.orbitRs.size ∧
        (∀ k, (∀ e ∈ l, T.ixAt i e ≠ k) → vs'.getD k 0 = vs.getD k 0) ∧
        (∀ e ∈ l, vs'.getD (T.ixAt i e) 0 = tgt i e)
  | [], vs, _, hv => ⟨vs, rfl, hv, fun _ _ => rfl, fun e he => by cases he⟩
  | d :: l, vs, hl, hv => by
    have hd := hl d (List.mem_cons_self ..)
    rw [List.foldl_cons, hstep vs i d hv hi hd.1 hd.2]
    have hv1 : (vs.setIfInBounds (T.ixAt i d) (tgt i d)).size = T.orbitRs.size := by
      rw [Array.size_setIfInBounds]; exact hv
    obtain ⟨vs', hf, hs, hF1, hF2⟩ := step_fold hi l _ (fun e he => hl e (List.mem_cons_of_mem _ he)) hv1
    refine ⟨vs', hf, hs, ?_, ?_⟩
    · intro k hk
      rw [hF1 k (fun e he => hk e (List.mem_cons_of_mem _ he)), getD_setIfInBounds,
        if_neg (fun hc => hk d (List.mem_cons_self ..) hc.1)]
    · intro e he
      rcases List.mem_cons.1 he with rfl | he
      · by_cases hex : ∃ e' ∈ l, T.ixAt i e' = T.ixAt i e
        · obtain ⟨e', he', hk⟩ := hex
          have hr' := hl e' (List.mem_cons_of_mem _ he')
          rw [← hk, hF2 e' he']
          have ho : Orb2 T.dset i (i + 1) e' e := (hT.ixAt_eq_iff hi hr'.1 hr'.2 hd.1 hd.2).1 hk
          exact htgt i e' e hi hr'.1 hr'.2 ho
        · rw [hF1 _ (fun e' he' hc => hex ⟨e', he', hc⟩), getD_setIfInBounds,
            if_pos ⟨rfl, by rw [hv]; exact hT.ixAt_lt hi hd.1 hd.2⟩]
      · exact hF2 e he

omit hstep htgt in
theorem ixAt_row_lt {i' i x y : Nat} (h1 : i' < i) (h2 : i < T.dim) (hx1 : 1 ≤ x) (hx2 : x ≤ T.size)
    (hy1 : 1 ≤ y) (hy2 : y ≤ T.size) : T.ixAt i' x < T.ixAt i y := by
  unfold DSymData.ixAt
  rw [hT.index_eq]
  exact collectOrbits_rows_lt hT.set h1 h2 hx1 hx2 hy1 hy2

/-- one pass of the outer loop completes row `i` and leaves the earlier rows alone -/
theorem row_ok {i : Nat} (hi : i < T.dim) {vs : Array Nat} (hv : vs.size = T.orbitRs.size) :
    ∃ vs', rowOf step (.ok (T.withVs vs)) i = .ok (T.withVs vs') ∧ vs'.size = T.orbitRs.size ∧
      RowDone T tgt vs' i ∧ ∀ i', i' < i → RowDone T tgt vs i' → RowDone T tgt vs' i' := by
  have hi0 : i ≤ T.dset.dim := Nat.le_of_lt hi
  have hi1 : i + 1 ≤ T.dset.dim := hi
  obtain ⟨hrange, hcover⟩ := orbitReps2d_spec hT.set hi0 hi1
  unfold rowOf
  simp only
  have hview : (T.withVs vs).view = T.dset.viewSimple := rfl
  rw [hview]
  obtain ⟨vs', hf, hs, hF1, hF2⟩ := step_fold hT hstep htgt hi _ vs hrange hv
  refine ⟨vs', hf, hs, ?_, ?_⟩
  · intro x hx1 hx2
    obtain ⟨e, he, ho⟩ := hcover x hx1 hx2
    have her := hrange e he
    have hk : T.ixAt i e = T.ixAt i x := (hT.ixAt_eq_iff hi her.1 her.2 hx1 hx2).2 ho
    rw [← hk, hF2 e he]
    exact htgt i e x hi her.1 her.2 ho
  · intro i' hi' hdone x hx1 hx2
    rw [hF1 _ (fun e he hc => by
      have her := hrange e he
      have := ixAt_row_lt hT hi' hi hx1 hx2 her.1 her.2
      omega)]
    exact hdone x hx1 hx2

theorem rows_ok {vs : Array Nat} (hv : vs.size = T.orbitRs.size) :
    ∀ n, n ≤ T.dim → ∃ vs', (List.range n).foldl (rowOf step) (.ok (T.withVs vs)) = .ok (T.withVs vs') ∧
      vs'.size = T.orbitRs.size ∧ ∀ i, i < n → RowDone T tgt vs' i
  | 0, _ => ⟨vs, rfl, hv, fun i hi => by omega⟩
  | n + 1, hn => by
    obtain ⟨vs1, hf1, hs1, hd1⟩ := rows_ok hv n (by omega)
    obtain ⟨vs2, hf2, hs2, hd2, hkeep⟩ := row_ok hT hstep htgt (show n < T.dim by omega) hs1
    rw [List.range_succ, List.foldl_append, hf1]
    refine ⟨vs2, hf2, hs2, ?_⟩
    intro i hi
    by_cases hin : i = n
    · subst hin; exact hd2
    · exact hkeep i (by omega) (hd1 i (by omega))

end

/-! ### the two step functions -/

/-- one iteration of `build_sym_using_ms`: no assertion fires, one table entry is written -/
theorem msStep_ok {T : DSymData} (hT : ValidTables T) {m : Nat → Nat → Option Nat} {M : Nat → Nat → Nat}
    (hm : ∀ i d, i < T.dim → 1 ≤ d → d ≤ T.size → m i d = some (M i d))
    (vs : Array Nat) (i d : Nat) (hv : vs.size = T.orbitRs.size) (hi : i < T.dim)
    (h1 : 1 ≤ d) (h2 : d ≤ T.size) :
    msStep m i (.ok (T.withVs vs)) d =
      .ok (T.withVs (vs.setIfInBounds (T.ixAt i d) (M i d / T.orbitRs.getD (T.ixAt i d) 0))) := by
  have hV := hT.withVs hv
  unfold msStep
  simp only
  rw [hV.rPartial_adj (s := T.withVs vs) hi h1 h2, hm i d hi h1 h2]
  simp only
  have hr := (hT.rs_least hi h1 h2).1
  have hr' : ¬ (T.withVs vs).orbitRs.getD ((T.withVs vs).ixAt i d) 0 = 0 := by
    show ¬ T.orbitRs.getD (T.ixAt i d) 0 = 0
    omega
  rw [if_neg hr']
  unfold DSymData.setV
  rw [if_neg (by omega), hV.oix_eq (s := T.withVs vs) hi h2]
  simp only
  have hk : (T.withVs vs).ixAt i d < (T.withVs vs).orbitVs.size := by
    show T.ixAt i d < vs.size
    rw [hv]; exact hT.ixAt_lt hi h1 h2
  rw [if_pos hk]
  rfl

/-- one iteration of `build_sym_using_vs` -/
theorem vsStep_ok {T : DSymData} (hT : ValidTables T) {v : Nat → Nat → Option Nat} {V : Nat → Nat → Nat}
    (hvv : ∀ i d, i < T.dim → 1 ≤ d → d ≤ T.size → v i d = some (V i d))
    (vs : Array Nat) (i d : Nat) (hv : vs.size = T.orbitRs.size) (hi : i < T.dim)
    (h1 : 1 ≤ d) (h2 : d ≤ T.size) :
    vsStep v i (.ok (T.withVs vs)) d = .ok (T.withVs (vs.setIfInBounds (T.ixAt i d) (V i d))) := by
  have hV := hT.withVs hv
  unfold vsStep
  simp only
  rw [hvv i d hi h1 h2]
  simp only
  unfold DSymData.setV
  rw [if_neg (by omega), hV.oix_eq (s := T.withVs vs) hi h2]
  simp only
  have hk : (T.withVs vs).ixAt i d < (T.withVs vs).orbitVs.size := by
    show T.ixAt i d < vs.size
    rw [hv]; exact hT.ixAt_lt hi h1 h2
  rw [if_pos hk]
  rfl

/-- **`build_sym_using_ms` on a complete valid D-set** with degrees constant on orbits: it returns
    a symbol `c` over the same D-set with the tables of `collect_orbits`, and for every chamber
    `x` and `i < dim`:  r = orbit length (least period), v = m / r, hence m_c = r · (m / r). -/
theorem buildSymUsingMs_ok {ds : DSetData} (h : ValidSet ds) {m : Nat → Nat → Option Nat} {M : Nat → Nat → Nat}
    (hm : ∀ i d, i < ds.dim → 1 ≤ d → d ≤ ds.size → m i d = some (M i d))
    (hM : ∀ i x y, i < ds.dim → 1 ≤ x → x ≤ ds.size → Orb2 ds i (i + 1) x y → M i x = M i y) :
    ∃ c, buildSymUsingMs ds m = .ok c ∧ c.dset = ds ∧ ValidTables c ∧
      ∀ i x, i < ds.dim → 1 ≤ x → x ≤ ds.size →
        ∃ r, IsLeastPeriod ds i (i + 1) x r ∧
          c.rPartial i (i + 1) x = .ok (some r) ∧
          c.vPartial i (i + 1) x = .ok (some (M i x / r)) ∧
          c.mPartial i (i + 1) x = .ok (some (r * (M i x / r))) := by
  have hT : ValidTables (DSymData.ofSimple ds) := ValidTables.ofSimple h
  have hv0 : (DSymData.ofSimple ds).orbitVs.size = (DSymData.ofSimple ds).orbitRs.size := hT.vs_size
  have htgt : ∀ i x y, i < (DSymData.ofSimple ds).dim → 1 ≤ x → x ≤ (DSymData.ofSimple ds).size →
      Orb2 (DSymData.ofSimple ds).dset i (i + 1) x y →
      M i x / (DSymData.ofSimple ds).orbitRs.getD ((DSymData.ofSimple ds).ixAt i x) 0 =
      M i y / (DSymData.ofSimple ds).orbitRs.getD ((DSymData.ofSimple ds).ixAt i y) 0 := by
    intro i x y hi hx1 hx2 ho
    have hy := Orb2.range h (Nat.le_of_lt hi) (show i + 1 ≤ ds.dim from hi) ⟨hx1, hx2⟩ ho
    rw [hM i x y hi hx1 hx2 ho, (hT.ixAt_eq_iff hi hx1 hx2 hy.1 hy.2).2 ho]
  obtain ⟨vs, hf, hs, hdone⟩ := rows_ok (T := DSymData.ofSimple ds) hT
    (step := msStep m) (tgt := fun i x => M i x / (DSymData.ofSimple ds).orbitRs.getD ((DSymData.ofSimple ds).ixAt i x) 0)
    (fun vs i d hv hi h1 h2 => msStep_ok hT hm vs i d hv hi h1 h2) htgt hv0
    (DSymData.ofSimple ds).dim (Nat.le_refl _)
  rw [DSymData.withVs_self] at hf
  refine ⟨(DSymData.ofSimple ds).withVs vs, ?_, rfl, hT.withVs hs, ?_⟩
  · rw [buildSymUsingMs_eq, h.ofPartial]
    exact hf
  · intro i x hi hx1 hx2
    have hV := hT.withVs hs
    refine ⟨_, hT.rs_least hi hx1 hx2, hV.rPartial_adj (s := (DSymData.ofSimple ds).withVs vs) hi hx1 hx2, ?_, ?_⟩
    · rw [hV.vPartial_adj (s := (DSymData.ofSimple ds).withVs vs) hi hx1 hx2]
      show Outcome.ok (some (vs.getD ((DSymData.ofSimple ds).ixAt i x) 0)) = _
      rw [hdone i hi x hx1 hx2]
    · unfold DSymData.mPartial
      rw [hV.rPartial_adj (s := (DSymData.ofSimple ds).withVs vs) hi hx1 hx2,
        hV.vPartial_adj (s := (DSymData.ofSimple ds).withVs vs) hi hx1 hx2]
      show DSymData.mOf _ (Outcome.ok (some (vs.getD ((DSymData.ofSimple ds).ixAt i x) 0))) = _
      rw [hdone i hi x hx1 hx2]
      rfl

/-- **`build_sym_using_vs` on a complete valid D-set** with branching numbers constant on orbits -/
theorem buildSymUsingVs_ok {ds : DSetData} (h : ValidSet ds) {v : Nat → Nat → Option Nat} {V : Nat → Nat → Nat}
    (hvv : ∀ i d, i < ds.dim → 1 ≤ d → d ≤ ds.size → v i d = some (V i d))
    (hV : ∀ i x y, i < ds.dim → 1 ≤ x → x ≤ ds.size → Orb2 ds i (i + 1) x y → V i x = V i y) :
    ∃ vs, buildSymUsingVs ds v = .ok ((DSymData.ofSimple ds).withVs vs) ∧
      vs.size = (DSymData.ofSimple ds).orbitRs.size ∧
      ∀ i x, i < ds.dim → 1 ≤ x → x ≤ ds.size → vs.getD ((DSymData.ofSimple ds).ixAt i x) 0 = V i x := by
  have hT : ValidTables (DSymData.ofSimple ds) := ValidTables.ofSimple h
  have hv0 : (DSymData.ofSimple ds).orbitVs.size = (DSymData.ofSimple ds).orbitRs.size := hT.vs_size
  obtain ⟨vs, hf, hs, hdone⟩ := rows_ok (T := DSymData.ofSimple ds) hT
    (step := vsStep v) (tgt := V)
    (fun vs i d hv hi h1 h2 => vsStep_ok hT hvv vs i d hv hi h1 h2) hV hv0
    (DSymData.ofSimple ds).dim (Nat.le_refl _)
  rw [DSymData.withVs_self] at hf
  refine ⟨vs, ?_, hs, fun i x hi hx1 hx2 => hdone i hi x hx1 hx2⟩
  rw [buildSymUsingVs_eq, h.ofPartial]
  exact hf

end DSymVerif.DS
