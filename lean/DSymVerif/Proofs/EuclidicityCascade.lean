/-
Property C17: the reasons of the euclidicity cascade behind `simplify`, as group-theoretic facts.

`simp` stands for the symbol `canonical(simplify(cov))` the cascade works on (`simplify` has no
model: `simp` is arbitrary here).  `CascadeFactsOf simp f` says that the facts `f` the decision
tree `decideVerdict` branches on are the values the models compute on `simp`; the theorems say
what each exit then means for the orbifold group `TGroup simp` (C09) — through the presentation
`fundamental_group` returns (C09), the classes of subgroups of index ≤ 2 `coset_tables` lists
(C12), the presentations of their stabilisers (C13) and their abelian invariants (C14).
-/
import DSymVerif.Proofs.EuclidicityHelpers
import DSymVerif.Proofs.Delaney3dReindex
import DSymVerif.Props.C09

namespace DSymVerif.EucP
open DSymVerif DSymVerif.Euc DSymVerif.DS DSymVerif.Cosets DSymVerif.SpecC11 DSymVerif.CosetP
  DSymVerif.CosetSoundP DSymVerif.FG DSymVerif.FGP

/-- the presentation `fundamental_group` returns for a valid symbol presents its orbifold group
    (C09 `returned_group_is_textbook_group`; ℕ-indexed ↔ `Fin n`-indexed generators:
    Proofs/Delaney3dReindex.lean), and its relators are words over its generators -/
theorem presentation_of_symbol (s : DSymData) (hs : ValidSym s) (hdim : 1 ≤ s.dim) :
    ∃ fg, fundamentalGroup s = .ok fg ∧ LettersOK fg.genToEdge.length fg.relators ∧
      Nonempty (G fg.genToEdge.length fg.relators ≃* TGroup s) := by
  obtain ⟨fg, hfg, ⟨e⟩⟩ := C09.returned_group_is_textbook_group s hs hdim
  have hlet := (fundamentalGroup_letters s fg hfg).1
  have eP : PresentedGroup (relSet fg.nrGenerators fg.relators) ≃* MGroup fg :=
    MonoidHom.toMulEquiv (D3.upHom hlet) (D3.downHom fg.nrGenerators fg.relators)
      (D3.down_up hlet) (D3.up_down hlet)
  exact ⟨fg, hfg, hlet, ⟨eP.trans e⟩⟩

/-- the facts of the cascade behind `simplify` are what the models compute on `simp`.  (The code
    evaluates the later ones only on the branches that reach them; the models of the two subgroup
    tests always return on a presentation over its generators, so stating all of them loses
    nothing.) -/
structure CascadeFactsOf (simp : DSymData) (f : Facts) : Prop where
  connected : f.connected = simp.view.isConnected
  components : f.connected = false → badConnectedComponents simp = .ok f.badComponents
  group : f.connected = true → ∃ fg invars, fundamentalGroup simp = .ok fg ∧
    Inv.abelianInvariants fg.genToEdge.length fg.relators = .ok invars ∧
    f.invarsZ3 = decide (invars = homologyTest) ∧ f.isFree = fg.isFree ∧
    badSubgroupCount fg countArgs.1 countArgs.2 = .ok f.badCount ∧
    badSubgroupInvariants fg subgroupArgs.1 subgroupArgs.2 = .ok f.badSubInv

/-- the facts that lead to the exits behind the key comparison -/
theorem behind_key {f : Facts} :
    (decideVerdict f = .no .handle → f.connected = true ∧ f.invarsZ3 = false) ∧
    (decideVerdict f = .no .freeGroup → f.connected = true ∧ f.invarsZ3 = true ∧ f.isFree = true) ∧
    (decideVerdict f = .no .subgroupCount →
      f.connected = true ∧ f.invarsZ3 = true ∧ f.isFree = false ∧ f.badCount = true) ∧
    (decideVerdict f = .no .subgroups →
      f.connected = true ∧ f.invarsZ3 = true ∧ f.isFree = false ∧ f.badCount = false ∧ f.badSubInv = true) ∧
    (decideVerdict f = .maybe .noDecision →
      f.connected = true ∧ f.invarsZ3 = true ∧ f.isFree = false ∧ f.badCount = false ∧ f.badSubInv = false) ∧
    (decideVerdict f = .no .connectedSum → f.connected = false ∧ f.badComponents = true) ∧
    (decideVerdict f = .maybe .connectedSum → f.connected = false ∧ f.badComponents = false) := by
  obtain ⟨a, b, c, d, e, g, h, i, j, k⟩ := f
  cases a <;> cases b <;> cases c <;> cases d <;> simp only [decideVerdict] <;>
    first
    | (simp; done)
    | (refine ⟨?_, ?_, ?_, ?_, ?_, ?_, ?_⟩ <;> (repeat' split) <;> simp_all)

/-- **cascade_reasons_mean** — what the exits of the cascade for a CONNECTED simplified cover say
    about its orbifold group.  Let `simp` be a valid symbol, `f` facts agreeing with the models on
    it.  The model of `fundamental_group` returns a presentation `⟨1..n | rels⟩ ≅ TGroup simp`, and
    * `no: cover has at least one handle` ⇒ `H₁ = TGroup(simp)^ab ≅ Π ZMod d` over a list `invars`
      that is not `[0,0,0]` — the canonical list (zeros, then the divisibility chain of invariant
      factors ≥ 2: `SpecC14.expected`, the determinantal-divisor definition);
    * `no: cover has free fundamental group` ⇒ there are no relators and `TGroup simp` is free of
      rank `n`, and (the test before it passed) `H₁ ≅ ℤ³`;
    * `no: bad subgroup count for cover` ⇒ the number of conjugacy classes of subgroups of index
      `≤ 2` — the length of ANY system of representatives — is not 8 (= 1 + 7, the count for ℤ³);
    * `no: bad subgroups for cover` ⇒ there are exactly 8 such classes, and some subgroup `H` of
      index ≤ 2 has a presentation with canonical invariants other than `[0,0,0]`, `H^ab ≅ Π ZMod d`
      over them;
    * `maybe: no decision found` ⇒ `H₁ ≅ ℤ³`, the presentation has relators, there are exactly 8
      classes of subgroups of index ≤ 2 and EVERY subgroup of index ≤ 2 has `H^ab ≅ ℤ³`
      (`Π ZMod 0` three times): everything the cascade tests is as for the 3-torus group. -/
theorem cascade_reasons_mean (simp : DSymData) (f : Facts) (hs : ValidSym simp) (hdim : 1 ≤ simp.dim)
    (hf : CascadeFactsOf simp f) :
    ∃ fg, fundamentalGroup simp = .ok fg ∧ LettersOK fg.genToEdge.length fg.relators ∧
      Nonempty (G fg.genToEdge.length fg.relators ≃* TGroup simp) ∧
      (decideVerdict f = .no .handle → ∃ invars, invars ≠ [0, 0, 0] ∧
        invars = SpecC14.expected fg.genToEdge.length fg.relators ∧
        Nonempty (Abelianization (TGroup simp) ≃* Multiplicative (Inv.ZL invars))) ∧
      (decideVerdict f = .no .freeGroup → fg.relators = [] ∧
        Nonempty (TGroup simp ≃* FreeGroup (Fin fg.genToEdge.length)) ∧
        Nonempty (Abelianization (TGroup simp) ≃* Multiplicative (Fin 3 → ℤ))) ∧
      (decideVerdict f = .no .subgroupCount →
        ∀ Hs, ClassReps fg.genToEdge.length fg.relators 2 Hs → Hs.length ≠ 8) ∧
      (decideVerdict f = .no .subgroups →
        (∀ Hs, ClassReps fg.genToEdge.length fg.relators 2 Hs → Hs.length = 8) ∧
        ∃ (H : Subgroup (G fg.genToEdge.length fg.relators)) (inv : List Nat) (gens srels : List (List Int)),
          H.index ≠ 0 ∧ H.index ≤ 2 ∧ inv ≠ [0, 0, 0] ∧ SpecC14.expected gens.length srels = inv ∧
          Nonempty (PresentedGroup (relSet gens.length srels) ≃* H) ∧
          Nonempty (Abelianization H ≃* Multiplicative (Inv.ZL inv))) ∧
      (decideVerdict f = .maybe .noDecision →
        Nonempty (Abelianization (TGroup simp) ≃* Multiplicative (Fin 3 → ℤ)) ∧
        fg.relators ≠ [] ∧
        (∀ Hs, ClassReps fg.genToEdge.length fg.relators 2 Hs → Hs.length = 8) ∧
        ∀ H : Subgroup (G fg.genToEdge.length fg.relators), H.index ≠ 0 → H.index ≤ 2 →
          Nonempty (Abelianization H ≃* Multiplicative (Inv.ZL [0, 0, 0]))) := by
  obtain ⟨fg, hfg, hlet, ⟨e⟩⟩ := presentation_of_symbol simp hs hdim
  obtain ⟨bh, bf, bc, bs, bm, _, _⟩ := @behind_key f
  -- the facts of a connected `simp`, read off the models
  have facts : f.connected = true → ∃ invars,
      Inv.abelianInvariants fg.genToEdge.length fg.relators = .ok invars ∧
      f.invarsZ3 = decide (invars = [0, 0, 0]) ∧ f.isFree = fg.isFree ∧
      badSubgroupCount fg 2 8 = .ok f.badCount ∧
      badSubgroupInvariants fg 2 [0, 0, 0] = .ok f.badSubInv := by
    intro hc
    obtain ⟨fg', invars, hfg', r⟩ := hf.group hc
    rw [hfg] at hfg'
    cases hfg'
    exact ⟨invars, r⟩
  have hin := hlet.inRange
  -- H₁ from the returned list
  have h1 : ∀ invars, Inv.abelianInvariants fg.genToEdge.length fg.relators = .ok invars →
      invars = SpecC14.expected fg.genToEdge.length fg.relators ∧
      Nonempty (Abelianization (TGroup simp) ≃* Multiplicative (Inv.ZL invars)) := by
    intro invars hinv
    obtain ⟨z⟩ := C14.abelianization_is_returned_list _ _ invars hin hinv
    have hc := C14.abelian_invariants_correct fg.genToEdge.length fg.relators hin
    rw [hinv] at hc
    exact ⟨Outcome.ok.inj hc, ⟨(MulEquiv.abelianizationCongr e).symm.trans z⟩⟩
  have hZ3 : ∀ invars, Inv.abelianInvariants fg.genToEdge.length fg.relators = .ok invars →
      invars = [0, 0, 0] → Nonempty (Abelianization (TGroup simp) ≃* Multiplicative (Fin 3 → ℤ)) := by
    intro invars hinv h0
    obtain ⟨hexp, _⟩ := h1 invars hinv
    have : SpecC14.expected fg.genToEdge.length fg.relators = List.replicate 3 0 := by
      rw [← hexp, h0]; rfl
    obtain ⟨z⟩ := C14.abelianization_free_of_expected _ 3 _ hin this
    exact ⟨(MulEquiv.abelianizationCongr e).symm.trans z⟩
  -- the count of classes
  obtain ⟨bc0, hbc, _, hcount⟩ := badSubgroupCount_iff fg 2 8 (by decide) hlet
  obtain ⟨bs0, hbs, hsfalse, hstrue⟩ := badSubgroupInvariants_subgroups fg 2 [0, 0, 0] (by decide) hlet
  refine ⟨fg, hfg, hlet, ⟨e⟩, ?_, ?_, ?_, ?_, ?_⟩
  · intro hv
    obtain ⟨hc, hz⟩ := bh hv
    obtain ⟨invars, hinv, hz3, _⟩ := facts hc
    obtain ⟨hexp, hiso⟩ := h1 invars hinv
    refine ⟨invars, ?_, hexp, hiso⟩
    rw [hz] at hz3
    simpa using hz3.symm
  · intro hv
    obtain ⟨hc, hz, hfree⟩ := bf hv
    obtain ⟨invars, hinv, hz3, hfr, _⟩ := facts hc
    have hrel : fg.relators = [] := by
      rw [hfree] at hfr
      unfold FundGroup.isFree at hfr
      simpa using hfr.symm
    refine ⟨hrel, ?_, hZ3 invars hinv (by rw [hz] at hz3; simpa using hz3.symm)⟩
    have e' := e
    rw [hrel] at e'
    exact ⟨e'.symm.trans (presentedNilEquiv _)⟩
  · intro hv Hs hHs
    obtain ⟨hc, _, _, hbad⟩ := bc hv
    obtain ⟨_, _, _, _, hcnt, _⟩ := facts hc
    rw [hbc] at hcnt
    have : bc0 = true := by rw [Outcome.ok.inj hcnt]; exact hbad
    exact (hcount Hs hHs).mp this
  · intro hv
    obtain ⟨hc, _, _, hgood, hbad⟩ := bs hv
    obtain ⟨_, _, _, _, hcnt, hsub⟩ := facts hc
    rw [hbc] at hcnt
    rw [hbs] at hsub
    have hc0 : bc0 = false := by rw [Outcome.ok.inj hcnt]; exact hgood
    have hs0 : bs0 = true := by rw [Outcome.ok.inj hsub]; exact hbad
    refine ⟨fun Hs hHs => ?_, hstrue hs0⟩
    by_contra hne
    have := (hcount Hs hHs).mpr hne
    rw [hc0] at this
    cases this
  · intro hv
    obtain ⟨hc, hz, hfree, hgood, hgood2⟩ := bm hv
    obtain ⟨invars, hinv, hz3, hfr, hcnt, hsub⟩ := facts hc
    rw [hbc] at hcnt
    rw [hbs] at hsub
    have hc0 : bc0 = false := by rw [Outcome.ok.inj hcnt]; exact hgood
    have hs0 : bs0 = false := by rw [Outcome.ok.inj hsub]; exact hgood2
    refine ⟨hZ3 invars hinv (by rw [hz] at hz3; simpa using hz3.symm), ?_, fun Hs hHs => ?_, hsfalse hs0⟩
    · intro hrel
      rw [hfree] at hfr
      unfold FundGroup.isFree at hfr
      rw [hrel] at hfr
      simp at hfr
    · by_contra hne
      have := (hcount Hs hHs).mpr hne
      rw [hc0] at this
      cases this

/-- **connected_sum_reasons_mean** — the two exits for a DISCONNECTED simplified cover.  If the
    facts agree with the models and the facts of every component are computed (`compFacts`), then
    `no: cover is a non-trivial connected sum` ⇔ the components are bad (`ComponentsBad`: a
    component with H₁ other than ℤ³ or 0, a homology-trivial one with a subgroup of index ≤ 5 that
    is not homology-trivial, an H₁ = ℤ³ one with a subgroup of index ≤ 2 of other homology, or two
    with H₁ = ℤ³) and `maybe: cover is a (potentially trivial) connected sum` ⇔ they are not.
    NB the components the CODE inspects are the orbits of the indices `0..dim` EXCLUSIVE of the
    component representatives (for a 3-dimensional symbol: the 2-dimensional tile of the
    representative chamber, not the connected component) — stated here as it is. -/
theorem connected_sum_reasons_mean (simp : DSymData) (f : Facts) (hf : CascadeFactsOf simp f)
    (c : Nat → CompFacts)
    (hc : ∀ d ∈ simp.view.orbitReps simp.view.indices simp.view.elements, compFacts simp d = .ok (c d)) :
    (decideVerdict f = .no .connectedSum → simp.view.isConnected = false ∧
      ComponentsBad ((simp.view.orbitReps simp.view.indices simp.view.elements).map c)) ∧
    (decideVerdict f = .maybe .connectedSum → simp.view.isConnected = false ∧
      ¬ ComponentsBad ((simp.view.orbitReps simp.view.indices simp.view.elements).map c)) := by
  obtain ⟨_, _, _, _, _, b1, b2⟩ := @behind_key f
  obtain ⟨b, hb, hiff⟩ := badConnectedComponents_iff simp c hc
  refine ⟨fun hv => ?_, fun hv => ?_⟩
  · obtain ⟨hconn, hbad⟩ := b1 hv
    have := hf.components hconn
    rw [hb] at this
    refine ⟨by rw [← hf.connected]; exact hconn, hiff.mp ?_⟩
    rw [Outcome.ok.inj this]; exact hbad
  · obtain ⟨hconn, hgood⟩ := b2 hv
    have := hf.components hconn
    rw [hb] at this
    refine ⟨by rw [← hf.connected]; exact hconn, fun hbad => ?_⟩
    have hb' := hiff.mpr hbad
    rw [Outcome.ok.inj this, hgood] at hb'
    cases hb'

end DSymVerif.EucP
