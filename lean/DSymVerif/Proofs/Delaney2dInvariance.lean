/-
Helper lemmas for property C08, part 19: under a morphism of 2D symbols the boundary components
correspond, so the boundary corner cycles returned by `trace_boundary` agree as a multiset modulo
rotation and reversal.
-/
import DSymVerif.Proofs.Delaney2dMatch

namespace DSymVerif.D2
open DSymVerif.DS

theorem bestCyclic_isRotated (u : List Nat) : bestCyclic u ~r u := by
  unfold bestCyclic
  by_cases hc : u = []
  · subst hc; exact List.IsRotated.refl _
  · have hne : rotations u ≠ [] := by
      unfold rotations
      intro h
      have := congrArg List.length h
      simp at this
      exact hc this
    have hm := lexMax_mem (rotations u) hne
    unfold rotations at hm
    obtain ⟨i, hi, hi'⟩ := List.mem_map.1 hm
    have hi2 : i ≤ u.length := Nat.le_of_lt (List.mem_range.1 hi)
    unfold rotations
    rw [← hi', ← List.rotate_eq_drop_append_take hi2]
    exact List.IsRotated.forall u i

namespace Mor
variable {g f : Nat → Nat} {a b : DSymData} (m : Mor g f a b)
include m

theorem g_surj {t : Nat} (ht : t ≤ 2) : ∃ i, i ≤ 2 ∧ g i = t := by
  have h0 := m.g_range 0 (by omega)
  have h1 := m.g_range 1 (by omega)
  have h2 := m.g_range 2 (by omega)
  have n01 : g 0 ≠ g 1 := fun e => by have := m.g_inj 0 1 (by omega) (by omega) e; omega
  have n02 : g 0 ≠ g 2 := fun e => by have := m.g_inj 0 2 (by omega) (by omega) e; omega
  have n12 : g 1 ≠ g 2 := fun e => by have := m.g_inj 1 2 (by omega) (by omega) e; omega
  have : g 0 = t ∨ g 1 = t ∨ g 2 = t := by omega
  rcases this with h | h | h
  · exact ⟨0, by omega, h⟩
  · exact ⟨1, by omega, h⟩
  · exact ⟨2, by omega, h⟩

/-- every valid dart of `b` is the image of a valid dart of `a` -/
theorem surj {η : Dart} (hη : ValidDart b η) : ∃ δ, ValidDart a δ ∧ dmap g f δ = η := by
  obtain ⟨j', k', x'⟩ := η
  obtain ⟨h1, h2, h3, h4, h5, h6⟩ := hη
  simp only at h1 h2 h3 h4 h5 h6
  obtain ⟨j, hj, rfl⟩ := m.g_surj h1
  obtain ⟨k, hk, rfl⟩ := m.g_surj h2
  obtain ⟨x, hx1, hx2, rfl⟩ := CanonP.surj_of_inj m.f_range m.f_inj x' h4 (by rw [← m.size]; exact h5)
  refine ⟨(j, k, x), ⟨hj, hk, fun e => h3 (by have e' : j = k := e; rw [e']), hx1, hx2, ?_⟩, rfl⟩
  show a.dset.opU j x = x
  rw [m.op j x hj hx1 hx2] at h6
  have hr := m.va.set.range j x (by have := m.dima; show j ≤ a.dim; omega) hx1 hx2
  exact m.f_inj _ _ hr.1 hr.2 hx1 hx2 h6

theorem map_isWalk {σ : Dart} {n : Nat} (w : IsWalk a σ n) : IsWalk b (dmap g f σ) n := by
  refine ⟨m.valid w.valid, w.pos, ?_, ?_⟩
  · rw [m.map_iter w.valid, w.closed]
  · have e : dlist b (dmap g f σ) n = (dlist a σ n).map (dmap g f) := by
      unfold dlist
      rw [List.map_map]
      apply List.map_congr_left
      intro i _
      exact m.map_iter w.valid i
    rw [e]
    apply List.Nodup.map_on _ w.nodup
    intro x hx z hz hxz
    obtain ⟨i, _, rfl⟩ := mem_dlist.1 hx
    obtain ⟨j, _, rfl⟩ := mem_dlist.1 hz
    exact m.map_inj (phi_iter_valid m.va.set m.dima w.valid i) (phi_iter_valid m.va.set m.dima w.valid j) hxz

end Mor

/-! ### the correspondence of traces -/

section
variable {g f : Nat → Nat} {a b : DSymData} (m : Mor g f a b)
  {bndsA bndsB : List (List Nat)} {startsA startsB : List (Dart × Nat)}
  (TA : TraceRecord a bndsA startsA) (TB : TraceRecord b bndsB startsB)

/-- the image of the start of the trace `p` of `a` lies on the walk of the trace `q` of `b` -/
def Rel (g f : Nat → Nat) (b : DSymData) (p q : Dart × Nat) : Prop :=
  (dmap g f p.1).le ∈ (dlist b q.1 q.2).map Dart.le

include m TA TB

theorem rel_exists {p : Dart × Nat} (hp : p ∈ startsA) : ∃ q ∈ startsB, Rel g f b p q := by
  have hv := m.valid (TA.ok p hp).1
  obtain ⟨q, hq, k, hk, hrel⟩ := TB.lookup hv
  refine ⟨q, hq, ?_⟩
  apply List.mem_map.2
  refine ⟨(phi b)^[k] q.1, mem_dlist.2 ⟨k, hk, rfl⟩, ?_⟩
  rcases hrel with e | e
  · rw [e]
  · rw [e]; exact ((rho_valid (phi_iter_valid m.vb.set m.dimb (TB.ok q hq).1 k)).2.2.2).symm

omit TA in
theorem rel_dart {p q : Dart × Nat} (hpv : ValidDart a p.1) (hq : q ∈ startsB) (hr : Rel g f b p q) :
    ∃ k, k < q.2 ∧ (dmap g f p.1 = (phi b)^[k] q.1 ∨ dmap g f p.1 = rho ((phi b)^[k] q.1)) := by
  obtain ⟨η, hη, hle⟩ := List.mem_map.1 hr
  obtain ⟨k, hk, rfl⟩ := mem_dlist.1 hη
  refine ⟨k, hk, ?_⟩
  exact same_le (phi_iter_valid m.vb.set m.dimb (TB.ok q hq).1 k) (m.valid hpv) hle.symm

theorem rel_word {p q : Dart × Nat} (hp : p ∈ startsA) (hq : q ∈ startsB) (hr : Rel g f b p q) :
    CycEq (bestCyclic (seqOf a p.1 p.2)) (bestCyclic (seqOf b q.1 q.2)) := by
  have wp := TA.isWalk hp
  have wq := TB.isWalk hq
  obtain ⟨k, hk, hrel⟩ := rel_dart m TB wp.valid hq hr
  obtain ⟨wF, hcyc⟩ := word_of_related m.vb m.dimb wq hrel
  have hlen := (m.map_isWalk wp).length_unique wF
  have e : seqOf b (dmap g f p.1) q.2 = seqOf a p.1 p.2 := by rw [← hlen]; exact m.map_seqOf wp.valid p.2
  rw [e] at hcyc
  exact (CycEq.trans (Or.inl (bestCyclic_isRotated _)) hcyc.symm).trans (Or.inl (bestCyclic_isRotated _).symm)

omit m TA in
theorem rel_unique_right {p q q' : Dart × Nat} (hq : q ∈ startsB) (hq' : q' ∈ startsB)
    (hr : Rel g f b p q) (hr' : Rel g f b p q') : q = q' := by
  obtain ⟨η, hη, hle⟩ := List.mem_map.1 hr
  obtain ⟨η', hη', hle'⟩ := List.mem_map.1 hr'
  exact TB.disjoint hq hq' hη hη' (hle.trans hle'.symm)

theorem rel_unique_left {p p' q : Dart × Nat} (hp : p ∈ startsA) (hp' : p' ∈ startsA) (hq : q ∈ startsB)
    (hr : Rel g f b p q) (hr' : Rel g f b p' q) : p = p' := by
  have wp := TA.isWalk hp
  have wp' := TA.isWalk hp'
  have wq := TB.isWalk hq
  obtain ⟨k, hk, hrel⟩ := rel_dart m TB wp.valid hq hr
  -- the walk of the image of p passes the mirror ends of the walk of q
  have hset := le_set_related m.vb m.dimb wq hrel
  have hmem : (dmap g f p'.1).le ∈ (dlist b (dmap g f p.1) q.2).map Dart.le := (hset _).2 hr'
  obtain ⟨η, hη, hle⟩ := List.mem_map.1 hmem
  obtain ⟨s, hs, rfl⟩ := mem_dlist.1 hη
  rw [m.map_iter wp.valid] at hle
  have hvs := phi_iter_valid m.va.set m.dima wp.valid s
  -- pull back to `a`
  have hback : p'.1.le = ((phi a)^[s] p.1).le := by
    rcases same_le (m.valid hvs) (m.valid wp'.valid) hle.symm with e | e
    · rw [m.map_inj wp'.valid hvs e]
    · rw [m.map_rho hvs] at e
      rw [m.map_inj wp'.valid (rho_valid hvs).1 e]
      exact (rho_valid hvs).2.2.2
  -- reduce s modulo the length of the walk of p
  have hper : (phi a)^[s] p.1 = (phi a)^[s % p.2] p.1 := by
    have hk : s = s % p.2 + p.2 * (s / p.2) := (Nat.mod_add_div s p.2).symm
    conv_lhs => rw [hk]
    rw [Function.iterate_add_apply]
    congr 1
    generalize s / p.2 = q'
    induction q' with
    | zero => rfl
    | succ q' ih => rw [Nat.mul_succ, Function.iterate_add_apply, wp.closed, ih]
  rw [hper] at hback
  exact (TA.disjoint hp hp' (mem_dlist.2 ⟨s % p.2, Nat.mod_lt _ wp.pos, rfl⟩)
    (mem_dlist.2 ⟨0, wp'.pos, rfl⟩) hback.symm)

theorem rel_surj {q : Dart × Nat} (hq : q ∈ startsB) : ∃ p ∈ startsA, Rel g f b p q := by
  have wq := TB.isWalk hq
  obtain ⟨δ, hδ, hF⟩ := m.surj wq.valid
  obtain ⟨p, hp, k, hk, hrel⟩ := TA.lookup hδ
  refine ⟨p, hp, ?_⟩
  have wp := TA.isWalk hp
  have wF := m.map_isWalk wp
  -- q.1 is related to the image of p.1
  have hrelB : q.1 = (phi b)^[k] (dmap g f p.1) ∨ q.1 = rho ((phi b)^[k] (dmap g f p.1)) := by
    rw [← hF, m.map_iter wp.valid]
    rcases hrel with e | e
    · left; rw [e]
    · right; rw [e, m.map_rho (phi_iter_valid m.va.set m.dima wp.valid k)]
  obtain ⟨wq', _⟩ := word_of_related m.vb m.dimb wF hrelB
  have hlen := wq.length_unique wq'
  have hset := le_set_related m.vb m.dimb wF hrelB
  unfold Rel
  rw [hlen]
  exact (hset _).2 (List.mem_map.2 ⟨_, mem_dlist.2 ⟨0, wp.pos, rfl⟩, rfl⟩)

end

theorem TraceRecord.starts_nodup {y : DSymData} {bnds : List (List Nat)} {starts : List (Dart × Nat)}
    (T : TraceRecord y bnds starts) : starts.Nodup := by
  have hnd := T.M_nodup
  unfold recM at hnd
  rw [List.nodup_flatMap] at hnd
  rw [← List.nodup_reverse]
  refine hnd.2.imp_of_mem ?_
  intro p q hp _ hdis hpq
  subst hpq
  have hpos := (T.ok p (List.mem_reverse.1 hp)).2.1
  have hmem : p.1 ∈ (dlist y p.1 p.2).reverse := List.mem_reverse.2 (mem_dlist.2 ⟨0, hpos, rfl⟩)
  exact hdis hmem hmem

/-- **the boundary components correspond**: under a morphism the results of `trace_boundary` have
    the same number of entries and, for every word `w`, the same number of entries equal to `w`
    up to rotation and reversal -/
theorem bnds_count_eq {g f : Nat → Nat} {a b : DSymData} (m : Mor g f a b)
    {bndsA bndsB : List (List Nat)} {startsA startsB : List (Dart × Nat)}
    (TA : TraceRecord a bndsA startsA) (TB : TraceRecord b bndsB startsB) :
    bndsA.length = bndsB.length ∧
    (∀ (P : List Nat → Bool), (∀ u v, CycEq u v → P u = P v) → bndsA.countP P = bndsB.countP P) ∧
    bndsA.flatten.Perm bndsB.flatten := by
  classical
  -- the trace of `b` matched to a trace of `a`
  let J : Dart × Nat → Dart × Nat := fun p =>
    if hp : p ∈ startsA then Classical.choose (rel_exists m TA TB hp) else p
  have hJ : ∀ p (hp : p ∈ startsA), J p ∈ startsB ∧ Rel g f b p (J p) := by
    intro p hp
    simp only [J, dif_pos hp]
    exact Classical.choose_spec (rel_exists m TA TB hp)
  have hinj : ∀ p ∈ startsA, ∀ p' ∈ startsA, J p = J p' → p = p' := by
    intro p hp p' hp' e
    have h1 := hJ p hp
    have h2 := hJ p' hp'
    rw [← e] at h2
    exact rel_unique_left m TA TB hp hp' h1.1 h1.2 h2.2
  have hnodupJ : (startsA.map J).Nodup := List.Nodup.map_on hinj TA.starts_nodup
  have hsub1 : startsA.map J ⊆ startsB := by
    intro q hq
    obtain ⟨p, hp, rfl⟩ := List.mem_map.1 hq
    exact (hJ p hp).1
  have hsub2 : startsB ⊆ startsA.map J := by
    intro q hq
    obtain ⟨p, hp, hr⟩ := rel_surj m TA TB hq
    have := hJ p hp
    exact List.mem_map.2 ⟨p, hp, rel_unique_right TB this.1 hq this.2 hr⟩
  have hperm : (startsA.map J).Perm startsB :=
    (List.subperm_of_subset hnodupJ hsub1).antisymm (List.subperm_of_subset TB.starts_nodup hsub2)
  refine ⟨?_, ?_, ?_⟩
  · rw [TA.bnds_perm.length_eq, TB.bnds_perm.length_eq, List.length_map, List.length_map,
      ← hperm.length_eq, List.length_map]
  · intro P hP
    rw [TA.bnds_perm.countP_eq, TB.bnds_perm.countP_eq, List.countP_map, List.countP_map,
      ← hperm.countP_eq, List.countP_map]
    apply List.countP_congr
    intro p hp
    simp only [Function.comp]
    have := hJ p hp
    rw [hP _ _ (rel_word m TA TB hp this.1 this.2)]
  · refine TA.bnds_perm.flatten.trans (List.Perm.trans ?_ TB.bnds_perm.flatten.symm)
    refine List.Perm.trans ?_ (hperm.map _).flatten
    rw [List.map_map]
    -- entry by entry
    have key : ∀ l : List (Dart × Nat), (∀ p ∈ l, p ∈ startsA) →
        ((l.map fun p => bestCyclic (seqOf a p.1 p.2)).flatten).Perm
          ((l.map ((fun p => bestCyclic (seqOf b p.1 p.2)) ∘ J)).flatten) := by
      intro l
      induction l with
      | nil => intro _; exact List.Perm.refl _
      | cons p l ih =>
        intro hl
        simp only [List.map_cons, List.flatten_cons]
        have hp := hl p (by simp)
        have := hJ p hp
        have hc := rel_word m TA TB hp this.1 this.2
        have hperm1 : (bestCyclic (seqOf a p.1 p.2)).Perm (bestCyclic (seqOf b (J p).1 (J p).2)) := by
          rcases hc with hc | hc
          · exact hc.perm
          · exact (List.reverse_perm _).symm.trans hc.perm
        exact hperm1.append (ih (fun q hq => hl q (by simp [hq])))
    exact key startsA (fun p hp => hp)

end DSymVerif.D2
