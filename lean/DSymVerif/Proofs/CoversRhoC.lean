/-
Property C05, part 16: the gauged monodromy representation `rhoC` of a covering and its
transitivity for a connected covering.
-/
import DSymVerif.Proofs.CoversFromCover

namespace DSymVerif.CoversP
open DSymVerif DSymVerif.DS DSymVerif.FG DSymVerif.FGP

section
variable {ds c : DSymData} {j : Nat} (hs : ValidSym ds) (hsz : 1 ≤ ds.size) (hcov : IsCoverOf ds c j)
  {γ : Nat → Equiv.Perm (Fin j)}
  (hγ : ∀ d i, (d, i, none) ∈ spanningTree ds → γ (ds.dset.opU i d) = γ d * valC hs hsz hcov d i)

/-- the monodromy representation of the covering `c` in the gauge `γ` -/
noncomputable def rhoC : TGroup ds →* Equiv.Perm (Fin j) :=
  PresentedGroup.toGroup (val0_rel hs hsz hcov hγ)

theorem rhoC_xT {d i : Nat} (h : FacetR ds d i) :
    rhoC hs hsz hcov hγ (xT ds d i) = valG hs hsz hcov γ d i := by
  unfold rhoC xT
  show FreeGroup.lift (val0 hs hsz hcov γ) (xg ds d i) = _
  exact lift_val0_xg hs hsz hcov γ h

/-- crossing facet `(b,i)` in the gauge: `γ(op_i b) ∘ τ(b,i) = ρ(x(b,i))⁻¹ ∘ γ(b)` -/
theorem gauge_cross {b i : Nat} (h : FacetR ds b i) (k : Fin j) :
    γ (ds.dset.opU i b) (tauC hs hsz hcov b i k) = (rhoC hs hsz hcov hγ (xT ds b i))⁻¹ (γ b k) := by
  rw [rhoC_xT hs hsz hcov hγ h]
  unfold valG valC
  rw [opT_eq h.2.2 h.1 h.2.1]
  simp

/-- the gauged sheet of a chamber of the covering -/
noncomputable def gsheet (γ : Nat → Equiv.Perm (Fin j)) (hj : 0 < j) (x : Nat) : Fin j :=
  γ (cproj ds.size x) ⟨csheet ds.size x % j, Nat.mod_lt _ hj⟩

theorem gsheet_mk (hj : 0 < j) {k b : Nat} (hk : k < j) (h1 : 1 ≤ b) (h2 : b ≤ ds.size) :
    gsheet (ds := ds) γ hj (ds.size * k + b) = γ b ⟨k, hk⟩ := by
  unfold gsheet
  rw [cproj_mk h1 h2]
  congr 1
  apply Fin.ext
  show csheet ds.size (ds.size * k + b) % j = k
  rw [csheet_mk h1 h2, Nat.mod_eq_of_lt hk]

include hs hsz hcov hγ in
/-- along a path of the covering the gauged sheet changes by elements of the group -/
theorem reach_gsheet {x0 x : Nat} (hx0 : 1 ≤ x0 ∧ x0 ≤ j * ds.size)
    (hr : c.view.Reach c.view.indices x0 x) :
    (1 ≤ x ∧ x ≤ j * ds.size) ∧
      ∃ g, gsheet (ds := ds) γ hcov.sheets x = rhoC hs hsz hcov hγ g (gsheet (ds := ds) γ hcov.sheets x0) := by
  induction hr with
  | refl => exact ⟨hx0, 1, by rw [map_one]; rfl⟩
  | @step e e' i _ hi hop ih =>
    obtain ⟨he, g, hg⟩ := ih
    have hic : i ≤ c.dim := (mem_indices c.view i).1 hi
    have his : i ≤ ds.dim := by rw [← hcov.dim]; exact hic
    have he2 : e ≤ c.size := by rw [hcov.size]; exact he.2
    have hopc : c.view.op i e = some (c.dset.opU i e) := opSimple_eq_some.2 ⟨hic, he.1, he2, rfl⟩
    rw [hopc] at hop
    have hee : c.dset.opU i e = e' := Option.some.inj hop
    have hp := cproj_range (d := e) hsz
    have hk := csheet_lt hsz he.1 he.2
    have hdec := cdecomp hsz he.1
    obtain ⟨hspec, hk'⟩ := sig_spec hsz hcov hk his hp.1 hp.2
    rw [hdec] at hspec
    have hb' := hs.set.range i _ his hp.1 hp.2
    have hrange' := cmk_range (sz := ds.size) (n := j) hk' hb'.1 hb'.2
    rw [← hee, hspec]
    refine ⟨hrange', (xT ds (cproj ds.size e) i)⁻¹ * g, ?_⟩
    rw [gsheet_mk (γ := γ) hcov.sheets hk' hb'.1 hb'.2, map_mul, Equiv.Perm.mul_apply, ← hg, map_inv]
    have hfac : FacetR ds (cproj ds.size e) i := ⟨hp.1, hp.2, his⟩
    have hcross := gauge_cross hs hsz hcov hγ hfac ⟨csheet ds.size e, hk⟩
    have hge : gsheet (ds := ds) γ hcov.sheets e = γ (cproj ds.size e) ⟨csheet ds.size e, hk⟩ := by
      have := gsheet_mk (ds := ds) (γ := γ) hcov.sheets hk hp.1 hp.2
      rw [hdec] at this
      exact this
    rw [hge, ← hcross]
    congr 1
    exact Fin.ext (tauC_apply hs hsz hcov hfac ⟨csheet ds.size e, hk⟩).symm

include hs hsz hcov hγ in
/-- a connected covering has a transitive monodromy representation -/
theorem rhoC_transitive (hconn : c.view.isConnected = true) :
    ∀ k : Fin j, ∃ g, rhoC hs hsz hcov hγ g ⟨0, hcov.sheets⟩ = k := by
  have hpin : c.view.PInvol := by rw [c.view_eq]; exact hcov.valid.set.pinvol
  have hall := (isConnected_iff hpin).1 hconn
  have hj := hcov.sheets
  have h1r : 1 ≤ 1 ∧ 1 ≤ j * ds.size := ⟨Nat.le_refl 1, Nat.mul_le_mul hj hsz⟩
  -- every gauged sheet is reached from the gauged sheet of chamber 1
  have hfrom1 : ∀ k : Fin j, ∃ g, rhoC hs hsz hcov hγ g (gsheet (ds := ds) γ hj 1) = k := by
    intro k
    let k0 : Fin j := (γ 1)⁻¹ k
    have hd := cmk_range (sz := ds.size) (n := j) k0.isLt (Nat.le_refl 1) hsz
    have hreach := hall (ds.size * k0.val + 1) hd.1
      (by show _ ≤ c.size; rw [hcov.size]; exact hd.2)
    obtain ⟨_, g, hg⟩ := reach_gsheet hs hsz hcov hγ h1r hreach
    refine ⟨g, ?_⟩
    rw [← hg, gsheet_mk (γ := γ) hj k0.isLt (Nat.le_refl 1) hsz]
    show γ 1 ((γ 1)⁻¹ k) = k
    simp
  intro k
  obtain ⟨g0, hg0⟩ := hfrom1 ⟨0, hj⟩
  obtain ⟨gk, hgk⟩ := hfrom1 k
  refine ⟨gk * g0⁻¹, ?_⟩
  rw [map_mul, Equiv.Perm.mul_apply, map_inv, ← hg0]
  have : (rhoC hs hsz hcov hγ g0)⁻¹ (rhoC hs hsz hcov hγ g0 (gsheet (ds := ds) γ hj 1)) =
      gsheet (ds := ds) γ hj 1 := by simp
  rw [this]
  exact hgk

end

end DSymVerif.CoversP
