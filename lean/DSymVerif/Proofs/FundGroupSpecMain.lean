/-
Helper lemmas for property C09, part 22: the group presented by the Spec's executable textbook
presentation `SpecC09.textbook (gOf ds)` is isomorphic to `TGroup ds`.
-/
import DSymVerif.Proofs.FundGroupSpecBfs
import DSymVerif.Proofs.FundGroupSpecTree
import DSymVerif.Proofs.FundGroupSpecSimp
import DSymVerif.Proofs.FundGroupLetters

namespace DSymVerif.FGP
open DSymVerif DSymVerif.DS DSymVerif.FG DSymVerif.FWP DSymVerif.SpecC02

/-- the relators of the Spec's textbook presentation, on generators `1 … size·(dim+1)` -/
def SRel (ds : DSymData) : Set (FreeGroup ℕ) :=
  MRel (SpecC09.textbook (gOf ds)).ngens (SpecC09.textbook (gOf ds)).rels

/-- the facets of the Spec's breadth-first tree -/
def specTree (ds : DSymData) (e : Edge) : Prop := e ∈ SpecC09.spanTree (gOf ds)

theorem isCode_iff (ds : DSymData) (k : ℕ) : isCode ds k ↔ 1 ≤ k ∧ k ≤ ds.size * (ds.dim + 1) := by
  constructor
  · rintro ⟨hf, hc⟩
    rw [← hc]
    unfold code
    obtain ⟨h1, h2, h3⟩ := hf
    have : (decD ds k - 1) * (ds.dim + 1) + (ds.dim + 1) ≤ ds.size * (ds.dim + 1) := by
      rw [← Nat.succ_mul]
      apply Nat.mul_le_mul_right
      omega
    omega
  · rintro ⟨h1, h2⟩
    have hD : 0 < ds.dim + 1 := by omega
    have hlt : (k - 1) / (ds.dim + 1) < ds.size := by
      rw [Nat.div_lt_iff_lt_mul hD]
      omega
    have hmod : (k - 1) % (ds.dim + 1) < ds.dim + 1 := Nat.mod_lt _ hD
    have hd2 : (k - 1) / (ds.dim + 1) + 1 ≤ ds.size := by omega
    refine ⟨⟨by unfold decD; exact Nat.le_add_left 1 _, hd2, by unfold decI; omega⟩, ?_⟩
    unfold code decD decI
    have := Nat.div_add_mod (k - 1) (ds.dim + 1)
    rw [Nat.mul_comm] at this
    simp only [Nat.add_sub_cancel]
    omega

theorem mem_specIndexPairs (ds : DSymData) (i j : Nat) :
    (i, j) ∈ SpecC09.indexPairs (gOf ds) ↔ i < j ∧ j ≤ ds.dim := by
  unfold SpecC09.indexPairs
  simp only [List.mem_flatMap, List.mem_map, List.mem_filter, mem_gindices, decide_eq_true_eq,
    Prod.mk.injEq]
  constructor
  · rintro ⟨a, _, b, ⟨hb, hab⟩, rfl, rfl⟩
    exact ⟨hab, hb⟩
  · rintro ⟨hij, hj⟩
    exact ⟨i, by omega, j, ⟨hj, hij⟩, rfl, rfl⟩

theorem den_pair (a b : Int) : den [a, b] = den [a] * den [b] := by
  have : [a, b] = [a] ++ [b] := rfl
  rw [this, den_append]

section
variable {ds : DSymData} (hs : ValidSym ds) (hsize : 1 ≤ ds.size)

include hs hsize in
/-- every relator of the Spec's presentation is a relator of `GRel ds specTree specBase` -/
theorem srel_sub : SRel ds ⊆ GRel ds (specTree ds) (specBase ds) := by
  have hot := spanTree_otree hs.set hsize
  rintro r (⟨w, hw, rfl⟩ | ⟨k, hk, rfl⟩)
  · unfold SpecC09.textbook at hw
    simp only [List.mem_append, List.mem_map, List.mem_flatMap, List.mem_filter] at hw
    rcases hw with (⟨e, he, rfl⟩ | ⟨d, hd, i, ⟨hi, _⟩, rfl⟩) | ⟨p, hp, d, hd, rfl⟩
    · have hf := (hot.source_reached e he).1
      rw [den_genOf hf]
      exact Or.inl (Or.inl (Or.inr ⟨e.1, e.2, he, rfl⟩))
    · have hdr := (mem_chambers ds d).1 hd
      have hir := (mem_gindices ds i).1 hi
      have hf : FacetR ds d i := ⟨hdr.1, hdr.2, hir⟩
      rw [den_pair, den_genOf hf, gOf_op, den_genOf (facetR_partner hs.set hf)]
      exact Or.inl (Or.inl (Or.inl ⟨d, i, hf, rfl⟩))
    · obtain ⟨i, j⟩ := p
      obtain ⟨hij, hj⟩ := (mem_specIndexPairs ds i j).1 hp
      have hi : i ≤ ds.dim := by omega
      have hdr := specBase_range (ds := ds) (i := i) (j := j) hd
      simp only
      rw [den_spec_pow, orbitWord_den hs hi hj hdr.1 hdr.2, vOf_eq hs hij hj hdr.1 hdr.2]
      exact Or.inl (Or.inr ⟨i, j, d, hij, hj, hdr.1, hdr.2, hd, rfl⟩)
  · refine Or.inr ⟨k, ?_, rfl⟩
    rw [isCode_iff]
    have : (SpecC09.textbook (gOf ds)).ngens = ds.size * (ds.dim + 1) := rfl
    rw [this] at hk
    omega

include hs hsize in
theorem srel_ncl :
    Subgroup.normalClosure (SRel ds) = Subgroup.normalClosure (GRel ds (specTree ds) (specBase ds)) := by
  have hot := spanTree_otree hs.set hsize
  apply _root_.le_antisymm
  · exact Subgroup.normalClosure_mono (srel_sub hs hsize)
  · apply Subgroup.normalClosure_le_normal
    have hmem : ∀ w ∈ (SpecC09.textbook (gOf ds)).rels, den w ∈ Subgroup.normalClosure (SRel ds) :=
      fun w hw => Subgroup.subset_normalClosure (Or.inl ⟨w, hw, rfl⟩)
    have hpairS : ∀ d i, FacetR ds d i → d ≤ ds.dset.opU i d →
        xg ds d i * xg ds (ds.dset.opU i d) i ∈ Subgroup.normalClosure (SRel ds) := by
      intro d i hf hle
      have := hmem [SpecC09.genOf (gOf ds) d i, SpecC09.genOf (gOf ds) ((gOf ds).op i d) i] (by
        unfold SpecC09.textbook
        simp only [List.mem_append, List.mem_flatMap, List.mem_map, List.mem_filter]
        exact Or.inl (Or.inr ⟨d, (mem_chambers ds d).2 ⟨hf.1, hf.2.1⟩, i,
          ⟨(mem_gindices ds i).2 hf.2.2, by rw [gOf_op]; exact decide_eq_true hle⟩, rfl⟩))
      rw [den_pair, den_genOf hf, gOf_op, den_genOf (facetR_partner hs.set hf)] at this
      exact this
    rintro r (((⟨d, i, hf, rfl⟩ | ⟨d, i, he, rfl⟩) | ⟨i, j, d, hij, hj, h1, h2, hb, rfl⟩) | ⟨k, hk, rfl⟩)
    · rcases Nat.le_total d (ds.dset.opU i d) with hle | hle
      · exact hpairS d i hf hle
      · have hf' := facetR_partner hs.set hf
        have hback : ds.dset.opU i (ds.dset.opU i d) = d := hs.set.invol i d hf.2.2 hf.1 hf.2.1
        have := hpairS _ i hf' (by rw [hback]; exact hle)
        rw [hback] at this
        have hconj := (Subgroup.normalClosure_normal (s := SRel ds)).conj_mem _ this
          (xg ds (ds.dset.opU i d) i)⁻¹
        have e : (xg ds (ds.dset.opU i d) i)⁻¹ * (xg ds (ds.dset.opU i d) i * xg ds d i) *
            (xg ds (ds.dset.opU i d) i)⁻¹⁻¹ = xg ds d i * xg ds (ds.dset.opU i d) i := by group
        rw [e] at hconj
        exact hconj
    · have hf := (hot.source_reached (d, i) he).1
      have := hmem [SpecC09.genOf (gOf ds) d i] (by
        unfold SpecC09.textbook
        simp only [List.mem_append, List.mem_map]
        exact Or.inl (Or.inl ⟨(d, i), he, rfl⟩))
      rw [den_genOf hf] at this
      exact this
    · have hi : i ≤ ds.dim := by omega
      have := hmem (SpecC09.pow (SpecC09.orbitWord (gOf ds)
          (fun d i => [SpecC09.genOf (gOf ds) d i]) i j d) (SpecC09.vOf (gOf ds) i j d)) (by
        unfold SpecC09.textbook
        simp only [List.mem_append, List.mem_flatMap, List.mem_map]
        exact Or.inr ⟨(i, j), (mem_specIndexPairs ds i j).2 ⟨hij, hj⟩, d, hb, rfl⟩)
      rw [den_spec_pow, orbitWord_den hs hi hj h1 h2, vOf_eq hs hij hj h1 h2] at this
      exact this
    · refine Subgroup.subset_normalClosure (Or.inr ⟨k, ?_, rfl⟩)
      rw [isCode_iff] at hk
      have : (SpecC09.textbook (gOf ds)).ngens = ds.size * (ds.dim + 1) := rfl
      rw [this]
      omega

theorem codeTree_eq (ds : DSymData) : codeTree ds = fun e => e ∈ edgesOf (spanningTree ds) := by
  funext e
  apply propext
  unfold codeTree edgesOf
  simp only [List.mem_map]
  constructor
  · rintro ⟨it, hit, rfl⟩; exact ⟨it, hit, rfl⟩
  · rintro ⟨it, hit, rfl⟩; exact ⟨it, hit, rfl⟩

/-- **the Spec's textbook presentation presents `TGroup ds`** (connected valid symbol whose
    breadth-first tree has `size − 1` facets — the Spec's own connectedness test) -/
noncomputable def specTextbookIso (hc : ds.view.isConnected = true)
    (hbfs : (SpecC09.spanTree (gOf ds)).length + 1 = ds.size) :
    PresentedGroup (SRel ds) ≃* TGroup ds :=
  let e1 : PresentedGroup (SRel ds) ≃* PresentedGroup (GRel ds (specTree ds) (specBase ds)) :=
    presentedEquivOfEq (srel_ncl hs hsize)
  let e2 : PresentedGroup (GRel ds (specTree ds) (specBase ds)) ≃*
      PresentedGroup (GRel ds (specTree ds) (fun _ _ _ => True)) :=
    presentedEquivOfEq (grel_base hs (specBase_cover hs))
  let hcode := spanningTree_spanning hs.set hsize hc
  let e3 : PresentedGroup (GRel ds (specTree ds) (fun _ _ _ => True)) ≃*
      PresentedGroup (GRel ds (fun e => e ∈ edgesOf (spanningTree ds)) (fun _ _ _ => True)) :=
    treeIso hs (spanTree_otree hs.set hsize) hcode.2.choose_spec.2.2.2.1
      (otree_spanning_of_length hs.set ⟨Nat.le_refl 1, hsize⟩ (spanTree_otree hs.set hsize) hbfs)
      hcode.2.choose_spec.2.2.2.2
  let e4 : PresentedGroup (GRel ds (fun e => e ∈ edgesOf (spanningTree ds)) (fun _ _ _ => True)) ≃*
      TGroup ds :=
    presentedEquivOfEq (by rw [TRel_eq_GRel, codeTree_eq])
  ((e1.trans e2).trans e3).trans e4

end

/-! ### the letters of the Spec's textbook presentation are generators -/

theorem genOf_live {ds : DSymData} {c a : Nat} (h : FacetR ds c a) :
    SpecC09.genOf (gOf ds) c a ≠ 0 ∧
      (SpecC09.genOf (gOf ds) c a).natAbs ≤ (SpecC09.textbook (gOf ds)).ngens := by
  rw [genOf_eq]
  have := (isCode_iff ds (code ds c a)).1 (isCode_code h)
  have hn : (SpecC09.textbook (gOf ds)).ngens = ds.size * (ds.dim + 1) := rfl
  rw [hn]
  constructor
  · omega
  · simp only [Int.natAbs_natCast]; exact this.2

theorem orbitWordAux_letters {ds : DSymData} (hv : ValidSet ds.dset) {i j d : Nat} (hi : i ≤ ds.dim)
    (hj : j ≤ ds.dim) : ∀ (fuel e : Nat) (acc : List Int), 1 ≤ e → e ≤ ds.size →
    ∀ z ∈ SpecC09.orbitWordAux (gOf ds) (fun d i => [SpecC09.genOf (gOf ds) d i]) i j d fuel e acc,
      z ∈ acc ∨ ∃ c a, FacetR ds c a ∧ z = SpecC09.genOf (gOf ds) c a
  | 0, _, acc, _, _, z, hz => by
    unfold SpecC09.orbitWordAux at hz; exact Or.inl hz
  | fuel + 1, e, acc, h1, h2, z, hz => by
    unfold SpecC09.orbitWordAux at hz
    simp only at hz
    have r1 := hv.range i e hi h1 h2
    have r2 := hv.range j _ hj r1.1 r1.2
    have hacc : ∀ z ∈ acc ++ [SpecC09.genOf (gOf ds) e i] ++ [SpecC09.genOf (gOf ds) ((gOf ds).op i e) j],
        z ∈ acc ∨ ∃ c a, FacetR ds c a ∧ z = SpecC09.genOf (gOf ds) c a := by
      intro z hz
      simp only [List.mem_append, List.mem_singleton] at hz
      rcases hz with (h | h) | h
      · exact Or.inl h
      · exact Or.inr ⟨e, i, ⟨h1, h2, hi⟩, h⟩
      · exact Or.inr ⟨_, j, ⟨r1.1, r1.2, hj⟩, h⟩
    by_cases hc : ((gOf ds).op j ((gOf ds).op i e) == d) = true
    · rw [if_pos hc] at hz; exact hacc z hz
    · rw [if_neg hc] at hz
      rcases orbitWordAux_letters hv hi hj fuel _ _ r2.1 r2.2 z hz with h | h
      · exact hacc z h
      · exact Or.inr h

theorem mem_spec_pow {w : List Int} {z : Int} : ∀ n, z ∈ SpecC09.pow w n → z ∈ w
  | 0, h => by cases h
  | n + 1, h => by
    have : z ∈ SpecC09.pow w n ++ w := h
    rcases List.mem_append.1 this with h | h
    · exact mem_spec_pow n h
    · exact h

theorem textbook_live {ds : DSymData} (hs : ValidSym ds) (hsize : 1 ≤ ds.size) :
    ∀ w ∈ (SpecC09.textbook (gOf ds)).rels, ∀ z ∈ w,
      z ≠ 0 ∧ z.natAbs ≤ (SpecC09.textbook (gOf ds)).ngens := by
  have hot := spanTree_otree hs.set hsize
  intro w hw z hz
  unfold SpecC09.textbook at hw
  simp only [List.mem_append, List.mem_map, List.mem_flatMap, List.mem_filter] at hw
  rcases hw with (⟨e, he, rfl⟩ | ⟨d, hd, i, ⟨hi, _⟩, rfl⟩) | ⟨p, hp, d, hd, rfl⟩
  · simp only [List.mem_singleton] at hz
    rw [hz]; exact genOf_live (hot.source_reached e he).1
  · have hdr := (mem_chambers ds d).1 hd
    have hf : FacetR ds d i := ⟨hdr.1, hdr.2, (mem_gindices ds i).1 hi⟩
    simp only [List.mem_cons, List.not_mem_nil, or_false] at hz
    rcases hz with rfl | rfl
    · exact genOf_live hf
    · rw [gOf_op]; exact genOf_live (facetR_partner hs.set hf)
  · obtain ⟨i, j⟩ := p
    obtain ⟨hij, hj⟩ := (mem_specIndexPairs ds i j).1 hp
    have hdr := specBase_range (ds := ds) (i := i) (j := j) hd
    have := mem_spec_pow _ hz
    unfold SpecC09.orbitWord at this
    rcases orbitWordAux_letters hs.set (by omega) hj _ d [] hdr.1 hdr.2 z this with h | ⟨c, a, hf, rfl⟩
    · cases h
    · exact genOf_live hf

/-- the simplified returned presentation presents the returned group -/
theorem simplify_returned {ds : DSymData} {f : FundGroup} (hf : fundamentalGroup ds = .ok f) :
    Nonempty (MGroup f ≃* PresentedGroup (MRel
      (SpecC09.simplify ⟨f.nrGenerators, f.relators⟩).ngens
      (SpecC09.simplify ⟨f.nrGenerators, f.relators⟩).rels)) := by
  apply simplify_iso ⟨f.nrGenerators, f.relators⟩
  intro w hw z hz
  have := findGenerators_letIn ds _ _ (fundamentalGroup_e2w hf)
  have hh := fundamentalGroup_holds ds f hf
  obtain ⟨o, _, word, v, ⟨di, _, htr, _⟩, _, rfl⟩ := (hh.1 w).1 hw
  have hl := letIn_relRep (letIn_raisedTo (traceWord_letIn ds this _ _ _ _ htr) (v : Int)) z hz
  exact ⟨by omega, hl.2⟩

/-- the simplified textbook presentation of the Spec presents the Spec's textbook group -/
theorem simplify_textbook {ds : DSymData} (hs : ValidSym ds) (hsize : 1 ≤ ds.size) :
    Nonempty (PresentedGroup (SRel ds) ≃* PresentedGroup (MRel
      (SpecC09.simplify (SpecC09.textbook (gOf ds))).ngens
      (SpecC09.simplify (SpecC09.textbook (gOf ds))).rels)) :=
  simplify_iso _ (textbook_live hs hsize)

end DSymVerif.FGP
