/-
Helper lemmas for property C09, part 22: the group presented by the Spec's executable textbook
presentation `SpecC09.textbook (gOf ds)` is isomorphic to `TGroup ds`.
-/
import DSymVerif.Proofs.FundGroupSpecBfs
import DSymVerif.Proofs.FundGroupSpecTree

namespace DSymVerif.FGP
open DSymVerif DSymVerif.DS DSymVerif.FG DSymVerif.FWP DSymVerif.SpecC02

/-- the relators of the Spec's textbook presentation, on generators `1 … size·(dim+1)` -/
def SRel (ds : DSymData) : Set (FreeGroup ℕ) :=
  MRel (SpecC09.textbook (gOf ds)).ngens (SpecC09.textbook (gOf ds)).rels

/-- the facets of the Spec's breadth-first tree -/
def specTree (ds : DSymData) (e : Edge) : Prop := e ∈ SpecC09.spanTree (gOf ds)

theorem isCode_iff (ds : DSymData) (k : ℕ) : isCode ds k ↔ 1 ≤ k ∧ k ≤ ds.size * (ds.dim + 1) := by
  constructor
  · rintro ⟨hf, hc⟩
    rw [← hc]
    unfold code
    obtain ⟨h1, h2, h3⟩ := hf
    have : (decD ds k - 1) * (ds.dim + 1) + (ds.dim + 1) ≤ ds.size * (ds.dim + 1) := by
      rw [← Nat.succ_mul]
      apply Nat.mul_le_mul_right
      omega
    omega
  · rintro ⟨h1, h2⟩
    have hD : 0 < ds.dim + 1 := by omega
    have hlt : (k - 1) / (ds.dim + 1) < ds.size := by
      rw [Nat.div_lt_iff_lt_mul hD]
      omega
    have hmod : (k - 1) % (ds.dim + 1) < ds.dim + 1 := Nat.mod_lt _ hD
    have hd2 : (k - 1) / (ds.dim + 1) + 1 ≤ ds.size := by omega
    refine ⟨⟨by unfold decD; exact Nat.le_add_left 1 _, hd2, by unfold decI; omega⟩, ?_⟩
    unfold code decD decI
    have := Nat.div_add_mod (k - 1) (ds.dim + 1)
    rw [Nat.mul_comm] at this
    simp only [Nat.add_sub_cancel]
    omega

theorem mem_specIndexPairs (ds : DSymData) (i j : Nat) :
    (i, j) ∈ SpecC09.indexPairs (gOf ds) ↔ i < j ∧ j ≤ ds.dim := by
  unfold SpecC09.indexPairs
  simp only [List.mem_flatMap, List.mem_map, List.mem_filter, mem_gindices, decide_eq_true_eq,
    Prod.mk.injEq]
  constructor
  · rintro ⟨a, _, b, ⟨hb, hab⟩, rfl, rfl⟩
    exact ⟨hab, hb⟩
  · rintro ⟨hij, hj⟩
    exact ⟨i, by omega, j, ⟨hj, hij⟩, rfl, rfl⟩

theorem den_pair (a b : Int) : den [a, b] = den [a] * den [b] := by
  have : [a, b] = [a] ++ [b] := rfl
  rw [this, den_append]

section
variable {ds : DSymData} (hs : ValidSym ds) (hsize : 1 ≤ ds.size)

include hs hsize in
/-- every relator of the Spec's presentation is a relator of `GRel ds specTree specBase` -/
theorem srel_sub : SRel ds ⊆ GRel ds (specTree ds) (specBase ds) := by
  have hot := spanTree_otree hs.set hsize
  rintro r (⟨w, hw, rfl⟩ | ⟨k, hk, rfl⟩)
  · unfold SpecC09.textbook at hw
    simp only [List.mem_append, List.mem_map, List.mem_flatMap, List.mem_filter] at hw
    rcases hw with (⟨e, he, rfl⟩ | ⟨d, hd, i, ⟨hi, _⟩, rfl⟩) | ⟨p, hp, d, hd, rfl⟩
    · have hf := (hot.source_reached e he).1
      rw [den_genOf hf]
      exact Or.inl (Or.inl (Or.inr ⟨e.1, e.2, he, rfl⟩))
    · have hdr := (mem_chambers ds d).1 hd
      have hir := (mem_gindices ds i).1 hi
      have hf : FacetR ds d i := ⟨hdr.1, hdr.2, hir⟩
      rw [den_pair, den_genOf hf, gOf_op, den_genOf (facetR_partner hs.set hf)]
      exact Or.inl (Or.inl (Or.inl ⟨d, i, hf, rfl⟩))
    · obtain ⟨i, j⟩ := p
      obtain ⟨hij, hj⟩ := (mem_specIndexPairs ds i j).1 hp
      have hi : i ≤ ds.dim := by omega
      have hdr := specBase_range (ds := ds) (i := i) (j := j) hd
      simp only
      rw [den_spec_pow, orbitWord_den hs hi hj hdr.1 hdr.2, vOf_eq hs hij hj hdr.1 hdr.2]
      exact Or.inl (Or.inr ⟨i, j, d, hij, hj, hdr.1, hdr.2, hd, rfl⟩)
  · refine Or.inr ⟨k, ?_, rfl⟩
    rw [isCode_iff]
    have : (SpecC09.textbook (gOf ds)).ngens = ds.size * (ds.dim + 1) := rfl
    rw [this] at hk
    omega

include hs hsize in
theorem srel_ncl :
    Subgroup.normalClosure (SRel ds) = Subgroup.normalClosure (GRel ds (specTree ds) (specBase ds)) := by
  have hot := spanTree_otree hs.set hsize
  apply _root_.le_antisymm
  · exact Subgroup.normalClosure_mono (srel_sub hs hsize)
  · apply Subgroup.normalClosure_le_normal
    have hmem : ∀ w ∈ (SpecC09.textbook (gOf ds)).rels, den w ∈ Subgroup.normalClosure (SRel ds) :=
      fun w hw => Subgroup.subset_normalClosure (Or.inl ⟨w, hw, rfl⟩)
    have hpairS : ∀ d i, FacetR ds d i → d ≤ ds.dset.opU i d →
        xg ds d i * xg ds (ds.dset.opU i d) i ∈ Subgroup.normalClosure (SRel ds) := by
      intro d i hf hle
      have := hmem [SpecC09.genOf (gOf ds) d i, SpecC09.genOf (gOf ds) ((gOf ds).op i d) i] (by
        unfold SpecC09.textbook
        simp only [List.mem_append, List.mem_flatMap, List.mem_map, List.mem_filter]
        exact Or.inl (Or.inr ⟨d, (mem_chambers ds d).2 ⟨hf.1, hf.2.1⟩, i,
          ⟨(mem_gindices ds i).2 hf.2.2, by rw [gOf_op]; exact decide_eq_true hle⟩, rfl⟩))
      rw [den_pair, den_genOf hf, gOf_op, den_genOf (facetR_partner hs.set hf)] at this
      exact this
    rintro r (((⟨d, i, hf, rfl⟩ | ⟨d, i, he, rfl⟩) | ⟨i, j, d, hij, hj, h1, h2, hb, rfl⟩) | ⟨k, hk, rfl⟩)
    · rcases Nat.le_total d (ds.dset.opU i d) with hle | hle
      · exact hpairS d i hf hle
      · have hf' := facetR_partner hs.set hf
        have hback : ds.dset.opU i (ds.dset.opU i d) = d := hs.set.invol i d hf.2.2 hf.1 hf.2.1
        have := hpairS _ i hf' (by rw [hback]; exact hle)
        rw [hback] at this
        have hconj := (Subgroup.normalClosure_normal (s := SRel ds)).conj_mem _ this
          (xg ds (ds.dset.opU i d) i)⁻¹
        have e : (xg ds (ds.dset.opU i d) i)⁻¹ * (xg ds (ds.dset.opU i d) i * xg ds d i) *
            (xg ds (ds.dset.opU i d) i)⁻¹⁻¹ = xg ds d i * xg ds (ds.dset.opU i d) i := by group
        rw [e] at hconj
        exact hconj
    · have hf := (hot.source_reached (d, i) he).1
      have := hmem [SpecC09.genOf (gOf ds) d i] (by
        unfold SpecC09.textbook
        simp only [List.mem_append, List.mem_map]
        exact Or.inl (Or.inl ⟨(d, i), he, rfl⟩))
      rw [den_genOf hf] at this
      exact this
    · have hi : i ≤ ds.dim := by omega
      have := hmem (SpecC09.pow (SpecC09.orbitWord (gOf ds)
          (fun d i => [SpecC09.genOf (gOf ds) d i]) i j d) (SpecC09.vOf (gOf ds) i j d)) (by
        unfold SpecC09.textbook
        simp only [List.mem_append, List.mem_flatMap, List.mem_map]
        exact Or.inr ⟨(i, j), (mem_specIndexPairs ds i j).2 ⟨hij, hj⟩, d, hb, rfl⟩)
      rw [den_spec_pow, orbitWord_den hs hi hj h1 h2, vOf_eq hs hij hj h1 h2] at this
      exact this
    · refine Subgroup.subset_normalClosure (Or.inr ⟨k, ?_, rfl⟩)
      rw [isCode_iff] at hk
      have : (SpecC09.textbook (gOf ds)).ngens = ds.size * (ds.dim + 1) := rfl
      rw [this]
      omega

theorem codeTree_eq (ds : DSymData) : codeTree ds = fun e => e ∈ edgesOf (spanningTree ds) := by
  funext e
  apply propext
  unfold codeTree edgesOf
  simp only [List.mem_map]
  constructor
  · rintro ⟨it, hit, rfl⟩; exact ⟨it, hit, rfl⟩
  · rintro ⟨it, hit, rfl⟩; exact ⟨it, hit, rfl⟩

/-- **the Spec's textbook presentation presents `TGroup ds`** (connected valid symbol whose
    breadth-first tree has `size − 1` facets — the Spec's own connectedness test) -/
noncomputable def specTextbookIso (hc : ds.view.isConnected = true)
    (hbfs : (SpecC09.spanTree (gOf ds)).length + 1 = ds.size) :
    PresentedGroup (SRel ds) ≃* TGroup ds :=
  let e1 : PresentedGroup (SRel ds) ≃* PresentedGroup (GRel ds (specTree ds) (specBase ds)) :=
    presentedEquivOfEq (srel_ncl hs hsize)
  let e2 : PresentedGroup (GRel ds (specTree ds) (specBase ds)) ≃*
      PresentedGroup (GRel ds (specTree ds) (fun _ _ _ => True)) :=
    presentedEquivOfEq (grel_base hs (specBase_cover hs))
  let hcode := spanningTree_spanning hs.set hsize hc
  let e3 : PresentedGroup (GRel ds (specTree ds) (fun _ _ _ => True)) ≃*
      PresentedGroup (GRel ds (fun e => e ∈ edgesOf (spanningTree ds)) (fun _ _ _ => True)) :=
    treeIso hs (spanTree_otree hs.set hsize) hcode.2.choose_spec.2.2.2.1
      (otree_spanning_of_length hs.set ⟨Nat.le_refl 1, hsize⟩ (spanTree_otree hs.set hsize) hbfs)
      hcode.2.choose_spec.2.2.2.2
  let e4 : PresentedGroup (GRel ds (fun e => e ∈ edgesOf (spanningTree ds)) (fun _ _ _ => True)) ≃*
      TGroup ds :=
    presentedEquivOfEq (by rw [TRel_eq_GRel, codeTree_eq])
  ((e1.trans e2).trans e3).trans e4

end

end DSymVerif.FGP
