/-
Helper lemmas for property C03, part 8: what the Booleans of Spec/C03.lean mean, and that the
brute-force isomorphism search is sound and complete.

`SymIso g a b`     the definition of an isomorphism, as a Prop on the Spec's tables
`ReachS a d`       d is reachable from chamber 1 by the operations of the tables
* `wellFormed_iff`, `farCommute_iff`, `vOnOrbits_iff`, `connected_sound`
* `isBijection_iff`, `isIso_iff`
* `findIso_sound`, `findIso_complete`
-/
import DSymVerif.Spec.C03
import DSymVerif.Driver.SymIO
import DSymVerif.Proofs.CanonicalDecode

namespace DSymVerif.DS
namespace CanonP

open DSymVerif.SpecC03

/-! ### lists of chambers and indices -/

theorem mem_chambersS {a : Sym} {d : Nat} : d ∈ a.chambers ↔ 1 ≤ d ∧ d ≤ a.size := by
  unfold Sym.chambers
  simp only [List.mem_map, List.mem_range]
  constructor
  · rintro ⟨x, hx, rfl⟩; omega
  · rintro ⟨h1, h2⟩; exact ⟨d - 1, by omega, by omega⟩

theorem mem_indicesS {a : Sym} {i : Nat} : i ∈ a.indices ↔ i ≤ a.dim := by
  unfold Sym.indices; simp only [List.mem_range]; omega

theorem foldl_inv {α β : Type} {P : β → Prop} (f : β → α → β) :
    ∀ (l : List α) (b : β), P b → (∀ b x, x ∈ l → P b → P (f b x)) → P (l.foldl f b)
  | [], _, h0, _ => h0
  | x :: l, b, h0, hs =>
    foldl_inv f l (f b x) (hs b x (List.mem_cons_self ..) h0)
      (fun b' y hy hb' => hs b' y (List.mem_cons_of_mem _ hy) hb')

theorem getD_dflt {α : Type} (a : Array α) (x : Nat) (d1 d2 : α) (h : x < a.size) :
    a.getD x d1 = a.getD x d2 := by
  rw [Array.getD_eq_getD_getElem?, Array.getD_eq_getD_getElem?, Array.getElem?_eq_getElem h]
  rfl

/-! ### the domain predicates -/

/-- tables of the right length, every operation an involution of 1..size -/
structure WellFormedS (a : Sym) : Prop where
  size : 1 ≤ a.size
  opSize : a.op.size = a.size * (a.dim + 1)
  vSize : a.v.size = a.dim * a.size
  range : ∀ i d, i ≤ a.dim → 1 ≤ d → d ≤ a.size → 1 ≤ a.opAt i d ∧ a.opAt i d ≤ a.size
  invol : ∀ i d, i ≤ a.dim → 1 ≤ d → d ≤ a.size → a.opAt i (a.opAt i d) = d

theorem wellFormed_iff (a : Sym) : a.wellFormed = true ↔ WellFormedS a := by
  unfold Sym.wellFormed
  simp only [Bool.and_eq_true, decide_eq_true_eq, beq_iff_eq, List.all_eq_true, mem_chambersS,
    mem_indicesS, ge_iff_le]
  constructor
  · rintro ⟨⟨⟨h1, h2⟩, h3⟩, h4⟩
    exact ⟨h1, h2, h3, fun i d hi hd1 hd2 => ⟨(h4 i hi d ⟨hd1, hd2⟩).1.1, (h4 i hi d ⟨hd1, hd2⟩).1.2⟩,
      fun i d hi hd1 hd2 => (h4 i hi d ⟨hd1, hd2⟩).2⟩
  · rintro ⟨h1, h2, h3, h4, h5⟩
    exact ⟨⟨⟨h1, h2⟩, h3⟩, fun i hi d hd => ⟨h4 i d hi hd.1 hd.2, h5 i d hi hd.1 hd.2⟩⟩

theorem farCommute_iff (a : Sym) : a.farCommute = true ↔
    ∀ i j d, i + 1 < j → j ≤ a.dim → 1 ≤ d → d ≤ a.size →
      a.opAt j (a.opAt i d) = a.opAt i (a.opAt j d) := by
  unfold Sym.farCommute
  simp only [List.all_eq_true, mem_chambersS, mem_indicesS, Bool.or_eq_true, Bool.not_eq_true',
    decide_eq_false_iff_not, beq_iff_eq]
  constructor
  · intro h i j d hij hj h1 h2
    rcases h i (by omega) j hj with h' | h'
    · exact absurd hij h'
    · exact h' d ⟨h1, h2⟩
  · intro h i _ j hj
    by_cases hij : i + 1 < j
    · exact Or.inr (fun d hd => h i j d hij hj hd.1 hd.2)
    · exact Or.inl hij

theorem vOnOrbits_iff (a : Sym) : a.vOnOrbits = true ↔
    ∀ i d, i < a.dim → 1 ≤ d → d ≤ a.size →
      a.vAt i (a.opAt i d) = a.vAt i d ∧ a.vAt i (a.opAt (i + 1) d) = a.vAt i d := by
  unfold Sym.vOnOrbits
  simp only [List.all_eq_true, List.mem_range, mem_chambersS, Bool.and_eq_true, beq_iff_eq]
  constructor
  · intro h i d hi h1 h2; exact h i hi d ⟨h1, h2⟩
  · intro h i hi d hd; exact h i d hi hd.1 hd.2

/-- reachable from chamber 1 by the operations of the tables -/
inductive ReachS (a : Sym) : Nat → Prop
  | base : ReachS a 1
  | step {d : Nat} (i : Nat) : i ≤ a.dim → ReachS a d → ReachS a (a.opAt i d)

/-- every chamber is reachable from chamber 1 -/
def ConnS (a : Sym) : Prop := ∀ d, 1 ≤ d → d ≤ a.size → ReachS a d

theorem reachRound_sound (a : Sym) (mark : Array Bool)
    (h : ∀ x, mark.getD x false = true → ReachS a x) :
    ∀ x, (a.reachRound mark).getD x false = true → ReachS a x := by
  unfold Sym.reachRound
  apply foldl_inv (P := fun m : Array Bool => ∀ x, m.getD x false = true → ReachS a x)
  · exact h
  · intro m d _ hm
    by_cases hd : m.getD d false = true
    · rw [if_pos hd]
      apply foldl_inv (P := fun m : Array Bool => ∀ x, m.getD x false = true → ReachS a x)
      · exact hm
      · intro m' i hi hm' x hx
        rw [getD_setIfInBounds] at hx
        by_cases hc : a.opAt i d = x ∧ a.opAt i d < m'.size
        · rw [← hc.1]; exact ReachS.step i (mem_indicesS.1 hi) (hm d hd)
        · rw [if_neg hc] at hx; exact hm' x hx
    · rw [if_neg hd]; exact hm

theorem reachGo_sound (a : Sym) : ∀ (k : Nat) (m : Array Bool),
    (∀ x, m.getD x false = true → ReachS a x) →
    ∀ x, (Sym.reachFrom1.go a k m).getD x false = true → ReachS a x
  | 0, _, h => h
  | k + 1, m, h => by
    rw [Sym.reachFrom1.go]
    split
    · exact h
    · exact reachGo_sound a k _ (reachRound_sound a m h)

/-- `connected` only says yes when every chamber is reachable from chamber 1 -/
theorem connected_sound {a : Sym} (h : a.connected = true) : ConnS a := by
  unfold Sym.connected at h
  simp only [List.all_eq_true, mem_chambersS] at h
  intro d h1 h2
  have := h d ⟨h1, h2⟩
  unfold Sym.reachFrom1 at this
  refine reachGo_sound a a.size _ ?_ d this
  intro x hx
  rw [getD_setIfInBounds] at hx
  by_cases hc : 1 = x ∧ 1 < (Array.replicate (a.size + 1) false).size
  · rw [← hc.1]; exact ReachS.base
  · rw [if_neg hc, getD_replicate] at hx; cases hx

theorem ReachS.range {a : Sym} (hw : WellFormedS a) {d : Nat} (h : ReachS a d) : 1 ≤ d ∧ d ≤ a.size := by
  induction h with
  | base => exact ⟨Nat.le_refl 1, hw.size⟩
  | step i hi _ ih => exact hw.range i _ hi ih.1 ih.2

/-! ### bijections and isomorphisms -/

/-- the first `k` chambers have images in range, pairwise different -/
def GoodUpTo (n : Nat) (f : Array Nat) (k : Nat) : Prop :=
  ∀ d, 1 ≤ d → d ≤ k → (1 ≤ f.getD d 0 ∧ f.getD d 0 ≤ n) ∧ ∀ d', 1 ≤ d' → d' < d → f.getD d' 0 ≠ f.getD d 0

def bijStep (n : Nat) (f : Array Nat) (acc : Bool × Array Bool) (d0 : Nat) : Bool × Array Bool :=
  let e := f.getD (d0 + 1) 0
  (acc.1 && decide (1 ≤ e) && decide (e ≤ n) && !acc.2.getD e true, acc.2.setIfInBounds e true)

theorem isBijection_eq (n : Nat) (f : Array Nat) :
    isBijection n f = ((List.range n).foldl (bijStep n f) (true, Array.replicate (n + 1) false)).1 := rfl

theorem bij_prefix (n : Nat) (f : Array Nat) : ∀ k,
    let acc := (List.range k).foldl (bijStep n f) (true, Array.replicate (n + 1) false)
    acc.2.size = n + 1 ∧ (acc.1 = true ↔ GoodUpTo n f k) ∧
    (acc.1 = true → ∀ e, e ≤ n → (acc.2.getD e false = true ↔ ∃ d, 1 ≤ d ∧ d ≤ k ∧ f.getD d 0 = e))
  | 0 => by
    simp only [List.range_zero, List.foldl_nil]
    refine ⟨by simp, ⟨fun _ d h1 h2 => by omega, fun _ => trivial⟩, ?_⟩
    intro _ e _
    rw [getD_replicate]
    constructor
    · intro h; cases h
    · rintro ⟨d, h1, h2, _⟩; omega
  | k + 1 => by
    obtain ⟨hs, hg, hm⟩ := bij_prefix n f k
    simp only [List.range_succ, List.foldl_append, List.foldl_cons, List.foldl_nil]
    generalize (List.range k).foldl (bijStep n f) (true, Array.replicate (n + 1) false) = acc at hs hg hm
    unfold bijStep
    simp only
    refine ⟨by simp [hs], ?_, ?_⟩
    · -- acc'.1 ↔ GoodUpTo (k+1)
      simp only [Bool.and_eq_true, decide_eq_true_eq, Bool.not_eq_true']
      constructor
      · rintro ⟨⟨⟨h1, h2⟩, h3⟩, h4⟩
        have hgood := hg.1 h1
        have hmk := hm h1 (f.getD (k + 1) 0) h3
        have hin : f.getD (k + 1) 0 < acc.2.size := by rw [hs]; omega
        have hget : acc.2.getD (f.getD (k + 1) 0) true = acc.2.getD (f.getD (k + 1) 0) false :=
          getD_dflt _ _ _ _ hin
        rw [hget] at h4
        intro d hd1 hd2
        by_cases hd : d ≤ k
        · exact hgood d hd1 hd
        · have : d = k + 1 := by omega
          subst this
          refine ⟨⟨h2, h3⟩, ?_⟩
          intro d' hd1' hd2' heq
          have : acc.2.getD (f.getD (k + 1) 0) false = true := hmk.2 ⟨d', hd1', by omega, heq⟩
          rw [this] at h4; cases h4
      · intro hgood
        have hgk : GoodUpTo n f k := fun d h1 h2 => hgood d h1 (by omega)
        have h1 := hg.2 hgk
        have hr := (hgood (k + 1) (by omega) (Nat.le_refl _)).1
        have hin : f.getD (k + 1) 0 < acc.2.size := by rw [hs]; omega
        have hget : acc.2.getD (f.getD (k + 1) 0) true = acc.2.getD (f.getD (k + 1) 0) false :=
          getD_dflt _ _ _ _ hin
        refine ⟨⟨⟨h1, hr.1⟩, hr.2⟩, ?_⟩
        rw [hget]
        cases hb : acc.2.getD (f.getD (k + 1) 0) false with
        | false => rfl
        | true =>
          obtain ⟨d, hd1, hd2, hd3⟩ := (hm h1 _ hr.2).1 hb
          exact absurd hd3 ((hgood (k + 1) (by omega) (Nat.le_refl _)).2 d hd1 (by omega))
    · intro hacc e he
      simp only [Bool.and_eq_true, decide_eq_true_eq, Bool.not_eq_true'] at hacc
      obtain ⟨⟨⟨h1, _⟩, h3⟩, _⟩ := hacc
      rw [getD_setIfInBounds]
      by_cases hc : f.getD (k + 1) 0 = e ∧ f.getD (k + 1) 0 < acc.2.size
      · rw [if_pos hc]
        exact ⟨fun _ => ⟨k + 1, by omega, Nat.le_refl _, hc.1⟩, fun _ => rfl⟩
      · rw [if_neg hc, hm h1 e he]
        constructor
        · rintro ⟨d, hd1, hd2, hd3⟩; exact ⟨d, hd1, by omega, hd3⟩
        · rintro ⟨d, hd1, hd2, hd3⟩
          by_cases hd : d = k + 1
          · subst hd
            exfalso; apply hc
            exact ⟨hd3, by rw [hs, hd3]; omega⟩
          · exact ⟨d, hd1, by omega, hd3⟩

/-- **`isBijection`** says yes exactly for the injections of 1..n into 1..n -/
theorem isBijection_iff (n : Nat) (f : Array Nat) : isBijection n f = true ↔
    (∀ d, 1 ≤ d → d ≤ n → 1 ≤ f.getD d 0 ∧ f.getD d 0 ≤ n) ∧
    (∀ d e, 1 ≤ d → d ≤ n → 1 ≤ e → e ≤ n → f.getD d 0 = f.getD e 0 → d = e) := by
  rw [isBijection_eq, (bij_prefix n f n).2.1]
  constructor
  · intro h
    refine ⟨fun d h1 h2 => (h d h1 h2).1, ?_⟩
    intro d e hd1 hd2 he1 he2 heq
    rcases Nat.lt_trichotomy d e with hlt | heq' | hgt
    · exact absurd heq ((h e he1 he2).2 d hd1 hlt)
    · exact heq'
    · exact absurd heq.symm ((h d hd1 hd2).2 e he1 hgt)
  · rintro ⟨h1, h2⟩ d hd1 hd2
    refine ⟨h1 d hd1 hd2, ?_⟩
    intro d' hd1' hd2' heq
    have := h2 d' d hd1' (by omega) hd1 hd2 heq
    omega

/-- the definition of an isomorphism, on the Spec's tables -/
structure SymIso (g : Nat → Nat) (a b : Sym) : Prop where
  size : b.size = a.size
  dim : b.dim = a.dim
  range : ∀ d, 1 ≤ d → d ≤ a.size → 1 ≤ g d ∧ g d ≤ a.size
  inj : ∀ d e, 1 ≤ d → d ≤ a.size → 1 ≤ e → e ≤ a.size → g d = g e → d = e
  op : ∀ i d, i ≤ a.dim → 1 ≤ d → d ≤ a.size → b.opAt i (g d) = g (a.opAt i d)
  v : ∀ i d, i < a.dim → 1 ≤ d → d ≤ a.size → b.vAt i (g d) = a.vAt i d

/-- **`isIso` is the definition of an isomorphism** -/
theorem isIso_iff (f : Array Nat) (a b : Sym) :
    isIso f a b = true ↔ SymIso (fun d => f.getD d 0) a b := by
  unfold isIso
  simp only [Bool.and_eq_true, beq_iff_eq, List.all_eq_true, mem_chambersS, mem_indicesS,
    List.mem_range, isBijection_iff]
  constructor
  · rintro ⟨⟨⟨⟨h1, h2⟩, h3, h4⟩, h5⟩, h6⟩
    exact ⟨h1.symm, h2.symm, h3, h4, fun i d hi hd1 hd2 => h5 i hi d ⟨hd1, hd2⟩,
      fun i d hi hd1 hd2 => h6 i hi d ⟨hd1, hd2⟩⟩
  · rintro ⟨h1, h2, h3, h4, h5, h6⟩
    exact ⟨⟨⟨⟨h1.symm, h2.symm⟩, h3, h4⟩, fun i hi d hd => h5 i d hi hd.1 hd.2⟩,
      fun i hi d hd => h6 i d hi hd.1 hd.2⟩

/-- an isomorphism only matters on the chambers -/
theorem SymIso.congr {g g' : Nat → Nat} {a b : Sym} (hw : WellFormedS a) (h : SymIso g a b)
    (hgg : ∀ d, 1 ≤ d → d ≤ a.size → g' d = g d) : SymIso g' a b := by
  refine ⟨h.size, h.dim, ?_, ?_, ?_, ?_⟩
  · intro d h1 h2; rw [hgg d h1 h2]; exact h.range d h1 h2
  · intro d e hd1 hd2 he1 he2 hde
    rw [hgg d hd1 hd2, hgg e he1 he2] at hde
    exact h.inj d e hd1 hd2 he1 he2 hde
  · intro i d hi h1 h2
    have r := hw.range i d hi h1 h2
    rw [hgg d h1 h2, hgg _ r.1 r.2]; exact h.op i d hi h1 h2
  · intro i d hi h1 h2
    rw [hgg d h1 h2]; exact h.v i d hi h1 h2

/-! ### the search is sound -/

theorem findSome_mem {α β : Type} {f : α → Option β} : ∀ {l : List α} {y : β},
    l.findSome? f = some y → ∃ x ∈ l, f x = some y
  | [], _, h => by cases h
  | x :: l, y, h => by
    rw [List.findSome?_cons] at h
    cases hx : f x with
    | some z =>
      rw [hx] at h
      exact ⟨x, List.mem_cons_self .., by rw [hx]; exact h⟩
    | none =>
      rw [hx] at h
      obtain ⟨x', hx', hy⟩ := findSome_mem h
      exact ⟨x', List.mem_cons_of_mem _ hx', hy⟩

theorem findSome_isSome {α β : Type} {f : α → Option β} : ∀ {l : List α} {x : α},
    x ∈ l → (f x).isSome = true → (l.findSome? f).isSome = true
  | [], _, h, _ => by cases h
  | y :: l, x, h, hx => by
    rw [List.findSome?_cons]
    cases hy : f y with
    | some z => rfl
    | none =>
      simp only
      rcases List.mem_cons.1 h with rfl | h'
      · rw [hy] at hx; cases hx
      · exact findSome_isSome h' hx

/-- **whatever the search returns is an isomorphism** -/
theorem findIso_sound {a b : Sym} {f : Array Nat} (h : findIso a b = some f) : isIso f a b = true := by
  unfold findIso at h
  split at h
  · cases h
  · obtain ⟨img1, _, hx⟩ := findSome_mem h
    cases he : extendFrom a b img1 with
    | none => rw [he] at hx; cases hx
    | some f' =>
      rw [he] at hx
      simp only at hx
      split at hx
      · cases hx; assumption
      · cases hx

/-! ### the search is complete -/

/-- the partial map `f` agrees with `g` wherever it is assigned (0 = unassigned) -/
structure Sub (n : Nat) (g : Nat → Nat) (f : Array Nat) : Prop where
  size : f.size = n + 1
  val : ∀ d, 1 ≤ d → d ≤ n → f.getD d 0 = 0 ∨ f.getD d 0 = g d

/-- `f'` extends `f`: same length, changes only at unassigned chambers -/
structure Ext (n : Nat) (f f' : Array Nat) : Prop where
  size : f'.size = f.size
  val : ∀ x, f'.getD x 0 = f.getD x 0 ∨ (1 ≤ x ∧ x ≤ n ∧ f.getD x 0 = 0)

theorem Ext.refl (n : Nat) (f : Array Nat) : Ext n f f := ⟨rfl, fun _ => Or.inl rfl⟩

theorem Ext.trans {n : Nat} {f f' f'' : Array Nat} (h1 : Ext n f f') (h2 : Ext n f' f'') : Ext n f f'' := by
  refine ⟨by rw [h2.size, h1.size], ?_⟩
  intro x
  rcases h2.val x with h | ⟨hx1, hx2, h⟩
  · rcases h1.val x with h' | h'
    · exact Or.inl (by rw [h, h'])
    · exact Or.inr h'
  · rcases h1.val x with h' | h'
    · exact Or.inr ⟨hx1, hx2, by rw [← h', h]⟩
    · exact Or.inr h'

theorem Ext.keep {n : Nat} {f f' : Array Nat} (h : Ext n f f') {x : Nat} (hx : f.getD x 0 ≠ 0) :
    f'.getD x 0 = f.getD x 0 := by
  rcases h.val x with h' | ⟨_, _, h'⟩
  · exact h'
  · exact absurd h' hx

def innerStep (a b : Sym) (d fd : Nat) (acc : Option (Array Nat)) (i : Nat) : Option (Array Nat) :=
  match acc with
  | none => none
  | some f =>
    let e := a.opAt i d
    let fe := b.opAt i fd
    let cur := f.getD e 0
    if cur == 0 then some (f.setIfInBounds e fe)
    else if cur == fe then some f else none

def outerStep (a b : Sym) (acc : Option (Array Nat)) (d : Nat) : Option (Array Nat) :=
  match acc with
  | none => none
  | some f =>
    let fd := f.getD d 0
    if fd == 0 then some f else a.indices.foldl (innerStep a b d fd) (some f)

theorem extendRound_eq (a b : Sym) (f : Array Nat) :
    extendRound a b f = a.chambers.foldl (outerStep a b) (some f) := rfl

section
variable {a b : Sym} {g : Nat → Nat} (hw : WellFormedS a) (iso : SymIso g a b)
include hw iso

theorem inner_complete {d : Nat} (hd : 1 ≤ d ∧ d ≤ a.size) :
    ∀ (is : List Nat), (∀ i ∈ is, i ≤ a.dim) → ∀ f, Sub a.size g f → f.getD d 0 = g d →
      ∃ f', is.foldl (innerStep a b d (g d)) (some f) = some f' ∧ Sub a.size g f' ∧ Ext a.size f f' ∧
        ∀ i ∈ is, f'.getD (a.opAt i d) 0 ≠ 0
  | [], _, f, hs, _ => ⟨f, rfl, hs, Ext.refl _ _, fun _ h => by cases h⟩
  | i :: is, his, f, hs, hfd => by
    have hi := his i (List.mem_cons_self ..)
    have he := hw.range i d hi hd.1 hd.2
    have hge := iso.range _ he.1 he.2
    have hfe : b.opAt i (g d) = g (a.opAt i d) := iso.op i d hi hd.1 hd.2
    have hgd := iso.range d hd.1 hd.2
    rw [List.foldl_cons]
    -- the state after index i
    have step : ∃ f1, innerStep a b d (g d) (some f) i = some f1 ∧ Sub a.size g f1 ∧ Ext a.size f f1 ∧
        f1.getD d 0 = g d ∧ f1.getD (a.opAt i d) 0 ≠ 0 := by
      unfold innerStep
      simp only [hfe]
      rcases hs.val _ he.1 he.2 with h0 | hg
      · -- unassigned: assign
        rw [if_pos (by rw [h0]; rfl)]
        have hne : a.opAt i d ≠ d := by
          intro hc; rw [hc, hfd] at h0; omega
        have hlt : a.opAt i d < f.size := by rw [hs.size]; omega
        refine ⟨_, rfl, ⟨by simp [hs.size], ?_⟩, ⟨by simp, ?_⟩, ?_, ?_⟩
        · intro x hx1 hx2
          rw [getD_setIfInBounds]
          by_cases hc : a.opAt i d = x ∧ a.opAt i d < f.size
          · rw [if_pos hc, ← hc.1]; exact Or.inr rfl
          · rw [if_neg hc]; exact hs.val x hx1 hx2
        · intro x
          rw [getD_setIfInBounds]
          by_cases hc : a.opAt i d = x ∧ a.opAt i d < f.size
          · rw [if_pos hc]; exact Or.inr ⟨by rw [← hc.1]; exact he.1, by rw [← hc.1]; exact he.2, by rw [← hc.1]; exact h0⟩
          · rw [if_neg hc]; exact Or.inl rfl
        · rw [getD_setIfInBounds, if_neg (fun hc => hne hc.1)]; exact hfd
        · rw [getD_setIfInBounds, if_pos ⟨rfl, hlt⟩]; omega
      · -- assigned: must agree, and does
        rw [if_neg (by rw [hg]; simp; omega), if_pos (by rw [hg]; simp)]
        exact ⟨f, rfl, hs, Ext.refl _ _, hfd, by rw [hg]; omega⟩
    obtain ⟨f1, e1, hs1, hx1, hfd1, hne1⟩ := step
    rw [e1]
    obtain ⟨f', e', hs', hx', hall⟩ := inner_complete hd is (fun j hj => his j (List.mem_cons_of_mem _ hj)) f1 hs1 hfd1
    refine ⟨f', e', hs', hx1.trans hx', ?_⟩
    intro j hj
    rcases List.mem_cons.1 hj with rfl | hj
    · rw [hx'.keep hne1]; exact hne1
    · exact hall j hj

theorem outer_complete :
    ∀ (ds : List Nat), (∀ d ∈ ds, 1 ≤ d ∧ d ≤ a.size) → ∀ f, Sub a.size g f →
      ∃ f', ds.foldl (outerStep a b) (some f) = some f' ∧ Sub a.size g f' ∧ Ext a.size f f' ∧
        ∀ d ∈ ds, f.getD d 0 ≠ 0 → ∀ i, i ≤ a.dim → f'.getD (a.opAt i d) 0 ≠ 0
  | [], _, f, hs => ⟨f, rfl, hs, Ext.refl _ _, fun _ h => by cases h⟩
  | d :: ds, hds, f, hs => by
    have hd := hds d (List.mem_cons_self ..)
    rw [List.foldl_cons]
    have step : ∃ f1, outerStep a b (some f) d = some f1 ∧ Sub a.size g f1 ∧ Ext a.size f f1 ∧
        (f.getD d 0 ≠ 0 → ∀ i, i ≤ a.dim → f1.getD (a.opAt i d) 0 ≠ 0) := by
      unfold outerStep
      simp only
      by_cases h0 : f.getD d 0 = 0
      · rw [if_pos (by rw [h0]; rfl)]
        exact ⟨f, rfl, hs, Ext.refl _ _, fun hc => absurd h0 hc⟩
      · rw [if_neg (by simpa using h0)]
        have hfd : f.getD d 0 = g d := by
          rcases hs.val d hd.1 hd.2 with h | h
          · exact absurd h h0
          · exact h
        rw [hfd]
        obtain ⟨f1, e1, hs1, hx1, hall⟩ := inner_complete hw iso hd a.indices (fun i hi => mem_indicesS.1 hi) f hs hfd
        exact ⟨f1, e1, hs1, hx1, fun _ i hi => hall i (mem_indicesS.2 hi)⟩
    obtain ⟨f1, e1, hs1, hx1, hcl1⟩ := step
    rw [e1]
    obtain ⟨f', e', hs', hx', hall⟩ := outer_complete ds (fun x hx => hds x (List.mem_cons_of_mem _ hx)) f1 hs1
    refine ⟨f', e', hs', hx1.trans hx', ?_⟩
    intro x hx hfx i hi
    rcases List.mem_cons.1 hx with rfl | hx
    · have := hcl1 hfx i hi
      rw [hx'.keep this]; exact this
    · exact hall x hx (by rw [hx1.keep hfx]; exact hfx) i hi

end

theorem filter_length_lt {α : Type} (p p' : α → Bool) : ∀ (l : List α),
    (∀ x ∈ l, p' x = true → p x = true) → (∃ x ∈ l, p x = true ∧ p' x = false) →
    (l.filter p').length < (l.filter p).length
  | [], _, ⟨_, h, _⟩ => by cases h
  | y :: l, hsub, ⟨x, hx, hpx, hpx'⟩ => by
    have hle : ∀ (l : List α), (∀ x ∈ l, p' x = true → p x = true) →
        (l.filter p').length ≤ (l.filter p).length := by
      intro l
      induction l with
      | nil => intro _; simp
      | cons z l ih =>
        intro h
        have ih' := ih (fun x hx => h x (List.mem_cons_of_mem _ hx))
        have hz := h z (List.mem_cons_self ..)
        rw [List.filter_cons, List.filter_cons]
        cases hp' : p' z with
        | true => rw [hz hp']; simp; exact ih'
        | false =>
          cases hp : p z with
          | true => simp; omega
          | false => simp; exact ih'
    have hsub' : ∀ x ∈ l, p' x = true → p x = true := fun x hx => hsub x (List.mem_cons_of_mem _ hx)
    rw [List.filter_cons, List.filter_cons]
    rcases List.mem_cons.1 hx with rfl | hx
    · rw [hpx, hpx']
      simp
      have := hle l hsub'
      omega
    · have ih := filter_length_lt p p' l hsub' ⟨x, hx, hpx, hpx'⟩
      have hy := hsub y (List.mem_cons_self ..)
      cases hp' : p' y with
      | true => rw [hy hp']; simp; exact ih
      | false =>
        cases hp : p y with
        | true => simp; omega
        | false => simp; exact ih

/-- number of unassigned chambers -/
def unassigned (a : Sym) (f : Array Nat) : Nat := (a.chambers.filter (fun d => f.getD d 0 == 0)).length

theorem array_ext_getD {f f' : Array Nat} (hs : f'.size = f.size) (h : ∀ x, f'.getD x 0 = f.getD x 0) :
    f' = f := by
  apply Array.ext hs
  intro i h1 h2
  have := h i
  rw [Array.getD_eq_getD_getElem?, Array.getD_eq_getD_getElem?, Array.getElem?_eq_getElem h1,
    Array.getElem?_eq_getElem h2] at this
  exact this

theorem go_complete {a b : Sym} {g : Nat → Nat} (hw : WellFormedS a) (hc : ConnS a) (iso : SymIso g a b) :
    ∀ (k : Nat) (f : Array Nat), Sub a.size g f → f.getD 1 0 ≠ 0 → unassigned a f ≤ k →
      ∃ f', extendFrom.go a b k f = some f' ∧ Sub a.size g f' ∧
        ∀ d, 1 ≤ d → d ≤ a.size → f'.getD d 0 ≠ 0
  | 0, f, hs, _, hu => by
    refine ⟨f, rfl, hs, ?_⟩
    intro d h1 h2
    have : a.chambers.filter (fun d => f.getD d 0 == 0) = [] := List.eq_nil_of_length_eq_zero (by unfold unassigned at hu; omega)
    have := (List.filter_eq_nil_iff.1 this) d (mem_chambersS.2 ⟨h1, h2⟩)
    simpa using this
  | k + 1, f, hs, h1, hu => by
    rw [extendFrom.go, extendRound_eq]
    obtain ⟨f1, e1, hs1, hx1, hcl⟩ := outer_complete hw iso a.chambers (fun d hd => mem_chambersS.1 hd) f hs
    rw [e1]
    simp only
    by_cases heq : f1 = f
    · rw [if_pos (by rw [heq]; simp)]
      subst heq
      refine ⟨f1, rfl, hs, ?_⟩
      intro d hd1 hd2
      have hr := hc d hd1 hd2
      induction hr with
      | base => exact h1
      | @step d i hi hr' ih =>
        have r := hr'.range hw
        exact hcl d (mem_chambersS.2 r) (ih r.1 r.2) i hi
    · rw [if_neg (by simpa using heq)]
      -- a new chamber was assigned
      have hdiff : ∃ x, f1.getD x 0 ≠ f.getD x 0 := by
        by_contra hcon
        apply heq
        exact array_ext_getD hx1.size (fun x => by
          by_contra hne; exact hcon ⟨x, hne⟩)
      obtain ⟨x, hx⟩ := hdiff
      have hxr : 1 ≤ x ∧ x ≤ a.size ∧ f.getD x 0 = 0 := by
        rcases hx1.val x with h | h
        · exact absurd h hx
        · exact h
      have hlt : unassigned a f1 < unassigned a f := by
        unfold unassigned
        apply filter_length_lt
        · intro y _ hy
          simp only [beq_iff_eq] at hy ⊢
          rcases hx1.val y with h | h
          · rw [← h]; exact hy
          · exact h.2.2
        · refine ⟨x, mem_chambersS.2 ⟨hxr.1, hxr.2.1⟩, by simp [hxr.2.2], ?_⟩
          rw [hxr.2.2] at hx
          simpa using hx
      exact go_complete hw hc iso k f1 hs1 (by rw [hx1.keep h1]; exact h1) (by omega)

/-- started from the image of chamber 1 under an isomorphism `g` of a connected symbol, the
    extension is forced: it returns `g` on all chambers -/
theorem extendFrom_complete {a b : Sym} {g : Nat → Nat} (hw : WellFormedS a) (hc : ConnS a)
    (iso : SymIso g a b) :
    ∃ f, extendFrom a b (g 1) = some f ∧ ∀ d, 1 ≤ d → d ≤ a.size → f.getD d 0 = g d := by
  have hg1 := iso.range 1 (Nat.le_refl 1) hw.size
  have hlt : 1 < (Array.replicate (a.size + 1) 0).size := by simp; exact hw.size
  have hs0 : Sub a.size g ((Array.replicate (a.size + 1) 0).setIfInBounds 1 (g 1)) := by
    refine ⟨by simp, ?_⟩
    intro d h1 h2
    rw [getD_setIfInBounds]
    by_cases hc : 1 = d ∧ 1 < (Array.replicate (a.size + 1) 0).size
    · rw [if_pos hc, ← hc.1]; exact Or.inr rfl
    · rw [if_neg hc, getD_replicate]; exact Or.inl rfl
  have h10 : ((Array.replicate (a.size + 1) 0).setIfInBounds 1 (g 1)).getD 1 0 ≠ 0 := by
    rw [getD_setIfInBounds, if_pos ⟨rfl, hlt⟩]; omega
  have hu : unassigned a ((Array.replicate (a.size + 1) 0).setIfInBounds 1 (g 1)) ≤ a.size := by
    unfold unassigned
    have := List.length_filter_le (fun d => ((Array.replicate (a.size + 1) 0).setIfInBounds 1 (g 1)).getD d 0 == 0) a.chambers
    have hl : a.chambers.length = a.size := by simp [Sym.chambers]
    omega
  obtain ⟨f, ef, hsf, hall⟩ := go_complete hw hc iso a.size _ hs0 h10 hu
  refine ⟨f, ef, ?_⟩
  intro d h1 h2
  rcases hsf.val d h1 h2 with h | h
  · exact absurd h (hall d h1 h2)
  · exact h

/-- **the search finds an isomorphism whenever one exists** (connected source) -/
theorem findIso_complete {a b : Sym} {g : Nat → Nat} (hw : WellFormedS a) (hc : ConnS a)
    (iso : SymIso g a b) : (findIso a b).isSome = true := by
  obtain ⟨f, ef, hfg⟩ := extendFrom_complete hw hc iso
  have hiso : isIso f a b = true :=
    (isIso_iff f a b).2 (iso.congr hw (fun d h1 h2 => hfg d h1 h2))
  unfold findIso
  rw [if_neg (by simp [iso.size, iso.dim])]
  have hg1 := iso.range 1 (Nat.le_refl 1) hw.size
  apply findSome_isSome (x := g 1)
  · exact mem_chambersS.2 ⟨hg1.1, by rw [iso.size]; exact hg1.2⟩
  · rw [ef]; simp only; rw [if_pos hiso]; rfl

/-! ### tables and model symbols that describe the same symbol -/

/-- `build_set` + `build_sym_using_vs` on the tables of a complete D-symbol -/
theorem ofTables_valid {size dim : Nat} {op v : Nat → Nat → Nat} (hsize : 1 ≤ size) (hdim : 1 ≤ dim)
    (hrange : ∀ i d, i ≤ dim → 1 ≤ d → d ≤ size → 1 ≤ op i d ∧ op i d ≤ size)
    (hinvol : ∀ i d, i ≤ dim → 1 ≤ d → d ≤ size → op i (op i d) = d)
    (hfar : ∀ i j d, i + 1 < j → j ≤ dim → 1 ≤ d → d ≤ size → op j (op i d) = op i (op j d))
    (hv : ∀ i d, i < dim → 1 ≤ d → d ≤ size → v i (op i d) = v i d ∧ v i (op (i + 1) d) = v i d) :
    ∃ s, ofTables size dim op v = .ok s ∧ ValidSym s ∧ s.size = size ∧ s.dim = dim ∧
      (∀ i d, i ≤ dim → 1 ≤ d → d ≤ size → s.op i d = some (op i d)) ∧
      (∀ i d, i < dim → 1 ≤ d → d ≤ size → s.vAdj i d = some (v i d)) := by
  obtain ⟨ds, hds, dsize, ddim, dvalid, dop⟩ :=
    buildSet_of_total_involution (op := fun i d => let e := op i d; if e = 0 then none else some e)
      (f := op) hsize hdim
      (fun i d hi h1 h2 => by
        have := hrange i d hi h1 h2
        simp only
        rw [if_neg (by omega)])
      hrange hinvol
  have dfar : FarCommute ds := by
    intro i j d hij hj h1 h2
    rw [ddim] at hj; rw [dsize] at h2
    have hi : i ≤ dim := by omega
    have r1 := hrange i d hi h1 h2
    have r2 := hrange j d hj h1 h2
    rw [dop i d hi h1 h2, dop j d hj h1 h2, dop j _ hj r1.1 r1.2, dop i _ hi r2.1 r2.2]
    exact hfar i j d hij hj h1 h2
  have hV : ∀ i x y, i < ds.dim → 1 ≤ x → x ≤ ds.size → Orb2 ds i (i + 1) x y → v i x = v i y := by
    intro i x y hi h1 h2 ho
    rw [ddim] at hi
    induction ho with
    | refl => rfl
    | @stepI e ho' ih =>
      have he := Orb2.range dvalid (by rw [ddim]; omega) (by rw [ddim]; omega) ⟨h1, h2⟩ ho'
      rw [dsize] at he
      rw [dop i e (by omega) he.1 he.2, (hv i e hi he.1 he.2).1]; exact ih
    | @stepJ e ho' ih =>
      have he := Orb2.range dvalid (by rw [ddim]; omega) (by rw [ddim]; omega) ⟨h1, h2⟩ ho'
      rw [dsize] at he
      rw [dop (i + 1) e (by omega) he.1 he.2, (hv i e hi he.1 he.2).2]; exact ih
  obtain ⟨s, hs, svalid, sdset, sv⟩ :=
    buildSymUsingVs_spec (v := fun i d => some (v i d)) (V := v) dvalid dfar (fun _ _ _ _ _ => rfl) hV
  have ssize : s.size = size := by show s.dset.size = _; rw [sdset, dsize]
  have sdim : s.dim = dim := by show s.dset.dim = _; rw [sdset, ddim]
  refine ⟨s, ?_, svalid, ssize, sdim, ?_, ?_⟩
  · unfold ofTables; rw [hds]; exact hs
  · intro i d hi h1 h2
    show s.dset.opSimple i d = _
    rw [opSimple_inR (by rw [sdset, ddim]; exact hi) h1 (by rw [sdset, dsize]; exact h2), sdset,
      dop i d hi h1 h2]
  · intro i d hi h1 h2
    exact sv i d (by rw [ddim]; exact hi) h1 (by rw [dsize]; exact h2)


/-- the Spec's tables `a` and the model's symbol `s` describe the same symbol -/
structure SymAgrees (a : Sym) (s : DSymData) : Prop where
  size : s.size = a.size
  dim : s.dim = a.dim
  op : ∀ i d, i ≤ a.dim → 1 ≤ d → d ≤ a.size → s.op i d = some (a.opAt i d)
  v : ∀ i d, i < a.dim → 1 ≤ d → d ≤ a.size → s.vAdj i d = some (a.vAt i d)

theorem SymAgrees.opU {a : Sym} {s : DSymData} (h : SymAgrees a s) {i d : Nat} (hi : i ≤ a.dim)
    (h1 : 1 ≤ d) (h2 : d ≤ a.size) : s.dset.opU i d = a.opAt i d := by
  have := h.op i d hi h1 h2
  have e : s.op i d = some (s.dset.opU i d) :=
    opSimple_inR (show i ≤ s.dset.dim by rw [show s.dset.dim = s.dim from rfl, h.dim]; exact hi) h1
      (show d ≤ s.dset.size by rw [show s.dset.size = s.size from rfl, h.size]; exact h2)
  rw [e] at this
  exact Option.some.inj this

theorem SymAgrees.orbitVs {a : Sym} {s : DSymData} (h : SymAgrees a s) (hv : ValidTables s) {i d : Nat}
    (hi : i < a.dim) (h1 : 1 ≤ d) (h2 : d ≤ a.size) : s.orbitVs.getD (s.ixAt i d) 0 = a.vAt i d := by
  have := h.v i d hi h1 h2
  unfold DSymData.vAdj at this
  rw [hv.vPartial_adj (by rw [h.dim]; exact hi) h1 (by rw [h.size]; exact h2)] at this
  exact Option.some.inj this

/-- **meaning of the Spec's isomorphism**: on tables and model symbols that describe the same
    symbols, the Spec's definition and `IsIso` coincide -/
theorem symIso_iff_isIso {a b : Sym} {sa sb : DSymData} (ha : SymAgrees a sa) (hb : SymAgrees b sb)
    (g : Nat → Nat) : SymIso g a b ↔ IsIso g sa sb := by
  constructor
  · intro h
    refine ⟨by rw [hb.size, ha.size, h.size], by rw [hb.dim, ha.dim, h.dim], ?_, ?_, ?_, ?_⟩
    · intro d h1 h2; rw [ha.size] at h2 ⊢; exact h.range d h1 h2
    · intro d e hd1 hd2 he1 he2; rw [ha.size] at hd2 he2; exact h.inj d e hd1 hd2 he1 he2
    · intro i d hi h1 h2
      rw [ha.dim] at hi; rw [ha.size] at h2
      have r := h.range d h1 h2
      rw [ha.op i d hi h1 h2, hb.op i _ (by rw [h.dim]; exact hi) r.1 (by rw [h.size]; exact r.2),
        h.op i d hi h1 h2]
      rfl
    · intro i d hi h1 h2
      rw [ha.dim] at hi; rw [ha.size] at h2
      have r := h.range d h1 h2
      rw [ha.v i d hi h1 h2, hb.v i _ (by rw [h.dim]; exact hi) r.1 (by rw [h.size]; exact r.2),
        h.v i d hi h1 h2]
  · intro h
    have hsz : b.size = a.size := by rw [← hb.size, ← ha.size, h.size]
    have hdm : b.dim = a.dim := by rw [← hb.dim, ← ha.dim, h.dim]
    refine ⟨hsz, hdm, ?_, ?_, ?_, ?_⟩
    · intro d h1 h2; have := h.range d h1 (by rw [ha.size]; exact h2); rw [ha.size] at this; exact this
    · intro d e hd1 hd2 he1 he2
      exact h.inj d e hd1 (by rw [ha.size]; exact hd2) he1 (by rw [ha.size]; exact he2)
    · intro i d hi h1 h2
      have r := h.range d h1 (by rw [ha.size]; exact h2)
      rw [ha.size] at r
      have := h.op i d (by rw [ha.dim]; exact hi) h1 (by rw [ha.size]; exact h2)
      rw [ha.op i d hi h1 h2, hb.op i _ (by rw [hdm]; exact hi) r.1 (by rw [hsz]; exact r.2)] at this
      exact Option.some.inj this
    · intro i d hi h1 h2
      have r := h.range d h1 (by rw [ha.size]; exact h2)
      rw [ha.size] at r
      have := h.v i d (by rw [ha.dim]; exact hi) h1 (by rw [ha.size]; exact h2)
      rw [ha.v i d hi h1 h2, hb.v i _ (by rw [hdm]; exact hi) r.1 (by rw [hsz]; exact r.2)] at this
      exact Option.some.inj this

theorem SymAgrees.conn {a : Sym} {s : DSymData} (h : SymAgrees a s) (hw : WellFormedS a) (hc : ConnS a) :
    Conn s := by
  intro d h1 h2
  rw [h.size] at h2
  have hr := hc d h1 h2
  induction hr with
  | base => exact View.Reach.refl 1
  | @step d i hi hr' ih =>
    have r := hr'.range hw
    refine View.Reach.step (ih r.1 r.2) ((mem_indices s.view i).2 (by
      show i ≤ s.dim; rw [h.dim]; exact hi)) ?_
    exact h.op i d hi r.1 r.2

/-- what `inDomain` means -/
theorem inDomain_iff_parts (a : Sym) : inDomain a = true ↔
    1 ≤ a.dim ∧ a.wellFormed = true ∧ a.farCommute = true ∧ a.vOnOrbits = true ∧ a.connected = true := by
  unfold inDomain
  simp only [Bool.and_eq_true, decide_eq_true_eq, ge_iff_le]
  constructor
  · rintro ⟨⟨⟨⟨h1, h2⟩, h3⟩, h4⟩, h5⟩; exact ⟨h1, h2, h3, h4, h5⟩
  · rintro ⟨h1, h2, h3, h4, h5⟩; exact ⟨⟨⟨⟨h1, h2⟩, h3⟩, h4⟩, h5⟩

/-- **decoding of transmitted tables**: tables that pass the Spec's `inDomain` are decoded by
    `ofTables` (= `RawSym.toSym`, i.e. `build_set` + `build_sym_using_vs`) without panic into a valid,
    connected symbol that describes the same symbol as the Spec's view of the tables -/
theorem decode_valid {a : Sym} (h : inDomain a = true) :
    ∃ s, ofTables a.size a.dim a.opAt a.vAt = .ok s ∧ ValidSym s ∧ 1 ≤ s.size ∧ 1 ≤ s.dim ∧
      Conn s ∧ SymAgrees a s := by
  obtain ⟨hdim, hwf, hfar, hvo, hcon⟩ := (inDomain_iff_parts a).1 h
  have hw := (wellFormed_iff a).1 hwf
  obtain ⟨s, hs, hvalid, hsize, hdm, hop, hv⟩ :=
    ofTables_valid (op := a.opAt) (v := a.vAt) hw.size hdim hw.range hw.invol
      ((farCommute_iff a).1 hfar) ((vOnOrbits_iff a).1 hvo)
  have hag : SymAgrees a s := ⟨hsize, hdm, hop, hv⟩
  exact ⟨s, hs, hvalid, by rw [hsize]; exact hw.size, by rw [hdm]; exact hdim,
    hag.conn hw (connected_sound hcon), hag⟩

/-- the Spec's view of transmitted tables -/
def rawToSpec (r : DSymVerif.Proto.RawSym) : Sym := { size := r.size, dim := r.dim, op := r.op, v := r.v }

/-- `decode_valid` for the driver's decoder `RawSym.toSym` -/
theorem decode_raw_valid (r : DSymVerif.Proto.RawSym) (h : inDomain (rawToSpec r) = true) :
    ∃ s, r.toSym = .ok s ∧ ValidSym s ∧ 1 ≤ s.size ∧ 1 ≤ s.dim ∧ Conn s ∧ SymAgrees (rawToSpec r) s :=
  decode_valid h

/-- **`isomorphic` decides isomorphism**: for in-domain tables `a` and any tables `b`, with model
    symbols describing the same symbols -/
theorem isomorphic_iff {a b : Sym} {sa sb : DSymData} (hd : inDomain a = true)
    (ha : SymAgrees a sa) (hb : SymAgrees b sb) :
    isomorphic a b = true ↔ ∃ g, IsIso g sa sb := by
  obtain ⟨_, hwf, _, _, hcon⟩ := (inDomain_iff_parts a).1 hd
  have hw := (wellFormed_iff a).1 hwf
  unfold isomorphic
  constructor
  · intro h
    obtain ⟨f, hf⟩ := Option.isSome_iff_exists.1 h
    exact ⟨_, (symIso_iff_isIso ha hb _).1 ((isIso_iff f a b).1 (findIso_sound hf))⟩
  · rintro ⟨g, hg⟩
    exact findIso_complete hw (connected_sound hcon) ((symIso_iff_isIso ha hb g).2 hg)

end CanonP
end DSymVerif.DS
