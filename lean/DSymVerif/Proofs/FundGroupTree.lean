/-
Helper lemmas for property C09, part 16: `spanning_tree(ds)` is a spanning tree of the chamber
graph of a connected symbol — `size - 1` facets, and every chamber is joined to one root chamber
by them.  (So the tree relators of `TRel` are those of the textbook presentation.)
-/
import DSymVerif.Proofs.FundGroupTotal2
import Mathlib.Data.List.Perm.Basic

namespace DSymVerif.FGP
open DSymVerif DSymVerif.DS DSymVerif.FG

/-- `x` is the root or the far side of a facet of `L` -/
def Reached (ds : DSymData) (root : Nat) (L : List Edge) (x : Nat) : Prop :=
  x = root ∨ ∃ e ∈ L, ds.dset.opU e.2 e.1 = x

theorem Reached.mono {ds : DSymData} {root : Nat} {L L' : List Edge} (h : ∀ e ∈ L, e ∈ L') {x : Nat}
    (hx : Reached ds root L x) : Reached ds root L' x := by
  rcases hx with h1 | ⟨e, he, h2⟩
  · exact Or.inl h1
  · exact Or.inr ⟨e, h e he, h2⟩

/-- facets listed in the order of a graph search from `root` -/
inductive OTree (ds : DSymData) (root : Nat) : List Edge → Prop
  | nil : OTree ds root []
  | snoc {L : List Edge} {d i : Nat} : OTree ds root L → FacetR ds d i → Reached ds root L d →
      ¬ Reached ds root L (ds.dset.opU i d) → OTree ds root (L ++ [(d, i)])

theorem OTree.source_reached {ds : DSymData} {root : Nat} {L : List Edge} (h : OTree ds root L) :
    ∀ e ∈ L, FacetR ds e.1 e.2 ∧ Reached ds root L e.1 := by
  induction h with
  | nil => intro e he; cases he
  | @snoc L d i _ hf hr _ ih =>
    intro e he
    rcases List.mem_append.1 he with h | h
    · exact ⟨(ih e h).1, (ih e h).2.mono (fun x hx => List.mem_append_left _ hx)⟩
    · simp only [List.mem_singleton] at h
      subst h
      exact ⟨hf, hr.mono (fun x hx => List.mem_append_left _ hx)⟩

/-- reached from one of several roots -/
def ReachedF (ds : DSymData) (R : List Nat) (L : List Edge) (x : Nat) : Prop :=
  x ∈ R ∨ ∃ e ∈ L, ds.dset.opU e.2 e.1 = x

/-- a search forest: roots may be added when they are not yet reached -/
inductive OForest (ds : DSymData) : List Nat → List Edge → Prop
  | nil : OForest ds [] []
  | root {R : List Nat} {L : List Edge} {x : Nat} : OForest ds R L → ¬ ReachedF ds R L x →
      OForest ds (x :: R) L
  | snoc {R : List Nat} {L : List Edge} {d i : Nat} : OForest ds R L → FacetR ds d i →
      ReachedF ds R L d → ¬ ReachedF ds R L (ds.dset.opU i d) → OForest ds R (L ++ [(d, i)])

theorem OForest.no_root {ds : DSymData} {R : List Nat} {L : List Edge} (h : OForest ds R L) :
    R = [] → L = [] := by
  induction h with
  | nil => intro _; rfl
  | root _ _ _ => intro h; cases h
  | @snoc R L d i _ _ hr _ ih =>
    intro hR
    have := ih hR
    subst this; subst hR
    rcases hr with h | ⟨e, he, _⟩
    · cases h
    · cases he

theorem OForest.toTree {ds : DSymData} {R : List Nat} {L : List Edge} (h : OForest ds R L) :
    ∀ root, R = [root] → OTree ds root L := by
  induction h with
  | nil => intro root h; cases h
  | @root R L x hf _ _ =>
    intro root hR
    have h1 : R = [] := (List.cons.inj hR).2
    have := hf.no_root h1
    subst this
    exact OTree.nil
  | @snoc R L d i _ hfac hr hn ih =>
    intro root hR
    have hconv : ∀ x, ReachedF ds R L x ↔ Reached ds root L x := by
      intro x
      unfold ReachedF Reached
      rw [hR]
      simp
    exact OTree.snoc (ih root hR) hfac ((hconv d).1 hr) (fun h => hn ((hconv _).2 h))

/-- `x` is joined to `root` by tree facets, each crossed from its recorded side -/
inductive TreeReach (ds : DSymData) (tree : List Item) (root : Nat) : Nat → Prop
  | root : TreeReach ds tree root root
  | step {d i : Nat} : TreeReach ds tree root d → (d, i, none) ∈ tree →
      TreeReach ds tree root (ds.dset.opU i d)

theorem TreeReach.mono {ds : DSymData} {tree tree' : List Item} (h : ∀ it ∈ tree, it ∈ tree')
    {root x : Nat} (hr : TreeReach ds tree root x) : TreeReach ds tree' root x := by
  induction hr with
  | root => exact TreeReach.root
  | step _ hm ih => exact TreeReach.step ih (h _ hm)

/-- the body of the loop of `spanning_tree` -/
def treeStep (acc : List Nat × List Item) (t : View.TravItem) : List Nat × List Item :=
  if acc.1.contains t.2.2 then acc
  else (t.2.2 :: acc.1,
        match t.1 with
        | some i => acc.2 ++ [(t.2.1, i, none)]
        | none => acc.2)

theorem spanningTree_eq (ds : DSymData) :
    spanningTree ds = ((ds.view.traversal ds.view.indices ds.view.elements.reverse).foldl
      treeStep ([], [])).2 := rfl

def isStart (t : View.TravItem) : Bool := t.1.isNone

/-- the facets of a list of queue items -/
def edgesOf (l : List Item) : List Edge := l.map fun it => (it.1, it.2.1)

structure TreeInv (ds : DSymData) (pre : List View.TravItem) (acc : List Nat × List Item) : Prop where
  seen : ∀ x, x ∈ acc.1 ↔ ∃ u ∈ pre, u.2.2 = x
  nodup : acc.1.Nodup
  count : acc.1.length = acc.2.length + (pre.filter isStart).length
  reach : ∀ x ∈ acc.1, ∃ s ∈ pre, s.1 = none ∧ TreeReach ds acc.2 s.2.1 x
  items : ∀ it ∈ acc.2, it.2.2 = none
  forest : ∃ R, OForest ds R (edgesOf acc.2) ∧ (∀ x, x ∈ acc.1 ↔ ReachedF ds R (edgesOf acc.2) x) ∧
    R.length = (pre.filter isStart).length ∧ ∀ x, x ∈ R ↔ ∃ s ∈ pre, s.1 = none ∧ s.2.1 = x

theorem tree_fold {ds : DSymData} (hv : ValidSet ds.dset) :
    ∀ (post pre : List View.TravItem) (acc : List Nat × List Item),
    ds.view.traversal ds.view.indices ds.view.elements.reverse = pre ++ post →
    TreeInv ds pre acc →
    TreeInv ds (pre ++ post) (post.foldl treeStep acc)
  | [], pre, acc, _, h => by simpa using h
  | t :: post, pre, acc, hsplit, h => by
    have hseeds : ∀ d ∈ ds.view.elements.reverse, 1 ≤ d ∧ d ≤ ds.size := fun d hd =>
      (DS.mem_elements ds.view d).1 (List.mem_reverse.1 hd)
    obtain ⟨s1, s2, _⟩ := C02.traversal_sound ds.view ds.view.indices ds.view.elements.reverse
      pre post t hsplit
    have hmem : t ∈ ds.view.traversal ds.view.indices ds.view.elements.reverse := by
      rw [hsplit]; simp
    rw [List.foldl_cons]
    have happ : pre ++ t :: post = (pre ++ [t]) ++ post := by simp
    rw [happ]
    apply tree_fold hv post (pre ++ [t]) _ (by rw [hsplit]; simp)
    unfold treeStep
    by_cases hc : acc.1.contains t.2.2 = true
    · rw [if_pos hc]
      have hin : t.2.2 ∈ acc.1 := by simpa using hc
      -- a start item always reaches a new chamber, so this is an edge item
      have hsome : t.1 ≠ none := by
        intro hn
        obtain ⟨e1, _, e3, _⟩ := s2 hn
        obtain ⟨u, hu, hue⟩ := (h.seen _).1 hin
        exact e3 u hu (by rw [hue, e1])
      have hst : isStart t = false := by
        unfold isStart
        cases ht : t.1 with
        | none => exact absurd ht hsome
        | some i => rfl
      refine ⟨?_, h.nodup, ?_, ?_, h.items, ?_⟩
      rotate_right
      · obtain ⟨R, f1, f2, f3, f4⟩ := h.forest
        refine ⟨R, f1, f2, ?_, ?_⟩
        · rw [List.filter_append, List.length_append]
          simp [hst, f3]
        · intro x
          rw [f4 x]
          constructor
          · rintro ⟨s, hs, h1, h2⟩; exact ⟨s, List.mem_append_left _ hs, h1, h2⟩
          · rintro ⟨s, hs, h1, h2⟩
            rcases List.mem_append.1 hs with hs | hs
            · exact ⟨s, hs, h1, h2⟩
            · simp only [List.mem_singleton] at hs
              subst hs
              exact absurd h1 hsome
      · intro x
        rw [h.seen x]
        constructor
        · rintro ⟨u, hu, hx⟩; exact ⟨u, List.mem_append_left _ hu, hx⟩
        · rintro ⟨u, hu, hx⟩
          rcases List.mem_append.1 hu with hu | hu
          · exact ⟨u, hu, hx⟩
          · simp only [List.mem_singleton] at hu
            subst hu
            exact (h.seen x).1 (hx ▸ hin)
      · rw [List.filter_append, List.length_append]
        simp [hst, h.count]
      · intro x hx
        obtain ⟨s, hs, h1, h2⟩ := h.reach x hx
        exact ⟨s, List.mem_append_left _ hs, h1, h2⟩
    · rw [if_neg hc]
      have hnin : t.2.2 ∉ acc.1 := by simpa using hc
      cases ht : t.1 with
      | none =>
        simp only
        have hst : isStart t = true := by unfold isStart; rw [ht]; rfl
        obtain ⟨e1, _, _, _⟩ := s2 ht
        refine ⟨?_, List.nodup_cons.2 ⟨hnin, h.nodup⟩, ?_, ?_, h.items, ?_⟩
        rotate_right
        · obtain ⟨R, f1, f2, f3, f4⟩ := h.forest
          refine ⟨t.2.2 :: R, OForest.root f1 (fun hr => hnin ((f2 _).2 hr)), ?_, ?_, ?_⟩
          · intro x
            rw [List.mem_cons, f2 x]
            unfold ReachedF
            rw [List.mem_cons]
            tauto
          · rw [List.filter_append, List.length_append, List.length_cons]
            simp [hst, f3]
          · intro x
            rw [List.mem_cons, f4 x]
            constructor
            · rintro (hx | ⟨s, hs, h1, h2⟩)
              · exact ⟨t, by simp, ht, by rw [hx, e1]⟩
              · exact ⟨s, List.mem_append_left _ hs, h1, h2⟩
            · rintro ⟨s, hs, h1, h2⟩
              rcases List.mem_append.1 hs with hs | hs
              · exact Or.inr ⟨s, hs, h1, h2⟩
              · simp only [List.mem_singleton] at hs
                subst hs
                exact Or.inl (by rw [← h2, e1])
        · intro x
          rw [List.mem_cons, h.seen x]
          constructor
          · rintro (hx | ⟨u, hu, hx⟩)
            · exact ⟨t, by simp, hx.symm⟩
            · exact ⟨u, List.mem_append_left _ hu, hx⟩
          · rintro ⟨u, hu, hx⟩
            rcases List.mem_append.1 hu with hu | hu
            · exact Or.inr ⟨u, hu, hx⟩
            · simp only [List.mem_singleton] at hu
              subst hu
              exact Or.inl hx.symm
        · rw [List.filter_append, List.length_append, List.length_cons]
          simp [hst, h.count]
          omega
        · intro x hx
          rcases List.mem_cons.1 hx with hx | hx
          · refine ⟨t, by simp, ht, ?_⟩
            rw [hx, e1]
            exact TreeReach.root
          · obtain ⟨s, hs, h1, h2⟩ := h.reach x hx
            exact ⟨s, List.mem_append_left _ hs, h1, h2⟩
      | some i =>
        simp only
        have hst : isStart t = false := by unfold isStart; rw [ht]; rfl
        obtain ⟨_, e2, u, hu, hue⟩ := s1 i ht
        have hfac := traversal_item_range hv _ hseeds t hmem i ht
        have htgt : t.2.2 = ds.dset.opU i t.2.1 := by
          rw [e2]
          show (ds.op i t.2.1).getD t.2.1 = _
          rw [op_eq hfac.2.2 hfac.1 hfac.2.1]; rfl
        have hsrc : t.2.1 ∈ acc.1 := (h.seen _).2 ⟨u, hu, hue⟩
        refine ⟨?_, List.nodup_cons.2 ⟨hnin, h.nodup⟩, ?_, ?_, ?_, ?_⟩
        rotate_right
        · obtain ⟨R, f1, f2, f3, f4⟩ := h.forest
          have he : edgesOf (acc.2 ++ [(t.2.1, i, none)]) = edgesOf acc.2 ++ [(t.2.1, i)] := by
            unfold edgesOf; simp
          rw [he]
          refine ⟨R, OForest.snoc f1 hfac ((f2 _).1 hsrc) (fun hr => hnin (by rw [htgt]; exact (f2 _).2 hr)),
            ?_, ?_, ?_⟩
          rotate_left 2
          · intro x
            rw [f4 x]
            constructor
            · rintro ⟨s, hs, h1, h2⟩; exact ⟨s, List.mem_append_left _ hs, h1, h2⟩
            · rintro ⟨s, hs, h1, h2⟩
              rcases List.mem_append.1 hs with hs | hs
              · exact ⟨s, hs, h1, h2⟩
              · simp only [List.mem_singleton] at hs
                subst hs
                rw [ht] at h1; cases h1
          · intro x
            rw [List.mem_cons, f2 x]
            unfold ReachedF
            constructor
            · rintro (hx | hx | ⟨e, he', hx⟩)
              · exact Or.inr ⟨(t.2.1, i), by simp, by rw [hx, htgt]⟩
              · exact Or.inl hx
              · exact Or.inr ⟨e, List.mem_append_left _ he', hx⟩
            · rintro (hx | ⟨e, he', hx⟩)
              · exact Or.inr (Or.inl hx)
              · rcases List.mem_append.1 he' with he' | he'
                · exact Or.inr (Or.inr ⟨e, he', hx⟩)
                · simp only [List.mem_singleton] at he'
                  subst he'
                  exact Or.inl (by rw [← hx, htgt])
          · rw [List.filter_append, List.length_append]
            simp [hst, f3]
        · intro x
          rw [List.mem_cons, h.seen x]
          constructor
          · rintro (hx | ⟨u, hu, hx⟩)
            · exact ⟨t, by simp, hx.symm⟩
            · exact ⟨u, List.mem_append_left _ hu, hx⟩
          · rintro ⟨u, hu, hx⟩
            rcases List.mem_append.1 hu with hu | hu
            · exact Or.inr ⟨u, hu, hx⟩
            · simp only [List.mem_singleton] at hu
              subst hu
              exact Or.inl hx.symm
        · rw [List.filter_append, List.length_append, List.length_cons, List.length_append]
          simp [hst, h.count]
          omega
        · intro x hx
          rcases List.mem_cons.1 hx with hx | hx
          · obtain ⟨s, hs, h1, h2⟩ := h.reach _ hsrc
            refine ⟨s, List.mem_append_left _ hs, h1, ?_⟩
            rw [hx, htgt]
            exact TreeReach.step (h2.mono (fun it hit => List.mem_append_left _ hit)) (by simp)
          · obtain ⟨s, hs, h1, h2⟩ := h.reach x hx
            exact ⟨s, List.mem_append_left _ hs, h1, h2.mono (fun it hit => List.mem_append_left _ hit)⟩
        · intro it hit
          rcases List.mem_append.1 hit with hit | hit
          · exact h.items it hit
          · simp only [List.mem_singleton] at hit
            rw [hit]

/-- **`spanning_tree(ds)` is a spanning tree** of the chamber graph of a connected symbol -/
theorem spanningTree_spanning {ds : DSymData} (hv : ValidSet ds.dset) (hsize : 1 ≤ ds.size)
    (hc : ds.view.isConnected = true) :
    (spanningTree ds).length + 1 = ds.size ∧
    ∃ root, 1 ≤ root ∧ root ≤ ds.size ∧
      (∀ x, 1 ≤ x → x ≤ ds.size → TreeReach ds (spanningTree ds) root x) ∧
      OTree ds root (edgesOf (spanningTree ds)) ∧
      ∀ x, 1 ≤ x → x ≤ ds.size → Reached ds root (edgesOf (spanningTree ds)) x := by
  have hp : ds.view.PInvol := (C02.traversal_hyp ds.dset).2.2 ds hv
  have hconn := (C02.isConnected_iff ds.view hp).1 hc
  have hseeds : ∀ d ∈ ds.view.elements.reverse, 1 ≤ d ∧ d ≤ ds.size := fun d hd =>
    (DS.mem_elements ds.view d).1 (List.mem_reverse.1 hd)
  have hinv := tree_fold hv (ds.view.traversal ds.view.indices ds.view.elements.reverse) [] ([], [])
    (by simp) ⟨fun x => (by simp), List.nodup_nil, (by simp), fun x hx => (by cases hx),
      fun it hit => (by cases hit),
      ⟨[], OForest.nil, fun x => (by simp [ReachedF, edgesOf]), (by simp), fun x => (by simp)⟩⟩
  rw [List.nil_append] at hinv
  obtain ⟨c1, _, _, _, c5, _⟩ := C02.traversal_complete ds.view hp ds.view.indices ds.view.elements.reverse
  set tr := ds.view.traversal ds.view.indices ds.view.elements.reverse with htr
  set acc := tr.foldl treeStep ([], []) with hacc
  have htree : spanningTree ds = acc.2 := rfl
  -- the seen chambers are exactly the chambers
  have hseen : ∀ x, x ∈ acc.1 ↔ 1 ≤ x ∧ x ≤ ds.size := by
    intro x
    rw [hinv.seen x, c1 x]
    constructor
    · rintro ⟨d, hd, hr⟩
      exact reach_range hp (hseeds d hd) hr
    · intro hx
      exact ⟨x, List.mem_reverse.2 ((DS.mem_elements ds.view x).2 hx), View.Reach.refl x⟩
  have hlen : acc.1.length = ds.size := by
    have hperm : acc.1.Perm ds.view.elements := by
      rw [List.perm_ext_iff_of_nodup hinv.nodup]
      · intro x; rw [hseen x, DS.mem_elements]; rfl
      · unfold View.elements
        exact List.Nodup.map (fun a b h => by simpa using h) List.nodup_range
    rw [hperm.length_eq]
    unfold View.elements
    simp
    rfl
  -- exactly one start item
  have hreachAll : ∀ a b, 1 ≤ a → a ≤ ds.size → 1 ≤ b → b ≤ ds.size →
      ds.view.Reach ds.view.indices a b := fun a b a1 a2 b1 b2 =>
    ((hconn a a1 a2).symm hp).trans (hconn b b1 b2)
  have hstarts : (tr.filter isStart).length ≤ 1 := by
    have hpw := List.Pairwise.filter isStart c5
    match hf : tr.filter isStart, hpw with
    | [], _ => simp
    | [_], _ => simp
    | a :: b :: rest, hpw =>
      exfalso
      have ha : a ∈ tr.filter isStart := by rw [hf]; simp
      have hb : b ∈ tr.filter isStart := by rw [hf]; simp
      obtain ⟨ha1, ha2⟩ := List.mem_filter.1 ha
      obtain ⟨hb1, hb2⟩ := List.mem_filter.1 hb
      have han : a.1 = none := by unfold isStart at ha2; simpa using ha2
      have hbn : b.1 = none := by unfold isStart at hb2; simpa using hb2
      have hrel := (List.pairwise_cons.1 hpw).1 b (by simp) han hbn
      -- both start chambers are chambers
      have hra : 1 ≤ a.2.1 ∧ a.2.1 ≤ ds.size := by
        obtain ⟨pre, post, hsp⟩ := List.append_of_mem ha1
        obtain ⟨_, s2, _⟩ := C02.traversal_sound ds.view ds.view.indices ds.view.elements.reverse
          pre post a hsp
        exact hseeds _ (s2 han).2.1
      have hrb : 1 ≤ b.2.1 ∧ b.2.1 ≤ ds.size := by
        obtain ⟨pre, post, hsp⟩ := List.append_of_mem hb1
        obtain ⟨_, s2, _⟩ := C02.traversal_sound ds.view ds.view.indices ds.view.elements.reverse
          pre post b hsp
        exact hseeds _ (s2 hbn).2.1
      exact hrel (hreachAll _ _ hra.1 hra.2 hrb.1 hrb.2)
  have hone := hinv.reach 1 ((hseen 1).2 ⟨Nat.le_refl 1, hsize⟩)
  obtain ⟨s, hs, hsn, _⟩ := hone
  have hsm : s ∈ tr.filter isStart := List.mem_filter.2 ⟨hs, by unfold isStart; rw [hsn]; rfl⟩
  have hcount : (tr.filter isStart).length = 1 := by
    have : 0 < (tr.filter isStart).length := List.length_pos_of_mem hsm
    omega
  have huniq : ∀ s' ∈ tr.filter isStart, s' = s := by
    intro s' hs'
    match hf : tr.filter isStart with
    | [] => rw [hf] at hsm; cases hsm
    | [a] =>
      rw [hf] at hsm hs'
      simp only [List.mem_singleton] at hsm hs'
      rw [hs', hsm]
    | a :: b :: rest => rw [hf] at hcount; simp at hcount
  refine ⟨?_, s.2.1, ?_⟩
  · rw [htree]
    have := hinv.count
    omega
  · have hsr : 1 ≤ s.2.1 ∧ s.2.1 ≤ ds.size := by
      obtain ⟨pre, post, hsp⟩ := List.append_of_mem hs
      obtain ⟨_, s2, _⟩ := C02.traversal_sound ds.view ds.view.indices ds.view.elements.reverse
        pre post s hsp
      exact hseeds _ (s2 hsn).2.1
    obtain ⟨R, f1, f2, f3, f4⟩ := hinv.forest
    -- the only root is the start chamber
    have hR : R = [s.2.1] := by
      rw [hcount] at f3
      have hsR : s.2.1 ∈ R := (f4 _).2 ⟨s, hs, hsn, rfl⟩
      match R, f3, hsR with
      | [x], _, hsR =>
        simp only [List.mem_singleton] at hsR
        rw [hsR]
    have hot := f1.toTree s.2.1 hR
    have hreach : ∀ x, 1 ≤ x → x ≤ ds.size → Reached ds s.2.1 (edgesOf acc.2) x := by
      intro x h1 h2
      have := (f2 x).1 ((hseen x).2 ⟨h1, h2⟩)
      unfold ReachedF at this
      rw [hR] at this
      unfold Reached
      simpa using this
    refine ⟨hsr.1, hsr.2, ?_, by rw [htree]; exact hot, by rw [htree]; exact hreach⟩
    intro x h1 h2
    obtain ⟨s', hs', hsn', hr⟩ := hinv.reach x ((hseen x).2 ⟨h1, h2⟩)
    have : s' = s := huniq s' (List.mem_filter.2 ⟨hs', by unfold isStart; rw [hsn']; rfl⟩)
    rw [htree, ← this]
    exact hr

end DSymVerif.FGP
