/-
Helper lemmas for property C08, part 21: the orbifold symbol is invariant under morphisms of 2D
symbols (isomorphisms, dualisation), up to rotation and reversal of the boundary corner cycles.
-/
import DSymVerif.Proofs.Delaney2dCensusInv

namespace DSymVerif.D2
open DSymVerif.DS

/-! ### `sort` + `reverse` of the cones is canonical -/

theorem insertDescNat_sorted (x : Nat) (l : List Nat) (hl : l.Pairwise (· ≥ ·)) :
    (insertDescNat x l).Pairwise (· ≥ ·) := by
  induction l with
  | nil => exact List.pairwise_singleton _ _
  | cons y ys ih =>
    unfold insertDescNat
    have hys := List.Pairwise.of_cons hl
    have hy : ∀ z ∈ ys, y ≥ z := fun z hz => List.rel_of_pairwise_cons hl hz
    split
    · rename_i hxy
      refine List.Pairwise.cons ?_ (ih hys)
      intro z hz
      rcases List.mem_cons.1 ((insertDescNat_perm x ys).subset hz) with rfl | hz'
      · exact Nat.le_of_lt hxy
      · exact hy z hz'
    · rename_i hxy
      refine List.Pairwise.cons ?_ hl
      intro z hz
      rcases List.mem_cons.1 hz with rfl | hz'
      · omega
      · have := hy z hz'; omega

theorem sortDescNat_sorted (l : List Nat) : (sortDescNat l).Pairwise (· ≥ ·) := by
  induction l with
  | nil => exact List.Pairwise.nil
  | cons x xs ih => exact insertDescNat_sorted x _ ih

theorem sortDescNat_congr {l l' : List Nat} (h : l.Perm l') : sortDescNat l = sortDescNat l' := by
  refine List.Perm.eq_of_pairwise (le := (· ≥ ·)) ?_ (sortDescNat_sorted l) (sortDescNat_sorted l')
    (((sortDescNat_perm l).trans h).trans (sortDescNat_perm l').symm)
  intro a b _ _ hab hba
  omega

/-! ### Euler characteristic -/

namespace Mor
variable {g f : Nat → Nat} {a b : DSymData} (m : Mor g f a b)
include m

theorem map_loopsN {i : Nat} (hi : i ≤ 2) : loopsN b (g i) = loopsN a i := by
  unfold loopsN
  symm
  apply Finset.card_nbij f
  · intro x hx
    simp only [Finset.coe_filter, Finset.mem_Icc, Set.mem_ofPred_eq] at hx ⊢
    obtain ⟨⟨h1, h2⟩, hfix⟩ := hx
    have := m.f_range x h1 h2
    exact ⟨⟨this.1, by rw [m.size]; exact this.2⟩, by rw [m.op i x hi h1 h2, hfix]⟩
  · intro x hx z hz hxz
    simp only [Finset.coe_filter, Finset.mem_Icc, Set.mem_ofPred_eq] at hx hz
    exact m.f_inj x z hx.1.1 hx.1.2 hz.1.1 hz.1.2 hxz
  · intro e he
    simp only [Finset.coe_filter, Finset.mem_Icc, Set.mem_ofPred_eq] at he
    obtain ⟨⟨h1, h2⟩, hfix⟩ := he
    obtain ⟨d, hd1, hd2, rfl⟩ := CanonP.surj_of_inj m.f_range m.f_inj e h1 (by rw [← m.size]; exact h2)
    refine ⟨d, ?_, rfl⟩
    simp only [Finset.coe_filter, Finset.mem_Icc, Set.mem_ofPred_eq]
    refine ⟨⟨hd1, hd2⟩, ?_⟩
    rw [m.op i d hi hd1 hd2] at hfix
    have hr := m.va.set.range i d (by have := m.dima; show i ≤ a.dim; omega) hd1 hd2
    exact m.f_inj _ _ hr.1 hr.2 hd1 hd2 hfix

theorem loops_total : loopsN b 0 + loopsN b 1 + loopsN b 2 = loopsN a 0 + loopsN a 1 + loopsN a 2 := by
  have h0 := m.map_loopsN (i := 0) (by omega)
  have h1 := m.map_loopsN (i := 1) (by omega)
  have h2 := m.map_loopsN (i := 2) (by omega)
  have r0 := m.g_range 0 (by omega)
  have r1 := m.g_range 1 (by omega)
  have r2 := m.g_range 2 (by omega)
  have n01 : g 0 ≠ g 1 := fun e => by have := m.g_inj 0 1 (by omega) (by omega) e; omega
  have n02 : g 0 ≠ g 2 := fun e => by have := m.g_inj 0 2 (by omega) (by omega) e; omega
  have n12 : g 1 ≠ g 2 := fun e => by have := m.g_inj 1 2 (by omega) (by omega) e; omega
  have cases6 : (g 0 = 0 ∧ g 1 = 1 ∧ g 2 = 2) ∨ (g 0 = 0 ∧ g 1 = 2 ∧ g 2 = 1) ∨
      (g 0 = 1 ∧ g 1 = 0 ∧ g 2 = 2) ∨ (g 0 = 1 ∧ g 1 = 2 ∧ g 2 = 0) ∨
      (g 0 = 2 ∧ g 1 = 0 ∧ g 2 = 1) ∨ (g 0 = 2 ∧ g 1 = 1 ∧ g 2 = 0) := by omega
  rcases cases6 with ⟨e0, e1, e2⟩ | ⟨e0, e1, e2⟩ | ⟨e0, e1, e2⟩ | ⟨e0, e1, e2⟩ | ⟨e0, e1, e2⟩ | ⟨e0, e1, e2⟩ <;>
    rw [e0] at h0 <;> rw [e1] at h1 <;> rw [e2] at h2 <;> omega

theorem counts_eq : chainCount (typesOf b) = chainCount (typesOf a) ∧
    looplessCount (typesOf b) = looplessCount (typesOf a) := by
  have hc : chainCount (typesOf b) = chainCount (typesOf a) := by
    rw [← loops_eq_chains m.vb m.dimb, ← loops_eq_chains m.va m.dima, m.loops_total]
  refine ⟨hc, ?_⟩
  have hF := m.map_total (fun _ => (1 : ℚ))
  rw [← types_total, ← types_total] at hF
  have key : ∀ ts : List (Nat × Bool),
      (ts.map fun t => (if t.2 = true then (2 : ℚ) else 1) * (fun _ => (1 : ℚ)) t.1).sum =
        2 * (looplessCount ts : ℚ) + (chainCount ts : ℚ) := by
    intro ts
    induction ts with
    | nil => simp [looplessCount, chainCount]
    | cons t ts ih =>
      simp only [List.map_cons, List.sum_cons, ih]
      unfold looplessCount chainCount
      cases ht : t.2 <;> simp [ht] <;> ring
  rw [key, key, hc] at hF
  have : (looplessCount (typesOf b) : ℚ) = (looplessCount (typesOf a) : ℚ) := by linarith
  exact_mod_cast this

theorem euler_eq (ra rb : Rep) : eulerCharacteristic ⟨b, rb⟩ = eulerCharacteristic ⟨a, ra⟩ := by
  have ea := euler_value ra m.va m.dima
  have eb := euler_value rb m.vb m.dimb
  obtain ⟨hc, hl⟩ := m.counts_eq
  rw [hc, hl, m.size] at eb
  omega

end Mor

/-! ### the orbifold symbol -/

/-- the boundary cycles agree as a multiset modulo rotation and reversal: equally many entries
    and, for every class of cycles, equally many entries in it -/
def BndsEq (X Y : List (List Nat)) : Prop :=
  X.length = Y.length ∧
  ∀ P : List Nat → Bool, (∀ u v, CycEq u v → P u = P v) → X.countP P = Y.countP P

/-- what `orbifold_symbol` computes on a good 2D symbol -/
theorem orbifoldSymbol_unfold {s : Sym} (g : Good2d s) {bnds : List (List Nat)}
    (hb : traceBoundary s = .ok bnds) :
    orbifoldSymbol s =
      if 2 - (eulerCharacteristic s + (bnds.length : Int)) < 0 then .panic
      else .ok { cones := sortDescNat (conesOf (typesOf s.data)), bnds := bnds,
                 orientable := s.view.isWeaklyOriented,
                 count := if s.view.isWeaklyOriented
                   then (2 - (eulerCharacteristic s + (bnds.length : Int))).toNat / 2
                   else (2 - (eulerCharacteristic s + (bnds.length : Int))).toNat } := by
  unfold orbifoldSymbol
  have hc : s.isComplete = true := by
    cases hr : s.rep <;> simp [Sym.isComplete, hr, g.complete]
  rw [if_neg (by simp [g.dim]), if_neg (by simp [hc]), hb, coneDegrees_good g]

theorem Mor.symbol_invariant {g f : Nat → Nat} {a b : DSymData} (m : Mor g f a b) (ra rb : Rep)
    (ca : a.isCompletePartial = true) (cb : b.isCompletePartial = true) {oa : OrbSym}
    (ha : orbifoldSymbol ⟨a, ra⟩ = .ok oa) :
    ∃ ob, orbifoldSymbol ⟨b, rb⟩ = .ok ob ∧ ob.cones = oa.cones ∧ BndsEq oa.bnds ob.bnds ∧
      ob.orientable = oa.orientable ∧ ob.count = oa.count ∧ oa.bnds.flatten.Perm ob.bnds.flatten := by
  have ga : Good2d ⟨a, ra⟩ := ⟨m.va, m.dima, ca⟩
  have gb : Good2d ⟨b, rb⟩ := ⟨m.vb, m.dimb, cb⟩
  obtain ⟨bndsA, startsA, htA, TA⟩ := traceRecord_exists m.va m.dima ra
  obtain ⟨bndsB, startsB, htB, TB⟩ := traceRecord_exists m.vb m.dimb rb
  obtain ⟨hlen, hcount, hflat⟩ := bnds_count_eq m TA TB
  have hχ := m.euler_eq ra rb
  have hwo : (⟨b, rb⟩ : Sym).view.isWeaklyOriented = (⟨a, ra⟩ : Sym).view.isWeaklyOriented := m.weaklyOriented.symm
  have hcones : sortDescNat (conesOf (typesOf b)) = sortDescNat (conesOf (typesOf a)) :=
    sortDescNat_congr m.cones_perm.symm
  rw [orbifoldSymbol_unfold ga htA] at ha
  rw [orbifoldSymbol_unfold gb htB]
  have hx : (2 - (eulerCharacteristic ⟨b, rb⟩ + (bndsB.length : Int))) =
      (2 - (eulerCharacteristic ⟨a, ra⟩ + (bndsA.length : Int))) := by
    rw [hχ, hlen]
  rw [hx]
  split at ha
  · cases ha
  · rename_i hneg
    rw [if_neg hneg]
    have hoa := (Outcome.ok.inj ha).symm
    refine ⟨_, rfl, ?_, ?_, ?_, ?_, ?_⟩
    · rw [hoa]; exact hcones
    · rw [hoa]; exact ⟨hlen, hcount⟩
    · rw [hoa]; exact hwo
    · rw [hoa]; simp only; rw [hwo]
    · rw [hoa]; exact hflat

/-! ### the two instances: isomorphisms and dualisation -/

theorem vN_far {y : DSymData} (hdim : y.dim = 2) {j k d : Nat} (hjk : (j = 0 ∧ k = 2) ∨ (j = 2 ∧ k = 0))
    (hd : 1 ≤ d ∧ d ≤ y.size) :
    vN y j k d = if y.dset.opU 0 d = y.dset.opU 2 d then 2 else 1 := by
  have e0 : y.op 0 d = some (y.dset.opU 0 d) := opSimple_eq_some.2 ⟨by show 0 ≤ y.dim; omega, hd.1, hd.2, rfl⟩
  have e2 : y.op 2 d = some (y.dset.opU 2 d) := opSimple_eq_some.2 ⟨by show 2 ≤ y.dim; omega, hd.1, hd.2, rfl⟩
  rcases hjk with ⟨rfl, rfl⟩ | ⟨rfl, rfl⟩
  · unfold vN
    rw [y.vPartial_far' (i := 0) (j := 2) (Or.inl (by omega)) (by omega) (by omega) hd.1 hd.2, e0, e2]
    by_cases h : y.dset.opU 0 d = y.dset.opU 2 d <;> simp [h]
  · unfold vN
    rw [DSymData.vPartial_symm,
      y.vPartial_far' (i := 0) (j := 2) (Or.inl (by omega)) (by omega) (by omega) hd.1 hd.2, e0, e2]
    by_cases h : y.dset.opU 0 d = y.dset.opU 2 d <;> simp [h]

open DSymVerif.DS.CanonP in
/-- a C03 isomorphism of 2D symbols is a morphism (identity on the indices) -/
theorem mor_of_iso {a b : DSymData} {f : Nat → Nat} (iso : IsIso f a b) (ha : ValidSym a)
    (hb : ValidSym b) (hdim : a.dim = 2) : Mor id f a b := by
  have hdb : b.dim = 2 := by rw [iso.dim]; exact hdim
  have hop : ∀ i d, i ≤ 2 → 1 ≤ d → d ≤ a.size → b.dset.opU i (f d) = f (a.dset.opU i d) :=
    fun i d hi h1 h2 => iso_opU iso (by omega) ⟨h1, h2⟩
  refine ⟨ha, hb, hdim, hdb, iso.size, fun i hi => hi, fun i j _ _ e => e, iso.range, iso.inj, hop, ?_⟩
  intro j k d hj hk hjk h1 h2
  have hfd := iso.range d h1 h2
  have hfd' : 1 ≤ f d ∧ f d ≤ b.size := by rw [iso.size]; exact hfd
  have adj : ∀ i, i < 2 → vN b i (i + 1) (f d) = vN a i (i + 1) d := by
    intro i hi
    have := iso.v i d (by omega) h1 h2
    rw [vN_of_vAdj hb (by omega) hfd', vN_of_vAdj ha (by omega) ⟨h1, h2⟩] at this
    exact Option.some.inj this
  have symmN : ∀ (y : DSymData) (p q x : Nat), vN y p q x = vN y q p x := by
    intro y p q x; unfold vN; rw [DSymData.vPartial_symm]
  have far : ∀ j k, ((j = 0 ∧ k = 2) ∨ (j = 2 ∧ k = 0)) → vN b j k (f d) = vN a j k d := by
    intro j k hjk
    rw [vN_far hdb hjk hfd', vN_far hdim hjk ⟨h1, h2⟩, hop 0 d (by omega) h1 h2, hop 2 d (by omega) h1 h2]
    have r0 := ha.set.range 0 d (by show 0 ≤ a.dim; omega) h1 h2
    have r2 := ha.set.range 2 d (by show 2 ≤ a.dim; omega) h1 h2
    by_cases e : a.dset.opU 0 d = a.dset.opU 2 d
    · rw [if_pos e, if_pos (by rw [e])]
    · rw [if_neg e, if_neg (fun e' => e (iso.inj _ _ r0.1 r0.2 r2.1 r2.2 e'))]
  show vN b j k (f d) = vN a j k d
  have hcases : (j = 0 ∧ k = 1) ∨ (j = 1 ∧ k = 0) ∨ (j = 1 ∧ k = 2) ∨ (j = 2 ∧ k = 1) ∨
      (j = 0 ∧ k = 2) ∨ (j = 2 ∧ k = 0) := by omega
  rcases hcases with ⟨rfl, rfl⟩ | ⟨rfl, rfl⟩ | ⟨rfl, rfl⟩ | ⟨rfl, rfl⟩ | h | h
  · exact adj 0 (by omega)
  · rw [symmN b, symmN a]; exact adj 0 (by omega)
  · exact adj 1 (by omega)
  · rw [symmN b, symmN a]; exact adj 1 (by omega)
  · exact far j k (Or.inl h)
  · exact far j k (Or.inr h)

/-- dualisation is a morphism (identity on the chambers, indices reversed) -/
theorem mor_of_dual {s t : DSymData} (hs : ValidSym s) (hdim : s.dim = 2) (hsz : 1 ≤ s.size)
    (ht : dual s = .ok t) : Mor (fun i => 2 - i) id s t := by
  obtain ⟨t', ht', htv, htsz, htdm, hop, hv⟩ := dual_spec hs hsz (by omega)
  rw [ht] at ht'
  cases ht'
  have hdt : t.dim = 2 := by rw [htdm]; exact hdim
  have hop' : ∀ i d, i ≤ 2 → 1 ≤ d → d ≤ s.size → t.dset.opU (2 - i) d = s.dset.opU i d := by
    intro i d hi h1 h2
    rw [hop (2 - i) d (by omega) h1 h2, hdim]
    congr 1; omega
  refine ⟨hs, htv, hdim, hdt, htsz, fun i _ => by omega, fun i j hi hj e => by omega,
    fun d h1 h2 => ⟨h1, h2⟩, fun d e _ _ _ _ h => h, hop', ?_⟩
  intro j k d hj hk hjk h1 h2
  have hd' : 1 ≤ d ∧ d ≤ t.size := by rw [htsz]; exact ⟨h1, h2⟩
  have symmN : ∀ (y : DSymData) (p q x : Nat), vN y p q x = vN y q p x := by
    intro y p q x; unfold vN; rw [DSymData.vPartial_symm]
  -- adjacent pairs: v_{i,i+1} of the dual is v_{1-i,2-i}
  have adj : ∀ i, i < 2 → vN t i (i + 1) d = vN s (1 - i) (1 - i + 1) d := by
    intro i hi
    have := hv i d (by omega) h1 h2
    rw [vN_of_vAdj htv (by omega) hd', hdim] at this
    have e : 2 - i - 1 = 1 - i := by omega
    rw [e, vN_of_vAdj hs (by omega) ⟨h1, h2⟩] at this
    exact Option.some.inj this
  have far : ∀ j k, ((j = 0 ∧ k = 2) ∨ (j = 2 ∧ k = 0)) → vN t j k d = vN s j k d := by
    intro j k hjk
    rw [vN_far hdt hjk hd', vN_far hdim hjk ⟨h1, h2⟩]
    have e0 := hop' 2 d (by omega) h1 h2
    have e2 := hop' 0 d (by omega) h1 h2
    simp only [Nat.sub_self, Nat.sub_zero] at e0 e2
    rw [e0, e2]
    by_cases e : s.dset.opU 0 d = s.dset.opU 2 d
    · rw [if_pos e, if_pos e.symm]
    · rw [if_neg e, if_neg (fun e' => e e'.symm)]
  show vN t (2 - j) (2 - k) d = vN s j k d
  have hcases : (j = 0 ∧ k = 1) ∨ (j = 1 ∧ k = 0) ∨ (j = 1 ∧ k = 2) ∨ (j = 2 ∧ k = 1) ∨
      (j = 0 ∧ k = 2) ∨ (j = 2 ∧ k = 0) := by omega
  rcases hcases with ⟨rfl, rfl⟩ | ⟨rfl, rfl⟩ | ⟨rfl, rfl⟩ | ⟨rfl, rfl⟩ | ⟨rfl, rfl⟩ | ⟨rfl, rfl⟩
  · -- (0,1) ↦ (2,1)
    show vN t 2 1 d = vN s 0 1 d
    rw [symmN t]; exact adj 1 (by omega)
  · show vN t 1 2 d = vN s 1 0 d
    rw [symmN s]; exact adj 1 (by omega)
  · show vN t 1 0 d = vN s 1 2 d
    rw [symmN t]; exact adj 0 (by omega)
  · show vN t 0 1 d = vN s 2 1 d
    rw [symmN s]; exact adj 0 (by omega)
  · show vN t 2 0 d = vN s 0 2 d
    rw [far 2 0 (Or.inr ⟨rfl, rfl⟩), symmN s]
  · show vN t 0 2 d = vN s 2 0 d
    rw [far 0 2 (Or.inl ⟨rfl, rfl⟩), symmN s]

end DSymVerif.D2
