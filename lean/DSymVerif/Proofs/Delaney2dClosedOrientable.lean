/-
Helper lemmas for property C08, part 23: the Euler characteristic of an oriented (loopless,
bipartite) 2D symbol is even — by the signs of the three permutations s1∘s0, s2∘s1, s0∘s2 of the
black chambers, whose product is the identity and whose cycles are the 2-orbits.
-/
import DSymVerif.Proofs.PermSign
import DSymVerif.Proofs.Delaney2dSpecLink

namespace DSymVerif.D2
open DSymVerif.DS

/-- a proper 2-colouring of a loopless symbol -/
structure Colouring (y : DSymData) (c : Nat → Bool) : Prop where
  flip : ∀ i d, i ≤ 2 → 1 ≤ d → d ≤ y.size → c (y.dset.opU i d) ≠ c d

theorem colouring_of_oriented {y : DSymData} (h : ValidSym y) (hdim : y.dim = 2)
    (ho : y.view.isOriented = true) : ∃ c, Colouring y c := by
  have hpin : y.view.PInvol := by rw [y.view_eq]; exact h.set.pinvol
  obtain ⟨hl, c, hc⟩ := ((C02.isWeaklyOriented_iff_bipartite y.view hpin).2).1 ho
  refine ⟨c, ⟨?_⟩⟩
  intro i d hi h1 h2
  have hid : i ≤ y.view.dim := by show i ≤ y.dim; omega
  have hop : y.view.op i d = some (y.dset.opU i d) := opSimple_eq_some.2 ⟨by show i ≤ y.dim; omega, h1, h2, rfl⟩
  apply hc i d _ hid h1 h2 hop
  intro e
  exact hl i d hid h1 h2 (by rw [hop, e])

section
variable {y : DSymData} (h : ValidSym y) (hdim : y.dim = 2) {c : Nat → Bool} (col : Colouring y c)
include h hdim col

/-- the black chambers -/
def blackSet (y : DSymData) (c : Nat → Bool) : Finset Nat := (Finset.Icc 1 y.size).filter fun x => c x = true

omit h hdim col in
theorem mem_black {x : Nat} : x ∈ blackSet y c ↔ (1 ≤ x ∧ x ≤ y.size) ∧ c x = true := by
  unfold blackSet; simp [Finset.mem_filter, Finset.mem_Icc]

/-- every operation exchanges black and white chambers: as many black as white in a set closed
    under the operation -/
theorem black_white_card (S : Finset Nat) (hS : ∀ x ∈ S, 1 ≤ x ∧ x ≤ y.size) {i : Nat} (hi : i ≤ 2)
    (hcl : ∀ x ∈ S, y.dset.opU i x ∈ S) :
    (S.filter fun x => c x = true).card = (S.filter fun x => ¬ c x = true).card := by
  have hid : i ≤ y.dset.dim := by show i ≤ y.dim; omega
  apply Finset.card_nbij (y.dset.opU i)
  · intro x hx
    simp only [Finset.coe_filter, Set.mem_ofPred_eq] at hx ⊢
    have hr := hS x hx.1
    refine ⟨hcl x hx.1, ?_⟩
    have := col.flip i x hi hr.1 hr.2
    rw [hx.2] at this
    simpa using this
  · intro x hx z hz hxz
    simp only [Finset.coe_filter, Set.mem_ofPred_eq] at hx hz
    have hrx := hS x hx.1
    have hrz := hS z hz.1
    have := congrArg (y.dset.opU i) hxz
    rwa [h.set.invol i x hid hrx.1 hrx.2, h.set.invol i z hid hrz.1 hrz.2] at this
  · intro w hw
    simp only [Finset.coe_filter, Set.mem_ofPred_eq] at hw
    have hrw := hS w hw.1
    refine ⟨y.dset.opU i w, ?_, h.set.invol i w hid hrw.1 hrw.2⟩
    simp only [Finset.coe_filter, Set.mem_ofPred_eq]
    refine ⟨hcl w hw.1, ?_⟩
    have := col.flip i w hi hrw.1 hrw.2
    cases hcw : c w
    · rw [hcw] at this; simpa using this
    · exact absurd hcw hw.2

/-- half of the chambers are black -/
theorem size_eq_two_black : y.size = 2 * (blackSet y c).card := by
  have hb := black_white_card h hdim col (Finset.Icc 1 y.size) (fun x hx => Finset.mem_Icc.1 hx) (i := 0)
    (by omega) (fun x hx => by
      have hx' := Finset.mem_Icc.1 hx
      exact Finset.mem_Icc.2 (h.set.range 0 x (by show 0 ≤ y.dim; omega) hx'.1 hx'.2))
  have hs := Finset.card_filter_add_card_filter_not (s := Finset.Icc 1 y.size) (fun x => c x = true)
  rw [Nat.card_Icc] at hs
  unfold blackSet
  omega

/-- the black chambers of a 2-orbit: one cycle of `r` chambers -/
theorem orbit_black_sum {i j : Nat} (hi : i ≤ 2) (hj : j ≤ 2) {d : Nat} (hd : 1 ≤ d ∧ d ≤ y.size)
    (hl : looplessB y i j d = true) :
    ∑ x ∈ (y.view.orbit [i, j] d).toFinset, (if c x = true then 1 / (rN y i j x : ℚ) else 0) = 1 := by
  have hid : i ≤ y.dim := by omega
  have hjd : j ≤ y.dim := by omega
  have hmem : ∀ x, x ∈ (y.view.orbit [i, j] d).toFinset ↔ Orb2 y.dset i j d x := by
    intro x; rw [List.mem_toFinset, mem_orbit_iff h.set hid hjd hd]
  have hlen := orbit_length h.set hid hjd hd (rN_least h hid hjd hd)
  have hl' : ((y.view.orbit [i, j] d).all fun e => y.op i e != some e && y.op j e != some e) = true := hl
  rw [if_pos hl', ← List.toFinset_card_of_nodup (orbit_nodup h.set i j d)] at hlen
  have hbw := black_white_card h hdim col (y.view.orbit [i, j] d).toFinset
    (fun x hx => Orb2.range h.set hid hjd hd ((hmem x).1 hx)) hi
    (fun x hx => (hmem _).2 (Orb2.stepI ((hmem x).1 hx)))
  have hs := Finset.card_filter_add_card_filter_not (s := (y.view.orbit [i, j] d).toFinset) (fun x => c x = true)
  have hcard : ((y.view.orbit [i, j] d).toFinset.filter fun x => c x = true).card = rN y i j d := by omega
  rw [← Finset.sum_filter]
  have hconst : ∀ x ∈ (y.view.orbit [i, j] d).toFinset.filter (fun x => c x = true),
      1 / (rN y i j x : ℚ) = 1 / (rN y i j d : ℚ) := by
    intro x hx
    have hx' := (Finset.mem_filter.1 hx).1
    have := (rv_const_orb h hid hjd hd ((hmem x).1 hx')).1
    unfold rN; rw [this]
  rw [Finset.sum_congr rfl hconst, Finset.sum_const, hcard, nsmul_eq_mul]
  have hr : (rN y i j d : ℚ) ≠ 0 := by
    have := (rN_least h hid hjd hd).1
    exact_mod_cast (by omega : rN y i j d ≠ 0)
  field_simp

omit col in
/-- in a loopless symbol every 2-orbit is loopless -/
theorem loopless_all (hlp : ∀ i d, i ≤ 2 → 1 ≤ d → d ≤ y.size → y.dset.opU i d ≠ d) {i j d : Nat}
    (hi : i ≤ 2) (hj : j ≤ 2) (hd : 1 ≤ d ∧ d ≤ y.size) : looplessB y i j d = true := by
  unfold looplessB
  rw [List.all_eq_true]
  intro e he
  have hi' : i ≤ y.dim := by omega
  have hj' : j ≤ y.dim := by omega
  have her := Orb2.range h.set hi' hj' hd ((mem_orbit_iff h.set hi' hj' hd).1 he)
  have e1 : y.op i e = some (y.dset.opU i e) := opSimple_eq_some.2 ⟨hi', her.1, her.2, rfl⟩
  have e2 : y.op j e = some (y.dset.opU j e) := opSimple_eq_some.2 ⟨hj', her.1, her.2, rfl⟩
  rw [e1, e2]
  simp only [Bool.and_eq_true, bne_iff_ne, ne_eq, Option.some.injEq]
  exact ⟨hlp i e hi her.1 her.2, hlp j e hj her.1 her.2⟩

/-- **one black cycle per 2-orbit**: Σ over the black chambers of 1/r = number of (i,j)-orbits -/
theorem black_pair_sum (hlp : ∀ i d, i ≤ 2 → 1 ≤ d → d ≤ y.size → y.dset.opU i d ≠ d) {i j : Nat}
    (hi : i ≤ 2) (hj : j ≤ 2) :
    ∑ x ∈ blackSet y c, 1 / (rN y i j x : ℚ) = ((y.view.orbitReps2d i j).length : ℚ) := by
  have hid : i ≤ y.dim := by omega
  have hjd : j ≤ y.dim := by omega
  have hs := sum_orbits h hid hjd (fun x => if c x = true then 1 / (rN y i j x : ℚ) else 0)
  have ok := orbitReps2d_ok h.set hid hjd
  have e : ((y.view.orbitReps2d i j).map fun d => ∑ x ∈ (y.view.orbit [i, j] d).toFinset,
      (if c x = true then 1 / (rN y i j x : ℚ) else 0)) = (y.view.orbitReps2d i j).map fun _ => (1 : ℚ) := by
    apply List.map_congr_left
    intro d hd
    exact orbit_black_sum h hdim col hi hj (ok.range d hd)
      (loopless_all h hdim hlp hi hj (ok.range d hd))
  rw [e] at hs
  unfold blackSet
  rw [Finset.sum_filter, hs]
  simp

end

/-! ### the three permutations of the black chambers -/

section
variable {y : DSymData} (h : ValidSym y) (hdim : y.dim = 2) {c : Nat → Bool} (col : Colouring y c)

/-- `op i` as a permutation of ℕ (the identity outside the chambers) -/
noncomputable def sP (i : Nat) (hi : i ≤ 2) : Equiv.Perm Nat :=
  (opT_invol h.set (show i ≤ y.dset.dim by show i ≤ y.dim; omega)).toPerm (opT y.dset i)

omit col in
theorem sP_apply (i : Nat) (hi : i ≤ 2) (x : Nat) : sP h hdim i hi x = opT y.dset i x := rfl

include col in
theorem black_invariant {i j : Nat} (hi : i ≤ 2) (hj : j ≤ 2) (x : Nat) :
    (sP h hdim j hj * sP h hdim i hi) x ∈ blackSet y c ↔ x ∈ blackSet y c := by
  rw [Equiv.Perm.mul_apply, sP_apply, sP_apply]
  symm
  have hid : i ≤ y.dset.dim := by show i ≤ y.dim; omega
  have hjd : j ≤ y.dset.dim := by show j ≤ y.dim; omega
  by_cases hx : 1 ≤ x ∧ x ≤ y.size
  · have r1 := h.set.range i x hid hx.1 hx.2
    have r2 := h.set.range j _ hjd r1.1 r1.2
    rw [opT_in hx.1 hx.2, opT_in r1.1 r1.2, mem_black, mem_black]
    have f1 := col.flip i x hi hx.1 hx.2
    have f2 := col.flip j _ hj r1.1 r1.2
    constructor
    · rintro ⟨_, hc⟩
      refine ⟨r2, ?_⟩
      cases h1 : c (y.dset.opU i x) <;> cases h2 : c (y.dset.opU j (y.dset.opU i x)) <;> simp_all
    · rintro ⟨_, hc⟩
      refine ⟨hx, ?_⟩
      cases h1 : c (y.dset.opU i x) <;> cases h0 : c x <;> simp_all
  · have hx' : ¬ (1 ≤ x ∧ x ≤ y.dset.size) := hx
    have e1 : opT y.dset i x = x := by unfold opT; rw [if_neg hx']
    have e2 : opT y.dset j x = x := by unfold opT; rw [if_neg hx']
    rw [e1, e2]

/-- `op j ∘ op i` on the black chambers -/
noncomputable def piP {i j : Nat} (hi : i ≤ 2) (hj : j ≤ 2) : Equiv.Perm (blackSet y c) :=
  (sP h hdim j hj * sP h hdim i hi).subtypePerm (black_invariant h hdim col hi hj)

theorem piP_iter {i j : Nat} (hi : i ≤ 2) (hj : j ≤ 2) (x : blackSet y c) (n : Nat) :
    (((piP h hdim col hi hj)^[n] x : blackSet y c) : Nat) = (y.dset.comp i j)^[n] (x : Nat) := by
  induction n with
  | zero => rfl
  | succ n ih =>
    rw [Function.iterate_succ_apply', Function.iterate_succ_apply', ← ih]
    set z := (piP h hdim col hi hj)^[n] x with hz
    have hzb := (mem_black.1 z.2).1
    show (sP h hdim j hj * sP h hdim i hi) z = _
    rw [Equiv.Perm.mul_apply, sP_apply, sP_apply]
    have r1 := h.set.range i z (by show i ≤ y.dim; omega) hzb.1 hzb.2
    rw [opT_in hzb.1 hzb.2, opT_in r1.1 r1.2]
    rfl

theorem piP_period {i j : Nat} (hi : i ≤ 2) (hj : j ≤ 2) (x : blackSet y c) :
    Function.minimalPeriod (piP h hdim col hi hj) x = rN y i j (x : Nat) := by
  have hxb := (mem_black.1 x.2).1
  have hl := rN_least h (i := i) (j := j) (by omega) (by omega) hxb
  have hper : Function.IsPeriodicPt (piP h hdim col hi hj) (rN y i j x) x := by
    show (piP h hdim col hi hj)^[rN y i j x] x = x
    apply Subtype.ext
    rw [piP_iter]; exact hl.2.1
  apply Nat.le_antisymm
  · exact Function.IsPeriodicPt.minimalPeriod_le hl.1 hper
  · by_contra hlt
    have hlt' : Function.minimalPeriod (piP h hdim col hi hj) x < rN y i j x := Nat.lt_of_not_le hlt
    have hpos : 0 < Function.minimalPeriod (piP h hdim col hi hj) x :=
      Function.minimalPeriod_pos_of_mem_periodicPts ⟨_, hl.1, hper⟩
    have hmp := Function.isPeriodicPt_minimalPeriod (piP h hdim col hi hj) x
    have : (y.dset.comp i j)^[Function.minimalPeriod (piP h hdim col hi hj) x] (x : Nat) = x := by
      rw [← piP_iter h hdim col hi hj x]
      exact congrArg Subtype.val hmp
    exact hl.2.2 _ hpos hlt' this

/-- the number of cycles of `op j ∘ op i` on the black chambers is the number of (i,j)-orbits -/
theorem piP_zQ (hlp : ∀ i d, i ≤ 2 → 1 ≤ d → d ≤ y.size → y.dset.opU i d ≠ d) {i j : Nat}
    (hi : i ≤ 2) (hj : j ≤ 2) :
    PermSign.zQ (piP h hdim col hi hj) = ((y.view.orbitReps2d i j).length : ℚ) := by
  unfold PermSign.zQ
  rw [← black_pair_sum h hdim col hlp hi hj]
  have e : ∀ x : blackSet y c, 1 / (Function.minimalPeriod (piP h hdim col hi hj) x : ℚ) =
      (fun z : Nat => 1 / (rN y i j z : ℚ)) (x : Nat) := by
    intro x; rw [piP_period]
  rw [Finset.sum_congr rfl (fun x _ => e x)]
  exact Finset.sum_coe_sort (blackSet y c) (fun z : Nat => 1 / (rN y i j z : ℚ))

include h hdim col in
theorem reps_le_black (hlp : ∀ i d, i ≤ 2 → 1 ≤ d → d ≤ y.size → y.dset.opU i d ≠ d) {i j : Nat}
    (hi : i ≤ 2) (hj : j ≤ 2) : (y.view.orbitReps2d i j).length ≤ (blackSet y c).card := by
  have hs := black_pair_sum h hdim col hlp hi hj
  have hle : ∑ x ∈ blackSet y c, 1 / (rN y i j x : ℚ) ≤ ∑ _x ∈ blackSet y c, (1 : ℚ) := by
    apply Finset.sum_le_sum
    intro x hx
    have hxb := (mem_black.1 hx).1
    have h1 : 1 ≤ rN y i j x := (rN_least h (i := i) (j := j) (by omega) (by omega) hxb).1
    have h1' : (1 : ℚ) ≤ (rN y i j x : ℚ) := by exact_mod_cast h1
    rw [div_le_one (by linarith)]
    exact h1'
  rw [hs, Finset.sum_const, nsmul_eq_mul, mul_one] at hle
  exact_mod_cast hle

include h hdim col in
theorem reps_symm_length (hlp : ∀ i d, i ≤ 2 → 1 ≤ d → d ≤ y.size → y.dset.opU i d ≠ d) {i j : Nat}
    (hi : i ≤ 2) (hj : j ≤ 2) :
    (y.view.orbitReps2d j i).length = (y.view.orbitReps2d i j).length := by
  have h1 := black_pair_sum h hdim col hlp hi hj
  have h2 := black_pair_sum h hdim col hlp hj hi
  have e : ∑ x ∈ blackSet y c, 1 / (rN y j i x : ℚ) = ∑ x ∈ blackSet y c, 1 / (rN y i j x : ℚ) := by
    apply Finset.sum_congr rfl
    intro x hx
    have hxb := (mem_black.1 hx).1
    have hr : rN y j i x = rN y i j x := by
      apply rN_unique h (by omega) (by omega) hxb
      exact IsLeastPeriod.inv h.set (by show i ≤ y.dset.dim; show i ≤ y.dim; omega)
        (by show j ≤ y.dset.dim; show j ≤ y.dim; omega) hxb (rN_least h (by omega) (by omega) hxb)
    rw [hr]
  rw [e, h1] at h2
  exact_mod_cast h2.symm

theorem three_product :
    piP h hdim col (i := 2) (j := 0) (by omega) (by omega) *
      piP h hdim col (i := 1) (j := 2) (by omega) (by omega) *
      piP h hdim col (i := 0) (j := 1) (by omega) (by omega) = 1 := by
  apply Equiv.ext
  intro x
  apply Subtype.ext
  show (sP h hdim 0 (by omega) * sP h hdim 2 (by omega))
      ((sP h hdim 2 (by omega) * sP h hdim 1 (by omega))
        ((sP h hdim 1 (by omega) * sP h hdim 0 (by omega)) (x : Nat))) = (x : Nat)
  simp only [Equiv.Perm.mul_apply, sP_apply]
  have i0 := opT_invol h.set (show 0 ≤ y.dset.dim by omega)
  have i1 := opT_invol h.set (show 1 ≤ y.dset.dim by show 1 ≤ y.dim; omega)
  have i2 := opT_invol h.set (show 2 ≤ y.dset.dim by show 2 ≤ y.dim; omega)
  rw [i1, i2, i0]

end

/-- **the Euler characteristic of an oriented symbol is even** -/
theorem chi_even_oriented {y : DSymData} (h : ValidSym y) (hdim : y.dim = 2)
    (ho : y.view.isOriented = true) (rep : Rep) : Even (eulerCharacteristic ⟨y, rep⟩) := by
  obtain ⟨c, col⟩ := colouring_of_oriented h hdim ho
  have hpin : y.view.PInvol := by rw [y.view_eq]; exact h.set.pinvol
  have hl := (((C02.isWeaklyOriented_iff_bipartite y.view hpin).2).1 ho).1
  have hlp : ∀ i d, i ≤ 2 → 1 ≤ d → d ≤ y.size → y.dset.opU i d ≠ d := by
    intro i d hi h1 h2 e
    have hop : y.view.op i d = some (y.dset.opU i d) := opSimple_eq_some.2 ⟨by show i ≤ y.dim; omega, h1, h2, rfl⟩
    exact hl i d (by show i ≤ y.dim; omega) h1 h2 (by rw [hop, e])
  -- the counts
  set n := (blackSet y c).card with hn
  set L01 := (y.view.orbitReps2d 0 1).length with hL01
  set L12 := (y.view.orbitReps2d 1 2).length with hL12
  set L02 := (y.view.orbitReps2d 0 2).length with hL02
  have l01 := reps_le_black h hdim col hlp (i := 0) (j := 1) (by omega) (by omega)
  have l12 := reps_le_black h hdim col hlp (i := 1) (j := 2) (by omega) (by omega)
  have l02 := reps_le_black h hdim col hlp (i := 0) (j := 2) (by omega) (by omega)
  have e20 := reps_symm_length h hdim col hlp (i := 0) (j := 2) (by omega) (by omega)
  have hcard : Fintype.card (blackSet y c) = n := by simp [hn]
  have z01 := piP_zQ h hdim col hlp (i := 0) (j := 1) (by omega) (by omega)
  have z12 := piP_zQ h hdim col hlp (i := 1) (j := 2) (by omega) (by omega)
  have z20 := piP_zQ h hdim col hlp (i := 2) (j := 0) (by omega) (by omega)
  rw [e20] at z20
  have hpar := PermSign.three_perms_parity _ _ _ (three_product h hdim col) (n - L01) (n - L12) (n - L02)
    (by rw [z01, hcard, Nat.cast_sub l01]) (by rw [z12, hcard, Nat.cast_sub l12])
    (by rw [z20, hcard, Nat.cast_sub l02])
  -- the Euler characteristic in these counts
  have hall := types_loopless_of_oriented h hdim ho
  have hC : chainCount (typesOf y) = 0 := by
    unfold chainCount
    rw [List.length_eq_zero_iff, List.filter_eq_nil_iff]
    intro t ht
    rw [hall t ht]; simp
  have hLc : looplessCount (typesOf y) = L01 + L02 + L12 := by
    have : looplessCount (typesOf y) = (typesOf y).length := by
      unfold looplessCount
      rw [List.filter_eq_self.2 (fun t ht => hall t ht)]
    rw [this]
    simp [typesOf, hL01, hL02, hL12]
    omega
  have hF := size_eq_two_black h hdim col
  have he := euler_value rep h hdim
  rw [hC, hLc, hF] at he
  obtain ⟨m, hm⟩ := hpar
  have hN : L01 + L02 + L12 + 2 * m = 3 * n := by omega
  have hZ : (L01 : Int) + L02 + L12 + 2 * m = 3 * n := by exact_mod_cast hN
  refine ⟨(n : Int) - m, ?_⟩
  push_cast at he
  omega

end DSymVerif.D2

namespace DSymVerif.D2
open DSymVerif.DS

/-- a loopless symbol has no boundary component -/
theorem traceBoundary_nil_of_loopless {y : DSymData} (h : ValidSym y) (hdim : y.dim = 2) (rep : Rep)
    (hlp : ∀ i d, i ≤ 2 → 1 ≤ d → d ≤ y.size → y.dset.opU i d ≠ d) :
    traceBoundary ⟨y, rep⟩ = .ok [] := by
  obtain ⟨bnds, starts, hb, T⟩ := traceRecord_exists h hdim rep
  have hs : starts = [] := by
    cases starts with
    | nil => rfl
    | cons p ps =>
      exfalso
      obtain ⟨hv, _, _⟩ := T.ok p (by simp)
      exact hlp p.1.1 p.1.2.2 hv.1 hv.2.2.2.1 hv.2.2.2.2.1 hv.2.2.2.2.2
  have hp := T.bnds_perm
  rw [hs] at hp
  have hnil : bnds = [] := List.Perm.eq_nil (by simpa using hp)
  rw [hb, hnil]

/-- the parity monitor holds on every oriented symbol on which `orbifold_symbol` answers -/
theorem parity_of_oriented {s : Sym} (g : Good2d s) (ho : s.view.isOriented = true) {o : OrbSym}
    (hos : orbifoldSymbol s = .ok o) : parityMonitor s = true := by
  obtain ⟨y, rep⟩ := s
  have h : ValidSym y := g.valid
  have hdim : y.dim = 2 := g.dim
  have ho' : y.view.isOriented = true := ho
  have hpin : y.view.PInvol := by rw [y.view_eq]; exact h.set.pinvol
  have hl := (((C02.isWeaklyOriented_iff_bipartite y.view hpin).2).1 ho').1
  have hlp : ∀ i d, i ≤ 2 → 1 ≤ d → d ≤ y.size → y.dset.opU i d ≠ d := by
    intro i d hi h1 h2 e
    have hop : y.view.op i d = some (y.dset.opU i d) := opSimple_eq_some.2 ⟨by show i ≤ y.dim; omega, h1, h2, rfl⟩
    exact hl i d (by show i ≤ y.dim; omega) h1 h2 (by rw [hop, e])
  have htb := traceBoundary_nil_of_loopless h hdim rep hlp
  obtain ⟨m, hm⟩ := chi_even_oriented h hdim ho' rep
  unfold parityMonitor
  rw [htb, hos]
  simp only [List.length_nil, Nat.cast_zero, add_zero, Bool.or_eq_true, Bool.not_eq_eq_eq_not,
    Bool.not_true, beq_iff_eq]
  right
  omega

end DSymVerif.D2
