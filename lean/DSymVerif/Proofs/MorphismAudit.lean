/-
Helper lemmas for property C04, part 20: base images outside 1..|b| are answered `None`, and the
count form of the minimality test (`is_minimal` ⇔ |minimal image| = |symbol|).
-/
import DSymVerif.Proofs.MorphismQuot5

namespace DSymVerif.Mor
open DSymVerif.DS DSymVerif.DS.CanonP

/-- if chamber 1 of `a` has a degree and the base image has none in `b`, the search answers `None` -/
theorem morphism_err_of_no_degree (a b : MV) (e x : Nat) (hsz : 1 ≤ a.size) (hdim : 1 ≤ a.dim)
    (ha : a.m 0 1 = some x) (hb : b.m 0 e = none) : morphism a b e = .err := by
  unfold morphism
  have h1 : 1 < (Array.replicate (a.size + 1) 0).size := by simp; omega
  rw [dif_pos h1]
  have hdeg : degreesMatch2 a b 1 e = false := by
    unfold degreesMatch2
    rw [List.all_eq_false]
    exact ⟨0, List.mem_range.2 (by omega), by rw [ha, hb]; simp⟩
  show morphLoop a b (a.size + 2 + 1) [(1, e)] _ = .err
  simp only [morphLoop, hdeg, Bool.false_eq_true, if_false]

theorem mAdj_out (s : DSymData) (i e : Nat) (h : e < 1 ∨ s.size < e) : s.mAdj i e = none := by
  unfold DSymData.mAdj DSymData.mPartial DSymData.rPartial
  have ho : s.outOfRange i (i + 1) e = true := by
    unfold DSymData.outOfRange
    simp only [Bool.or_eq_true, decide_eq_true_eq]
    rcases h with h | h
    · exact Or.inl (Or.inr h)
    · exact Or.inr h
  rw [if_pos ho]
  rfl

/-- **a base image outside 1..|b| is answered `None`** (valid symbols, dim ≥ 1) -/
theorem morphism_out_of_range (a b : DSymData) (ha : ValidTables a) (hsz : 1 ≤ a.size) (hdim : 1 ≤ a.dim)
    (e : Nat) (he : e < 1 ∨ b.size < e) : morphism (ofSym a) (ofSym b) e = .err :=
  morphism_err_of_no_degree (ofSym a) (ofSym b) e (a.mVal 0 1) hsz hdim
    (ofSym_m ha (show 0 < a.dim from hdim) (Nat.le_refl 1) hsz) (mAdj_out b 0 e he)

/-- **count form of the minimality test**: `is_minimal()` is true exactly when the minimal image —
    one chamber per class of the coarsest degree-respecting congruence — has as many chambers as
    the symbol -/
theorem isMinimal_iff_size (ds : DSymData) (hs : ValidSym ds) (hsz : 1 ≤ ds.size) (hdim : 1 ≤ ds.dim)
    (hconn : Connected (ofSym ds)) :
    ∃ c, minimalImage ds = .ok c ∧ (isMinimal (ofSym ds) = .ok true ↔ c.size = ds.size) := by
  obtain ⟨c, π, Q, hc, hcv, hcs, _, hπ, hπs, _, hQ, hker, _⟩ := minimalImage_full ds hs hsz hdim hconn
  refine ⟨c, hc, ⟨fun hmin => ?_, fun hsize => ?_⟩⟩
  · have : minimalImage ds = .ok ds := by
      unfold minimalImage
      simp only [isMinimalUF_eq, hmin]
      exact asPartialDSym_self ds hs.toValidTables hsz hdim
    rw [this] at hc
    cases hc
    rfl
  · apply (isMinimal_true_iff ds hs.set hconn hsz).2
    -- π is a surjection of 1..n onto 1..n, hence injective
    let S : Finset Nat := (Finset.range (ds.size + 1)).filter (fun x => 1 ≤ x)
    have hmem : ∀ x, x ∈ S ↔ 1 ≤ x ∧ x ≤ ds.size := by
      intro x
      simp only [S, Finset.mem_filter, Finset.mem_range]
      omega
    have inj : Set.InjOn π (S : Set Nat) := by
      apply Finset.injOn_of_surjOn_of_card_le π (s := S) (t := S)
      · intro x hx
        have hx' := (hmem x).1 (by simpa using hx)
        have r : 1 ≤ π x ∧ π x ≤ c.size := hπ.conj.range x hx'.1 hx'.2
        rw [hsize] at r
        exact (by simpa using (hmem (π x)).2 r)
      · intro k hk
        have hk' := (hmem k).1 (by simpa using hk)
        obtain ⟨d, hd1, hd2, hd⟩ := hπs k hk'.1 (by rw [hsize]; exact hk'.2)
        exact ⟨d, by simpa using (hmem d).2 ⟨hd1, hd2⟩, hd⟩
      · exact le_rfl
    intro γ hcc hcd x y hx1 hx2 hy1 hy2 hxy
    have hq := hQ.max γ ⟨hcc, hcd⟩ x y ⟨hx1, hx2⟩ ⟨hy1, hy2⟩ hxy
    have hp := (hker x y hx1 hx2 hy1 hy2).2 hq
    exact inj (by simpa using (hmem x).2 ⟨hx1, hx2⟩) (by simpa using (hmem y).2 ⟨hy1, hy2⟩) hp

end DSymVerif.Mor
