/-
Property C05, part 7: the decidable monitors of Model/Covers.lean imply the hypotheses of the
theorems (`ValidSet`, `ValidTables`, `SheetCompat`, `Table.InvConsistent`, `EdgeWordsInverse`).
The driver evaluates the monitors on every explored input.
-/
import DSymVerif.Proofs.CoversTable

namespace DSymVerif.Covers
open DSymVerif DSymVerif.DS

theorem validSetB_sound {s : DSetData} (h : validSetB s = true) : ValidSet s := by
  unfold validSetB at h
  simp only [Bool.and_eq_true, beq_iff_eq, List.all_eq_true, List.mem_range, decide_eq_true_eq] at h
  obtain ⟨hsize, hall⟩ := h
  refine ⟨hsize, ?_, ?_⟩
  · intro i d hi h1 h2
    have := hall i (by omega) (d - 1) (by omega)
    have hd : d - 1 + 1 = d := by omega
    rw [hd] at this
    exact ⟨this.1.1, this.1.2⟩
  · intro i d hi h1 h2
    have := hall i (by omega) (d - 1) (by omega)
    have hd : d - 1 + 1 = d := by omega
    rw [hd] at this
    exact this.2

theorem validTablesB_sound {y : DSymData} (h : validTablesB y = true) : ValidTables y := by
  unfold validTablesB at h
  simp only [Bool.and_eq_true, beq_iff_eq] at h
  obtain ⟨⟨⟨h1, h2⟩, h3⟩, h4⟩ := h
  exact ⟨validSetB_sound h1, h2, h3, h4⟩

theorem validSymB_sound {y : DSymData} (h : validSymB y = true) : ValidSym y := by
  unfold validSymB at h
  rw [Bool.and_eq_true] at h
  refine ⟨validTablesB_sound h.1, ?_⟩
  have hf := h.2
  unfold farCommuteB at hf
  simp only [List.all_eq_true, List.mem_range, Bool.or_eq_true, Bool.not_eq_true', decide_eq_false_iff_not,
    beq_iff_eq] at hf
  intro i j d hij hj h1 h2
  rcases hf i (by omega) j (by omega) with hn | hall
  · exact absurd hij hn
  · have := hall (d - 1) (by omega)
    have hd : d - 1 + 1 = d := by omega
    rw [hd] at this
    exact this

theorem sheetCompatB_iff {s : DSetData} {n : Nat} {σ : Nat → Nat → Nat → Nat} :
    sheetCompatB s n σ = true ↔ SheetCompat s n σ := by
  unfold sheetCompatB
  simp only [Bool.and_eq_true, beq_iff_eq, List.all_eq_true, List.mem_range, decide_eq_true_eq]
  constructor
  · intro h
    constructor
    · intro k i d hk hi h1 h2
      have := h k hk i (by omega) (d - 1) (by omega)
      have hd : d - 1 + 1 = d := by omega
      rw [hd] at this
      exact this.1
    · intro k i d hk hi h1 h2
      have := h k hk i (by omega) (d - 1) (by omega)
      have hd : d - 1 + 1 = d := by omega
      rw [hd] at this
      exact this.2
  · intro h k hk i hi d hd
    exact ⟨h.range k i (d + 1) hk (by omega) (by omega) (by omega),
      h.invol k i (d + 1) hk (by omega) (by omega) (by omega)⟩

theorem edgeWordsOkB_sound {s : DSymData} {t : Table} {e2w : EdgeWords} (h : edgeWordsOkB s t e2w = true) :
    EdgeWordsOk s t e2w := by
  unfold edgeWordsOkB at h
  simp only [beq_iff_eq, List.all_eq_true, List.mem_range, Bool.or_eq_true, Bool.and_eq_true] at h
  intro i d hi h1 h2
  have := h i (by omega) (d - 1) (by have : d ≤ s.dset.size := h2; omega)
  have hd : d - 1 + 1 = d := by omega
  rw [hd] at this
  exact this

theorem getD_of_getElem? {α} {a : Array α} {k : Nat} {v dflt : α} (h : a[k]? = some v) :
    k < a.size ∧ a.getD k dflt = v := by
  have hk : k < a.size := by
    by_cases hk : k < a.size
    · exact hk
    · rw [Array.getElem?_eq_none (by omega)] at h; cases h
  refine ⟨hk, ?_⟩
  rw [Array.getD_eq_getD_getElem?, h]; rfl

theorem invConsistentB_sound {t : Table} (h : invConsistentB t = true) : t.InvConsistent := by
  unfold invConsistentB at h
  simp only [Bool.and_eq_true, Bool.or_eq_true, beq_iff_eq, List.all_eq_true, List.mem_range,
    decide_eq_true_eq, Array.all_eq_true] at h
  obtain ⟨hrows, hall⟩ := h
  have hrow : ∀ c, c < t.len → (t.rows.getD c #[]).size = 2 * t.nrGens + 1 := by
    intro c hc
    have hc' : c < t.rows.size := hc
    rw [Array.getD_eq_getD_getElem?, Array.getElem?_eq_getElem hc']
    exact hrows c hc'
  intro c g r hc hg
  unfold Table.get at hg
  rw [if_pos hc] at hg
  simp only at hg
  split at hg
  · cases hg
  · rename_i hcol
    cases hq : (t.rows.getD c #[])[(g + (t.nrGens : Int)).toNat]? with
    | none => rw [hq] at hg; cases hg
    | some rv =>
      rw [hq] at hg
      simp only at hg
      obtain ⟨hlt, hval⟩ := getD_of_getElem? (dflt := (-1 : Int)) hq
      rw [hrow c hc] at hlt
      split at hg
      · rename_i hrv
        have hr : r = rv.toNat := by
          have := Option.some.inj (Outcome.ok.inj hg)
          exact this.symm
        have := hall c hc (g + (t.nrGens : Int)).toNat hlt
        rw [hval] at this
        rcases this with hneg | ⟨hrl, hback⟩
        · omega
        · rw [hr]
          refine ⟨hrl, ?_⟩
          unfold Table.get
          rw [if_pos hrl]
          simp only
          have hcol' : ¬ (-g + (t.nrGens : Int) < 0) := by omega
          rw [if_neg hcol']
          have hidx : (-g + (t.nrGens : Int)).toNat = 2 * t.nrGens - (g + (t.nrGens : Int)).toNat := by omega
          have hsz := hrow rv.toNat hrl
          have hin : (-g + (t.nrGens : Int)).toNat < (t.rows.getD rv.toNat #[]).size := by
            rw [hsz]; omega
          rw [Array.getElem?_eq_getElem hin]
          have hget : (t.rows.getD rv.toNat #[])[(-g + (t.nrGens : Int)).toNat] = (c : Int) := by
            have : (t.rows.getD rv.toNat #[]).getD (-g + (t.nrGens : Int)).toNat (-1) = (c : Int) := by
              rw [hidx]; exact hback
            rw [Array.getD_eq_getD_getElem?, Array.getElem?_eq_getElem hin] at this
            exact this
          simp only [hget]
          rw [if_pos (by omega)]
          simp
      · cases hg

end DSymVerif.Covers
