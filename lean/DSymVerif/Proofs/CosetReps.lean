/-
C11 `coset_representative_spec`: the model of the (repaired) `coset_representative`,
run on a table that passes the Spec, returns one word per row, listed by row, each
tracing from row 0 to its row.  The table handed to the model is `Table.ofView n t`, the
`CosetTable` value whose public view is `t` (the shape `compact()` returns and the value
the driver builds from the implementation's output).
-/
import DSymVerif.Model.Cosets
import DSymVerif.Proofs.CosetTrace

namespace DSymVerif.CosetP
open DSymVerif DSymVerif.Cosets DSymVerif.SpecC11

theorem viewCol_eq_col (n : Nat) (g : Int) : viewCol n g = col n g := rfl

theorem allGensOf_eq_letters (n : Nat) : allGensOf n = letters n := by
  unfold allGensOf letters
  simp [List.range'_eq_map_range, Nat.add_comm, Function.comp_def]

theorem rootFuel_empty (f x : Nat) : rootFuel #[] f x = x := by
  cases f <;> simp [rootFuel]

theorem canon_ofView (n : Nat) (t : Tab) (c : Nat) : (Table.ofView n t).canon c = c := by
  simp [Table.canon, Table.ofView, Part.new, Part.find, rootFuel]

theorem get_ofView {t : Tab} {n c : Nat} {g : Int} {d : Nat} (h : entry t n c g = some d) :
    (Table.ofView n t).get c g = .ok (some d) := by
  obtain ⟨hd, hc, hg⟩ := entry_some h
  rw [mem_letters] at hg
  unfold entry at h
  cases hj : col n g with
  | none => simp [hj] at h
  | some j =>
    simp only [hj] at h
    have hrow : t[c]? = some t[c] := by simp [hc]
    simp only [hrow] at h
    cases hv : (t[c])[j]? with
    | none => simp [hv] at h
    | some v =>
      simp only [hv] at h
      by_cases hb : 0 ≤ v ∧ v < t.size
      · simp only [hb, and_self, if_true, Option.some.injEq] at h
        have hsz : (Table.ofView n t).rows.size = t.size := by simp [Table.ofView]
        have hc' : c < (Table.ofView n t).rows.size := by omega
        unfold Table.get
        rw [dif_pos hc']
        have hneg : ¬ (g + ((Table.ofView n t).nrGens : Int) < 0) := by
          simp only [Table.ofView]; omega
        rw [if_neg hneg]
        have hidx : (g + (n : Int)).toNat < 2 * n + 1 := by omega
        have hcast : (((g + (n : Int)).toNat : Nat) : Int) - n = g := by omega
        have hget : ((Table.ofView n t).rows[c])[(g + ((Table.ofView n t).nrGens : Int)).toNat]? = some v := by
          simp only [Table.ofView, Array.getElem_map]
          simp only [List.getElem?_toArray, List.getElem?_map]
          rw [List.getElem?_range hidx]
          simp only [Option.map_some, hcast, viewCol_eq_col, hj]
          obtain ⟨hjlt, hjv⟩ := Array.getElem?_eq_some_iff.mp hv
          simp [Array.getD, hjlt, hjv]
        rw [hget]
        simp [hb.1, canon_ofView, h]
      · simp [hb] at h


/-! ### the sorted association list behind `BTreeMap<usize, FreeWord>` -/

def keys (res : List (Nat × List Int)) : List Nat := res.map Prod.fst

@[simp] theorem keys_nil : keys [] = [] := rfl
@[simp] theorem keys_cons (x : Nat × List Int) (r : List (Nat × List Int)) :
    keys (x :: r) = x.1 :: keys r := rfl

theorem lookupRep_none {k : Nat} : ∀ {res : List (Nat × List Int)},
    lookupRep k res = none ↔ k ∉ keys res
  | [] => by simp [lookupRep]
  | (k', w') :: r => by
    simp only [lookupRep, keys_cons, List.mem_cons, not_or]
    by_cases h : k' = k
    · simp [h]
    · simp only [h, if_false]
      rw [lookupRep_none]
      constructor
      · intro h2; exact ⟨fun e => h e.symm, h2⟩
      · intro h2; exact h2.2

theorem lookupRep_some {k : Nat} {w : List Int} : ∀ {res : List (Nat × List Int)},
    lookupRep k res = some w → (k, w) ∈ res
  | [] => by simp [lookupRep]
  | (k', w') :: r => by
    simp only [lookupRep]
    by_cases h : k' = k
    · simp only [h, if_true, Option.some.injEq]
      rintro rfl; simp
    · simp only [h, if_false]
      intro h2
      exact List.mem_cons_of_mem _ (lookupRep_some h2)

theorem mem_keys_of_mem {k : Nat} {w : List Int} {res : List (Nat × List Int)} (h : (k, w) ∈ res) :
    k ∈ keys res := List.mem_map.mpr ⟨(k, w), h, rfl⟩

theorem lookupRep_of_mem_keys {k : Nat} {res : List (Nat × List Int)} (h : k ∈ keys res) :
    ∃ w, lookupRep k res = some w := by
  cases hl : lookupRep k res with
  | none => exact absurd h (lookupRep_none.mp hl)
  | some w => exact ⟨w, rfl⟩

theorem mem_insertRep {k : Nat} {w : List Int} {x : Nat × List Int} :
    ∀ {res : List (Nat × List Int)}, x ∈ insertRep k w res → x = (k, w) ∨ x ∈ res
  | [] => by simp [insertRep]
  | (k', w') :: r => by
    simp only [insertRep]
    by_cases h1 : k < k'
    · simp only [h1, if_true, List.mem_cons]
      tauto
    · by_cases h2 : k = k'
      · subst h2
        simp only [Nat.lt_irrefl, if_false, if_true, List.mem_cons]
        tauto
      · simp only [h1, h2, if_false, List.mem_cons]
        rintro (h | h)
        · exact Or.inr (Or.inl h)
        · rcases mem_insertRep h with h | h
          · exact Or.inl h
          · exact Or.inr (Or.inr h)

theorem mem_keys_insertRep {k : Nat} {w : List Int} {x : Nat} :
    ∀ {res : List (Nat × List Int)}, k ∉ keys res →
      (x ∈ keys (insertRep k w res) ↔ x = k ∨ x ∈ keys res)
  | [], _ => by simp [insertRep]
  | (k', w') :: r, hk => by
    simp only [keys_cons, List.mem_cons, not_or] at hk
    simp only [insertRep]
    by_cases h1 : k < k'
    · simp [h1]
    · have h2 : ¬ k = k' := hk.1
      simp only [h1, h2, if_false, keys_cons, List.mem_cons]
      rw [mem_keys_insertRep hk.2]
      tauto

theorem sorted_insertRep {k : Nat} {w : List Int} :
    ∀ {res : List (Nat × List Int)}, (keys res).Pairwise (· < ·) → k ∉ keys res →
      (keys (insertRep k w res)).Pairwise (· < ·)
  | [], _, _ => by simp [insertRep]
  | (k', w') :: r, hs, hk => by
    simp only [keys_cons, List.mem_cons, not_or] at hk
    simp only [keys_cons, List.pairwise_cons] at hs
    simp only [insertRep]
    by_cases h1 : k < k'
    · simp only [h1, if_true, keys_cons, List.pairwise_cons, List.mem_cons]
      refine ⟨?_, hs.1, hs.2⟩
      rintro x (rfl | hx)
      · exact h1
      · exact Nat.lt_trans h1 (hs.1 x hx)
    · have h2 : ¬ k = k' := hk.1
      simp only [h1, h2, if_false, keys_cons, List.pairwise_cons]
      refine ⟨?_, sorted_insertRep hs.2 hk.2⟩
      intro x hx
      rw [mem_keys_insertRep hk.2] at hx
      rcases hx with rfl | hx
      · omega
      · exact hs.1 x hx

theorem length_insertRep {k : Nat} {w : List Int} :
    ∀ {res : List (Nat × List Int)}, k ∉ keys res → (insertRep k w res).length = res.length + 1
  | [], _ => by simp [insertRep]
  | (k', w') :: r, hk => by
    simp only [keys_cons, List.mem_cons, not_or] at hk
    simp only [insertRep]
    by_cases h1 : k < k'
    · simp [h1]
    · have h2 : ¬ k = k' := hk.1
      simp [h1, h2, length_insertRep hk.2]


/-! ### the breadth-first search of `coset_representative` -/

/-- every stored word traces from row 0 to its key -/
def GoodReps (t : Tab) (n : Nat) (res : List (Nat × List Int)) : Prop :=
  ∀ k w, (k, w) ∈ res → traceWord t n 0 w = some k

theorem trace_mulLetter {t : Tab} {n : Nat} (hinv : InvConsistent t n) {w : List Int} {g : Int}
    {i d : Nat} (hw : traceWord t n 0 w = some i) (he : entry t n i g = some d) :
    traceWord t n 0 (FW.mulLetter w g) = some d := by
  unfold FW.mulLetter FW.new FW.rawMul
  exact trace_normalized hinv _ _ _ (traceWord_snoc_intro hw he)

theorem repsGens_spec {t : Tab} {n : Nat} (hinv : InvConsistent t n) (i : Nat) (w : List Int)
    (hw : traceWord t n 0 w = some i) :
    ∀ (gs : List Int) (q : List Nat) (res : List (Nat × List Int)),
      (∀ g ∈ gs, ∃ d, entry t n i g = some d) →
      (keys res).Pairwise (· < ·) → GoodReps t n res →
      ∃ q' res', repsGens (Table.ofView n t) i w gs q res = .ok (q', res') ∧
        (keys res').Pairwise (· < ·) ∧ GoodReps t n res' ∧
        (∀ k, k ∈ keys res → k ∈ keys res') ∧
        (∀ k, k ∈ q' ↔ k ∈ q ∨ (k ∈ keys res' ∧ k ∉ keys res)) ∧
        (∀ g ∈ gs, ∀ d, entry t n i g = some d → d ∈ keys res') ∧
        q'.length + res.length = q.length + res'.length
  | [], q, res, _, hs, hg => by
    refine ⟨q, res, rfl, hs, hg, fun _ h => h, ?_, ?_, rfl⟩
    · intro k; constructor
      · intro h; exact Or.inl h
      · rintro (h | ⟨h1, h2⟩)
        · exact h
        · exact absurd h1 h2
    · intro g hg; cases hg
  | g :: gs, q, res, htot, hs, hg => by
    obtain ⟨d, hd⟩ := htot g (by simp)
    have htot' : ∀ g ∈ gs, ∃ d, entry t n i g = some d := fun g' h' => htot g' (by simp [h'])
    simp only [repsGens, get_ofView hd]
    cases hl : lookupRep d res with
    | some w0 =>
      simp only []
      obtain ⟨q', res', h1, h2, h3, h4, h5, h6, h7⟩ := repsGens_spec hinv i w hw gs q res htot' hs hg
      refine ⟨q', res', h1, h2, h3, h4, h5, ?_, h7⟩
      intro g' hg' d' hd'
      rcases List.mem_cons.mp hg' with rfl | hg'
      · rw [hd] at hd'
        injection hd' with hd'
        subst hd'
        exact h4 _ (mem_keys_of_mem (lookupRep_some hl))
      · exact h6 g' hg' d' hd'
    | none =>
      simp only []
      have hdk : d ∉ keys res := lookupRep_none.mp hl
      have hs1 := sorted_insertRep (w := FW.mulLetter w g) hs hdk
      have hg1 : GoodReps t n (insertRep d (FW.mulLetter w g) res) := by
        intro k w' hm
        rcases mem_insertRep hm with h | h
        · injection h with h1 h2
          subst h1; subst h2
          exact trace_mulLetter hinv hw hd
        · exact hg k w' h
      obtain ⟨q', res', h1, h2, h3, h4, h5, h6, h7⟩ :=
        repsGens_spec hinv i w hw gs (q ++ [d]) (insertRep d (FW.mulLetter w g) res) htot' hs1 hg1
      have hsub : ∀ k, k ∈ keys res → k ∈ keys res' := fun k hk =>
        h4 k ((mem_keys_insertRep hdk).mpr (Or.inr hk))
      have hdin : d ∈ keys res' := h4 d ((mem_keys_insertRep hdk).mpr (Or.inl rfl))
      refine ⟨q', res', h1, h2, h3, hsub, ?_, ?_, ?_⟩
      · intro k
        rw [h5 k, List.mem_append, List.mem_singleton, mem_keys_insertRep hdk]
        constructor
        · rintro ((h | h) | ⟨ha, hb⟩)
          · exact Or.inl h
          · subst h; exact Or.inr ⟨hdin, hdk⟩
          · exact Or.inr ⟨ha, fun hk => hb (Or.inr hk)⟩
        · rintro (h | ⟨ha, hb⟩)
          · exact Or.inl (Or.inl h)
          · by_cases hkd : k = d
            · exact Or.inl (Or.inr hkd)
            · exact Or.inr ⟨ha, fun h => h.elim hkd hb⟩
      · intro g' hg' d' hd'
        rcases List.mem_cons.mp hg' with rfl | hg'
        · rw [hd] at hd'
          injection hd' with hd'
          subst hd'
          exact hdin
        · exact h6 g' hg' d' hd'
      · rw [length_insertRep hdk, List.length_append, List.length_singleton] at h7
        omega


/-- loop invariant of the search: queue ⊆ keys; every key that is no longer queued has all
    its images among the keys -/
structure RepInv (t : Tab) (n : Nat) (q : List Nat) (res : List (Nat × List Int)) : Prop where
  sorted : (keys res).Pairwise (· < ·)
  good : GoodReps t n res
  qkeys : ∀ k ∈ q, k ∈ keys res
  zero : 0 ∈ keys res
  closed : ∀ k ∈ keys res, k ∉ q → ∀ g ∈ letters n, ∀ d, entry t n k g = some d → d ∈ keys res

theorem keys_lt {t : Tab} {n : Nat} {res : List (Nat × List Int)} (hpos : 0 < t.size)
    (hg : GoodReps t n res) : ∀ k ∈ keys res, k < t.size := by
  intro k hk
  obtain ⟨⟨k', w⟩, hm, rfl⟩ := List.mem_map.mp hk
  exact traceWord_lt hpos (hg k' w hm)

theorem nodup_of_sorted {l : List Nat} (h : l.Pairwise (· < ·)) : l.Nodup :=
  h.imp (fun hab => Nat.ne_of_lt hab)

theorem length_le_size {t : Tab} {n : Nat} {res : List (Nat × List Int)} (hpos : 0 < t.size)
    (hs : (keys res).Pairwise (· < ·)) (hg : GoodReps t n res) : res.length ≤ t.size := by
  have h1 : (keys res).length ≤ (List.range t.size).length :=
    (nodup_of_sorted hs).length_le_of_subset
      (fun k hk => List.mem_range.mpr (keys_lt hpos hg k hk))
  simpa [keys] using h1

theorem repsLoop_spec {t : Tab} {n : Nat} {rels subs : List (List Int)} (hv : Valid t n rels subs) :
    ∀ (fuel : Nat) (q : List Nat) (res : List (Nat × List Int)),
      RepInv t n q res → q.length + (t.size - res.length) ≤ fuel →
      ∃ reps, repsLoop (Table.ofView n t) fuel q res = .ok reps ∧ RepInv t n [] reps := by
  intro fuel
  induction fuel with
  | zero =>
    intro q res hI hf
    cases q with
    | nil => exact ⟨res, by simp [repsLoop], hI⟩
    | cons i q => simp at hf
  | succ f ih =>
    intro q res hI hf
    cases q with
    | nil => exact ⟨res, by simp [repsLoop], hI⟩
    | cons i q =>
      obtain ⟨w, hw⟩ := lookupRep_of_mem_keys (hI.qkeys i (by simp))
      have hwi : traceWord t n 0 w = some i := hI.good i w (lookupRep_some hw)
      have hilt : i < t.size := traceWord_lt hv.pos hwi
      have hall : (Table.ofView n t).allGens = letters n := by
        simp [Table.allGens, Table.ofView, allGensOf_eq_letters]
      obtain ⟨q', res', h1, h2, h3, h4, h5, h6, h7⟩ :=
        repsGens_spec hv.inv i w hwi (letters n) q res (fun g hg => hv.total i hilt g hg) hI.sorted hI.good
      have hlen' := length_le_size hv.pos h2 h3
      have hI' : RepInv t n q' res' := by
        refine ⟨h2, h3, ?_, h4 0 hI.zero, ?_⟩
        · intro k hk
          rcases (h5 k).mp hk with h | ⟨h, _⟩
          · exact h4 k (hI.qkeys k (by simp [h]))
          · exact h
        · intro k hk hkq g hg d hd
          by_cases hkr : k ∈ keys res
          · by_cases hki : k = i
            · subst hki
              exact h6 g hg d hd
            · have hkq0 : k ∉ i :: q := by
                simp only [List.mem_cons, not_or]
                exact ⟨hki, fun h => hkq ((h5 k).mpr (Or.inl h))⟩
              exact h4 d (hI.closed k hkr hkq0 g hg d hd)
          · exact absurd ((h5 k).mpr (Or.inr ⟨hk, hkr⟩)) hkq
      have hf' : q'.length + (t.size - res'.length) ≤ f := by
        simp only [List.length_cons] at hf
        omega
      obtain ⟨reps, hr, hIr⟩ := ih q' res' hI' hf'
      refine ⟨reps, ?_, hIr⟩
      simp only [repsLoop, hw, hall, h1]
      exact hr

/-- a set of rows containing row 0 and closed under all letters contains every row that
    can be reached from row 0 -/
theorem closed_trace {t : Tab} {n : Nat} {res : List (Nat × List Int)} (hI : RepInv t n [] res) :
    ∀ (w : List Int) (c d : Nat), c ∈ keys res → traceWord t n c w = some d → d ∈ keys res
  | [], c, d, hc, h => by
    simp only [traceWord, Option.some.injEq] at h
    exact h ▸ hc
  | g :: w, c, d, hc, h => by
    simp only [traceWord] at h
    cases he : entry t n c g with
    | none => simp [he] at h
    | some e =>
      simp only [he] at h
      exact closed_trace hI w e d (hI.closed c hc (by simp) g (entry_some he).2.2 e he) h

/-- C11 `coset_representative_spec`: on a table passing the Spec the (repaired)
    `coset_representative` returns exactly one word per row, listed by row, and each word
    traces from row 0 to its row -/
theorem cosetRepresentative_valid {t : Tab} {n : Nat} {rels subs : List (List Int)}
    (hv : Valid t n rels subs) :
    ∃ reps, cosetRepresentative (Table.ofView n t) = .ok reps ∧ repsOk t n reps = true := by
  have hI0 : RepInv t n [0] [(0, FW.empty)] := by
    refine ⟨by simp, ?_, by simp, by simp, ?_⟩
    · intro k w hm
      simp only [List.mem_singleton, Prod.mk.injEq] at hm
      obtain ⟨rfl, rfl⟩ := hm
      rfl
    · intro k hk hkq
      simp at hk hkq
      exact absurd hk hkq
  have hlen : (Table.ofView n t).len = t.size := by simp [Table.len, Table.ofView]
  have hnr : (Table.ofView n t).nrGens = n := rfl
  obtain ⟨reps, hr, hI⟩ := repsLoop_spec hv (t.size * (2 * n + 1) + 1) [0] [(0, FW.empty)] hI0 (by
    simp only [List.length_singleton]
    have : t.size ≤ t.size * (2 * n + 1) := Nat.le_mul_of_pos_right _ (by omega)
    omega)
  refine ⟨reps, ?_, ?_⟩
  · unfold cosetRepresentative
    rw [hlen, hnr]
    exact hr
  · have hall : ∀ c, c < t.size → c ∈ keys reps := by
      intro c hc
      obtain ⟨w, hw⟩ := hv.conn c hc
      exact closed_trace hI w 0 c hI.zero hw
    have hkeys : keys reps = List.range t.size := by
      apply List.Perm.eq_of_pairwise (le := (· < ·)) _ hI.sorted List.pairwise_lt_range
      · rw [List.perm_ext_iff_of_nodup (nodup_of_sorted hI.sorted) (nodup_of_sorted List.pairwise_lt_range)]
        intro a
        rw [List.mem_range]
        exact ⟨keys_lt hv.pos hI.good a, hall a⟩
      · intro a b _ _ hab hba
        exact absurd hab (Nat.lt_asymm hba)
    unfold repsOk rowsOf
    rw [Bool.and_eq_true]
    refine ⟨?_, ?_⟩
    · have : List.map (fun x => x.1) reps = keys reps := rfl
      rw [this, hkeys]
      simp
    · rw [List.all_eq_true]
      rintro ⟨k, w⟩ hm
      simp [hI.good k w hm]

end DSymVerif.CosetP
