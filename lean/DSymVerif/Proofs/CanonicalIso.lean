/-
Helper lemmas for property C03, part 3: isomorphisms of D-symbols (`IsIso`), equivariance of
`TraversalCode` stated for symbols, and "corresponding chamber maps rebuild the same symbol".
-/
import DSymVerif.Proofs.CanonicalEquiv

namespace DSymVerif.DS
namespace CanonP

/-- **Isomorphism of D-symbols** (the definition): `f` restricted to the chambers 1..size of `a`
    is an injection into 1..size (hence a bijection, `surj_of_inj`), commutes with every
    operation and preserves every branching number of adjacent index pairs. -/
structure IsIso (f : Nat → Nat) (a b : DSymData) : Prop where
  size : b.size = a.size
  dim : b.dim = a.dim
  range : ∀ d, 1 ≤ d → d ≤ a.size → 1 ≤ f d ∧ f d ≤ a.size
  inj : ∀ d e, 1 ≤ d → d ≤ a.size → 1 ≤ e → e ≤ a.size → f d = f e → d = e
  op : ∀ i d, i ≤ a.dim → 1 ≤ d → d ≤ a.size → b.op i (f d) = (a.op i d).map f
  v : ∀ i d, i < a.dim → 1 ≤ d → d ≤ a.size → b.vAdj i (f d) = a.vAdj i d

/-- `f` on 1..n, the identity elsewhere -/
def ext (f : Nat → Nat) (n : Nat) : Nat → Nat := fun d => if 1 ≤ d ∧ d ≤ n then f d else d

theorem ext_in {f : Nat → Nat} {n d : Nat} (h1 : 1 ≤ d) (h2 : d ≤ n) : ext f n d = f d := by
  unfold ext; rw [if_pos ⟨h1, h2⟩]

theorem ext_out {f : Nat → Nat} {n d : Nat} (h : ¬ (1 ≤ d ∧ d ≤ n)) : ext f n d = d := by
  unfold ext; rw [if_neg h]

theorem ext_range {f : Nat → Nat} {n : Nat} (hr : ∀ d, 1 ≤ d → d ≤ n → 1 ≤ f d ∧ f d ≤ n) (d : Nat) :
    (1 ≤ ext f n d ∧ ext f n d ≤ n) ↔ (1 ≤ d ∧ d ≤ n) := by
  by_cases h : 1 ≤ d ∧ d ≤ n
  · rw [ext_in h.1 h.2]; exact ⟨fun _ => h, fun _ => hr d h.1 h.2⟩
  · rw [ext_out h]

theorem ext_inj {f : Nat → Nat} {n : Nat} (hr : ∀ d, 1 ≤ d → d ≤ n → 1 ≤ f d ∧ f d ≤ n)
    (hi : ∀ d e, 1 ≤ d → d ≤ n → 1 ≤ e → e ≤ n → f d = f e → d = e) :
    ∀ a b, ext f n a = ext f n b → a = b := by
  intro a b hab
  by_cases ha : 1 ≤ a ∧ a ≤ n
  · by_cases hb : 1 ≤ b ∧ b ≤ n
    · rw [ext_in ha.1 ha.2, ext_in hb.1 hb.2] at hab
      exact hi a b ha.1 ha.2 hb.1 hb.2 hab
    · have := (ext_range hr a).2 ha
      rw [hab, ext_out hb] at this
      exact absurd this hb
  · by_cases hb : 1 ≤ b ∧ b ≤ n
    · have := (ext_range hr b).2 hb
      rw [← hab, ext_out ha] at this
      exact absurd this ha
    · rw [ext_out ha, ext_out hb] at hab; exact hab

theorem vAdj_oor (s : DSymData) {i d : Nat} (h : ¬ (1 ≤ d ∧ d ≤ s.size)) : s.vAdj i d = none := by
  unfold DSymData.vAdj
  rw [s.vPartial_oor i (i + 1) d (by omega)]

theorem codeAdvance_size {dim : Nat} {v : Nat → Nat → Option Nat} {st st' : CodeState} {it : View.TravItem}
    (h : codeAdvance dim v st it = .ok st') : st'.emap.size = st.emap.size := by
  obtain ⟨mi, src, tgt⟩ := it
  unfold codeAdvance at h
  simp only at h
  cases h0 : st.emap[tgt]? with
  | none => rw [h0] at h; cases h
  | some m0 =>
    rw [h0] at h
    simp only at h
    have hsz : (if m0 = 0 then st.emap.setIfInBounds tgt st.next else st.emap).size = st.emap.size := by
      split <;> simp
    cases h1 : (if m0 = 0 then st.emap.setIfInBounds tgt st.next else st.emap)[src]? with
    | none => rw [h1] at h; cases h
    | some ms =>
      rw [h1] at h
      simp only at h
      by_cases hn : (if m0 = 0 then st.next else m0) = st.next
      · rw [if_pos hn] at h
        split at h
        · cases h; exact hsz
        · cases h
        · cases h
      · rw [if_neg hn] at h
        cases h; exact hsz

theorem codeFold_size {dim : Nat} {v : Nat → Nat → Option Nat} :
    ∀ (its : List View.TravItem) (st st' : CodeState), codeFold dim v its st = .ok st' →
      st'.emap.size = st.emap.size
  | [], st, st', h => by cases h; rfl
  | it :: its, st, st', h => by
    rw [codeFold] at h
    cases h1 : codeAdvance dim v st it with
    | ok a =>
      rw [h1] at h
      rw [codeFold_size its a st' h, codeAdvance_size h1]
    | err => rw [h1] at h; cases h
    | panic => rw [h1] at h; cases h

theorem traversalCodeOf_map_size {s : View} {v : Nat → Nat → Option Nat} {seed : Nat} {c : Code}
    (h : traversalCodeOf s v seed = .ok c) : c.map.size = s.size + 1 := by
  unfold traversalCodeOf at h
  cases h1 : codeFold s.dim v (s.traversal s.indices [seed]) (CodeState.init s.size) with
  | ok st =>
    rw [h1] at h
    cases h
    rw [codeFold_size _ _ _ h1]
    simp [CodeState.init]
  | err => rw [h1] at h; cases h
  | panic => rw [h1] at h; cases h

/-- an isomorphism, extended by the identity, renumbers the view -/
theorem IsIso.renum {f : Nat → Nat} {a b : DSymData} (ha : ValidSet a.dset) (iso : IsIso f a b) :
    Renum (ext f a.size) a.view b.view := by
  refine ⟨ext_inj iso.range iso.inj, iso.size, iso.dim, ?_⟩
  intro i d
  by_cases hd : 1 ≤ d ∧ d ≤ a.size
  · rw [ext_in hd.1 hd.2]
    by_cases hi : i ≤ a.dim
    · show b.op i (f d) = (a.op i d).map _
      rw [iso.op i d hi hd.1 hd.2]
      have : a.op i d = some (a.dset.opU i d) := opSimple_inR hi hd.1 hd.2
      rw [this]
      have hr : 1 ≤ a.dset.opU i d ∧ a.dset.opU i d ≤ a.size := ha.range i d hi hd.1 hd.2
      show some (f _) = some (ext f a.size _)
      rw [ext_in hr.1 hr.2]
    · have e1 : b.view.op i (f d) = none := opSimple_oor _ _ _ (Or.inl (by
        have : b.dset.dim = a.dim := iso.dim
        omega))
      have e2 : a.view.op i d = none := opSimple_oor _ _ _ (Or.inl (by
        have : a.dset.dim = a.dim := rfl
        omega))
      rw [e1, e2]; rfl
  · rw [ext_out hd]
    have e1 : b.view.op i d = none := opSimple_oor _ _ _ (by
      have : b.dset.size = a.size := iso.size
      omega)
    have e2 : a.view.op i d = none := opSimple_oor _ _ _ (by
      have : a.dset.size = a.size := rfl
      omega)
    rw [e1, e2]; rfl

/-- **Equivariance of `TraversalCode` under an isomorphism** (in particular under every
    renumbering): started at corresponding seeds the two symbols produce the same code, and the
    element maps correspond, `map_b (f d) = map_a d`.  Both computations panic alike. -/
theorem traversalCode_equiv {f : Nat → Nat} {a b : DSymData} (ha : ValidSet a.dset)
    (iso : IsIso f a b) {seed : Nat} (h1 : 1 ≤ seed) (h2 : seed ≤ a.size) :
    OutRel (fun c c' => c'.code = c.code ∧ c'.map.size = c.map.size ∧
        ∀ d, 1 ≤ d → d ≤ a.size → c'.map.getD (f d) 0 = c.map.getD d 0)
      (traversalCode a seed) (traversalCode b (f seed)) := by
  have R := iso.renum ha
  have hb : ∀ d, ext f a.size d ≤ a.view.size ↔ d ≤ a.view.size := by
    intro d
    show ext f a.size d ≤ a.size ↔ d ≤ a.size
    by_cases hd : 1 ≤ d ∧ d ≤ a.size
    · have := (ext_range iso.range d).2 hd
      exact ⟨fun _ => hd.2, fun _ => this.2⟩
    · rw [ext_out hd]
  have hv : ∀ i d, i < a.view.dim → b.vAdj i (ext f a.size d) = a.vAdj i d := by
    intro i d hi
    by_cases hd : 1 ≤ d ∧ d ≤ a.size
    · rw [ext_in hd.1 hd.2]; exact iso.v i d hi hd.1 hd.2
    · rw [ext_out hd, vAdj_oor a hd, vAdj_oor b (by rw [iso.size]; exact hd)]
  have h := traversalCodeOf_equiv R hb hv seed
  rw [ext_in h1 h2] at h
  unfold traversalCode
  cases e1 : traversalCodeOf a.view a.vAdj seed with
  | ok c =>
    cases e2 : traversalCodeOf b.view b.vAdj (f seed) with
    | ok c' =>
      rw [e1, e2] at h
      refine ⟨h.1, ?_, ?_⟩
      · rw [traversalCodeOf_map_size e1, traversalCodeOf_map_size e2]
        show b.size + 1 = a.size + 1
        rw [iso.size]
      · intro d hd1 hd2
        have := h.2 d
        rw [ext_in hd1 hd2] at this
        rw [Array.getD_eq_getD_getElem?, Array.getD_eq_getD_getElem?, this]
    | err => rw [e1, e2] at h; exact h.elim
    | panic => rw [e1, e2] at h; exact h.elim
  | err =>
    cases e2 : traversalCodeOf b.view b.vAdj (f seed) with
    | ok c' => rw [e1, e2] at h; exact h.elim
    | err => trivial
    | panic => rw [e1, e2] at h; exact h.elim
  | panic =>
    cases e2 : traversalCodeOf b.view b.vAdj (f seed) with
    | ok c' => rw [e1, e2] at h; exact h.elim
    | err => rw [e1, e2] at h; exact h.elim
    | panic => trivial

/-- `rebuild_spec` in terms of `IsIso`: through a bijective chamber map `m` the tail of
    `canonical` returns a valid symbol isomorphic to `s` by `m` -/
theorem rebuild_isIso {s : DSymData} (h : ValidSym s) (hsize : 1 ≤ s.size) (hdim : 1 ≤ s.dim)
    {m : Array Nat} (hm : PermOn s.size m) :
    ∃ c, rebuild s m = .ok c ∧ ValidSym c ∧ IsIso (fun d => m.getD d 0) s c := by
  obtain ⟨c, hc, cvalid, csize, cdim, cop, cv⟩ := rebuild_spec h hsize hdim hm
  refine ⟨c, hc, cvalid, csize, cdim, hm.range, hm.inj, ?_, cv⟩
  intro i d hi h1 h2
  have r := hm.range d h1 h2
  show c.dset.opSimple i (m.getD d 0) = (s.dset.opSimple i d).map _
  rw [opSimple_inR (show i ≤ c.dset.dim by rw [show c.dset.dim = c.dim from rfl, cdim]; exact hi) r.1
      (show m.getD d 0 ≤ c.dset.size by rw [show c.dset.size = c.size from rfl, csize]; exact r.2),
    opSimple_inR (show i ≤ s.dset.dim from hi) h1 (show d ≤ s.dset.size from h2),
    cop i d hi h1 h2]
  rfl

/-! ### corresponding chamber maps rebuild the same symbol -/

theorem foldl_congr_mem {α β : Type} {f g : α → β → α} :
    ∀ (l : List β) (a : α), (∀ a, ∀ b ∈ l, f a b = g a b) → l.foldl f a = l.foldl g a
  | [], _, _ => rfl
  | b :: l, a, h => by
    rw [List.foldl_cons, List.foldl_cons, h a b (List.mem_cons_self ..)]
    exact foldl_congr_mem l _ (fun a' b' hb' => h a' b' (List.mem_cons_of_mem _ hb'))

/-- `build_set` only looks at the closure on in-range arguments -/
theorem buildSet_congr {size dim : Nat} {op1 op2 : Nat → Nat → Option Nat}
    (h : ∀ i d, i ≤ dim → 1 ≤ d → d ≤ size → op1 i d = op2 i d) :
    buildSet size dim op1 = buildSet size dim op2 := by
  rw [BS.buildSet_eq_fold, BS.buildSet_eq_fold]
  cases DSetData.new size dim with
  | ok ds0 =>
    simp only
    apply foldl_congr_mem
    intro acc p hp
    have hp' := BS.mem_pairs.1 (show (p.1, p.2) ∈ BS.pairs size dim from hp)
    unfold BS.step
    rw [h p.1 p.2 hp'.1 hp'.2.1 hp'.2.2]
  | err => rfl
  | panic => rfl

theorem setV_dset {s t : DSymData} {i d x : Nat} (h : s.setV i d x = .ok t) : t.dset = s.dset := by
  unfold DSymData.setV at h
  split at h
  · cases h
  · split at h
    · split at h
      · cases h; rfl
      · cases h
    · cases h
    · cases h

theorem vsInner_fold_dset (v : Nat → Nat → Option Nat) (i : Nat) :
    ∀ (l : List Nat) (acc : Outcome DSymData) (ds : DSetData), (∀ sym, acc = .ok sym → sym.dset = ds) →
      ∀ sym', l.foldl (vsInner v i) acc = .ok sym' → sym'.dset = ds
  | [], acc, ds, h, sym', e => h sym' e
  | r :: l, acc, ds, h, sym', e => by
    rw [List.foldl_cons] at e
    refine vsInner_fold_dset v i l _ ds ?_ sym' e
    intro sym hs
    unfold vsInner at hs
    cases acc with
    | ok s0 =>
      simp only at hs
      cases hv : v i r with
      | none => rw [hv] at hs; cases hs; exact h _ rfl
      | some x =>
        rw [hv] at hs
        rw [setV_dset hs]; exact h s0 rfl
    | err => cases hs
    | panic => cases hs

/-- `build_sym_using_vs` only looks at the branching function on in-range arguments -/
theorem buildSymUsingVs_congr {ds : DSetData} (hds : ValidSet ds) {v1 v2 : Nat → Nat → Option Nat}
    (h : ∀ i d, i < ds.dim → 1 ≤ d → d ≤ ds.size → v1 i d = v2 i d) :
    buildSymUsingVs ds v1 = buildSymUsingVs ds v2 := by
  rw [buildSymUsingVs_eq, buildSymUsingVs_eq, ofPartial_valid hds]
  simp only
  have key : ∀ (is : List Nat) (acc : Outcome DSymData), (∀ i ∈ is, i < ds.dim) →
      (∀ sym, acc = .ok sym → sym.dset = ds) →
      is.foldl (vsOuter v1) acc = is.foldl (vsOuter v2) acc := by
    intro is
    induction is with
    | nil => intro _ _ _; rfl
    | cons i is ih =>
      intro acc his hacc
      have hi := his i (List.mem_cons_self ..)
      rw [List.foldl_cons, List.foldl_cons]
      have e : vsOuter v1 acc i = vsOuter v2 acc i := by
        unfold vsOuter
        cases acc with
        | ok sym =>
          simp only
          have hview : sym.view = ds.viewSimple := by rw [sym.view_eq, hacc sym rfl]
          rw [hview]
          apply foldl_congr_mem
          intro a r hr
          have hr' := (orbitReps2d_cover hds (Nat.le_of_lt hi) (show i + 1 ≤ ds.dim from hi)).1 r hr
          unfold vsInner
          rw [h i r hi hr'.1 hr'.2]
        | err => rfl
        | panic => rfl
      rw [e]
      apply ih _ (fun j hj => his j (List.mem_cons_of_mem _ hj))
      intro sym hs
      unfold vsOuter at hs
      cases acc with
      | ok s0 =>
        simp only at hs
        exact vsInner_fold_dset v2 i _ (.ok s0) ds (fun s1 h1 => by cases h1; exact hacc s0 rfl) sym hs
      | err => cases hs
      | panic => cases hs
  apply key
  · intro i hi
    have : i < (DSymData.ofSimple ds).dim := List.mem_range.1 hi
    exact this
  · intro sym hs; cases hs; rfl

/-- **Corresponding chamber maps rebuild the same symbol.**  If `f : a → b` is an isomorphism and
    the chamber maps `m` (of `a`) and `m'` (of `b`) correspond, `m' (f d) = m d`, then the tail of
    `canonical` returns literally the same symbol for `(b, m')` as for `(a, m)`. -/
theorem rebuild_iso_eq {f : Nat → Nat} {a b : DSymData} (ha : ValidSym a)
    (iso : IsIso f a b) {m m' : Array Nat} (hm : PermOn a.size m) (hm' : PermOn b.size m')
    (hmm : ∀ d, 1 ≤ d → d ≤ a.size → m'.getD (f d) 0 = m.getD d 0) :
    rebuild b m' = rebuild a m := by
  obtain ⟨g, eg, _, hgf, hfg⟩ := invertMap_spec hm
  obtain ⟨g', eg', _, hgf', hfg'⟩ := invertMap_spec hm'
  have bsize : b.size = a.size := iso.size
  have bdim : b.dim = a.dim := iso.dim
  -- g' x = f (g x)
  have hgg : ∀ x, 1 ≤ x → x ≤ a.size → g'.getD x 0 = f (g.getD x 0) := by
    intro x h1 h2
    have hg := (hfg x h1 h2)
    have hr := iso.range _ hg.1.1 hg.1.2
    have := hgf' (f (g.getD x 0)) hr.1 (by rw [bsize]; exact hr.2)
    rw [hmm _ hg.1.1 hg.1.2, hg.2] at this
    exact this
  unfold rebuild
  rw [eg, eg']
  simp only
  rw [bsize, bdim]
  have hop : buildSet a.size a.dim (fun i d => (b.op i (g'.getD d 0)).map (fun e => m'.getD e 0)) =
      buildSet a.size a.dim (fun i d => (a.op i (g.getD d 0)).map (fun e => m.getD e 0)) := by
    apply buildSet_congr
    intro i d hi h1 h2
    have hg := (hfg d h1 h2).1
    show (b.op i (g'.getD d 0)).map _ = (a.op i (g.getD d 0)).map _
    rw [hgg d h1 h2, iso.op i _ hi hg.1 hg.2]
    have : a.op i (g.getD d 0) = some (a.dset.opU i (g.getD d 0)) := opSimple_inR hi hg.1 hg.2
    rw [this]
    have hr : 1 ≤ a.dset.opU i (g.getD d 0) ∧ a.dset.opU i (g.getD d 0) ≤ a.size :=
      ha.set.range i _ hi hg.1 hg.2
    show some (m'.getD (f _) 0) = some (m.getD _ 0)
    rw [hmm _ hr.1 hr.2]
  rw [hop]
  cases hbs : buildSet a.size a.dim (fun i d => (a.op i (g.getD d 0)).map (fun e => m.getD e 0)) with
  | ok ds =>
    simp only
    -- ds is a valid D-set of the size and dimension of `a`
    obtain ⟨c, hc, cvalid, csize, cdim, _, _⟩ :=
      rebuild_spec ha (buildSet_ok_inv hbs).1 (buildSet_ok_inv hbs).2.1 hm
    have hds : ValidSet ds ∧ ds.size = a.size ∧ ds.dim = a.dim := by
      unfold rebuild at hc
      rw [eg] at hc
      simp only at hc
      rw [hbs] at hc
      simp only at hc
      rw [buildSymUsingVs_eq] at hc
      cases hp : DSymData.ofPartial ds with
      | ok s0 =>
        rw [hp] at hc
        simp only at hc
        have hcd : c.dset = ds := by
          have key : ∀ (is : List Nat) (acc : Outcome DSymData), (∀ sym, acc = .ok sym → sym.dset = ds) →
              ∀ sym', is.foldl (vsOuter (fun i d => a.vAdj i (g.getD d 0))) acc = .ok sym' → sym'.dset = ds := by
            intro is
            induction is with
            | nil => intro acc h sym' e; exact h sym' e
            | cons i is ih =>
              intro acc h sym' e
              rw [List.foldl_cons] at e
              refine ih _ ?_ sym' e
              intro sym hs
              unfold vsOuter at hs
              cases acc with
              | ok s1 =>
                simp only at hs
                exact vsInner_fold_dset _ i _ (.ok s1) ds (fun s2 h2 => by cases h2; exact h s1 rfl) sym hs
              | err => cases hs
              | panic => cases hs
          refine key _ (.ok s0) ?_ c hc
          intro sym hs
          cases hs
          unfold DSymData.ofPartial at hp
          cases ht : ds.toSimple with
          | ok s1 =>
            rw [ht] at hp
            cases hp
            unfold DSetData.toSimple at ht
            split at ht
            · cases ht; rfl
            · cases ht
          | err => rw [ht] at hp; cases hp
          | panic => rw [ht] at hp; cases hp
        refine ⟨by rw [← hcd]; exact cvalid.set, ?_, ?_⟩
        · rw [← hcd]; exact csize
        · rw [← hcd]; exact cdim
      | err => rw [hp] at hc; cases hc
      | panic => rw [hp] at hc; cases hc
    apply buildSymUsingVs_congr hds.1
    intro i d hi h1 h2
    rw [hds.2.2] at hi
    rw [hds.2.1] at h2
    have hg := (hfg d h1 h2).1
    show b.vAdj i (g'.getD d 0) = a.vAdj i (g.getD d 0)
    rw [hgg d h1 h2, iso.v i _ hi hg.1 hg.2]
  | err => rfl
  | panic => rfl

end CanonP
end DSymVerif.DS
