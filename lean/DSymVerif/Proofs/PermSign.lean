/-
The sign of a permutation of a finite type from the number of its cycles (fixed points
included), the latter written as Σ_x 1/(period of x).  Used for `chi_even_closed_orientable`
(property C08).
-/
import Mathlib.GroupTheory.Perm.Cycle.Type
import Mathlib.Dynamics.PeriodicPts.Defs
import Mathlib.Dynamics.PeriodicPts.Lemmas
import Mathlib.Algebra.Order.Field.Rat
import Mathlib.Tactic.FieldSimp
import Mathlib.Tactic.Linarith

namespace DSymVerif.PermSign
open Equiv Equiv.Perm

variable {β : Type} [Fintype β] [DecidableEq β]

/-- the size of the cycle through a moved point is its minimal period -/
theorem card_support_cycleOf_eq (π : Perm β) {x : β} (hx : π x ≠ x) :
    (π.cycleOf x).support.card = Function.minimalPeriod π x := by
  have hc := isCycle_cycleOf π hx
  have hcx : π.cycleOf x x ≠ x := by rwa [cycleOf_apply_self]
  rw [← hc.orderOf]
  apply Nat.dvd_antisymm
  · rw [orderOf_dvd_iff_pow_eq_one, hc.pow_eq_one_iff' hcx, cycleOf_pow_apply_self]
    have h : π^[Function.minimalPeriod π x] x = x := Function.isPeriodicPt_minimalPeriod π x
    rwa [Equiv.Perm.iterate_eq_pow] at h
  · rw [← Function.isPeriodicPt_iff_minimalPeriod_dvd]
    show π^[orderOf (π.cycleOf x)] x = x
    rw [Equiv.Perm.iterate_eq_pow, ← cycleOf_pow_apply_self, pow_orderOf_eq_one]
    rfl

/-- the number of non-trivial cycles as a sum over the moved points -/
theorem card_cycleFactors_eq_sum (π : Perm β) :
    (π.cycleFactorsFinset.card : ℚ) = ∑ x ∈ π.support, 1 / ((π.cycleOf x).support.card : ℚ) := by
  have hmaps : ∀ x ∈ π.support, π.cycleOf x ∈ π.cycleFactorsFinset :=
    fun x hx => cycleOf_mem_cycleFactorsFinset_iff.2 hx
  rw [← Finset.sum_fiberwise_of_maps_to hmaps]
  rw [Finset.card_eq_sum_ones, Nat.cast_sum]
  apply Finset.sum_congr rfl
  intro c hc
  have hfib : (π.support.filter fun x => π.cycleOf x = c) = c.support := by
    ext x
    simp only [Finset.mem_filter]
    constructor
    · rintro ⟨hx, rfl⟩
      exact (mem_support_cycleOf_iff.2 ⟨SameCycle.refl _ _, hx⟩)
    · intro hx
      have e := cycle_is_cycleOf hx hc
      refine ⟨?_, e.symm⟩
      exact mem_cycleFactorsFinset_support_le hc hx
  rw [hfib]
  have hcard : (c.support.card : ℚ) ≠ 0 := by
    have := (mem_cycleFactorsFinset_iff.1 hc).1.two_le_card_support
    exact_mod_cast (by omega : c.support.card ≠ 0)
  rw [Finset.sum_congr rfl (fun x hx => by rw [← cycle_is_cycleOf hx hc])]
  rw [Finset.sum_const, nsmul_eq_mul]
  push_cast
  field_simp

/-- the number of cycles, fixed points included -/
noncomputable def zQ (π : Perm β) : ℚ := ∑ x : β, 1 / (Function.minimalPeriod π x : ℚ)

theorem zQ_eq (π : Perm β) :
    zQ π = (Fintype.card β : ℚ) - (π.support.card : ℚ) + (π.cycleFactorsFinset.card : ℚ) := by
  unfold zQ
  rw [← Finset.sum_filter_add_sum_filter_not Finset.univ (fun x => x ∈ π.support)]
  have h1 : ∑ x ∈ Finset.univ.filter (fun x => x ∈ π.support), 1 / (Function.minimalPeriod π x : ℚ) =
      (π.cycleFactorsFinset.card : ℚ) := by
    rw [card_cycleFactors_eq_sum]
    have : Finset.univ.filter (fun x => x ∈ π.support) = π.support := by ext x; simp
    rw [this]
    apply Finset.sum_congr rfl
    intro x hx
    rw [card_support_cycleOf_eq π (mem_support.1 hx)]
  have h2 : ∑ x ∈ Finset.univ.filter (fun x => ¬ x ∈ π.support), 1 / (Function.minimalPeriod π x : ℚ) =
      (Fintype.card β : ℚ) - (π.support.card : ℚ) := by
    have hfix : ∀ x ∈ Finset.univ.filter (fun x => ¬ x ∈ π.support),
        1 / (Function.minimalPeriod π x : ℚ) = 1 := by
      intro x hx
      have hx' : π x = x := by simpa using hx
      have : Function.minimalPeriod π x = 1 := Function.minimalPeriod_eq_one_iff_isFixedPt.2 hx'
      rw [this]; norm_num
    rw [Finset.sum_congr rfl hfix, Finset.sum_const, nsmul_eq_mul, mul_one]
    have : (Finset.univ.filter (fun x => ¬ x ∈ π.support)).card = Fintype.card β - π.support.card := by
      rw [← Finset.card_compl]; congr 1; ext x; simp
    rw [this, Nat.cast_sub (Finset.card_le_univ _)]
  rw [h1, h2]; ring

/-- **sign and cycles**: `sign π = (−1)^k` for every `k` with `k = n − (number of cycles)` -/
theorem sign_eq_of_zQ (π : Perm β) (k : Nat) (hk : (k : ℚ) = (Fintype.card β : ℚ) - zQ π) :
    sign π = (-1 : ℤˣ) ^ k := by
  rw [sign_of_cycleType, sum_cycleType]
  have hcard : Multiset.card π.cycleType = π.cycleFactorsFinset.card := by
    rw [cycleType_def]; simp
  rw [hcard]
  rw [zQ_eq] at hk
  have hle : π.cycleFactorsFinset.card ≤ π.support.card := by
    have := π.sum_cycleType
    have h2 : ∀ n ∈ π.cycleType, 1 ≤ n := fun n hn => le_trans one_le_two (two_le_of_mem_cycleType hn)
    calc π.cycleFactorsFinset.card = Multiset.card π.cycleType := hcard.symm
      _ ≤ π.cycleType.sum := by
        have := Multiset.card_nsmul_le_sum h2
        simpa using this
      _ = π.support.card := π.sum_cycleType
  have hk' : k + π.cycleFactorsFinset.card = π.support.card := by
    have : (k : ℚ) + (π.cycleFactorsFinset.card : ℚ) = (π.support.card : ℚ) := by linarith
    exact_mod_cast this
  have : π.support.card + π.cycleFactorsFinset.card = k + 2 * π.cycleFactorsFinset.card := by omega
  rw [this, pow_add, pow_mul]
  simp

/-- three permutations with product one: the numbers `n − cycles` add up to an even number -/
theorem three_perms_parity (a b c : Perm β) (h : c * b * a = 1) (ka kb kc : Nat)
    (ha : (ka : ℚ) = (Fintype.card β : ℚ) - zQ a) (hb : (kb : ℚ) = (Fintype.card β : ℚ) - zQ b)
    (hc : (kc : ℚ) = (Fintype.card β : ℚ) - zQ c) : Even (ka + kb + kc) := by
  have hs := congrArg sign h
  rw [sign_mul, sign_mul, sign_one, sign_eq_of_zQ a ka ha, sign_eq_of_zQ b kb hb, sign_eq_of_zQ c kc hc,
    ← pow_add, ← pow_add] at hs
  by_contra hodd
  rw [Nat.not_even_iff_odd] at hodd
  have e : kc + kb + ka = ka + kb + kc := by omega
  rw [e, Odd.neg_one_pow hodd] at hs
  exact absurd hs (by decide)

end DSymVerif.PermSign

/-! ### further counting lemmas (oriented maps) -/

namespace DSymVerif.PermSign
open Equiv Equiv.Perm

set_option linter.unusedSectionVars false

variable {β : Type} [Fintype β] [DecidableEq β]

theorem periodic (π : Perm β) (x : β) : x ∈ Function.periodicPts π := by
  refine Function.mk_mem_periodicPts (orderOf_pos π) ?_
  show π^[orderOf π] x = x
  rw [Equiv.Perm.iterate_eq_pow, pow_orderOf_eq_one]; rfl

theorem period_two (π : Perm β) {x : β} (h1 : π x ≠ x) (h2 : π (π x) = x) :
    Function.minimalPeriod π x = 2 := by
  have : Fact (Nat.Prime 2) := ⟨Nat.prime_two⟩
  exact Function.minimalPeriod_eq_prime (f := π) (show π^[2] x = x from h2) h1

theorem period_three (π : Perm β) {x : β} (h1 : π x ≠ x) (h3 : π (π (π x)) = x) :
    Function.minimalPeriod π x = 3 := by
  have : Fact (Nat.Prime 3) := ⟨Nat.prime_three⟩
  exact Function.minimalPeriod_eq_prime (f := π) (show π^[3] x = x from h3) h1

/-- a finite invariant set swept out by the iterates of one point is one cycle -/
theorem single_cycle_sum (π : Perm β) (S : Finset β) (x0 : β)
    (hinv : ∀ k, π^[k] x0 ∈ S) (hreach : ∀ y ∈ S, ∃ k, π^[k] x0 = y) :
    ∑ y ∈ S, 1 / (Function.minimalPeriod π y : ℚ) = 1 := by
  have hx0 := periodic π x0
  set m := Function.minimalPeriod π x0 with hm
  have hmpos : 0 < m := Function.minimalPeriod_pos_of_mem_periodicPts hx0
  have hS : S = (Finset.range m).image fun k => π^[k] x0 := by
    ext y
    simp only [Finset.mem_image, Finset.mem_range]
    constructor
    · intro hy
      obtain ⟨k, rfl⟩ := hreach y hy
      exact ⟨k % m, Nat.mod_lt _ hmpos, Function.iterate_mod_minimalPeriod_eq⟩
    · rintro ⟨k, _, rfl⟩; exact hinv k
  have hcard : S.card = m := by
    rw [hS, Finset.card_image_of_injOn, Finset.card_range]
    intro a ha b hb hab
    exact Function.iterate_injOn_Iio_minimalPeriod (by simpa using ha) (by simpa using hb) hab
  have hper : ∀ y ∈ S, 1 / (Function.minimalPeriod π y : ℚ) = 1 / (m : ℚ) := by
    intro y hy
    obtain ⟨k, rfl⟩ := hreach y hy
    rw [Function.minimalPeriod_apply_iterate hx0]
  rw [Finset.sum_congr rfl hper, Finset.sum_const, hcard, nsmul_eq_mul]
  have : (m : ℚ) ≠ 0 := by exact_mod_cast (by omega : m ≠ 0)
  field_simp

/-- the number of cycles from a partition into single cycles -/
theorem zQ_fibres {κ : Type} [DecidableEq κ] (π : Perm β) (key : β → κ)
    (h : ∀ v ∈ Finset.univ.image key,
      ∑ x ∈ Finset.univ.filter (fun x => key x = v), 1 / (Function.minimalPeriod π x : ℚ) = 1) :
    zQ π = ((Finset.univ.image key).card : ℚ) := by
  unfold zQ
  rw [← Finset.sum_fiberwise_of_maps_to (g := key) (t := Finset.univ.image key)
    (fun x _ => Finset.mem_image_of_mem key (Finset.mem_univ x))]
  rw [Finset.sum_congr rfl h, Finset.sum_const, nsmul_eq_mul, mul_one]

theorem zQ_sumCongr {γ : Type} [Fintype γ] [DecidableEq γ] (a : Perm β) (b : Perm γ) :
    zQ (Equiv.sumCongr a b) = zQ a + zQ b := by
  unfold zQ
  rw [Fintype.sum_sum_type]
  have hl : ∀ (n : Nat) (x : β), (Equiv.sumCongr a b)^[n] (Sum.inl x) = Sum.inl (a^[n] x) := by
    intro n; induction n with
    | zero => intro x; rfl
    | succ n ih => intro x; rw [Function.iterate_succ_apply', Function.iterate_succ_apply', ih]; rfl
  have hr : ∀ (n : Nat) (x : γ), (Equiv.sumCongr a b)^[n] (Sum.inr x) = Sum.inr (b^[n] x) := by
    intro n; induction n with
    | zero => intro x; rfl
    | succ n ih => intro x; rw [Function.iterate_succ_apply', Function.iterate_succ_apply', ih]; rfl
  congr 1
  · apply Finset.sum_congr rfl
    intro x _
    congr 2
    apply Function.minimalPeriod_eq_minimalPeriod_iff.2
    intro n
    show (Equiv.sumCongr a b)^[n] (Sum.inl x) = Sum.inl x ↔ a^[n] x = x
    rw [hl]; exact Sum.inl_injective.eq_iff
  · apply Finset.sum_congr rfl
    intro x _
    congr 2
    apply Function.minimalPeriod_eq_minimalPeriod_iff.2
    intro n
    show (Equiv.sumCongr a b)^[n] (Sum.inr x) = Sum.inr x ↔ b^[n] x = x
    rw [hr]; exact Sum.inr_injective.eq_iff

/-- the parity identity of an oriented map: σ = φ·α -/
theorem map_parity (φ α : Perm β) (kφ kα kσ : Nat)
    (hφ : (kφ : ℚ) = (Fintype.card β : ℚ) - zQ φ) (hα : (kα : ℚ) = (Fintype.card β : ℚ) - zQ α)
    (hσ : (kσ : ℚ) = (Fintype.card β : ℚ) - zQ (φ * α)) : Even (kφ + kα + kσ) := by
  have hs : sign (φ * α) = sign φ * sign α := sign_mul φ α
  rw [sign_eq_of_zQ (φ * α) kσ hσ, sign_eq_of_zQ φ kφ hφ, sign_eq_of_zQ α kα hα, ← pow_add] at hs
  by_contra hodd
  rw [Nat.not_even_iff_odd] at hodd
  have : ((-1 : ℤˣ) ^ kσ) * ((-1 : ℤˣ) ^ (kφ + kα)) = 1 := by
    rw [hs, ← pow_add, ← two_mul, pow_mul]; simp
  rw [← pow_add] at this
  have e : kσ + (kφ + kα) = kφ + kα + kσ := by omega
  rw [e, Odd.neg_one_pow hodd] at this
  exact absurd this (by decide)

end DSymVerif.PermSign
