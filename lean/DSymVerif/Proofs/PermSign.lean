/-
The sign of a permutation of a finite type from the number of its cycles (fixed points
included), the latter written as Σ_x 1/(period of x).  Used for `chi_even_closed_orientable`
(property C08).
-/
import Mathlib.GroupTheory.Perm.Cycle.Type
import Mathlib.Dynamics.PeriodicPts.Defs
import Mathlib.Algebra.Order.Field.Rat
import Mathlib.Tactic.FieldSimp
import Mathlib.Tactic.Linarith

namespace DSymVerif.PermSign
open Equiv Equiv.Perm

variable {β : Type} [Fintype β] [DecidableEq β]

/-- the size of the cycle through a moved point is its minimal period -/
theorem card_support_cycleOf_eq (π : Perm β) {x : β} (hx : π x ≠ x) :
    (π.cycleOf x).support.card = Function.minimalPeriod π x := by
  have hc := isCycle_cycleOf π hx
  have hcx : π.cycleOf x x ≠ x := by rwa [cycleOf_apply_self]
  rw [← hc.orderOf]
  apply Nat.dvd_antisymm
  · rw [orderOf_dvd_iff_pow_eq_one, hc.pow_eq_one_iff' hcx, cycleOf_pow_apply_self]
    have h : π^[Function.minimalPeriod π x] x = x := Function.isPeriodicPt_minimalPeriod π x
    rwa [Equiv.Perm.iterate_eq_pow] at h
  · rw [← Function.isPeriodicPt_iff_minimalPeriod_dvd]
    show π^[orderOf (π.cycleOf x)] x = x
    rw [Equiv.Perm.iterate_eq_pow, ← cycleOf_pow_apply_self, pow_orderOf_eq_one]
    rfl

/-- the number of non-trivial cycles as a sum over the moved points -/
theorem card_cycleFactors_eq_sum (π : Perm β) :
    (π.cycleFactorsFinset.card : ℚ) = ∑ x ∈ π.support, 1 / ((π.cycleOf x).support.card : ℚ) := by
  have hmaps : ∀ x ∈ π.support, π.cycleOf x ∈ π.cycleFactorsFinset :=
    fun x hx => cycleOf_mem_cycleFactorsFinset_iff.2 hx
  rw [← Finset.sum_fiberwise_of_maps_to hmaps]
  rw [Finset.card_eq_sum_ones, Nat.cast_sum]
  apply Finset.sum_congr rfl
  intro c hc
  have hfib : (π.support.filter fun x => π.cycleOf x = c) = c.support := by
    ext x
    simp only [Finset.mem_filter]
    constructor
    · rintro ⟨hx, rfl⟩
      exact (mem_support_cycleOf_iff.2 ⟨SameCycle.refl _ _, hx⟩)
    · intro hx
      have e := cycle_is_cycleOf hx hc
      refine ⟨?_, e.symm⟩
      exact mem_cycleFactorsFinset_support_le hc hx
  rw [hfib]
  have hcard : (c.support.card : ℚ) ≠ 0 := by
    have := (mem_cycleFactorsFinset_iff.1 hc).1.two_le_card_support
    exact_mod_cast (by omega : c.support.card ≠ 0)
  rw [Finset.sum_congr rfl (fun x hx => by rw [← cycle_is_cycleOf hx hc])]
  rw [Finset.sum_const, nsmul_eq_mul]
  push_cast
  field_simp

/-- the number of cycles, fixed points included -/
noncomputable def zQ (π : Perm β) : ℚ := ∑ x : β, 1 / (Function.minimalPeriod π x : ℚ)

theorem zQ_eq (π : Perm β) :
    zQ π = (Fintype.card β : ℚ) - (π.support.card : ℚ) + (π.cycleFactorsFinset.card : ℚ) := by
  unfold zQ
  rw [← Finset.sum_filter_add_sum_filter_not Finset.univ (fun x => x ∈ π.support)]
  have h1 : ∑ x ∈ Finset.univ.filter (fun x => x ∈ π.support), 1 / (Function.minimalPeriod π x : ℚ) =
      (π.cycleFactorsFinset.card : ℚ) := by
    rw [card_cycleFactors_eq_sum]
    have : Finset.univ.filter (fun x => x ∈ π.support) = π.support := by ext x; simp
    rw [this]
    apply Finset.sum_congr rfl
    intro x hx
    rw [card_support_cycleOf_eq π (mem_support.1 hx)]
  have h2 : ∑ x ∈ Finset.univ.filter (fun x => ¬ x ∈ π.support), 1 / (Function.minimalPeriod π x : ℚ) =
      (Fintype.card β : ℚ) - (π.support.card : ℚ) := by
    have hfix : ∀ x ∈ Finset.univ.filter (fun x => ¬ x ∈ π.support),
        1 / (Function.minimalPeriod π x : ℚ) = 1 := by
      intro x hx
      have hx' : π x = x := by simpa using hx
      have : Function.minimalPeriod π x = 1 := Function.minimalPeriod_eq_one_iff_isFixedPt.2 hx'
      rw [this]; norm_num
    rw [Finset.sum_congr rfl hfix, Finset.sum_const, nsmul_eq_mul, mul_one]
    have : (Finset.univ.filter (fun x => ¬ x ∈ π.support)).card = Fintype.card β - π.support.card := by
      rw [← Finset.card_compl]; congr 1; ext x; simp
    rw [this, Nat.cast_sub (Finset.card_le_univ _)]
  rw [h1, h2]; ring

/-- **sign and cycles**: `sign π = (−1)^k` for every `k` with `k = n − (number of cycles)` -/
theorem sign_eq_of_zQ (π : Perm β) (k : Nat) (hk : (k : ℚ) = (Fintype.card β : ℚ) - zQ π) :
    sign π = (-1 : ℤˣ) ^ k := by
  rw [sign_of_cycleType, sum_cycleType]
  have hcard : Multiset.card π.cycleType = π.cycleFactorsFinset.card := by
    rw [cycleType_def]; simp
  rw [hcard]
  rw [zQ_eq] at hk
  have hle : π.cycleFactorsFinset.card ≤ π.support.card := by
    have := π.sum_cycleType
    have h2 : ∀ n ∈ π.cycleType, 1 ≤ n := fun n hn => le_trans one_le_two (two_le_of_mem_cycleType hn)
    calc π.cycleFactorsFinset.card = Multiset.card π.cycleType := hcard.symm
      _ ≤ π.cycleType.sum := by
        have := Multiset.card_nsmul_le_sum h2
        simpa using this
      _ = π.support.card := π.sum_cycleType
  have hk' : k + π.cycleFactorsFinset.card = π.support.card := by
    have : (k : ℚ) + (π.cycleFactorsFinset.card : ℚ) = (π.support.card : ℚ) := by linarith
    exact_mod_cast this
  have : π.support.card + π.cycleFactorsFinset.card = k + 2 * π.cycleFactorsFinset.card := by omega
  rw [this, pow_add, pow_mul]
  simp

/-- three permutations with product one: the numbers `n − cycles` add up to an even number -/
theorem three_perms_parity (a b c : Perm β) (h : c * b * a = 1) (ka kb kc : Nat)
    (ha : (ka : ℚ) = (Fintype.card β : ℚ) - zQ a) (hb : (kb : ℚ) = (Fintype.card β : ℚ) - zQ b)
    (hc : (kc : ℚ) = (Fintype.card β : ℚ) - zQ c) : Even (ka + kb + kc) := by
  have hs := congrArg sign h
  rw [sign_mul, sign_mul, sign_one, sign_eq_of_zQ a ka ha, sign_eq_of_zQ b kb hb, sign_eq_of_zQ c kc hc,
    ← pow_add, ← pow_add] at hs
  by_contra hodd
  rw [Nat.not_even_iff_odd] at hodd
  have e : kc + kb + ka = ka + kb + kc := by omega
  rw [e, Odd.neg_one_pow hodd] at hs
  exact absurd hs (by decide)

end DSymVerif.PermSign
