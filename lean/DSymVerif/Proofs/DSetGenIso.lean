/-
Lemmas about the model of the D-set generator, part 13: two isomorphic orderly canonical
D-sets are equal.  Under an isomorphism A → B that sends chamber 1 to d0, the comparison
`compare_renumbered_from(B, d0)` renumbers B into A and returns the first difference
between A and B in row-major order.  Core Lean only.
-/
import DSymVerif.Proofs.DSetGenNodup

namespace DSymVerif.DSG
open DSymVerif.DS

/-- an isomorphism of D-sets given by mutually inverse chamber maps -/
structure IsoBy (A B : DSetData) (f g : Nat → Nat) : Prop where
  size_eq : A.size = B.size
  dim_eq : A.dim = B.dim
  f_range : ∀ d, 1 ≤ d → d ≤ A.size → 1 ≤ f d ∧ f d ≤ B.size
  g_range : ∀ d, 1 ≤ d → d ≤ B.size → 1 ≤ g d ∧ g d ≤ A.size
  gf : ∀ d, 1 ≤ d → d ≤ A.size → g (f d) = d
  fg : ∀ d, 1 ≤ d → d ≤ B.size → f (g d) = d
  comm : ∀ i d, i ≤ A.dim → 1 ≤ d → d ≤ A.size → f (A.opU i d) = B.opU i (f d)

theorem IsoBy.symm {A B : DSetData} {f g : Nat → Nat} (hA : ValidSet A) (h : IsoBy A B f g) :
    IsoBy B A g f := by
  refine ⟨h.size_eq.symm, h.dim_eq.symm, h.g_range, h.f_range, h.fg, h.gf, ?_⟩
  intro i d hi hd1 hd2
  have hi' : i ≤ A.dim := by rw [h.dim_eq]; exact hi
  obtain ⟨g1, g2⟩ := h.g_range d hd1 hd2
  obtain ⟨r1, r2⟩ := hA.range i (g d) hi' g1 g2
  have := h.comm i (g d) hi' g1 g2
  rw [h.fg d hd1 hd2] at this
  rw [← this, h.gf _ r1 r2]

theorem IsoBy.refl (A : DSetData) : IsoBy A A id id :=
  ⟨rfl, rfl, fun _ a b => ⟨a, b⟩, fun _ a b => ⟨a, b⟩, fun _ _ _ => rfl, fun _ _ _ => rfl,
   fun _ _ _ _ _ => rfl⟩

/-- first difference A − B over a list of (chamber, index) positions -/
def firstDiff (A B : DSetData) : List (Nat × Nat) → Int
  | [] => 0
  | (d, i) :: l =>
    if A.opU i d ≠ B.opU i d then (A.opU i d : Int) - (B.opU i d : Int) else firstDiff A B l

theorem firstDiff_neg (A B : DSetData) : ∀ l, firstDiff B A l = - firstDiff A B l := by
  intro l
  induction l with
  | nil => simp [firstDiff]
  | cons p l ih =>
    obtain ⟨d, i⟩ := p
    simp only [firstDiff]
    by_cases h : A.opU i d = B.opU i d
    · have h' : ¬ B.opU i d ≠ A.opU i d := by simp [h]
      have h'' : ¬ A.opU i d ≠ B.opU i d := by simp [h]
      rw [if_neg h', if_neg h'', ih]
    · have h' : B.opU i d ≠ A.opU i d := fun e => h e.symm
      rw [if_pos h', if_pos h]
      omega

theorem firstDiff_zero (A B : DSetData) : ∀ l, firstDiff A B l = 0 →
    ∀ p, p ∈ l → A.opU p.2 p.1 = B.opU p.2 p.1 := by
  intro l
  induction l with
  | nil => intro _ p hp; cases hp
  | cons q l ih =>
    obtain ⟨d, i⟩ := q
    intro h p hp
    simp only [firstDiff] at h
    by_cases hne : A.opU i d = B.opU i d
    · have h'' : ¬ A.opU i d ≠ B.opU i d := by simp [hne]
      rw [if_neg h''] at h
      rcases List.mem_cons.1 hp with rfl | hp
      · exact hne
      · exact ih h p hp
    · rw [if_pos hne] at h
      omega

/-- a position before the head of the remaining list has been processed -/
theorem mem_pre_of_lexLt {size dim : Nat} {pre rest : List (Nat × Nat)} {p q : Nat × Nat}
    (hsplit : loopPairs size dim = pre ++ p :: rest) (hq : q ∈ loopPairs size dim)
    (hlt : LexLt q p) : q ∈ pre := by
  rw [hsplit] at hq
  rcases List.mem_append.1 hq with hq | hq
  · exact hq
  · exfalso
    have hpw := pairwise_loopPairs size dim
    rw [hsplit, List.pairwise_append] at hpw
    obtain ⟨_, hpw2, _⟩ := hpw
    rcases List.mem_cons.1 hq with hq | hq
    · subst hq; unfold LexLt at hlt; omega
    · have := (List.pairwise_cons.1 hpw2).1 _ hq
      unfold LexLt at this hlt
      omega

/-- the renumbering state follows the isomorphism -/
structure KInv (A B : DSetData) (f g : Nat → Nat) (maxSize : Nat) (r : Renum) : Prop where
  n2o_size : r.n2o.size = maxSize + 1
  o2n_size : r.o2n.size = maxSize + 1
  next_ge : 2 ≤ r.next
  next_le : r.next ≤ A.size + 1
  n2o_eq : ∀ k, 1 ≤ k → k < r.next → r.n2o.getD k 0 = f k
  o2n_eq : ∀ x, 1 ≤ x → x ≤ B.size → r.o2n.getD x 0 = if g x < r.next then g x else 0

theorem cmpLoop_iso {A B : DSetData} {f g : Nat → Nat} {maxSize : Nat} (hA : ValidSet A)
    (hB : ValidSet B) (hO : Orderly A) (hL : Linked A) (hiso : IsoBy A B f g)
    (hsz : A.size ≤ maxSize) :
    ∀ (l pre : List (Nat × Nat)) (r : Renum), loopPairs B.size B.dim = pre ++ l →
    KInv A B f g maxSize r → (∀ q, q ∈ pre → A.opU q.2 q.1 < r.next) →
    cmpLoop B l r = .ok (firstDiff A B l) := by
  have hBsz : B.size = A.size := hiso.size_eq.symm
  have hBdim : B.dim = A.dim := hiso.dim_eq.symm
  intro l
  induction l with
  | nil => intro pre r _ _ _; rfl
  | cons p rest ih =>
    intro pre r hsplit hr hpre
    obtain ⟨d, i⟩ := p
    have hmem : (d, i) ∈ loopPairs B.size B.dim := by rw [hsplit]; simp
    obtain ⟨hd1, hd2, hi⟩ := (mem_loopPairs _ _ _).1 hmem
    simp only at hd1 hd2 hi
    have hdA : d ≤ A.size := by omega
    have hiA : i ≤ A.dim := by omega
    -- d has been numbered
    have hdn : d < r.next := by
      by_cases hd : d = 1
      · have := hr.next_ge; omega
      · obtain ⟨i', hi', l1, l2⟩ := hL d (by omega) hdA
        have hinv := hA.invol i' d hi' hd1 hdA
        have hq : (A.opU i' d, i') ∈ loopPairs B.size B.dim :=
          (mem_loopPairs _ _ _).2 ⟨l1, by simp only; omega, by simp only; omega⟩
        have := hpre _ (mem_pre_of_lexLt hsplit hq (Or.inl l2))
        simp only at this
        rw [hinv] at this
        exact this
    obtain ⟨fd1, fd2⟩ := hiso.f_range d hd1 hdA
    obtain ⟨w1, w2⟩ := hA.range i d hiA hd1 hdA
    obtain ⟨fw1, fw2⟩ := hiso.f_range _ w1 w2
    have hcomm := hiso.comm i d hiA hd1 hdA
    obtain ⟨di1, di2⟩ := hB.range i d hi hd1 hd2
    simp only [cmpLoop, firstDiff]
    rw [getC_of_lt (by rw [hr.n2o_size]; omega), hr.n2o_eq d hd1 hdn]
    simp only
    rw [opC_valid hB.toPartial hi fd1 fd2, ← hcomm]
    simp only
    generalize hw : A.opU i d = w at *
    rw [if_neg (by omega)]
    have hfwlt : f w < r.o2n.size := by rw [hr.o2n_size]; omega
    rw [getC_of_lt hfwlt, hr.o2n_eq (f w) fw1 fw2, hiso.gf w w1 w2]
    simp only
    by_cases hlt : w < r.next
    · -- already numbered
      rw [if_pos hlt, if_neg (by omega)]
      simp only
      rw [opC_valid hB.toPartial hi hd1 hd2]
      simp only
      rw [if_neg (by omega), getC_of_lt hfwlt, hr.o2n_eq (f w) fw1 fw2, hiso.gf w w1 w2,
        if_pos hlt]
      simp only
      by_cases hne : w = B.opU i d
      · rw [if_neg (by simp [hne]), if_neg (by simp [hne])]
        apply ih (pre ++ [(d, i)]) r (by rw [hsplit]; simp) hr
        intro q hq
        rcases List.mem_append.1 hq with hq | hq
        · exact hpre q hq
        · simp only [List.mem_singleton] at hq
          subst hq
          simp only
          rw [hw]; exact hlt
      · rw [if_pos hne, if_pos hne]
    · -- a new chamber: it must be the next number
      have hwn : w = r.next := by
        apply Classical.byContradiction
        intro hne
        have hgt : r.next < w := by omega
        obtain ⟨i', d', a1, a2, a3, a4, a5⟩ := hO i d hiA hd1 hdA r.next hr.next_ge
          (by rw [hw]; exact hgt)
        have hq : (d', i') ∈ loopPairs B.size B.dim :=
          (mem_loopPairs _ _ _).2 ⟨a2, by simp only; omega, by simp only; omega⟩
        have := hpre _ (mem_pre_of_lexLt hsplit hq (by
          unfold Before at a4; unfold LexLt; simp only at a4 ⊢; exact a4))
        simp only at this
        omega
      have hnlt : r.next < r.n2o.size := by rw [hr.n2o_size]; omega
      rw [if_neg hlt, if_pos rfl, putC_of_lt hfwlt, putC_of_lt hnlt]
      simp only
      rw [opC_valid hB.toPartial hi hd1 hd2]
      simp only
      rw [if_neg (by omega)]
      have hr' : KInv A B f g maxSize
          (Renum.mk (r.n2o.setIfInBounds r.next (f w)) (r.o2n.setIfInBounds (f w) r.next)
            (r.next + 1)) := by
        refine ⟨by simp [hr.n2o_size], by simp [hr.o2n_size], by have := hr.next_ge; simp only; omega,
          by simp only; omega, ?_, ?_⟩
        · intro k hk1 hk2
          simp only at hk2 ⊢
          rw [getD_setIfInBounds]
          split
          · rename_i hh; rw [← hh.1, ← hwn]
          · rename_i hh
            exact hr.n2o_eq k hk1 (by
              have : r.next ≠ k := fun h => hh ⟨h, hnlt⟩
              omega)
        · intro x hx1 hx2
          simp only
          rw [getD_setIfInBounds, hr.o2n_eq x hx1 hx2]
          by_cases hx : f w = x
          · rw [if_pos ⟨hx, hfwlt⟩]
            have : g x = w := by rw [← hx]; exact hiso.gf w w1 w2
            rw [this, if_pos (by omega)]
            exact hwn.symm
          · rw [if_neg (by intro h; exact hx h.1)]
            have hgx : g x ≠ r.next := by
              intro h
              apply hx
              rw [← hwn] at h
              rw [← h]
              exact hiso.fg x hx1 hx2
            by_cases h1 : g x < r.next
            · rw [if_pos h1, if_pos (by omega)]
            · rw [if_neg h1, if_neg (by omega)]
      rw [getC_of_lt (by simp only [Array.size_setIfInBounds]; exact hfwlt)]
      simp only
      have hy : (r.o2n.setIfInBounds (f w) r.next).getD (f w) 0 = w := by
        rw [getD_setIfInBounds, if_pos ⟨rfl, hfwlt⟩]; exact hwn.symm
      rw [hy]
      by_cases hne : w = B.opU i d
      · rw [if_neg (by simp [hne]), if_neg (by simp [hne])]
        apply ih (pre ++ [(d, i)]) _ (by rw [hsplit]; simp) hr'
        intro q hq
        simp only
        rcases List.mem_append.1 hq with hq | hq
        · have := hpre q hq; omega
        · simp only [List.mem_singleton] at hq
          subst hq
          simp only
          rw [hw]; omega
      · rw [if_pos hne, if_pos hne]

/-- under an isomorphism A → B, comparing B with its renumbering from the image of
    chamber 1 is comparing A with B -/
theorem compare_iso {A B : DSetData} {f g : Nat → Nat} {maxSize : Nat} (hA : ValidSet A)
    (hB : ValidSet B) (hO : Orderly A) (hL : Linked A) (hiso : IsoBy A B f g)
    (hsz : A.size ≤ maxSize) (h1 : 1 ≤ A.size) :
    compareRenumberedFrom B (f 1) maxSize = .ok (firstDiff A B (loopPairs B.size B.dim)) := by
  obtain ⟨f1, f2⟩ := hiso.f_range 1 (Nat.le_refl _) h1
  have hBsz : B.size = A.size := hiso.size_eq.symm
  unfold compareRenumberedFrom
  simp only
  have hz : (Array.replicate (maxSize + 1) 0).size = maxSize + 1 := by simp
  rw [putC_of_lt (by rw [hz]; omega), putC_of_lt (by rw [hz]; omega)]
  simp only
  apply cmpLoop_iso hA hB hO hL hiso hsz _ [] _ (by simp)
  · refine ⟨by simp, by simp, Nat.le_refl _, by simp only; omega, ?_, ?_⟩
    · intro k hk1 hk2
      have : k = 1 := by simp only at hk2; omega
      subst this
      simp only
      rw [getD_setIfInBounds, if_pos ⟨rfl, by rw [hz]; omega⟩]
    · intro x hx1 hx2
      simp only
      rw [getD_setIfInBounds]
      obtain ⟨g1, g2⟩ := hiso.g_range x hx1 hx2
      by_cases hx : f 1 = x
      · rw [if_pos ⟨hx, by rw [hz]; omega⟩]
        have : g x = 1 := by rw [← hx]; exact hiso.gf 1 (Nat.le_refl _) h1
        rw [this]; simp
      · rw [if_neg (by intro h; exact hx h.1), getD_replicate_zero]
        have : g x ≠ 1 := by
          intro h
          apply hx
          rw [← h]
          exact hiso.fg x hx1 hx2
        rw [if_neg (by omega)]
  · intro q hq; cases hq

/-- **Two isomorphic orderly canonical D-sets are equal.** -/
theorem iso_canonical_eq {A B : DSetData} {f g : Nat → Nat} {maxSize : Nat}
    (hA : ValidSet A) (hB : ValidSet B) (hOA : Orderly A) (hOB : Orderly B)
    (hLA : Linked A) (hLB : Linked B) (hCA : Canonical A maxSize) (hCB : Canonical B maxSize)
    (hsz : A.size ≤ maxSize) (h1 : 1 ≤ A.size) (hiso : IsoBy A B f g) : A = B := by
  have hBsz : B.size = A.size := hiso.size_eq.symm
  have hBdim : B.dim = A.dim := hiso.dim_eq.symm
  have hiso' := hiso.symm hA
  have k1 := compare_iso hA hB hOA hLA hiso hsz h1
  have k2 := compare_iso (maxSize := maxSize) hB hA hOB hLB hiso' (by omega) (by omega)
  rw [← hBsz, ← hBdim] at k2
  rw [firstDiff_neg A B] at k2
  obtain ⟨f1, f2⟩ := hiso.f_range 1 (Nat.le_refl _) h1
  -- the first difference is 0
  have hzero : firstDiff A B (loopPairs B.size B.dim) = 0 := by
    by_cases hf1 : f 1 = 1
    · -- the isomorphism fixes chamber 1: compare with the identity renumbering of B
      have k3 := compare_iso (maxSize := maxSize) hB hB hOB hLB (IsoBy.refl B) (by omega) (by omega)
      simp only [id] at k3
      rw [hf1, k3] at k1
      injection k1 with k1
      rw [← k1]
      -- firstDiff B B = 0
      have : ∀ l, firstDiff B B l = 0 := by
        intro l
        induction l with
        | nil => rfl
        | cons p l ih => obtain ⟨d, i⟩ := p; simp [firstDiff, ih]
      exact this _
    · have hg1 : g 1 ≠ 1 := by
        intro h
        apply hf1
        have := hiso.fg 1 (Nat.le_refl _) (by omega)
        rw [h] at this
        exact this
      obtain ⟨g1, g2⟩ := hiso.g_range 1 (Nat.le_refl _) (by omega)
      have c1 := hCB (f 1) (by omega) f2 _ k1
      have c2 := hCA (g 1) (by omega) g2 _ k2
      omega
  -- equal tables
  have hagree := firstDiff_zero A B _ hzero
  have hp : PartOf A B := by
    refine ⟨hBdim, by omega, ?_⟩
    intro i d hi hd1 hd2 _
    have := hagree (d, i) ((mem_loopPairs _ _ _).2 ⟨hd1, by simp only; omega, by simp only; omega⟩)
    exact this.symm
  exact complete_partOf_eq hA hB (connected_of_linked hB.toPartial hLB) hp h1

/-- isomorphism of D-sets -/
def Iso (A B : DSetData) : Prop := ∃ f g, IsoBy A B f g

theorem emitted_linked {dim maxSize : Nat} {T : DSetData} (h : Outcome.ok T ∈ dsets dim maxSize) :
    Linked T := by
  obtain ⟨t, hreach, _, rfl⟩ := mem_dsets h
  exact (reachable_inv hreach).linked

/-- **irredundancy**: no two values of the emitted sequence are isomorphic D-sets -/
theorem dsets_irredundant (dim maxSize : Nat) :
    (dsets dim maxSize).Pairwise (fun a b => ∀ s t, a = Outcome.ok s → b = Outcome.ok t → ¬ Iso s t) := by
  refine (dsets_nodup dim maxSize).imp_of_mem ?_
  intro a b ha hb hne s t hs ht hiso
  subst hs ht
  obtain ⟨f, g, hfg⟩ := hiso
  obtain ⟨hOs, hCs⟩ := emitted_orderly_canonical ha
  obtain ⟨hOt, hCt⟩ := emitted_orderly_canonical hb
  obtain ⟨ts, hrs, hns, rfl⟩ := mem_dsets ha
  obtain ⟨tt, hrt, hnt, rfl⟩ := mem_dsets hb
  have his := reachable_inv hrs
  have hit := reachable_inv hrt
  have valid : ∀ (u : GenState), GInv dim maxSize u → u.next = none → ValidSet u.dset := by
    intro u hu hn
    refine ⟨hu.valid.size_eq, ?_, ?_⟩
    · intro i d hi h1 h2
      have := hu.next_none hn i d (by rw [← hu.dim_eq]; exact hi) h1 h2
      exact ⟨Nat.pos_of_ne_zero this, hu.valid.range i d hi h1 h2⟩
    · intro i d hi h1 h2
      exact hu.valid.invol i d hi h1 h2
        (hu.next_none hn i d (by rw [← hu.dim_eq]; exact hi) h1 h2)
  have hszs : ts.dset.size ≤ maxSize := by
    rcases his.size_le with h | ⟨_, h⟩
    · exact h
    · exact absurd hns h
  have := iso_canonical_eq (valid ts his hns) (valid tt hit hnt) hOs hOt his.linked hit.linked
    hCs hCt hszs his.size_pos hfg
  exact hne (by rw [this])

end DSymVerif.DSG
