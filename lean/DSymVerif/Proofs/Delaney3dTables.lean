/-
Property C15, phase 2: the tables the pipeline of `construct_candidates` produces are valid
permutation representations of the presented group.

* the views of the tables yielded by the low-index model pass `validTable rels []` (C12);
* the view of the core table / intersection table of valid tables passes `validTable rels []`
  (from the labelled-orbit form of C13's `coreTable_spec` / `intersectionTable_spec`);
* on a valid table every word over the letters acts as a permutation of the rows: the
  hypothesis `ActsOn` of `degree_spec`.
-/
import DSymVerif.Proofs.Delaney3d
import DSymVerif.Proofs.StabilizerCore
import DSymVerif.Proofs.StabilizerWords
import DSymVerif.Proofs.StabilizerTotal
import DSymVerif.Proofs.LowIndexValid
import DSymVerif.Proofs.LowIndexGeneral
import DSymVerif.Proofs.CosetBfs

namespace DSymVerif.D3
open DSymVerif DSymVerif.Cosets DSymVerif.SpecC11 DSymVerif.SpecC13 DSymVerif.CosetP DSymVerif.StabP
  DSymVerif.CosetInvP

/-! ### the view of a labelled table -/

theorem tabOf_eq_viewTab {T : Table} {v : List (List Int)} (h : T.view = .ok v) :
    tabOf T = .ok (viewTab v) := by
  unfold tabOf viewTab
  rw [h]

section Labelled
variable {α : Type} {act : α → Int → Option α} {n : Nat} {lab : List α}

/-- the public view of a table whose rows are numbered by `lab` and whose entries follow `act` -/
theorem tabOf_labelled {T : Table} (hn : T.nrGens = n) (hsz : T.rows.size = lab.length)
    (hent : ∀ (i : Nat) (g : Int) (x : α), lab[i]? = some x → g ∈ letters n →
      ∃ y j, act x g = some y ∧ T.get i g = .ok (some j) ∧ lab[j]? = some y) :
    ∃ tab : Tab, tabOf T = .ok tab ∧ tab.size = lab.length ∧
      ∀ (i : Nat) (g : Int) (x : α), lab[i]? = some x → g ∈ letters n →
        ∃ y j, act x g = some y ∧ entry tab n i g = some j ∧ lab[j]? = some y := by
  let E : Nat → Int → Nat := fun i g =>
    match T.get i g with
    | .ok (some j) => j
    | _ => 0
  have hall : T.allGens = allGensOf n := by unfold Table.allGens; rw [hn]
  have hlen : T.len = lab.length := hsz
  have hget : ∀ i, i < lab.length → ∀ g ∈ allGensOf n,
      ∃ x y, lab[i]? = some x ∧ act x g = some y ∧ T.get i g = .ok (some (E i g)) ∧ lab[E i g]? = some y := by
    intro i hi g hg
    have hx : lab[i]? = some lab[i] := by simp [hi]
    obtain ⟨y, j, h1, h2, h3⟩ := hent i g lab[i] hx (by rw [← allGensOf_eq_letters]; exact hg)
    refine ⟨lab[i], y, hx, h1, ?_, ?_⟩
    · simp only [E, h2]
    · simp only [E, h2]; exact h3
  have hview : T.view = .ok ((List.range lab.length).map fun j => (allGensOf n).map fun g => ((E j g : Nat) : Int)) := by
    unfold Table.view
    rw [hlen, ← hall]
    apply viewRows_ok T E
    intro j hj g hg
    obtain ⟨_, _, _, _, h, _⟩ := hget j (List.mem_range.mp hj) g (by rw [← hall]; exact hg)
    exact h
  have hE : ∀ j, j < lab.length → ∀ g ∈ allGensOf n, E j g < lab.length := by
    intro j hj g hg
    obtain ⟨_, _, _, _, _, h⟩ := hget j hj g hg
    exact (List.getElem?_eq_some_iff.mp h).1
  refine ⟨_, tabOf_eq_viewTab hview, by simp [viewTab], ?_⟩
  intro i g x hi hg
  have hil : i < lab.length := (List.getElem?_eq_some_iff.mp hi).1
  have hga : g ∈ allGensOf n := by rw [allGensOf_eq_letters]; exact hg
  obtain ⟨x', y, hx', hy, _, hj⟩ := hget i hil g hga
  rw [hi] at hx'
  cases hx'
  exact ⟨y, E i g, hy, entry_viewTab E hE hil hga, hj⟩

/-- tracing in a labelled Spec table realises the action on the labels -/
theorem trace_labelled {tab : Tab}
    (hent : ∀ (i : Nat) (g : Int) (x : α), lab[i]? = some x → g ∈ letters n →
      ∃ y j, act x g = some y ∧ entry tab n i g = some j ∧ lab[j]? = some y) :
    ∀ (w : List Int), (∀ g ∈ w, g ∈ letters n) → ∀ (i : Nat) (li l : α), lab[i]? = some li →
      iterAct act li w = some l → ∃ j, traceWord tab n i w = some j ∧ lab[j]? = some l
  | [], _, i, li, l, hi, ha => by
    simp only [iterAct, Option.some.injEq] at ha
    subst ha
    exact ⟨i, rfl, hi⟩
  | g :: w, hw, i, li, l, hi, ha => by
    obtain ⟨y, k, hact, he, hk⟩ := hent i g li hi (hw g (by simp))
    simp only [iterAct, hact] at ha
    obtain ⟨j, ht, hj⟩ := trace_labelled hent w (fun g' hg' => hw g' (by simp [hg'])) k y l hk ha
    exact ⟨j, by simp [traceWord, he, ht], hj⟩

/-- a labelled table of an orbit on whose labels the relators act trivially is a valid table -/
theorem valid_of_labelled {Good : α → Prop} (hact : ActOk act n Good) {tab : Tab} {start : α}
    (hlen : tab.size = lab.length) (h0 : lab[0]? = some start) (hnd : lab.Nodup)
    (hreach : ∀ y ∈ lab, ∃ w, (∀ g ∈ w, g ∈ letters n) ∧ iterAct act start w = some y)
    (hent : ∀ (i : Nat) (g : Int) (x : α), lab[i]? = some x → g ∈ letters n →
      ∃ y j, act x g = some y ∧ entry tab n i g = some j ∧ lab[j]? = some y)
    (rels : List (List Int))
    (hrel : ∀ r ∈ rels, (∀ g ∈ r, g ∈ letters n) ∧ ∀ y ∈ lab, iterAct act y r = some y) :
    Valid tab n rels [] := by
  have hidx : ∀ {i j : Nat} {a : α}, lab[i]? = some a → lab[j]? = some a → i = j := by
    intro i j a hi hj
    have h1 := List.getElem?_eq_some_iff.mp hi
    have h2 := List.getElem?_eq_some_iff.mp hj
    exact (List.Nodup.getElem_inj_iff hnd).mp (h1.2.trans h2.2.symm)
  have hpos : 0 < tab.size := by
    rw [hlen]; exact (List.getElem?_eq_some_iff.mp h0).1
  refine ⟨hpos, ?_, ?_, ?_, (fun s h => by cases h), ?_⟩
  · intro c hc g hg
    have hcl : c < lab.length := by omega
    have hx : lab[c]? = some lab[c] := by simp [hcl]
    obtain ⟨_, j, _, he, _⟩ := hent c g _ hx hg
    exact ⟨j, he⟩
  · intro c g d he
    obtain ⟨_, hc, hg⟩ := entry_some he
    have hcl : c < lab.length := by omega
    have hx : lab[c]? = some lab[c] := by simp [hcl]
    obtain ⟨y, j, hy, he', hj⟩ := hent c g _ hx hg
    rw [he] at he'
    cases he'
    obtain ⟨x', j', hx', he'', hj'⟩ := hent d (-g) y hj (neg_mem_letters hg)
    rw [hact.inv _ _ g hg hy] at hx'
    cases hx'
    rw [he'', hidx hj' hx]
  · intro r hr c hc
    obtain ⟨hlet, hfix⟩ := hrel r hr
    have hcl : c < lab.length := by omega
    have hx : lab[c]? = some lab[c] := by simp [hcl]
    obtain ⟨j, ht, hj⟩ := trace_labelled hent r hlet c _ _ hx (hfix _ (List.getElem_mem hcl))
    rw [ht, hidx hj hx]
  · intro c hc
    have hcl : c < lab.length := by omega
    have hx : lab[c]? = some lab[c] := by simp [hcl]
    obtain ⟨w, hw, hit⟩ := hreach _ (List.getElem_mem hcl)
    obtain ⟨j, ht, hj⟩ := trace_labelled hent w hw 0 _ _ h0 hit
    exact ⟨w, by rw [ht, hidx hj hx]⟩

end Labelled

/-! ### core and intersection of valid tables -/

theorem complete_of_valid {t : Tab} {n : Nat} {rels subs : List (List Int)}
    (h : validTable t n rels subs = true) : complete t n = true := by
  unfold validTable at h
  simp only [Bool.and_eq_true, decide_eq_true_eq] at h
  exact h.1.1.1.1.2

theorem letters_of_allGens {n : Nat} {rels : List (List Int)}
    (hlet : ∀ w ∈ rels, ∀ x ∈ w, x ∈ allGensOf n) : ∀ r ∈ rels, ∀ g ∈ r, g ∈ letters n := by
  intro r hr g hg
  rw [← allGensOf_eq_letters]
  exact hlet r hr g hg

/-- **core of a valid table.**  For a table `t` passing `validTable rels []` the model of
    `core_table` returns a table whose public view `c` passes `validTable rels []` again; its rows
    are in bijection (`lab`) with the arrangements `(0·w, 1·w, …)` words induce on the rows of `t`. -/
theorem coreTab_valid {t : Tab} {n : Nat} {rels : List (List Int)}
    (hlet : ∀ w ∈ rels, ∀ x ∈ w, x ∈ allGensOf n)
    (hv : validTable t n rels [] = true) :
    ∃ c, coreTab n t = .ok c ∧ validTable c n rels [] = true ∧
      (∀ w, (∀ g ∈ w, g ∈ letters n) →
        (traceWord c n 0 w = some 0 ↔ ∀ r, r < t.size → traceWord t n r w = some r)) ∧
      ∃ lab : List (List Nat), c.size = lab.length ∧ lab.Nodup ∧
        (∀ es, es ∈ lab ↔ ∃ w, (∀ g ∈ w, g ∈ letters n) ∧ arrangement t n w = some es) := by
  have hV := valid_of_validTable hv
  have hc := complete_of_valid hv
  have hi : InvConsistent t n := hV.inv
  obtain ⟨T, hT⟩ := coreTable_total hc hi
  obtain ⟨lab, _, hn, hsz, h0, hnd, hreach, hent⟩ := coreTable_spec hc hi hT
  obtain ⟨c, hc1, hc2, hc3⟩ := tabOf_labelled hn hsz hent
  have hvalid : Valid c n rels [] := by
    refine valid_of_labelled (tupleAct_ok hi) hc2 h0 hnd (fun y hy => (hreach y hy).2) hc3 rels ?_
    intro r hr
    refine ⟨letters_of_allGens hlet r hr, ?_⟩
    intro y hy
    rw [iterAct_tuple]
    exact mapOpt_of_forall (fun e he => hV.rel r hr e ((hreach y hy).1 e he))
  have hidx : ∀ {i j : Nat} {a : List Nat}, lab[i]? = some a → lab[j]? = some a → i = j := by
    intro i j a hi' hj
    have h1 := List.getElem?_eq_some_iff.mp hi'
    have h2 := List.getElem?_eq_some_iff.mp hj
    exact (List.Nodup.getElem_inj_iff hnd).mp (h1.2.trans h2.2.symm)
  refine ⟨c, ?_, RebaseP.validTable_of_valid hvalid, ?_, lab, hc2, hnd, ?_⟩
  · unfold coreTab tbl
    rw [hT]
    exact hc1
  · intro w hw
    -- the arrangement of w
    have harr : iterAct (tupleAct t n) (List.range t.size) w =
        some ((List.range t.size).map fun r => (traceWord t n r w).getD 0) := by
      rw [iterAct_tuple]
      apply mapOpt_of_pointwise (by simp)
      intro k hk
      have hk' : k < t.size := by simpa using hk
      obtain ⟨d, hd⟩ := traceWord_total hV w k hk' hw
      simp [hk', hd]
    obtain ⟨j, hj1, hj2⟩ := trace_labelled hc3 w hw 0 _ _ h0 harr
    constructor
    · intro h00 r hr
      rw [h00] at hj1
      cases hj1
      rw [h0] at hj2
      have := Option.some.inj hj2
      obtain ⟨d, hd⟩ := traceWord_total hV w r hr hw
      have hget : ((List.range t.size).map fun r => (traceWord t n r w).getD 0)[r]? = some d := by
        simp [hr, hd]
      rw [← this] at hget
      simp [hr] at hget
      rw [hd, hget]
    · intro hall
      have : ((List.range t.size).map fun r => (traceWord t n r w).getD 0) = List.range t.size := by
        apply List.ext_getElem (by simp)
        intro k h1 h2
        have hk : k < t.size := by simpa using h2
        simp [hall k hk]
      rw [this] at hj2
      rw [hj1, hidx hj2 h0]
  · intro es
    unfold arrangement
    constructor
    · intro hm
      obtain ⟨_, w, hw, hit⟩ := hreach es hm
      exact ⟨w, hw, by rw [← iterAct_tuple]; exact hit⟩
    · rintro ⟨w, hw, harr⟩
      rw [← iterAct_tuple] at harr
      obtain ⟨j, _, hj⟩ := trace_labelled hc3 w hw 0 _ es h0 harr
      exact List.mem_of_getElem? hj

/-- **intersection of valid tables.** -/
theorem interTab_valid {ta tb : Tab} {n : Nat} {rels : List (List Int)}
    (hlet : ∀ w ∈ rels, ∀ x ∈ w, x ∈ allGensOf n)
    (hva : validTable ta n rels [] = true) (hvb : validTable tb n rels [] = true) :
    ∃ c, interTab n ta tb = .ok c ∧ validTable c n rels [] = true ∧
      (∀ w, (∀ g ∈ w, g ∈ letters n) →
        (traceWord c n 0 w = some 0 ↔ traceWord ta n 0 w = some 0 ∧ traceWord tb n 0 w = some 0)) := by
  have hA := valid_of_validTable hva
  have hB := valid_of_validTable hvb
  have hca := complete_of_valid hva
  have hcb := complete_of_valid hvb
  have hia : InvConsistent ta n := hA.inv
  have hib : InvConsistent tb n := hB.inv
  obtain ⟨T, hT⟩ := intersectionTable_total hca hcb hia hib hA.pos hB.pos
  obtain ⟨lab, _, hn, hsz, h0, hnd, hreach, hent⟩ := intersectionTable_spec hca hcb hia hib hT
  obtain ⟨c, hc1, hc2, hc3⟩ := tabOf_labelled hn hsz hent
  have hidx : ∀ {i j : Nat} {a : Nat × Nat}, lab[i]? = some a → lab[j]? = some a → i = j := by
    intro i j a hi hj
    have h1 := List.getElem?_eq_some_iff.mp hi
    have h2 := List.getElem?_eq_some_iff.mp hj
    exact (List.Nodup.getElem_inj_iff hnd).mp (h1.2.trans h2.2.symm)
  have hvalid : Valid c n rels [] := by
    refine valid_of_labelled (pairAct_ok hia hib) hc2 h0 hnd (fun y hy => (hreach y hy).2) hc3 rels ?_
    intro r hr
    refine ⟨letters_of_allGens hlet r hr, ?_⟩
    rintro ⟨a, b⟩ hy
    obtain ⟨hg, _⟩ := hreach (a, b) hy
    rw [iterAct_pair]
    exact ⟨hA.rel r hr a hg.1, hB.rel r hr b hg.2⟩
  refine ⟨c, ?_, RebaseP.validTable_of_valid hvalid, ?_⟩
  · unfold interTab tbl
    rw [hT]
    exact hc1
  · intro w hw
    rw [← iterAct_pair]
    constructor
    · intro ht
      -- the label reached from (0,0) by w is the label of row 0
      have htot : ∃ y, iterAct (pairAct ta tb n) (0, 0) w = some y := by
        obtain ⟨a, ha⟩ := traceWord_total hA w 0 hA.pos hw
        obtain ⟨b, hb⟩ := traceWord_total hB w 0 hB.pos hw
        exact ⟨(a, b), (iterAct_pair ta tb n w 0 0 a b).mpr ⟨ha, hb⟩⟩
      obtain ⟨y, hy⟩ := htot
      obtain ⟨j, hj1, hj2⟩ := trace_labelled hc3 w hw 0 _ y h0 hy
      rw [ht] at hj1
      cases hj1
      rw [h0] at hj2
      cases hj2
      exact hy
    · intro hit
      obtain ⟨j, hj1, hj2⟩ := trace_labelled hc3 w hw 0 _ _ h0 hit
      rw [hj1, hidx hj2 h0]

/-! ### valid tables are permutation actions -/

/-- on a valid table every word over the letters acts as a permutation of the rows -/
theorem actsOn_of_valid {tab : Tab} {n : Nat} {rels subs : List (List Int)}
    (hv : Valid tab n rels subs) (w : List Int) (hw : ∀ g ∈ w, g ∈ letters n) :
    ActsOn (tbl n tab).get tab.size w := by
  constructor
  · intro r g hr hg
    obtain ⟨d, hd⟩ := hv.total r hr g (hw g hg)
    exact ⟨d, (entry_some hd).1, get_ofView hd⟩
  · intro r₁ r₂ g r' h1 h2 hg e1 e2
    obtain ⟨d1, hd1⟩ := hv.total r₁ h1 g (hw g hg)
    obtain ⟨d2, hd2⟩ := hv.total r₂ h2 g (hw g hg)
    have g1 := get_ofView hd1
    have g2 := get_ofView hd2
    unfold tbl at e1 e2
    rw [g1] at e1
    rw [g2] at e2
    cases e1
    cases e2
    have i1 := hv.inv _ _ _ hd1
    have i2 := hv.inv _ _ _ hd2
    rw [i1] at i2
    exact Option.some.inj i2

/-! ### the tables yielded by the low-index model -/

/-- C12's `extract_valid` (arbitrary relators) in the vocabulary of this module -/
theorem lowIndex_valid (n : Nat) (rels : List (List Int)) (k fuel : Nat)
    (hlet : ∀ w ∈ rels, ∀ x ∈ w, x ∈ allGensOf n)
    (hf : (BT.dfs (btProblem n (expandedRelatorSet rels) k) (LowIndexP.height k) (.ok (Table.new n))).length ≤ fuel) :
    ∀ x ∈ cosetTables n rels k fuel, ∀ t', x = .ok t' →
      ∃ tab, tabOf t' = .ok tab ∧ validTable tab n rels [] = true ∧ tab.size ≤ max k 1 := by
  intro x hx t' hxt
  obtain ⟨v, h1, h2, h3⟩ := CanonP.cosetTables_valid_all n rels k fuel hlet hf x hx t' hxt
  exact ⟨viewTab v, tabOf_eq_viewTab h1, h2, h3⟩

end DSymVerif.D3
