/-
Helper lemmas for property C20, part 4: refinement.

`Refines I Inv rep` is the abstract contract between an implementation `I` (its `find` and
`unite`), an invariant `Inv s us` ("state `s` represents the unions `us`") and a
representative function `rep s`.  It is proved for the model of `IntPartitionImpl` here
(`int_refines`) and for the model of `PartitionImpl<T>` in `PartitionGen.lean`
(`gen_refines`); every history-level statement (`step_spec`, `run_ok`, …) is proved once
from the contract.
-/
import DSymVerif.Proofs.PartitionForest
import DSymVerif.Proofs.PartitionClasses

namespace DSymVerif.PartP
open DSymVerif DSymVerif.Part DSymVerif.SpecC20

/-- the root of `z`, as a function (`z` itself where no root exists; in a well-formed forest
    every element has exactly one root) -/
noncomputable def rootF (p : Array Nat) (z : Nat) : Nat :=
  open Classical in if h : ∃ r, RootOf p z r then h.choose else z

theorem rootF_eq {p : Array Nat} {z r : Nat} (h : RootOf p z r) : rootF p z = r := by
  have hex : ∃ r, RootOf p z r := ⟨r, h⟩
  unfold rootF
  rw [dif_pos hex]
  exact hex.choose_spec.unique h

theorem rootF_spec {f : Forest} (wf : WF f) (z : Nat) : RootOf f.parent z (rootF f.parent z) := by
  obtain ⟨r, h⟩ := exists_root wf z
  rw [rootF_eq h]; exact h

theorem rootF_idem {f : Forest} (wf : WF f) (z : Nat) :
    rootF f.parent (rootF f.parent z) = rootF f.parent z :=
  rootF_eq (.root (rootF_spec wf z).isRoot)

/-- roots preserved as a relation ⇒ preserved as a function -/
theorem rootF_of_pres {f : Forest} (wf : WF f) {p' : Array Nat}
    (pres : ∀ z r, RootOf f.parent z r → RootOf p' z r) (z : Nat) :
    rootF p' z = rootF f.parent z :=
  rootF_eq (pres z _ (rootF_spec wf z))

/-- the contract -/
structure Refines {S : Type} (I : Impl S) (Inv : S → List (Nat × Nat) → Prop)
    (rep : S → Nat → Nat) : Prop where
  new : Inv I.new []
  rep_conn : ∀ {s us}, Inv s us → ∀ u v, rep s u = rep s v ↔ Conn us u v
  rep_idem : ∀ {s us}, Inv s us → ∀ a, rep s (rep s a) = rep s a
  find : ∀ {s us}, Inv s us → ∀ a,
    ∃ s', I.find s a = .ok (s', rep s a) ∧ Inv s' us ∧ ∀ z, rep s' z = rep s z
  unite : ∀ {s us}, Inv s us → ∀ a b,
    ∃ s' w, I.unite s a b = .ok s' ∧ Inv s' ((a, b) :: us) ∧ (w = rep s a ∨ w = rep s b) ∧
      ∀ z, rep s' z = if rep s z = rep s a ∨ rep s z = rep s b then w else rep s z

/-! ### IntPartitionImpl -/

/-- forest `f` represents the unions `us` -/
def IntInv (f : Forest) (us : List (Nat × Nat)) : Prop :=
  WF f ∧ ∀ u v, rootF f.parent u = rootF f.parent v ↔ Conn us u v

theorem int_find_ok {f : Forest} (wf : WF f) (a : Nat) :
    ∃ f', IntP.find f a = .ok (f', rootF f.parent a) ∧ WF f' ∧
      (∀ z, rootF f'.parent z = rootF f.parent z) ∧ (∀ x, rk f'.rank x = rk f.rank x) := by
  obtain ⟨f', r, h, wf', hr, pres, hrk, _, _⟩ := int_rootIndex_ok wf a
  refine ⟨f', ?_, wf', rootF_of_pres wf pres, hrk⟩
  rw [rootF_eq hr]; exact h

/-- `unite` at forest level: the two classes are redirected to one of the two old roots -/
theorem int_unite_ok {f : Forest} (wf : WF f) (a b : Nat) :
    ∃ f' w, IntP.unite f a b = .ok f' ∧ WF f' ∧
      (w = rootF f.parent a ∨ w = rootF f.parent b) ∧
      ∀ z, rootF f'.parent z =
        if rootF f.parent z = rootF f.parent a ∨ rootF f.parent z = rootF f.parent b then w
        else rootF f.parent z := by
  obtain ⟨f1, x, h1, wf1, hx, pres1, _, _, ha1⟩ := int_rootIndex_ok wf a
  obtain ⟨f2, y, h2, wf2, hy, pres2, _, hle2, hb2⟩ := int_rootIndex_ok wf1 b
  have ex : x = rootF f.parent a := (rootF_eq hx).symm
  have ey : y = rootF f.parent b := by
    rw [← rootF_of_pres wf pres1 b]; exact (rootF_eq hy).symm
  have hx2 : RootOf f2.parent x x := pres2 _ _ (pres1 _ _ (.root hx.isRoot))
  have hy2 : RootOf f2.parent b y := pres2 _ _ hy
  have hxs : x < f2.parent.size :=
    Nat.lt_of_lt_of_le (RootOf.lt_size wf1 (pres1 _ _ hx) ha1) hle2
  have hys : y < f2.parent.size := RootOf.lt_size wf2 hy2 hb2
  obtain ⟨f', w, hl, wf', _, hw, roots⟩ := link_ok wf2 hxs hys hx2.isRoot hy2.isRoot
  refine ⟨f', w, ?_, wf', by rw [← ex, ← ey]; exact hw, ?_⟩
  · unfold IntP.unite; rw [h1]; simp only []; rw [h2]; simp only []; exact hl
  · intro z
    have hz : RootOf f2.parent z (rootF f.parent z) := pres2 _ _ (pres1 _ _ (rootF_spec wf z))
    rw [rootF_eq (roots z _ hz), ex, ey]

theorem int_refines : Refines intImpl IntInv (fun f => rootF f.parent) where
  new := by
    refine ⟨wf_new, fun u v => ?_⟩
    have h : ∀ z, rootF Forest.new.parent z = z :=
      fun z => rootF_eq (.root (par_ge (by simp [Forest.new])))
    show rootF Forest.new.parent u = rootF Forest.new.parent v ↔ _
    rw [h, h]; exact conn_nil_iff.symm
  rep_conn := fun h => h.2
  rep_idem := fun h a => rootF_idem h.1 a
  find := by
    intro s us h a
    obtain ⟨f', hf, wf', hr, _⟩ := int_find_ok h.1 a
    exact ⟨f', hf, ⟨wf', fun u v => by rw [hr, hr]; exact h.2 u v⟩, hr⟩
  unite := by
    intro s us h a b
    obtain ⟨f', w, hu, wf', hw, hr⟩ := int_unite_ok h.1 a b
    exact ⟨f', w, hu, ⟨wf', merge_rep h.2 hw hr⟩, hw, hr⟩

/-! ### histories, from the contract -/

/-- effect of one operation on the per-instance union lists -/
def unions1 (op : Op) (U : Nat → List (Nat × Nat)) : Nat → List (Nat × Nat) :=
  match op with
  | .unite k a b => fun j => if j = k then (a, b) :: U j else U j
  | .clone i j => fun l => if l = j then U i else U l
  | _ => U

theorem unions_cons (op : Op) (ops : List Op) (U : Nat → List (Nat × Nat)) :
    unions (op :: ops) U = unions ops (unions1 op U) := by
  cases op <;> rfl

/-- the instance slot an operation writes -/
def target : Op → Nat
  | .unite k _ _ => k
  | .find k _ => k
  | .classes k _ => k
  | .clone _ j => j

/-- operations after which the property allows the representative of `a` in instance `k` to
    differ: a union on `k` involving the class of `a`, or slot `k` being overwritten by a clone -/
def Disturbs (op : Op) (U : Nat → List (Nat × Nat)) (k a : Nat) : Prop :=
  match op with
  | .unite k' x y => k' = k ∧ (Conn (U k) a x ∨ Conn (U k) a y)
  | .clone _ j => j = k
  | _ => False

theorem Store.get_set {S : Type} (I : Impl S) (st : Store S) (k : Nat) (s : S) (j : Nat) :
    (st.set k s).get I j = if k = j then s else st.get I j := rfl

section contract
variable {S : Type} {I : Impl S} {Inv : S → List (Nat × Nat) → Prop} {rep : S → Nat → Nat}

def StoreInv (I : Impl S) (Inv : S → List (Nat × Nat) → Prop) (st : Store S)
    (U : Nat → List (Nat × Nat)) : Prop := ∀ k, Inv (st.get I k) (U k)

theorem storeInv_init (R : Refines I Inv rep) : StoreInv I Inv Store.init (fun _ => []) :=
  fun _ => R.new

/-- the loop of `classes`, from any state predicate `P` that `find` preserves together with
    every representative -/
theorem classesLoop_ok {P : S → Prop}
    (hfind : ∀ s, P s → ∀ a, ∃ s', I.find s a = .ok (s', rep s a) ∧ P s' ∧ ∀ z, rep s' z = rep s z)
    (ρ : Nat → Nat) :
    ∀ (es : List Nat) (s : S) (cfr : List (Nat × Nat)) (cls : List (List Nat)),
      P s → (∀ z, rep s z = ρ z) → ClsInv ρ cfr cls →
      ∃ s', classesLoop I es s cfr cls
          = .ok (s', es.foldl (fun acc e => insertFO (relOf ρ) e acc) cls) ∧
        P s' ∧ ∀ z, rep s' z = ρ z := by
  intro es
  induction es with
  | nil => intro s cfr cls inv hρ _; exact ⟨s, rfl, inv, hρ⟩
  | cons e es ih =>
    intro s cfr cls inv hρ cinv
    obtain ⟨s1, hf, inv1, hrep⟩ := hfind s inv e
    have hρ1 : ∀ z, rep s1 z = ρ z := fun z => by rw [hrep, hρ]
    unfold classesLoop
    rw [hf, hρ e]
    simp only [List.foldl_cons]
    cases hl : lookup cfr (ρ e) with
    | none =>
      obtain ⟨h1, cinv'⟩ := cls_step_none cinv hl
      simp only []
      rw [h1]
      exact ih s1 _ _ inv1 hρ1 cinv'
    | some cl =>
      obtain ⟨h1, cinv'⟩ := cls_step_some cinv hl
      simp only []
      rw [h1]
      simp only []
      exact ih s1 _ _ inv1 hρ1 cinv'

/-- `classes` is the Spec's first-occurrence grouping under "same representative" -/
theorem classes_ok' {P : S → Prop}
    (hfind : ∀ s, P s → ∀ a, ∃ s', I.find s a = .ok (s', rep s a) ∧ P s' ∧ ∀ z, rep s' z = rep s z)
    {s : S} (hs : P s) (es : List Nat) :
    ∃ s', classes I s es = .ok (s', groupFO (relOf (rep s)) es) ∧ P s' ∧
      ∀ z, rep s' z = rep s z :=
  classesLoop_ok hfind (rep s) es s [] [] hs (fun _ => rfl) (clsInv_nil _)

/-- `classes` from a state satisfying the invariant: the state keeps the invariant and every
    representative -/
theorem classes_ok (R : Refines I Inv rep) {us : List (Nat × Nat)} {s : S} (inv : Inv s us)
    (es : List Nat) :
    ∃ s', classes I s es = .ok (s', groupFO (relOf (rep s)) es) ∧ Inv s' us ∧
      ∀ z, rep s' z = rep s z :=
  classes_ok' (P := fun s => Inv s us) (fun _ hs a => R.find hs a) inv es

/-- what an operation may answer -/
def ObsOk (rep : S → Nat → Nat) (I : Impl S) (st : Store S) : Op → Option Obs → Prop
  | .find k a, o => o = some (.rep (rep (st.get I k) a))
  | .classes k es, o => o = some (.classes (groupFO (relOf (rep (st.get I k))) es))
  | _, o => o = none

/-- one operation from a store satisfying the invariant -/
theorem step_spec (R : Refines I Inv rep) {st : Store S} {U : Nat → List (Nat × Nat)}
    (h : StoreInv I Inv st U) (op : Op) :
    ∃ st' o, step I st op = .ok (st', o) ∧ StoreInv I Inv st' (unions1 op U) ∧
      ObsOk rep I st op o ∧
      ∀ k a, ¬ Disturbs op U k a → rep (st'.get I k) a = rep (st.get I k) a := by
  cases op with
  | unite k a b =>
    obtain ⟨s', w, hu, inv', hw, hr⟩ := R.unite (h k) a b
    refine ⟨st.set k s', none, by simp only [step]; rw [hu], ?_, rfl, ?_⟩
    · intro j
      rw [Store.get_set]
      by_cases e : k = j
      · subst e; simp only [unions1]; exact inv'
      · have e' : ¬ j = k := fun h => e h.symm
        simp only [unions1, if_neg e, if_neg e']; exact h j
    · intro j c hd
      rw [Store.get_set]
      by_cases e : k = j
      · subst e
        rw [if_pos rfl, hr]
        have hd' : ¬ (Conn (U k) c a ∨ Conn (U k) c b) := fun hh => hd ⟨rfl, hh⟩
        rw [if_neg]
        rw [R.rep_conn (h k), R.rep_conn (h k)]; exact hd'
      · rw [if_neg e]
  | find k a =>
    obtain ⟨s', hf, inv', hr⟩ := R.find (h k) a
    refine ⟨st.set k s', some (.rep (rep (st.get I k) a)), by simp only [step]; rw [hf], ?_, rfl, ?_⟩
    · intro j
      rw [Store.get_set]
      by_cases e : k = j
      · subst e; rw [if_pos rfl]; exact inv'
      · rw [if_neg e]; exact h j
    · intro j c _
      rw [Store.get_set]
      by_cases e : k = j
      · subst e; rw [if_pos rfl, hr]
      · rw [if_neg e]
  | classes k es =>
    obtain ⟨s', hc, inv', hr⟩ := classes_ok R (h k) es
    refine ⟨st.set k s', some (.classes (groupFO (relOf (rep (st.get I k))) es)),
      by simp only [step]; rw [hc], ?_, rfl, ?_⟩
    · intro j
      rw [Store.get_set]
      by_cases e : k = j
      · subst e; rw [if_pos rfl]; exact inv'
      · rw [if_neg e]; exact h j
    · intro j c _
      rw [Store.get_set]
      by_cases e : k = j
      · subst e; rw [if_pos rfl, hr]
      · rw [if_neg e]
  | clone i j =>
    refine ⟨st.set j (st.get I i), none, rfl, ?_, rfl, ?_⟩
    · intro l
      rw [Store.get_set]
      by_cases e : j = l
      · subst e; simp only [unions1]; exact h i
      · have e' : ¬ l = j := fun h => e h.symm
        simp only [unions1, if_neg e, if_neg e']; exact h l
    · intro l c hd
      have e : ¬ j = l := fun hh => hd hh
      rw [Store.get_set, if_neg e]

/-- a whole history from a store satisfying the invariant: never panics or diverges, and the
    final store represents exactly the unions of the history -/
theorem run_ok (R : Refines I Inv rep) :
    ∀ (ops : List Op) (st : Store S) (U : Nat → List (Nat × Nat)), StoreInv I Inv st U →
      ∃ st' obs, run I st ops = .ok (st', obs) ∧ StoreInv I Inv st' (unions ops U) := by
  intro ops
  induction ops with
  | nil => intro st U h; exact ⟨st, [], rfl, h⟩
  | cons op ops ih =>
    intro st U h
    obtain ⟨st1, o, hs, inv1, _, _⟩ := step_spec R h op
    obtain ⟨st2, obs, hr, inv2⟩ := ih st1 _ inv1
    have inv2' : StoreInv I Inv st2 (unions (op :: ops) U) := by rw [unions_cons]; exact inv2
    cases o with
    | none =>
      refine ⟨st2, obs, ?_, inv2'⟩
      simp only [run]
      rw [hs]; simp only []; rw [hr]
    | some x =>
      refine ⟨st2, x :: obs, ?_, inv2'⟩
      simp only [run]
      rw [hs]; simp only []; rw [hr]

end contract

/-- operations on one instance slot leave every other slot untouched (value semantics of the
    store: this is what `Clone` means in the model) -/
theorem step_other {S : Type} (I : Impl S) {st st' : Store S} {op : Op} {o : Option Obs}
    (h : step I st op = .ok (st', o)) (j : Nat) (hj : j ≠ target op) :
    st'.get I j = st.get I j := by
  have key : ∀ s, (st.set (target op) s).get I j = st.get I j := by
    intro s; rw [Store.get_set, if_neg (fun e => hj e.symm)]
  cases op with
  | unite k a b =>
    simp only [step] at h
    split at h <;> first | (cases h; exact key _) | cases h
  | find k a =>
    simp only [step] at h
    split at h <;> first | (cases h; exact key _) | cases h
  | classes k es =>
    simp only [step] at h
    split at h <;> first | (cases h; exact key _) | cases h
  | clone i l =>
    simp only [step] at h
    cases h; exact key _

end DSymVerif.PartP
