/-
Commutation of far operations (s0s2, s0s3, s1s3: the D-symbol axiom m_ij = 2) as an invariant of
the rewriting primitives of simplify.rs: general lemmas for `collapse` and `reglue`, and the
primitives built from them.
-/
import DSymVerif.Proofs.SimplifyCollapse

namespace DSymVerif.Simp
open DSymVerif DSymVerif.DS

/-- far operations commute, in either order -/
theorem FarCommute.symm' {ds : DSetData} (hf : FarCommute ds) {a b d : Nat} (ha : a ≤ ds.dim) (hb : b ≤ ds.dim)
    (hab : a + 1 < b ∨ b + 1 < a) (h1 : 1 ≤ d) (h2 : d ≤ ds.size) :
    ds.opU b (ds.opU a d) = ds.opU a (ds.opU b d) := by
  rcases hab with h | h
  · exact hf a b d h hb h1 h2
  · exact (hf b a d h ha h1 h2).symm

/-- **`collapse` preserves the commutation of far operations** when the removed set is closed
    under every operation but one (`j`, the operation that is re-routed around the removed
    chambers) and the operations far from `j` commute with the connector on the removed set. -/
theorem collapse_far_commute {ds s : DSetData} {num : Nat → Nat} {remove : List Nat} {c j : Nat}
    (hv : ValidSet ds) (hf : FarCommute ds) (res : CollapseRes ds remove c s num)
    (hc : c ≤ ds.dim) (hj : j ≤ ds.dim)
    (hclosed : ∀ i, i ≤ ds.dim → i ≠ j → ∀ d ∈ remove, ds.opU i d ∈ remove)
    (hcomm : ∀ k, k ≤ ds.dim → (k + 1 < j ∨ j + 1 < k) → ∀ d ∈ remove,
      ds.opU k (ds.opU c d) = ds.opU c (ds.opU k d)) :
    FarCommute s := by
  -- operations other than j are the old ones on the kept chambers
  have keptcl : ∀ i x, i ≤ ds.dim → i ≠ j → 1 ≤ x → x ≤ ds.size → x ∉ remove → ds.opU i x ∉ remove := by
    intro i x hi hij hx1 hx2 hx hm
    have := hclosed i hi hij _ hm
    rw [hv.invol i x hi hx1 hx2] at this
    exact hx this
  have restr : ∀ i x, i ≤ ds.dim → i ≠ j → 1 ≤ x → x ≤ ds.size → x ∉ remove →
      s.opU i (num x) = num (ds.opU i x) := by
    intro i x hi hij hx1 hx2 hx
    by_cases hic : i = c
    · subst hic; exact (res.op_conn x hx1 hx2 hx).2
    · obtain ⟨t0, hz, hk, hval⟩ := res.op_walk i x hi hic hx1 hx2 hx
      cases t0 with
      | zero => exact hval
      | succ t =>
        exact absurd (hz 0 (by omega)) (keptcl i x hi hij hx1 hx2 hx)
  -- the far pair (k, j)
  have mixed : ∀ k x, k ≤ ds.dim → (k + 1 < j ∨ j + 1 < k) → 1 ≤ x → x ≤ ds.size → x ∉ remove →
      s.opU k (s.opU j (num x)) = s.opU j (s.opU k (num x)) := by
    intro k x hk hkj hx1 hx2 hx
    have hkne : k ≠ j := by omega
    have rkx := hv.range k x hk hx1 hx2
    have kkx := keptcl k x hk hkne hx1 hx2 hx
    rw [restr k x hk hkne hx1 hx2 hx]
    by_cases hjc : j = c
    · -- j is the connector itself: both restricted
      subst hjc
      have a := res.op_conn x hx1 hx2 hx
      have b := res.op_conn _ rkx.1 rkx.2 kkx
      have rjx := hv.range j x hj hx1 hx2
      rw [a.2, b.2, restr k _ hk hkne rjx.1 rjx.2 a.1]
      congr 1
      exact FarCommute.symm' hf hj hk (by omega) hx1 hx2
    · obtain ⟨t0, hz, hk0, hval⟩ := res.op_walk j x hj hjc hx1 hx2 hx
      obtain ⟨t1, hz1, hk1, hval1⟩ := res.op_walk j _ hj hjc rkx.1 rkx.2 kkx
      have rjx := hv.range j x hj hx1 hx2
      have ry := fun t => cpi_iter_range hv hj hc rjx.1 rjx.2 t
      -- the walk from s_k x is the s_k-image of the walk from x, as long as it stays removed
      have equiv : ∀ t, t ≤ t0 → (cpi ds j c)^[t] (ds.opU j (ds.opU k x)) =
          ds.opU k ((cpi ds j c)^[t] (ds.opU j x)) := by
        intro t
        induction t with
        | zero => intro _; exact FarCommute.symm' hf hk hj (by omega) hx1 hx2
        | succ t ih =>
          intro ht
          rw [Function.iterate_succ_apply', ih (by omega), Function.iterate_succ_apply']
          have hzt := hz t (by omega)
          have ryt := ry t
          generalize (cpi ds j c)^[t] (ds.opU j x) = z at hzt ryt ⊢
          unfold cpi
          rw [← hcomm k hk hkj z hzt]
          have rc := hv.range c z hc ryt.1 ryt.2
          exact FarCommute.symm' hf hk hj (by omega) rc.1 rc.2
      have ht : t1 = t0 := by
        rcases Nat.lt_trichotomy t1 t0 with h | h | h
        · exfalso
          apply hk1
          rw [equiv t1 (by omega)]
          exact hclosed k hk hkne _ (hz t1 h)
        · exact h
        · exfalso
          have := hz1 t0 h
          rw [equiv t0 (Nat.le_refl _)] at this
          exact keptcl k _ hk hkne (ry t0).1 (ry t0).2 hk0 this
      subst ht
      rw [hval, hval1, restr k _ hk hkne (ry t1).1 (ry t1).2 hk0, equiv t1 (Nat.le_refl _)]
  intro a b v hab hb hv1 hv2
  rw [res.dim] at hb
  obtain ⟨x, hx1, hx2, hx, rfl⟩ := res.num_surj v hv1 hv2
  have ha : a ≤ ds.dim := by omega
  by_cases haj : a = j
  · subst haj
    exact mixed b x hb (by omega) hx1 hx2 hx
  · by_cases hbj : b = j
    · subst hbj
      exact (mixed a x ha (by omega) hx1 hx2 hx).symm
    · have rax := hv.range a x ha hx1 hx2
      have rbx := hv.range b x hb hx1 hx2
      rw [restr a x ha haj hx1 hx2 hx, restr b x hb hbj hx1 hx2 hx,
        restr b _ hb hbj rax.1 rax.2 (keptcl a x ha haj hx1 hx2 hx),
        restr a _ ha haj rbx.1 rbx.2 (keptcl b x hb hbj hx1 hx2 hx)]
      congr 1
      exact hf a b x hab hb hx1 hx2


/-- four disjoint pairs: the pairing map is exactly the four transpositions -/
theorem pairedGet_four {a0 b0 a1 b1 a2 b2 a3 b3 : Nat} (hnd : [a0, b0, a1, b1, a2, b2, a3, b3].Nodup) :
    (pairedGet [(a0, b0), (a1, b1), (a2, b2), (a3, b3)] a0 = some b0 ∧
     pairedGet [(a0, b0), (a1, b1), (a2, b2), (a3, b3)] b0 = some a0 ∧
     pairedGet [(a0, b0), (a1, b1), (a2, b2), (a3, b3)] a1 = some b1 ∧
     pairedGet [(a0, b0), (a1, b1), (a2, b2), (a3, b3)] b1 = some a1 ∧
     pairedGet [(a0, b0), (a1, b1), (a2, b2), (a3, b3)] a2 = some b2 ∧
     pairedGet [(a0, b0), (a1, b1), (a2, b2), (a3, b3)] b2 = some a2 ∧
     pairedGet [(a0, b0), (a1, b1), (a2, b2), (a3, b3)] a3 = some b3 ∧
     pairedGet [(a0, b0), (a1, b1), (a2, b2), (a3, b3)] b3 = some a3) ∧
    ∀ x y, pairedGet [(a0, b0), (a1, b1), (a2, b2), (a3, b3)] x = some y →
      (x = a0 ∧ y = b0) ∨ (x = b0 ∧ y = a0) ∨ (x = a1 ∧ y = b1) ∨ (x = b1 ∧ y = a1) ∨
      (x = a2 ∧ y = b2) ∨ (x = b2 ∧ y = a2) ∨ (x = a3 ∧ y = b3) ∨ (x = b3 ∧ y = a3) := by
  simp only [List.nodup_cons, List.mem_cons, List.not_mem_nil, or_false, not_or, List.nodup_nil, and_true] at hnd
  obtain ⟨⟨n01, n02, n03, n04, n05, n06, n07⟩, ⟨n12, n13, n14, n15, n16, n17⟩, ⟨n23, n24, n25, n26, n27⟩,
    ⟨n34, n35, n36, n37⟩, ⟨n45, n46, n47⟩, ⟨n56, n57⟩, n67⟩ := hnd
  constructor
  · refine ⟨?_, ?_, ?_, ?_, ?_, ?_, ?_, ?_⟩ <;>
      simp only [pairedGet, if_true] <;> simp [*, Ne.symm, eq_comm]
  · intro x y hxy
    obtain ⟨p, hp, hpx⟩ := pairedGet_mem _ x y hxy
    simp only [List.mem_cons, List.not_mem_nil, or_false] at hp
    rcases hp with rfl | rfl | rfl | rfl <;> rw [partnerIn_eq_some] at hpx <;>
      rcases hpx with ⟨h1, h2⟩ | ⟨_, h1, h2⟩ <;> simp [← h1, h2]


/-- **`reglue` preserves the commutation of far operations** when the pairing is equivariant
    under every operation far from `index` -/
theorem reglue_far_commute {ds s : DSetData} {pairs : List (Nat × Nat)} {index : Nat} (hv : ValidSet ds)
    (hf : FarCommute ds) (h : reglue ds pairs index = .ok (some s)) (hidx : index ≤ ds.dim)
    (heq : ∀ k, k ≤ ds.dim → (k + 1 < index ∨ index + 1 < k) → ∀ x y, 1 ≤ x → x ≤ ds.size →
      pairedGet pairs x = some y → pairedGet pairs (ds.opU k x) = some (ds.opU k y)) :
    FarCommute s := by
  obtain ⟨sv, hs1, hs2, hoth, hpair, hunp⟩ := reglue_ok_valid hv h
  have mixed : ∀ k x, k ≤ ds.dim → (k + 1 < index ∨ index + 1 < k) → 1 ≤ x → x ≤ ds.size →
      s.opU k (s.opU index x) = s.opU index (s.opU k x) := by
    intro k x hk hki hx1 hx2
    have hkne : k ≠ index := by omega
    have rkx := hv.range k x hk hx1 hx2
    rw [hoth k x hk hx1 hx2 hkne]
    cases hp : pairedGet pairs x with
    | some y =>
      have a := hpair x y hx1 hx2 hidx hp
      have ry : 1 ≤ y ∧ y ≤ ds.size := by
        have := sv.range index x (by rw [hs2]; exact hidx) hx1 (by rw [hs1]; exact hx2)
        rw [a.1, hs1] at this; exact this
      rw [a.1, hoth k y hk ry.1 ry.2 hkne]
      exact ((hpair _ _ rkx.1 rkx.2 hidx (heq k hk hki x y hx1 hx2 hp)).1).symm
    | none =>
      have rix := hv.range index x hidx hx1 hx2
      rw [hunp x hx1 hx2 hidx hp, hoth k _ hk rix.1 rix.2 hkne]
      cases hq : pairedGet pairs (ds.opU k x) with
      | some z =>
        exfalso
        have := heq k hk hki _ z rkx.1 rkx.2 hq
        rw [hv.invol k x hk hx1 hx2, hp] at this
        cases this
      | none =>
        rw [hunp _ rkx.1 rkx.2 hidx hq]
        exact FarCommute.symm' hf hidx hk (by omega) hx1 hx2
  intro a b v hab hb hv1 hv2
  rw [hs2] at hb
  rw [hs1] at hv2
  have ha : a ≤ ds.dim := by omega
  by_cases hai : a = index
  · subst hai; exact mixed b v hb (by omega) hv1 hv2
  · by_cases hbi : b = index
    · subst hbi; exact (mixed a v ha (by omega) hv1 hv2).symm
    · have rav := hv.range a v ha hv1 hv2
      have rbv := hv.range b v hb hv1 hv2
      rw [hoth a v ha hv1 hv2 hai, hoth b v hb hv1 hv2 hbi, hoth b _ hb rav.1 rav.2 hbi,
        hoth a _ ha rbv.1 rbv.2 hai]
      exact hf a b v hab hb hv1 hv2

/-- **`squeeze_tile_3d` keeps a complete D-set with commuting far operations** (the eight chambers
    involved distinct) -/
theorem squeeze_far_commute {ds s : DSetData} (hv : ValidSet ds) (hdim : ds.dim = 3) (hf : FarCommute ds)
    {d e : Nat} (hd1 : 1 ≤ d) (hd2 : d ≤ ds.size) (he1 : 1 ≤ e) (he2 : e ≤ ds.size)
    (hnd : [ds.opU 0 e, d, ds.opU 0 d, e, ds.opU 2 (ds.opU 0 e), ds.opU 2 d, ds.opU 2 (ds.opU 0 d), ds.opU 2 e].Nodup)
    (h : squeezeTile3d ds d e = .ok s) :
    ValidSet s ∧ s.size = ds.size ∧ s.dim = ds.dim ∧ FarCommute s := by
  unfold squeezeTile3d at h
  obtain ⟨f, hf', h⟩ := bind_ok h
  obtain ⟨g, hg', h⟩ := bind_ok h
  obtain ⟨f2, hf2', h⟩ := bind_ok h
  obtain ⟨g2, hg2', h⟩ := bind_ok h
  obtain ⟨d2, hd2', h⟩ := bind_ok h
  obtain ⟨e2, he2', h⟩ := bind_ok h
  have vf := (opx_ok hf').2.2.2.1
  have vg := (opx_ok hg').2.2.2.1
  subst vf vg
  have vf2 := (opx_ok hf2').2.2.2.1
  have vg2 := (opx_ok hg2').2.2.2.1
  have vd2 := (opx_ok hd2').2.2.2.1
  have ve2 := (opx_ok he2').2.2.2.1
  subst vf2 vg2 vd2 ve2
  have hr := reglueU_ok h
  obtain ⟨sv, hs1, hs2, _⟩ := reglue_ok_valid hv hr
  refine ⟨sv, hs1, hs2, ?_⟩
  obtain ⟨⟨p0, p1, p2, p3, p4, p5, p6, p7⟩, pall⟩ := pairedGet_four hnd
  have rf := hv.range 0 e (by omega) he1 he2
  have rg := hv.range 0 d (by omega) hd1 hd2
  have i0e := hv.invol 0 e (by omega) he1 he2
  have i0d := hv.invol 0 d (by omega) hd1 hd2
  have c02 : ∀ x, 1 ≤ x → x ≤ ds.size → ds.opU 0 (ds.opU 2 x) = ds.opU 2 (ds.opU 0 x) := by
    intro x h1 h2; exact (hf 0 2 x (by omega) (by omega) h1 h2).symm
  apply reglue_far_commute hv hf hr (by omega)
  intro k hk hk2 x y hx1 hx2 hxy
  have hk0 : k = 0 := by omega
  subst hk0
  rcases pall x y hxy with ⟨rfl, rfl⟩ | ⟨rfl, rfl⟩ | ⟨rfl, rfl⟩ | ⟨rfl, rfl⟩ | ⟨rfl, rfl⟩ | ⟨rfl, rfl⟩ |
    ⟨rfl, rfl⟩ | ⟨rfl, rfl⟩
  · rw [i0e]; exact p3
  · rw [i0e]; exact p2
  · rw [i0d]; exact p1
  · rw [i0d]; exact p0
  · rw [c02 _ rf.1 rf.2, i0e, c02 d hd1 hd2]; exact p7
  · rw [c02 _ rf.1 rf.2, i0e, c02 d hd1 hd2]; exact p6
  · rw [c02 _ rg.1 rg.2, i0d, c02 e he1 he2]; exact p5
  · rw [c02 _ rg.1 rg.2, i0d, c02 e he1 he2]; exact p4


/-- the re-gluing of `fix_local_1_vertex` and `fix_non_disk_face`: the corners at `d` and `e` (and
    their 3-neighbours) exchange their 1-neighbours -/
theorem cornerGlue_far_commute {ds s : DSetData} (hv : ValidSet ds) (hdim : ds.dim = 3) (hf : FarCommute ds)
    {d e : Nat} (hd1 : 1 ≤ d) (hd2 : d ≤ ds.size) (he1 : 1 ≤ e) (he2 : e ≤ ds.size)
    (hnd : [d, ds.opU 1 e, e, ds.opU 1 d, ds.opU 3 d, ds.opU 1 (ds.opU 3 e), ds.opU 3 e, ds.opU 1 (ds.opU 3 d)].Nodup)
    (h : reglue ds [(d, ds.opU 1 e), (e, ds.opU 1 d), (ds.opU 3 d, ds.opU 1 (ds.opU 3 e)),
      (ds.opU 3 e, ds.opU 1 (ds.opU 3 d))] 1 = .ok (some s)) :
    ValidSet s ∧ s.size = ds.size ∧ s.dim = ds.dim ∧ FarCommute s := by
  obtain ⟨sv, hs1, hs2, _⟩ := reglue_ok_valid hv h
  refine ⟨sv, hs1, hs2, ?_⟩
  obtain ⟨⟨p0, p1, p2, p3, p4, p5, p6, p7⟩, pall⟩ := pairedGet_four hnd
  have rf := hv.range 3 d (by omega) hd1 hd2
  have rg := hv.range 3 e (by omega) he1 he2
  have i3d := hv.invol 3 d (by omega) hd1 hd2
  have i3e := hv.invol 3 e (by omega) he1 he2
  have c13 : ∀ x, 1 ≤ x → x ≤ ds.size → ds.opU 3 (ds.opU 1 x) = ds.opU 1 (ds.opU 3 x) :=
    fun x h1 h2 => hf 1 3 x (by omega) (by omega) h1 h2
  apply reglue_far_commute hv hf h (by omega)
  intro k hk hk2 x y hx1 hx2 hxy
  have hk3 : k = 3 := by omega
  subst hk3
  rcases pall x y hxy with ⟨rfl, rfl⟩ | ⟨rfl, rfl⟩ | ⟨rfl, rfl⟩ | ⟨rfl, rfl⟩ | ⟨rfl, rfl⟩ | ⟨rfl, rfl⟩ |
    ⟨rfl, rfl⟩ | ⟨rfl, rfl⟩
  · rw [c13 e he1 he2]; exact p4
  · rw [c13 e he1 he2]; exact p5
  · rw [c13 d hd1 hd2]; exact p6
  · rw [c13 d hd1 hd2]; exact p7
  · rw [i3d, c13 _ rg.1 rg.2, i3e]; exact p0
  · rw [i3d, c13 _ rg.1 rg.2, i3e]; exact p1
  · rw [i3e, c13 _ rf.1 rf.2, i3d]; exact p2
  · rw [i3e, c13 _ rf.1 rf.2, i3d]; exact p3

/-- **`fix_non_disk_face`'s re-gluing keeps a complete D-set with commuting far operations** -/
theorem nonDiskGlue_far_commute {ds s : DSetData} (hv : ValidSet ds) (hdim : ds.dim = 3) (hf : FarCommute ds)
    {d e : Nat} (hd1 : 1 ≤ d) (hd2 : d ≤ ds.size) (he1 : 1 ≤ e) (he2 : e ≤ ds.size)
    (hnd : [d, ds.opU 1 e, e, ds.opU 1 d, ds.opU 3 d, ds.opU 1 (ds.opU 3 e), ds.opU 3 e, ds.opU 1 (ds.opU 3 d)].Nodup)
    (h : nonDiskGlue ds d e = .ok (some (.dset s))) :
    ValidSet s ∧ s.size = ds.size ∧ s.dim = ds.dim ∧ FarCommute s := by
  unfold nonDiskGlue at h
  obtain ⟨f, hf', k1⟩ := bind_ok h
  obtain ⟨g, hg', k2⟩ := bind_ok k1
  obtain ⟨d1, hd1', k3⟩ := bind_ok k2
  obtain ⟨e1, he1', k4⟩ := bind_ok k3
  obtain ⟨f1, hf1', k5⟩ := bind_ok k4
  obtain ⟨g1, hg1', k6⟩ := bind_ok k5
  obtain ⟨out, hout, k7⟩ := bind_ok k6
  clear h k1 k2 k3 k4 k5 k6
  have vf := (opx_ok hf').2.2.2.1
  have vg := (opx_ok hg').2.2.2.1
  have vd1 := (opx_ok hd1').2.2.2.1
  have ve1 := (opx_ok he1').2.2.2.1
  subst vf vg vd1 ve1
  have vf1 := (opx_ok hf1').2.2.2.1
  have vg1 := (opx_ok hg1').2.2.2.1
  subst vf1 vg1
  have : out = s := by
    have h' : (Outcome.ok (some (DOE.dset out)) : Step) = .ok (some (.dset s)) := k7
    cases h'; rfl
  subst this
  exact cornerGlue_far_commute hv hdim hf hd1 hd2 he1 he2 hnd (reglueU_ok hout)

end DSymVerif.Simp
