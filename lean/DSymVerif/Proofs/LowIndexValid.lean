/-
C12 `extract_valid`: every table the model of `coset_tables` yields passes the Boolean Spec
`validTable rels []` and has at most `max k 1` rows, for relators that are empty or
cyclically reduced.  The search states carry the C11 table invariant (`join` of free slots
only), an empty union-find, the row bound, and relator closure: `derived_table`'s deduction
queue re-scans every row that receives a new entry with all rotations of all relators, and
a two-sided scan detects every non-closing completely defined relator path through the
scanned row (`detect`), so when the queue is empty every completely defined relator path
closes (`derivedLoop_qinv`).
-/
import DSymVerif.Proofs.CosetValid
import DSymVerif.Proofs.FreeWordCyclic
import DSymVerif.Proofs.CosetBfs
import DSymVerif.Proofs.LowIndex

namespace DSymVerif.CosetInvP
open DSymVerif DSymVerif.Cosets DSymVerif.LowIndexP DSymVerif.CosetPartP

/-! ### where a scan stops, with the traced prefix -/

theorem scanGo_char (t : Table) (limit : Nat) : ∀ (xs : List Int) (row idx r i : Nat),
    idx + xs.length = limit → scanGo t limit xs row idx = .ok (r, i) →
    ∃ k, k ≤ xs.length ∧ i = idx + k ∧ mtrace t row (xs.take k) = some r ∧
      (k < xs.length → ∃ x, xs[k]? = some x ∧ t.get r x = .ok none)
  | [], row, idx, r, i, hl, h => by
    simp only [List.length_nil, Nat.add_zero] at hl
    simp only [scanGo, hl, if_true, Outcome.ok.injEq, Prod.mk.injEq] at h
    exact ⟨0, Nat.le_refl _, by omega, by simp [mtrace, h.1], fun hk => by simp at hk⟩
  | x :: xs, row, idx, r, i, hl, h => by
    simp only [List.length_cons] at hl
    simp only [scanGo] at h
    cases hg : t.get row x with
    | ok o =>
      cases o with
      | none =>
        simp only [hg, Outcome.ok.injEq, Prod.mk.injEq] at h
        obtain ⟨rfl, rfl⟩ := h
        exact ⟨0, by simp, by omega, by simp [mtrace], fun _ => ⟨x, by simp, hg⟩⟩
      | some next =>
        simp only [hg] at h
        obtain ⟨k, hk, hi, htr, hstop⟩ := scanGo_char t limit xs next (idx + 1) r i (by omega) h
        refine ⟨k + 1, by simp; omega, by omega, by simp [mtrace, hg, htr], ?_⟩
        intro hk1
        obtain ⟨y, hy, hgy⟩ := hstop (by simp at hk1; omega)
        exact ⟨y, by simpa using hy, hgy⟩
    | err => simp [hg] at h
    | panic => simp [hg] at h

/-- a defined trace cannot be stuck in the middle -/
theorem mtrace_not_stuck {t : Table} {r r1 z : Nat} {p s : List Int} {x : Int}
    (h : mtrace t r (p ++ x :: s) = some z) (hp : mtrace t r p = some r1) : t.get r1 x ≠ .ok none := by
  rw [mtrace_append, hp] at h
  simp only [Option.bind_some, mtrace] at h
  intro hn
  rw [hn] at h
  cases h

theorem mtrace_prefix {t : Table} {r z : Nat} {p s : List Int} (h : mtrace t r (p ++ s) = some z) :
    ∃ r1, mtrace t r p = some r1 ∧ mtrace t r1 s = some z := by
  rw [mtrace_append] at h
  cases hp : mtrace t r p with
  | none => simp [hp] at h
  | some r1 => exact ⟨r1, rfl, by simpa [hp] using h⟩

theorem mtrace_canon {t : Table} (s : Shape t) : ∀ (w : List Int) (c d : Nat), t.canon c = c →
    mtrace t c w = some d → t.canon d = d
  | [], c, d, hc, h => by simp only [mtrace, Option.some.injEq] at h; exact h ▸ hc
  | g :: w, c, d, _, h => by
    simp only [mtrace] at h
    cases hg : t.get c g with
    | ok o =>
      cases o with
      | none => simp [hg] at h
      | some e =>
        simp only [hg] at h
        exact mtrace_canon s w e d (get_canon s hg) h
    | err => simp [hg] at h
    | panic => simp [hg] at h

theorem mtrace_lt {t : Table} (s : Shape t) : ∀ (w : List Int) (c d : Nat), WordOK t w → c < t.len →
    mtrace t c w = some d → d < t.len
  | [], c, d, _, hc, h => by simp only [mtrace, Option.some.injEq] at h; exact h ▸ hc
  | g :: w, c, d, hw, _, h => by
    simp only [mtrace] at h
    cases hg : t.get c g with
    | ok o =>
      cases o with
      | none => simp [hg] at h
      | some e =>
        simp only [hg] at h
        exact mtrace_lt s w e d (fun x hx => hw x (by simp [hx])) (s.range c g e (hw g (by simp)) hg) h
    | err => simp [hg] at h
    | panic => simp [hg] at h

/-- letters act injectively on canonical rows -/
theorem mtrace_inj {t : Table} (inv : TCq t []) {w : List Int} (hw : WordOK t w) {x y z : Nat}
    (hx : t.canon x = x) (hy : t.canon y = y) (h1 : mtrace t x w = some z) (h2 : mtrace t y w = some z) :
    x = y := by
  have a := (mtrace_reverse inv w x z hw hx h1).1
  have b := (mtrace_reverse inv w y z hw hy h2).1
  rw [a] at b
  injection b

/-- **conflict detection**: if `a` traces from `h` to `X`, `b` traces from `Y` to `h` and
    `X ≠ Y`, the two-sided scan of `a ++ b` from `h` meets in the middle on two different
    rows -/
theorem detect {t : Table} (inv : TCq t []) {a b : List Int} (hw : WordOK t (a ++ b)) {h X Y : Nat}
    (hh : t.canon h = h) (hY : t.canon Y = Y) (hYl : Y < t.len)
    (ha : mtrace t h a = some X) (hb : mtrace t Y b = some h) (hne : X ≠ Y)
    {head tail gap : Nat} {c : Int} (hs : scanBothWays t (a ++ b) h = .ok (head, tail, gap, c)) :
    gap = 0 ∧ head ≠ tail := by
  have hwa : WordOK t a := fun x hx => hw x (List.mem_append_left _ hx)
  have hwb : WordOK t b := fun x hx => hw x (List.mem_append_right _ hx)
  have hX : t.canon X = X := mtrace_canon inv.shape a h X hh ha
  unfold scanBothWays at hs
  simp only [] at hs
  cases h1 : scan t (a ++ b) h (a ++ b).length with
  | ok p1 =>
    obtain ⟨hd, i⟩ := p1
    simp only [h1] at hs
    cases h2 : scanInverse t (a ++ b) h ((a ++ b).length - i) with
    | ok p2 =>
      obtain ⟨tl, j⟩ := p2
      simp only [h2, Outcome.ok.injEq, Prod.mk.injEq] at hs
      obtain ⟨rfl, rfl, hgap, _⟩ := hs
      unfold scan at h1
      rw [List.take_length] at h1
      obtain ⟨k1, hk1, hi, htr1, hstop1⟩ := scanGo_char t _ (a ++ b) h 0 hd i (by simp) h1
      have hik : i = k1 := by omega
      subst hik
      -- the forward scan passes the whole of `a`
      have hge : a.length ≤ i := by
        by_contra hlt
        have hlt' : i < a.length := by omega
        obtain ⟨x, hx, hgx⟩ := hstop1 (by simp; omega)
        have hxa : a[i]? = some x := by
          rw [List.getElem?_append_left hlt'] at hx; exact hx
        have hsplit : a = a.take i ++ x :: a.drop (i + 1) := by
          have hxi : a[i] = x := by
            have := List.getElem?_eq_getElem hlt'
            rw [this] at hxa; injection hxa
          rw [← hxi, ← List.drop_eq_getElem_cons hlt', List.take_append_drop]
        have htk : (a ++ b).take i = a.take i := by
          rw [List.take_append_of_le_length (by omega)]
        rw [htk] at htr1
        rw [hsplit] at ha
        exact mtrace_not_stuck ha htr1 hgx
      obtain ⟨s, hs⟩ : ∃ s, i = a.length + s := ⟨i - a.length, by omega⟩
      have hsb : s ≤ b.length := by simp at hk1; omega
      have htk : (a ++ b).take i = a ++ b.take s := by
        rw [hs, List.take_append]
        simp
      rw [htk, mtrace_append, ha] at htr1
      simp only [Option.bind_some] at htr1
      -- the backward scan
      obtain ⟨Z, hZ1, hZ2⟩ := mtrace_prefix (p := b.take s) (s := b.drop s) (by rw [List.take_append_drop]; exact hb)
      have hZc : t.canon Z = Z := mtrace_canon inv.shape _ Y Z hY hZ1
      have hwd : WordOK t (b.drop s) := fun x hx => hwb x (List.mem_of_mem_drop hx)
      have hback := (mtrace_reverse inv (b.drop s) Z h hwd hZc hZ2).1
      have hxs : ((a ++ b).reverse.map (fun x => -x)).take ((a ++ b).length - i) =
          (b.drop s).reverse.map (fun x => -x) := by
        rw [List.reverse_append, List.map_append, List.take_append_of_le_length (by simp; omega)]
        rw [← List.map_take]
        congr 1
        have : (a ++ b).length - i = b.length - s := by simp; omega
        rw [this, List.reverse_drop]
      unfold scanInverse at h2
      rw [hxs] at h2
      obtain ⟨k2, hk2, hj, htr2, hstop2⟩ := scanGo_char t _ _ h 0 tl j (by simp; omega) h2
      have hjk : j = k2 := by omega
      subst hjk
      have hfull : j = ((b.drop s).reverse.map (fun x => -x)).length := by
        by_contra hlt
        have hlt' : j < ((b.drop s).reverse.map (fun x => -x)).length := by omega
        obtain ⟨x, hx, hgx⟩ := hstop2 hlt'
        set L := (b.drop s).reverse.map (fun x => -x) with hL
        have hsplit : L = L.take j ++ x :: L.drop (j + 1) := by
          have hxi : L[j] = x := by
            have := List.getElem?_eq_getElem hlt'
            rw [this] at hx; injection hx
          rw [← hxi, ← List.drop_eq_getElem_cons hlt', List.take_append_drop]
        rw [hsplit] at hback
        exact mtrace_not_stuck hback htr2 hgx
      rw [hfull, List.take_length, hback] at htr2
      injection htr2 with htr2
      refine ⟨by rw [← hgap, hfull]; simp; omega, ?_⟩
      intro heq
      rw [← htr2] at heq
      rw [heq] at htr1
      exact hne (mtrace_inj inv (fun x hx => hwb x (List.mem_of_mem_take hx)) hX hY htr1 hZ1)
    | err => rw [h2] at hs; cases hs
    | panic => rw [h2] at hs; cases hs
  | err => rw [h1] at hs; cases hs
  | panic => rw [h1] at hs; cases hs


/-! ### relator closure in the low-index search -/

/-- a completely defined trace of `w` from `r` that does not return to `r` -/
def Bad (t : Table) (w : List Int) (r : Nat) : Prop := ∃ r', mtrace t r w = some r' ∧ r' ≠ r

/-- `x` is one of the rows on the traced path of `w` from `r` -/
def OnPath (t : Table) (r : Nat) (w : List Int) (x : Nat) : Prop :=
  ∃ a b, w = a ++ b ∧ mtrace t r a = some x

theorem join_get_cases {t t' : Table} {c d : Nat} {g : Int} (h : t.join c d g = .ok t')
    (hg : g ∈ t.allGens) (hc : t.canon c = c) (hd : t.canon d = d) :
    ∀ x y z, y ∈ t.allGens → t'.get x y = .ok (some z) →
      (x = c ∧ y = g ∧ z = d) ∨ (x = d ∧ y = -g ∧ z = c) ∨ t.get x y = .ok (some z) := by
  have hfst : t'.get c g = .ok (some d) := by rw [join_get_fst h hg, hd]
  have hsnd : t'.get d (-g) = .ok (some c) := by rw [join_get_snd h, hc]
  intro x y z hy hget
  by_cases e1 : x = c ∧ y = g
  · obtain ⟨rfl, rfl⟩ := e1
    rw [hfst] at hget
    injection hget with hget; injection hget with hget
    exact Or.inl ⟨rfl, rfl, hget.symm⟩
  · by_cases e2 : x = d ∧ y = -g
    · obtain ⟨rfl, rfl⟩ := e2
      rw [hsnd] at hget
      injection hget with hget; injection hget with hget
      exact Or.inr (Or.inl ⟨rfl, rfl, hget.symm⟩)
    · right; right
      rw [← join_get_frame h hy (by tauto) (by tauto)]
      exact hget

theorem mtrace_mono {t t' : Table} (e : Ext2 t t') : ∀ (w : List Int) (r z : Nat), WordOK t w →
    mtrace t r w = some z → mtrace t' r w = some z
  | [], r, z, _, h => h
  | g :: w, r, z, hw, h => by
    simp only [mtrace] at h ⊢
    cases hg : t.get r g with
    | ok o =>
      cases o with
      | none => simp [hg] at h
      | some d =>
        simp only [hg] at h
        rw [e.2.2 r g d (hw g (by simp)) hg]
        exact mtrace_mono e w d z (fun x hx => hw x (by simp [hx])) h
    | err => simp [hg] at h
    | panic => simp [hg] at h

theorem OnPath.mono {t t' : Table} (e : Ext2 t t') {r x : Nat} {w : List Int} (hw : WordOK t w)
    (h : OnPath t r w x) : OnPath t' r w x := by
  obtain ⟨a, b, rfl, ha⟩ := h
  exact ⟨a, b, rfl, mtrace_mono e a r x (fun y hy => hw y (List.mem_append_left _ hy)) ha⟩

/-- a trace in the table with one more joined pair either existed before or passes through
    the first row of the pair -/
theorem mtrace_join {t t' : Table} {hd tl : Nat} {c : Int} (h : t.join hd tl c = .ok t')
    (hc : c ∈ t.allGens) (hhd : t.canon hd = hd) (htl : t.canon tl = tl) :
    ∀ (w : List Int) (r r' : Nat), WordOK t w → mtrace t' r w = some r' →
      mtrace t r w = some r' ∨ OnPath t' r w hd
  | [], r, r', _, h' => Or.inl h'
  | g :: w, r, r', hw, h' => by
    simp only [mtrace] at h'
    have hgm : g ∈ t.allGens := hw g (by simp)
    cases hg : t'.get r g with
    | ok o =>
      cases o with
      | none => simp [hg] at h'
      | some d =>
        simp only [hg] at h'
        rcases join_get_cases h hc hhd htl r g d hgm hg with ⟨rfl, rfl, rfl⟩ | ⟨rfl, rfl, rfl⟩ | hold
        · exact Or.inr ⟨[], g :: w, rfl, rfl⟩
        · exact Or.inr ⟨[-c], w, rfl, by simp [mtrace, hg]⟩
        · rcases mtrace_join h hc hhd htl w d r' (fun x hx => hw x (by simp [hx])) h' with h1 | ⟨a, b, e, ha⟩
          · exact Or.inl (by simp [mtrace, hold, h1])
          · exact Or.inr ⟨g :: a, b, by rw [e]; rfl, by simp [mtrace, hg, ha]⟩
    | err => simp [hg] at h'
    | panic => simp [hg] at h'

/-- the queue invariant of `derived_table`: every bad path of a relator passes through a
    queued row -/
def QInv (t : Table) (q : List Nat) (rels : List (List Int)) : Prop :=
  ∀ w ∈ rels, ∀ r, Bad t w r → ∃ x ∈ q, OnPath t r w x

/-- while the row `h` is being processed: a bad path passes through a queued row, or through
    `h` at a position whose rotation is still to be scanned -/
def QInvAt (t : Table) (q : List Nat) (rels : List (List Int)) (h : Nat) (us : List (List Int)) : Prop :=
  ∀ w ∈ rels, ∀ r, Bad t w r →
    (∃ x ∈ q, OnPath t r w x) ∨
      ∃ a b, w = b ++ a ∧ mtrace t r b = some h ∧ (a ++ b) ∈ us

theorem derivedRels_qinv {rels : List (List Int)} (h : Nat) :
    ∀ (us : List (List Int)) (t : Table) (q : List Nat) (t' : Table) (q' : List Nat),
      TCq t [] → Clean t → h < t.len → (∀ w ∈ rels, WordOK t w) → (∀ u ∈ us, WordOK t u) →
      QInvAt t q rels h us → derivedRels h us t q = .ok (some (t', q')) → QInv t' q' rels
  | [], t, q, t', q', _, _, _, _, _, hq, hres => by
    simp only [derivedRels, Outcome.ok.injEq, Option.some.injEq, Prod.mk.injEq] at hres
    obtain ⟨rfl, rfl⟩ := hres
    intro w hw r hbad
    rcases hq w hw r hbad with h1 | ⟨a, b, _, _, hm⟩
    · exact h1
    · cases hm
  | u :: us, t, q, t', q', inv, hcl, hl, hwr, hwu, hq, hres => by
    simp only [derivedRels] at hres
    have hcan : ∀ x, t.canon x = x := canon_clean hcl
    have hu : WordOK t u := hwu u (by simp)
    cases hs : scanBothWays t u h with
    | ok res =>
      obtain ⟨head, tail, gap, c⟩ := res
      simp only [hs] at hres
      -- a bad path through `h` whose rotation is `u` would be detected by this scan
      have hdet : ∀ w ∈ rels, ∀ r a b, Bad t w r → w = b ++ a → mtrace t r b = some h → a ++ b = u →
          gap = 0 ∧ head ≠ tail := by
        intro w hw r a b ⟨r', htr, hne⟩ hsplit hb hab
        rw [hsplit] at htr
        obtain ⟨r1, h1, h2⟩ := mtrace_prefix htr
        rw [hb] at h1
        injection h1 with h1
        subst h1
        have hrl : r < t.len := by
          by_contra hge
          cases b with
          | nil =>
            simp only [mtrace, Option.some.injEq] at hb
            omega
          | cons g b' =>
            simp only [mtrace] at hb
            rw [get_ge_len g (by omega)] at hb
            cases hb
        exact detect inv (by rw [hab]; exact hu) (hcan _) (hcan r) hrl h2 hb hne (by rw [hab]; exact hs)
      by_cases hg1 : gap = 1
      · subst hg1
        simp only [if_true] at hres
        obtain ⟨b1, b2, b3, b4, b5⟩ := scanBothWays_rows inv.shape hu (hcan h) hl hs
        obtain ⟨f1, f2⟩ := scanBothWays_gap_one hs
        cases hj : t.join head tail c with
        | ok t1 =>
          simp only [hj] at hres
          obtain ⟨j1, j2, j3⟩ := join_tcq inv hj (b5 rfl) b1 b2 b3 (Or.inl b4) f1 f2
          have e1 : Ext2 t t1 := join_ext2 hj f1 f2
          have hg1 : t1.allGens = t.allGens := e1.allGens
          refine derivedRels_qinv h us t1 (q ++ [head]) t' q' j1 (e1.clean hcl) (by have := j2.2.1; omega)
            (fun w hw x hx => by rw [hg1]; exact hwr w hw x hx)
            (fun u' hu' x hx => by rw [hg1]; exact hwu u' (by simp [hu']) x hx) ?_ hres
          intro w hw r hbad
          obtain ⟨r', htr, hne⟩ := hbad
          rcases mtrace_join hj (b5 rfl) b1 b3 w r r' (hwr w hw) htr with hold | hon
          · rcases hq w hw r ⟨r', hold, hne⟩ with ⟨x, hx, hp⟩ | ⟨a, b, e, hb, hm⟩
            · exact Or.inl ⟨x, by simp [hx], hp.mono e1 (hwr w hw)⟩
            · rcases List.mem_cons.mp hm with hm | hm
              · have := (hdet w hw r a b ⟨r', hold, hne⟩ e hb hm).1
                omega
              · exact Or.inr ⟨a, b, e, mtrace_mono e1 b r h (fun y hy => hwr w hw y (by
                  rw [e]; exact List.mem_append_left _ hy)) hb, hm⟩
          · exact Or.inl ⟨head, by simp, hon⟩
        | err => simp [hj] at hres
        | panic => simp [hj] at hres
      · simp only [hg1, if_false] at hres
        by_cases hm : gap = 0 ∧ head ≠ tail
        · simp [hm] at hres
        · simp only [hm, if_false] at hres
          refine derivedRels_qinv h us t q t' q' inv hcl hl hwr (fun u' hu' => hwu u' (by simp [hu'])) ?_ hres
          intro w hw r hbad
          rcases hq w hw r hbad with h1 | ⟨a, b, e, hb, hmem⟩
          · exact Or.inl h1
          · rcases List.mem_cons.mp hmem with hmem | hmem
            · exact absurd (hdet w hw r a b hbad e hb hmem) hm
            · exact Or.inr ⟨a, b, e, hb, hmem⟩
    | err => simp [hs] at hres
    | panic => simp [hs] at hres


theorem derivedRels_tcq (h : Nat) :
    ∀ (us : List (List Int)) (t : Table) (q : List Nat) (t' : Table) (q' : List Nat),
      TCq t [] → Clean t → h < t.len → (∀ u ∈ us, WordOK t u) → (∀ x ∈ q, x < t.len) →
      derivedRels h us t q = .ok (some (t', q')) →
      TCq t' [] ∧ Clean t' ∧ Ext2 t t' ∧ t'.len = t.len ∧ (∀ x ∈ q', x < t'.len)
  | [], t, q, t', q', inv, hcl, _, _, hq, hres => by
    simp only [derivedRels, Outcome.ok.injEq, Option.some.injEq, Prod.mk.injEq] at hres
    obtain ⟨rfl, rfl⟩ := hres
    exact ⟨inv, hcl, Ext2.refl _, rfl, hq⟩
  | u :: us, t, q, t', q', inv, hcl, hl, hwu, hq, hres => by
    simp only [derivedRels] at hres
    have hcan : ∀ x, t.canon x = x := canon_clean hcl
    have hu : WordOK t u := hwu u (by simp)
    cases hs : scanBothWays t u h with
    | ok res =>
      obtain ⟨head, tail, gap, c⟩ := res
      simp only [hs] at hres
      by_cases hg1 : gap = 1
      · subst hg1
        simp only [if_true] at hres
        obtain ⟨b1, b2, b3, b4, b5⟩ := scanBothWays_rows inv.shape hu (hcan h) hl hs
        obtain ⟨f1, f2⟩ := scanBothWays_gap_one hs
        cases hj : t.join head tail c with
        | ok t1 =>
          simp only [hj] at hres
          obtain ⟨j1, j2, j3⟩ := join_tcq inv hj (b5 rfl) b1 b2 b3 (Or.inl b4) f1 f2
          have e1 : Ext2 t t1 := join_ext2 hj f1 f2
          have hg1 : t1.allGens = t.allGens := e1.allGens
          have hlen1 : t1.len = t.len := by rw [join_len hj]; omega
          obtain ⟨a1, a2, a3, a4, a5⟩ := derivedRels_tcq h us t1 (q ++ [head]) t' q' j1 (e1.clean hcl)
            (by omega) (fun u' hu' x hx => by rw [hg1]; exact hwu u' (by simp [hu']) x hx)
            (fun x hx => by
              rw [hlen1]
              rcases List.mem_append.mp hx with hx | hx
              · exact hq x hx
              · simp at hx; exact hx ▸ b2) hres
          exact ⟨a1, a2, e1.trans a3, a4.trans hlen1, a5⟩
        | err => simp [hj] at hres
        | panic => simp [hj] at hres
      · simp only [hg1, if_false] at hres
        by_cases hm : gap = 0 ∧ head ≠ tail
        · simp [hm] at hres
        · simp only [hm, if_false] at hres
          exact derivedRels_tcq h us t q t' q' inv hcl hl (fun u' hu' => hwu u' (by simp [hu'])) hq hres
    | err => simp [hs] at hres
    | panic => simp [hs] at hres

/-- the expanded relator set contains every rotation of every relator -/
def RotClosed (rels R : List (List Int)) : Prop :=
  ∀ w ∈ rels, ∀ a b, w = b ++ a → (a ++ b) ∈ R

theorem derivedLoop_qinv {rels R : List (List Int)} (hrot : RotClosed rels R) :
    ∀ (fuel : Nat) (t : Table) (q : List Nat) (t' : Table),
      TCq t [] → Clean t → (∀ w ∈ rels, WordOK t w) → (∀ u ∈ R, WordOK t u) → (∀ x ∈ q, x < t.len) →
      QInv t q rels → derivedLoop R fuel t q = .ok (some t') →
      TCq t' [] ∧ Clean t' ∧ Ext2 t t' ∧ t'.len = t.len ∧ QInv t' [] rels := by
  intro fuel
  induction fuel with
  | zero =>
    intro t q t' inv hcl _ _ _ hqi hres
    cases q with
    | nil =>
      simp only [derivedLoop, Outcome.ok.injEq, Option.some.injEq] at hres
      subst hres
      exact ⟨inv, hcl, Ext2.refl _, rfl, hqi⟩
    | cons x q => simp [derivedLoop] at hres
  | succ f ih =>
    intro t q t' inv hcl hwr hwR hq hqi hres
    cases q with
    | nil =>
      simp only [derivedLoop, Outcome.ok.injEq, Option.some.injEq] at hres
      subst hres
      exact ⟨inv, hcl, Ext2.refl _, rfl, hqi⟩
    | cons h q =>
      simp only [derivedLoop] at hres
      cases hd : derivedRels h R t q with
      | ok o =>
        cases o with
        | none => simp [hd] at hres
        | some p =>
          obtain ⟨t1, q1⟩ := p
          simp only [hd] at hres
          have hl : h < t.len := hq h (by simp)
          have hq' : ∀ x ∈ q, x < t.len := fun x hx => hq x (by simp [hx])
          obtain ⟨a1, a2, a3, a4, a5⟩ := derivedRels_tcq h R t q t1 q1 inv hcl hl hwR hq' hd
          have hat : QInvAt t q rels h R := by
            intro w hw r hbad
            obtain ⟨x, hx, a, b, e, ha⟩ := hqi w hw r hbad
            rcases List.mem_cons.mp hx with rfl | hx
            · exact Or.inr ⟨b, a, e, ha, hrot w hw b a e⟩
            · exact Or.inl ⟨x, hx, a, b, e, ha⟩
          have hq1 := derivedRels_qinv h R t q t1 q1 inv hcl hl hwr hwR hat hd
          have hg1 : t1.allGens = t.allGens := a3.allGens
          obtain ⟨b1, b2, b3, b4, b5⟩ := ih t1 q1 t' a1 a2
            (fun w hw x hx => by rw [hg1]; exact hwr w hw x hx)
            (fun u hu x hx => by rw [hg1]; exact hwR u hu x hx) a5 hq1 hres
          exact ⟨b1, b2, a3.trans b3, b4.trans a4, b5⟩
      | err => simp [hd] at hres
      | panic => simp [hd] at hres


/-! ### the invariant of the search states -/

structure SInv (maxRows n : Nat) (rels : List (List Int)) (t : Table) : Prop where
  tcq : TCq t []
  clean : Clean t
  closed : QInv t [] rels
  rows : t.len ≤ max maxRows 1
  gens : t.nrGens = n

theorem SInv.allGens {maxRows n : Nat} {rels : List (List Int)} {t : Table} (s : SInv maxRows n rels t) :
    t.allGens = allGensOf n := by unfold Table.allGens; rw [s.gens]

theorem sinv_new (maxRows n : Nat) (rels : List (List Int)) : SInv maxRows n rels (Table.new n) := by
  refine ⟨tcq_new n, rfl, ?_, by simp [Table.len, Table.new], rfl⟩
  intro w _ r ⟨r', htr, hne⟩
  cases w with
  | nil => simp only [mtrace, Option.some.injEq] at htr; exact absurd htr.symm hne
  | cons g w =>
    exfalso
    simp only [mtrace] at htr
    cases hg : (Table.new n).get r g with
    | ok o =>
      cases o with
      | none => simp [hg] at htr
      | some d =>
        have : IsDef (Table.new n) r g := (get_some_iff _ _ _).mp ⟨d, hg⟩
        obtain ⟨v, ⟨row, h1, _, h3⟩, h4⟩ := this
        simp only [Table.new] at h1
        by_cases h0 : r = 0
        · subst h0
          simp at h1
          subst h1
          simp only [blankRow, Array.getElem?_replicate] at h3
          split at h3
          · injection h3 with h3; omega
          · cases h3
        · have : (#[blankRow n] : Array (Array Int))[r]? = none := by
            apply Array.getElem?_eq_none; simp; omega
          rw [this] at h1; cases h1
    | err => simp [hg] at htr
    | panic => simp [hg] at htr

theorem derivedTable_sinv {maxRows n : Nat} {rels R : List (List Int)} (hrot : RotClosed rels R)
    (hwr : ∀ w ∈ rels, ∀ x ∈ w, x ∈ allGensOf n) (hwR : ∀ u ∈ R, ∀ x ∈ u, x ∈ allGensOf n)
    {t t' : Table} (s : SInv maxRows n rels t) {frm dst : Nat} {g : Int} (hg : g ∈ t.allGens)
    (hf : frm < t.len) (hd : dst < t.len ∨ (dst = t.len ∧ frm < dst)) (hdm : dst < maxRows)
    (h : derivedTable t R frm dst g = .ok (some t')) :
    SInv maxRows n rels t' ∧ Ext2 t t' ∧ t'.len = max t.len (dst + 1) ∧
      t'.get frm g = .ok (some dst) := by
  have hcan : ∀ x, t.canon x = x := canon_clean s.clean
  unfold derivedTable at h
  cases h1 : t.get frm g with
  | ok o1 =>
    cases o1 with
    | some _ => simp [h1] at h
    | none =>
      simp only [h1] at h
      cases h2 : t.get dst (-g) with
      | ok o2 =>
        cases o2 with
        | some _ => simp [h2] at h
        | none =>
          simp only [h2] at h
          cases hj : t.join frm dst g with
          | ok t1 =>
            simp only [hj] at h
            obtain ⟨j1, j2, j3⟩ := join_tcq s.tcq hj hg (hcan frm) hf (hcan dst) hd h1 h2
            have e1 : Ext2 t t1 := join_ext2 hj h1 h2
            have hg1 : t1.allGens = allGensOf n := by rw [e1.allGens, s.allGens]
            have hlen1 : t1.len = max t.len (dst + 1) := by rw [join_len hj]; omega
            have hq1 : QInv t1 [frm] rels := by
              intro w hw r ⟨r', htr, hne⟩
              rcases mtrace_join hj hg (hcan frm) (hcan dst) w r r'
                (fun x hx => by rw [s.allGens]; exact hwr w hw x hx) htr with hold | hon
              · obtain ⟨x, hx, _⟩ := s.closed w hw r ⟨r', hold, hne⟩
                cases hx
              · exact ⟨frm, by simp, hon⟩
            obtain ⟨b1, b2, b3, b4, b5⟩ := derivedLoop_qinv hrot _ t1 [frm] t' j1 (e1.clean s.clean)
              (fun w hw x hx => by rw [hg1]; exact hwr w hw x hx)
              (fun u hu x hx => by rw [hg1]; exact hwR u hu x hx)
              (fun x hx => by simp at hx; subst hx; rw [hlen1]; omega) hq1 h
            have hfst : t1.get frm g = .ok (some dst) := by rw [join_get_fst hj hg, hcan]
            have hgt1 : g ∈ t1.allGens := by rw [e1.allGens]; exact hg
            refine ⟨⟨b1, b2, b5, ?_, by rw [b3.1, e1.1, s.gens]⟩, e1.trans b3, by rw [b4, hlen1],
              b3.2.2 frm g dst hgt1 hfst⟩
            rw [b4, hlen1]
            have := s.rows
            omega
          | err => simp [hj] at h
          | panic => simp [hj] at h
      | err => simp [h2] at h
      | panic => simp [h2] at h
  | err => simp [h1] at h
  | panic => simp [h1] at h

theorem firstFreeRow_mem (t : Table) (k : Nat) : ∀ (gs : List Int) (k' : Nat) (g : Int),
    firstFreeRow t k gs = .ok (some (k', g)) → k' = k :=
  fun gs k' g h => (firstFreeRow_spec t k gs k' g h).1

theorem firstFreeRows_mem (t : Table) : ∀ (ks : List Nat) (k : Nat) (g : Int),
    firstFreeRows t ks = .ok (some (k, g)) → k ∈ ks
  | [], k, g, h => by simp [firstFreeRows] at h
  | x :: ks, k, g, h => by
    simp only [firstFreeRows] at h
    cases hx : firstFreeRow t x t.allGens with
    | ok o =>
      cases o with
      | none =>
        simp only [hx] at h
        exact List.mem_cons_of_mem _ (firstFreeRows_mem t ks k g h)
      | some p =>
        simp only [hx] at h
        have := firstFreeRow_mem t x t.allGens k g (hx.trans h)
        subst this
        simp
    | err => simp [hx] at h
    | panic => simp [hx] at h

theorem potentialChildren_sinv {maxRows n : Nat} {rels R : List (List Int)} (hrot : RotClosed rels R)
    (hwr : ∀ w ∈ rels, ∀ x ∈ w, x ∈ allGensOf n) (hwR : ∀ u ∈ R, ∀ x ∈ u, x ∈ allGensOf n)
    {t : Table} (s : SInv maxRows n rels t) {l : List Table}
    (h : potentialChildren t R maxRows = .ok l) : ∀ t' ∈ l, SInv maxRows n rels t' := by
  intro t' ht'
  unfold potentialChildren at h
  cases hf : firstFreeInTable t with
  | ok o =>
    cases o with
    | none =>
      simp only [hf, Outcome.ok.injEq] at h
      subst h
      cases ht'
    | some p =>
      obtain ⟨k, g⟩ := p
      simp only [hf] at h
      obtain ⟨pos, hpos, hd⟩ := childrenFrom_spec t R k g _ l h t' ht'
      obtain ⟨hgen, _⟩ := firstFreeRows_spec t _ k g hf
      have hk : k < t.len := List.mem_range.mp (firstFreeRows_mem t _ k g hf)
      rw [List.mem_range'_1] at hpos
      have hmin1 := Nat.min_le_left maxRows (t.len + 1)
      have hmin2 := Nat.min_le_right maxRows (t.len + 1)
      refine (derivedTable_sinv hrot hwr hwR s hgen hk ?_ (by omega) hd).1
      by_cases hpl : pos < t.len
      · exact Or.inl hpl
      · exact Or.inr ⟨by omega, by omega⟩
  | err => simp [hf] at h
  | panic => simp [hf] at h

theorem btChildren_sinv {maxRows n : Nat} {rels R : List (List Int)} (hrot : RotClosed rels R)
    (hwr : ∀ w ∈ rels, ∀ x ∈ w, x ∈ allGensOf n) (hwR : ∀ u ∈ R, ∀ x ∈ u, x ∈ allGensOf n)
    {s c : Outcome Table} (hc : c ∈ btChildren R maxRows s)
    (hs : ∀ t, s = .ok t → SInv maxRows n rels t) : ∀ t', c = .ok t' → SInv maxRows n rels t' := by
  intro t' hct
  subst hct
  cases s with
  | ok t =>
    simp only [btChildren] at hc
    cases hp : potentialChildren t R maxRows with
    | ok ts =>
      simp only [hp] at hc
      cases hf : filterCanonical ts with
      | ok cs =>
        simp only [hf, List.mem_map, Outcome.ok.injEq] at hc
        obtain ⟨t1, ht1, rfl⟩ := hc
        exact potentialChildren_sinv hrot hwr hwR (hs t rfl) hp t1 (filterCanonical_subset ts cs hf t1 ht1)
      | err => simp [hf] at hc
      | panic => simp [hf] at hc
    | err => simp [hp] at hc
    | panic => simp [hp] at hc
  | err => simp [btChildren] at hc
  | panic => simp [btChildren] at hc

theorem reach_sinv {maxRows n : Nat} {rels R : List (List Int)} (hrot : RotClosed rels R)
    (hwr : ∀ w ∈ rels, ∀ x ∈ w, x ∈ allGensOf n) (hwR : ∀ u ∈ R, ∀ x ∈ u, x ∈ allGensOf n)
    {s s' : Outcome Table} (hr : BT.Reach (btProblem n R maxRows) s s')
    (hs : ∀ t, s = .ok t → SInv maxRows n rels t) : ∀ t', s' = .ok t' → SInv maxRows n rels t' := by
  induction hr with
  | refl s => exact hs
  | step hc _ ih => exact ih (btChildren_sinv hrot hwr hwR hc hs)


/-! ### the expanded relator set contains all rotations -/

theorem foldl_insert_mem_of : ∀ (ws acc : List (List Int)) (v : List Int),
    (v ∈ acc ∨ v ∈ ws) → v ∈ ws.foldl (fun a w => FW.insertSorted w a) acc
  | [], acc, v, h => by
    rcases h with h | h
    · exact h
    · cases h
  | w :: ws, acc, v, h => by
    rw [List.foldl_cons]
    apply foldl_insert_mem_of ws
    rcases h with h | h
    · exact Or.inl ((FWP.mem_insertSorted w acc v).mpr (Or.inr h))
    · rcases List.mem_cons.mp h with rfl | h
      · exact Or.inl ((FWP.mem_insertSorted v acc v).mpr (Or.inl rfl))
      · exact Or.inr h

theorem expanded_mem_of : ∀ (rels : List (List Int)) (acc : List (List Int)) (v : List Int),
    (v ∈ acc ∨ ∃ rel ∈ rels, v ∈ FW.relatorPermutations rel) →
    v ∈ rels.foldl (fun acc rel => (FW.relatorPermutations rel).foldl (fun a w => FW.insertSorted w a) acc) acc
  | [], acc, v, h => by
    rcases h with h | ⟨_, hr, _⟩
    · exact h
    · cases hr
  | r :: rels, acc, v, h => by
    rw [List.foldl_cons]
    apply expanded_mem_of rels
    rcases h with h | ⟨rel, hr, hv⟩
    · exact Or.inl (foldl_insert_mem_of _ acc v (Or.inl h))
    · rcases List.mem_cons.mp hr with rfl | hr
      · exact Or.inl (foldl_insert_mem_of _ acc v (Or.inr hv))
      · exact Or.inr ⟨rel, hr, hv⟩

/-- for relators that are empty or cyclically reduced, `expanded_relator_set` contains every
    list rotation of every relator -/
theorem rotClosed_expanded {rels : List (List Int)} (hcr : ∀ ρ ∈ rels, ρ = [] ∨ FWP.CR ρ) :
    RotClosed rels (expandedRelatorSet rels) := by
  intro w hw a b hsplit
  unfold expandedRelatorSet
  apply expanded_mem_of rels [] _ (Or.inr ⟨w, hw, ?_⟩)
  rcases hcr w hw with hnil | hc
  · subst hnil
    have hb : b = [] := by
      cases b with
      | nil => rfl
      | cons _ _ => simp at hsplit
    have ha : a = [] := by
      cases a with
      | nil => rfl
      | cons _ _ => subst hb; simp at hsplit
    subst ha; subst hb
    rw [FWP.relPerms_nil]; simp
  · by_cases hn : w = []
    · subst hn
      have hb : b = [] := by
        cases b with
        | nil => rfl
        | cons _ _ => simp at hsplit
      have ha : a = [] := by
        cases a with
        | nil => rfl
        | cons _ _ => subst hb; simp at hsplit
      subst ha; subst hb
      rw [FWP.relPerms_nil]; simp
    · rw [FWP.mem_relPerms hn, FWP.mem_rotInvList_iff hc hn]
      left
      exact ⟨b.length, by rw [hsplit, List.rotate_append_length_eq]⟩

/-! ### every yielded table passes the Spec -/

theorem mtrace_total {t : Table} (inv : TCq t []) (hcomp : AllComplete t) : ∀ (w : List Int) (c : Nat),
    WordOK t w → t.canon c = c → c < t.len → ∃ d, mtrace t c w = some d
  | [], c, _, _, _ => ⟨c, rfl⟩
  | g :: w, c, hw, hc, hl => by
    have hg := hw g (by simp)
    obtain ⟨d, hd⟩ := (get_some_iff t c g).mpr (hcomp c hl hc g hg)
    obtain ⟨e, he⟩ := mtrace_total inv hcomp w d (fun x hx => hw x (by simp [hx]))
      (get_canon inv.shape hd) (inv.shape.range c g d hg hd)
    exact ⟨e, by simp [mtrace, hd, he]⟩

/-- `extract_valid`, general form: if every rotation of every word of `rels'` is among the
    expanded relators of `rels`, every table yielded by the model of `coset_tables n rels k`
    is a valid table for the relators `rels'` with at most `max k 1` rows -/
theorem cosetTables_valid_gen (n : Nat) (rels rels' : List (List Int)) (k fuel : Nat)
    (hrot : RotClosed rels' (expandedRelatorSet rels)) (hlet' : ∀ w ∈ rels', ∀ x ∈ w, x ∈ allGensOf n)
    (hlet : ∀ w ∈ rels, ∀ x ∈ w, x ∈ allGensOf n)
    (hf : (BT.dfs (btProblem n (expandedRelatorSet rels) k) (height k) (.ok (Table.new n))).length ≤ fuel) :
    ∀ x ∈ cosetTables n rels k fuel, ∀ t', x = .ok t' →
      ∃ v, t'.view = .ok v ∧ CosetP.Valid (viewTab v) n rels' [] ∧ (viewTab v).size ≤ max k 1 := by
  intro x hx t' hxt
  subst hxt
  unfold cosetTables at hx
  rw [BT.run_eq_dfs _ (height k) (btProblem_decreasing n _ k) fuel hf] at hx
  obtain ⟨s, hs, hext⟩ := List.mem_filterMap.mp hx
  have hreach := (BT.mem_dfs_iff _ (height k) (btProblem_decreasing n _ k) _ s).mp hs
  have hwR : ∀ u ∈ expandedRelatorSet rels, ∀ y ∈ u, y ∈ allGensOf n :=
    expandedRelatorSet_letters (S := fun y => y ∈ allGensOf n) (fun y hy => neg_mem_allGensOf hy) hlet
  cases s with
  | ok t =>
    have si : SInv k n rels' t := reach_sinv hrot hlet' hwR hreach
      (fun t0 h0 => by injection h0 with h0; exact h0 ▸ sinv_new k n rels') t rfl
    obtain ⟨hcompact, hdef⟩ := btExtract_complete hext
    have hcan : ∀ c, t.canon c = c := canon_clean si.clean
    have hcomp : AllComplete t := fun c hc _ g hg => (get_some_iff t c g).mp (hdef c hc g hg)
    have hwr : ∀ w ∈ rels', WordOK t w := fun w hw y hy => by rw [si.allGens]; exact hlet' w hw y hy
    obtain ⟨v, _, h1, h2, h3, _⟩ := compact_view_valid (subs := []) si.tcq hcomp si.gens hlet'
      (fun _ h => by cases h)
      (fun w hw c hc hl => by
        obtain ⟨d, hd⟩ := mtrace_total si.tcq hcomp w c (hwr w hw) hc hl
        by_cases e : d = c
        · rw [e] at hd; exact hd
        · obtain ⟨y, hy, _⟩ := si.closed w hw c ⟨d, hd, e⟩
          cases hy)
      (fun _ h => by cases h) hcompact
    exact ⟨v, h1, h2, by have := si.rows; omega⟩
  | err => simp only [btProblem, btExtract] at hext; injection hext with hext; cases hext
  | panic => simp only [btProblem, btExtract] at hext; injection hext with hext; cases hext

/-- ○ **`extract_valid`**: for relators over the letters `±1..±n` that are empty or
    cyclically reduced, every table yielded by the model of `coset_tables` (run with enough
    fuel to exhaust the search tree) passes the Boolean Spec `validTable rels []` — complete,
    inverse-consistent, every relator closing at every row, transitive — and has at most
    `max k 1` rows. -/
theorem cosetTables_valid (n : Nat) (rels : List (List Int)) (k fuel : Nat)
    (hcr : ∀ ρ ∈ rels, ρ = [] ∨ FWP.CR ρ) (hlet : ∀ w ∈ rels, ∀ x ∈ w, x ∈ allGensOf n)
    (hf : (BT.dfs (btProblem n (expandedRelatorSet rels) k) (height k) (.ok (Table.new n))).length ≤ fuel) :
    ∀ x ∈ cosetTables n rels k fuel, ∀ t', x = .ok t' →
      ∃ v, t'.view = .ok v ∧ SpecC11.validTable (viewTab v) n rels [] = true ∧ (viewTab v).size ≤ max k 1 := by
  intro x hx t' hxt
  obtain ⟨v, h1, h2, h3⟩ := cosetTables_valid_gen n rels rels k fuel (rotClosed_expanded hcr) hlet hlet hf x hx t' hxt
  exact ⟨v, h1, RebaseP.validTable_of_valid h2, h3⟩

end DSymVerif.CosetInvP
