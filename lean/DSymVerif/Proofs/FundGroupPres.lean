/-
Helper lemmas for property C09, part 12: the textbook presentation `TRel`, the presentation
returned by the model `MRel`, and the homomorphism  textbook group → returned group  induced by
`x(d,i) ↦ edge_to_word(d,i)`; it is onto.
-/
import Mathlib.GroupTheory.PresentedGroup
import DSymVerif.Proofs.FundGroupOrbitWord
import DSymVerif.Proofs.FundGroupPair
import DSymVerif.Proofs.FundGroupConj

namespace DSymVerif.FGP
open DSymVerif DSymVerif.DS DSymVerif.FG DSymVerif.FWP DSymVerif.SpecC10

/-! ### facet generators -/

/-- the number of the textbook generator of facet `(d,i)` : 1 … size·(dim+1) -/
def code (ds : DSymData) (d i : Nat) : ℕ := (d - 1) * (ds.dim + 1) + i + 1

def decD (ds : DSymData) (k : ℕ) : Nat := (k - 1) / (ds.dim + 1) + 1
def decI (ds : DSymData) (k : ℕ) : Nat := (k - 1) % (ds.dim + 1)

theorem dec_code {ds : DSymData} {d i : Nat} (h : FacetR ds d i) :
    decD ds (code ds d i) = d ∧ decI ds (code ds d i) = i := by
  unfold decD decI code
  have h1 : (d - 1) * (ds.dim + 1) + i + 1 - 1 = i + (ds.dim + 1) * (d - 1) := by
    rw [Nat.mul_comm]; omega
  rw [h1, Nat.add_mul_div_left _ _ (by omega), Nat.add_mul_mod_self_left,
    Nat.div_eq_of_lt (by have := h.2.2; omega), Nat.mod_eq_of_lt (by have := h.2.2; omega)]
  have := h.1
  omega

/-- `k` is the number of a facet generator -/
def isCode (ds : DSymData) (k : ℕ) : Prop :=
  FacetR ds (decD ds k) (decI ds k) ∧ code ds (decD ds k) (decI ds k) = k

instance (ds : DSymData) (d i : Nat) : Decidable (FacetR ds d i) := by unfold FacetR; infer_instance
instance (ds : DSymData) (k : ℕ) : Decidable (isCode ds k) := by unfold isCode; infer_instance

theorem isCode_code {ds : DSymData} {d i : Nat} (h : FacetR ds d i) : isCode ds (code ds d i) := by
  unfold isCode
  rw [(dec_code h).1, (dec_code h).2]
  exact ⟨h, rfl⟩

/-- the textbook generator of facet `(c,a)` (trivial outside the symbol) -/
def xg (ds : DSymData) (c a : Nat) : FreeGroup ℕ :=
  if FacetR ds c a then FreeGroup.of (code ds c a) else 1

/-- the textbook relators: pairing, spanning tree, 2-orbit words to the power `v`;
    numbers that are not facets are killed -/
def TRel (ds : DSymData) : Set (FreeGroup ℕ) :=
  {r | ∃ d i, FacetR ds d i ∧ r = xg ds d i * xg ds (ds.dset.opU i d) i} ∪
  {r | ∃ it ∈ spanningTree ds, r = xg ds it.1 it.2.1} ∪
  {r | ∃ i j d, i < j ∧ j ≤ ds.dim ∧ 1 ≤ d ∧ d ≤ ds.size ∧
    r = OW ds (xg ds) i j d ^ orbV ds i j d} ∪
  {r | ∃ k, ¬ isCode ds k ∧ r = FreeGroup.of k}

/-- the relators of the returned presentation on the generators `1..n`
    (the letters `0` and `> n` are killed) -/
def MRel (n : Nat) (rels : List (List Int)) : Set (FreeGroup ℕ) :=
  {r | ∃ w ∈ rels, r = den w} ∪ {r | ∃ k : ℕ, (k = 0 ∨ n < k) ∧ r = FreeGroup.of k}

abbrev TGroup (ds : DSymData) : Type := PresentedGroup (TRel ds)
abbrev MGroup (f : FundGroup) : Type := PresentedGroup (MRel f.nrGenerators f.relators)

/-! ### the values of the facets in the returned group -/

section phi
variable {ds : DSymData} (hs : ValidSym ds) {f : FundGroup} (hf : fundamentalGroup ds = .ok f)

/-- the element of the returned group attached to facet `(c,a)` by `edge_to_word` -/
noncomputable def valM (ds : DSymData) (f : FundGroup) (c a : Nat) : MGroup f :=
  if FacetR ds c a then PresentedGroup.mk _ (valW f.edgeToWord c a) else 1

theorem valM_of_facet {c a : Nat} (h : FacetR ds c a) :
    valM ds f c a = PresentedGroup.mk _ (valW f.edgeToWord c a) := by
  unfold valM; rw [if_pos h]

theorem valM_oor {c a : Nat} (h : ¬ FacetR ds c a) : valM ds f c a = 1 := by
  unfold valM; rw [if_neg h]

include hs in
/-- reading a closed walk with `edge_to_word` and mapping to the group = reading it with `valM` -/
theorem mk_OW {a b c : Nat} (ha : a ≤ ds.dim) (hb : b ≤ ds.dim) (h1 : 1 ≤ c) (h2 : c ≤ ds.size) :
    PresentedGroup.mk (MRel f.nrGenerators f.relators) (OW ds (valW f.edgeToWord) a b c) =
      OW ds (valM ds f) a b c := by
  unfold OW
  rw [map_Wf]
  refine (Wf_congr (opT ds) _ (valM ds f) (fun c => 1 ≤ c ∧ c ≤ ds.size) ?_ ?_ _ c ⟨h1, h2⟩).1
  · intro c hc
    exact ⟨opT_range hs.set hc.1 hc.2, opT_range hs.set hc.1 hc.2⟩
  · intro c hc
    rw [valM_of_facet ⟨hc.1, hc.2, ha⟩, valM_of_facet ⟨hc.1, hc.2, hb⟩]
    exact ⟨rfl, rfl⟩

include hs hf in
/-- every 2-orbit visited by `fundamental_group` gives a relation of the returned group -/
theorem model_rel {i j d : Nat} (hij : i ≤ j) (hj : j ≤ ds.dim) (hd : d ∈ ds.view.orbitReps2d i j) :
    OW ds (valM ds f) j i (opT ds i d) ^ orbV ds i j d = 1 := by
  have hi : i ≤ ds.dim := by omega
  have hr := (D2.orbitReps2d_ok hs.set hi hj).range d hd
  have hdi := hs.set.range i d hi hr.1 hr.2
  rw [opT_eq hi hr.1 hr.2]
  obtain ⟨word, hw⟩ := traceWord_ok hs.set f.edgeToWord hdi.1 hdi.2 (some j) (some i)
    (fun _ h => by cases h; exact hj) (fun _ h => by cases h; exact hi)
  obtain ⟨v, hv⟩ := hs.vPartial_some hi hj hr.1 hr.2
  have hov : orbV ds i j d = v := by unfold orbV; rw [hv]
  have hden := traceWord_den hs f.edgeToWord hj hi hdi.1 hdi.2 hw
  rw [← mk_OW hs hj hi hdi.1 hdi.2, ← hden, hov, ← map_pow]
  have hrel : den (relOf word v) = den word ^ v := by
    unfold relOf; rw [den_raisedTo, zpow_natCast]
  rw [← hrel]
  by_cases hne : relOf word v = []
  · rw [hne]; simp [den_nil]
  · have htr : Traced ds f.edgeToWord i j d word v := ⟨_, op_eq hi hr.1 hr.2, hw, hv⟩
    have hmem : FW.relatorRepresentative (relOf word v) ∈ f.relators := by
      have := (fundamentalGroup_holds ds f hf).1 (FW.relatorRepresentative (relOf word v))
      simp only at this
      rw [this]
      exact ⟨(i, j, d), mem_orbitList.2 ⟨mem_indexPairs.2 ⟨hij, hj⟩, hd⟩, word, v, htr, hne, rfl⟩
    have h1 : PresentedGroup.mk (MRel f.nrGenerators f.relators)
        (den (FW.relatorRepresentative (relOf word v))) = 1 :=
      PresentedGroup.one_of_mem (Or.inl ⟨_, hmem, rfl⟩)
    exact (hom_relRep_eq_one _ (raisedTo_isReduced _ _)).1 h1

/-- an `(i,i)`-"orbit" is a chamber and its `i`-neighbour -/
theorem orb2_same {s : DSetData} (hv : ValidSet s) {i r e : Nat} (hi : i ≤ s.dim)
    (hr : 1 ≤ r ∧ r ≤ s.size) (ho : Orb2 s i i r e) : e = r ∨ e = s.opU i r := by
  induction ho with
  | refl => exact Or.inl rfl
  | stepI _ ih =>
    rcases ih with h | h
    · rw [h]; exact Or.inr rfl
    · rw [h]; exact Or.inl (hv.invol i r hi hr.1 hr.2)
  | stepJ _ ih =>
    rcases ih with h | h
    · rw [h]; exact Or.inr rfl
    · rw [h]; exact Or.inl (hv.invol i r hi hr.1 hr.2)

include hs hf in
/-- crossing a facet back undoes the crossing, in the returned group (mirrors: `w² = 1`) -/
theorem valM_pair (a c : Nat) : valM ds f (opT ds a c) a = (valM ds f c a)⁻¹ := by
  by_cases hfc : FacetR ds c a
  · have hv := hs.set
    rw [opT_eq hfc.2.2 hfc.1 hfc.2.1]
    have hfc' := facetR_partner hv hfc
    by_cases hm : ds.dset.opU a c = c
    · -- mirror: the square of the word is a relator
      rw [hm, eq_inv_iff_mul_eq_one]
      have hrep : c ∈ ds.view.orbitReps2d a a := by
        obtain ⟨r, hr, ho⟩ := (D2.orbitReps2d_ok hv hfc.2.2 hfc.2.2).cover c hfc.1 hfc.2.1
        have hrr := (D2.orbitReps2d_ok hv hfc.2.2 hfc.2.2).range r hr
        rcases orb2_same hv hfc.2.2 hrr ho with h | h
        · rw [h]; exact hr
        · have : r = c := by
            have := congrArg (ds.dset.opU a) h
            rw [hm, hv.invol a r hfc.2.2 hrr.1 hrr.2] at this
            exact this.symm
          rw [← this]; exact hr
      have := model_rel hs hf (Nat.le_refl a) hfc.2.2 hrep
      have hov : orbV ds a a c = 1 := by
        unfold orbV; rw [ds.vPartial_diag hfc.2.2 hfc.1 hfc.2.1]
      have hor : orbR ds a a c = 1 := by
        unfold orbR; rw [ds.rPartial_diag hfc.2.2 hfc.1 hfc.2.1]
      rw [hov, pow_one, opT_eq hfc.2.2 hfc.1 hfc.2.1, hm] at this
      unfold OW at this
      rw [hor] at this
      have e : Wf (opT ds) (valM ds f) a a (2 * 1) c =
          valM ds f c a * (valM ds f (opT ds a c) a * 1) := rfl
      rw [e, opT_eq hfc.2.2 hfc.1 hfc.2.1, hm, mul_one] at this
      exact this
    · -- not a mirror: the two words are mutually inverse
      rw [valM_of_facet hfc, valM_of_facet hfc', ← map_inv]
      congr 1
      unfold valW
      have hI : Invol ds := by
        intro i d e he
        have hp : ds.view.PInvol := (C02.traversal_hyp ds.dset).2.2 ds hv
        exact hp.invol i d e he
      have := findGenerators_pairInv hI _ _ (fundamentalGroup_e2w hf) a c (ds.dset.opU a c)
        (op_eq hfc.2.2 hfc.1 hfc.2.1) hm
      rw [this, den_inverse, inv_inv]
  · rw [opT_oor (fun h => hfc ⟨h.2.1, h.2.2, h.1⟩), valM_oor hfc]
    simp

theorem orbV_orbit {a b c0 c : Nat} (ha : a ≤ ds.dim) (hb : b ≤ ds.dim)
    (h1 : 1 ≤ c0) (h2 : c0 ≤ ds.size) (ho : Orb2 ds.dset a b c0 c) (hs : ValidSym ds) :
    orbV ds a b c = orbV ds a b c0 := by
  induction ho with
  | refl => rfl
  | @stepI e ho ih =>
    have r := Orb2.range hs.set ha hb ⟨h1, h2⟩ ho
    rw [← opT_eq ha r.1 r.2, (orbR_opA hs ha hb r.1 r.2).2.2.1, ih]
  | @stepJ e ho ih =>
    have r := Orb2.range hs.set ha hb ⟨h1, h2⟩ ho
    rw [← opT_eq hb r.1 r.2, (orbR_opA hs ha hb r.1 r.2).2.2.2, ih]

include hs hf in
/-- every 2-orbit word to the power `v` is trivial in the returned group -/
theorem orbit_rel {i j d : Nat} (hij : i ≤ j) (hj : j ≤ ds.dim) (h1 : 1 ≤ d) (h2 : d ≤ ds.size) :
    OW ds (valM ds f) i j d ^ orbV ds i j d = 1 := by
  have hi : i ≤ ds.dim := by omega
  have hp := valM_pair hs hf
  obtain ⟨d0, hd0, ho⟩ := (D2.orbitReps2d_ok hs.set hi hj).cover d h1 h2
  have hr := (D2.orbitReps2d_ok hs.set hi hj).range d0 hd0
  rw [orbV_orbit hi hj hr.1 hr.2 ho hs, OW_orbit hs hp hi hj hr.1 hr.2 ho]
  have hm := model_rel hs hf hij hj hd0
  have r' := opT_range hs.set (a := i) hr.1 hr.2
  rw [OW_swap hs hp hi hj r'.1 r'.2, OW_opA hs hp hi hj hr.1 hr.2] at hm
  have e : (valM ds f (opT ds i d0) i * (OW ds (valM ds f) i j d0)⁻¹ * (valM ds f (opT ds i d0) i)⁻¹)⁻¹ =
      valM ds f (opT ds i d0) i * OW ds (valM ds f) i j d0 * (valM ds f (opT ds i d0) i)⁻¹ := by
    group
  rw [e, conj_pow] at hm
  have : OW ds (valM ds f) i j d0 ^ orbV ds i j d0 =
      (valM ds f (opT ds i d0) i)⁻¹ * 1 * valM ds f (opT ds i d0) i := by
    rw [← hm]; group
  simpa using this

/-! ### the homomorphism -/

/-- image of the generator number `k` -/
noncomputable def phi0 (ds : DSymData) (f : FundGroup) (k : ℕ) : MGroup f :=
  if isCode ds k then valM ds f (decD ds k) (decI ds k) else 1

theorem lift_xg (c a : Nat) : FreeGroup.lift (phi0 ds f) (xg ds c a) = valM ds f c a := by
  unfold xg
  by_cases h : FacetR ds c a
  · rw [if_pos h, FreeGroup.lift_apply_of]
    unfold phi0
    rw [if_pos (isCode_code h), (dec_code h).1, (dec_code h).2]
  · rw [if_neg h, map_one, valM_oor h]

include hs hf in
theorem phi_rels : ∀ r ∈ TRel ds, FreeGroup.lift (phi0 ds f) r = 1 := by
  intro r hr
  rcases hr with ((hr | hr) | hr) | hr
  · obtain ⟨d, i, hd, rfl⟩ := hr
    rw [map_mul, lift_xg, lift_xg, ← opT_eq hd.2.2 hd.1 hd.2.1, valM_pair hs hf]
    simp
  · obtain ⟨it, hit, rfl⟩ := hr
    rw [lift_xg]
    have hok := spanningTree_ok hs.set it hit
    obtain ⟨hnone, _⟩ := spanningTree_itemOk hs.set it hit
    rw [valM_of_facet (hok hnone)]
    unfold valW e2wGet
    rw [(tree_facets_trivial hs (fundamentalGroup_e2w hf) it hit).1]
    simp [FW.empty, FW.new, FW.normalized, den_nil]
  · obtain ⟨i, j, d, hij, hj, h1, h2, rfl⟩ := hr
    rw [map_pow]
    unfold OW
    rw [map_Wf]
    have : (fun c a => FreeGroup.lift (phi0 ds f) (xg ds c a)) = valM ds f := by
      funext c a; exact lift_xg c a
    rw [this]
    exact orbit_rel hs hf (Nat.le_of_lt hij) hj h1 h2
  · obtain ⟨k, hk, rfl⟩ := hr
    rw [FreeGroup.lift_apply_of]
    unfold phi0
    rw [if_neg hk]

/-- the homomorphism  textbook group → returned group,  `x(d,i) ↦ edge_to_word(d,i)` -/
noncomputable def phi : TGroup ds →* MGroup f := PresentedGroup.toGroup (phi_rels hs hf)

theorem phi_xg (c a : Nat) :
    phi hs hf (PresentedGroup.mk _ (xg ds c a)) = valM ds f c a := by
  unfold phi
  show FreeGroup.lift (phi0 ds f) (xg ds c a) = _
  exact lift_xg c a

include hs hf in
/-- every generator of the returned group is the image of a facet generator or of its inverse -/
theorem phi_surjective : Function.Surjective (phi hs hf) := by
  intro x
  have : x ∈ (phi hs hf).range := by
    apply PresentedGroup.generated_by
    intro g
    by_cases hg : g = 0 ∨ f.nrGenerators < g
    · have : (PresentedGroup.of g : MGroup f) = 1 :=
        PresentedGroup.one_of_mem (Or.inr ⟨g, hg, rfl⟩)
      rw [this]; exact one_mem _
    · have hg1 : 1 ≤ g ∧ g ≤ f.nrGenerators := by omega
      obtain ⟨bnd, gi⟩ := findGenerators_ginv hs (fundamentalGroup_e2w hf)
      have hkeys := (findGenerators_genInv ds _ _ (fundamentalGroup_e2w hf)).1
      have hmem : g ∈ f.genToEdge.map Prod.fst := by
        rw [hkeys, List.mem_range'_1]
        unfold FundGroup.nrGenerators at hg1
        omega
      obtain ⟨p, hp, hpg⟩ := List.mem_map.1 hmem
      obtain ⟨hfac, _, hw⟩ := gi.gens p hp
      rw [hpg] at hw
      have hden : den [(g : Int)] = FreeGroup.of g := den_pos g hg1.1
      have hdenn : den [-(g : Int)] = (FreeGroup.of g)⁻¹ := den_neg g hg1.1
      by_cases hm : ds.dset.opU p.2.2 p.2.1 = p.2.1
      · have h1 := hw.2 hm
        have : phi hs hf ((PresentedGroup.mk _ (xg ds p.2.1 p.2.2))⁻¹) = PresentedGroup.of g := by
          rw [map_inv, phi_xg, valM_of_facet hfac]
          unfold valW
          rw [h1, hdenn, map_inv, inv_inv]
          rfl
        rw [← this]
        exact ⟨_, rfl⟩
      · have h1 := (hw.1 hm).1
        have : phi hs hf (PresentedGroup.mk _ (xg ds p.2.1 p.2.2)) = PresentedGroup.of g := by
          rw [phi_xg, valM_of_facet hfac]
          unfold valW
          rw [h1, hden]
          rfl
        rw [← this]
        exact ⟨_, rfl⟩
  exact this

end phi

end DSymVerif.FGP
