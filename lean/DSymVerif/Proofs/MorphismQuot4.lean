/-
Helper lemmas for property C04, part 13: assembly of `minimal_image`.
-/
import DSymVerif.Proofs.MorphismQuot3
import DSymVerif.Proofs.MorphismUF

namespace DSymVerif.Mor
open DSymVerif.DS

/-- `Q` is the coarsest degree-respecting congruence of `s` -/
structure IsCoarsest (s : MV) (Q : Nat → Nat) : Prop where
  cong : Cong s Q
  max : ∀ c : Nat → Nat, Cong s c → ∀ x y, InR s x → InR s y → c x = c y → Q x = Q y

/-- the non-minimal branch of `minimal_image`, unfolded -/
theorem minimalImage_eq_of (ds : DSymData) {q : UF} {st : NumState} {qs : DSetData}
    (h1 : isMinimalUF (ofSym ds) = .ok false)
    (h2 : foldAllUF (ofSym ds) ((ofSym ds).elements.drop 1) UF.new = .ok q)
    (h3 : numberLoopUF q (ofSym ds).elements
      { src2img := Array.replicate (ds.size + 1) 0, img2src := Array.replicate (ds.size + 1) 0, next := 1 }
      = .ok st)
    (h4 : ¬ st.next < 1) (h5 : closuresInRange ds st = true)
    (h6 : buildSet (st.next - 1) ds.dim
      (fun i d => (ds.op i (st.img2src.getD d 0)).map (fun e => st.src2img.getD e 0)) = .ok qs) :
    minimalImage ds = buildSymUsingMs qs (fun i d => ds.mAdj i (st.img2src.getD d 0)) := by
  unfold minimalImage
  simp only [h1, h2, h3, h4, h5, h6, if_false, Bool.not_true, Bool.false_eq_true]

theorem closuresInRange_ok (ds : DSymData) (hs : ValidSet ds.dset) {p : Part} {st : NumState}
    (inv : NInv ds.size p ds.size st) : closuresInRange ds st = true := by
  unfold closuresInRange
  simp only [List.all_eq_true, List.mem_range]
  intro i hi d0 hd0
  have hnx := inv.nx
  have hi0 : i < ds.dim + 1 := hi
  have hd00 : d0 < st.next - 1 := hd0
  have r := inv.rep (d0 + 1) (by omega) (by omega)
  have hlt : d0 + 1 < st.img2src.size := by rw [inv.sz2]; have := r.1; omega
  have hget : st.img2src[d0 + 1]? = some (st.img2src.getD (d0 + 1) 0) := by
    simp [Array.getD_eq_getD_getElem?, Array.getElem?_eq_getElem hlt]
  rw [hget]
  simp only
  have hi' : i ≤ ds.dset.dim := Nat.le_of_lt_succ hi0
  have hop : ds.op i (st.img2src.getD (d0 + 1) 0) = some (ds.dset.opU i (st.img2src.getD (d0 + 1) 0)) :=
    opSimple_of_range (t := ds.dset) hi' r.1.1 r.1.2
  rw [hop]
  simp only [decide_eq_true_eq]
  have := hs.range i _ hi' r.1.1 r.1.2
  rw [inv.sz1]
  have : ds.dset.opU i (st.img2src.getD (d0 + 1) 0) ≤ ds.size := this.2
  omega

/-- **`minimal_image` on a connected valid symbol**: it returns a valid symbol `c` together with a
    surjective morphism `π : ds → c`, `π 1 = 1`, whose kernel is the coarsest degree-respecting
    congruence `Q` of `ds` -/
theorem minimalImage_ok (ds : DSymData) (hs : ValidSym ds) (hsz : 1 ≤ ds.size) (hdim : 1 ≤ ds.dim)
    (hconn : Connected (ofSym ds)) :
    ∃ c π Q, minimalImage ds = .ok c ∧ ValidSym c ∧ 1 ≤ c.size ∧ SymMor ds c π ∧ Surj ds c π ∧
      π 1 = 1 ∧ IsCoarsest (ofSym ds) Q ∧
      ∀ d d', 1 ≤ d → d ≤ ds.size → 1 ≤ d' → d' ≤ ds.size → (π d = π d' ↔ Q d = Q d') := by
  obtain ⟨hR, hP, hC, hI⟩ := ofSym_validSet ds hs.set
  have hsz' : 1 ≤ (ofSym ds).size := hsz
  obtain ⟨q, hq, hcg, hmax⟩ := foldAll_coarsest (ofSym ds) hR hC hI hconn hsz'
  have hcoarse : IsCoarsest (ofSym ds) q.find := ⟨hcg, hmax⟩
  obtain ⟨b, hb⟩ := isMinimal_total (ofSym ds) hR hsz'
  cases b with
  | true =>
    refine ⟨ds, fun d => d, q.find, ?_, hs, hsz, SymMor.id ds, fun k h1 h2 => ⟨k, h1, h2, rfl⟩, rfl,
      hcoarse, fun d d' hd1 hd2 hd1' hd2' => ⟨fun h => by have h' : d = d' := h; rw [h'], fun h => ?_⟩⟩
    · unfold minimalImage
      simp only [isMinimalUF_eq, hb]
      exact asPartialDSym_self ds hs.toValidTables hsz hdim
    · have hno := (isMinimal_spec (ofSym ds) hR hC hsz' true hb).1 rfl
      apply cong_trivial_of_class_one (ofSym ds) hR hC hI hconn q.find hcg.closed ?_ d d'
        ⟨hd1, hd2⟩ ⟨hd1', hd2'⟩ h
      intro e he h1e
      by_cases he1 : e = 1
      · exact he1
      · exact (hno ⟨e, q.find, by have := he.1; omega, he.2, hcg.closed, hcg.deg, h1e⟩).elim
  | false =>
    have hds : ∀ d, d ∈ (ofSym ds).elements.drop 1 → InR (ofSym ds) d := fun d hd => by
      have := (mem_elements_drop (ofSym ds) d).1 hd
      exact ⟨by omega, this.2⟩
    -- the union–find run of the same loop: same classes, representatives inside 1..size
    have hsim := foldAllUF_sim (ofSym ds) ((ofSym ds).elements.drop 1) UF.new Part.new Sim.new
    rw [hq] at hsim
    obtain ⟨g, hg, hgq⟩ := hsim.ok_right
    obtain ⟨_, hgr⟩ := foldAllUF_range (ofSym ds) hR hsz' _ UF.new g hds DSymVerif.PartP.gwf_new
      (GR.new _) hg
    have hpinv := tableOf_pinv (ofSym ds) hgq.wf hgr
    obtain ⟨st, hst0, inv⟩ := numberLoop_spec (ofSym ds) (tableOf (ofSym ds).size (DSymVerif.PartP.grep g)) hpinv
    have hst : numberLoopUF g (ofSym ds).elements
        { src2img := Array.replicate (ds.size + 1) 0, img2src := Array.replicate (ds.size + 1) 0, next := 1 }
        = .ok st := by
      rw [numberLoopUF_eq (ofSym ds).size _ g g _ hgq.wf (fun _ => rfl) (fun d hd => by
        rw [elements_eq_range', List.mem_range'_1] at hd; omega)]
      exact hst0
    have inv' : NInv ds.size (tableOf (ofSym ds).size (DSymVerif.PartP.grep g)) ds.size st := inv
    obtain ⟨hN0, hnext⟩ := inv'.numbering hsz
    -- the numbering is one of the classes of `q` (same classes as the union–find)
    have hN : Numbering ds.size q.find (fun d => st.src2img.getD d 0) (fun k => st.img2src.getD k 0)
        (st.next - 1) := by
      refine ⟨hN0.range, fun d d' hd1 hd2 hd1' hd2' => ?_, hN0.rep, hN0.one⟩
      rw [hN0.iff d d' hd1 hd2 hd1' hd2', tableOf_find, tableOf_find,
        if_pos (show d ≤ (ofSym ds).size from hd2), if_pos (show d' ≤ (ofSym ds).size from hd2')]
      exact hgq.ker d d'
    have hK : 1 ≤ st.next - 1 := by omega
    have hop : ∀ i k, i ≤ ds.dim → 1 ≤ k → k ≤ st.next - 1 →
        (fun i d => (ds.op i (st.img2src.getD d 0)).map (fun e => st.src2img.getD e 0)) i k =
          some ((fun d => st.src2img.getD d 0) (ds.dset.opU i ((fun k => st.img2src.getD k 0) k))) := by
      intro i k hi hk1 hk2
      have r := (hN.rep k hk1 hk2).1
      have : ds.op i (st.img2src.getD k 0) = some (ds.dset.opU i (st.img2src.getD k 0)) :=
        opSimple_of_range (t := ds.dset) hi r.1 r.2
      simp only [this, Option.map_some]
    have hm : ∀ i k, i < ds.dim → 1 ≤ k → k ≤ st.next - 1 →
        (fun i d => ds.mAdj i (st.img2src.getD d 0)) i k =
          some (ds.mVal i ((fun k => st.img2src.getD k 0) k)) := by
      intro i k hi hk1 hk2
      have r := (hN.rep k hk1 hk2).1
      exact hs.toValidTables.mAdj_eq hi r.1 r.2
    obtain ⟨qs, c, hqs, hc, hcv, hcsize, hcdim, hconj, hdeg⟩ :=
      quotient_ok hs hcg hN hK hdim hop hm
    refine ⟨c, fun d => st.src2img.getD d 0, q.find, ?_, hcv, by rw [hcsize]; exact hK,
      ⟨hconj, hdeg⟩, fun k hk1 hk2 => ?_, hN.one, hcoarse,
      fun d d' hd1 hd2 hd1' hd2' => hN.iff d d' hd1 hd2 hd1' hd2'⟩
    · rw [minimalImage_eq_of ds (by rw [isMinimalUF_eq]; exact hb) hg hst (by omega)
        (closuresInRange_ok ds hs.set inv') hqs]
      exact hc
    · rw [hcsize] at hk2
      have r := hN.rep k hk1 hk2
      exact ⟨_, r.1.1, r.1.2, r.2⟩

end DSymVerif.Mor
