/-
Helper lemmas for property C02, part 10: the conversions of derived.rs
(`as_dset`, `as_dsym`, `as_partial_dsym`) as the driver models them
(`buildSet`, `buildSymUsingVs … (fun _ _ => some 1)`, `asPartialDSym`).
Built on the `build_set` / `build_sym_using_vs` lemmas of Proofs/BuildSet.lean,
Proofs/CoversSym.lean, Proofs/Covers.lean.
-/
import DSymVerif.Proofs.Covers
import DSymVerif.Proofs.DSetSym

namespace DSymVerif.DS

/-- `as_dset(ds) = ds` (same stored value) for a complete involutive D-set, whichever
    representation's `op` is copied -/
theorem asDset_self (s : DSetData) (h : ValidSet s) (hsz : 1 ≤ s.size) (hdim : 1 ≤ s.dim) :
    buildSet s.size s.dim s.opSimple = .ok s ∧ buildSet s.size s.dim s.opPartial = .ok s := by
  have key : buildSet s.size s.dim s.opSimple = .ok s := by
    obtain ⟨ds, hb, hsize, hdim', hvalid, hop⟩ :=
      buildSet_of_total_involution (op := s.opSimple) (f := s.opU) hsz hdim
        (fun i d hi h1 h2 => opSimple_eq_some.2 ⟨hi, h1, h2, rfl⟩)
        (fun i d hi h1 h2 => h.range i d hi h1 h2)
        (fun i d hi h1 h2 => h.invol i d hi h1 h2)
    have hds : ds = s :=
      DSetData.ext_of_opU hsize hdim' hvalid.size_eq h.size_eq
        (fun i d hi h1 h2 => hop i d (by rw [← hdim']; exact hi) h1 (by rw [← hsize]; exact h2))
    rw [hb, hds]
  exact ⟨key, by rw [h.opPartial_eq_opSimple]; exact key⟩

/-- `as_dsym(ds)`: the symbol over the same D-set with valid tables and all adjacent
    branching numbers 1 -/
theorem asDsym_spec (ds : DSetData) (h : ValidSet ds) :
    ∃ z, buildSymUsingVs ds (fun _ _ => some 1) = .ok z ∧ z.dset = ds ∧ ValidTables z ∧
      ∀ i d, i < ds.dim → 1 ≤ d → d ≤ ds.size → z.vPartial i (i + 1) d = .ok (some 1) := by
  obtain ⟨vs, hv, hvs, hdone⟩ := buildSymUsingVs_ok (ds := ds) h
    (v := fun _ _ => some 1) (V := fun _ _ => 1) (fun _ _ _ _ _ => rfl) (fun _ _ _ _ _ _ _ => rfl)
  have hT : ValidTables ((DSymData.ofSimple ds).withVs vs) := (ValidTables.ofSimple h).withVs hvs
  refine ⟨_, hv, rfl, hT, ?_⟩
  intro i d hi h1 h2
  rw [hT.vPartial_adj (s := (DSymData.ofSimple ds).withVs vs) hi h1 h2]
  have := hdone i d hi h1 h2
  show Outcome.ok (some (vs.getD ((DSymData.ofSimple ds).ixAt i d) 0)) = _
  rw [this]

end DSymVerif.DS
