/-
Helper lemmas for property C03, part 7: the code determines the rebuilt symbol.

The buffer written by `TraversalCode` (`encode`) can be parsed back: the first integer of a
chunk tells whether it is a seed chunk or an edge chunk, the target's number tells whether the
`dim` branching numbers follow.  Two seeds of one symbol with equal codes therefore report
item lists that correspond item by item under their element maps (`encode_inj`), the induced
map `σ = map'⁻¹ ∘ map` of the chambers is an automorphism of the symbol (every (chamber, index)
pair occurs in an item, every chamber is new in some item), and `rebuild_iso_eq` turns that
into equality of the two rebuilt symbols.
-/
import DSymVerif.Proofs.CanonicalSeeds

namespace DSymVerif.DS
namespace CanonP

open View

/-- the two item lists correspond item by item under the numberings `m`, `m'` -/
def Matched (m m' : Nat → Nat) (v : Nat → Nat → Option Nat) (dim : Nat) :
    List TravItem → List TravItem → List Nat → List Nat → Prop
  | [], [], _, _ => True
  | it :: r, it' :: r', T, T' =>
    it.1 = it'.1 ∧ m it.2.1 = m' it'.2.1 ∧ m it.2.2 = m' it'.2.2 ∧
    (it.2.2 ∉ T → vrow v dim it.2.2 = vrow v dim it'.2.2) ∧
    Matched m m' v dim r r' (addT T it.2.2) (addT T' it'.2.2)
  | [], _ :: _, _, _ => False
  | _ :: _, [], _, _ => False

theorem hdr_ne_nil (m : Nat → Nat) (it : TravItem) : hdr m it ≠ [] := by
  obtain ⟨mi, x, y⟩ := it
  cases mi <;> simp [hdr]

theorem hdr_split {m m' : Nat → Nat} {it it' : TravItem} {X X' : List Int}
    (h : hdr m it ++ X = hdr m' it' ++ X') :
    it.1 = it'.1 ∧ m it.2.1 = m' it'.2.1 ∧ (it.1 ≠ none → m it.2.2 = m' it'.2.2) ∧ X = X' := by
  obtain ⟨mi, x, y⟩ := it
  obtain ⟨mi', x', y'⟩ := it'
  show mi = mi' ∧ m x = m' x' ∧ (mi ≠ none → m y = m' y') ∧ X = X'
  cases mi with
  | none =>
    cases mi' with
    | none =>
      simp only [hdr, List.cons_append, List.nil_append, List.cons.injEq, true_and] at h
      exact ⟨rfl, by omega, fun hc => absurd rfl hc, h.2⟩
    | some i' =>
      simp only [hdr, List.cons_append, List.nil_append, List.cons.injEq] at h
      omega
  | some i =>
    cases mi' with
    | none =>
      simp only [hdr, List.cons_append, List.nil_append, List.cons.injEq] at h
      omega
    | some i' =>
      simp only [hdr, List.cons_append, List.nil_append, List.cons.injEq] at h
      refine ⟨by congr 1; omega, by omega, fun _ => by omega, h.2.2.2⟩

/-- **the code can be parsed back** -/
theorem encode_inj {m m' : Nat → Nat} {v : Nat → Nat → Option Nat} {dim : Nat} {Tf Tf' : List Nat}
    (minj' : ∀ x ∈ Tf', ∀ y ∈ Tf', m' x = m' y → x = y)
    (minj : ∀ x ∈ Tf, ∀ y ∈ Tf, m x = m y → x = y) :
    ∀ (L L' : List TravItem) (T T' : List Nat),
      (∀ it ∈ L, (it.1 = none → it.2.2 = it.2.1) ∧ it.2.2 ∈ Tf) →
      (∀ it ∈ L', (it.1 = none → it.2.2 = it.2.1) ∧ it.2.2 ∈ Tf') →
      (∀ y ∈ Tf, ∀ y' ∈ Tf', m y = m' y' → (y ∈ T ↔ y' ∈ T')) →
      encode m v dim L T = encode m' v dim L' T' →
      Matched m m' v dim L L' T T'
  | [], [], _, _, _, _, _, _ => trivial
  | [], it' :: r', T, T', _, _, _, h => by
    exfalso
    rw [encode, encode] at h
    have := congrArg List.length h
    have hne := hdr_ne_nil m' it'
    simp only [List.length_nil, List.length_append] at this
    have : (hdr m' it').length = 0 := by omega
    exact hne (List.eq_nil_of_length_eq_zero this)
  | it :: r, [], T, T', _, _, _, h => by
    exfalso
    rw [encode, encode] at h
    have := congrArg List.length h
    have hne := hdr_ne_nil m it
    simp only [List.length_nil, List.length_append] at this
    have : (hdr m it).length = 0 := by omega
    exact hne (List.eq_nil_of_length_eq_zero this)
  | it :: r, it' :: r', T, T', hL, hL', hJ, h => by
    rw [encode, encode, List.append_assoc, List.append_assoc] at h
    obtain ⟨h1, h2, h3, hX⟩ := hdr_split h
    have hit := hL it (List.mem_cons_self ..)
    have hit' := hL' it' (List.mem_cons_self ..)
    have hmt : m it.2.2 = m' it'.2.2 := by
      cases hmi : it.1 with
      | none =>
        have hmi' : it'.1 = none := by rw [← h1]; exact hmi
        rw [hit.1 hmi, hit'.1 hmi']; exact h2
      | some i => exact h3 (by rw [hmi]; simp)
    have hflag : it.2.2 ∈ T ↔ it'.2.2 ∈ T' := hJ _ hit.2 _ hit'.2 hmt
    have hJ' : ∀ y ∈ Tf, ∀ y' ∈ Tf', m y = m' y' → (y ∈ addT T it.2.2 ↔ y' ∈ addT T' it'.2.2) := by
      intro y hy y' hy' hyy
      rw [mem_addT, mem_addT]
      constructor
      · rintro (hm | rfl)
        · exact Or.inl ((hJ y hy y' hy' hyy).1 hm)
        · exact Or.inr (minj' _ hy' _ hit'.2 (by rw [← hyy, hmt]))
      · rintro (hm | rfl)
        · exact Or.inl ((hJ y hy y' hy' hyy).2 hm)
        · exact Or.inr (minj _ hy _ hit.2 (by rw [hyy, hmt]))
    have hrec := encode_inj (v := v) (dim := dim) minj' minj r r' (addT T it.2.2) (addT T' it'.2.2)
      (fun x hx => hL x (List.mem_cons_of_mem _ hx)) (fun x hx => hL' x (List.mem_cons_of_mem _ hx)) hJ'
    by_cases hmem : it.2.2 ∈ T
    · have hmem' := hflag.1 hmem
      rw [if_pos hmem, if_pos hmem', List.nil_append, List.nil_append] at hX
      exact ⟨h1, h2, hmt, fun hc => absurd hmem hc, hrec hX⟩
    · have hmem' : it'.2.2 ∉ T' := fun hc => hmem (hflag.2 hc)
      rw [if_neg hmem, if_neg hmem'] at hX
      have hlen : (vrow v dim it.2.2).length = (vrow v dim it'.2.2).length := by simp [vrow]
      obtain ⟨e1, e2⟩ := List.append_inj hX hlen
      exact ⟨h1, h2, hmt, fun _ => e1, hrec e2⟩

theorem Matched.items {m m' : Nat → Nat} {v : Nat → Nat → Option Nat} {dim : Nat} :
    ∀ (L L' : List TravItem) (T T' : List Nat), Matched m m' v dim L L' T T' →
      ∀ it ∈ L, ∃ it' ∈ L', it.1 = it'.1 ∧ m it.2.1 = m' it'.2.1 ∧ m it.2.2 = m' it'.2.2
  | [], _, _, _, _ => fun _ h => by cases h
  | it :: r, [], _, _, h => by cases h
  | it :: r, it' :: r', T, T', h => by
    obtain ⟨h1, h2, h3, _, hrec⟩ := h
    intro x hx
    rcases List.mem_cons.1 hx with rfl | hx
    · exact ⟨it', List.mem_cons_self .., h1, h2, h3⟩
    · obtain ⟨x', hx', hh⟩ := Matched.items r r' _ _ hrec x hx
      exact ⟨x', List.mem_cons_of_mem _ hx', hh⟩

theorem Matched.fresh {m m' : Nat → Nat} {v : Nat → Nat → Option Nat} {dim : Nat} :
    ∀ (L L' : List TravItem) (T T' : List Nat), Matched m m' v dim L L' T T' →
      ∀ y ∈ targetsOf L T, y ∉ T →
        ∃ it' ∈ L', m y = m' it'.2.2 ∧ vrow v dim y = vrow v dim it'.2.2
  | [], _, T, _, _ => fun y hy hn => by rw [targetsOf] at hy; exact absurd hy hn
  | it :: r, [], _, _, h => by cases h
  | it :: r, it' :: r', T, T', h => by
    obtain ⟨_, _, h3, h4, hrec⟩ := h
    intro y hy hn
    rw [targetsOf] at hy
    by_cases hy1 : y ∈ addT T it.2.2
    · rcases mem_addT.1 hy1 with h | rfl
      · exact absurd h hn
      · exact ⟨it', List.mem_cons_self .., h3, h4 hn⟩
    · obtain ⟨x', hx', hh⟩ := Matched.fresh r r' _ _ hrec y hy hy1
      exact ⟨x', List.mem_cons_of_mem _ hx', hh⟩

theorem vrow_eq {v : Nat → Nat → Option Nat} {dim y y' : Nat} (h : vrow v dim y = vrow v dim y') :
    ∀ i, i < dim → (v i y).getD 0 = (v i y').getD 0 := by
  intro i hi
  unfold vrow at h
  have := (List.map_inj_left.1 h) i (List.mem_range.2 hi)
  omega

/-- **the code determines the rebuilt symbol**: two seeds of a connected valid symbol with equal
    codes rebuild literally the same symbol -/
theorem codeDeterminesSymbol {a : DSymData} (ha : ValidSym a) (hc : Conn a) :
    CodeDeterminesSymbol a := by
  intro d d' c c' hd1 hd2 hd1' hd2' hcd hcd' hcode
  have F := travFacts ha hc hd1 hd2
  have F' := travFacts ha hc hd1' hd2'
  obtain ⟨c0, e0, hc2, hc3, hc4⟩ := seed_code ha rfl F
  obtain ⟨c0', e0', hc2', hc3', hc4'⟩ := seed_code ha rfl F'
  rw [hcd] at e0; cases e0
  rw [hcd'] at e0'; cases e0'
  generalize hL : a.view.traversal a.view.indices [d] = L at F hc2 hc4
  generalize hL' : a.view.traversal a.view.indices [d'] = L' at F' hc2' hc4'
  have hm := seed_perm F hc3 hc4
  have hm' := seed_perm F' hc3' hc4'
  obtain ⟨_, hTf⟩ := targets_length F
  obtain ⟨_, hTf'⟩ := targets_length F'
  -- parse the two codes against each other
  have hmatch : Matched (numOf (targetsOf L [])) (numOf (targetsOf L' [])) a.vAdj a.dim L L' [] [] := by
    apply encode_inj (Tf := targetsOf L []) (Tf' := targetsOf L' [])
    · intro x hx y hy h; exact numOf_inj hx hy h
    · intro x hx y hy h; exact numOf_inj hx hy h
    · intro it hit
      refine ⟨?_, (hTf _).2 (F.range it hit).2⟩
      intro hn
      obtain ⟨E, hE, hedges⟩ := F.shape
      rw [hE] at hit
      rcases List.mem_cons.1 hit with rfl | h
      · rfl
      · obtain ⟨k, hk⟩ := hedges it h; rw [hk] at hn; cases hn
    · intro it hit
      refine ⟨?_, (hTf' _).2 (F'.range it hit).2⟩
      intro hn
      obtain ⟨E, hE, hedges⟩ := F'.shape
      rw [hE] at hit
      rcases List.mem_cons.1 hit with rfl | h
      · rfl
      · obtain ⟨k, hk⟩ := hedges it h; rw [hk] at hn; cases hn
    · intro y _ y' _ _; simp
    · rw [← hc2, ← hc2']; exact hcode
  -- the induced chamber map σ = map'⁻¹ ∘ map
  obtain ⟨g', _, _, hgf', hfg'⟩ := invertMap_spec hm'
  have hσ : ∀ y y', (1 ≤ y ∧ y ≤ a.size) → (1 ≤ y' ∧ y' ≤ a.size) →
      numOf (targetsOf L []) y = numOf (targetsOf L' []) y' → g'.getD (c.map.getD y 0) 0 = y' := by
    intro y y' hy hy' h
    rw [hc4 y hy.2, h, ← hc4' y' hy'.2, hgf' y' hy'.1 hy'.2]
  have hσr : ∀ y, 1 ≤ y → y ≤ a.size →
      (1 ≤ g'.getD (c.map.getD y 0) 0 ∧ g'.getD (c.map.getD y 0) 0 ≤ a.size) ∧
      c'.map.getD (g'.getD (c.map.getD y 0) 0) 0 = c.map.getD y 0 := by
    intro y h1 h2
    have r := hm.range y h1 h2
    exact hfg' _ r.1 r.2
  -- items correspond under σ
  have hitems : ∀ it ∈ L, ∃ it' ∈ L', it'.1 = it.1 ∧
      it'.2.1 = g'.getD (c.map.getD it.2.1 0) 0 ∧ it'.2.2 = g'.getD (c.map.getD it.2.2 0) 0 := by
    intro it hit
    obtain ⟨it', hit', h1, h2, h3⟩ := Matched.items L L' [] [] hmatch it hit
    have r := F.range it hit
    have r' := F'.range it' hit'
    exact ⟨it', hit', h1.symm, (hσ _ _ r.1 r'.1 h2).symm, (hσ _ _ r.2 r'.2 h3).symm⟩
  have iso : IsIso (fun y => g'.getD (c.map.getD y 0) 0) a a := by
    refine ⟨rfl, rfl, fun y h1 h2 => (hσr y h1 h2).1, ?_, ?_, ?_⟩
    · intro y e hy1 hy2 he1 he2 hye
      have e1 := (hσr y hy1 hy2).2
      have e2 := (hσr e he1 he2).2
      rw [hye, e2] at e1
      exact (hm.inj y e hy1 hy2 he1 he2 e1.symm)
    · -- operations
      intro k y hk hy1 hy2
      have hopy : a.op k y = some (a.dset.opU k y) := opSimple_inR hk hy1 hy2
      rw [hopy]
      show a.dset.opSimple k _ = some _
      have rσ := (hσr y hy1 hy2).1
      rw [opSimple_inR hk rσ.1 rσ.2]
      congr 1
      obtain ⟨w, hw, hwk, hwy⟩ := F.cover y hy1 hy2 k hk
      obtain ⟨_, hwt⟩ := F.edge w hw k hwk
      obtain ⟨w', hw', hw1, hw2, hw3⟩ := hitems w hw
      obtain ⟨_, hwt'⟩ := F'.edge w' hw' k (by rw [hw1]; exact hwk)
      -- σ (op k w.src) = op k (σ w.src)
      have key : g'.getD (c.map.getD (a.dset.opU k w.2.1) 0) 0 =
          a.dset.opU k (g'.getD (c.map.getD w.2.1 0) 0) := by
        rw [← hwt, ← hw3, hwt', hw2]
      rcases hwy with h | h
      · rw [← h]; exact key.symm
      · -- y = w.tgt = op k w.src
        have rw1 := (F.range w hw).1
        have hinv : a.dset.opU k y = w.2.1 := by
          rw [← h, hwt]; exact ha.set.invol k _ hk rw1.1 rw1.2
        rw [hinv, ← h, hwt, key]
        have rs := (hσr w.2.1 rw1.1 rw1.2).1
        exact ha.set.invol k _ hk rs.1 rs.2
    · -- branching numbers
      intro i y hi hy1 hy2
      have hyT : y ∈ targetsOf L [] := (hTf y).2 ⟨hy1, hy2⟩
      obtain ⟨it', hit', h1, h2⟩ := Matched.fresh L L' [] [] hmatch y hyT (by simp)
      have r' := F'.range it' hit'
      have hy' : g'.getD (c.map.getD y 0) 0 = it'.2.2 := hσ y _ ⟨hy1, hy2⟩ r'.2 h1
      show a.vAdj i (g'.getD (c.map.getD y 0) 0) = a.vAdj i y
      rw [hy']
      have hv := vrow_eq h2 i hi
      obtain ⟨x, hx⟩ := vAdj_some ha hi hy1 hy2
      obtain ⟨x', hx'⟩ := vAdj_some ha hi r'.2.1 r'.2.2
      rw [hx, hx'] at hv ⊢
      simp only [Option.getD_some] at hv
      rw [hv]
  have := rebuild_iso_eq ha iso hm hm' (fun y h1 h2 => (hσr y h1 h2).2)
  exact this.symm

/-- `Conn` is what `is_connected()` computes -/
theorem conn_iff_isConnected {a : DSymData} (ha : ValidSet a.dset) :
    Conn a ↔ a.view.isConnected = true := by
  have hP : a.view.PInvol := by rw [a.view_eq]; exact ha.pinvol
  exact (DSymVerif.C02.isConnected_iff a.view hP).symm

/-- connectedness is transported by isomorphisms -/
theorem Conn.iso {f : Nat → Nat} {a b : DSymData} (ha : ValidSet a.dset) (iso : IsIso f a b)
    (hc : Conn a) (hPb : b.view.PInvol) : Conn b := by
  have hPa : a.view.PInvol := by rw [a.view_eq]; exact ha.pinvol
  have hidx : b.view.indices = a.view.indices := by
    unfold View.indices
    show List.range (b.dim + 1) = List.range (a.dim + 1)
    rw [iso.dim]
  -- reachability is transported
  have htr : ∀ d e, (1 ≤ d ∧ d ≤ a.size) → a.view.Reach a.view.indices d e →
      b.view.Reach b.view.indices (f d) (f e) := by
    intro d e hd hr
    induction hr with
    | refl => exact View.Reach.refl _
    | @step e c i hr' hi hop ih =>
      have he := reach_range hPa hd hr'
      have hi' : i ≤ a.dim := (mem_indices a.view i).1 hi
      have : b.view.op i (f e) = some (f c) := by
        show b.op i (f e) = _
        rw [iso.op i e hi' he.1 he.2]
        show (a.view.op i e).map f = _
        rw [hop]; rfl
      exact View.Reach.step ih (by rw [hidx]; exact hi) this
  intro y hy1 hy2
  rw [iso.size] at hy2
  obtain ⟨x, hx1, hx2, rfl⟩ := surj_of_inj iso.range iso.inj y hy1 hy2
  obtain ⟨x1, hx11, hx12, hx1e⟩ := surj_of_inj iso.range iso.inj 1 (Nat.le_refl 1) (by omega)
  have h1 : 1 ≤ a.size := by omega
  have r1 := htr 1 x1 ⟨Nat.le_refl 1, h1⟩ (hc x1 hx11 hx12)
  have r2 := htr 1 x ⟨Nat.le_refl 1, h1⟩ (hc x hx1 hx2)
  rw [hx1e] at r1
  exact (r1.symm hPb).trans r2

end CanonP
end DSymVerif.DS
