/-
Helper lemmas for property C03, part 1: the constructors used by `canonical`.

* `orbitReps2d_cover`     — `orbit_reps_2d(i, j)` returns chambers in range, at least one in
                            every ⟨s_i, s_j⟩-orbit.
* `buildSymUsingVs_spec`  — on a valid D-set and a branching function that is constant on
                            (i,i+1)-orbits, `build_sym_using_vs` returns a valid symbol whose
                            adjacent `v` answers are exactly that function.
* `invertMap_spec`, `surj_of_inj` — the `img2src` loop of `canonical`.
* `rebuild_spec`          — the tail of `canonical` through a bijective chamber map returns
                            a valid symbol whose operations are the conjugated operations and
                            whose branching numbers are the transported ones.
-/
import DSymVerif.Proofs.DSetSym
import DSymVerif.Proofs.BuildSet
import DSymVerif.Model.Canonical
import Mathlib.Order.Interval.Finset.Nat

namespace DSymVerif.DS
namespace CanonP

/-! ### `orbit_reps_2d` -/

theorem opSimple_inR {s : DSetData} {i d : Nat} (hi : i ≤ s.dim) (h1 : 1 ≤ d) (h2 : d ≤ s.size) :
    s.opSimple i d = some (s.opU i d) :=
  opSimple_eq_some.2 ⟨hi, h1, h2, rfl⟩

/-- the inner loop only marks chambers of the orbit it walks along, never unmarks, and keeps
    the length of the marking -/
theorem reps2dLoop_sound {s : DSetData} (h : ValidSet s) {i j : Nat} (hi : i ≤ s.dim) (hj : j ≤ s.dim)
    {d : Nat} (hd : 1 ≤ d ∧ d ≤ s.size) :
    ∀ (fuel e : Nat) (seen : Array Bool), Orb2 s i j d e →
      let res := View.reps2dLoop s.viewSimple i j d fuel e seen
      res.size = seen.size ∧
      (∀ x, seen.getD x false = true → res.getD x false = true) ∧
      (∀ x, res.getD x false = true → seen.getD x false = true ∨ Orb2 s i j d x)
  | 0, e, seen, _ => by
    exact ⟨rfl, fun _ hx => hx, fun _ hx => Or.inl hx⟩
  | fuel + 1, e, seen, ho => by
    have he := Orb2.range h hi hj hd ho
    have hei := h.range i e hi he.1 he.2
    have ho1 : Orb2 s i j d (s.opU i e) := Orb2.stepI ho
    have ho2 : Orb2 s i j d (s.opU j (s.opU i e)) := Orb2.stepJ ho1
    have e1 : (s.viewSimple.op i e).getD e = s.opU i e := by
      show (s.opSimple i e).getD e = _
      rw [opSimple_inR hi he.1 he.2]; rfl
    have e2 : (s.viewSimple.op j (s.opU i e)).getD (s.opU i e) = s.opU j (s.opU i e) := by
      show (s.opSimple j (s.opU i e)).getD _ = _
      rw [opSimple_inR hj hei.1 hei.2]; rfl
    simp only [View.reps2dLoop, e1, e2]
    -- the marking after the two writes
    have key : ∀ x, ((seen.setIfInBounds (s.opU i e) true).setIfInBounds (s.opU j (s.opU i e)) true).getD x false = true →
        seen.getD x false = true ∨ Orb2 s i j d x := by
      intro x hx
      rw [getD_setIfInBounds, getD_setIfInBounds] at hx
      by_cases c1 : s.opU j (s.opU i e) = x
      · subst c1; exact Or.inr ho2
      · rw [if_neg (fun hc => c1 hc.1)] at hx
        by_cases c2 : s.opU i e = x
        · subst c2; exact Or.inr ho1
        · rw [if_neg (fun hc => c2 hc.1)] at hx; exact Or.inl hx
    have mono : ∀ x, seen.getD x false = true →
        ((seen.setIfInBounds (s.opU i e) true).setIfInBounds (s.opU j (s.opU i e)) true).getD x false = true := by
      intro x hx
      rw [getD_setIfInBounds, getD_setIfInBounds]
      split
      · rfl
      · split
        · rfl
        · exact hx
    split
    · exact ⟨by simp, mono, key⟩
    · obtain ⟨r1, r2, r3⟩ := reps2dLoop_sound h hi hj hd fuel (s.opU j (s.opU i e))
        ((seen.setIfInBounds (s.opU i e) true).setIfInBounds (s.opU j (s.opU i e)) true) ho2
      refine ⟨by rw [r1]; simp, fun x hx => r2 x (mono x hx), ?_⟩
      intro x hx
      rcases r3 x hx with h' | h'
      · exact key x h'
      · exact Or.inr h'

/-- accumulator of the outer loop of `orbit_reps_2d` -/
def repsStep (s : View) (i j : Nat) (acc : List Nat × Array Bool) (d : Nat) : List Nat × Array Bool :=
  if acc.2.getD d false then acc
  else (d :: acc.1, View.reps2dLoop s i j d (s.size + 1) d (acc.2.setIfInBounds d true))

theorem orbitReps2d_eq (s : View) (i j : Nat) :
    s.orbitReps2d i j =
      (s.elements.foldl (repsStep s i j) ([], Array.replicate (s.size + 1) false)).1.reverse := rfl

structure RepsInv (s : DSetData) (i j : Nat) (acc : List Nat × Array Bool) : Prop where
  size : acc.2.size = s.size + 1
  range : ∀ r ∈ acc.1, 1 ≤ r ∧ r ≤ s.size
  rep : ∀ x, acc.2.getD x false = true → ∃ r ∈ acc.1, Orb2 s i j r x

theorem repsStep_inv {s : DSetData} (h : ValidSet s) {i j : Nat} (hi : i ≤ s.dim) (hj : j ≤ s.dim)
    {acc : List Nat × Array Bool} (inv : RepsInv s i j acc) {d : Nat} (hd : 1 ≤ d ∧ d ≤ s.size) :
    RepsInv s i j (repsStep s.viewSimple i j acc d) ∧
    (repsStep s.viewSimple i j acc d).2.getD d false = true ∧
    (∀ x, acc.2.getD x false = true → (repsStep s.viewSimple i j acc d).2.getD x false = true) := by
  unfold repsStep
  by_cases hs : acc.2.getD d false = true
  · rw [if_pos hs]; exact ⟨inv, hs, fun _ hx => hx⟩
  · rw [if_neg hs]
    obtain ⟨r1, r2, r3⟩ := reps2dLoop_sound h hi hj hd (s.viewSimple.size + 1) d
      (acc.2.setIfInBounds d true) (Orb2.refl d)
    have hdlt : d < acc.2.size := by rw [inv.size]; omega
    have hset : (acc.2.setIfInBounds d true).getD d false = true := getD_setIfInBounds_self _ _ _ _ hdlt
    refine ⟨⟨?_, ?_, ?_⟩, r2 d hset, ?_⟩
    · show (View.reps2dLoop _ _ _ _ _ _ _).size = _
      rw [r1]; simp [inv.size]
    · intro r hr
      rcases List.mem_cons.1 hr with rfl | hr
      · exact hd
      · exact inv.range r hr
    · intro x hx
      rcases r3 x hx with h' | h'
      · rw [getD_setIfInBounds] at h'
        by_cases c : d = x
        · subst c; exact ⟨d, List.mem_cons_self .., Orb2.refl d⟩
        · rw [if_neg (fun hc => c hc.1)] at h'
          obtain ⟨r, hr, hor⟩ := inv.rep x h'
          exact ⟨r, List.mem_cons_of_mem _ hr, hor⟩
      · exact ⟨d, List.mem_cons_self .., h'⟩
    · intro x hx
      apply r2
      rw [getD_setIfInBounds]
      split
      · rfl
      · exact hx

theorem repsFold_inv {s : DSetData} (h : ValidSet s) {i j : Nat} (hi : i ≤ s.dim) (hj : j ≤ s.dim) :
    ∀ (l : List Nat) (acc : List Nat × Array Bool), (∀ d ∈ l, 1 ≤ d ∧ d ≤ s.size) → RepsInv s i j acc →
      RepsInv s i j (l.foldl (repsStep s.viewSimple i j) acc) ∧
      (∀ d ∈ l, (l.foldl (repsStep s.viewSimple i j) acc).2.getD d false = true) ∧
      (∀ x, acc.2.getD x false = true → (l.foldl (repsStep s.viewSimple i j) acc).2.getD x false = true)
  | [], acc, _, inv => ⟨inv, fun _ hd => (by cases hd), fun _ hx => hx⟩
  | d :: l, acc, hl, inv => by
    obtain ⟨i1, s1, m1⟩ := repsStep_inv h hi hj inv (hl d (List.mem_cons_self ..))
    obtain ⟨i2, s2, m2⟩ := repsFold_inv h hi hj l _ (fun x hx => hl x (List.mem_cons_of_mem _ hx)) i1
    rw [List.foldl_cons]
    refine ⟨i2, ?_, fun x hx => m2 x (m1 x hx)⟩
    intro x hx
    rcases List.mem_cons.1 hx with rfl | hx
    · exact m2 _ s1
    · exact s2 x hx

theorem mem_elements {s : View} {d : Nat} : d ∈ s.elements ↔ 1 ≤ d ∧ d ≤ s.size := by
  unfold View.elements
  simp only [List.mem_map, List.mem_range]
  constructor
  · rintro ⟨a, ha, rfl⟩; omega
  · rintro ⟨h1, h2⟩; exact ⟨d - 1, by omega, by omega⟩

/-- **`orbit_reps_2d` hits every orbit**: its members are chambers, and every chamber lies in
    the ⟨s_i, s_j⟩-orbit of one of them -/
theorem orbitReps2d_cover {s : DSetData} (h : ValidSet s) {i j : Nat} (hi : i ≤ s.dim) (hj : j ≤ s.dim) :
    (∀ r ∈ s.viewSimple.orbitReps2d i j, 1 ≤ r ∧ r ≤ s.size) ∧
    (∀ d, 1 ≤ d → d ≤ s.size → ∃ r ∈ s.viewSimple.orbitReps2d i j, Orb2 s i j r d) := by
  have inv0 : RepsInv s i j ([], Array.replicate (s.viewSimple.size + 1) false) := by
    refine ⟨by simp [DSetData.viewSimple], fun r hr => (by cases hr), ?_⟩
    intro x hx
    rw [getD_replicate] at hx; cases hx
  obtain ⟨inv, seen, _⟩ := repsFold_inv h hi hj s.viewSimple.elements _
    (fun d hd => mem_elements.1 hd) inv0
  rw [orbitReps2d_eq]
  constructor
  · intro r hr; exact inv.range r (List.mem_reverse.1 hr)
  · intro d h1 h2
    obtain ⟨r, hr, hor⟩ := inv.rep d (seen d (mem_elements.2 ⟨h1, h2⟩))
    exact ⟨r, List.mem_reverse.2 hr, hor⟩

/-! ### `build_sym_using_vs` -/

theorem isCompletePartial_of_valid {s : DSetData} (h : ValidSet s) : s.isCompletePartial = true := by
  unfold DSetData.isCompletePartial
  simp only [List.all_eq_true, List.mem_range, bne_iff_ne, ne_eq]
  intro i hi d hd
  have := h.range i (d + 1) (by omega) (by omega) (by omega)
  omega

theorem ofPartial_valid {s : DSetData} (h : ValidSet s) :
    DSymData.ofPartial s = .ok (DSymData.ofSimple s) := by
  unfold DSymData.ofPartial DSetData.toSimple
  rw [if_pos (isCompletePartial_of_valid h)]

/-- `set_v` on a valid symbol writes the orbit's entry and cannot panic -/
theorem setV_valid {s : DSymData} (h : ValidSym s) {i d x : Nat} (hi : i < s.dim) (h1 : 1 ≤ d) (h2 : d ≤ s.size) :
    s.setV i d x = .ok { s with orbitVs := s.orbitVs.setIfInBounds (s.ixAt i d) x } := by
  unfold DSymData.setV
  rw [if_neg (by omega), h.oix_eq hi h2]
  simp only
  rw [if_pos (by rw [h.vs_size]; exact h.ixAt_lt hi h1 h2)]

/-- orbit numbers of different index pairs are different -/
theorem ixAt_ne {s : DSymData} (h : ValidSym s) {i i' x y : Nat} (hne : i ≠ i') (hi : i < s.dim) (hi' : i' < s.dim)
    (hx1 : 1 ≤ x) (hx2 : x ≤ s.size) (hy1 : 1 ≤ y) (hy2 : y ≤ s.size) : s.ixAt i x ≠ s.ixAt i' y := by
  unfold DSymData.ixAt
  rw [h.index_eq]
  rcases Nat.lt_or_gt_of_ne hne with hlt | hgt
  · exact Nat.ne_of_lt (collectOrbits_rows_lt h.set hlt hi' hx1 hx2 hy1 hy2)
  · exact Nat.ne_of_gt (collectOrbits_rows_lt h.set hgt hi hy1 hy2 hx1 hx2)

def vsInner (v : Nat → Nat → Option Nat) (i : Nat) (acc : Outcome DSymData) (d : Nat) : Outcome DSymData :=
  match acc with
  | .ok sym =>
    (match v i d with
     | some x => sym.setV i d x
     | none => .ok sym)
  | o => o

def vsOuter (v : Nat → Nat → Option Nat) (acc : Outcome DSymData) (i : Nat) : Outcome DSymData :=
  match acc with
  | .ok sym => (sym.view.orbitReps2d i (i + 1)).foldl (vsInner v i) (.ok sym)
  | o => o

theorem buildSymUsingVs_eq (dset : DSetData) (v : Nat → Nat → Option Nat) :
    buildSymUsingVs dset v =
      match DSymData.ofPartial dset with
      | .ok sym0 => (List.range sym0.dim).foldl (vsOuter v) (.ok sym0)
      | .err => .err
      | .panic => .panic := rfl

/-- loop invariant: the symbol stays valid over the same D-set and every orbit that contains an
    already processed representative carries its value -/
structure VInv (ds : DSetData) (V : Nat → Nat → Nat) (sym : DSymData) (done : Nat → Nat → Prop) : Prop where
  valid : ValidSym sym
  dset : sym.dset = ds
  vals : ∀ i d, i < ds.dim → 1 ≤ d → d ≤ ds.size → (∃ r, done i r ∧ Orb2 ds i (i + 1) r d) →
    sym.orbitVs.getD (sym.ixAt i d) 0 = V i d

section
variable {ds : DSetData} {v : Nat → Nat → Option Nat} {V : Nat → Nat → Nat}
  (hv : ∀ i d, i < ds.dim → 1 ≤ d → d ≤ ds.size → v i d = some (V i d))
  (hV : ∀ i x y, i < ds.dim → 1 ≤ x → x ≤ ds.size → Orb2 ds i (i + 1) x y → V i x = V i y)
include hv hV

theorem VInv.step {sym : DSymData} {done : Nat → Nat → Prop} (inv : VInv ds V sym done)
    {i r : Nat} (hi : i < ds.dim) (hr : 1 ≤ r ∧ r ≤ ds.size) :
    ∃ sym', vsInner v i (.ok sym) r = .ok sym' ∧
      VInv ds V sym' (fun i' r' => done i' r' ∨ (i' = i ∧ r' = r)) := by
  have hvs := inv.valid
  have hdim : sym.dim = ds.dim := by show sym.dset.dim = _; rw [inv.dset]
  have hsize : sym.size = ds.size := by show sym.dset.size = _; rw [inv.dset]
  have hset : ValidSet ds := by rw [← inv.dset]; exact hvs.set
  unfold vsInner
  simp only [hv i r hi hr.1 hr.2]
  have hsv := setV_valid (x := V i r) hvs (by rw [hdim]; exact hi) hr.1 (by rw [hsize]; exact hr.2)
  rw [hsv]
  refine ⟨_, rfl, ?_, inv.dset, ?_⟩
  · exact hvs.setV hsv
  · intro i' d hi' hd1 hd2 hex
    show (sym.orbitVs.setIfInBounds (sym.ixAt i r) (V i r)).getD (sym.ixAt i' d) 0 = V i' d
    rw [getD_setIfInBounds]
    have hklt : sym.ixAt i r < sym.orbitVs.size := by
      rw [hvs.vs_size]
      exact hvs.ixAt_lt (by rw [hdim]; exact hi) hr.1 (by rw [hsize]; exact hr.2)
    by_cases hk : sym.ixAt i r = sym.ixAt i' d
    · rw [if_pos ⟨hk, hklt⟩]
      have hii : i = i' := by
        by_contra hne
        exact ixAt_ne hvs hne (by rw [hdim]; exact hi) (by rw [hdim]; exact hi') hr.1
          (by rw [hsize]; exact hr.2) hd1 (by rw [hsize]; exact hd2) hk
      subst hii
      have ho : Orb2 sym.dset i (i + 1) r d :=
        (hvs.ixAt_eq_iff (by rw [hdim]; exact hi) hr.1 (by rw [hsize]; exact hr.2) hd1
          (by rw [hsize]; exact hd2)).1 hk
      rw [inv.dset] at ho
      exact hV i r d hi hr.1 hr.2 ho
    · rw [if_neg (fun hc => hk hc.1)]
      obtain ⟨r', hdone, horb⟩ := hex
      rcases hdone with hdone | ⟨rfl, rfl⟩
      · exact inv.vals i' d hi' hd1 hd2 ⟨r', hdone, horb⟩
      · exfalso
        apply hk
        rw [← inv.dset] at horb
        exact (hvs.ixAt_eq_iff (by rw [hdim]; exact hi) hr.1 (by rw [hsize]; exact hr.2) hd1
          (by rw [hsize]; exact hd2)).2 horb

theorem VInv.inner {i : Nat} (hi : i < ds.dim) :
    ∀ (l : List Nat) (sym : DSymData) (done : Nat → Nat → Prop), (∀ r ∈ l, 1 ≤ r ∧ r ≤ ds.size) →
      VInv ds V sym done →
      ∃ sym', l.foldl (vsInner v i) (.ok sym) = .ok sym' ∧
        VInv ds V sym' (fun i' r' => done i' r' ∨ (i' = i ∧ r' ∈ l))
  | [], sym, done, _, inv => by
    refine ⟨sym, rfl, inv.valid, inv.dset, ?_⟩
    intro i' d hi' h1 h2 ⟨r, hd, ho⟩
    rcases hd with hd | hd
    · exact inv.vals i' d hi' h1 h2 ⟨r, hd, ho⟩
    · cases hd.2
  | r :: l, sym, done, hl, inv => by
    obtain ⟨s1, e1, inv1⟩ := inv.step hv hV hi (hl r (List.mem_cons_self ..))
    obtain ⟨s2, e2, inv2⟩ := VInv.inner hi l s1 _ (fun x hx => hl x (List.mem_cons_of_mem _ hx)) inv1
    rw [List.foldl_cons, e1]
    refine ⟨s2, e2, inv2.valid, inv2.dset, ?_⟩
    intro i' d hi' h1 h2 ⟨r', hd, ho⟩
    apply inv2.vals i' d hi' h1 h2
    refine ⟨r', ?_, ho⟩
    rcases hd with hd | ⟨rfl, hd⟩
    · exact Or.inl (Or.inl hd)
    · rcases List.mem_cons.1 hd with rfl | hd
      · exact Or.inl (Or.inr ⟨rfl, rfl⟩)
      · exact Or.inr ⟨rfl, hd⟩

theorem VInv.outer :
    ∀ (is : List Nat) (sym : DSymData) (done : Nat → Nat → Prop), (∀ i ∈ is, i < ds.dim) →
      VInv ds V sym done →
      ∃ sym', is.foldl (vsOuter v) (.ok sym) = .ok sym' ∧
        VInv ds V sym' (fun i' r' => done i' r' ∨ (i' ∈ is ∧ r' ∈ ds.viewSimple.orbitReps2d i' (i' + 1)))
  | [], sym, done, _, inv => by
    refine ⟨sym, rfl, inv.valid, inv.dset, ?_⟩
    intro i' d hi' h1 h2 ⟨r, hd, ho⟩
    rcases hd with hd | hd
    · exact inv.vals i' d hi' h1 h2 ⟨r, hd, ho⟩
    · cases hd.1
  | i :: is, sym, done, his, inv => by
    have hi := his i (List.mem_cons_self ..)
    have hset : ValidSet ds := by rw [← inv.dset]; exact inv.valid.set
    have hview : sym.view = ds.viewSimple := by rw [sym.view_eq, inv.dset]
    have hreps := (orbitReps2d_cover hset (Nat.le_of_lt hi) (show i + 1 ≤ ds.dim from hi)).1
    obtain ⟨s1, e1, inv1⟩ := VInv.inner hv hV hi (ds.viewSimple.orbitReps2d i (i + 1)) sym done hreps inv
    obtain ⟨s2, e2, inv2⟩ := VInv.outer is s1 _ (fun x hx => his x (List.mem_cons_of_mem _ hx)) inv1
    rw [List.foldl_cons]
    have : vsOuter v (.ok sym) i = .ok s1 := by
      unfold vsOuter
      simp only [hview]
      exact e1
    rw [this]
    refine ⟨s2, e2, inv2.valid, inv2.dset, ?_⟩
    intro i' d hi' h1 h2 ⟨r', hd, ho⟩
    apply inv2.vals i' d hi' h1 h2
    refine ⟨r', ?_, ho⟩
    rcases hd with hd | ⟨hd1, hd2⟩
    · exact Or.inl (Or.inl hd)
    · rcases List.mem_cons.1 hd1 with rfl | hd1
      · exact Or.inl (Or.inr ⟨rfl, hd2⟩)
      · exact Or.inr ⟨hd1, hd2⟩

end

/-- **`build_sym_using_vs` stores the given branching numbers.**  On a valid D-set with commuting
    far operations and a branching function `v` that is defined on every chamber and constant on
    (i,i+1)-orbits, no `set_v` panics, the result is a valid symbol over the same D-set, and its
    adjacent `v` answers are exactly the given function. -/
theorem buildSymUsingVs_spec {ds : DSetData} (h : ValidSet ds) (hf : FarCommute ds)
    {v : Nat → Nat → Option Nat} {V : Nat → Nat → Nat}
    (hv : ∀ i d, i < ds.dim → 1 ≤ d → d ≤ ds.size → v i d = some (V i d))
    (hV : ∀ i x y, i < ds.dim → 1 ≤ x → x ≤ ds.size → Orb2 ds i (i + 1) x y → V i x = V i y) :
    ∃ sym, buildSymUsingVs ds v = .ok sym ∧ ValidSym sym ∧ sym.dset = ds ∧
      ∀ i d, i < ds.dim → 1 ≤ d → d ≤ ds.size → sym.vAdj i d = some (V i d) := by
  rw [buildSymUsingVs_eq, ofPartial_valid h]
  simp only
  have inv0 : VInv ds V (DSymData.ofSimple ds) (fun _ _ => False) :=
    ⟨ValidSym.ofSimple h hf, rfl, fun i d _ _ _ ⟨_, hd, _⟩ => hd.elim⟩
  obtain ⟨sym, e, inv⟩ := VInv.outer hv hV (List.range (DSymData.ofSimple ds).dim) _ _
    (fun i hi => by
      have : i < (DSymData.ofSimple ds).dim := List.mem_range.1 hi
      exact this) inv0
  refine ⟨sym, e, inv.valid, inv.dset, ?_⟩
  intro i d hi h1 h2
  have hdim : sym.dim = ds.dim := by show sym.dset.dim = _; rw [inv.dset]
  have hsize : sym.size = ds.size := by show sym.dset.size = _; rw [inv.dset]
  obtain ⟨r, hr, hor⟩ := (orbitReps2d_cover h (Nat.le_of_lt hi) (show i + 1 ≤ ds.dim from hi)).2 d h1 h2
  have hval := inv.vals i d hi h1 h2 ⟨r, Or.inr ⟨List.mem_range.2 hi, hr⟩, hor⟩
  unfold DSymData.vAdj
  rw [inv.valid.vPartial_adj (by rw [hdim]; exact hi) h1 (by rw [hsize]; exact h2), hval]

/-! ### the chamber map and its inverse -/

/-- `f` (a `Vec` of length n+1, entry 0 unused) restricted to 1..n is an injection into 1..n,
    hence a bijection of 1..n (`surj_of_inj`) -/
structure PermOn (n : Nat) (f : Array Nat) : Prop where
  size : f.size = n + 1
  range : ∀ d, 1 ≤ d → d ≤ n → 1 ≤ f.getD d 0 ∧ f.getD d 0 ≤ n
  inj : ∀ d e, 1 ≤ d → d ≤ n → 1 ≤ e → e ≤ n → f.getD d 0 = f.getD e 0 → d = e

/-- pigeonhole: an injection of 1..n into itself is onto -/
theorem surj_of_inj {n : Nat} {f : Nat → Nat}
    (hr : ∀ d, 1 ≤ d → d ≤ n → 1 ≤ f d ∧ f d ≤ n)
    (hi : ∀ d e, 1 ≤ d → d ≤ n → 1 ≤ e → e ≤ n → f d = f e → d = e) :
    ∀ e, 1 ≤ e → e ≤ n → ∃ d, 1 ≤ d ∧ d ≤ n ∧ f d = e := by
  have hsub : (Finset.Icc 1 n).image f ⊆ Finset.Icc 1 n := by
    intro x hx
    obtain ⟨d, hd, rfl⟩ := Finset.mem_image.1 hx
    have := Finset.mem_Icc.1 hd
    exact Finset.mem_Icc.2 (hr d this.1 this.2)
  have hcard : ((Finset.Icc 1 n).image f).card = (Finset.Icc 1 n).card := by
    apply Finset.card_image_of_injOn
    intro a ha b hb hab
    have ha' := Finset.mem_Icc.1 (Finset.mem_coe.1 ha)
    have hb' := Finset.mem_Icc.1 (Finset.mem_coe.1 hb)
    exact hi a b ha'.1 ha'.2 hb'.1 hb'.2 hab
  have heq : (Finset.Icc 1 n).image f = Finset.Icc 1 n :=
    Finset.eq_of_subset_of_card_le hsub (by rw [hcard])
  intro e h1 h2
  have : e ∈ (Finset.Icc 1 n).image f := by rw [heq]; exact Finset.mem_Icc.2 ⟨h1, h2⟩
  obtain ⟨d, hd, rfl⟩ := Finset.mem_image.1 this
  have := Finset.mem_Icc.1 hd
  exact ⟨d, this.1, this.2, rfl⟩

def invStep (src2img : Array Nat) (acc : Outcome (Array Nat)) (d0 : Nat) : Outcome (Array Nat) :=
  match acc with
  | .ok a =>
    (match src2img[d0 + 1]? with
     | some e => if e < a.size then .ok (a.setIfInBounds e (d0 + 1)) else .panic
     | none => .panic)
  | o => o

theorem invertMap_eq (size : Nat) (f : Array Nat) :
    invertMap size f = (List.range size).foldl (invStep f) (.ok (Array.replicate (size + 1) 0)) := rfl

theorem invertMap_prefix {n : Nat} {f : Array Nat} (hf : PermOn n f) :
    ∀ k, k ≤ n → ∃ a, (List.range k).foldl (invStep f) (.ok (Array.replicate (n + 1) 0)) = .ok a ∧
      a.size = n + 1 ∧ ∀ d, 1 ≤ d → d ≤ k → a.getD (f.getD d 0) 0 = d
  | 0, _ => ⟨_, rfl, by simp, fun d h1 h2 => by omega⟩
  | k + 1, hk => by
    obtain ⟨a, ea, sa, ha⟩ := invertMap_prefix hf k (by omega)
    rw [List.range_succ, List.foldl_append, ea]
    have hfk : f[k + 1]? = some (f.getD (k + 1) 0) :=
      getElem?_eq_some_getD f (k + 1) 0 (by rw [hf.size]; omega)
    have hr := hf.range (k + 1) (by omega) hk
    simp only [List.foldl_cons, List.foldl_nil, invStep, hfk]
    rw [if_pos (by rw [sa]; omega)]
    refine ⟨_, rfl, by simp [sa], ?_⟩
    intro d h1 h2
    rw [getD_setIfInBounds]
    by_cases hd : d = k + 1
    · subst hd; rw [if_pos ⟨rfl, by rw [sa]; omega⟩]
    · rw [if_neg, ha d h1 (by omega)]
      intro hc
      exact hd (hf.inj (k + 1) d (by omega) hk h1 (by omega) hc.1).symm

/-- the `img2src` loop of `canonical` does not panic on a bijective map and inverts it -/
theorem invertMap_spec {n : Nat} {f : Array Nat} (hf : PermOn n f) :
    ∃ g, invertMap n f = .ok g ∧ g.size = n + 1 ∧
      (∀ d, 1 ≤ d → d ≤ n → g.getD (f.getD d 0) 0 = d) ∧
      (∀ e, 1 ≤ e → e ≤ n → (1 ≤ g.getD e 0 ∧ g.getD e 0 ≤ n) ∧ f.getD (g.getD e 0) 0 = e) := by
  obtain ⟨g, eg, sg, hg⟩ := invertMap_prefix hf n (Nat.le_refl _)
  refine ⟨g, by rw [invertMap_eq]; exact eg, sg, hg, ?_⟩
  intro e h1 h2
  obtain ⟨d, hd1, hd2, rfl⟩ := surj_of_inj (f := fun d => f.getD d 0) hf.range hf.inj e h1 h2
  show (1 ≤ g.getD (f.getD d 0) 0 ∧ g.getD (f.getD d 0) 0 ≤ n) ∧ f.getD (g.getD (f.getD d 0) 0) 0 = f.getD d 0
  rw [hg d hd1 hd2]
  exact ⟨⟨hd1, hd2⟩, rfl⟩

/-! ### the tail of `canonical` -/

/-- **Rebuilding through a bijective chamber map.**  For a valid symbol `s` and a chamber map `f`
    that is a bijection of 1..size, the construction at the end of `canonical`
    (`img2src`, `build_set`, `build_sym_using_vs`) does not panic and returns a valid symbol `c`
    of the same size and dimension with  c.op i (f d) = f (s.op i d)  and  c.v i (f d) = s.v i d. -/
theorem rebuild_spec {s : DSymData} (h : ValidSym s) (hsize : 1 ≤ s.size) (hdim : 1 ≤ s.dim)
    {f : Array Nat} (hf : PermOn s.size f) :
    ∃ c, rebuild s f = .ok c ∧ ValidSym c ∧ c.size = s.size ∧ c.dim = s.dim ∧
      (∀ i d, i ≤ s.dim → 1 ≤ d → d ≤ s.size →
        c.dset.opU i (f.getD d 0) = f.getD (s.dset.opU i d) 0) ∧
      (∀ i d, i < s.dim → 1 ≤ d → d ≤ s.size → c.vAdj i (f.getD d 0) = s.vAdj i d) := by
  obtain ⟨g, eg, _, hgf, hfg⟩ := invertMap_spec hf
  have hs := h.set
  have sdim : s.dset.dim = s.dim := rfl
  have ssize : s.dset.size = s.size := rfl
  -- the conjugated operation
  let F : Nat → Nat → Nat := fun i d => f.getD (s.dset.opU i (g.getD d 0)) 0
  have hop : ∀ i d, i ≤ s.dim → 1 ≤ d → d ≤ s.size →
      (s.op i (g.getD d 0)).map (fun e => f.getD e 0) = some (F i d) := by
    intro i d hi h1 h2
    have hg := (hfg d h1 h2).1
    show (s.dset.opSimple i (g.getD d 0)).map _ = _
    rw [opSimple_inR (by rw [sdim]; exact hi) hg.1 (by rw [ssize]; exact hg.2)]
    rfl
  have hFr : ∀ i d, i ≤ s.dim → 1 ≤ d → d ≤ s.size → 1 ≤ F i d ∧ F i d ≤ s.size := by
    intro i d hi h1 h2
    have hg := (hfg d h1 h2).1
    have ho := hs.range i (g.getD d 0) hi hg.1 hg.2
    exact hf.range _ ho.1 ho.2
  have hgF : ∀ i d, i ≤ s.dim → 1 ≤ d → d ≤ s.size → g.getD (F i d) 0 = s.dset.opU i (g.getD d 0) := by
    intro i d hi h1 h2
    have hg := (hfg d h1 h2).1
    have ho := hs.range i (g.getD d 0) hi hg.1 hg.2
    exact hgf _ ho.1 ho.2
  have hFi : ∀ i d, i ≤ s.dim → 1 ≤ d → d ≤ s.size → F i (F i d) = d := by
    intro i d hi h1 h2
    have hg := (hfg d h1 h2).1
    show f.getD (s.dset.opU i (g.getD (F i d) 0)) 0 = d
    rw [hgF i d hi h1 h2, hs.invol i _ hi hg.1 hg.2, (hfg d h1 h2).2]
  obtain ⟨ds', eds, dsize, ddim, dvalid, dop⟩ :=
    buildSet_of_total_involution (op := fun i d => (s.op i (g.getD d 0)).map (fun e => f.getD e 0))
      (f := F) hsize hdim hop hFr hFi
  have dfar : FarCommute ds' := by
    intro i j d hij hj h1 h2
    rw [ddim] at hj
    rw [dsize] at h2
    have hi : i ≤ s.dim := by omega
    have hg := (hfg d h1 h2).1
    have r1 := hFr i d hi h1 h2
    have r2 := hFr j d hj h1 h2
    rw [dop i d hi h1 h2, dop j d hj h1 h2, dop j _ hj r1.1 r1.2, dop i _ hi r2.1 r2.2]
    show f.getD (s.dset.opU j (g.getD (F i d) 0)) 0 = f.getD (s.dset.opU i (g.getD (F j d) 0)) 0
    rw [hgF i d hi h1 h2, hgF j d hj h1 h2, h.far i j _ hij hj hg.1 hg.2]
  -- the transported branching numbers
  let V : Nat → Nat → Nat := fun i d => s.orbitVs.getD (s.ixAt i (g.getD d 0)) 0
  have hv : ∀ i d, i < ds'.dim → 1 ≤ d → d ≤ ds'.size → s.vAdj i (g.getD d 0) = some (V i d) := by
    intro i d hi h1 h2
    rw [ddim] at hi
    rw [dsize] at h2
    have hg := (hfg d h1 h2).1
    unfold DSymData.vAdj
    rw [h.vPartial_adj hi hg.1 hg.2]
  have horb : ∀ i x y, i < s.dim → 1 ≤ x → x ≤ s.size → Orb2 ds' i (i + 1) x y →
      Orb2 s.dset i (i + 1) (g.getD x 0) (g.getD y 0) := by
    intro i x y hi h1 h2 ho
    induction ho with
    | refl => exact Orb2.refl _
    | @stepI e ho' ih =>
      have he := Orb2.range dvalid (by rw [ddim]; omega) (by rw [ddim]; omega)
        ⟨h1, by rw [dsize]; exact h2⟩ ho'
      rw [dsize] at he
      rw [dop i e (by omega) he.1 he.2, hgF i e (by omega) he.1 he.2]
      exact Orb2.stepI ih
    | @stepJ e ho' ih =>
      have he := Orb2.range dvalid (by rw [ddim]; omega) (by rw [ddim]; omega)
        ⟨h1, by rw [dsize]; exact h2⟩ ho'
      rw [dsize] at he
      rw [dop (i + 1) e (by omega) he.1 he.2, hgF (i + 1) e (by omega) he.1 he.2]
      exact Orb2.stepJ ih
  have hV : ∀ i x y, i < ds'.dim → 1 ≤ x → x ≤ ds'.size → Orb2 ds' i (i + 1) x y → V i x = V i y := by
    intro i x y hi h1 h2 ho
    rw [ddim] at hi
    rw [dsize] at h2
    have hy := Orb2.range dvalid (by rw [ddim]; omega) (by rw [ddim]; omega)
      ⟨h1, by rw [dsize]; exact h2⟩ ho
    rw [dsize] at hy
    have hgx := (hfg x h1 h2).1
    have hgy := (hfg y hy.1 hy.2).1
    show s.orbitVs.getD (s.ixAt i (g.getD x 0)) 0 = s.orbitVs.getD (s.ixAt i (g.getD y 0)) 0
    rw [(h.ixAt_eq_iff hi hgx.1 hgx.2 hgy.1 hgy.2).2 (horb i x y hi h1 h2 ho)]
  obtain ⟨c, ec, cvalid, cdset, cv⟩ :=
    buildSymUsingVs_spec (v := fun i d => s.vAdj i (g.getD d 0)) dvalid dfar hv hV
  have csize : c.size = s.size := by show c.dset.size = _; rw [cdset, dsize]
  have cdim : c.dim = s.dim := by show c.dset.dim = _; rw [cdset, ddim]
  refine ⟨c, ?_, cvalid, csize, cdim, ?_, ?_⟩
  · unfold rebuild
    rw [eg]
    simp only
    rw [eds]
    exact ec
  · intro i d hi h1 h2
    have r := hf.range d h1 h2
    rw [cdset, dop i _ hi r.1 r.2]
    show f.getD (s.dset.opU i (g.getD (f.getD d 0) 0)) 0 = _
    rw [hgf d h1 h2]
  · intro i d hi h1 h2
    have r := hf.range d h1 h2
    rw [cv i _ (by rw [ddim]; exact hi) r.1 (by rw [dsize]; exact r.2)]
    show some (s.orbitVs.getD (s.ixAt i (g.getD (f.getD d 0) 0)) 0) = _
    rw [hgf d h1 h2]
    unfold DSymData.vAdj
    rw [h.vPartial_adj hi h1 h2]

end CanonP
end DSymVerif.DS
