/-
Low-index enumeration (C12): `derived_table` only adds entries and fills the requested
slot; hence every child of a search state has strictly fewer free slots among the first
`max_rows` rows, the search tree has finite height, and the generic `backtrack_preorder`
theorem applies to `CosetTableBacktracking`.  Core Lean only.
-/
import DSymVerif.Model.LowIndex
import DSymVerif.Proofs.Backtrack

namespace DSymVerif.LowIndexP
open DSymVerif DSymVerif.Cosets

/-- the raw content of slot `(c, g)`: row `c` exists, the column index is in range -/
def Slot (t : Table) (c : Nat) (g : Int) (r : Int) : Prop :=
  ∃ row, t.rows[c]? = some row ∧ 0 ≤ g + (t.nrGens : Int) ∧ row[(g + (t.nrGens : Int)).toNat]? = some r

theorem get_eq (t : Table) (c : Nat) (g : Int) :
    t.get c g =
      match t.rows[c]? with
      | none => .ok none
      | some row =>
        if g + (t.nrGens : Int) < 0 then .panic else
        match row[(g + (t.nrGens : Int)).toNat]? with
        | none => .panic
        | some r => if r ≥ 0 then .ok (some (t.canon r.toNat)) else .ok none := by
  unfold Table.get
  by_cases h : c < t.rows.size
  · rw [dif_pos h, Array.getElem?_eq_getElem h]
    rfl
  · rw [dif_neg h, Array.getElem?_eq_none (by omega)]

/-- slot `(c, g)` holds a row number -/
def IsDef (t : Table) (c : Nat) (g : Int) : Prop := ∃ r, Slot t c g r ∧ 0 ≤ r

theorem get_some_iff (t : Table) (c : Nat) (g : Int) :
    (∃ d, t.get c g = .ok (some d)) ↔ IsDef t c g := by
  rw [get_eq]
  unfold IsDef Slot
  constructor
  · rintro ⟨d, h⟩
    cases hr : t.rows[c]? with
    | none => simp [hr] at h
    | some row =>
      simp only [hr] at h
      by_cases hn : g + (t.nrGens : Int) < 0
      · simp [hn] at h
      · simp only [hn, if_false] at h
        cases hv : row[(g + (t.nrGens : Int)).toNat]? with
        | none => simp [hv] at h
        | some r =>
          simp only [hv] at h
          by_cases hr0 : r ≥ 0
          · exact ⟨r, ⟨row, rfl, by omega, hv⟩, hr0⟩
          · simp [hr0] at h
  · rintro ⟨r, ⟨row, h1, h2, h3⟩, h4⟩
    have hn : ¬ g + (t.nrGens : Int) < 0 := by omega
    exact ⟨t.canon r.toNat, by simp [h1, hn, h3, h4]⟩

theorem get_none_not_isDef (t : Table) (c : Nat) (g : Int) (h : t.get c g = .ok none) : ¬ IsDef t c g := by
  intro hd
  obtain ⟨d, hd⟩ := (get_some_iff t c g).mpr hd
  rw [h] at hd
  cases hd


/-- `set` writes one slot (after padding with blank rows) and touches nothing else -/
theorem set_ok {t t' : Table} {c : Nat} {g : Int} {d : Nat} (h : t.set c g d = .ok t') :
    t'.nrGens = t.nrGens ∧ t'.part = t.part ∧ IsDef t' c g ∧
      (∀ c' g', IsDef t c' g' → IsDef t' c' g') := by
  unfold Table.set at h
  simp only [] at h
  by_cases hn : g + (t.nrGens : Int) < 0
  · simp [hn] at h
  · simp only [hn, if_false] at h
    cases hr : (padRows t.nrGens t.rows c)[c]? with
    | none => simp [hr] at h
    | some row =>
      simp only [hr] at h
      by_cases hj : (g + (t.nrGens : Int)).toNat < row.size
      · simp only [hj, if_true, Outcome.ok.injEq] at h
        subst h
        have hc : c < (padRows t.nrGens t.rows c).size := by
          by_cases hc : c < (padRows t.nrGens t.rows c).size
          · exact hc
          · rw [Array.getElem?_eq_none (by omega)] at hr
            cases hr
        refine ⟨rfl, rfl, ?_, ?_⟩
        · refine ⟨(d : Int), ⟨row.setIfInBounds (g + (t.nrGens : Int)).toNat (d : Int), ?_, by simp only []; omega, ?_⟩, by omega⟩
          · simp only [Array.getElem?_setIfInBounds_self, hc, if_true]
          · simp only [Array.getElem?_setIfInBounds_self, hj, if_true]
        · rintro c' g' ⟨r, ⟨row', h1, h2, h3⟩, h4⟩
          have hc' : c' < t.rows.size := by
            by_cases hc' : c' < t.rows.size
            · exact hc'
            · rw [Array.getElem?_eq_none (by omega)] at h1
              cases h1
          have hpad : (padRows t.nrGens t.rows c)[c']? = some row' := by
            unfold padRows
            rw [Array.getElem?_append_left hc', h1]
          by_cases hcc : c = c'
          · subst hcc
            rw [hpad] at hr
            injection hr with hr
            subst hr
            by_cases hjj : (g + (t.nrGens : Int)).toNat = (g' + (t.nrGens : Int)).toNat
            · refine ⟨(d : Int), ⟨row'.setIfInBounds (g + (t.nrGens : Int)).toNat (d : Int), ?_, h2, ?_⟩, by omega⟩
              · simp only [Array.getElem?_setIfInBounds_self, hc, if_true]
              · simp only []
                rw [← hjj, Array.getElem?_setIfInBounds_self]
                simp [hj]
            · refine ⟨r, ⟨row'.setIfInBounds (g + (t.nrGens : Int)).toNat (d : Int), ?_, h2, ?_⟩, h4⟩
              · simp only [Array.getElem?_setIfInBounds_self, hc, if_true]
              · simp only []
                rw [Array.getElem?_setIfInBounds_ne hjj]
                exact h3
          · refine ⟨r, ⟨row', ?_, h2, h3⟩, h4⟩
            simp only []
            rw [Array.getElem?_setIfInBounds_ne hcc]
            exact hpad
      · simp [hj] at h

theorem join_ok {t t' : Table} {c d : Nat} {g : Int} (h : t.join c d g = .ok t') :
    t'.nrGens = t.nrGens ∧ t'.part = t.part ∧ IsDef t' c g ∧ IsDef t' d (-g) ∧
      (∀ c' g', IsDef t c' g' → IsDef t' c' g') := by
  unfold Table.join at h
  cases h1 : t.set c g d with
  | ok t1 =>
    simp only [h1] at h
    obtain ⟨a1, a2, a3, a4⟩ := set_ok h1
    obtain ⟨b1, b2, b3, b4⟩ := set_ok h
    exact ⟨b1.trans a1, b2.trans a2, b4 _ _ a3, b3, fun c' g' hd => b4 _ _ (a4 _ _ hd)⟩
  | err => simp [h1] at h
  | panic => simp [h1] at h


/-- `t'` has the same generators and partition as `t` and every defined slot of `t` is
    defined in `t'` -/
def Ext (t t' : Table) : Prop :=
  t'.nrGens = t.nrGens ∧ t'.part = t.part ∧ ∀ c g, IsDef t c g → IsDef t' c g

theorem Ext.refl (t : Table) : Ext t t := ⟨rfl, rfl, fun _ _ h => h⟩

theorem Ext.trans {a b c : Table} (h1 : Ext a b) (h2 : Ext b c) : Ext a c :=
  ⟨h2.1.trans h1.1, h2.2.1.trans h1.2.1, fun x g h => h2.2.2 x g (h1.2.2 x g h)⟩

theorem join_ext {t t' : Table} {c d : Nat} {g : Int} (h : t.join c d g = .ok t') : Ext t t' :=
  let ⟨a, b, _, _, e⟩ := join_ok h
  ⟨a, b, e⟩

theorem derivedRels_ext (row : Nat) : ∀ (rels : List (List Int)) (t : Table) (q : List Nat)
    (t' : Table) (q' : List Nat), derivedRels row rels t q = .ok (some (t', q')) → Ext t t'
  | [], t, q, t', q', h => by
    simp only [derivedRels, Outcome.ok.injEq, Option.some.injEq, Prod.mk.injEq] at h
    exact h.1 ▸ Ext.refl t
  | rel :: rels, t, q, t', q', h => by
    simp only [derivedRels] at h
    cases hs : scanBothWays t rel row with
    | ok r =>
      obtain ⟨head, tail, gap, c⟩ := r
      simp only [hs] at h
      by_cases hg : gap = 1
      · simp only [hg, if_true] at h
        cases hj : t.join head tail c with
        | ok t1 =>
          simp only [hj] at h
          exact (join_ext hj).trans (derivedRels_ext row rels t1 _ t' q' h)
        | err => simp [hj] at h
        | panic => simp [hj] at h
      · simp only [hg, if_false] at h
        by_cases hc : gap = 0 ∧ head ≠ tail
        · simp [hc] at h
        · simp only [hc, if_false] at h
          exact derivedRels_ext row rels t q t' q' h
    | err => simp [hs] at h
    | panic => simp [hs] at h

theorem derivedLoop_ext (rels : List (List Int)) : ∀ (fuel : Nat) (t : Table) (q : List Nat) (t' : Table),
    derivedLoop rels fuel t q = .ok (some t') → Ext t t' := by
  intro fuel
  induction fuel with
  | zero =>
    intro t q t' h
    cases q with
    | nil =>
      simp only [derivedLoop, Outcome.ok.injEq, Option.some.injEq] at h
      exact h ▸ Ext.refl t
    | cons r q => simp [derivedLoop] at h
  | succ f ih =>
    intro t q t' h
    cases q with
    | nil =>
      simp only [derivedLoop, Outcome.ok.injEq, Option.some.injEq] at h
      exact h ▸ Ext.refl t
    | cons r q =>
      simp only [derivedLoop] at h
      cases hd : derivedRels r rels t q with
      | ok o =>
        cases o with
        | none => simp [hd] at h
        | some p =>
          obtain ⟨t1, q1⟩ := p
          simp only [hd] at h
          exact (derivedRels_ext r rels t q t1 q1 hd).trans (ih t1 q1 t' h)
      | err => simp [hd] at h
      | panic => simp [hd] at h

/-- `derived_table` only adds entries, and adds the requested one -/
theorem derivedTable_ext {t t' : Table} {rels : List (List Int)} {frm to : Nat} {g : Int}
    (h : derivedTable t rels frm to g = .ok (some t')) :
    Ext t t' ∧ ¬ IsDef t frm g ∧ IsDef t' frm g := by
  unfold derivedTable at h
  cases h1 : t.get frm g with
  | ok o1 =>
    cases o1 with
    | some _ => simp [h1] at h
    | none =>
      simp only [h1] at h
      cases h2 : t.get to (-g) with
      | ok o2 =>
        cases o2 with
        | some _ => simp [h2] at h
        | none =>
          simp only [h2] at h
          cases hj : t.join frm to g with
          | ok t1 =>
            simp only [hj] at h
            have e1 := join_ext hj
            have e2 := derivedLoop_ext rels _ t1 [frm] t' h
            exact ⟨e1.trans e2, get_none_not_isDef t frm g h1, e2.2.2 _ _ (join_ok hj).2.2.1⟩
          | err => simp [hj] at h
          | panic => simp [hj] at h
      | err => simp [h2] at h
      | panic => simp [h2] at h
  | err => simp [h1] at h
  | panic => simp [h1] at h


theorem firstFreeRow_spec (t : Table) (k : Nat) : ∀ (gs : List Int) (k' : Nat) (g : Int),
    firstFreeRow t k gs = .ok (some (k', g)) → k' = k ∧ g ∈ gs ∧ t.get k g = .ok none
  | [], k', g, h => by simp [firstFreeRow] at h
  | x :: gs, k', g, h => by
    simp only [firstFreeRow] at h
    cases hx : t.get k x with
    | ok o =>
      cases o with
      | none =>
        simp only [hx, Outcome.ok.injEq, Option.some.injEq, Prod.mk.injEq] at h
        obtain ⟨rfl, rfl⟩ := h
        exact ⟨rfl, by simp, hx⟩
      | some d =>
        simp only [hx] at h
        obtain ⟨a, b, c⟩ := firstFreeRow_spec t k gs k' g h
        exact ⟨a, by simp [b], c⟩
    | err => simp [hx] at h
    | panic => simp [hx] at h

theorem firstFreeRows_spec (t : Table) : ∀ (ks : List Nat) (k : Nat) (g : Int),
    firstFreeRows t ks = .ok (some (k, g)) → g ∈ t.allGens ∧ t.get k g = .ok none
  | [], k, g, h => by simp [firstFreeRows] at h
  | x :: ks, k, g, h => by
    simp only [firstFreeRows] at h
    cases hx : firstFreeRow t x t.allGens with
    | ok o =>
      cases o with
      | none =>
        simp only [hx] at h
        exact firstFreeRows_spec t ks k g h
      | some p =>
        simp only [hx] at h
        obtain ⟨a, b, c⟩ := firstFreeRow_spec t x t.allGens k g (hx.trans h)
        subst a
        exact ⟨b, c⟩
    | err => simp [hx] at h
    | panic => simp [hx] at h

theorem childrenFrom_spec (t : Table) (rels : List (List Int)) (k : Nat) (g : Int) :
    ∀ (ps : List Nat) (l : List Table), childrenFrom t rels k g ps = .ok l →
      ∀ t' ∈ l, ∃ pos ∈ ps, derivedTable t rels k pos g = .ok (some t')
  | [], l, h, t', ht' => by
    simp only [childrenFrom, Outcome.ok.injEq] at h
    subst h
    cases ht'
  | pos :: ps, l, h, t', ht' => by
    simp only [childrenFrom] at h
    cases hd : derivedTable t rels k pos g with
    | ok r =>
      simp only [hd] at h
      cases hc : childrenFrom t rels k g ps with
      | ok rest =>
        simp only [hc, Outcome.ok.injEq] at h
        subst h
        cases r with
        | none =>
          obtain ⟨p, hp, hq⟩ := childrenFrom_spec t rels k g ps rest hc t' ht'
          exact ⟨p, by simp [hp], hq⟩
        | some t1 =>
          rcases List.mem_cons.mp ht' with rfl | ht'
          · exact ⟨pos, by simp, hd⟩
          · obtain ⟨p, hp, hq⟩ := childrenFrom_spec t rels k g ps rest hc t' ht'
            exact ⟨p, by simp [hp], hq⟩
      | err => simp [hc] at h
      | panic => simp [hc] at h
    | err => simp [hd] at h
    | panic => simp [hd] at h

/-- every potential child extends the table and fills its first free slot, which lies in
    one of the first `maxRows` rows -/
theorem potentialChildren_spec {t : Table} {rels : List (List Int)} {maxRows : Nat} {l : List Table}
    (h : potentialChildren t rels maxRows = .ok l) :
    ∀ t' ∈ l, ∃ k g, g ∈ t.allGens ∧ k < maxRows ∧ Ext t t' ∧ ¬ IsDef t k g ∧ IsDef t' k g := by
  intro t' ht'
  unfold potentialChildren at h
  cases hf : firstFreeInTable t with
  | ok o =>
    cases o with
    | none =>
      simp only [hf, Outcome.ok.injEq] at h
      subst h
      cases ht'
    | some p =>
      obtain ⟨k, g⟩ := p
      simp only [hf] at h
      obtain ⟨pos, hpos, hd⟩ := childrenFrom_spec t rels k g _ l h t' ht'
      obtain ⟨hg, _⟩ := firstFreeRows_spec t _ k g hf
      obtain ⟨e, n1, n2⟩ := derivedTable_ext hd
      have hk : k < maxRows := by
        rw [List.mem_range'_1] at hpos
        have := Nat.min_le_left maxRows (t.len + 1)
        omega
      exact ⟨k, g, hg, hk, e, n1, n2⟩
  | err => simp [hf] at h
  | panic => simp [hf] at h

theorem filterCanonical_subset : ∀ (ts l : List Table), filterCanonical ts = .ok l → ∀ x ∈ l, x ∈ ts
  | [], l, h, x, hx => by
    simp only [filterCanonical, Outcome.ok.injEq] at h
    subst h
    cases hx
  | t :: ts, l, h, x, hx => by
    simp only [filterCanonical] at h
    cases hc : isCanonical t with
    | ok b =>
      cases hr : filterCanonical ts with
      | ok rest =>
        simp only [hc, hr, Outcome.ok.injEq] at h
        subst h
        by_cases hb : b = true
        · simp only [hb, if_true, List.mem_cons] at hx
          rcases hx with rfl | hx
          · simp
          · exact List.mem_cons_of_mem _ (filterCanonical_subset ts rest hr x hx)
        · simp only [hb] at hx
          exact List.mem_cons_of_mem _ (filterCanonical_subset ts rest hr x hx)
      | err => simp [hc, hr] at h
      | panic => simp [hc, hr] at h
    | err =>
      cases hr : filterCanonical ts <;> simp [hc, hr] at h
    | panic => simp [hc] at h


/-! ### the height of a search state -/

theorem countP_lt_of_strict {β : Type} (p q : β → Bool) :
    ∀ (l : List β), (∀ x ∈ l, p x = true → q x = true) → (∃ x ∈ l, p x = false ∧ q x = true) →
      l.countP p < l.countP q
  | [], _, ⟨x, hx, _⟩ => by cases hx
  | a :: l, hmono, ⟨x, hx, hpx, hqx⟩ => by
    have hmono' : ∀ y ∈ l, p y = true → q y = true := fun y hy => hmono y (List.mem_cons_of_mem _ hy)
    have hle : l.countP p ≤ l.countP q := List.countP_mono_left hmono'
    rcases List.mem_cons.mp hx with rfl | hx'
    · rw [List.countP_cons_of_neg (by simp [hpx]), List.countP_cons_of_pos hqx]
      omega
    · have ih := countP_lt_of_strict p q l hmono' ⟨x, hx', hpx, hqx⟩
      by_cases hpa : p a = true
      · rw [List.countP_cons_of_pos hpa, List.countP_cons_of_pos (hmono a (by simp) hpa)]
        omega
      · rw [List.countP_cons_of_neg hpa]
        by_cases hqa : q a = true
        · rw [List.countP_cons_of_pos hqa]; omega
        · rw [List.countP_cons_of_neg hqa]; exact ih

/-- the slots in the first `rows` rows -/
def slots (rows n : Nat) : List (Nat × Int) :=
  (List.range rows).flatMap fun c => (allGensOf n).map fun g => (c, g)

theorem mem_slots {rows n k : Nat} {g : Int} (hk : k < rows) (hg : g ∈ allGensOf n) :
    (k, g) ∈ slots rows n := by
  unfold slots
  rw [List.mem_flatMap]
  exact ⟨k, List.mem_range.mpr hk, List.mem_map.mpr ⟨g, hg, rfl⟩⟩

open Classical in
/-- number of defined slots among the first `maxRows` rows -/
noncomputable def defined (maxRows : Nat) (t : Table) : Nat :=
  (slots maxRows t.nrGens).countP fun s => decide (IsDef t s.1 s.2)

/-- height of a search state: free slots among the first `maxRows` rows, plus one;
    a state that stands for a panic is a leaf -/
noncomputable def height (maxRows : Nat) : Outcome Table → Nat
  | .ok t => (slots maxRows t.nrGens).length + 1 - defined maxRows t
  | _ => 0

theorem height_pos (maxRows : Nat) (t : Table) : 0 < height maxRows (.ok t) := by
  have : defined maxRows t ≤ (slots maxRows t.nrGens).length := List.countP_le_length
  simp only [height]
  omega

theorem height_child {maxRows : Nat} {t t' : Table} {k : Nat} {g : Int} (hg : g ∈ t.allGens)
    (hk : k < maxRows) (e : Ext t t') (h1 : ¬ IsDef t k g) (h2 : IsDef t' k g) :
    height maxRows (.ok t') < height maxRows (.ok t) := by
  have hle : defined maxRows t' ≤ (slots maxRows t'.nrGens).length := List.countP_le_length
  have hlt : defined maxRows t < defined maxRows t' := by
    unfold defined
    rw [e.1]
    apply countP_lt_of_strict
    · intro x _ hx
      simp only [decide_eq_true_eq] at hx ⊢
      exact e.2.2 _ _ hx
    · exact ⟨(k, g), mem_slots hk hg, by simp [h1], by simp [h2]⟩
  simp only [height]
  rw [e.1] at hle ⊢
  omega

/-- children are strictly lower: every child fills the first free slot of its parent -/
theorem btChildren_decreasing (rels : List (List Int)) (maxRows : Nat) :
    ∀ (s c : Outcome Table), c ∈ btChildren rels maxRows s → height maxRows c < height maxRows s := by
  intro s c hc
  cases s with
  | ok t =>
    simp only [btChildren] at hc
    cases hp : potentialChildren t rels maxRows with
    | ok ts =>
      simp only [hp] at hc
      cases hf : filterCanonical ts with
      | ok cs =>
        simp only [hf, List.mem_map] at hc
        obtain ⟨t', ht', rfl⟩ := hc
        obtain ⟨k, g, hg, hk, e, h1, h2⟩ :=
          potentialChildren_spec hp t' (filterCanonical_subset ts cs hf t' ht')
        exact height_child hg hk e h1 h2
      | err =>
        simp only [hf, List.mem_singleton] at hc
        subst hc
        exact height_pos maxRows t
      | panic =>
        simp only [hf, List.mem_singleton] at hc
        subst hc
        exact height_pos maxRows t
    | err =>
      simp only [hp, List.mem_singleton] at hc
      subst hc
      exact height_pos maxRows t
    | panic =>
      simp only [hp, List.mem_singleton] at hc
      subst hc
      exact height_pos maxRows t
  | err => simp [btChildren] at hc
  | panic => simp [btChildren] at hc

theorem btProblem_decreasing (nrGens : Nat) (rels : List (List Int)) (maxRows : Nat) :
    BT.Decreasing (btProblem nrGens rels maxRows) (height maxRows) :=
  btChildren_decreasing rels maxRows

end DSymVerif.LowIndexP
