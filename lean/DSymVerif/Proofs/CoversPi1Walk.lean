/-
Property C05, π1 of a cover, part 1: generic lemmas — concatenation of walks, going several
times round a closed walk, and the universal property of the textbook group `TGroup` in terms of
facet values (pairing, tree, 2-orbit walks).
-/
import DSymVerif.Proofs.CoversFromCover

namespace DSymVerif.CoversP
open DSymVerif DSymVerif.DS DSymVerif.FG DSymVerif.FGP

section generic
variable {G : Type} [Group G] (op : Nat → Nat → Nat) (val : Nat → Nat → G)

theorem Wf_add : ∀ (n a b s c : Nat),
    Wf op val a b (n + s) c = Wf op val a b n c * Wf op val (ix a b n) (ix b a n) s (wk op a b n c)
  | 0, a, b, s, c => by simp [Wf, wk, ix]
  | n + 1, a, b, s, c => by
    have : n + 1 + s = (n + s) + 1 := by omega
    rw [this]
    show val c a * Wf op val b a (n + s) (op a c) =
      val c a * Wf op val b a n (op a c) * Wf op val (ix a b (n + 1)) (ix b a (n + 1)) s (wk op b a n (op a c))
    rw [Wf_add n b a s (op a c), ix_succ, ix_succ, mul_assoc]

theorem wk_rounds {a b r c : Nat} (hper : wk op a b (2 * r) c = c) : ∀ m, wk op a b (2 * (r * m)) c = c
  | 0 => rfl
  | m + 1 => by
    have e : 2 * (r * (m + 1)) = 2 * (r * m) + 2 * r := by ring
    rw [e, wk_add, ix_even, ix_even, wk_rounds hper m, hper]

theorem Wf_rounds {a b r c : Nat} (hper : wk op a b (2 * r) c = c) : ∀ m,
    Wf op val a b (2 * (r * m)) c = Wf op val a b (2 * r) c ^ m
  | 0 => by simp [Wf]
  | m + 1 => by
    have e : 2 * (r * (m + 1)) = 2 * (r * m) + 2 * r := by ring
    rw [e, Wf_add, ix_even, ix_even, wk_rounds op hper m, Wf_rounds hper m, pow_succ]

end generic

/-! ### `opT` and `opU` along walks inside the symbol -/

theorem wk_opT_opU {c : DSymData} (hv : ValidSet c.dset) {a b : Nat} (ha : a ≤ c.dim) (hb : b ≤ c.dim) :
    ∀ (t x : Nat), 1 ≤ x → x ≤ c.size → wk (fun i e => c.dset.opU i e) a b t x = wk (opT c) a b t x := by
  intro t
  induction t with
  | zero => intro x _ _; rfl
  | succ t ih =>
    intro x h1 h2
    rw [wk_succ_last, wk_succ_last, ih x h1 h2]
    have hr := wk_range hv h1 h2 t a b
    rw [opT_eq (ix_le ha hb t) hr.1 hr.2]

/-- values pulled back along the projection: the word of a walk in the cover is the word of the
    projected walk -/
theorem Wf_proj {G : Type} [Group G] {ds c : DSymData} (hvc : ValidSet c.dset) (val : Nat → Nat → G)
    (hproj : ∀ i x, i ≤ c.dim → 1 ≤ x → x ≤ c.size →
      cproj ds.size (c.dset.opU i x) = opT ds i (cproj ds.size x))
    {a b : Nat} (ha : a ≤ c.dim) (hb : b ≤ c.dim) : ∀ (t x : Nat), 1 ≤ x → x ≤ c.size →
    Wf (opT c) (fun x i => val (cproj ds.size x) i) a b t x = Wf (opT ds) val a b t (cproj ds.size x) ∧
    Wf (opT c) (fun x i => val (cproj ds.size x) i) b a t x = Wf (opT ds) val b a t (cproj ds.size x)
  | 0, _, _, _ => ⟨rfl, rfl⟩
  | t + 1, x, h1, h2 => by
    have ra := hvc.range a x ha h1 h2
    have rb := hvc.range b x hb h1 h2
    have h3 := Wf_proj hvc val hproj ha hb t (c.dset.opU a x) ra.1 ra.2
    have h4 := Wf_proj hvc val hproj ha hb t (c.dset.opU b x) rb.1 rb.2
    constructor
    · show val (cproj ds.size x) a * Wf (opT c) _ b a t (opT c a x) =
        val (cproj ds.size x) a * Wf (opT ds) val b a t (opT ds a (cproj ds.size x))
      rw [opT_eq ha h1 h2, h3.2, hproj a x ha h1 h2]
    · show val (cproj ds.size x) b * Wf (opT c) _ a b t (opT c b x) =
        val (cproj ds.size x) b * Wf (opT ds) val a b t (opT ds b (cproj ds.size x))
      rw [opT_eq hb h1 h2, h4.1, hproj b x hb h1 h2]

/-! ### the universal property of the textbook group -/

section lift
variable {c : DSymData} (hc : ValidSym c) {H : Type} [Group H] (V : Nat → Nat → H)

/-- generator `k` of the free group on the facet codes ↦ value of its facet -/
noncomputable def valOf (c : DSymData) (V : Nat → Nat → H) (k : ℕ) : H :=
  if isCode c k then V (decD c k) (decI c k) else 1

theorem lift_valOf_xg {d i : Nat} (h : FacetR c d i) :
    FreeGroup.lift (valOf c V) (xg c d i) = V d i := by
  unfold xg
  rw [if_pos h, FreeGroup.lift_apply_of]
  unfold valOf
  rw [if_pos (isCode_code h), (dec_code h).1, (dec_code h).2]

include hc in
theorem valOf_rel
    (hpair : ∀ x i, FacetR c x i → V x i * V (c.dset.opU i x) i = 1)
    (htree : ∀ x i, (x, i, none) ∈ spanningTree c → V x i = 1)
    (horb : ∀ a b x, a < b → b ≤ c.dim → 1 ≤ x → x ≤ c.size → OW c V a b x ^ orbV c a b x = 1) :
    ∀ r ∈ TRel c, FreeGroup.lift (valOf c V) r = 1 := by
  have hitems : ∀ it ∈ spanningTree c, it.2.2 = none ∧ FacetR c it.1 it.2.1 := by
    intro it hit
    obtain ⟨hn, _⟩ := spanningTree_itemOk hc.set it hit
    exact ⟨hn, spanningTree_ok hc.set it hit hn⟩
  rintro r (((⟨d, i, hfac, rfl⟩ | ⟨it, hit, rfl⟩) | ⟨a, b, d, hab, hb, h1, h2, rfl⟩) | ⟨k, hk, rfl⟩)
  · have hb' := hc.set.range i d hfac.2.2 hfac.1 hfac.2.1
    rw [map_mul, lift_valOf_xg V hfac, lift_valOf_xg V ⟨hb'.1, hb'.2, hfac.2.2⟩]
    exact hpair d i hfac
  · obtain ⟨hn, hfac⟩ := hitems it hit
    rw [lift_valOf_xg V hfac]
    have hmem : (it.1, it.2.1, none) ∈ spanningTree c := by
      have : it = (it.1, it.2.1, none) := by
        rcases it with ⟨x, y, z⟩
        simp only at hn
        rw [hn]
      rw [← this]; exact hit
    exact htree _ _ hmem
  · rw [map_pow]
    unfold OW
    rw [map_Wf]
    have ha : a ≤ c.dim := by omega
    have hcongr := (Wf_congr (opT c) (fun d i => FreeGroup.lift (valOf c V) (xg c d i))
      V (fun x => 1 ≤ x ∧ x ≤ c.size) (a := a) (b := b)
      (fun x hx => ⟨opT_range hc.set hx.1 hx.2, opT_range hc.set hx.1 hx.2⟩)
      (fun x hx => ⟨lift_valOf_xg V ⟨hx.1, hx.2, ha⟩, lift_valOf_xg V ⟨hx.1, hx.2, hb⟩⟩)
      (2 * orbR c a b d) d ⟨h1, h2⟩).1
    rw [hcongr]
    exact horb a b d hab hb h1 h2
  · rw [FreeGroup.lift_apply_of]
    unfold valOf
    rw [if_neg hk]

/-- **universal property**: facet values satisfying pairing, tree and 2-orbit relations define a
    homomorphism from the textbook group -/
noncomputable def tgroupLift
    (hpair : ∀ x i, FacetR c x i → V x i * V (c.dset.opU i x) i = 1)
    (htree : ∀ x i, (x, i, none) ∈ spanningTree c → V x i = 1)
    (horb : ∀ a b x, a < b → b ≤ c.dim → 1 ≤ x → x ≤ c.size → OW c V a b x ^ orbV c a b x = 1) :
    TGroup c →* H :=
  PresentedGroup.toGroup (valOf_rel hc V hpair htree horb)

theorem tgroupLift_xT
    (hpair : ∀ x i, FacetR c x i → V x i * V (c.dset.opU i x) i = 1)
    (htree : ∀ x i, (x, i, none) ∈ spanningTree c → V x i = 1)
    (horb : ∀ a b x, a < b → b ≤ c.dim → 1 ≤ x → x ≤ c.size → OW c V a b x ^ orbV c a b x = 1)
    {d i : Nat} (h : FacetR c d i) :
    tgroupLift hc V hpair htree horb (xT c d i) = V d i := by
  unfold tgroupLift xT
  show FreeGroup.lift (valOf c V) (xg c d i) = _
  exact lift_valOf_xg V h

end lift

end DSymVerif.CoversP
