/-
Helper lemmas for property C08, part 30: symbols that are not connected.

`Emb f a s`: the valid 2D symbol `a` sits inside the valid 2D symbol `s` through the injective
chamber map `f`, which commutes with the three operations and preserves the adjacent branching
numbers (so its image is a union of components of `s`).  `IsUnion f g a b s`: `s` is the disjoint
union of the images of `a` and `b`.

Everything `curvature` and `orbifold_symbol` look at is additive over such a union: the chamber
sum, the weighted census of 2-orbits (cones, corners, numbers of orbits with and without a
mirror), the numbers of fixed chambers, hence the Euler characteristic, and — part 31 — the
boundary components returned by `trace_boundary`.
-/
import DSymVerif.Proofs.Delaney2dSymbolInv

namespace DSymVerif.D2
open DSymVerif.DS

/-- `f` embeds the 2D symbol `a` into the 2D symbol `s` -/
structure Emb (f : Nat → Nat) (a s : DSymData) : Prop where
  va : ValidSym a
  vs : ValidSym s
  dima : a.dim = 2
  dims : s.dim = 2
  range : ∀ d, 1 ≤ d → d ≤ a.size → 1 ≤ f d ∧ f d ≤ s.size
  inj : ∀ d e, 1 ≤ d → d ≤ a.size → 1 ≤ e → e ≤ a.size → f d = f e → d = e
  op : ∀ i d, i ≤ 2 → 1 ≤ d → d ≤ a.size → s.dset.opU i (f d) = f (a.dset.opU i d)
  vadj : ∀ i d, i < 2 → 1 ≤ d → d ≤ a.size → s.vAdj i (f d) = a.vAdj i d

/-- `s` is the disjoint union of (the images of) `a` and `b` -/
structure IsUnion (f g : Nat → Nat) (a b s : DSymData) : Prop where
  ea : Emb f a s
  eb : Emb g b s
  disj : ∀ d e, 1 ≤ d → d ≤ a.size → 1 ≤ e → e ≤ b.size → f d ≠ g e
  cover : ∀ x, 1 ≤ x → x ≤ s.size →
    (∃ d, 1 ≤ d ∧ d ≤ a.size ∧ f d = x) ∨ (∃ e, 1 ≤ e ∧ e ≤ b.size ∧ g e = x)

namespace Emb
variable {f : Nat → Nat} {a s : DSymData} (m : Emb f a s)
include m

theorem size_le : a.size ≤ s.size := by
  have h : (Finset.Icc 1 a.size).card ≤ (Finset.Icc 1 s.size).card := by
    apply Finset.card_le_card_of_injOn f
    · intro d hd
      simp only [Finset.coe_Icc, Set.mem_Icc] at hd ⊢
      exact m.range d hd.1 hd.2
    · intro d hd e he hde
      simp only [Finset.coe_Icc, Set.mem_Icc] at hd he
      exact m.inj d e hd.1 hd.2 he.1 he.2 hde
  simpa using h

/-- all branching numbers are preserved, on every pair of indices -/
theorem v {j k d : Nat} (hj : j ≤ 2) (hk : k ≤ 2) (hjk : j ≠ k) (h1 : 1 ≤ d) (h2 : d ≤ a.size) :
    vN s j k (f d) = vN a j k d := by
  have hfd := m.range d h1 h2
  have adj : ∀ i, i < 2 → vN s i (i + 1) (f d) = vN a i (i + 1) d := by
    intro i hi
    have := m.vadj i d hi h1 h2
    rw [vN_of_vAdj m.vs (by have := m.dims; omega) hfd,
      vN_of_vAdj m.va (by have := m.dima; omega) ⟨h1, h2⟩] at this
    exact Option.some.inj this
  have symmN : ∀ (y : DSymData) (p q x : Nat), vN y p q x = vN y q p x := by
    intro y p q x; unfold vN; rw [DSymData.vPartial_symm]
  have far : ∀ j k, ((j = 0 ∧ k = 2) ∨ (j = 2 ∧ k = 0)) → vN s j k (f d) = vN a j k d := by
    intro j k hjk
    rw [vN_far m.dims hjk hfd, vN_far m.dima hjk ⟨h1, h2⟩, m.op 0 d (by omega) h1 h2,
      m.op 2 d (by omega) h1 h2]
    have r0 := m.va.set.range 0 d (by show 0 ≤ a.dim; omega) h1 h2
    have r2 := m.va.set.range 2 d (by have := m.dima; show 2 ≤ a.dim; omega) h1 h2
    by_cases e : a.dset.opU 0 d = a.dset.opU 2 d
    · rw [if_pos e, if_pos (by rw [e])]
    · rw [if_neg e, if_neg (fun e' => e (m.inj _ _ r0.1 r0.2 r2.1 r2.2 e'))]
  have hcases : (j = 0 ∧ k = 1) ∨ (j = 1 ∧ k = 0) ∨ (j = 1 ∧ k = 2) ∨ (j = 2 ∧ k = 1) ∨
      (j = 0 ∧ k = 2) ∨ (j = 2 ∧ k = 0) := by omega
  rcases hcases with ⟨rfl, rfl⟩ | ⟨rfl, rfl⟩ | ⟨rfl, rfl⟩ | ⟨rfl, rfl⟩ | h | h
  · exact adj 0 (by omega)
  · rw [symmN s, symmN a]; exact adj 0 (by omega)
  · exact adj 1 (by omega)
  · rw [symmN s, symmN a]; exact adj 1 (by omega)
  · exact far j k (Or.inl h)
  · exact far j k (Or.inr h)

theorem map_rN {i j x : Nat} (hi : i ≤ 2) (hj : j ≤ 2) (hx : 1 ≤ x ∧ x ≤ a.size) :
    rN s i j (f x) = rN a i j x := by
  have hia : i ≤ a.dim := by have := m.dima; omega
  have hja : j ≤ a.dim := by have := m.dima; omega
  have hfx := m.range x hx.1 hx.2
  apply rN_unique m.vs (by have := m.dims; omega) (by have := m.dims; omega) hfx
  exact leastPeriod_map (f := f) (i := i) (j := j) (i' := i) (j' := j) m.va.set hia hja
    (fun d h1 h2 => m.op i d hi h1 h2) (fun d h1 h2 => m.op j d hj h1 h2) m.inj hx
    (rN_least m.va hia hja hx)

theorem map_mQ {i j x : Nat} (hi : i ≤ 2) (hj : j ≤ 2) (hij : i ≠ j) (hx : 1 ≤ x ∧ x ≤ a.size) :
    mQ s i j (f x) = mQ a i j x := by
  unfold mQ
  rw [m.map_rN hi hj hx, m.v hi hj hij hx.1 hx.2]

/-- the image of a chamber that is not fixed is not fixed -/
theorem fixed_iff {i x : Nat} (hi : i ≤ 2) (hx : 1 ≤ x ∧ x ≤ a.size) :
    s.dset.opU i (f x) = f x ↔ a.dset.opU i x = x := by
  rw [m.op i x hi hx.1 hx.2]
  have hr := m.va.set.range i x (by have := m.dima; show i ≤ a.dim; omega) hx.1 hx.2
  constructor
  · intro e; exact m.inj _ _ hr.1 hr.2 hx.1 hx.2 e
  · intro e; rw [e]

end Emb

namespace IsUnion
variable {f g : Nat → Nat} {a b s : DSymData} (u : IsUnion f g a b s)
include u

/-- a sum over the chambers of the union splits into the sums over the two parts -/
theorem sum_split (G : Nat → ℚ) :
    ∑ x ∈ Finset.Icc 1 s.size, G x =
      ∑ d ∈ Finset.Icc 1 a.size, G (f d) + ∑ e ∈ Finset.Icc 1 b.size, G (g e) := by
  classical
  have hset : Finset.Icc 1 s.size =
      (Finset.Icc 1 a.size).image f ∪ (Finset.Icc 1 b.size).image g := by
    ext x
    simp only [Finset.mem_Icc, Finset.mem_union, Finset.mem_image]
    constructor
    · rintro ⟨h1, h2⟩
      rcases u.cover x h1 h2 with ⟨d, hd1, hd2, rfl⟩ | ⟨e, he1, he2, rfl⟩
      · exact Or.inl ⟨d, ⟨hd1, hd2⟩, rfl⟩
      · exact Or.inr ⟨e, ⟨he1, he2⟩, rfl⟩
    · rintro (⟨d, ⟨hd1, hd2⟩, rfl⟩ | ⟨e, ⟨he1, he2⟩, rfl⟩)
      · exact u.ea.range d hd1 hd2
      · exact u.eb.range e he1 he2
  have hdisj : Disjoint ((Finset.Icc 1 a.size).image f) ((Finset.Icc 1 b.size).image g) := by
    rw [Finset.disjoint_left]
    intro x hxa hxb
    simp only [Finset.mem_image, Finset.mem_Icc] at hxa hxb
    obtain ⟨d, ⟨hd1, hd2⟩, rfl⟩ := hxa
    obtain ⟨e, ⟨he1, he2⟩, he⟩ := hxb
    exact u.disj d e hd1 hd2 he1 he2 he.symm
  rw [hset, Finset.sum_union hdisj, Finset.sum_image, Finset.sum_image]
  · intro d hd e he hde
    simp only [Finset.coe_Icc, Set.mem_Icc] at hd he
    exact u.eb.inj d e hd.1 hd.2 he.1 he.2 hde
  · intro d hd e he hde
    simp only [Finset.coe_Icc, Set.mem_Icc] at hd he
    exact u.ea.inj d e hd.1 hd.2 he.1 he.2 hde

theorem size_eq : s.size = a.size + b.size := by
  have h := u.sum_split (fun _ => (1 : ℚ))
  simp only [Finset.sum_const, Nat.card_Icc, nsmul_eq_mul, mul_one, Nat.add_sub_cancel] at h
  exact_mod_cast h

/-- **the chamber sum is additive** -/
theorem chamberSum_add : chamberSum s = chamberSum a + chamberSum b := by
  unfold chamberSum
  rw [u.sum_split]
  congr 1
  · apply Finset.sum_congr rfl
    intro d hd
    rw [Finset.mem_Icc] at hd
    rw [u.ea.map_mQ (by omega) (by omega) (by omega) ⟨hd.1, hd.2⟩,
      u.ea.map_mQ (by omega) (by omega) (by omega) ⟨hd.1, hd.2⟩]
  · apply Finset.sum_congr rfl
    intro d hd
    rw [Finset.mem_Icc] at hd
    rw [u.eb.map_mQ (by omega) (by omega) (by omega) ⟨hd.1, hd.2⟩,
      u.eb.map_mQ (by omega) (by omega) (by omega) ⟨hd.1, hd.2⟩]

/-- the weighted census of one index pair is additive -/
theorem pairU_add {i j : Nat} (hi : i ≤ 2) (hj : j ≤ 2) (hij : i ≠ j) (F : Nat → ℚ) :
    pairU s i j F = pairU a i j F + pairU b i j F := by
  unfold pairU
  rw [pair_sum_gen u.ea.vs (by have := u.ea.dims; omega) (by have := u.ea.dims; omega) F,
    pair_sum_gen u.ea.va (by have := u.ea.dima; omega) (by have := u.ea.dima; omega) F,
    pair_sum_gen u.eb.va (by have := u.eb.dima; omega) (by have := u.eb.dima; omega) F,
    u.sum_split]
  congr 1
  · apply Finset.sum_congr rfl
    intro x hx
    rw [Finset.mem_Icc] at hx
    rw [u.ea.map_rN hi hj ⟨hx.1, hx.2⟩, u.ea.v hi hj hij hx.1 hx.2]
  · apply Finset.sum_congr rfl
    intro x hx
    rw [Finset.mem_Icc] at hx
    rw [u.eb.map_rN hi hj ⟨hx.1, hx.2⟩, u.eb.v hi hj hij hx.1 hx.2]

/-- the total weighted census (a sum over `typesOf`) is additive -/
theorem total_add (F : Nat → ℚ) :
    ((typesOf s).map fun t => (if t.2 = true then (2 : ℚ) else 1) * F t.1).sum =
      ((typesOf a).map fun t => (if t.2 = true then (2 : ℚ) else 1) * F t.1).sum +
      ((typesOf b).map fun t => (if t.2 = true then (2 : ℚ) else 1) * F t.1).sum := by
  rw [types_total, types_total, types_total,
    u.pairU_add (i := 0) (j := 1) (by omega) (by omega) (by omega),
    u.pairU_add (i := 0) (j := 2) (by omega) (by omega) (by omega),
    u.pairU_add (i := 1) (j := 2) (by omega) (by omega) (by omega)]
  ring

/-- the number of chambers fixed by an operation is additive -/
theorem loopsN_add {i : Nat} (hi : i ≤ 2) : loopsN s i = loopsN a i + loopsN b i := by
  have key : ∀ (y : DSymData), (loopsN y i : ℚ) =
      ∑ x ∈ Finset.Icc 1 y.size, (if y.dset.opU i x = x then (1 : ℚ) else 0) := by
    intro y
    unfold loopsN
    rw [Finset.card_filter]
    push_cast
    rfl
  have h : (loopsN s i : ℚ) = (loopsN a i : ℚ) + (loopsN b i : ℚ) := by
    rw [key s, key a, key b, u.sum_split]
    congr 1
    · apply Finset.sum_congr rfl
      intro x hx
      rw [Finset.mem_Icc] at hx
      by_cases e : a.dset.opU i x = x
      · rw [if_pos e, if_pos ((u.ea.fixed_iff hi ⟨hx.1, hx.2⟩).2 e)]
      · rw [if_neg e, if_neg (fun e' => e ((u.ea.fixed_iff hi ⟨hx.1, hx.2⟩).1 e'))]
    · apply Finset.sum_congr rfl
      intro x hx
      rw [Finset.mem_Icc] at hx
      by_cases e : b.dset.opU i x = x
      · rw [if_pos e, if_pos ((u.eb.fixed_iff hi ⟨hx.1, hx.2⟩).2 e)]
      · rw [if_neg e, if_neg (fun e' => e ((u.eb.fixed_iff hi ⟨hx.1, hx.2⟩).1 e'))]
  exact_mod_cast h

/-- the numbers of 2-orbits with and without a mirror are additive -/
theorem counts_add : chainCount (typesOf s) = chainCount (typesOf a) + chainCount (typesOf b) ∧
    looplessCount (typesOf s) = looplessCount (typesOf a) + looplessCount (typesOf b) := by
  have hc : chainCount (typesOf s) = chainCount (typesOf a) + chainCount (typesOf b) := by
    rw [← loops_eq_chains u.ea.vs u.ea.dims, ← loops_eq_chains u.ea.va u.ea.dima,
      ← loops_eq_chains u.eb.va u.eb.dima, u.loopsN_add (i := 0) (by omega),
      u.loopsN_add (i := 1) (by omega), u.loopsN_add (i := 2) (by omega)]
    omega
  refine ⟨hc, ?_⟩
  have hF := u.total_add (fun _ => (1 : ℚ))
  have key : ∀ ts : List (Nat × Bool),
      (ts.map fun t => (if t.2 = true then (2 : ℚ) else 1) * (fun _ => (1 : ℚ)) t.1).sum =
        2 * (looplessCount ts : ℚ) + (chainCount ts : ℚ) := by
    intro ts
    induction ts with
    | nil => simp [looplessCount, chainCount]
    | cons t ts ih =>
      simp only [List.map_cons, List.sum_cons, ih]
      unfold looplessCount chainCount
      cases ht : t.2 <;> simp [ht] <;> ring
  rw [key, key, key, hc] at hF
  have : (looplessCount (typesOf s) : ℚ) =
      (looplessCount (typesOf a) : ℚ) + (looplessCount (typesOf b) : ℚ) := by
    push_cast at hF
    linarith
  exact_mod_cast this

/-- **the Euler characteristic F − E + V of `euler_characteristic` is additive** -/
theorem euler_add (rs ra rb : Rep) :
    eulerCharacteristic ⟨s, rs⟩ = eulerCharacteristic ⟨a, ra⟩ + eulerCharacteristic ⟨b, rb⟩ := by
  have es := euler_value rs u.ea.vs u.ea.dims
  have ea := euler_value ra u.ea.va u.ea.dima
  have eb := euler_value rb u.eb.va u.eb.dima
  obtain ⟨hc, hl⟩ := u.counts_add
  rw [hc, hl, u.size_eq] at es
  push_cast at es
  omega

end IsUnion

end DSymVerif.D2
