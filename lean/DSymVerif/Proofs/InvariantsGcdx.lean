/-
`gcdx` (extended Euclid with truncating division) — Bezout identities, unimodularity,
gcd, sign.  Termination is part of the definition (well-founded on `|a_next|`,
`Model/Invariants.lean`): `|a - (a / a_next) * a_next| = |a| % |a_next| < |a_next|`.
-/
import DSymVerif.Model.Invariants
import Mathlib.Tactic.Ring
import Mathlib.Tactic.LinearCombination

namespace DSymVerif.Inv

/-- loop invariant of `gcdx`, for arbitrary start values `A`, `B` -/
theorem gcdxLoop_spec (A B : Int) (a a' r r' s s' : Int)
    (h1 : r * A + s * B = a) (h2 : r' * A + s' * B = a')
    (hd : r * s' - s * r' = 1 ∨ r * s' - s * r' = -1)
    (hg : Int.gcd a a' = Int.gcd A B) :
    (gcdxLoop a a' r r' s s').2.1 * A + (gcdxLoop a a' r r' s s').2.2.1 * B
        = (gcdxLoop a a' r r' s s').1 ∧
    (gcdxLoop a a' r r' s s').2.2.2.1 * A + (gcdxLoop a a' r r' s s').2.2.2.2 * B = 0 ∧
    ((gcdxLoop a a' r r' s s').2.1 * (gcdxLoop a a' r r' s s').2.2.2.2
        - (gcdxLoop a a' r r' s s').2.2.1 * (gcdxLoop a a' r r' s s').2.2.2.1 = 1 ∨
     (gcdxLoop a a' r r' s s').2.1 * (gcdxLoop a a' r r' s s').2.2.2.2
        - (gcdxLoop a a' r r' s s').2.2.1 * (gcdxLoop a a' r r' s s').2.2.2.1 = -1) ∧
    (gcdxLoop a a' r r' s s').1.natAbs = Int.gcd A B := by
  fun_induction gcdxLoop a a' r r' s s' with
  | case1 a r r' s s' =>
    refine ⟨h1, h2, hd, ?_⟩
    rw [← hg, Int.gcd_zero_right]
  | case2 a a' r r' s s' hne q ih =>
    apply ih
    · exact h2
    · linear_combination h1 - q * h2
    · rcases hd with hd | hd
      · right; linear_combination -hd
      · left; linear_combination -hd
    · rw [Int.gcd_sub_mul_right_right, Int.gcd_comm]; exact hg

theorem gcdxLoop_nonneg (a a' r r' s s' : Int) (ha : 0 ≤ a) (ha' : 0 ≤ a') :
    0 ≤ (gcdxLoop a a' r r' s s').1 := by
  fun_induction gcdxLoop a a' r r' s s' with
  | case1 a r r' s s' => exact ha
  | case2 a a' r r' s s' hne q ih =>
    apply ih ha'
    have e : a - q * a' = a.tmod a' := by rw [Int.tmod_def, Int.mul_comm]
    rw [e]; exact Int.tmod_nonneg _ ha

/-- `gcdx a b = (g, r, s, r', s')` with `r·a + s·b = g`, `r'·a + s'·b = 0`,
    `r·s' − s·r' = ±1`, `|g| = gcd(a, b)` — for all integers. -/
theorem gcdx_spec' (a b : Int) :
    (gcdx a b).2.1 * a + (gcdx a b).2.2.1 * b = (gcdx a b).1 ∧
    (gcdx a b).2.2.2.1 * a + (gcdx a b).2.2.2.2 * b = 0 ∧
    ((gcdx a b).2.1 * (gcdx a b).2.2.2.2 - (gcdx a b).2.2.1 * (gcdx a b).2.2.2.1 = 1 ∨
     (gcdx a b).2.1 * (gcdx a b).2.2.2.2 - (gcdx a b).2.2.1 * (gcdx a b).2.2.2.1 = -1) ∧
    (gcdx a b).1.natAbs = Int.gcd a b := by
  unfold gcdx
  apply gcdxLoop_spec a b a b 1 0 0 1
  · ring
  · ring
  · left; ring
  · rfl

theorem gcdx_nonneg (a b : Int) (ha : 0 ≤ a) (hb : 0 ≤ b) : 0 ≤ (gcdx a b).1 :=
  gcdxLoop_nonneg a b 1 0 0 1 ha hb

theorem gcdx_fst_ne_zero (a b : Int) (h : a ≠ 0 ∨ b ≠ 0) : (gcdx a b).1 ≠ 0 := by
  have hg := (gcdx_spec' a b).2.2.2
  intro h0
  rw [h0] at hg
  have : Int.gcd a b = 0 := by simpa using hg.symm
  rw [Int.gcd_eq_zero_iff] at this
  rcases h with h | h
  · exact h this.1
  · exact h this.2

theorem gcdx_fst_dvd_left (a b : Int) : (gcdx a b).1 ∣ a := by
  have hg := (gcdx_spec' a b).2.2.2
  have : ((gcdx a b).1.natAbs : Int) ∣ a := by rw [hg]; exact Int.gcd_dvd_left a b
  exact Int.natAbs_dvd.mp this

theorem gcdx_fst_dvd_right (a b : Int) : (gcdx a b).1 ∣ b := by
  have hg := (gcdx_spec' a b).2.2.2
  have : ((gcdx a b).1.natAbs : Int) ∣ b := by rw [hg]; exact Int.gcd_dvd_right a b
  exact Int.natAbs_dvd.mp this

end DSymVerif.Inv
