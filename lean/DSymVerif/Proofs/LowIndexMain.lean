/-
C12 for the model: the search never panics or exhausts internal fuel, and the yielded tables are
a system of representatives of the isomorphism classes of valid tables with at most `k` rows.
-/
import DSymVerif.Proofs.LowIndexComplete

namespace DSymVerif.CanonP
open DSymVerif DSymVerif.Cosets DSymVerif.SpecC11 DSymVerif.SpecC12 DSymVerif.CosetP DSymVerif.RebaseP
open DSymVerif.LowIndexP DSymVerif.CosetInvP DSymVerif.CosetPartP

section
variable {maxRows n : Nat} {rels R : List (List Int)}

/-- on a search state `children` neither panics nor runs out of fuel -/
theorem btChildren_ok (hrot : RotClosed rels R)
    (hwr : ∀ w ∈ rels, ∀ x ∈ w, x ∈ allGensOf n) (hwR : ∀ u ∈ R, ∀ x ∈ u, x ∈ allGensOf n)
    {t : Table} (s : SInv2 maxRows n rels t) :
    ∀ c ∈ btChildren R maxRows (.ok t), ∃ t1, c = .ok t1 := by
  intro c hc
  obtain ⟨l, hl⟩ := potentialChildren_total hwR s.1 (R := R)
  have hsinv := potentialChildren_sinv hrot hwr hwR s.1 hl
  have hcs := potentialChildren_cs hrot hwr hwR s.1 s.2 hl
  obtain ⟨cs, hcsf⟩ := filterCanonical_total l (fun t ht => ⟨(hsinv t ht).tcq.shape, hcs t ht⟩)
  simp only [btChildren, hl, hcsf, List.mem_map] at hc
  obtain ⟨t1, _, rfl⟩ := hc
  exact ⟨t1, rfl⟩

/-- every state of the search tree is a table satisfying the invariant (no panic, no fuel
    exhaustion anywhere in the tree) -/
theorem reach_ok (hrot : RotClosed rels R)
    (hwr : ∀ w ∈ rels, ∀ x ∈ w, x ∈ allGensOf n) (hwR : ∀ u ∈ R, ∀ x ∈ u, x ∈ allGensOf n)
    {s s' : Outcome Table} (hr : BT.Reach (btProblem n R maxRows) s s') :
    (∃ t, s = .ok t ∧ SInv2 maxRows n rels t) → ∃ t', s' = .ok t' ∧ SInv2 maxRows n rels t' := by
  induction hr with
  | refl s => exact fun h => h
  | step hc _ ih =>
    rintro ⟨t, rfl, st⟩
    have hc' : _ ∈ btChildren R maxRows (.ok t) := hc
    obtain ⟨t1, rfl⟩ := btChildren_ok hrot hwr hwR st _ hc'
    exact ih ⟨t1, rfl, (btChildren_sinv2 hrot hwr hwR hc'
      (fun t0 h0 => by injection h0 with h0; exact h0 ▸ st) t1 rfl).1⟩

end

/-- every item the model of `coset_tables` yields is a table (the model never panics and never
    runs out of internal fuel), it is complete, and its view is the Spec table of its entries -/
theorem cosetTables_ok_gen (n : Nat) (rels rels' : List (List Int)) (k fuel : Nat)
    (hrot : RotClosed rels' (expandedRelatorSet rels)) (hlet' : ∀ w ∈ rels', ∀ x ∈ w, x ∈ allGensOf n)
    (hlet : ∀ w ∈ rels, ∀ x ∈ w, x ∈ allGensOf n)
    (hf : (BT.dfs (btProblem n (expandedRelatorSet rels) k) (height k) (.ok (Table.new n))).length ≤ fuel) :
    ∀ x ∈ cosetTables n rels k fuel, ∃ t' v, x = .ok t' ∧ t'.view = .ok v ∧
      (viewTab v).size = t'.len ∧
      ∀ j, j < t'.len → ∀ g ∈ allGensOf n, ∃ d, t'.get j g = .ok (some d) ∧ entry (viewTab v) n j g = some d := by
  intro x hx
  have hwR : ∀ u ∈ expandedRelatorSet rels, ∀ y ∈ u, y ∈ allGensOf n :=
    expandedRelatorSet_letters (S := fun y => y ∈ allGensOf n) (fun y hy => neg_mem_allGensOf hy) hlet
  unfold cosetTables at hx
  rw [BT.run_eq_dfs _ (height k) (btProblem_decreasing n _ k) fuel hf] at hx
  obtain ⟨s, hs, hext⟩ := List.mem_filterMap.mp hx
  have hreach := (BT.mem_dfs_iff _ (height k) (btProblem_decreasing n _ k) _ s).mp hs
  obtain ⟨Q, rfl, sq⟩ := reach_ok hrot hlet' hwR hreach
    ⟨Table.new n, rfl, sinv_new k n rels', cs_new n⟩
  obtain ⟨t', hcmp⟩ := compact_total sq.1.tcq.shape sq.1.clean
  have hx' : x = .ok t' := by
    have hext' : btExtract (.ok Q) = some x := hext
    simp only [btExtract] at hext'
    obtain ⟨r, hr⟩ := firstFreeInTable_total sq.1.tcq.shape
    rw [hr] at hext'
    cases r with
    | none =>
      simp only [Option.some.injEq] at hext'
      rw [← hext', hcmp]
    | some p => simp at hext'
  subst hx'
  obtain ⟨_, hdef⟩ := btExtract_complete (show btExtract (.ok Q) = some (.ok t') from hext)
  have hallc : AllComplete Q := fun c hc _ g hg => (get_some_iff Q c g).mp (hdef c hc g hg)
  obtain ⟨c1, c2, _, _, c5⟩ := compact_clean sq.1.tcq sq.1.clean hallc hcmp
  have hgens : t'.nrGens = n := by rw [c2, sq.1.gens]
  have hag : t'.allGens = allGensOf n := by unfold Table.allGens; rw [hgens]
  let E : Nat → Int → Nat := fun j g => val t' j g
  have hE : ∀ j, j < t'.len → ∀ g ∈ allGensOf n, t'.get j g = .ok (some (E j g)) ∧ E j g < t'.len := by
    intro j hj g hg
    have hgQ : g ∈ Q.allGens := by rw [sq.1.allGens]; exact hg
    obtain ⟨d, hd⟩ := hdef j (by omega) g hgQ
    have := c5 j g d hgQ (by omega) hd
    refine ⟨by rw [this]; simp only [E, val_eq this], ?_⟩
    simp only [E, val_eq this]
    have := sq.1.tcq.shape.range j g d hgQ hd
    omega
  have hview : t'.view = .ok ((List.range t'.len).map fun j => (allGensOf n).map fun g => ((E j g : Nat) : Int)) := by
    unfold Table.view
    rw [← hag]
    apply viewRows_ok t' E
    intro j hj g hg
    rw [hag] at hg
    exact (hE j (List.mem_range.mp hj) g hg).1
  refine ⟨t', _, rfl, hview, by simp [viewTab], ?_⟩
  intro j hj g hg
  exact ⟨E j g, (hE j hj g hg).1, entry_viewTab E (fun j hj g hg => (hE j hj g hg).2) hj hg⟩

theorem cosetTables_ok (n : Nat) (rels : List (List Int)) (k fuel : Nat)
    (hcr : ∀ ρ ∈ rels, ρ = [] ∨ FWP.CR ρ) (hlet : ∀ w ∈ rels, ∀ x ∈ w, x ∈ allGensOf n)
    (hf : (BT.dfs (btProblem n (expandedRelatorSet rels) k) (height k) (.ok (Table.new n))).length ≤ fuel) :
    ∀ x ∈ cosetTables n rels k fuel, ∃ t' v, x = .ok t' ∧ t'.view = .ok v ∧
      (viewTab v).size = t'.len ∧
      ∀ j, j < t'.len → ∀ g ∈ allGensOf n, ∃ d, t'.get j g = .ok (some d) ∧ entry (viewTab v) n j g = some d :=
  cosetTables_ok_gen n rels rels k fuel (rotClosed_expanded hcr) hlet hlet hf

/-- **C12 for the model**: for relators that are empty or cyclically reduced, the views of the
    tables yielded by the model of `coset_tables(n, rels, k)` are a system of representatives
    of the isomorphism classes of valid tables (transitive actions of the presented group with
    a base point, i.e. conjugacy classes of subgroups) with at most `k` rows: each yielded item
    is a valid table, no two are isomorphic, every valid table is isomorphic to one of them -/
theorem cosetTables_complete_irredundant (n : Nat) (rels : List (List Int)) (k fuel : Nat)
    (hcr : ∀ ρ ∈ rels, ρ = [] ∨ FWP.CR ρ) (hlet : ∀ w ∈ rels, ∀ x ∈ w, x ∈ allGensOf n)
    (hf : (BT.dfs (btProblem n (expandedRelatorSet rels) k) (height k) (.ok (Table.new n))).length ≤ fuel) :
    (∀ x ∈ cosetTables n rels k fuel, ∃ t' v, x = .ok t' ∧ t'.view = .ok v ∧
      validTable (viewTab v) n rels [] = true ∧ (viewTab v).size ≤ max k 1) ∧
    (cosetTables n rels k fuel).Pairwise (fun x y => ∀ t1 t2 v1 v2, x = .ok t1 → y = .ok t2 →
      t1.view = .ok v1 → t2.view = .ok v2 → ¬ ∃ σ, TabIso (viewTab v1) (viewTab v2) n σ) ∧
    (∀ A : Tab, validTable A n rels [] = true → A.size ≤ k →
      ∃ t' v σ, (Outcome.ok t') ∈ cosetTables n rels k fuel ∧ t'.view = .ok v ∧ TabIso A (viewTab v) n σ) := by
  refine ⟨?_, ?_, fun A hA hk => cosetTables_complete n rels k fuel hcr hlet hf A hA hk⟩
  · intro x hx
    obtain ⟨t', v, rfl, hv, _, _⟩ := cosetTables_ok n rels k fuel hcr hlet hf x hx
    obtain ⟨v', hv', h1, h2⟩ := cosetTables_valid n rels k fuel hcr hlet hf _ hx t' rfl
    rw [hv] at hv'
    injection hv' with hv'
    subst hv'
    exact ⟨t', v, rfl, hv, h1, h2⟩
  · have hp := cosetTables_irredundant n rels k fuel hcr hlet hf
    have hall := cosetTables_ok n rels k fuel hcr hlet hf
    -- strengthen the pairwise relation with membership
    have hp' : (cosetTables n rels k fuel).Pairwise (fun x y => x ∈ cosetTables n rels k fuel ∧
        y ∈ cosetTables n rels k fuel ∧ ∀ t1 t2, x = .ok t1 → y = .ok t2 → ¬ TIso n t1 t2) := by
      have := List.Pairwise.and_mem.mp hp
      exact this.imp (fun ⟨h1, h2, h3⟩ => ⟨h1, h2, h3⟩)
    refine hp'.imp ?_
    rintro x y ⟨hx, hy, hno⟩ t1 t2 v1 v2 rfl rfl hv1 hv2 ⟨σ, iso⟩
    obtain ⟨t1', w1, e1, hw1, hs1, hent1⟩ := hall _ hx
    obtain ⟨t2', w2, e2, hw2, hs2, hent2⟩ := hall _ hy
    injection e1 with e1; subst e1
    injection e2 with e2; subst e2
    rw [hv1] at hw1; injection hw1 with hw1; subst hw1
    rw [hv2] at hw2; injection hw2 with hw2; subst hw2
    apply hno t1 t2 rfl rfl
    have hN : t2.len = t1.len := by rw [← hs1, ← hs2]; exact iso.size
    refine ⟨σ, t1.len, rfl, hN, fun c hc => by have := iso.lt c (by rw [hs1]; exact hc); rw [hs1] at this; exact this,
      fun a b ha hb => iso.inj a b (by rw [hs1]; exact ha) (by rw [hs1]; exact hb), ?_⟩
    intro c g d hc hg hget
    obtain ⟨d1, hd1, he1⟩ := hent1 c hc g hg
    rw [hget] at hd1
    simp only [Outcome.ok.injEq, Option.some.injEq] at hd1
    subst hd1
    have hcomm := iso.comm c g (by rw [hs1]; exact hc)
    rw [he1] at hcomm
    simp only [Option.map_some] at hcomm
    have hσc : σ c < t2.len := by
      have := iso.lt c (by rw [hs1]; exact hc); rw [hs1] at this; omega
    obtain ⟨d2, hd2, he2⟩ := hent2 (σ c) hσc g hg
    rw [hcomm] at he2
    simp only [Option.some.injEq] at he2
    rw [he2]; exact hd2

end DSymVerif.CanonP
