/-
Lemmas about the model of the D-set generator, part 8: no panic anywhere.  From a state
satisfying the invariant `GInv`, `children` never produces the `panicked` node; hence for
`dim ≥ 1` the emitted sequence contains no panic.  Core Lean only.
-/
import DSymVerif.Proofs.DSetGenCanon

namespace DSymVerif.DSG
open DSymVerif.DS

/-- one iteration of the `for e` loop cannot panic -/
theorem childFor_total {dim maxSize : Nat} {s : GenState} {i d e : Nat}
    (hs : GInv dim maxSize s) (hnext : s.next = some (i, d)) (hde : d ≤ e) (hmax : e ≤ maxSize)
    (hsucc : e ≤ s.dset.size + 1) (hz : ¬ s.dset.size < e → s.dset.opU i e = 0) :
    ∃ r, childFor maxSize s i d e = .ok r := by
  obtain ⟨hi, hd1, hd2, hzd, _⟩ := hs.next_some i d hnext
  have hidim : i ≤ s.dset.dim := by rw [hs.dim_eq]; exact hi
  unfold childFor
  simp only
  split
  case h_2 hno =>
    exfalso
    by_cases hlt : s.dset.size < e
    · have hb : e < s.isRemapStart.size := by rw [hs.irs]; omega
      exact hno (s.dset.grow 1) (s.isRemapStart.setIfInBounds e true)
        (by rw [if_pos hlt, putC_of_lt hb])
    · exact hno s.dset s.isRemapStart (by rw [if_neg hlt])
  rename_i ds0 irs0 hgeq
  have hg : (s.dset.size < e ∧ e < s.isRemapStart.size ∧ ds0 = s.dset.grow 1 ∧
          irs0 = s.isRemapStart.setIfInBounds e true) ∨
       (¬ s.dset.size < e ∧ ds0 = s.dset ∧ irs0 = s.isRemapStart) := by
    split at hgeq
    · rename_i hlt
      split at hgeq
      · rename_i irs' hput
        cases hgeq
        obtain ⟨h1, h2⟩ := putC_ok hput
        exact Or.inl ⟨hlt, h1, rfl, h2⟩
      · cases hgeq
    · rename_i hlt
      cases hgeq
      exact Or.inr ⟨hlt, rfl, rfl⟩
  -- `set(i, d, e)` on two undefined entries
  have hv0 : ValidPartialSet ds0 := by
    rcases hg with ⟨_, _, rfl, _⟩ | ⟨_, rfl, _⟩
    · exact grow_valid hs.valid
    · exact hs.valid
  have hset : ∃ ds1, setC ds0 i d e = .ok ds1 := by
    rcases hg with ⟨hlt, _, rfl, _⟩ | ⟨hlt, rfl, _⟩
    · have hsz : (s.dset.grow 1).size = s.dset.size + 1 := rfl
      apply setC_of_free (grow_valid hs.valid) hidim hd1 (by rw [hsz]; omega) (by omega)
        (by rw [hsz]; omega)
      · rw [grow_opU hs.valid hidim hd1, if_pos hd2]; exact hzd
      · rw [grow_opU hs.valid hidim (by omega), if_neg (by omega)]
    · exact setC_of_free hs.valid hidim hd1 hd2 (by omega) (by omega) hzd (hz hlt)
  obtain ⟨ds1, hset⟩ := hset
  obtain ⟨hi0, hd01, hd02, _, _, _, _, _, _, _⟩ := setC_ok hset
  have hv1 := setC_valid hv0 hset
  have hx1 := setC_ext hset
  obtain ⟨r, hr, hspec⟩ := checkImpl_spec hv1 (i := i) (d := d) (by rw [hx1.dim_eq]; exact hi0)
    hd01 (by rw [hx1.size_eq]; exact hd02)
  rw [hset]
  simp only
  rw [hr]
  cases r with
  | none => exact ⟨none, rfl⟩
  | some ds2 =>
    simp only
    obtain ⟨hv2, hx2⟩ := hspec ds2 rfl
    have hdim2 : ds2.dim = s.dset.dim := by
      rw [hx2.dim_eq, hx1.dim_eq]
      rcases hg with ⟨_, _, rfl, _⟩ | ⟨_, rfl, _⟩ <;> rfl
    obtain ⟨nx, hnx, _, _⟩ := nextUndefined_spec hv2 (i0 := i) (d0 := d)
      (by rw [hdim2]; exact hidim) hd1 (by rw [hx2.size_eq, hx1.size_eq]; exact hd02)
    -- the invariant of the would-be child gives linkedness and the size bound
    have hinv : GInv dim maxSize { dset := ds2, isRemapStart := irs0, next := nx } :=
      step_inv (c := { dset := ds2, isRemapStart := irs0, next := nx }) hs hnext hmax hg hset hr
        (fun h => h) hnx
    have hsz2 : ds2.size ≤ maxSize := by
      rcases hinv.size_le with h | ⟨h, _⟩
      · exact h
      · have : ds2.size = 1 := h
        omega
    obtain ⟨rc, hrc⟩ := checkCanonicity_total hinv.valid hinv.linked hsz2 (irs := irs0) hinv.irs
    rw [hrc]
    cases rc with
    | none => exact ⟨none, rfl⟩
    | some irs =>
      simp only
      rw [hnx]
      exact ⟨_, rfl⟩

/-- the `for e in d..=max_e` loop cannot panic -/
theorem childLoop_total {dim maxSize : Nat} {s : GenState} {i d : Nat}
    (hs : GInv dim maxSize s) (hnext : s.next = some (i, d)) :
    ∀ (es : List Nat), (∀ e, e ∈ es → d ≤ e ∧ e ≤ maxSize ∧ e ≤ s.dset.size + 1) →
    ∃ cs, childLoop maxSize s i d es = .ok cs := by
  obtain ⟨hi, hd1, hd2, _, _⟩ := hs.next_some i d hnext
  have hidim : i ≤ s.dset.dim := by rw [hs.dim_eq]; exact hi
  intro es
  induction es with
  | nil => intro _; exact ⟨[], rfl⟩
  | cons e es ih =>
    intro hes
    obtain ⟨he1, he2, he3⟩ := hes e (by simp)
    obtain ⟨cs, hcs⟩ := ih (fun x hx => hes x (by simp [hx]))
    simp only [childLoop]
    by_cases hlt : s.dset.size < e
    · rw [if_pos hlt]
      simp only
      obtain ⟨r, hr⟩ := childFor_total hs hnext he1 he2 he3 (fun h => absurd hlt h)
      rw [hr]
      cases r with
      | none => exact ⟨cs, hcs⟩
      | some c => simp only [hcs]; exact ⟨_, rfl⟩
    · rw [if_neg hlt, opC_valid hs.valid hidim (by omega) (by omega)]
      simp only
      by_cases hz : s.dset.opU i e = 0
      · simp only [hz, decide_true]
        obtain ⟨r, hr⟩ := childFor_total hs hnext he1 he2 he3 (fun _ => hz)
        rw [hr]
        cases r with
        | none => exact ⟨cs, hcs⟩
        | some c => simp only [hcs]; exact ⟨_, rfl⟩
      · simp only [hz, decide_false]
        exact ⟨cs, hcs⟩

/-- from a state satisfying the invariant, `children` never yields the panic node -/
theorem children_no_panic {dim maxSize : Nat} {s : GenState} (hs : GInv dim maxSize s) :
    Node.panicked ∉ children maxSize (.st s) := by
  intro hc
  unfold children at hc
  simp only at hc
  split at hc
  · cases hc
  · rename_i i d hnext
    have hst : storeOk s.dset = true := by
      simp only [storeOk, beq_iff_eq]; exact hs.valid.size_eq
    rw [hst] at hc
    simp only [Bool.not_true, Bool.false_eq_true, if_false] at hc
    obtain ⟨cs, hcs⟩ := childLoop_total hs hnext
      (List.range' d (min (s.dset.size + 1) maxSize + 1 - d)) (by
        intro e he
        have hr := List.mem_range'_1.1 he
        have hm1 : min (s.dset.size + 1) maxSize ≤ maxSize := Nat.min_le_right _ _
        have hm2 : min (s.dset.size + 1) maxSize ≤ s.dset.size + 1 := Nat.min_le_left _ _
        omega)
    rw [hcs] at hc
    simp at hc

/-- for `dim ≥ 1` no state of the tree is the panic node -/
theorem reach_no_panic {dim maxSize : Nat} {n m : Node}
    (hr : BT.Reach (problem dim maxSize) n m) :
    (∃ s, n = .st s ∧ GInv dim maxSize s) → ∃ t, m = .st t ∧ GInv dim maxSize t := by
  induction hr with
  | refl => exact id
  | @step s c t hc _ ih =>
    intro hn
    apply ih
    obtain ⟨s', rfl, hs'⟩ := hn
    have hc' : c ∈ children maxSize (.st s') := hc
    rcases children_inv hs' hc' with rfl | h
    · exact absurd hc' (children_no_panic hs')
    · exact h

/-- **the generator never panics** (for `dim ≥ 1`, where `PartialDSet::new` accepts the
    dimension) -/
theorem dsets_no_panic {dim maxSize : Nat} (hdim : 1 ≤ dim) :
    Outcome.panic ∉ dsets dim maxSize := by
  intro h
  rw [dsets_eq_dfs] at h
  obtain ⟨n, hn, hx⟩ := List.mem_filterMap.1 h
  have hreach := (BT.mem_dfs_iff (problem dim maxSize) (height maxSize)
    (children_decreasing dim maxSize) (root dim maxSize) n).1 hn
  have hroot : ∃ s, root dim maxSize = .st s ∧ GInv dim maxSize s := by
    rw [root_eq, if_neg (by omega)]
    exact ⟨_, rfl, rootState_inv dim maxSize⟩
  obtain ⟨t, rfl, _⟩ := reach_no_panic hreach hroot
  simp only [extract] at hx
  split at hx
  · injection hx with hx; cases hx
  · cases hx

/-- `extract` never yields the unused `err` outcome -/
theorem dsets_no_err (dim maxSize : Nat) : Outcome.err ∉ dsets dim maxSize := by
  intro h
  rw [dsets_eq_dfs] at h
  obtain ⟨n, _, hx⟩ := List.mem_filterMap.1 h
  cases n with
  | panicked => simp [extract] at hx
  | st t =>
    simp only [extract] at hx
    split at hx
    · injection hx with hx; cases hx
    · cases hx

/-! ### a small witness for the non-vacuity examples of Props/C06 -/

/-- witness: 1 -0- 2 -2- 3 -0- 4, everything else undefined (dim 2) -/
def exPath : DSetData := { size := 4, dim := 2, op := #[2, 0, 0, 1, 0, 3, 4, 0, 2, 3, 0, 0] }

theorem exPath_valid : ValidPartialSet exPath := validB_sound (by decide)

theorem exPath_linked : Linked exPath := by
  intro e h2 h4
  have h4' : e ≤ 4 := h4
  have : e = 2 ∨ e = 3 ∨ e = 4 := by omega
  rcases this with rfl | rfl | rfl
  · exact ⟨0, by decide, by decide, by decide⟩
  · exact ⟨2, by decide, by decide, by decide⟩
  · exact ⟨0, by decide, by decide, by decide⟩

end DSymVerif.DSG
