/-
Helper lemmas for property C04, part 12: morphisms of symbols in table form (`SymMor`), pull-back
of congruences, connectedness of images, and the assembly of `minimal_image`:
`minimalImage ds = .ok c`, the class-numbering map is a surjective morphism `ds → c` whose kernel
is the coarsest degree-respecting congruence, and `c` is minimal.
-/
import DSymVerif.Proofs.MorphismQuot2

namespace DSymVerif.Mor
open DSymVerif.DS

/-- a morphism of D-symbols: commutes with every operation, preserves every degree m(i,i+1) -/
structure SymMor (a b : DSymData) (π : Nat → Nat) : Prop where
  conj : SemiConj a.dset b.dset π
  deg : ∀ i d, i < a.dim → 1 ≤ d → d ≤ a.size → b.mVal i (π d) = a.mVal i d

/-- `π` maps 1..|a| onto 1..|b| -/
def Surj (a b : DSymData) (π : Nat → Nat) : Prop :=
  ∀ k, 1 ≤ k → k ≤ b.size → ∃ d, 1 ≤ d ∧ d ≤ a.size ∧ π d = k

theorem ofSym_op {a : DSymData} {i d : Nat} (hi : i ≤ a.dim) (h1 : 1 ≤ d) (h2 : d ≤ a.size) :
    (ofSym a).op i d = some (a.dset.opU i d) :=
  opSimple_of_range (t := a.dset) hi h1 h2

theorem ofSym_m {a : DSymData} (ha : ValidTables a) {i d : Nat} (hi : i < a.dim) (h1 : 1 ≤ d)
    (h2 : d ≤ a.size) : (ofSym a).m i d = some (a.mVal i d) :=
  ha.mAdj_eq hi h1 h2

namespace SymMor
variable {a b : DSymData} {π : Nat → Nat}

theorem dim (h : SymMor a b π) : b.dim = a.dim := h.conj.dim

/-- in the vocabulary of the morphism-search theorems -/
theorem isMor (h : SymMor a b π) (ha : ValidTables a) (hb : ValidTables b) :
    IsMor (ofSym a) (ofSym b) π ∧ InRange (ofSym a) (ofSym b) π := by
  refine ⟨⟨fun d h1 h2 => ?_, fun d h1 h2 i hi di ei hdi hei => ?_⟩, fun d h1 h2 => h.conj.range d h1 h2⟩
  · unfold degreesMatch2
    simp only [List.all_eq_true, List.mem_range, beq_iff_eq]
    intro i hi
    have r := h.conj.range d h1 h2
    have hi' : i < a.dim := hi
    rw [ofSym_m ha hi' h1 h2, ofSym_m hb (by rw [h.dim]; exact hi') r.1 r.2, h.deg i d hi' h1 h2]
  · have hi' : i ≤ a.dim := hi
    have r := h.conj.range d h1 h2
    rw [ofSym_op hi' h1 h2] at hdi
    rw [ofSym_op (by rw [h.dim]; exact hi') r.1 r.2, h.conj.op i d hi' h1 h2] at hei
    cases hdi; cases hei; rfl

/-- conversely -/
theorem of_isMor (ha : ValidTables a) (hb : ValidTables b) (hd : b.dim = a.dim)
    (hm : IsMor (ofSym a) (ofSym b) π) (hr : InRange (ofSym a) (ofSym b) π) : SymMor a b π := by
  refine ⟨⟨hd, fun x h1 h2 => hr x h1 h2, fun i x hi h1 h2 => ?_⟩, fun i d hi h1 h2 => ?_⟩
  · have r := hr x h1 h2
    have := hm.op x h1 h2 i hi _ _ (ofSym_op hi h1 h2) (ofSym_op (a := b) (by rw [hd]; exact hi) r.1 r.2)
    exact this.symm
  · have r := hr d h1 h2
    have := hm.deg d h1 h2
    unfold degreesMatch2 at this
    simp only [List.all_eq_true, List.mem_range, beq_iff_eq] at this
    have e := this i hi
    rw [ofSym_m ha hi h1 h2, ofSym_m hb (by rw [hd]; exact hi) r.1 r.2] at e
    exact (Option.some.inj e).symm

theorem id (a : DSymData) : SymMor a a (fun d => d) :=
  ⟨⟨rfl, fun _ h1 h2 => ⟨h1, h2⟩, fun _ _ _ _ _ => rfl⟩, fun _ _ _ _ _ => rfl⟩

theorem comp {c : DSymData} {σ : Nat → Nat} (h1 : SymMor a b π) (h2 : SymMor b c σ) :
    SymMor a c (fun d => σ (π d)) := by
  refine ⟨⟨h2.dim.trans h1.dim, fun x hx1 hx2 => ?_, fun i x hi hx1 hx2 => ?_⟩, fun i d hi hd1 hd2 => ?_⟩
  · have r := h1.conj.range x hx1 hx2
    exact h2.conj.range _ r.1 r.2
  · have r := h1.conj.range x hx1 hx2
    show c.dset.opU i (σ (π x)) = σ (π (a.dset.opU i x))
    rw [h2.conj.op i _ (by rw [h1.conj.dim]; exact hi) r.1 r.2, h1.conj.op i x hi hx1 hx2]
  · have r := h1.conj.range d hd1 hd2
    show c.mVal i (σ (π d)) = a.mVal i d
    rw [h2.deg i _ (by rw [h1.dim]; exact hi) r.1 r.2, h1.deg i d hi hd1 hd2]

end SymMor

theorem Surj.comp {a b c : DSymData} {π σ : Nat → Nat} (h1 : Surj a b π) (h2 : Surj b c σ) :
    Surj a c (fun d => σ (π d)) := by
  intro k hk1 hk2
  obtain ⟨e, he1, he2, rfl⟩ := h2 k hk1 hk2
  obtain ⟨d, hd1, hd2, rfl⟩ := h1 e he1 he2
  exact ⟨d, hd1, hd2, rfl⟩

/-! ### pull-back of a congruence along a morphism -/

/-- `γ ∘ π` on 1..n; chambers outside are alone in their classes -/
def pull (γ π : Nat → Nat) (n : Nat) : Nat → Nat :=
  fun x => if 1 ≤ x ∧ x ≤ n then 2 * γ (π x) else 2 * x + 1

theorem pull_eq {γ π : Nat → Nat} {n x y : Nat} (h : pull γ π n x = pull γ π n y) :
    x = y ∨ ((1 ≤ x ∧ x ≤ n) ∧ (1 ≤ y ∧ y ≤ n) ∧ γ (π x) = γ (π y)) := by
  unfold pull at h
  by_cases hx : 1 ≤ x ∧ x ≤ n <;> by_cases hy : 1 ≤ y ∧ y ≤ n
  · simp only [hx, hy, and_self, if_true] at h
    exact Or.inr ⟨hx, hy, by omega⟩
  · simp only [hx, hy, and_self, if_true, if_false] at h; omega
  · simp only [hx, hy, and_self, if_true, if_false] at h; omega
  · simp only [hx, hy, if_false] at h
    exact Or.inl (by omega)

theorem pull_in {γ π : Nat → Nat} {n x y : Nat} (hx : 1 ≤ x ∧ x ≤ n) (hy : 1 ≤ y ∧ y ≤ n) :
    pull γ π n x = pull γ π n y ↔ γ (π x) = γ (π y) := by
  unfold pull
  simp only [hx, hy, and_self, if_true]
  omega

theorem SymMor.pull_cong {a b : DSymData} {π : Nat → Nat} (h : SymMor a b π) (ha : ValidTables a)
    (hb : ValidTables b) {γ : Nat → Nat} (hγ : Cong (ofSym b) γ) :
    Cong (ofSym a) (pull γ π a.size) := by
  obtain ⟨hm, hr⟩ := h.isMor ha hb
  refine ⟨fun x y hx1 hx2 hy1 hy2 hxy i hi xi yi hxi hyi => ?_, fun x y hxy => ?_⟩
  · have hi' : i ≤ a.dim := hi
    have hxy' := (pull_in (γ := γ) (π := π) ⟨hx1, hx2⟩ ⟨hy1, hy2⟩).1 hxy
    rw [ofSym_op hi' hx1 hx2] at hxi
    rw [ofSym_op hi' hy1 hy2] at hyi
    cases hxi; cases hyi
    have rx := ha.set.range i x hi' hx1 hx2
    have ry := ha.set.range i y hi' hy1 hy2
    apply (pull_in (γ := γ) (π := π) rx ry).2
    have px := h.conj.range x hx1 hx2
    have py := h.conj.range y hy1 hy2
    have hib : i ≤ b.dim := by rw [h.dim]; exact hi'
    rw [← h.conj.op i x hi' hx1 hx2, ← h.conj.op i y hi' hy1 hy2]
    exact hγ.closed _ _ px.1 px.2 py.1 py.2 hxy' i hib _ _ (ofSym_op hib px.1 px.2) (ofSym_op hib py.1 py.2)
  · rcases pull_eq hxy with rfl | ⟨hx, hy, hg⟩
    · exact degreesMatch_refl _ _
    · rw [degreesMatch_iff]
      intro i hi
      have hi' : i < a.dim := hi
      have px := h.conj.range x hx.1 hx.2
      have py := h.conj.range y hy.1 hy.2
      have hib : i < b.dim := by rw [h.dim]; exact hi'
      have e := (degreesMatch_iff (ofSym b) _ _).1 (hγ.deg _ _ hg) i hib
      rw [ofSym_m hb hib px.1 px.2, ofSym_m hb hib py.1 py.2, h.deg i x hi' hx.1 hx.2,
        h.deg i y hi' hy.1 hy.2] at e
      rw [ofSym_m ha hi' hx.1 hx.2, ofSym_m ha hi' hy.1 hy.2]
      exact e

/-- the kernel of a morphism is a degree-respecting congruence -/
theorem SymMor.ker_cong {a b : DSymData} {π : Nat → Nat} (h : SymMor a b π) (ha : ValidTables a)
    (hb : ValidTables b) : Cong (ofSym a) (pull (fun k => k) π a.size) :=
  h.pull_cong ha hb ⟨opClosed_new (ofSym b), degResp_new (ofSym b)⟩

/-! ### the image of a connected symbol is connected -/

theorem SymMor.connected {a b : DSymData} {π : Nat → Nat} (h : SymMor a b π) (hsurj : Surj a b π)
    (h1 : π 1 = 1) (hconn : Connected (ofSym a)) : Connected (ofSym b) := by
  intro R hR1 hcl k hk1 hk2
  obtain ⟨d, hd1, hd2, rfl⟩ := hsurj k hk1 hk2
  apply hconn (fun d => R (π d)) (by rw [h1]; exact hR1) _ d hd1 hd2
  intro d i di hd1' hd2' hi hR hdi
  have hi' : i ≤ a.dim := hi
  rw [ofSym_op hi' hd1' hd2'] at hdi
  cases hdi
  have r := h.conj.range d hd1' hd2'
  have hib : i ≤ b.dim := by rw [h.dim]; exact hi'
  rw [← h.conj.op i d hi' hd1' hd2']
  exact hcl (π d) i _ r.1 r.2 hib hR (ofSym_op hib r.1 r.2)

end DSymVerif.Mor
