/-
C12 completeness: every valid table with at most `k` rows is isomorphic to a table yielded by
the model of `coset_tables` (the target is the re-basing with the smallest key; the search
follows it slot by slot).
-/
import DSymVerif.Proofs.LowIndexMin

namespace DSymVerif.CanonP
open DSymVerif DSymVerif.Cosets DSymVerif.SpecC11 DSymVerif.SpecC12 DSymVerif.CosetP DSymVerif.RebaseP
open DSymVerif.LowIndexP DSymVerif.CosetInvP DSymVerif.CosetPartP

/-- **completeness** of the low-index search of the model: every valid table (transitive
    action of the presented group with a base point) with at most `k` rows is isomorphic to
    one of the tables the search yields -/
theorem cosetTables_complete_gen (n : Nat) (rels rels' : List (List Int)) (k fuel : Nat)
    (hrot : RotClosed rels' (expandedRelatorSet rels)) (hlet' : ∀ w ∈ rels', ∀ x ∈ w, x ∈ allGensOf n)
    (hlet : ∀ w ∈ rels, ∀ x ∈ w, x ∈ allGensOf n)
    (hf : (BT.dfs (btProblem n (expandedRelatorSet rels) k) (height k) (.ok (Table.new n))).length ≤ fuel)
    (A : Tab) (hA : validTable A n rels [] = true) (hk : A.size ≤ k) :
    ∃ t' v σ, (Outcome.ok t') ∈ cosetTables n rels k fuel ∧ t'.view = .ok v ∧ TabIso A (viewTab v) n σ := by
  have hvA := valid_of_validTable hA
  have hwR : ∀ u ∈ expandedRelatorSet rels, ∀ y ∈ u, y ∈ allGensOf n :=
    expandedRelatorSet_letters (S := fun y => y ∈ allGensOf n) (fun y hy => neg_mem_allGensOf hy) hlet
  -- the re-basing with the smallest key
  obtain ⟨u0, _, _, hren0, _, _, _⟩ := renumberFrom_std hvA 0 hvA.pos
  have hne : rebasings A n ≠ [] := by
    intro he
    have : tabKey u0 ∈ rebasings A n := mem_rebasings.mpr ⟨0, hvA.pos, u0, hren0, rfl⟩
    rw [he] at this
    cases this
  obtain ⟨m, hm⟩ : ∃ m, lexMin (rebasings A n) = some m := by
    cases h : lexMin (rebasings A n) with
    | none => exact absurd (lexMin_eq_none.mp h) hne
    | some m => exact ⟨m, rfl⟩
  obtain ⟨hmem, hmin⟩ := lexMin_spec hm
  obtain ⟨b, hb, u, hren, hkey⟩ := mem_rebasings.mp hmem
  obtain ⟨u', ord, o2n, hren', r, _, hstd⟩ := renumberFrom_std hvA b hb
  have huu : u' = u := by rw [hren] at hren'; injection hren' with h; exact h.symm
  subst huu
  have iso := r.iso_fwd
  have hvu : Valid u' n rels [] := valid_iso_std iso hvA hstd
  have hminu : ∀ x ∈ rebasings u' n, lexLt x (tabKey u') = false := by
    intro x hx
    rw [hkey]
    exact hmin x ((rebasings_iso iso x).mp hx)
  have hcanon := ofView_canonical hvu hstd hvA r hminu
  have husz : u'.size = A.size := iso.size
  have tg : Target k n (expandedRelatorSet rels) (Table.ofView n u') := by
    refine ⟨ofView_tcq hvu hstd, ofView_clean n u', ofView_complete hvu, ?_, rfl, ?_, ofView_cs hstd, hcanon⟩
    · intro v hv r' hr'
      rw [ofView_len] at hr'
      exact mtrace_ofView v r' r' (expanded_close hvu hlet hv r' hr')
    · rw [ofView_len]; omega
  obtain ⟨Q, t', hreach, hext, hlen, hgens, hget⟩ := target_found hrot hlet' hwR tg
  rw [ofView_len] at hlen
  have hmemt : (Outcome.ok t') ∈ cosetTables n rels k fuel := by
    unfold cosetTables
    rw [BT.run_eq_dfs _ (height k) (btProblem_decreasing n _ k) fuel hf]
    exact List.mem_filterMap.mpr ⟨.ok Q,
      (BT.mem_dfs_iff _ (height k) (btProblem_decreasing n _ k) _ _).mpr hreach, hext⟩
  -- the view of the yielded table
  let E : Nat → Int → Nat := fun j g => val (Table.ofView n u') j g
  have hE : ∀ j, j < u'.size → ∀ g ∈ allGensOf n, (Table.ofView n u').get j g = .ok (some (E j g)) ∧
      E j g < u'.size := by
    intro j hj g hg
    obtain ⟨d, hd⟩ := hvu.total j hj g (by rw [← allGensOf_eq_letters]; exact hg)
    have := get_ofView hd
    refine ⟨by rw [this]; simp only [E, val_eq this], ?_⟩
    simp only [E, val_eq this]
    exact (entry_some hd).1
  have hag : t'.allGens = allGensOf n := by unfold Table.allGens; rw [hgens]
  have hview : t'.view = .ok ((List.range u'.size).map fun j => (allGensOf n).map fun g => ((E j g : Nat) : Int)) := by
    unfold Table.view
    rw [hlen, ← hag]
    apply viewRows_ok t' E
    intro j hj g hg
    rw [hag] at hg
    have hj' := List.mem_range.mp hj
    exact hget j g _ (by rw [ofView_len]; exact hj') hg (hE j hj' g hg).1
  refine ⟨t', _, fun c => o2n.getD c 0, hmemt, hview, ?_⟩
  have hvsz : (viewTab ((List.range u'.size).map fun j => (allGensOf n).map fun g => ((E j g : Nat) : Int))).size
      = A.size := by
    simp [viewTab, husz]
  refine ⟨hvsz, iso.lt, iso.inj, ?_⟩
  intro c g hc
  have hσ : o2n.getD c 0 < u'.size := by rw [husz]; exact iso.lt c hc
  by_cases hg : g ∈ letters n
  · have hg' : g ∈ allGensOf n := by rw [allGensOf_eq_letters]; exact hg
    rw [entry_viewTab E (fun j hj g hg => (hE j hj g hg).2) hσ hg']
    obtain ⟨d, hd⟩ := hvA.total c hc g hg
    have hc' := iso.comm c g hc
    rw [hd] at hc' ⊢
    simp only [Option.map_some] at hc' ⊢
    simp only [E, val_eq (get_ofView hc')]
  · have hcol : col n g = none := by
      cases h : col n g with
      | none => rfl
      | some j => exact absurd (col_isSome.mp (by rw [h]; rfl)) hg
    rw [entry_of_col_none hcol, entry_of_col_none hcol]
    rfl

theorem cosetTables_complete (n : Nat) (rels : List (List Int)) (k fuel : Nat)
    (hcr : ∀ ρ ∈ rels, ρ = [] ∨ FWP.CR ρ) (hlet : ∀ w ∈ rels, ∀ x ∈ w, x ∈ allGensOf n)
    (hf : (BT.dfs (btProblem n (expandedRelatorSet rels) k) (height k) (.ok (Table.new n))).length ≤ fuel)
    (A : Tab) (hA : validTable A n rels [] = true) (hk : A.size ≤ k) :
    ∃ t' v σ, (Outcome.ok t') ∈ cosetTables n rels k fuel ∧ t'.view = .ok v ∧ TabIso A (viewTab v) n σ :=
  cosetTables_complete_gen n rels rels k fuel (rotClosed_expanded hcr) hlet hlet hf A hA hk

end DSymVerif.CanonP
