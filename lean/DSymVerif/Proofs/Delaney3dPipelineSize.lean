/-
Property C15, phase 3: the number of rows of every candidate of `construct_candidates` is the
order of one of the point groups: core tables have 1, 2, 3, 4, 6, 8, 12 or 24 rows
(`coreType_of_core`), and the second loop files an intersection table only if it has 6 (`z6`) or
12 (`d6`) rows.
-/
import DSymVerif.Proofs.Delaney3dPipelineFlat

namespace DSymVerif.D3
open DSymVerif DSymVerif.Cosets

def SizeOK (t : Tab) : Prop := t.size ∈ [1, 2, 3, 4, 6, 8, 12, 24]

section
variable {n : Nat}

theorem pairStep_size {cones cones2 : List (List Int × Nat)} {ta tb : Tab} {c c' : Candidates}
    (hc : AllCands SizeOK c) (h : pairStep n cones cones2 ta tb c = .ok c') : AllCands SizeOK c' := by
  unfold pairStep at h
  split at h
  · rename_i tx htx
    split at h
    · split at h
      · rename_i hsz
        split at h
        · exact candPush_all h hc (by unfold SizeOK; rw [hsz.2]; decide)
        · cases h; exact hc
        · cases h
        · cases h
      · split at h
        · rename_i hsz
          split at h
          · cases h; exact hc
          · exact candPush_all h hc (by unfold SizeOK; rw [hsz.2]; decide)
          · cases h
          · cases h
        · cases h; exact hc
    · cases h; exact hc
    · cases h
    · cases h
  · cases h
  · cases h

theorem innerLoop_size {cones cones2 : List (List Int × Nat)} {ta : Tab} :
    ∀ (tbs : List Tab) (c c' : Candidates), AllCands SizeOK c →
      innerLoop n cones cones2 ta tbs c = .ok c' → AllCands SizeOK c'
  | [], c, c', hc, h => by simp only [innerLoop] at h; cases h; exact hc
  | tb :: rest, c, c', hc, h => by
    unfold innerLoop at h
    split at h
    · split at h
      · rename_i c1 hc1
        exact innerLoop_size rest c1 c' (pairStep_size hc hc1) h
      · cases h
      · cases h
    · exact innerLoop_size rest c c' hc h

theorem secondLoop_size {cones cones2 cones3 : List (List Int × Nat)} {all : List Tab} :
    ∀ (tas : List Tab) (c c' : Candidates), AllCands SizeOK c →
      secondLoop n cones cones2 cones3 all tas c = .ok c' → AllCands SizeOK c'
  | [], c, c', hc, h => by simp only [secondLoop] at h; cases h; exact hc
  | ta :: rest, c, c', hc, h => by
    unfold secondLoop at h
    split at h
    · split at h
      · rename_i c1 hc1
        exact secondLoop_size rest c1 c' (innerLoop_size all c c1 hc hc1) h
      · cases h
      · cases h
    · exact secondLoop_size rest c c' hc h
    · cases h
    · cases h

end

/-- **rows of every candidate ∈ {1,2,3,4,6,8,12,24}** -/
theorem constructCandidates_sizes (fg : FG.FundGroup) (hg : GroupOK fg)
    (hdom : Tables.coreTypeBySize.map (·.1) = [1, 2, 3, 6, 8, 12, 24]) (hsp : Tables.coreTypeSpecialSize = 4)
    (hb : Tables.candidateIndexBound = 4) (cands : Candidates)
    (h : constructCandidates fg = .ok cands) : AllCands SizeOK cands := by
  unfold constructCandidates at h
  simp only at h
  split at h
  · rename_i cts hcts
    have hcore := constructCandidates_cores fg hg cts hcts
    have hQ : ∀ t ∈ cts, SizeOK t := by
      intro t ht
      have := hcore t ht
      rw [hb] at this
      exact (coreType_of_core hg.letters this hdom hsp).1
    split at h
    · rename_i c1 hc1
      have h1 := firstLoop_allQ cts _ c1 hQ
        (fun e he t ht => by
          obtain ⟨p, _, rfl⟩ := List.mem_map.mp he
          cases ht) hc1
      exact secondLoop_size cts c1 cands h1 h
    · cases h
    · cases h
  · cases h
  · cases h

end DSymVerif.D3
