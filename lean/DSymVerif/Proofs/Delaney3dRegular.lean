/-
Property C15, phase 2: the candidate tables are REGULAR permutation representations — the
stabiliser of every row is the kernel of the action (the candidate subgroup is normal): a
permutation of the image group that fixes one row is the identity.

* core table: row 0 is fixed by a word iff the word fixes every row of the input (C13), i.e. the
  stabiliser of row 0 is the kernel of the input action, a normal subgroup;
* intersection of two regular tables: row 0 is fixed iff row 0 of both inputs is, i.e. the
  stabiliser is the intersection of two normal subgroups;
* in a transitive action the stabilisers of the rows are conjugate, so a normal stabiliser is
  the stabiliser of every row.
Stated for the representation `rhoM` (C05 `CoversAction`) of the presentation C09 returns.
-/
import DSymVerif.Proofs.Delaney3dMono

namespace DSymVerif.D3
open DSymVerif DSymVerif.Cosets DSymVerif.SpecC11 DSymVerif.CosetP DSymVerif.FWP DSymVerif.CoversP DSymVerif.FGP

/-- every element of the free group on ℕ acts like a word over the letters `±1..±n` (generators
    outside `1..n` act trivially), uniformly in the table -/
theorem rho0_word (n : Nat) (y : FreeGroup ℕ) : ∃ w : List Int, (∀ g ∈ w, g ∈ letters n) ∧
    ∀ {tab : Tab} {rels subs : List (List Int)} (hv : Valid tab n rels subs),
      FreeGroup.lift (rho0 hv) y = FreeGroup.lift (rho0 hv) (den w) := by
  induction y using FreeGroup.induction_on with
  | C1 => exact ⟨[], (fun _ h => by cases h), fun _ => by rw [den_nil]⟩
  | of k =>
    by_cases hk : 1 ≤ k ∧ k ≤ n
    · refine ⟨[(k : Int)], ?_, fun _ => by rw [den_pos k (by omega)]⟩
      intro g hg
      simp only [List.mem_singleton] at hg
      subst hg
      rw [mem_letters]; left; omega
    · refine ⟨[], (fun _ h => by cases h), fun hv => ?_⟩
      rw [den_nil, map_one, FreeGroup.lift_apply_of]
      unfold rho0
      rw [dif_neg hk]
  | inv_of k ih =>
    obtain ⟨w, hw, e⟩ := ih
    refine ⟨w.reverse.map (fun x => -x), ?_, fun hv => by rw [den_invRaw, map_inv, map_inv, e hv]⟩
    intro g hg
    obtain ⟨x, hx, rfl⟩ := List.mem_map.mp hg
    exact neg_mem_letters (hw x (List.mem_reverse.mp hx))
  | mul a b iha ihb =>
    obtain ⟨wa, ha, ea⟩ := iha
    obtain ⟨wb, hb, eb⟩ := ihb
    refine ⟨wa ++ wb, ?_, fun hv => by rw [den_append, map_mul, map_mul, ea hv, eb hv]⟩
    intro g hg
    rcases List.mem_append.mp hg with h | h
    · exact ha g h
    · exact hb g h

section
variable {tab : Tab} {n : Nat} {rels subs : List (List Int)} (hv : Valid tab n rels subs)

/-- the permutation of a word fixes row `k` iff the word traces from `k` to `k` -/
theorem rhoM_fix_iff (w : List Int) (hw : ∀ g ∈ w, g ∈ letters n) (k : Fin tab.size) :
    rhoM hv (PresentedGroup.mk _ (den w)) k = k ↔ SpecC11.traceWord tab n k.val w = some k.val := by
  obtain ⟨d, hd⟩ := traceWord_total hv w k.val k.isLt hw
  have h := rhoM_trace hv w k d hd
  constructor
  · intro hfix
    have : (rhoM hv (PresentedGroup.mk _ (den w)))⁻¹ k = k := by
      rw [Equiv.Perm.inv_eq_iff_eq]; exact hfix.symm
    rw [this] at h
    rw [hd, ← h]
  · intro htr
    rw [hd] at htr
    have hdk : d = k.val := Option.some.inj htr
    have : (rhoM hv (PresentedGroup.mk _ (den w)))⁻¹ k = k := Fin.ext (by rw [h, hdk])
    rw [Equiv.Perm.inv_eq_iff_eq] at this
    exact this.symm

/-- every permutation of the image is the permutation of a word -/
theorem rhoM_word (x : PresentedGroup (MRel n rels)) :
    ∃ w : List Int, (∀ g ∈ w, g ∈ letters n) ∧
      ∀ {tab' : Tab} {subs' : List (List Int)} (hv' : Valid tab' n rels subs'),
        rhoM hv' x = rhoM hv' (PresentedGroup.mk _ (den w)) := by
  induction x using PresentedGroup.induction_on with
  | _ y =>
    obtain ⟨w, hw, e⟩ := rho0_word n y
    exact ⟨w, hw, fun hv' => by rw [rhoM_mk, rhoM_mk, e hv']⟩

theorem rhoM_transitive (k : Fin tab.size) : ∃ y, rhoM hv y ⟨0, hv.pos⟩ = k := by
  obtain ⟨w, hw⟩ := hv.conn k.val k.isLt
  refine ⟨(PresentedGroup.mk _ (den w))⁻¹, ?_⟩
  rw [map_inv]
  exact Fin.ext (rhoM_trace hv w ⟨0, hv.pos⟩ k.val hw)

/-- the stabiliser of row 0 is `N`, and `N` is invariant under conjugation ⇒ the action is
    regular: a permutation of the image fixing one row is the identity -/
theorem regular_of_normal (N : PresentedGroup (MRel n rels) → Prop)
    (hconj : ∀ x y, N x → N (y⁻¹ * x * y))
    (h0 : ∀ x, rhoM hv x ⟨0, hv.pos⟩ = ⟨0, hv.pos⟩ ↔ N x) :
    ∀ x k, rhoM hv x k = k → rhoM hv x = 1 := by
  intro x k hk
  obtain ⟨y, hy⟩ := rhoM_transitive hv k
  have hN : N (y⁻¹ * x * y) := by
    apply (h0 _).mp
    rw [map_mul, map_mul, map_inv, Equiv.Perm.mul_apply, Equiv.Perm.mul_apply, hy, hk,
      Equiv.Perm.inv_eq_iff_eq, hy]
  have hNx : N x := by
    have := hconj _ y⁻¹ hN
    simpa [mul_assoc] using this
  ext c
  obtain ⟨z, hz⟩ := rhoM_transitive hv c
  have hNz := (h0 _).mpr (hconj x z hNx)
  rw [map_mul, map_mul, map_inv, Equiv.Perm.mul_apply, Equiv.Perm.mul_apply, hz,
    Equiv.Perm.inv_eq_iff_eq, hz] at hNz
  rw [hNz]
  rfl

end

/-- a table all of whose valid readings are regular -/
def Regular (t : Tab) (n : Nat) (rels : List (List Int)) : Prop :=
  ∀ (hv : Valid t n rels []) (x : PresentedGroup (MRel n rels)) (k : Fin t.size),
    rhoM hv x k = k → rhoM hv x = 1

/-- the core table of a valid table is regular -/
theorem coreTab_regular {t c : Tab} {n : Nat} {rels : List (List Int)}
    (hlet : ∀ w ∈ rels, ∀ x ∈ w, x ∈ allGensOf n) (hvt : validTable t n rels [] = true)
    (hc : coreTab n t = .ok c) : Regular c n rels := by
  obtain ⟨c', hc', _, hrow0, _⟩ := coreTab_valid hlet hvt
  rw [hc] at hc'
  cases hc'
  have hVt := valid_of_validTable hvt
  intro hv
  apply regular_of_normal hv (fun x => rhoM hVt x = 1)
  · intro x y hx
    rw [map_mul, map_mul, hx, map_inv]
    group
  · intro x
    obtain ⟨w, hw, e⟩ := rhoM_word (n := n) (rels := rels) x
    rw [e hv, e hVt, rhoM_fix_iff hv w hw, hrow0 w hw]
    constructor
    · intro hall
      ext r
      have := (rhoM_fix_iff hVt w hw r).mpr (hall r.val r.isLt)
      rw [this]; rfl
    · intro h1 r hr
      have := (rhoM_fix_iff hVt w hw ⟨r, hr⟩).mp (by rw [h1]; rfl)
      exact this

/-- the intersection table of two regular valid tables is regular -/
theorem interTab_regular {ta tb c : Tab} {n : Nat} {rels : List (List Int)}
    (hlet : ∀ w ∈ rels, ∀ x ∈ w, x ∈ allGensOf n)
    (hva : validTable ta n rels [] = true) (hvb : validTable tb n rels [] = true)
    (hra : Regular ta n rels) (hrb : Regular tb n rels)
    (hc : interTab n ta tb = .ok c) : Regular c n rels := by
  obtain ⟨c', hc', _, hrow0⟩ := interTab_valid hlet hva hvb
  rw [hc] at hc'
  cases hc'
  have hVa := valid_of_validTable hva
  have hVb := valid_of_validTable hvb
  intro hv
  apply regular_of_normal hv (fun x => rhoM hVa x = 1 ∧ rhoM hVb x = 1)
  · rintro x y ⟨h1, h2⟩
    constructor
    · rw [map_mul, map_mul, h1, map_inv]; group
    · rw [map_mul, map_mul, h2, map_inv]; group
  · intro x
    obtain ⟨w, hw, e⟩ := rhoM_word (n := n) (rels := rels) x
    rw [e hv, e hVa, e hVb, rhoM_fix_iff hv w hw, hrow0 w hw]
    constructor
    · rintro ⟨h1, h2⟩
      exact ⟨hra hVa _ ⟨0, hVa.pos⟩ ((rhoM_fix_iff hVa w hw ⟨0, hVa.pos⟩).mpr h1),
        hrb hVb _ ⟨0, hVb.pos⟩ ((rhoM_fix_iff hVb w hw ⟨0, hVb.pos⟩).mpr h2)⟩
    · rintro ⟨h1, h2⟩
      exact ⟨(rhoM_fix_iff hVa w hw ⟨0, hVa.pos⟩).mp (by rw [h1]; rfl),
        (rhoM_fix_iff hVb w hw ⟨0, hVb.pos⟩).mp (by rw [h2]; rfl)⟩

end DSymVerif.D3
