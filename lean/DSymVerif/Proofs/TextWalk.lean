/-
C01, part 7: the walking loops of `collect_orbits` and `orbit_reps_2d` touch the same
chambers.  `walkList ds i d fuel e` is the list of chambers a walk started at `e` marks
before it returns to `d` (alternately `op_i` and `op_{i+1}`); both loops are characterised
by it, and for a walk that starts at `d` and returns the marked set is closed under both
operations.
-/
import DSymVerif.Proofs.TextOrbits

namespace DSymVerif.Text
open DSymVerif DSymVerif.DS

def walkList (ds : DSetData) (i d : Nat) : Nat → Nat → List Nat
  | 0, _ => []
  | fuel + 1, e =>
    if stepF ds i e = d then [ds.opU i e, stepF ds i e]
    else ds.opU i e :: stepF ds i e :: walkList ds i d fuel (stepF ds i e)

theorem walkList_succ (ds : DSetData) (i d fuel e : Nat) :
    walkList ds i d (fuel + 1) e =
      if stepF ds i e = d then [ds.opU i e, stepF ds i e]
      else ds.opU i e :: stepF ds i e :: walkList ds i d fuel (stepF ds i e) := rfl

/-- marks made by the walking loop of `collect_orbits` -/
theorem collectLoop_seen_iff (ds : DSetData) (i d nr : Nat) : ∀ (fuel e steps : Nat) (ch : Bool)
    (ix : Array Nat) (seen : Array Bool) (x : Nat),
    (collectLoop ds i d nr fuel e steps ch ix seen).2.2.2.getD x false = true ↔
      seen.getD x false = true ∨ (x ∈ walkList ds i d fuel e ∧ x < seen.size) := by
  intro fuel
  induction fuel with
  | zero => intro e steps ch ix seen x; simp [collectLoop, walkList]
  | succ fuel ih =>
    intro e steps ch ix seen x
    rw [collectLoop_succ, walkList_succ]
    have h2 : ∀ y, ((seen.setIfInBounds (ds.opU i e) true).setIfInBounds (stepF ds i e) true).getD y false = true ↔
        seen.getD y false = true ∨ ((y = ds.opU i e ∨ y = stepF ds i e) ∧ y < seen.size) := by
      intro y
      rw [getDb_set, getDb_set, Array.size_setIfInBounds]
      by_cases c1 : stepF ds i e = y ∧ stepF ds i e < seen.size
      · rw [if_pos c1]
        simp only [true_iff]
        exact Or.inr ⟨Or.inr c1.1.symm, by omega⟩
      · rw [if_neg c1]
        by_cases c2 : ds.opU i e = y ∧ ds.opU i e < seen.size
        · rw [if_pos c2]
          simp only [true_iff]
          exact Or.inr ⟨Or.inl c2.1.symm, by omega⟩
        · rw [if_neg c2]
          constructor
          · exact Or.inl
          · rintro (h | ⟨h | h, hlt⟩)
            · exact h
            · exact absurd ⟨h.symm, by omega⟩ c2
            · exact absurd ⟨h.symm, by omega⟩ c1
    by_cases hret : stepF ds i e = d
    · rw [if_pos hret, if_pos hret]
      show ((seen.setIfInBounds (ds.opU i e) true).setIfInBounds (stepF ds i e) true).getD x false = true ↔ _
      rw [h2]
      simp only [List.mem_cons, List.not_mem_nil, or_false]
    · rw [if_neg hret, if_neg hret, ih, h2, Array.size_setIfInBounds, Array.size_setIfInBounds]
      simp only [List.mem_cons]
      constructor
      · rintro ((h | ⟨h, hlt⟩) | ⟨h, hlt⟩)
        · exact Or.inl h
        · exact Or.inr ⟨by rcases h with h | h <;> simp [h], hlt⟩
        · exact Or.inr ⟨Or.inr (Or.inr h), hlt⟩
      · rintro (h | ⟨h | h | h, hlt⟩)
        · exact Or.inl (Or.inl h)
        · exact Or.inl (Or.inr ⟨Or.inl h, hlt⟩)
        · exact Or.inl (Or.inr ⟨Or.inr h, hlt⟩)
        · exact Or.inr ⟨h, hlt⟩

/-- orbit numbers written by the walking loop of `collect_orbits` -/
theorem collectLoop_ix_eq (ds : DSetData) (i d nr : Nat) : ∀ (fuel e steps : Nat) (ch : Bool)
    (ix : Array Nat) (seen : Array Bool) (x : Nat),
    (collectLoop ds i d nr fuel e steps ch ix seen).2.2.1.getD x 0 =
      if x ∈ walkList ds i d fuel e ∧ x < ix.size then nr else ix.getD x 0 := by
  intro fuel
  induction fuel with
  | zero => intro e steps ch ix seen x; simp [collectLoop, walkList]
  | succ fuel ih =>
    intro e steps ch ix seen x
    rw [collectLoop_succ, walkList_succ]
    have h2 : ∀ y, ((ix.setIfInBounds (ds.opU i e) nr).setIfInBounds (stepF ds i e) nr).getD y 0 =
        if (y = ds.opU i e ∨ y = stepF ds i e) ∧ y < ix.size then nr else ix.getD y 0 := by
      intro y
      rw [getDn_set, getDn_set, Array.size_setIfInBounds]
      by_cases c1 : stepF ds i e = y ∧ stepF ds i e < ix.size
      · rw [if_pos c1, if_pos ⟨Or.inr c1.1.symm, by omega⟩]
      · rw [if_neg c1]
        by_cases c2 : ds.opU i e = y ∧ ds.opU i e < ix.size
        · rw [if_pos c2, if_pos ⟨Or.inl c2.1.symm, by omega⟩]
        · rw [if_neg c2, if_neg]
          rintro ⟨h | h, hlt⟩
          · exact c2 ⟨h.symm, by omega⟩
          · exact c1 ⟨h.symm, by omega⟩
    by_cases hret : stepF ds i e = d
    · rw [if_pos hret, if_pos hret]
      show ((ix.setIfInBounds (ds.opU i e) nr).setIfInBounds (stepF ds i e) nr).getD x 0 = _
      rw [h2]
      simp only [List.mem_cons, List.not_mem_nil, or_false]
    · rw [if_neg hret, if_neg hret, ih, h2, Array.size_setIfInBounds, Array.size_setIfInBounds]
      simp only [List.mem_cons]
      by_cases c : x ∈ walkList ds i d fuel (stepF ds i e) ∧ x < ix.size
      · rw [if_pos c, if_pos ⟨Or.inr (Or.inr c.1), c.2⟩]
      · rw [if_neg c]
        by_cases c' : (x = ds.opU i e ∨ x = stepF ds i e) ∧ x < ix.size
        · rw [if_pos c', if_pos ⟨by rcases c'.1 with h | h <;> simp [h], c'.2⟩]
        · rw [if_neg c', if_neg]
          rintro ⟨h | h | h, hlt⟩
          · exact c' ⟨Or.inl h, hlt⟩
          · exact c' ⟨Or.inr h, hlt⟩
          · exact c ⟨h, hlt⟩

/-- `collect_orbits` counts the rounds of the walk -/
theorem walkList_range {ds : DSetData} (h : ValidSet ds) {i : Nat} (hi : i < ds.dim) (d : Nat) :
    ∀ (fuel e : Nat), 1 ≤ e → e ≤ ds.size → ∀ x ∈ walkList ds i d fuel e, 1 ≤ x ∧ x ≤ ds.size := by
  intro fuel
  induction fuel with
  | zero => intro e _ _ x hx; simp [walkList] at hx
  | succ fuel ih =>
    intro e he1 he2 x hx
    have ha := h.range i e (by omega) he1 he2
    have hs := stepF_range h hi e he1 he2
    rw [walkList_succ] at hx
    split at hx
    · simp only [List.mem_cons, List.not_mem_nil, or_false] at hx
      rcases hx with rfl | rfl
      · exact ha
      · exact hs
    · simp only [List.mem_cons] at hx
      rcases hx with rfl | rfl | hx
      · exact ha
      · exact hs
      · exact ih _ hs.1 hs.2 x hx

/-- a walk that reaches `d` within its fuel marks `d` -/
theorem walkList_mem_return (ds : DSetData) (i d : Nat) : ∀ (fuel e k : Nat), 1 ≤ k → k ≤ fuel →
    iter (stepF ds i) k e = d → d ∈ walkList ds i d fuel e := by
  intro fuel
  induction fuel with
  | zero => intro e k h1 h2; omega
  | succ fuel ih =>
    intro e k h1 h2 hk
    rw [walkList_succ]
    by_cases hret : stepF ds i e = d
    · rw [if_pos hret]; simp [hret]
    · rw [if_neg hret]
      obtain ⟨k', rfl⟩ : ∃ k', k = k' + 1 := ⟨k - 1, by omega⟩
      rw [iter] at hk
      have hk1 : 1 ≤ k' := by
        rcases Nat.eq_zero_or_pos k' with h0 | h0
        · subst h0; exact absurd hk hret
        · exact h0
      simp only [List.mem_cons]
      exact Or.inr (Or.inr (ih _ k' hk1 (by omega) hk))

theorem walkList_head (ds : DSetData) (i d fuel e : Nat) : ds.opU i e ∈ walkList ds i d (fuel + 1) e := by
  rw [walkList_succ]
  split <;> simp

/-- closure of the marked set of a returning walk, up to its two ends -/
theorem walkList_closed {ds : DSetData} (h : ValidSet ds) {i : Nat} (hi : i < ds.dim) (d : Nat) :
    ∀ (fuel e k : Nat), 1 ≤ e → e ≤ ds.size → 1 ≤ k → k ≤ fuel → iter (stepF ds i) k e = d →
    ∀ x ∈ walkList ds i d fuel e,
      ds.opU (i + 1) x ∈ walkList ds i d fuel e ∧
      (ds.opU i x ∈ walkList ds i d fuel e ∨ ds.opU i x = e ∨ x = d) := by
  intro fuel
  induction fuel with
  | zero => intro e k _ _ h1 h2; omega
  | succ fuel ih =>
    intro e k he1 he2 hk1 hk2 hk x hx
    have ha := h.range i e (by omega) he1 he2
    have hs := stepF_range h hi e he1 he2
    have hinv1 : ds.opU i (ds.opU i e) = e := h.invol i e (by omega) he1 he2
    have hinv2 : ds.opU (i + 1) (stepF ds i e) = ds.opU i e := h.invol (i + 1) _ (by omega) ha.1 ha.2
    rw [walkList_succ] at hx ⊢
    by_cases hret : stepF ds i e = d
    · rw [if_pos hret] at hx ⊢
      simp only [List.mem_cons, List.not_mem_nil, or_false] at hx ⊢
      rcases hx with rfl | rfl
      · exact ⟨Or.inr rfl, Or.inr (Or.inl hinv1)⟩
      · exact ⟨Or.inl hinv2, Or.inr (Or.inr hret)⟩
    · rw [if_neg hret] at hx ⊢
      obtain ⟨k', rfl⟩ : ∃ k', k = k' + 1 := ⟨k - 1, by omega⟩
      rw [iter] at hk
      have hk1' : 1 ≤ k' := by
        rcases Nat.eq_zero_or_pos k' with h0 | h0
        · subst h0; exact absurd hk hret
        · exact h0
      obtain ⟨fuel', rfl⟩ : ∃ f, fuel = f + 1 := ⟨fuel - 1, by omega⟩
      simp only [List.mem_cons] at hx ⊢
      rcases hx with rfl | rfl | hx
      · exact ⟨Or.inr (Or.inl rfl), Or.inr (Or.inl hinv1)⟩
      · refine ⟨Or.inl hinv2, Or.inl (Or.inr (Or.inr (walkList_head ds i d fuel' _)))⟩
      · obtain ⟨a, b⟩ := ih _ k' hs.1 hs.2 hk1' (by omega) hk x hx
        refine ⟨Or.inr (Or.inr a), ?_⟩
        rcases b with b | b | b
        · exact Or.inl (Or.inr (Or.inr b))
        · exact Or.inl (Or.inr (Or.inl b))
        · exact Or.inr (Or.inr b)

/-- the marked set of a walk that starts at `d` and returns to it is closed under both operations -/
theorem walkList_closed_start {ds : DSetData} (h : ValidSet ds) {i : Nat} (hi : i < ds.dim) {d : Nat}
    (hd1 : 1 ≤ d) (hd2 : d ≤ ds.size) {fuel k : Nat} (hk1 : 1 ≤ k) (hk2 : k ≤ fuel)
    (hk : iter (stepF ds i) k d = d) :
    ∀ x ∈ walkList ds i d fuel d,
      ds.opU (i + 1) x ∈ walkList ds i d fuel d ∧ ds.opU i x ∈ walkList ds i d fuel d := by
  intro x hx
  obtain ⟨a, b⟩ := walkList_closed h hi d fuel d k hd1 hd2 hk1 hk2 hk x hx
  refine ⟨a, ?_⟩
  rcases b with b | b | b
  · exact b
  · rw [b]; exact walkList_mem_return ds i d fuel d k hk1 hk2 hk
  · rw [b]
    obtain ⟨fuel', rfl⟩ : ∃ f, fuel = f + 1 := ⟨fuel - 1, by omega⟩
    exact walkList_head ds i d fuel' d

/-- a walk that starts in a set closed under both operations stays inside it -/
theorem walkList_subset {ds : DSetData} {i : Nat} (d : Nat) (U : Nat → Prop)
    (hU : ∀ x, U x → U (ds.opU i x) ∧ U (ds.opU (i + 1) x)) :
    ∀ (fuel e : Nat), U e → ∀ x ∈ walkList ds i d fuel e, U x := by
  intro fuel
  induction fuel with
  | zero => intro e _ x hx; simp [walkList] at hx
  | succ fuel ih =>
    intro e he x hx
    have ha := (hU e he).1
    have hs : U (stepF ds i e) := (hU _ ha).2
    rw [walkList_succ] at hx
    split at hx
    · simp only [List.mem_cons, List.not_mem_nil, or_false] at hx
      rcases hx with rfl | rfl
      · exact ha
      · exact hs
    · simp only [List.mem_cons] at hx
      rcases hx with rfl | rfl | hx
      · exact ha
      · exact hs
      · exact ih _ hs x hx

/-! ### the loop of `orbit_reps_2d` -/

/-- marks made by the loop of `orbit_reps_2d(i, i + 1)` on a view whose operations are those of `ds` -/
theorem reps2dLoop_seen_iff {ds : DSetData} (h : ValidSet ds) {i : Nat} (hi : i < ds.dim) (v : View)
    (hv : ∀ j e, j ≤ ds.dim → 1 ≤ e → e ≤ ds.size → v.op j e = some (ds.opU j e)) (d : Nat) :
    ∀ (fuel e : Nat) (seen : Array Bool) (x : Nat), 1 ≤ e → e ≤ ds.size →
    ((v.reps2dLoop i (i + 1) d fuel e seen).getD x false = true ↔
      seen.getD x false = true ∨ (x ∈ walkList ds i d fuel e ∧ x < seen.size)) := by
  intro fuel
  induction fuel with
  | zero => intro e seen x _ _; simp [View.reps2dLoop, walkList]
  | succ fuel ih =>
    intro e seen x he1 he2
    have ha := h.range i e (by omega) he1 he2
    have hs := stepF_range h hi e he1 he2
    have h1 : (v.op i e).getD e = ds.opU i e := by rw [hv i e (by omega) he1 he2]; rfl
    have h2' : (v.op (i + 1) (ds.opU i e)).getD (ds.opU i e) = stepF ds i e := by
      rw [hv (i + 1) _ (by omega) ha.1 ha.2]; rfl
    have hunf : v.reps2dLoop i (i + 1) d (fuel + 1) e seen =
        if stepF ds i e = d then (seen.setIfInBounds (ds.opU i e) true).setIfInBounds (stepF ds i e) true
        else v.reps2dLoop i (i + 1) d fuel (stepF ds i e)
          ((seen.setIfInBounds (ds.opU i e) true).setIfInBounds (stepF ds i e) true) := by
      simp only [View.reps2dLoop, h1, h2']
    rw [hunf, walkList_succ]
    have h2 : ∀ y, ((seen.setIfInBounds (ds.opU i e) true).setIfInBounds (stepF ds i e) true).getD y false = true ↔
        seen.getD y false = true ∨ ((y = ds.opU i e ∨ y = stepF ds i e) ∧ y < seen.size) := by
      intro y
      rw [getDb_set, getDb_set, Array.size_setIfInBounds]
      by_cases c1 : stepF ds i e = y ∧ stepF ds i e < seen.size
      · rw [if_pos c1]
        simp only [true_iff]
        exact Or.inr ⟨Or.inr c1.1.symm, by omega⟩
      · rw [if_neg c1]
        by_cases c2 : ds.opU i e = y ∧ ds.opU i e < seen.size
        · rw [if_pos c2]
          simp only [true_iff]
          exact Or.inr ⟨Or.inl c2.1.symm, by omega⟩
        · rw [if_neg c2]
          constructor
          · exact Or.inl
          · rintro (h | ⟨h | h, hlt⟩)
            · exact h
            · exact absurd ⟨h.symm, by omega⟩ c2
            · exact absurd ⟨h.symm, by omega⟩ c1
    by_cases hret : stepF ds i e = d
    · rw [if_pos hret, if_pos hret, h2]
      simp only [List.mem_cons, List.not_mem_nil, or_false]
    · rw [if_neg hret, if_neg hret, ih _ _ _ hs.1 hs.2, h2, Array.size_setIfInBounds, Array.size_setIfInBounds]
      simp only [List.mem_cons]
      constructor
      · rintro ((h | ⟨h, hlt⟩) | ⟨h, hlt⟩)
        · exact Or.inl h
        · exact Or.inr ⟨by rcases h with h | h <;> simp [h], hlt⟩
        · exact Or.inr ⟨Or.inr (Or.inr h), hlt⟩
      · rintro (h | ⟨h | h | h, hlt⟩)
        · exact Or.inl (Or.inl h)
        · exact Or.inl (Or.inr ⟨Or.inl h, hlt⟩)
        · exact Or.inl (Or.inr ⟨Or.inr h, hlt⟩)
        · exact Or.inr ⟨h, hlt⟩

theorem reps2dLoop_size (v : View) (i j d : Nat) : ∀ (fuel e : Nat) (seen : Array Bool),
    (v.reps2dLoop i j d fuel e seen).size = seen.size := by
  intro fuel
  induction fuel with
  | zero => intro e seen; rfl
  | succ fuel ih =>
    intro e seen
    simp only [View.reps2dLoop]
    split
    · rw [Array.size_setIfInBounds, Array.size_setIfInBounds]
    · rw [ih, Array.size_setIfInBounds, Array.size_setIfInBounds]

end DSymVerif.Text
