/-
Consequences of the kernel-evaluated chunks of `Proofs/EuclidicityTableCheck.lean`.
-/
import DSymVerif.Proofs.EuclidicityTableCheck
import Mathlib.Data.List.Dedup
import Mathlib.Data.List.Perm.Basic

namespace DSymVerif.Euc.Tab
open DSymVerif

theorem okAt_of_chunk {a n i : Nat} (h : ((List.range' a n).all okAt) = true) (h1 : a ≤ i) (h2 : i < a + n) :
    okAt i = true := by
  rw [List.all_eq_true] at h
  exact h i (List.mem_range'_1.mpr ⟨h1, h2⟩)

theorem okAt_of_chunk' {f : Nat → Bool} {a n i : Nat} (h : ((List.range' a n).all f) = true)
    (h1 : a ≤ i) (h2 : i < a + n) : f i = true := by
  rw [List.all_eq_true] at h
  exact h i (List.mem_range'_1.mpr ⟨h1, h2⟩)

theorem okAt_all (i : Nat) (hi : i < 235) : okAt i = true := by
  by_cases h0 : i < 40
  · exact okAt_of_chunk chunk0 (by omega) (by omega)
  by_cases h1 : i < 80
  · exact okAt_of_chunk chunk1 (by omega) (by omega)
  by_cases h2 : i < 110
  · exact okAt_of_chunk chunk2 (by omega) (by omega)
  by_cases h3 : i < 135
  · exact okAt_of_chunk chunk3 (by omega) (by omega)
  by_cases h4 : i < 155
  · exact okAt_of_chunk chunk4 (by omega) (by omega)
  by_cases h5 : i < 175
  · exact okAt_of_chunk chunk5 (by omega) (by omega)
  by_cases h6 : i < 190
  · exact okAt_of_chunk chunk6 (by omega) (by omega)
  by_cases h7 : i < 205
  · exact okAt_of_chunk chunk7 (by omega) (by omega)
  by_cases h8 : i < 220
  · exact okAt_of_chunk chunk8 (by omega) (by omega)
  · exact okAt_of_chunk chunk9 (by omega) (by omega)

/-- every token of the table is a well-formed entry or one of the stray comment tokens -/
theorem token_ok (s : String) (hs : s ∈ Tables.euclideanInvariants) :
    wellFormed s = true ∨ s ∈ strayTokens := by
  obtain ⟨i, hi, rfl⟩ := List.getElem_of_mem hs
  have h := okAt_all i (by rw [← table_length]; exact hi)
  unfold okAt at h
  have hg : Tables.euclideanInvariants.getD i "" = Tables.euclideanInvariants[i] := by
    simp [List.getD_eq_getElem?_getD, List.getElem?_eq_getElem hi]
  rw [hg] at h
  simp only [Bool.or_eq_true, List.contains_iff_mem] at h
  exact h

/-- the well-formed entries among the distinct tokens number 212 -/
theorem distinct_wellFormed : (Tables.euclideanInvariants.dedup.filter wellFormed).length = 212 := by
  have hsplit := List.length_eq_length_filter_add (l := Tables.euclideanInvariants.dedup) wellFormed
  have hperm : (Tables.euclideanInvariants.dedup.filter (fun s => !wellFormed s)).Perm strayTokens := by
    apply (List.perm_ext_iff_of_nodup ((List.nodup_dedup _).filter _) stray_nodup).mpr
    intro a
    simp only [List.mem_filter, List.mem_dedup, Bool.not_eq_eq_eq_not, Bool.not_true]
    constructor
    · rintro ⟨hm, hw⟩
      rcases token_ok a hm with h | h
      · rw [h] at hw; cases hw
      · exact h
    · intro h
      exact ⟨stray_in_table a h, stray_not_wellFormed a h⟩
  have hlen := hperm.length_eq
  have : strayTokens.length = 10 := rfl
  rw [dedup_length] at hsplit
  omega

end DSymVerif.Euc.Tab
