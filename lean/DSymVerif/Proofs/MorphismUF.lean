/-
Helper lemmas for property C04, part 10: the union–find of /repo/src/util/partitions.rs (exact
model of property C20, `Model/Partition.lean`) under `fold`, `is_minimal` and `minimal_image`.

`Sim g p`: the union–find `g` is well formed (`GWF`, C20) and two keys have the same
representative in `g` exactly when they have the same label in the class table `p`.
For ALL inputs (no validity hypothesis on the D-set):
* `ufFind` / `ufUnite` never fail on a well-formed union–find and keep `Sim`
  (from `g_find_ok`, `g_unite_ok` of C20);
* `foldLoopUF_sim`, `foldUF_sim`: `fold` on the union–find gives the answer kind (`Some` /
  `None` / panic) of `fold` on the class table, and a partition with the same classes;
* `isMinimalUF_eq`: the same Boolean;  `foldAllUF_sim`: the same partition behind `minimal_image`;
* `numberLoopUF_eq`: the numbering loop on the union–find is the numbering loop on the class
  table `tableOf n (grep g)` of its representatives.
With `OpRange` the representatives of chambers are chambers (`foldAllUF_range`).
-/
import DSymVerif.Proofs.PartitionGen
import DSymVerif.Proofs.MorphismNumber

namespace DSymVerif.Mor
open DSymVerif.PartP (GWF grep g_find_ok g_unite_ok gwf_new grep_idem grep_none)

/-! ### the two partition operations never fail on a well-formed union–find -/

theorem ufFind_ok {g : UF} (h : GWF g) (a : Nat) :
    ∃ g', ufFind g a = .ok (g', grep g a) ∧ GWF g' ∧ ∀ z, grep g' z = grep g z := by
  obtain ⟨g', h1, h2, h3⟩ := g_find_ok h a
  exact ⟨g', by unfold ufFind; rw [h1], h2, h3⟩

theorem ufUnite_ok {g : UF} (h : GWF g) (a b : Nat) :
    ∃ g' w, ufUnite g a b = .ok g' ∧ GWF g' ∧ (w = grep g a ∨ w = grep g b) ∧
      ∀ z, grep g' z = if grep g z = grep g a ∨ grep g z = grep g b then w else grep g z := by
  obtain ⟨g', w, h1, h2, h3, h4⟩ := g_unite_ok h a b
  exact ⟨g', w, by unfold ufUnite; rw [h1], h2, h3, h4⟩

theorem grep_new (z : Nat) : grep UF.new z = z :=
  grep_none (by simp [UF.new, DSymVerif.Part.GPart.new, DSymVerif.Part.lookup])

/-! ### simulation of the class table -/

/-- same classes: well-formed union–find `g`, class table `p` -/
structure Sim (g : UF) (p : Part) : Prop where
  wf : GWF g
  ker : ∀ x y, grep g x = grep g y ↔ p.find x = p.find y

theorem Sim.new : Sim UF.new Part.new :=
  ⟨gwf_new, fun x y => by rw [grep_new, grep_new]; exact Iff.rfl⟩

theorem Sim.find {g : UF} {p : Part} (h : Sim g p) (a : Nat) :
    ∃ g', ufFind g a = .ok (g', grep g a) ∧ Sim g' p ∧ ∀ z, grep g' z = grep g z := by
  obtain ⟨g', h1, h2, h3⟩ := ufFind_ok h.wf a
  exact ⟨g', h1, ⟨h2, fun x y => by rw [h3, h3]; exact h.ker x y⟩, h3⟩

theorem Sim.unite {g : UF} {p : Part} (h : Sim g p) (a b : Nat) :
    ∃ g', ufUnite g a b = .ok g' ∧ Sim g' (p.unite a b) := by
  obtain ⟨g', w, h1, h2, hw, h3⟩ := ufUnite_ok h.wf a b
  refine ⟨g', h1, h2, fun x y => ?_⟩
  rw [h3 x, h3 y, find_unite, find_unite]
  have kxa := h.ker x a
  have kxb := h.ker x b
  have kya := h.ker y a
  have kyb := h.ker y b
  have kxy := h.ker x y
  have kab := h.ker a b
  by_cases hxa : grep g x = grep g a <;> by_cases hxb : grep g x = grep g b <;>
    by_cases hya : grep g y = grep g a <;> by_cases hyb : grep g y = grep g b <;>
    rcases hw with hw | hw <;>
    simp only [hxa, hxb, hya, hyb, kxa.1, kxb.1, kya.1, kyb.1, true_or, or_true, or_false, if_true,
      if_false] <;> grind

/-- relation between the answers of the two `fold`s -/
def SimO : Outcome UF → Outcome Part → Prop
  | .ok g, .ok p => Sim g p
  | .err, .err => True
  | .panic, .panic => True
  | _, _ => False

theorem foldLoopUF_sim (s : MV) :
    ∀ (fuel : Nat) (Q : Queue) (g : UF) (p : Part), Sim g p →
      SimO (foldLoopUF s fuel Q g) (foldLoop s fuel Q p) := by
  intro fuel
  induction fuel with
  | zero => intro Q g p _; simp only [foldLoopUF, foldLoop, SimO]
  | succ fuel ih =>
    intro Q g p h
    cases Q with
    | nil => simp only [foldLoopUF, foldLoop, SimO]; exact h
    | cons pr Q =>
      obtain ⟨d, e⟩ := pr
      obtain ⟨g1, hf1, s1, e1⟩ := h.find d
      obtain ⟨g2, hf2, s2, e2⟩ := s1.find e
      simp only [foldLoopUF, foldLoop, hf1, hf2]
      rw [e1 e]
      by_cases hde : grep g d = grep g e
      · have hp : p.find d = p.find e := (h.ker d e).1 hde
        have hp' : ¬ (p.find d ≠ p.find e) := fun hn => hn hp
        simp only [hde, ne_eq, not_true_eq_false, if_false]
        rw [if_neg hp']
        exact ih Q g2 p s2
      · have hp : p.find d ≠ p.find e := fun hq => hde ((h.ker d e).2 hq)
        rw [if_pos hde, if_pos hp]
        obtain ⟨g3, hu, s3⟩ := s2.unite d e
        simp only [hu]
        cases hin : foldInner s d e (List.range (s.dim + 1)) Q with
        | none => simp only [SimO]
        | some Q' => exact ih Q' g3 _ s3

/-- **`fold` on the union–find simulates `fold` on the class table** -/
theorem foldUF_sim (s : MV) {g : UF} {p : Part} (h : Sim g p) (d e : Nat) :
    SimO (foldUF s g d e) (fold s p d e) := by
  unfold foldUF fold
  split
  · simp only [SimO]
  · exact foldLoopUF_sim s _ _ g p h

theorem SimO.ok_right {x : Outcome UF} {p : Part} (h : SimO x (.ok p)) : ∃ g, x = .ok g ∧ Sim g p := by
  cases x with
  | ok g => exact ⟨g, rfl, h⟩
  | err => exact h.elim
  | panic => exact h.elim

theorem SimO.ok_left {g : UF} {y : Outcome Part} (h : SimO (.ok g) y) : ∃ p, y = .ok p ∧ Sim g p := by
  cases y with
  | ok p => exact ⟨p, rfl, h⟩
  | err => exact h.elim
  | panic => exact h.elim

theorem SimO.err_right {x : Outcome UF} (h : SimO x .err) : x = .err := by
  cases x with
  | ok g => exact h.elim
  | err => rfl
  | panic => exact h.elim

theorem SimO.panic_right {x : Outcome UF} (h : SimO x .panic) : x = .panic := by
  cases x with
  | ok g => exact h.elim
  | err => exact h.elim
  | panic => rfl

theorem isMinimalLoopUF_eq (s : MV) : ∀ ds : List Nat, isMinimalLoopUF s ds = isMinimalLoop s ds := by
  intro ds
  induction ds with
  | nil => rfl
  | cons d ds ih =>
    have hs := foldUF_sim s Sim.new 1 d
    unfold isMinimalLoopUF isMinimalLoop
    cases hf : fold s Part.new 1 d with
    | ok p =>
      rw [hf] at hs
      obtain ⟨g, hg, _⟩ := hs.ok_right
      rw [hg]
    | err =>
      rw [hf] at hs
      rw [hs.err_right]
      exact ih
    | panic =>
      rw [hf] at hs
      rw [hs.panic_right]

/-- **`is_minimal` on the union–find answers what `is_minimal` on the class table answers** -/
theorem isMinimalUF_eq (s : MV) : isMinimalUF s = isMinimal s :=
  isMinimalLoopUF_eq s _

/-- **the partition behind `minimal_image`** -/
theorem foldAllUF_sim (s : MV) :
    ∀ (ds : List Nat) (g : UF) (p : Part), Sim g p → SimO (foldAllUF s ds g) (foldAll s ds p) := by
  intro ds
  induction ds with
  | nil => intro g p h; simp only [foldAllUF, foldAll, SimO]; exact h
  | cons d ds ih =>
    intro g p h
    have hs := foldUF_sim s h 1 d
    unfold foldAllUF foldAll
    cases hf : fold s p 1 d with
    | ok p' =>
      rw [hf] at hs
      obtain ⟨g', hg, h'⟩ := hs.ok_right
      rw [hg]
      exact ih g' p' h'
    | err =>
      rw [hf] at hs
      rw [hs.err_right]
      exact ih g p h
    | panic =>
      rw [hf] at hs
      rw [hs.panic_right]
      simp only [SimO]

/-! ### representatives of chambers are chambers -/

/-- `find` maps 1..size into 1..size -/
def GR (s : MV) (g : UF) : Prop := ∀ x, InR s x → InR s (grep g x)

theorem GR.new (s : MV) : GR s UF.new := fun x hx => by rw [grep_new]; exact hx

theorem foldLoopUF_range (s : MV) (hr : OpRange s) :
    ∀ (fuel : Nat) (Q : Queue) (g g' : UF), GWF g → GR s g →
      (∀ pr, pr ∈ Q → InR s pr.1 ∧ InR s pr.2) → foldLoopUF s fuel Q g = .ok g' → GWF g' ∧ GR s g' := by
  intro fuel
  induction fuel with
  | zero => intro Q g g' _ _ _ h; simp [foldLoopUF] at h
  | succ fuel ih =>
    intro Q g g' wf gr hq h
    cases Q with
    | nil =>
      simp only [foldLoopUF, Outcome.ok.injEq] at h
      subst h; exact ⟨wf, gr⟩
    | cons pr Q =>
      obtain ⟨d, e⟩ := pr
      have hde := hq (d, e) (by simp)
      have hq' : ∀ pr, pr ∈ Q → InR s pr.1 ∧ InR s pr.2 := fun pr hpr => hq pr (by simp [hpr])
      obtain ⟨g1, hf1, wf1, e1⟩ := ufFind_ok wf d
      obtain ⟨g2, hf2, wf2, e2⟩ := ufFind_ok wf1 e
      have gr2 : GR s g2 := fun x hx => by rw [e2, e1]; exact gr x hx
      simp only [foldLoopUF, hf1, hf2] at h
      split at h
      · obtain ⟨g3, w, hu, wf3, hw, e3⟩ := ufUnite_ok wf2 d e
        simp only [hu] at h
        split at h
        · rename_i Q' hin
          have sp := foldInner_spec s d e _ _ _ hin
          refine ih Q' g3 g' wf3 (fun x hx => ?_) (fun pr hpr => ?_) h
          · rw [e3]
            split
            · rcases hw with hw | hw
              · rw [hw]; exact gr2 d hde.1
              · rw [hw]; exact gr2 e hde.2
            · exact gr2 x hx
          · rcases (sp.1 pr).1 hpr with h1 | ⟨i, _, h1, h2⟩
            · exact hq' pr h1
            · exact ⟨hr _ _ _ h1, hr _ _ _ h2⟩
        · cases h
      · exact ih Q g2 g' wf2 gr2 hq' h

theorem foldUF_range (s : MV) (hr : OpRange s) {g g' : UF} (wf : GWF g) (gr : GR s g) {d e : Nat}
    (hd : InR s d) (he : InR s e) (h : foldUF s g d e = .ok g') : GWF g' ∧ GR s g' := by
  unfold foldUF at h
  split at h
  · cases h
  · exact foldLoopUF_range s hr _ _ g g' wf gr (fun pr hpr => by
      simp only [List.mem_singleton] at hpr; subst hpr; exact ⟨hd, he⟩) h

theorem foldAllUF_range (s : MV) (hr : OpRange s) (h1 : 1 ≤ s.size) :
    ∀ (ds : List Nat) (g g' : UF), (∀ d, d ∈ ds → InR s d) → GWF g → GR s g →
      foldAllUF s ds g = .ok g' → GWF g' ∧ GR s g' := by
  intro ds
  induction ds with
  | nil => intro g g' _ wf gr h; simp only [foldAllUF, Outcome.ok.injEq] at h; subst h; exact ⟨wf, gr⟩
  | cons d ds ih =>
    intro g g' hds wf gr h
    have hd := hds d (by simp)
    have hds' : ∀ x, x ∈ ds → InR s x := fun x hx => hds x (by simp [hx])
    unfold foldAllUF at h
    split at h
    · rename_i g1 hfold
      obtain ⟨wf1, gr1⟩ := foldUF_range s hr wf gr ⟨Nat.le_refl 1, h1⟩ hd hfold
      exact ih g1 g' hds' wf1 gr1 h
    · exact ih g g' hds' wf gr h
    · cases h

/-! ### the numbering loop: the union–find is read through `find` only -/

/-- the class table (x, f x) for x = 0..n -/
def tblOf (f : Nat → Nat) : Nat → List (Nat × Nat)
  | 0 => [(0, f 0)]
  | n + 1 => (n + 1, f (n + 1)) :: tblOf f n

def tableOf (n : Nat) (f : Nat → Nat) : Part := ⟨tblOf f n⟩

theorem lookupLab_tblOf (f : Nat → Nat) (n x : Nat) :
    lookupLab (tblOf f n) x = if x ≤ n then some (f x) else none := by
  induction n with
  | zero =>
    simp only [tblOf, lookupLab]
    by_cases hx : 0 = x
    · subst hx; simp
    · rw [if_neg hx, if_neg (by omega)]
  | succ n ih =>
    simp only [tblOf, lookupLab]
    by_cases hx : n + 1 = x
    · subst hx; simp
    · rw [if_neg hx, ih]
      by_cases hle : x ≤ n
      · rw [if_pos hle, if_pos (by omega)]
      · rw [if_neg hle, if_neg (by omega)]

theorem tableOf_find (n : Nat) (f : Nat → Nat) (x : Nat) :
    (tableOf n f).find x = if x ≤ n then f x else x := by
  unfold Part.find tableOf
  simp only [lookupLab_tblOf]
  by_cases hx : x ≤ n
  · simp only [if_pos hx]
  · simp only [if_neg hx]

/-- the table of the representatives of a well-formed union–find has the invariants the numbering
    loop needs -/
theorem tableOf_pinv (s : MV) {g : UF} (wf : GWF g) (gr : GR s g) : PInv s (tableOf s.size (grep g)) := by
  refine ⟨fun x hx => ?_, fun x => ?_⟩
  · rw [tableOf_find, if_pos hx.2]; exact gr x hx
  · by_cases hx : x ≤ s.size
    · rw [tableOf_find s.size (grep g) x, if_pos hx]
      by_cases hy : grep g x ≤ s.size
      · rw [tableOf_find, if_pos hy]; exact grep_idem wf x
      · rw [tableOf_find, if_neg hy]
    · rw [tableOf_find s.size (grep g) x, if_neg hx, tableOf_find, if_neg hx]

/-- **the numbering loop on the union–find is the numbering loop on the table of its
    representatives** (for every list of chambers below the bound of the table) -/
theorem numberLoopUF_eq (n : Nat) :
    ∀ (ds : List Nat) (g g0 : UF) (st : NumState), GWF g → (∀ z, grep g z = grep g0 z) →
      (∀ d, d ∈ ds → d ≤ n) →
      numberLoopUF g ds st = numberLoop (tableOf n (grep g0)) ds st := by
  intro ds
  induction ds with
  | nil => intro g g0 st _ _ _; rfl
  | cons d ds ih =>
    intro g g0 st wf hg hds
    obtain ⟨g1, hf, wf1, e1⟩ := ufFind_ok wf d
    have hd : d ≤ n := hds d (by simp)
    have hfind : (tableOf n (grep g0)).find d = grep g d := by rw [tableOf_find, if_pos hd, hg]
    have ih' : ∀ st', numberLoopUF g1 ds st' = numberLoop (tableOf n (grep g0)) ds st' := fun st' =>
      ih g1 g0 st' wf1 (fun z => by rw [e1, hg]) (fun x hx => hds x (by simp [hx]))
    rw [numberLoopUF, numberLoop]
    simp only [hf, hfind, ih']

end DSymVerif.Mor
