/-
C13 `stabilizer_gens_fix_base`: every generator returned by the model of `stabilizer` on a
complete, inverse-consistent table is a loop at the base row.  The generators are the
Schreier words `wx · g · wy⁻¹` built from `point_to_word`, whose invariant ("the stored
word leads from the base row to its key") is established by the spanning-tree loop; the
edge words (`edge_to_word`, `close_relations_in_place`) only decide *which* edges become
generators and play no role here.
-/
import DSymVerif.Model.Stabilizer
import DSymVerif.Proofs.CosetReps

namespace DSymVerif.StabP
open DSymVerif DSymVerif.SpecC11 DSymVerif.CosetP DSymVerif.Cosets DSymVerif.Stab

/-- a defined entry of `Table.ofView n t` sits in a row of `t` under a letter of the table -/
theorem get_ofView_some {t : Tab} {n c : Nat} {g : Int} {d : Nat}
    (h : (Table.ofView n t).get c g = .ok (some d)) : c < t.size ∧ g ∈ letters n := by
  have hsz : (Table.ofView n t).rows.size = t.size := by simp [Table.ofView]
  have hn : (Table.ofView n t).nrGens = n := rfl
  unfold Table.get at h
  by_cases hc : c < (Table.ofView n t).rows.size
  · rw [dif_pos hc] at h
    by_cases hneg : g + ((Table.ofView n t).nrGens : Int) < 0
    · rw [if_pos hneg] at h; cases h
    · rw [if_neg hneg] at h
      rw [hn] at hneg h
      refine ⟨by omega, ?_⟩
      by_cases hidx : (g + (n : Int)).toNat < 2 * n + 1
      · have hcast : (((g + (n : Int)).toNat : Nat) : Int) - n = g := by omega
        have hget : ((Table.ofView n t).rows[c])[(g + (n : Int)).toNat]? =
            some (match viewCol n g with
              | some col => (t[c]'(by omega)).getD col (-1)
              | none => (-1 : Int)) := by
          simp only [Table.ofView, Array.getElem_map]
          simp only [List.getElem?_toArray, List.getElem?_map]
          rw [List.getElem?_range hidx]
          simp only [Option.map_some, hcast]
          rfl
        rw [hget] at h
        cases hv : viewCol n g with
        | none =>
          simp only [hv] at h
          simp at h
        | some col =>
          rw [viewCol_eq_col] at hv
          exact col_isSome.mp (by simp [hv])
      · have hnone : ((Table.ofView n t).rows[c])[(g + (n : Int)).toNat]? = none := by
          simp only [Table.ofView, Array.getElem_map]
          simp only [List.getElem?_toArray, List.getElem?_map]
          rw [List.getElem?_eq_none (by simpa using Nat.le_of_not_lt hidx)]
          rfl
        rw [hnone] at h
        cases h
  · rw [dif_neg hc] at h
    cases h

theorem complete_spec {t : Tab} {n : Nat} (h : complete t n = true) {c : Nat} (hc : c < t.size)
    {g : Int} (hg : g ∈ letters n) : ∃ d, entry t n c g = some d := by
  unfold complete rowsOf at h
  rw [List.all_eq_true] at h
  have h1 := h c (List.mem_range.mpr hc)
  rw [List.all_eq_true] at h1
  exact Option.isSome_iff_exists.mp (h1 g hg)

/-- on a complete table the model's `get` is the Spec's `entry` -/
theorem entry_of_get {t : Tab} {n c : Nat} {g : Int} {d : Nat} (hcomp : complete t n = true)
    (h : (Table.ofView n t).get c g = .ok (some d)) : entry t n c g = some d := by
  obtain ⟨hc, hg⟩ := get_ofView_some h
  obtain ⟨d', hd'⟩ := complete_spec hcomp hc hg
  have := get_ofView hd'
  rw [this] at h
  injection h with h
  injection h with h
  rw [hd', h]

/-! ### tracing the words the code builds -/

theorem trace_inverse {t : Tab} {n : Nat} (hinv : InvConsistent t n) : ∀ (w : List Int) (c d : Nat),
    traceWord t n c w = some d → traceWord t n d (w.reverse.map (fun x => -x)) = some c
  | [], c, d, h => by
    simp only [SpecC11.traceWord, Option.some.injEq] at h
    subst h
    rfl
  | g :: w, c, d, h => by
    simp only [SpecC11.traceWord] at h
    cases he : entry t n c g with
    | none => simp [he] at h
    | some e =>
      simp only [he] at h
      have ih := trace_inverse hinv w e d h
      simp only [List.reverse_cons, List.map_append, List.map_cons, List.map_nil]
      exact traceWord_snoc_intro ih (hinv _ _ _ he)

theorem trace_mulLetter {t : Tab} {n : Nat} (hinv : InvConsistent t n) {w : List Int} {g : Int}
    {b c d : Nat} (h1 : traceWord t n b w = some c) (h2 : entry t n c g = some d) :
    traceWord t n b (FW.mulLetter w g) = some d :=
  trace_normalized hinv _ _ _ (traceWord_snoc_intro h1 h2)

theorem trace_fwInverse {t : Tab} {n : Nat} (hinv : InvConsistent t n) {w : List Int}
    {c d : Nat} (h : traceWord t n c w = some d) : traceWord t n d (FW.inverse w) = some c :=
  trace_normalized hinv _ _ _ (trace_inverse hinv w c d h)

theorem trace_mul {t : Tab} {n : Nat} (hinv : InvConsistent t n) {a b : List Int}
    {c d e : Nat} (h1 : traceWord t n c a = some d) (h2 : traceWord t n d b = some e) :
    traceWord t n c (FW.mul a b) = some e := by
  apply trace_normalized hinv
  unfold FW.rawMul
  rw [traceWord_append, h1]
  exact h2

/-- the Schreier generator `wx · g · wy⁻¹` is a loop at the base row -/
theorem trace_schreierGen {t : Tab} {n : Nat} (hinv : InvConsistent t n) {wx wy : List Int} {g : Int}
    {base px py : Nat} (hx : traceWord t n base wx = some px) (hg : entry t n px g = some py)
    (hy : traceWord t n base wy = some py) :
    traceWord t n base (schreierGen wx g wy) = some base :=
  trace_mul hinv (trace_mulLetter hinv hx hg) (trace_fwInverse hinv hy)

/-! ### `point_to_word` -/

/-- every stored word leads from the base row to its key -/
def PInv (t : Tab) (n : Nat) (base : Nat) (p : PMap) : Prop :=
  ∀ k w, pLookup k p = some w → traceWord t n base w = some k

theorem pLookup_pInsert (k k' : Nat) (w' : List Int) : ∀ (p : PMap),
    pLookup k (pInsert k' w' p) = if k' = k then some w' else pLookup k p
  | [] => by simp [pInsert, pLookup]
  | (k'', w'') :: r => by
    simp only [pInsert]
    by_cases h1 : k'' = k'
    · subst h1
      simp only [if_true, pLookup]
      by_cases h2 : k'' = k <;> simp [h2]
    · simp only [h1, if_false, pLookup]
      by_cases h2 : k'' = k
      · subst h2
        have h3 : ¬ k' = k'' := fun e => h1 e.symm
        simp [h3]
      · simp only [h2, if_false]
        exact pLookup_pInsert k k' w' r

theorem PInv_init (t : Tab) (n : Nat) (base : Nat) : PInv t n base [(base, FW.empty)] := by
  intro k w h
  simp only [pLookup] at h
  by_cases hk : base = k
  · subst hk
    simp only [if_true, Option.some.injEq] at h
    subst h
    rfl
  · simp [hk] at h

theorem PInv_insert {t : Tab} {n base : Nat} {p : PMap} (hp : PInv t n base p) {k : Nat} {w : List Int}
    (h : traceWord t n base w = some k) : PInv t n base (pInsert k w p) := by
  intro k' w' hl
  rw [pLookup_pInsert] at hl
  by_cases hk : k = k'
  · subst hk
    simp only [if_true, Option.some.injEq] at hl
    subst hl
    exact h
  · simp only [hk, if_false] at hl
    exact hp k' w' hl

theorem treeFold_PInv {t : Tab} {n base : Nat} (hcomp : complete t n = true) (hinv : InvConsistent t n)
    (rbg : RelMap) : ∀ (es : List (Nat × Int)) (e : EMap) (p : PMap) (e' : EMap) (p' : PMap),
    PInv t n base p → treeFold (Table.ofView n t) rbg es e p = .ok (e', p') → PInv t n base p'
  | [], e, p, e', p', hp, h => by
    simp only [treeFold, Outcome.ok.injEq, Prod.mk.injEq] at h
    rw [← h.2]; exact hp
  | (pt, gen) :: es, e, p, e', p', hp, h => by
    simp only [treeFold] at h
    cases hc : closeRelations (Table.ofView n t) rbg e (pt, gen) FW.empty with
    | err => simp [hc] at h
    | panic => simp [hc] at h
    | ok e1 =>
      simp only [hc] at h
      cases hg : (Table.ofView n t).get pt gen with
      | err => simp [hg] at h
      | panic => simp [hg] at h
      | ok o =>
        cases o with
        | none => simp [hg] at h
        | some tgt =>
          simp only [hg] at h
          cases hl : pLookup pt p with
          | none => simp [hl] at h
          | some w =>
            simp only [hl] at h
            have he := entry_of_get hcomp hg
            exact treeFold_PInv hcomp hinv rbg es e1 _ e' p'
              (PInv_insert hp (trace_mulLetter hinv (hp pt w hl) he)) h

theorem genFold_fix {t : Tab} {n base : Nat} (hcomp : complete t n = true) (hinv : InvConsistent t n)
    (rbg : RelMap) (p2w : PMap) (hp : PInv t n base p2w) :
    ∀ (ps : List (Nat × Int)) (e : EMap) (gs : List (List Int)) (e' : EMap) (gs' : List (List Int)),
    (∀ w ∈ gs, traceWord t n base w = some base) →
    genFold (Table.ofView n t) rbg p2w ps e gs = .ok (e', gs') →
    ∀ w ∈ gs', traceWord t n base w = some base
  | [], e, gs, e', gs', hgs, h => by
    simp only [genFold, Outcome.ok.injEq, Prod.mk.injEq] at h
    rw [← h.2]; exact hgs
  | (px, g) :: r, e, gs, e', gs', hgs, h => by
    simp only [genFold] at h
    cases hk : e.get px g with
    | some _ =>
      simp only [hk] at h
      exact genFold_fix hcomp hinv rbg p2w hp r e gs e' gs' hgs h
    | none =>
      simp only [hk] at h
      cases hx : pLookup px p2w with
      | none => simp [hx] at h
      | some wx =>
        simp only [hx] at h
        cases hg : (Table.ofView n t).get px g with
        | err => simp [hg] at h
        | panic => simp [hg] at h
        | ok o =>
          cases o with
          | none => simp [hg] at h
          | some py =>
            simp only [hg] at h
            cases hy : pLookup py p2w with
            | none => simp [hy] at h
            | some wy =>
              simp only [hy] at h
              generalize hc : closeRelations (Table.ofView n t) rbg e (px, g) _ = cr at h
              cases cr with
              | err => simp at h
              | panic => simp at h
              | ok e1 =>
                simp only at h
                refine genFold_fix hcomp hinv rbg p2w hp r e1 _ e' gs' ?_ h
                intro w hw
                rcases List.mem_append.mp hw with hw | hw
                · exact hgs w hw
                · simp only [List.mem_singleton] at hw
                  subst hw
                  exact trace_schreierGen hinv (hp px wx hx) (entry_of_get hcomp hg) (hp py wy hy)

/-- every generator the model of `stabilizer` returns is a loop at the base row -/
theorem stabilizer_gens_fix {t : Tab} {n : Nat} (hcomp : complete t n = true) (hinv : InvConsistent t n)
    {base : Nat} {rels : List (List Int)} {gens srels : List (List Int)}
    (h : stabilizer base rels (Table.ofView n t) = .ok (gens, srels)) :
    ∀ w ∈ gens, traceWord t n base w = some base := by
  unfold stabilizer at h
  cases h1 : relatorsByStartGen rels with
  | err => simp [h1] at h
  | panic => simp [h1] at h
  | ok rbg =>
    simp only [h1] at h
    cases h2 : spanningTree base (Table.ofView n t) with
    | err => simp [h2] at h
    | panic => simp [h2] at h
    | ok tree =>
      simp only [h2] at h
      cases h3 : treeFold (Table.ofView n t) rbg tree (EMap.new (Table.ofView n t).nrGens) [(base, FW.empty)] with
      | err => simp [h3] at h
      | panic => simp [h3] at h
      | ok ep =>
        obtain ⟨e1, p2w⟩ := ep
        simp only [h3] at h
        have hp := treeFold_PInv hcomp hinv rbg tree _ _ e1 p2w (PInv_init t n base) h3
        cases h4 : genFold (Table.ofView n t) rbg p2w (genPairs (Table.ofView n t)) e1 [] with
        | err => simp [h4] at h
        | panic => simp [h4] at h
        | ok eg =>
          obtain ⟨e2, gens'⟩ := eg
          simp only [h4] at h
          cases h5 : subrelFold (Table.ofView n t) e2 (subrelPairs (Table.ofView n t) rels) [] with
          | err => simp [h5] at h
          | panic => simp [h5] at h
          | ok sub =>
            simp only [h5, Outcome.ok.injEq, Prod.mk.injEq] at h
            rw [← h.1]
            exact genFold_fix hcomp hinv rbg p2w hp _ e1 [] e2 gens' (by simp) h4

end DSymVerif.StabP
