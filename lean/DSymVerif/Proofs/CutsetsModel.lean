/-
Helper lemmas for property C19, part 2: facts about the executable model
`DSymVerif.Cut` of cutsets.rs that hold for every graph —
ordered containers, the BFS invariant `seen = {source} ∪ keys(back)`, the shape of the
answer (`cut = edges leaving seen`, `source ∈ seen`, `sink ∉ seen`), separation for the
edge cut, the undirected edge cut and (through the split graph) the vertex cut,
closedness of `inside`, absence of repeats in edge cuts.
-/
import DSymVerif.Model.Cutsets
import DSymVerif.Proofs.Cutsets

namespace DSymVerif.CutP
open DSymVerif.Cut DSymVerif.SpecC19

/-! ### ordered containers -/

theorem mem_insNat (x y : Nat) : ∀ l : List Nat, y ∈ insNat x l ↔ y = x ∨ y ∈ l
  | [] => by simp [insNat]
  | z :: zs => by
    simp only [insNat]
    split
    · simp
    · split
      · rename_i h; subst h; simp
      · simp only [List.mem_cons, mem_insNat x y zs]
        constructor
        · rintro (h | h | h) <;> simp [h]
        · rintro (h | h | h) <;> simp [h]

theorem mem_natSet_aux (y : Nat) : ∀ (l acc : List Nat),
    y ∈ l.foldl (fun acc x => insNat x acc) acc ↔ y ∈ l ∨ y ∈ acc
  | [], acc => by simp
  | x :: l, acc => by
    simp only [List.foldl_cons, mem_natSet_aux y l, mem_insNat, List.mem_cons]
    constructor
    · rintro (h | h | h) <;> simp [h]
    · rintro ((h | h) | h) <;> simp [h]

theorem mem_natSet (y : Nat) (l : List Nat) : y ∈ natSet l ↔ y ∈ l := by
  simp [natSet, mem_natSet_aux]

theorem mem_insEdge (e f : Cut.Edge) : ∀ l : List Cut.Edge, f ∈ insEdge e l ↔ f = e ∨ f ∈ l
  | [] => by simp [insEdge]
  | z :: zs => by
    simp only [insEdge]
    split
    · simp
    · split
      · rename_i h; subst h; simp
      · simp only [List.mem_cons, mem_insEdge e f zs]
        constructor
        · rintro (h | h | h) <;> simp [h]
        · rintro (h | h | h) <;> simp [h]

theorem mem_edgeSet_aux (f : Cut.Edge) : ∀ (l acc : List Cut.Edge),
    f ∈ l.foldl (fun acc e => insEdge e acc) acc ↔ f ∈ l ∨ f ∈ acc
  | [], acc => by simp
  | x :: l, acc => by
    simp only [List.foldl_cons, mem_edgeSet_aux f l, mem_insEdge, List.mem_cons]
    constructor
    · rintro (h | h | h) <;> simp [h]
    · rintro ((h | h) | h) <;> simp [h]

theorem mem_edgeSet (f : Cut.Edge) (l : List Cut.Edge) : f ∈ edgeSet l ↔ f ∈ l := by
  simp [edgeSet, mem_edgeSet_aux]

/-! #### strict sortedness, hence no repeats -/

theorem edgeLt_irrefl (a : Cut.Edge) : edgeLt a a = false := by
  simp [edgeLt]

theorem edgeLt_trans {a b c : Cut.Edge} (h1 : edgeLt a b = true) (h2 : edgeLt b c = true) :
    edgeLt a c = true := by
  obtain ⟨a1, a2⟩ := a; obtain ⟨b1, b2⟩ := b; obtain ⟨c1, c2⟩ := c
  simp only [edgeLt, Bool.or_eq_true, decide_eq_true_eq, Bool.and_eq_true, beq_iff_eq] at *
  omega

theorem edgeLt_total {a b : Cut.Edge} (h1 : edgeLt a b = false) (h2 : a ≠ b) :
    edgeLt b a = true := by
  obtain ⟨a1, a2⟩ := a; obtain ⟨b1, b2⟩ := b
  have hne : a1 ≠ b1 ∨ a2 ≠ b2 := by
    by_cases h : a1 = b1
    · right; intro h'; exact h2 (by rw [h, h'])
    · left; exact h
  simp only [edgeLt, Bool.or_eq_false_iff, decide_eq_false_iff_not, Bool.and_eq_false_iff,
    beq_eq_false_iff_ne, Bool.or_eq_true, decide_eq_true_eq, Bool.and_eq_true, beq_iff_eq] at *
  omega

theorem sorted_insEdge (e : Cut.Edge) : ∀ l : List Cut.Edge,
    l.Pairwise (fun a b => edgeLt a b = true) → (insEdge e l).Pairwise (fun a b => edgeLt a b = true)
  | [], _ => by simp [insEdge]
  | z :: zs, h => by
    rw [List.pairwise_cons] at h
    simp only [insEdge]
    split
    · rename_i hlt
      refine List.pairwise_cons.2 ⟨?_, List.pairwise_cons.2 h⟩
      intro y hy
      rcases List.mem_cons.1 hy with hy | hy
      · rw [hy]; exact hlt
      · exact edgeLt_trans hlt (h.1 y hy)
    · rename_i hlt
      split
      · exact List.pairwise_cons.2 h
      · rename_i hne
        refine List.pairwise_cons.2 ⟨?_, sorted_insEdge e zs h.2⟩
        intro y hy
        rcases (mem_insEdge e y zs).1 hy with hy | hy
        · rw [hy]; exact edgeLt_total (by simpa using hlt) hne
        · exact h.1 y hy

theorem sorted_edgeSet_aux : ∀ (l acc : List Cut.Edge),
    acc.Pairwise (fun a b => edgeLt a b = true) →
    (l.foldl (fun acc e => insEdge e acc) acc).Pairwise (fun a b => edgeLt a b = true)
  | [], _, h => h
  | x :: l, acc, h => by
    simp only [List.foldl_cons]
    exact sorted_edgeSet_aux l _ (sorted_insEdge x acc h)

theorem nodup_edgeSet (l : List Cut.Edge) : (edgeSet l).Nodup := by
  have := sorted_edgeSet_aux l [] List.Pairwise.nil
  refine List.Pairwise.imp ?_ this
  intro a b hab heq
  subst heq
  simp [edgeLt_irrefl] at hab

/-! ### the BFS invariant -/

theorem hasKey_cons (k w v : Nat) (m : List (Nat × Nat)) :
    hasKey k ((w, v) :: m) = (k == w || hasKey k m) := by
  simp only [hasKey, List.lookup_cons]
  by_cases h : k == w <;> simp [h]

/-- `seen` is the source together with the keys of `back` -/
def BfsInv (source : Nat) (st : Bfs) : Prop :=
  ∀ x, x ∈ st.seen ↔ (x = source ∨ hasKey x st.back = true)

theorem visit_inv (edges path : List Cut.Edge) (source v w : Nat) (st : Bfs)
    (h : BfsInv source st) : BfsInv source (visit edges path v st w) := by
  unfold visit
  split
  · split
    · intro x
      simp only [mem_insNat, hasKey_cons, Bool.or_eq_true, beq_iff_eq, h x]
      constructor
      · rintro (h | h | h) <;> simp [h]
      · rintro (h | h | h) <;> simp [h]
    · exact h
  · exact h

theorem foldl_visit_inv (edges path : List Cut.Edge) (source v : Nat) :
    ∀ (ws : List Nat) (st : Bfs), BfsInv source st →
      BfsInv source (ws.foldl (visit edges path v) st)
  | [], _, h => h
  | w :: ws, st, h => by
    simp only [List.foldl_cons]
    exact foldl_visit_inv edges path source v ws _ (visit_inv edges path source v w st h)

theorem bfs_inv (edges path : List Cut.Edge) (nbrs : List (Nat × List Nat)) (source sink : Nat) :
    ∀ (fuel : Nat) (st st' : Bfs), BfsInv source st →
      bfs edges path nbrs sink fuel st = .ok st' → BfsInv source st'
  | 0, _, _, _, h => by simp [bfs] at h
  | fuel + 1, st, st', hinv, h => by
    unfold bfs at h
    split at h
    · cases h; exact hinv
    · rename_i v q' hq
      split at h
      · cases h
      · rename_i ws hws
        have hinv' : BfsInv source (ws.foldl (visit edges path v) { st with q := q' }) :=
          foldl_visit_inv edges path source v ws _ (by intro x; exact hinv x)
        simp only at h
        split at h
        · cases h; exact hinv'
        · exact bfs_inv edges path nbrs source sink fuel _ st' hinv' h

/-- when `augment` finds no augmenting path, the set it returns contains the source and
    not the sink -/
theorem augment_none (edges : List Cut.Edge) (nbrs : List (Nat × List Nat)) (source sink : Nat)
    (path : List Cut.Edge) (seen : List Nat)
    (h : augment edges nbrs source sink path = .ok (none, seen)) :
    source ∈ seen ∧ (sink ≠ source → sink ∉ seen) := by
  unfold augment at h
  split at h
  · rename_i st hst
    have hinv : BfsInv source st :=
      bfs_inv edges path nbrs source sink _ _ st (by intro x; simp [hasKey]) hst
    split at h
    · split at h <;> cases h
    · rename_i hk
      cases h
      refine ⟨(hinv source).2 (Or.inl rfl), fun hne hmem => ?_⟩
      rcases (hinv sink).1 hmem with h | h
      · exact hne h
      · exact hk h
  · cases h
  · cases h

/-! ### shape of the answer of `min_edge_cut` -/

theorem cutLoop_shape (edges : List Cut.Edge) (nbrs : List (Nat × List Nat)) (source sink : Nat) :
    ∀ (fuel : Nat) (path : List Cut.Edge) (r : EdgeCut),
      cutLoop edges nbrs source sink fuel path = .ok r →
      r.cut = leaving edges r.inside ∧ source ∈ r.inside ∧ (sink ≠ source → sink ∉ r.inside)
  | 0, _, _, h => by simp [cutLoop] at h
  | fuel + 1, path, r, h => by
    unfold cutLoop at h
    split at h
    · exact cutLoop_shape edges nbrs source sink fuel _ r h
    · rename_i seen haug
      cases h
      exact ⟨rfl, augment_none edges nbrs source sink path seen haug⟩
    · cases h
    · cases h

/-- **cut_is_leaving_edges.** -/
theorem minEdgeCut_shape (input : List Cut.Edge) (s t : Nat) (r : EdgeCut)
    (h : minEdgeCut input s t = .ok r) :
    r.cut = leaving (edgeSet input) r.inside ∧ s ∈ r.inside ∧ (t ≠ s → t ∉ r.inside) :=
  cutLoop_shape _ _ s t _ _ r h

theorem mem_leaving (edges : List Cut.Edge) (seen : List Nat) (e : Cut.Edge) :
    e ∈ leaving edges seen ↔ e ∈ edges ∧ e.1 ∈ seen ∧ e.2 ∉ seen := by
  simp [leaving]

/-- the model's edge cut meets every walk from the source to the sink — for every graph -/
theorem minEdgeCut_separates (input : List Cut.Edge) (s t : Nat) (r : EdgeCut)
    (h : minEdgeCut input s t = .ok r) (hst : s ≠ t)
    (p : List Nat) (hp : IsWalk input s t p) : ∃ e ∈ walkEdges p, e ∈ r.cut := by
  obtain ⟨hcut, hs, ht⟩ := minEdgeCut_shape input s t r h
  refine closed_set_separates input r.cut (· ∈ r.inside) s t hs (ht (Ne.symm hst)) ?_ p hp
  intro e he h1 h2
  rw [hcut, mem_leaving]
  exact ⟨(mem_edgeSet e input).2 he, h1, h2⟩

/-- `inside` is closed under the edges that are not cut -/
theorem minEdgeCut_inside_closed (input : List Cut.Edge) (s t : Nat) (r : EdgeCut)
    (h : minEdgeCut input s t = .ok r) (e : Cut.Edge) (he : e ∈ input) (hc : e ∉ r.cut)
    (h1 : e.1 ∈ r.inside) : e.2 ∈ r.inside := by
  obtain ⟨hcut, _, _⟩ := minEdgeCut_shape input s t r h
  by_cases h2 : e.2 ∈ r.inside
  · exact h2
  · exact absurd (by rw [hcut, mem_leaving]; exact ⟨(mem_edgeSet e input).2 he, h1, h2⟩) hc

/-- every vertex reachable from the source once the cut is removed is listed in `inside` -/
theorem minEdgeCut_inside_contains_reachable (input : List Cut.Edge) (s t : Nat) (r : EdgeCut)
    (h : minEdgeCut input s t = .ok r) (v : Nat) (p : List Nat)
    (hp : IsWalk (removeEdges input r.cut) s v p) : v ∈ r.inside := by
  obtain ⟨_, hs, _⟩ := minEdgeCut_shape input s t r h
  by_cases hv : v ∈ r.inside
  · exact hv
  · obtain ⟨e, he, h1, h2⟩ := exists_leaving (· ∈ r.inside) p s v hp.1 hp.2.1 hs hv
    have := (mem_removeEdges input r.cut e).1 (hp.2.2 e he)
    exact absurd (minEdgeCut_inside_closed input s t r h e this.1 this.2 h1) h2

/-- the edge cut lists no edge twice and all its edges are edges of the graph -/
theorem minEdgeCut_nodup (input : List Cut.Edge) (s t : Nat) (r : EdgeCut)
    (h : minEdgeCut input s t = .ok r) : r.cut.Nodup ∧ ∀ e ∈ r.cut, e ∈ input := by
  obtain ⟨hcut, _, _⟩ := minEdgeCut_shape input s t r h
  rw [hcut]
  exact ⟨List.Pairwise.sublist List.filter_sublist (nodup_edgeSet input),
    fun e he => (mem_edgeSet e input).1 ((mem_leaving _ _ e).1 he).1⟩

/-! ### the undirected edge cut -/

theorem mem_symm (input : List Cut.Edge) (e : Cut.Edge) :
    e ∈ symm input ↔ e ∈ input ∨ swap e ∈ input := by
  obtain ⟨a, b⟩ := e
  simp only [symm, List.mem_flatMap, List.mem_cons, Prod.mk.injEq, List.not_mem_nil, or_false,
    swap]
  constructor
  · rintro ⟨⟨x, y⟩, hx, (⟨h1, h2⟩ | ⟨h1, h2⟩)⟩
    · left; simp only at h1 h2; rw [h1, h2]; exact hx
    · right; simp only at h1 h2; rw [h1, h2]; exact hx
  · rintro (h | h)
    · exact ⟨(a, b), h, Or.inl ⟨rfl, rfl⟩⟩
    · exact ⟨(b, a), h, Or.inr ⟨rfl, rfl⟩⟩

theorem mem_sym (G : List Cut.Edge) (e : Cut.Edge) : e ∈ sym G ↔ e ∈ G ∨ swap e ∈ G := by
  obtain ⟨a, b⟩ := e
  simp only [sym, List.mem_append, List.mem_map, swap]
  constructor
  · rintro (h | ⟨⟨x, y⟩, hx, h⟩)
    · exact Or.inl h
    · right; simp only [Prod.mk.injEq] at h; rw [← h.1, ← h.2]; exact hx
  · rintro (h | h)
    · exact Or.inl h
    · exact Or.inr ⟨(b, a), h, rfl⟩

/-- the undirected model cut meets every walk of the undirected graph, and never lists an
    unordered edge twice (neither literally nor as `(v,w)` and `(w,v)`) -/
theorem minEdgeCutUndirected_separates (input : List Cut.Edge) (s t : Nat) (r : EdgeCut)
    (h : minEdgeCutUndirected input s t = .ok r) (hst : s ≠ t)
    (p : List Nat) (hp : IsWalk (sym input) s t p) : ∃ e ∈ walkEdges p, e ∈ r.cut := by
  refine minEdgeCut_separates _ s t r h hst p (hp.mono ?_)
  intro e _ he
  exact (mem_edgeSet e _).2 ((mem_symm input e).2 ((mem_sym input e).1 he))

theorem minEdgeCutUndirected_nodup (input : List Cut.Edge) (s t : Nat) (r : EdgeCut)
    (h : minEdgeCutUndirected input s t = .ok r) :
    r.cut.Nodup ∧ (∀ e ∈ r.cut, swap e ∉ r.cut) ∧ ∀ e ∈ r.cut, e ∈ sym input := by
  obtain ⟨hcut, _, _⟩ := minEdgeCut_shape _ s t r h
  refine ⟨(minEdgeCut_nodup _ s t r h).1, ?_, ?_⟩
  · intro e he hs
    rw [hcut, mem_leaving] at he hs
    exact he.2.2 hs.2.1
  · intro e he
    have := (minEdgeCut_nodup _ s t r h).2 e he
    exact (mem_sym input e).2 ((mem_symm input e).1 ((mem_edgeSet e _).1 this))

/-! ### the vertex cut (split graph) -/

theorem le_foldl_max : ∀ (l : List Nat) (a x : Nat), (x ≤ a ∨ x ∈ l) → x ≤ l.foldl max a
  | [], a, x, h => by simpa using h
  | y :: l, a, x, h => by
    simp only [List.foldl_cons]
    apply le_foldl_max l
    rcases h with h | h
    · left; exact Nat.le_trans h (Nat.le_max_left a y)
    · rcases List.mem_cons.1 h with h | h
      · left; rw [h]; exact Nat.le_max_right a y
      · right; exact h

theorem lt_offsetOf (l : List Nat) (x : Nat) (h : x ∈ l) : x < offsetOf l := by
  have := le_foldl_max l 0 x (Or.inr h)
  simp only [offsetOf]; omega

/-- the walk-following argument in the split graph: start at an out-copy inside `S`,
    end at an in-copy outside `S`; some vertex after the first one is read back as a
    cut vertex -/
theorem split_walk (G : List Cut.Edge) (S : List Nat) (off t : Nat) (cutV : List Nat)
    (hlt : ∀ e ∈ G, e.2 < off)
    (hedge : ∀ e ∈ G, e.1 + off ∈ S → e.2 ∉ S → e.2 ∈ cutV)
    (hvert : ∀ e ∈ G, e.2 ∈ S → e.2 + off ∉ S → e.2 ∈ cutV)
    (ht : t ∉ S) :
    ∀ (r : List Nat) (a : Nat), a + off ∈ S → (r = [] → a ∈ S) → (a :: r).getLast? = some t →
      (∀ e ∈ walkEdges (a :: r), e ∈ G) → ∃ x ∈ r, x ∈ cutV
  | [], a, _, h0, hl, _ => by
    simp at hl; subst hl; exact absurd (h0 rfl) ht
  | b :: r, a, ha, _, hl, hw => by
    have hab : (a, b) ∈ G := hw (a, b) (by rw [walkEdges_cons_cons]; exact List.mem_cons_self)
    by_cases hb : b ∈ S
    · by_cases hbo : b + off ∈ S
      · have hl' : (b :: r).getLast? = some t := by
          rw [List.getLast?_cons_cons] at hl; exact hl
        obtain ⟨x, hx, hxc⟩ := split_walk G S off t cutV hlt hedge hvert ht r b hbo (fun _ => hb) hl'
          (fun e he => hw e (by rw [walkEdges_cons_cons]; exact List.mem_cons_of_mem _ he))
        exact ⟨x, List.mem_cons_of_mem _ hx, hxc⟩
      · exact ⟨b, List.mem_cons_self, hvert (a, b) hab hb hbo⟩
    · exact ⟨b, List.mem_cons_self, hedge (a, b) hab ha hb⟩

/-- the model's vertex cut meets every walk from the source to the sink at a vertex other
    than its first one — for every graph -/
theorem minVertexCut_separates (input : List Cut.Edge) (s t : Nat) (r : VertexCut)
    (h : minVertexCut input s t = .ok r) (hst : s ≠ t)
    (p : List Nat) (hp : IsWalk input s t p) : ∃ x ∈ p.tail, x ∈ r.cut := by
  unfold minVertexCut at h
  simp only at h
  split at h
  · rename_i ec hec
    cases h
    simp only
    generalize hE : edgeSet input = E at hec
    generalize hV : natSet (E.flatMap fun e => [e.1, e.2]) = V at hec
    generalize hoff : offsetOf V = off at hec
    obtain ⟨hcut, hs, htn⟩ := minEdgeCut_shape _ _ _ ec hec
    -- vertices of the graph are below the offset
    have hmemV : ∀ e ∈ input, e.1 ∈ V ∧ e.2 ∈ V := by
      intro e he
      have heE : e ∈ E := by rw [← hE]; exact (mem_edgeSet e input).2 he
      rw [← hV]
      constructor
      · exact (mem_natSet _ _).2 (List.mem_flatMap.2 ⟨e, heE, by simp⟩)
      · exact (mem_natSet _ _).2 (List.mem_flatMap.2 ⟨e, heE, by simp⟩)
    have hlt : ∀ e ∈ input, e.2 < off := by
      intro e he; rw [← hoff]; exact lt_offsetOf V e.2 (hmemV e he).2
    -- membership in the split graph
    have hsplit1 : ∀ e ∈ input, (e.1 + off, e.2) ∈ edgeSet (splitEdges E V off) := by
      intro e he
      refine (mem_edgeSet _ _).2 (List.mem_append.2 (Or.inl (List.mem_map.2 ⟨e, ?_, rfl⟩)))
      rw [← hE]; exact (mem_edgeSet e input).2 he
    have hsplit2 : ∀ v ∈ V, (v, v + off) ∈ edgeSet (splitEdges E V off) := by
      intro v hv
      exact (mem_edgeSet _ _).2 (List.mem_append.2 (Or.inr (List.mem_map.2 ⟨v, hv, rfl⟩)))
    cases p with
    | nil => simp [IsWalk] at hp
    | cons a rest =>
      obtain ⟨h1, h2, h3⟩ := hp
      simp only [List.head?_cons, Option.some.injEq] at h1
      subst h1
      -- the sink is an endpoint, hence below the offset, hence not the split source
      have hrest : rest ≠ [] := by
        intro hr; subst hr; simp at h2; exact hst h2
      have htlt : t < off := by
        cases rest with
        | nil => exact absurd rfl hrest
        | cons b r' =>
          -- t is the second component of the last edge
          have : ∀ (q : List Nat) (x : Nat), (x :: q).getLast? = some t → q ≠ [] →
              ∃ e ∈ walkEdges (x :: q), e.2 = t := by
            intro q
            induction q with
            | nil => intro x _ h; exact absurd rfl h
            | cons y q ih =>
              intro x hl _
              cases q with
              | nil =>
                simp at hl
                exact ⟨(x, y), by simp [walkEdges], hl⟩
              | cons z q' =>
                rw [List.getLast?_cons_cons] at hl
                obtain ⟨e, he, het⟩ := ih y hl (by simp)
                exact ⟨e, by rw [walkEdges_cons_cons]; exact List.mem_cons_of_mem _ he, het⟩
          obtain ⟨e, he, het⟩ := this (b :: r') a h2 (by simp)
          rw [← het]; exact hlt e (h3 e he)
      have htS : t ∉ ec.inside := htn (by omega)
      simp only [List.tail_cons]
      refine split_walk input ec.inside off t _ hlt ?_ ?_ htS rest a hs
        (fun hr => absurd hr hrest) h2 h3
      · intro e he h1 h2
        refine List.mem_map.2 ⟨(e.1 + off, e.2), ?_, ?_⟩
        · rw [hcut, mem_leaving]; exact ⟨hsplit1 e he, h1, h2⟩
        · have := hlt e he
          simp only; omega
      · intro e he h1 h2
        refine List.mem_map.2 ⟨(e.2, e.2 + off), ?_, ?_⟩
        · rw [hcut, mem_leaving]; exact ⟨hsplit2 e.2 (hmemV e he).2, h1, h2⟩
        · simp only; omega
  · cases h
  · cases h

/-- undirected variant -/
theorem minVertexCutUndirected_separates (input : List Cut.Edge) (s t : Nat) (r : VertexCut)
    (h : minVertexCutUndirected input s t = .ok r) (hst : s ≠ t)
    (p : List Nat) (hp : IsWalk (sym input) s t p) : ∃ x ∈ p.tail, x ∈ r.cut := by
  refine minVertexCut_separates _ s t r h hst p (hp.mono ?_)
  intro e _ he
  exact (mem_edgeSet e _).2 ((mem_symm input e).2 ((mem_sym input e).1 he))

end DSymVerif.CutP
