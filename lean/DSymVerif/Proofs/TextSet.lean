/-
C01, part 1: the operation loops of the repaired `FromStr` never panic and, when they
succeed, leave a complete D-set whose operations are involutions on 1..size.
-/
import DSymVerif.Model.Text
import DSymVerif.Proofs.DSetBasic

namespace DSymVerif.Text
open DSymVerif DSymVerif.DS

/-! ### arrays and the index map -/

theorem getD_set (a : Array Nat) (i j v : Nat) :
    (a.setIfInBounds i v).getD j 0 = if i = j ∧ i < a.size then v else a.getD j 0 := by
  simp only [Array.getD_eq_getD_getElem?, Array.getElem?_setIfInBounds]
  by_cases h : i = j
  · subst h
    by_cases h2 : i < a.size
    · simp [h2]
    · simp [h2]
  · simp [h]

theorem getD_replicate (n k : Nat) : (Array.replicate n 0).getD k 0 = 0 := by
  simp only [Array.getD_eq_getD_getElem?, Array.getElem?_replicate]
  split <;> rfl

theorem idx_lt {size dim i d : Nat} (hi : i ≤ dim) (h1 : 1 ≤ d) (h2 : d ≤ size) :
    (d - 1) * (dim + 1) + i < size * (dim + 1) := by
  obtain ⟨k, rfl⟩ : ∃ k, d = k + 1 := ⟨d - 1, by omega⟩
  have : (k + 1) * (dim + 1) ≤ size * (dim + 1) := Nat.mul_le_mul_right _ h2
  simp only [Nat.add_sub_cancel]
  rw [Nat.add_mul] at this
  omega

theorem idx_inj {dim i j d e : Nat} (hi : i ≤ dim) (hj : j ≤ dim) (hd : 1 ≤ d) (he : 1 ≤ e)
    (h : (d - 1) * (dim + 1) + i = (e - 1) * (dim + 1) + j) : i = j ∧ d = e := by
  have hm := congrArg (· % (dim + 1)) h
  simp only [Nat.mul_add_mod_self_right] at hm
  rw [Nat.mod_eq_of_lt (by omega), Nat.mod_eq_of_lt (by omega)] at hm
  subst hm
  have h' : (d - 1) * (dim + 1) = (e - 1) * (dim + 1) := by omega
  have := Nat.eq_of_mul_eq_mul_right (by omega) h'
  omega

theorem getElem?_eq_opU {s : DSetData} (hs : s.op.size = s.size * (s.dim + 1)) {i d : Nat}
    (hi : i ≤ s.dim) (h1 : 1 ≤ d) (h2 : d ≤ s.size) : s.op[s.idx i d]? = some (s.opU i d) := by
  have hlt : s.idx i d < s.op.size := by
    rw [hs]; exact idx_lt hi h1 h2
  simp only [DSetData.opU, Array.getD_eq_getD_getElem?, Array.getElem?_eq_getElem hlt, Option.getD_some]

/-- in range, the checked read is the plain table entry -/
theorem opC_ok {s : DSetData} (hs : s.op.size = s.size * (s.dim + 1)) {i d : Nat}
    (hi : i ≤ s.dim) (h1 : 1 ≤ d) (h2 : d ≤ s.size) : opC s i d = .ok (s.opU i d) := by
  unfold opC
  rw [if_neg (by omega), getElem?_eq_opU hs hi h1 h2]

/-! ### `PartialDSet::new` -/

theorem newC_ne_panic {size dim : Nat} (h1 : 1 ≤ size) (h2 : 1 ≤ dim)
    (hb : size * (dim + 1) < allocLimit) : ∃ s, newC size dim = .ok s ∧ s.size = size ∧ s.dim = dim ∧
      ValidPartialSet s ∧ ∀ i d, s.opU i d = 0 := by
  have hal : allocLimit ≤ usizeLimit := by unfold allocLimit usizeLimit; decide
  have hd : dim + 1 ≤ size * (dim + 1) := Nat.le_mul_of_pos_left _ h1
  have hz : ∀ i d, (DSetData.opU { size := size, dim := dim, op := Array.replicate (size * (dim + 1)) 0 } i d) = 0 :=
    fun i d => getD_replicate _ _
  refine ⟨{ size := size, dim := dim, op := Array.replicate (size * (dim + 1)) 0 }, ?_, rfl, rfl, ?_, hz⟩
  · unfold newC
    rw [if_neg (by simp; omega), if_neg (by omega), if_neg (by omega), if_neg (by omega)]
  · refine ⟨by simp, ?_, ?_⟩
    · intro i d _ _ _
      rw [hz]; exact Nat.zero_le _
    · intro i d _ _ _ h
      exact absurd (hz i d) h

/-! ### `PartialDSet::set` -/

theorem setC_ok {s : DSetData} (h : ValidPartialSet s) {i d e : Nat} (hi : i ≤ s.dim)
    (hd1 : 1 ≤ d) (hd2 : d ≤ s.size) (he1 : 1 ≤ e) (he2 : e ≤ s.size)
    (hd0 : s.opU i d = 0) (he0 : s.opU i e = 0) :
    ∃ s', setC s i d e = .ok s' ∧ s'.size = s.size ∧ s'.dim = s.dim ∧ ValidPartialSet s' ∧
      (∀ j x, j ≤ s.dim → 1 ≤ x → x ≤ s.size →
        s'.opU j x = if j = i ∧ x = e then d else if j = i ∧ x = d then e else s.opU j x) := by
  have hform : ∀ j x, j ≤ s.dim → 1 ≤ x → x ≤ s.size →
      ((s.op.setIfInBounds (s.idx i d) e).setIfInBounds (s.idx i e) d).getD
          ((x - 1) * (s.dim + 1) + j) 0 =
        if j = i ∧ x = e then d else if j = i ∧ x = d then e else s.opU j x := by
    intro j x hj hx1 hx2
    have hde : s.idx i e < s.op.size := by rw [h.size_eq]; exact idx_lt hi he1 he2
    have hdd : s.idx i d < s.op.size := by rw [h.size_eq]; exact idx_lt hi hd1 hd2
    rw [getD_set, getD_set, Array.size_setIfInBounds]
    by_cases c1 : j = i ∧ x = e
    · obtain ⟨rfl, rfl⟩ := c1
      rw [if_pos (show s.idx j x = (x - 1) * (s.dim + 1) + j ∧ s.idx j x < s.op.size from ⟨rfl, hde⟩),
        if_pos (show j = j ∧ x = x from ⟨rfl, rfl⟩)]
    · rw [if_neg c1, if_neg]
      · by_cases c2 : j = i ∧ x = d
        · obtain ⟨rfl, rfl⟩ := c2
          rw [if_pos (show s.idx j x = (x - 1) * (s.dim + 1) + j ∧ s.idx j x < s.op.size from ⟨rfl, hdd⟩),
            if_pos (show j = j ∧ x = x from ⟨rfl, rfl⟩)]
        · rw [if_neg c2, if_neg]
          · rfl
          · rintro ⟨heq, _⟩
            have := idx_inj hi hj hd1 hx1 heq
            omega
      · rintro ⟨heq, _⟩
        have := idx_inj hi hj he1 hx1 heq
        omega
  let s' : DSetData :=
    { s with op := (s.op.setIfInBounds (s.idx i d) e).setIfInBounds (s.idx i e) d }
  have hop : ∀ j x, j ≤ s.dim → 1 ≤ x → x ≤ s.size →
      s'.opU j x = if j = i ∧ x = e then d else if j = i ∧ x = d then e else s.opU j x :=
    fun j x hj hx1 hx2 => hform j x hj hx1 hx2
  refine ⟨s', ?_, rfl, rfl, ?_, hop⟩
  · unfold setC
    rw [if_neg (by simpa using hi), if_neg (by simp; omega), if_neg (by simp; omega),
      getElem?_eq_opU h.size_eq hi hd1 hd2, getElem?_eq_opU h.size_eq hi he1 he2]
    simp only [hd0, he0]
    simp
    rfl
  · refine ⟨?_, ?_, ?_⟩
    · show ((s.op.setIfInBounds (s.idx i d) e).setIfInBounds (s.idx i e) d).size = _
      rw [Array.size_setIfInBounds, Array.size_setIfInBounds]; exact h.size_eq
    · intro j x hj hx1 hx2
      have hj' : j ≤ s.dim := hj
      have hx2' : x ≤ s.size := hx2
      rw [hop j x hj' hx1 hx2']
      show _ ≤ s.size
      split
      · exact hd2
      · split
        · exact he2
        · exact h.range j x hj' hx1 hx2'
    · intro j x hj hx1 hx2 hne
      have hj' : j ≤ s.dim := hj
      have hx2' : x ≤ s.size := hx2
      rw [hop j x hj' hx1 hx2'] at hne ⊢
      by_cases c1 : j = i ∧ x = e
      · obtain ⟨rfl, rfl⟩ := c1
        rw [if_pos ⟨rfl, rfl⟩, hop j d hj' hd1 hd2]
        by_cases c : d = x
        · rw [if_pos ⟨rfl, c⟩]; exact c
        · rw [if_neg (by simp [c]), if_pos ⟨rfl, rfl⟩]
      · rw [if_neg c1] at hne ⊢
        by_cases c2 : j = i ∧ x = d
        · obtain ⟨rfl, rfl⟩ := c2
          rw [if_pos ⟨rfl, rfl⟩, hop j e hj' he1 he2, if_pos ⟨rfl, rfl⟩]
        · rw [if_neg c2] at hne ⊢
          have hy2 := h.range j x hj' hx1 hx2'
          have hy1 : 1 ≤ s.opU j x := by omega
          have hinv := h.invol j x hj' hx1 hx2' hne
          rw [hop j _ hj' hy1 hy2, if_neg, if_neg]
          · exact hinv
          · rintro ⟨rfl, hyd⟩
            rw [hyd, hd0] at hinv; omega
          · rintro ⟨rfl, hye⟩
            rw [hye, he0] at hinv; omega

/-! ### the inner loop over chambers -/

theorem opLoop_skip {i n d : Nat} {s : DSetData} {rest : List Nat} {x : Nat}
    (h : opC s i d = .ok x) (hx : x ≠ 0) :
    opLoop i (n + 1) d s rest = opLoop i n (d + 1) s rest := by
  simp [opLoop, h, hx]

theorem opLoop_nil {i n d : Nat} {s : DSetData} (h : opC s i d = .ok 0) :
    opLoop i (n + 1) d s [] = .err := by
  simp [opLoop, h]

theorem opLoop_range {i n d di : Nat} {s : DSetData} {rest : List Nat} (h : opC s i d = .ok 0)
    (hr : di < 1 ∨ di > s.size) : opLoop i (n + 1) d s (di :: rest) = .err := by
  simp only [opLoop, h, if_true]
  rw [if_pos (by simpa using hr)]

theorem opLoop_incons {i n d di y : Nat} {s : DSetData} {rest : List Nat} (h : opC s i d = .ok 0)
    (h1 : 1 ≤ di) (h2 : di ≤ s.size) (hy : opC s i di = .ok y) (hy0 : y ≠ 0) :
    opLoop i (n + 1) d s (di :: rest) = .err := by
  simp only [opLoop, h, if_true]
  rw [if_neg (by simp; omega)]
  simp [hy, hy0]

theorem opLoop_set {i n d di : Nat} {s s1 : DSetData} {rest : List Nat} (h : opC s i d = .ok 0)
    (h1 : 1 ≤ di) (h2 : di ≤ s.size) (hy : opC s i di = .ok 0) (hs : setC s i d di = .ok s1) :
    opLoop i (n + 1) d s (di :: rest) = opLoop i n (d + 1) s1 rest := by
  simp only [opLoop, h, if_true]
  rw [if_neg (by simp; omega)]
  simp [hy, hs]

theorem opLoop_spec (i : Nat) : ∀ (n d : Nat) (s : DSetData) (rest : List Nat),
    ValidPartialSet s → i ≤ s.dim → 1 ≤ d → d + n = s.size + 1 →
    (∀ x, 1 ≤ x → x < d → s.opU i x ≠ 0) →
    opLoop i n d s rest ≠ .panic ∧
    ∀ s' rest', opLoop i n d s rest = .ok (s', rest') →
      s'.size = s.size ∧ s'.dim = s.dim ∧ ValidPartialSet s' ∧
      (∀ x, 1 ≤ x → x ≤ s.size → s'.opU i x ≠ 0) ∧
      (∀ j x, j ≤ s.dim → j ≠ i → 1 ≤ x → x ≤ s.size → s'.opU j x = s.opU j x) := by
  intro n
  induction n with
  | zero =>
    intro d s rest h hi hd hn hlow
    refine ⟨by simp [opLoop], ?_⟩
    intro s' rest' heq
    simp only [opLoop, Outcome.ok.injEq, Prod.mk.injEq] at heq
    obtain ⟨rfl, rfl⟩ := heq
    exact ⟨rfl, rfl, h, fun x hx1 hx2 => hlow x hx1 (by omega), fun _ _ _ _ _ _ => rfl⟩
  | succ n ih =>
    intro d s rest h hi hd hn hlow
    have hd2 : d ≤ s.size := by omega
    have hc := opC_ok h.size_eq hi hd hd2
    by_cases hz : s.opU i d = 0
    · rw [hz] at hc
      cases rest with
      | nil => rw [opLoop_nil hc]; exact ⟨by simp, by simp⟩
      | cons di rest' =>
        by_cases hr : di < 1 ∨ di > s.size
        · rw [opLoop_range hc hr]; exact ⟨by simp, by simp⟩
        · have hr' : 1 ≤ di ∧ di ≤ s.size := by omega
          have hcy := opC_ok h.size_eq hi hr'.1 hr'.2
          by_cases hy0 : s.opU i di = 0
          case neg =>
            rw [opLoop_incons hc hr'.1 hr'.2 hcy hy0]; exact ⟨by simp, by simp⟩
          case pos =>
            obtain ⟨s1, hset, hsz, hdm, hv, hop⟩ := setC_ok h hi hd hd2 hr'.1 hr'.2 hz hy0
            rw [hy0] at hcy
            rw [opLoop_set hc hr'.1 hr'.2 hcy hset]
            have hlow1 : ∀ x, 1 ≤ x → x < d + 1 → s1.opU i x ≠ 0 := by
              intro x hx1 hx2
              rw [hop i x hi hx1 (by omega)]
              split
              · omega
              · split
                · omega
                · exact hlow x hx1 (by omega)
            have := ih (d + 1) s1 rest' hv (by omega) (by omega) (by omega) hlow1
            refine ⟨this.1, ?_⟩
            intro s' r' heq
            obtain ⟨a, b, c, e, f⟩ := this.2 s' r' heq
            refine ⟨by omega, by omega, c, ?_, ?_⟩
            · intro x hx1 hx2; exact e x hx1 (by omega)
            · intro j x hj hne hx1 hx2
              rw [f j x (by omega) hne hx1 (by omega), hop j x hj hx1 hx2]
              simp [hne]
    · rw [opLoop_skip hc hz]
      have hlow1 : ∀ x, 1 ≤ x → x < d + 1 → s.opU i x ≠ 0 := by
        intro x hx1 hx2
        by_cases c : x = d
        · rw [c]; exact hz
        · exact hlow x hx1 (by omega)
      exact ih (d + 1) s rest h hi (by omega) (by omega) hlow1

/-! ### the outer loop over indices -/

theorem opOuter_next {spec : DSymSpec} {n i : Nat} {s s1 : DSetData} {opI : List Nat}
    (h : spec.opSpec[i]? = some opI) (hl : opLoop i spec.size 1 s opI = .ok (s1, [])) :
    opOuter spec (n + 1) i s = opOuter spec n (i + 1) s1 := by
  simp [opOuter, h, hl]

theorem opOuter_unused {spec : DSymSpec} {n i : Nat} {s s1 : DSetData} {opI rest : List Nat}
    (h : spec.opSpec[i]? = some opI) (hl : opLoop i spec.size 1 s opI = .ok (s1, rest))
    (hr : rest ≠ []) : opOuter spec (n + 1) i s = .err := by
  simp [opOuter, h, hl, hr]

theorem opOuter_err {spec : DSymSpec} {n i : Nat} {s : DSetData} {opI : List Nat}
    (h : spec.opSpec[i]? = some opI) (hl : opLoop i spec.size 1 s opI = .err) :
    opOuter spec (n + 1) i s = .err := by
  simp [opOuter, h, hl]

theorem opOuter_spec (spec : DSymSpec) : ∀ (n i : Nat) (s : DSetData),
    ValidPartialSet s → s.size = spec.size → i + n = s.dim + 1 →
    (∀ j, j ≤ s.dim → (spec.opSpec[j]?).isSome) →
    (∀ j x, j < i → 1 ≤ x → x ≤ s.size → s.opU j x ≠ 0) →
    opOuter spec n i s ≠ .panic ∧
    ∀ s', opOuter spec n i s = .ok s' →
      s'.size = s.size ∧ s'.dim = s.dim ∧ ValidPartialSet s' ∧
      (∀ j x, j ≤ s.dim → 1 ≤ x → x ≤ s.size → s'.opU j x ≠ 0) := by
  intro n
  induction n with
  | zero =>
    intro i s h hsz hn hsome hlow
    refine ⟨by simp [opOuter], ?_⟩
    intro s' heq
    simp only [opOuter, Outcome.ok.injEq] at heq
    subst heq
    exact ⟨rfl, rfl, h, fun j x hj hx1 hx2 => hlow j x (by omega) hx1 hx2⟩
  | succ n ih =>
    intro i s h hsz hn hsome hlow
    have hi : i ≤ s.dim := by omega
    obtain ⟨opI, hopI⟩ := Option.isSome_iff_exists.mp (hsome i hi)
    have hl := opLoop_spec i spec.size 1 s opI h hi (by omega) (by omega) (by intro x h1 h2; omega)
    cases hres : opLoop i spec.size 1 s opI with
    | err => rw [opOuter_err hopI hres]; exact ⟨by simp, by simp⟩
    | panic => exact absurd hres hl.1
    | ok pr =>
      obtain ⟨s1, rest⟩ := pr
      obtain ⟨a, b, c, e, f⟩ := hl.2 s1 rest hres
      by_cases hrest : rest = []
      · subst hrest
        rw [opOuter_next hopI hres]
        have hlow1 : ∀ j x, j < i + 1 → 1 ≤ x → x ≤ s1.size → s1.opU j x ≠ 0 := by
          intro j x hj hx1 hx2
          by_cases c1 : j = i
          · rw [c1]; exact e x hx1 (by omega)
          · rw [f j x (by omega) c1 hx1 (by omega)]
            exact hlow j x (by omega) hx1 (by omega)
        have := ih (i + 1) s1 c (by omega) (by omega) (by intro j hj; exact hsome j (by omega)) hlow1
        refine ⟨this.1, ?_⟩
        intro s' heq
        obtain ⟨a', b', c', e'⟩ := this.2 s' heq
        exact ⟨by omega, by omega, c', fun j x hj hx1 hx2 => e' j x (by omega) hx1 (by omega)⟩
      · rw [opOuter_unused hopI hres hrest]; exact ⟨by simp, by simp⟩

/-- a partial D-set without undefined entries is a complete D-set -/
theorem validSet_of_complete {s : DSetData} (h : ValidPartialSet s)
    (hc : ∀ j x, j ≤ s.dim → 1 ≤ x → x ≤ s.size → s.opU j x ≠ 0) : ValidSet s :=
  ⟨h.size_eq,
   fun i d hi h1 h2 => ⟨by have := hc i d hi h1 h2; omega, h.range i d hi h1 h2⟩,
   fun i d hi h1 h2 => h.invol i d hi h1 h2 (hc i d hi h1 h2)⟩

theorem isCompletePartial_of_validSet {s : DSetData} (h : ValidSet s) : s.isCompletePartial = true := by
  unfold DSetData.isCompletePartial
  simp only [List.all_eq_true, List.mem_range, bne_iff_ne, ne_eq]
  intro i hi d hd
  have := (h.range i (d + 1) (by omega) (by omega) (by omega)).1
  omega

end DSymVerif.Text
