/-
`placement_barycentric`: the system assembled by `barycentric_placement` (model
`PG.assemble`) says, for every `X`, `(A·X − T)₀ = X₀` and, for `i ≥ 1`,
`(A·X − T)ᵢ = Σ_{ngb ∈ incidences(vᵢ)} (Xᵢ − X_{idx(ngb.tail)} − ngb.shift)`; with the exact
solution returned by the modular solver (`modSolve_exact`) the positions are barycentric.
-/
import DSymVerif.Model.PGraph
import DSymVerif.Proofs.Lifting

namespace DSymVerif.PG

open DSymVerif DSymVerif.LA Matrix

/-- residual of the system at `X` -/
def resid {n d : Nat} (a : Mat Int n n) (t : Mat Int n d) (X : Matrix (Fin n) (Fin d) ℚ) :
    Matrix (Fin n) (Fin d) ℚ :=
  toMatrix valI a * X - toMatrix valI t

theorem addAt_spec {nr nc : Nat} {m m' : Mat Int nr nc} {i j : Nat} {x : Int}
    (h : addAt m i j x = .ok m') :
    ∃ (hi : i < nr) (hj : j < nc), ∀ (i' j' : Nat) (hi' : i' < nr) (hj' : j' < nc),
      (m'[i'])[j'] = if i = i' ∧ j = j' then (m[i])[j] + x else (m[i'])[j'] := by
  unfold addAt Mat.get at h
  by_cases hi : i < nr
  · by_cases hj : j < nc
    · simp only [hi, hj, dite_true, LA.bind_ok] at h
      rw [Mat.set_ok m hi hj] at h
      have := Outcome.ok.inj h
      subst this
      exact ⟨hi, hj, fun i' j' hi' hj' => entry_set m hi hj _ hi' hj'⟩
    · simp [hi, hj] at h
  · simp [hi] at h

/-- adding `c` to the entry `(i, j)` of `A` adds `c · X j` to row `i` of `A·X` -/
theorem mul_entry_add {n d : Nat} (A A' : Matrix (Fin n) (Fin n) ℚ) (X : Matrix (Fin n) (Fin d) ℚ)
    (i j : Fin n) (c : ℚ)
    (h : ∀ r l, A' r l = if r = i ∧ l = j then A r l + c else A r l) (r : Fin n) (k : Fin d) :
    (A' * X) r k = (A * X) r k + if r = i then c * X j k else 0 := by
  have : (A' * X) r k - (A * X) r k = if r = i then c * X j k else 0 := by
    simp only [Matrix.mul_apply, ← Finset.sum_sub_distrib, ← sub_mul]
    by_cases hr : r = i
    · subst hr
      rw [if_pos rfl]
      rw [Finset.sum_eq_single j]
      · rw [h r j, if_pos ⟨rfl, rfl⟩]; ring
      · intro l _ hl
        rw [h r l, if_neg (fun e => hl e.2), sub_self, zero_mul]
      · simp
    · rw [if_neg hr]
      apply Finset.sum_eq_zero
      intro l _
      rw [h r l, if_neg (fun e => hr e.1), sub_self, zero_mul]
  linear_combination this

/-- total version of `vidcs[&v]` for statements (equal to it whenever that returns) -/
def idxD (verts : List Nat) (v : Nat) : Nat := (verts.idxOf? v).getD 0

theorem indexOf_ok {verts : List Nat} {v j : Nat} (h : indexOf verts v = .ok j) :
    idxD verts v = j := by
  unfold indexOf at h
  unfold idxD
  split at h
  · rename_i i hi
    rw [hi]; exact Outcome.ok.inj h
  · cases h

/-- the contribution of one incidence to the residual of row `i` -/
def term {n d : Nat} (verts : List Nat) (X : Matrix (Fin n) (Fin d) ℚ) (i : Fin n) (k : Fin d)
    (ngb : Edge) : ℚ :=
  X i k - (if h : idxD verts ngb.tail < n then X ⟨idxD verts ngb.tail, h⟩ k else 0) -
    ((ngb.shift.getD k.1 0 : Int) : ℚ)

theorem placeStep_spec {n d : Nat} (verts : List Nat) (i : Nat)
    (st st' : Mat Int n n × Mat Int n d) (ngb : Edge)
    (h : placeStep verts i st ngb = .ok st') (X : Matrix (Fin n) (Fin d) ℚ) :
    ∃ hi : i < n, ∀ (r : Fin n) (k : Fin d),
      resid st'.1 st'.2 X r k =
        resid st.1 st.2 X r k + if r = ⟨i, hi⟩ then term verts X ⟨i, hi⟩ k ngb else 0 := by
  unfold placeStep at h
  -- peel the binds
  cases hj : indexOf verts ngb.tail with
  | err => rw [hj] at h; cases h
  | panic => rw [hj] at h; cases h
  | ok j =>
    rw [hj] at h; simp only [LA.bind_ok] at h
    cases ha1 : addAt st.1 i j (-1) with
    | err => rw [ha1] at h; cases h
    | panic => rw [ha1] at h; cases h
    | ok a1 =>
      rw [ha1] at h; simp only [LA.bind_ok] at h
      cases ha2 : addAt a1 i i 1 with
      | err => rw [ha2] at h; cases h
      | panic => rw [ha2] at h; cases h
      | ok a2 =>
        rw [ha2] at h; simp only [LA.bind_ok] at h
        obtain ⟨hi, hjn, e1⟩ := addAt_spec ha1
        obtain ⟨_, _, e2⟩ := addAt_spec ha2
        -- the loop over the coordinates of the shift
        have hloop : ∀ (t' : Mat Int n d),
            forRange 0 d st.2 (shiftStep ngb i) = .ok t' →
            ∀ (i' k' : Nat) (hi' : i' < n) (hk' : k' < d),
              (t'[i'])[k'] = if i = i' then (st.2[i'])[k'] + ngb.shift.getD k' 0 else (st.2[i'])[k'] := by
          intro t' ht'
          -- replay the loop with an invariant
          obtain ⟨t'', ht'', hI⟩ := forRange_idx 0 d (Nat.zero_le _) st.2
            (shiftStep ngb i)
            (fun kk (tt : Mat Int n d) => ∀ (i' k' : Nat) (hi' : i' < n) (hk' : k' < d),
              (tt[i'])[k'] = if i = i' ∧ k' < kk then (st.2[i'])[k'] + ngb.shift.getD k' 0
                else (st.2[i'])[k'])
            (by intro i' k' _ _; simp)
            (by
              intro kk tt _ hkk hI
              -- this step must succeed because the whole loop did; derive it from `ht'`
              unfold shiftStep
              cases hs : ngb.shift[kk]? with
              | none =>
                exfalso
                -- the loop reaches index kk with some state and panics there
                -- direct argument: length of shift ≤ kk < d contradicts success of the loop
                have hlen : ngb.shift.length ≤ kk := by
                  rw [List.getElem?_eq_none_iff] at hs; exact hs
                -- run the loop up to kk: it cannot return ok
                have key : ∀ (m lo : Nat) (s0 : Mat Int n d), lo ≤ kk → kk < lo + m →
                    ∀ r, forLoop (shiftStep ngb i) m lo s0 ≠ .ok r := by
                  intro m
                  induction m with
                  | zero => intro lo s0 h1 h2; omega
                  | succ m ih =>
                    intro lo s0 h1 h2 r
                    unfold forLoop
                    by_cases hlo : lo = kk
                    · subst hlo
                      have : shiftStep ngb i lo s0 = Outcome.panic := by
                        unfold shiftStep; rw [hs]
                      rw [this]
                      intro hc; cases hc
                    · cases hf : shiftStep ngb i lo s0 with
                      | ok s1 =>
                        exact ih (lo + 1) s1 (by omega) (by omega) r
                      | err => intro hc; cases hc
                      | panic => intro hc; cases hc
                exact key (d - 0) 0 st.2 (Nat.zero_le _) (by omega) t' ht'
              | some s =>
                simp only
                cases hadd : addAt tt i kk s with
                | err =>
                  exfalso
                  -- cannot happen: addAt only returns ok or panic
                  unfold addAt Mat.get at hadd
                  by_cases c1 : i < n
                  · simp only [c1, hkk, dite_true, LA.bind_ok] at hadd
                    rw [Mat.set_ok tt c1 hkk] at hadd; cases hadd
                  · simp [c1] at hadd
                | panic =>
                  exfalso
                  unfold addAt Mat.get at hadd
                  simp only [hi, hkk, dite_true, LA.bind_ok] at hadd
                  rw [Mat.set_ok tt hi hkk] at hadd; cases hadd
                | ok tt' =>
                  refine ⟨tt', rfl, ?_⟩
                  obtain ⟨_, _, e3⟩ := addAt_spec hadd
                  intro i' k' hi' hk'
                  rw [e3 i' k' hi' hk']
                  by_cases c : i = i' ∧ kk = k'
                  · obtain ⟨rfl, rfl⟩ := c
                    rw [if_pos ⟨rfl, rfl⟩, if_pos ⟨rfl, by omega⟩, hI i kk hi' hk',
                      if_neg (by omega)]
                    have : ngb.shift.getD kk 0 = s := by
                      rw [List.getD_eq_getElem?_getD, hs]; rfl
                    rw [this]
                  · rw [if_neg c, hI i' k' hi' hk']
                    by_cases c2 : i = i' ∧ k' < kk
                    · rw [if_pos c2, if_pos ⟨c2.1, by omega⟩]
                    · rw [if_neg c2, if_neg]
                      intro hc
                      rcases Nat.lt_succ_iff_lt_or_eq.1 hc.2 with h3 | h3
                      · exact c2 ⟨hc.1, h3⟩
                      · exact c ⟨hc.1, h3.symm⟩)
          rw [ht''] at ht'
          have := Outcome.ok.inj ht'
          subst this
          intro i' k' hi' hk'
          rw [hI i' k' hi' hk']
          by_cases c : i = i'
          · rw [if_pos ⟨c, hk'⟩, if_pos c]
          · rw [if_neg (fun hc => c hc.1), if_neg c]
        cases hl : forRange 0 d st.2 (shiftStep ngb i) with
        | err => rw [hl] at h; cases h
        | panic => rw [hl] at h; cases h
        | ok t' =>
          rw [hl] at h; simp only [LA.bind_ok] at h
          have := Outcome.ok.inj h
          subst this
          have ht := hloop t' hl
          refine ⟨hi, ?_⟩
          intro r k
          have hjd := indexOf_ok hj
          -- A part: two entry updates
          have hA1 := mul_entry_add (toMatrix valI st.1) (toMatrix valI a1) X ⟨i, hi⟩ ⟨j, hjn⟩ (-1)
            (by
              intro r l
              simp only [toMatrix_apply, valI, Fin.ext_iff]
              rw [e1 r.1 l.1 r.2 l.2]
              by_cases c : i = r.1 ∧ j = l.1
              · obtain ⟨c1, c2⟩ := c
                rw [if_pos ⟨c1, c2⟩, if_pos ⟨c1.symm, c2.symm⟩]
                have : (st.1[r.1])[l.1] = (st.1[i])[j] := by simp only [← c1, ← c2]
                rw [this]
                push_cast; ring
              · rw [if_neg c, if_neg (fun hc => c ⟨hc.1.symm, hc.2.symm⟩)]) r k
          have hA2 := mul_entry_add (toMatrix valI a1) (toMatrix valI a2) X ⟨i, hi⟩ ⟨i, hi⟩ 1
            (by
              intro r l
              simp only [toMatrix_apply, valI, Fin.ext_iff]
              rw [e2 r.1 l.1 r.2 l.2]
              by_cases c : i = r.1 ∧ i = l.1
              · obtain ⟨c1, c2⟩ := c
                rw [if_pos ⟨c1, c2⟩, if_pos ⟨c1.symm, c2.symm⟩]
                have : (a1[r.1])[l.1] = (a1[i])[i] := by simp only [← c1, ← c2]
                rw [this]
                push_cast; ring
              · rw [if_neg c, if_neg (fun hc => c ⟨hc.1.symm, hc.2.symm⟩)]) r k
          show (toMatrix valI a2 * X - toMatrix valI t') r k =
            (toMatrix valI st.1 * X - toMatrix valI st.2) r k + _
          rw [Matrix.sub_apply, Matrix.sub_apply, hA2, hA1]
          simp only [toMatrix_apply, valI]
          rw [ht r.1 k.1 r.2 k.2]
          by_cases hr : r = ⟨i, hi⟩
          · have hr' : i = r.1 := by rw [hr]
            rw [if_pos hr, if_pos hr, if_pos hr', if_pos hr]
            unfold term
            rw [hjd, dif_pos hjn]
            push_cast
            ring
          · have hr' : ¬ i = r.1 := fun e => hr (Fin.ext e.symm)
            rw [if_neg hr, if_neg hr, if_neg hr', if_neg hr]
            ring

/-- all incidences of one vertex: the residual of row `i` grows by the sum of the terms -/
theorem foldO_resid {n d : Nat} (verts : List Nat) (i : Nat) (hi : i < n)
    (X : Matrix (Fin n) (Fin d) ℚ) :
    ∀ (ngbs : List Edge) (st st' : Mat Int n n × Mat Int n d),
      foldO (placeStep verts i) st ngbs = .ok st' →
      ∀ (r : Fin n) (k : Fin d), resid st'.1 st'.2 X r k =
        resid st.1 st.2 X r k +
          if r = ⟨i, hi⟩ then (ngbs.map (term verts X ⟨i, hi⟩ k)).sum else 0 := by
  intro ngbs
  induction ngbs with
  | nil =>
    intro st st' h r k
    have : st = st' := Outcome.ok.inj h
    subst this
    simp
  | cons x xs ih =>
    intro st st' h r k
    unfold foldO at h
    cases hx : placeStep verts i st x with
    | ok s1 =>
      rw [hx] at h
      obtain ⟨_, hs⟩ := placeStep_spec verts i st s1 x hx X
      rw [ih s1 st' h r k, hs r k]
      by_cases hr : r = ⟨i, hi⟩
      · simp only [hr, if_true, List.map_cons, List.sum_cons]; ring
      · simp only [hr, if_false]; ring
    | err => rw [hx] at h; cases h
    | panic => rw [hx] at h; cases h

/-- the assembled system: row 0 pins the first vertex, row `i ≥ 1` is the (negated)
    barycentric equation of vertex `verts[i]` -/
theorem assemble_spec (g : Graph) {n d : Nat} (a : Mat Int n n) (t : Mat Int n d)
    (h : assemble g n d = .ok (a, t)) (X : Matrix (Fin n) (Fin d) ℚ) :
    ∃ hn : 0 < n, (∀ k : Fin d, resid a t X ⟨0, hn⟩ k = X ⟨0, hn⟩ k) ∧
      ∀ (i : Nat) (hi : i < n), 1 ≤ i → ∃ v, g.vertices[i]? = some v ∧
        ∀ k : Fin d, resid a t X ⟨i, hi⟩ k =
          ((g.incidences v).map (term g.vertices X ⟨i, hi⟩ k)).sum := by
  unfold assemble at h
  by_cases hn : 0 < n
  · rw [Mat.set_ok _ hn hn] at h
    simp only [LA.bind_ok] at h
    refine ⟨hn, ?_⟩
    -- residual of the initial system
    have hinit : ∀ (r : Fin n) (k : Fin d),
        resid (Vector.set (Mat.fill 0 : Mat Int n n) 0
          (Vector.set ((Mat.fill 0 : Mat Int n n)[0]) 0 1 hn) hn) (Mat.fill 0 : Mat Int n d) X r k =
          if r = ⟨0, hn⟩ then X ⟨0, hn⟩ k else 0 := by
      intro r k
      unfold resid
      rw [Matrix.sub_apply, Matrix.mul_apply]
      have hz : toMatrix valI (Mat.fill 0 : Mat Int n d) r k = 0 := by
        rw [toMatrix_apply, fill_entry]; simp [valI]
      rw [hz, sub_zero]
      by_cases hr : r = ⟨0, hn⟩
      · rw [if_pos hr, Finset.sum_eq_single ⟨0, hn⟩]
        · rw [toMatrix_apply, entry_set _ hn hn _ r.2 hn]
          have : (0 : Nat) = r.1 := by rw [hr]
          simp [this, valI]
        · intro l _ hl
          rw [toMatrix_apply, entry_set _ hn hn _ r.2 l.2]
          have : ¬ ((0 : Nat) = r.1 ∧ (0 : Nat) = l.1) := fun e => hl (Fin.ext e.2.symm)
          rw [if_neg this, fill_entry]; simp [valI]
        · simp
      · rw [if_neg hr]
        apply Finset.sum_eq_zero
        intro l _
        rw [toMatrix_apply, entry_set _ hn hn _ r.2 l.2]
        have : ¬ ((0 : Nat) = r.1 ∧ (0 : Nat) = l.1) := fun e => hr (Fin.ext e.1.symm)
        rw [if_neg this, fill_entry]; simp [valI]
    -- replay the outer loop with an invariant (partial correctness: each step returned)
    have key : ∀ (m lo : Nat) (st st' : Mat Int n n × Mat Int n d), lo + m = n → 1 ≤ lo →
        forLoop (rowStep g) m lo st = .ok st' →
        (∀ (r : Fin n) (k : Fin d), r.1 < lo → resid st'.1 st'.2 X r k = resid st.1 st.2 X r k) ∧
        ∀ (i : Nat) (hi : i < n), lo ≤ i → ∃ v, g.vertices[i]? = some v ∧
          ∀ k : Fin d, resid st'.1 st'.2 X ⟨i, hi⟩ k = resid st.1 st.2 X ⟨i, hi⟩ k +
            ((g.incidences v).map (term g.vertices X ⟨i, hi⟩ k)).sum := by
      intro m
      induction m with
      | zero =>
        intro lo st st' h1 _ h2
        have : st = st' := Outcome.ok.inj h2
        subst this
        exact ⟨fun _ _ _ => rfl, fun i hi hlo => by omega⟩
      | succ m ih =>
        intro lo st st' h1 hlo1 h2
        unfold forLoop at h2
        have hlo : lo < n := by omega
        unfold rowStep at h2
        cases hv : g.vertices[lo]? with
        | none => simp only [hv] at h2; cases h2
        | some v =>
          simp only [hv] at h2
          cases hf : foldO (placeStep g.vertices lo) st (g.incidences v) with
          | err => rw [hf] at h2; cases h2
          | panic => rw [hf] at h2; cases h2
          | ok s1 =>
            rw [hf] at h2
            have hstep := foldO_resid g.vertices lo hlo X (g.incidences v) st s1 hf
            obtain ⟨ih1, ih2⟩ := ih (lo + 1) s1 st' (by omega) (by omega) h2
            constructor
            · intro r k hr
              rw [ih1 r k (by omega), hstep r k, if_neg (fun e => by rw [e] at hr; simp at hr),
                add_zero]
            · intro i hi hloi
              by_cases e : i = lo
              · subst e
                refine ⟨v, hv, fun k => ?_⟩
                rw [ih1 ⟨i, hi⟩ k (by simp), hstep ⟨i, hi⟩ k, if_pos rfl]
              · obtain ⟨v', hv', h3⟩ := ih2 i hi (by omega)
                refine ⟨v', hv', fun k => ?_⟩
                rw [h3 k, hstep ⟨i, hi⟩ k, if_neg (fun e' => e (by simpa using congrArg Fin.val e')),
                  add_zero]
    unfold forRange at h
    obtain ⟨k1, k2⟩ := key (n - 1) 1 _ (a, t) (by omega) (Nat.le_refl _) h
    constructor
    · intro k
      rw [k1 ⟨0, hn⟩ k (by simp), hinit, if_pos rfl]
    · intro i hi hi1
      obtain ⟨v, hv, h3⟩ := k2 i hi hi1
      refine ⟨v, hv, fun k => ?_⟩
      rw [h3 k, hinit, if_neg (fun e => by have := congrArg Fin.val e; simp at this; omega), zero_add]
  · exfalso
    have : n = 0 := by omega
    subst this
    simp [Mat.set] at h

theorem sum_map_neg {α : Type} (l : List α) (f : α → ℚ) :
    (l.map fun x => -f x).sum = -(l.map f).sum := by
  induction l with
  | nil => simp
  | cons x xs ih => simp only [List.map_cons, List.sum_cons, ih]; ring

/-- the rational solution of the assembled system -/
noncomputable def exactSolution {n d : Nat} (a : Mat Int n n) (t : Mat Int n d) :
    Matrix (Fin n) (Fin d) ℚ :=
  ((toMatrixZ a).map (Int.castRingHom ℚ))⁻¹ * (toMatrixZ t).map (Int.castRingHom ℚ)

/-- `placement_barycentric` -/
theorem placement_barycentric_core {p : ℕ} [hpf : Fact p.Prime] (hpm : (p : ℤ) ≤ PRC.maxP)
    (steps : Nat) (g : Graph) (a : Mat Int g.vertices.length g.vertices.length)
    (t : Mat Int g.vertices.length g.dim)
    (hasm : assemble g g.vertices.length g.dim = .ok (a, t))
    (hns : ¬ (p : ℤ) ∣ (toMatrixZ a).det)
    (hbound : ∀ i j, (|(exactSolution a t i j).num| + ((exactSolution a t i j).den : ℤ)) *
      (|(exactSolution a t i j).num| + ((exactSolution a t i j).den : ℤ)) < (p : ℤ) ^ steps) :
    ∃ P : Mat Q g.vertices.length g.dim,
      placement p steps g = .ok (g.vertices.zip P.toLists) ∧
      (∀ (i k : Nat) (hi : i < g.vertices.length) (hk : k < g.dim), QWF ((P[i])[k])) ∧
      ∃ hn : 0 < g.vertices.length,
        (∀ (k : Nat) (hk : k < g.dim), valQ ((P[0])[k]) = 0) ∧
        ∀ (i : Nat) (hi : i < g.vertices.length), 1 ≤ i → ∃ v, g.vertices[i]? = some v ∧
          ∀ (k : Nat) (hk : k < g.dim),
            ((g.incidences v).map fun ngb =>
              (if h : idxD g.vertices ngb.tail < g.vertices.length then
                valQ ((P[idxD g.vertices ngb.tail])[k]) else 0) +
              ((ngb.shift.getD k 0 : Int) : ℚ) - valQ ((P[i])[k])).sum = 0 := by
  have hdet : ((toMatrixZ a).map (Int.castRingHom ℚ)).det ≠ 0 := by
    rw [← RingHom.mapMatrix_apply, ← RingHom.map_det]
    simp only [Int.coe_castRingHom, ne_eq, Int.cast_eq_zero]
    intro h0
    apply hns
    rw [h0]; exact dvd_zero _
  have hX : (toMatrixZ a).map (Int.castRingHom ℚ) * exactSolution a t =
      (toMatrixZ t).map (Int.castRingHom ℚ) := by
    unfold exactSolution
    rw [← Matrix.mul_assoc, Matrix.mul_nonsing_inv _ (isUnit_iff_ne_zero.2 hdet), Matrix.one_mul]
  obtain ⟨P, hP, hPv⟩ := modSolve_exact hpm steps a t hns (exactSolution a t) hX
    (fun i j => (exactSolution a t i j).num) (fun i j => ((exactSolution a t i j).den : ℤ))
    (fun i j => by exact_mod_cast (exactSolution a t i j).pos)
    (fun i j => by
      have := Rat.mul_den_eq_num (exactSolution a t i j)
      exact_mod_cast this)
    hbound
  refine ⟨P, ?_, fun i k hi hk => (hPv i k hi hk).1, ?_⟩
  · unfold placement
    rw [hasm]
    simp only [LA.bind_ok]
    rw [hP]
  · -- the residual of the exact solution vanishes
    have hres : resid a t (exactSolution a t) = 0 := by
      unfold resid
      rw [toMatrix_valI, toMatrix_valI, hX, sub_self]
    obtain ⟨hn, h0, hrows⟩ := assemble_spec g a t hasm (exactSolution a t)
    refine ⟨hn, ?_, ?_⟩
    · intro k hk
      rw [(hPv 0 k hn hk).2, ← h0 ⟨k, hk⟩, hres]; rfl
    · intro i hi hi1
      obtain ⟨v, hv, hsum⟩ := hrows i hi hi1
      refine ⟨v, hv, fun k hk => ?_⟩
      have h1 := hsum ⟨k, hk⟩
      rw [hres] at h1
      have h2 : ((g.incidences v).map (term g.vertices (exactSolution a t) ⟨i, hi⟩ ⟨k, hk⟩)).sum = 0 :=
        h1.symm
      have h3 : (g.incidences v).map (fun ngb =>
          (if h : idxD g.vertices ngb.tail < g.vertices.length then
            valQ ((P[idxD g.vertices ngb.tail])[k]) else 0) +
          ((ngb.shift.getD k 0 : Int) : ℚ) - valQ ((P[i])[k])) =
          (g.incidences v).map (fun ngb => -term g.vertices (exactSolution a t) ⟨i, hi⟩ ⟨k, hk⟩ ngb) := by
        apply List.map_congr_left
        intro ngb _
        unfold term
        rw [(hPv i k hi hk).2]
        by_cases hj : idxD g.vertices ngb.tail < g.vertices.length
        · rw [dif_pos hj, dif_pos hj, (hPv _ k hj hk).2]; ring
        · rw [dif_neg hj, dif_neg hj]; ring
      rw [h3, sum_map_neg, h2, neg_zero]

end DSymVerif.PG
