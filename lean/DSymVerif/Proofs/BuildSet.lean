/-
Shared lemmas about `build_set` (derived.rs) = `DS.buildSet`: the double `for` loop over
`PartialDSet::set` with its five assertions.

* `buildSet_of_involution` — if the operation closure is a partial involution with images
  in range, no assertion fires and the stored table is exactly the closure.
* `buildSet_ok_inv` — conversely, whenever `buildSet` returns, every defined value of the
  closure is in range, is stored, and is stored back at its image (so a closure that is not
  involutive can never be accepted silently: see `buildSet_ok_involutive`).

Used by C05 (`cover`), C03, C04 (`canonical`, `as_partial_dsym`, …).
-/
import DSymVerif.Proofs.DSetBasic

namespace DSymVerif.DS
namespace BS

/-! ### array reading -/

theorem getD_setIfInBounds {α} (a : Array α) (p x : Nat) (v dflt : α) :
    (a.setIfInBounds p v).getD x dflt = if p = x ∧ p < a.size then v else a.getD x dflt := by
  simp only [Array.getD_eq_getD_getElem?, Array.getElem?_setIfInBounds]
  by_cases h1 : p = x
  · subst h1
    by_cases h2 : p < a.size
    · simp [h2]
    · simp [h2]
  · simp [h1]

theorem getD_replicate {α} (n x : Nat) (v : α) : (Array.replicate n v).getD x v = v := by
  simp only [Array.getD_eq_getD_getElem?, Array.getElem?_replicate]
  split <;> rfl

/-! ### the index function `(d-1)*(dim+1)+i` -/

theorem idx_lt {size dim i d : Nat} (hi : i ≤ dim) (h1 : 1 ≤ d) (h2 : d ≤ size) :
    (d - 1) * (dim + 1) + i < size * (dim + 1) := by
  have h : (d - 1 + 1) * (dim + 1) ≤ size * (dim + 1) := Nat.mul_le_mul_right _ (by omega)
  rw [Nat.add_mul, Nat.one_mul] at h
  omega

theorem idx_inj {dim i i' d d' : Nat} (hi : i ≤ dim) (hi' : i' ≤ dim) (hd : 1 ≤ d) (hd' : 1 ≤ d')
    (h : (d - 1) * (dim + 1) + i = (d' - 1) * (dim + 1) + i') : i = i' ∧ d = d' := by
  have h1 : ((d - 1) * (dim + 1) + i) % (dim + 1) = ((d' - 1) * (dim + 1) + i') % (dim + 1) := by rw [h]
  have h2 : ((d - 1) * (dim + 1) + i) / (dim + 1) = ((d' - 1) * (dim + 1) + i') / (dim + 1) := by rw [h]
  rw [Nat.add_comm, Nat.add_mul_mod_self_right, Nat.add_comm ((d' - 1) * (dim + 1)),
    Nat.add_mul_mod_self_right, Nat.mod_eq_of_lt (by omega), Nat.mod_eq_of_lt (by omega)] at h1
  rw [Nat.add_comm, Nat.add_mul_div_right _ _ (by omega), Nat.add_comm ((d' - 1) * (dim + 1)),
    Nat.add_mul_div_right _ _ (by omega), Nat.div_eq_of_lt (by omega), Nat.div_eq_of_lt (by omega)] at h2
  exact ⟨h1, by omega⟩

/-! ### `PartialDSet::set` -/

/-- the table after a successful `set(i, d, e)` -/
def setRaw (s : DSetData) (i d e : Nat) : DSetData :=
  { s with op := (s.op.setIfInBounds (s.idx i d) e).setIfInBounds (s.idx i e) d }

/-- `set` returns when none of its five assertions fires -/
theorem set_ok {s : DSetData} {i d e : Nat} (h1 : i ≤ s.dim) (h2 : 1 ≤ d ∧ d ≤ s.size) (h3 : 1 ≤ e ∧ e ≤ s.size)
    (h4 : s.opU i d = 0 ∨ s.opU i d = e) (h5 : s.opU i e = 0 ∨ s.opU i e = d) :
    s.set i d e = .ok (setRaw s i d e) := by
  unfold DSetData.set
  rw [if_neg (by simp [h1]), if_neg (by simp [h2]), if_neg (by simp [h3])]
  simp only
  rw [if_neg (by simp only [ne_eq, Bool.and_eq_true, decide_eq_true_eq]; omega),
      if_neg (by simp only [ne_eq, Bool.and_eq_true, decide_eq_true_eq]; omega)]
  rfl

/-- … and only then -/
theorem set_ok_inv {s s' : DSetData} {i d e : Nat} (h : s.set i d e = .ok s') :
    (i ≤ s.dim ∧ (1 ≤ d ∧ d ≤ s.size) ∧ (1 ≤ e ∧ e ≤ s.size) ∧
        (s.opU i d = 0 ∨ s.opU i d = e) ∧ (s.opU i e = 0 ∨ s.opU i e = d)) ∧ s' = setRaw s i d e := by
  unfold DSetData.set at h
  split at h
  · cases h
  · split at h
    · cases h
    · split at h
      · cases h
      · simp only at h
        split at h
        · cases h
        · split at h
          · cases h
          · rename_i a b c d' e'
            cases h
            simp only [Bool.not_eq_eq_eq_not, Bool.not_true, decide_eq_false_iff_not, Decidable.not_not,
              Bool.and_eq_false_imp, decide_eq_true_eq, ne_eq, Bool.and_eq_true, not_and] at a b c d' e'
            refine ⟨⟨a, ?_, ?_, ?_, ?_⟩, rfl⟩ <;> omega

/-- `set` never returns an error value: it returns or panics -/
theorem set_ne_err (s : DSetData) (i d e : Nat) : s.set i d e ≠ .err := by
  intro h
  unfold DSetData.set at h
  split at h
  · cases h
  split at h
  · cases h
  split at h
  · cases h
  simp only at h
  split at h
  · cases h
  split at h
  · cases h
  cases h

theorem setRaw_size (s : DSetData) (i d e : Nat) : (setRaw s i d e).size = s.size := rfl
theorem setRaw_dim (s : DSetData) (i d e : Nat) : (setRaw s i d e).dim = s.dim := rfl
theorem setRaw_op_size (s : DSetData) (i d e : Nat) : (setRaw s i d e).op.size = s.op.size := by
  simp [setRaw]

/-- reading the table after `set(i, d, e)` -/
theorem setRaw_opU {s : DSetData} (hs : s.op.size = s.size * (s.dim + 1)) {i d e : Nat}
    (hi : i ≤ s.dim) (hd : 1 ≤ d ∧ d ≤ s.size) (he : 1 ≤ e ∧ e ≤ s.size)
    {i' d' : Nat} (hi' : i' ≤ s.dim) (hd' : 1 ≤ d') :
    (setRaw s i d e).opU i' d' =
      if i' = i ∧ d' = e then d else if i' = i ∧ d' = d then e else s.opU i' d' := by
  have hdl : s.idx i d < s.op.size := by rw [hs]; exact idx_lt hi hd.1 hd.2
  have hel : s.idx i e < s.op.size := by rw [hs]; exact idx_lt hi he.1 he.2
  show ((s.op.setIfInBounds (s.idx i d) e).setIfInBounds (s.idx i e) d).getD
      ((d' - 1) * (s.dim + 1) + i') 0 = _
  rw [getD_setIfInBounds, getD_setIfInBounds, Array.size_setIfInBounds]
  by_cases h1 : i' = i ∧ d' = e
  · obtain ⟨rfl, rfl⟩ := h1
    rw [if_pos ⟨rfl, hel⟩, if_pos ⟨rfl, rfl⟩]
  · have n1 : ¬ (s.idx i e = (d' - 1) * (s.dim + 1) + i' ∧ s.idx i e < s.op.size) := by
      rintro ⟨h, _⟩
      have := idx_inj hi hi' he.1 hd' h
      exact h1 ⟨this.1.symm, this.2.symm⟩
    rw [if_neg n1, if_neg h1]
    by_cases h2 : i' = i ∧ d' = d
    · obtain ⟨rfl, rfl⟩ := h2
      rw [if_pos ⟨rfl, hdl⟩, if_pos ⟨rfl, rfl⟩]
    · have n2 : ¬ (s.idx i d = (d' - 1) * (s.dim + 1) + i' ∧ s.idx i d < s.op.size) := by
        rintro ⟨h, _⟩
        have := idx_inj hi hi' hd.1 hd' h
        exact h2 ⟨this.1.symm, this.2.symm⟩
      rw [if_neg n2, if_neg h2]
      rfl

/-! ### the loop as one fold over the list of (index, chamber) pairs -/

/-- one iteration of the inner loop body, with the implicit propagation of a panic -/
def step (op : Nat → Nat → Option Nat) (acc : Outcome DSetData) (p : Nat × Nat) : Outcome DSetData :=
  match acc with
  | .ok ds =>
    (match op p.1 p.2 with
     | some di => ds.set p.1 p.2 di
     | none => .ok ds)
  | o => o

/-- `for i in 0..=dim { for d in 1..=size { … } }` -/
def pairs (size dim : Nat) : List (Nat × Nat) :=
  (List.range (dim + 1)).flatMap (fun i => (List.range size).map (fun d0 => (i, d0 + 1)))

theorem mem_pairs {size dim i d : Nat} : (i, d) ∈ pairs size dim ↔ i ≤ dim ∧ 1 ≤ d ∧ d ≤ size := by
  unfold pairs
  simp only [List.mem_flatMap, List.mem_range, List.mem_map, Prod.mk.injEq]
  constructor
  · rintro ⟨a, ha, b, hb, rfl, rfl⟩; omega
  · rintro ⟨h1, h2, h3⟩; exact ⟨i, by omega, d - 1, by omega, rfl, by omega⟩

theorem buildSet_eq_fold (size dim : Nat) (op : Nat → Nat → Option Nat) :
    buildSet size dim op =
      match DSetData.new size dim with
      | .ok ds0 => (pairs size dim).foldl (step op) (.ok ds0)
      | .err => .err
      | .panic => .panic := by
  unfold buildSet pairs
  cases DSetData.new size dim with
  | ok ds0 =>
    simp only
    rw [List.foldl_flatMap]
    congr 1
    funext acc i
    rw [List.foldl_map]
    rfl
  | err => rfl
  | panic => rfl

theorem fold_not_ok (op : Nat → Nat → Option Nat) (ps : List (Nat × Nat)) (o : Outcome DSetData)
    (h : ∀ s, o ≠ .ok s) : ps.foldl (step op) o = o := by
  induction ps with
  | nil => rfl
  | cons p ps ih =>
    rw [List.foldl_cons]
    have : step op o p = o := by
      cases o with
      | ok s => exact absurd rfl (h s)
      | err => rfl
      | panic => rfl
    rw [this]; exact ih

theorem step_ne_err (op : Nat → Nat → Option Nat) (s : DSetData) (p : Nat × Nat) :
    step op (.ok s) p ≠ .err := by
  unfold step
  simp only
  cases op p.1 p.2 with
  | none => simp
  | some e => exact set_ne_err s _ _ _

theorem fold_ne_err (op : Nat → Nat → Option Nat) : ∀ (ps : List (Nat × Nat)) (s : DSetData),
    ps.foldl (step op) (.ok s) ≠ .err
  | [], s => by simp
  | p :: ps, s => by
    rw [List.foldl_cons]
    cases h : step op (.ok s) p with
    | ok s1 => exact fold_ne_err op ps s1
    | err => exact absurd h (step_ne_err op s p)
    | panic => rw [fold_not_ok op ps .panic (by intro s; simp)]; simp

/-! ### forward direction: involutions are accepted -/

/-- the closure restricted to `i ≤ dim`, `1 ≤ d ≤ size` is a partial involution with images in range -/
structure PInvOp (size dim : Nat) (op : Nat → Nat → Option Nat) : Prop where
  range : ∀ i d e, i ≤ dim → 1 ≤ d → d ≤ size → op i d = some e → 1 ≤ e ∧ e ≤ size
  invol : ∀ i d e, i ≤ dim → 1 ≤ d → d ≤ size → op i d = some e → op i e = some d

/-- loop invariant: every stored entry agrees with the closure, and the entries of the pairs
    processed so far (`done`) are stored -/
structure FInv (size dim : Nat) (op : Nat → Nat → Option Nat) (s : DSetData) (done : Nat → Nat → Prop) : Prop where
  size_eq : s.size = size
  dim_eq : s.dim = dim
  arr : s.op.size = size * (dim + 1)
  cons : ∀ i d, i ≤ dim → 1 ≤ d → d ≤ size → s.opU i d ≠ 0 → op i d = some (s.opU i d)
  stored : ∀ i d, i ≤ dim → 1 ≤ d → d ≤ size → done i d → s.opU i d = (op i d).getD 0

theorem FInv.step {size dim : Nat} {op : Nat → Nat → Option Nat} (hop : PInvOp size dim op)
    {s : DSetData} {done : Nat → Nat → Prop} (inv : FInv size dim op s done)
    {i d : Nat} (hi : i ≤ dim) (h1 : 1 ≤ d) (h2 : d ≤ size) :
    ∃ s', BS.step op (.ok s) (i, d) = .ok s' ∧
      FInv size dim op s' (fun i' d' => done i' d' ∨ (i' = i ∧ d' = d)) := by
  unfold BS.step
  simp only
  cases hod : op i d with
  | none =>
    refine ⟨s, rfl, inv.size_eq, inv.dim_eq, inv.arr, inv.cons, ?_⟩
    intro i' d' hi' h1' h2' hdone
    rcases hdone with hdone | ⟨rfl, rfl⟩
    · exact inv.stored i' d' hi' h1' h2' hdone
    · rw [hod]
      by_cases h0 : s.opU i' d' = 0
      · exact h0
      · have := inv.cons i' d' hi' h1' h2' h0
        rw [hod] at this; cases this
  | some e =>
    have he := hop.range i d e hi h1 h2 hod
    have hoe := hop.invol i d e hi h1 h2 hod
    have hsd : s.opU i d = 0 ∨ s.opU i d = e := by
      by_cases h0 : s.opU i d = 0
      · exact Or.inl h0
      · have := inv.cons i d hi h1 h2 h0
        rw [hod] at this; exact Or.inr (Option.some.inj this).symm
    have hse : s.opU i e = 0 ∨ s.opU i e = d := by
      by_cases h0 : s.opU i e = 0
      · exact Or.inl h0
      · have := inv.cons i e hi he.1 he.2 h0
        rw [hoe] at this; exact Or.inr (Option.some.inj this).symm
    have his : i ≤ s.dim := by rw [inv.dim_eq]; exact hi
    have hds : 1 ≤ d ∧ d ≤ s.size := by rw [inv.size_eq]; exact ⟨h1, h2⟩
    have hes : 1 ≤ e ∧ e ≤ s.size := by rw [inv.size_eq]; exact he
    have hss : s.op.size = s.size * (s.dim + 1) := by rw [inv.size_eq, inv.dim_eq]; exact inv.arr
    refine ⟨setRaw s i d e, set_ok his hds hes hsd hse, ?_⟩
    have hread : ∀ i' d', i' ≤ dim → 1 ≤ d' →
        (setRaw s i d e).opU i' d' =
          if i' = i ∧ d' = e then d else if i' = i ∧ d' = d then e else s.opU i' d' := by
      intro i' d' hi' h1'
      exact setRaw_opU hss his hds hes (by rw [inv.dim_eq]; exact hi') h1'
    refine ⟨inv.size_eq, inv.dim_eq, by rw [setRaw_op_size]; exact inv.arr, ?_, ?_⟩
    · intro i' d' hi' h1' h2'
      rw [hread i' d' hi' h1']
      by_cases c1 : i' = i ∧ d' = e
      · obtain ⟨rfl, rfl⟩ := c1
        rw [if_pos ⟨rfl, rfl⟩]; intro _; exact hoe
      · rw [if_neg c1]
        by_cases c2 : i' = i ∧ d' = d
        · obtain ⟨rfl, rfl⟩ := c2
          rw [if_pos ⟨rfl, rfl⟩]; intro _; exact hod
        · rw [if_neg c2]; exact inv.cons i' d' hi' h1' h2'
    · intro i' d' hi' h1' h2' hdone
      rw [hread i' d' hi' h1']
      by_cases c1 : i' = i ∧ d' = e
      · obtain ⟨rfl, rfl⟩ := c1
        rw [if_pos ⟨rfl, rfl⟩, hoe]; rfl
      · rw [if_neg c1]
        by_cases c2 : i' = i ∧ d' = d
        · obtain ⟨rfl, rfl⟩ := c2
          rw [if_pos ⟨rfl, rfl⟩, hod]; rfl
        · rw [if_neg c2]
          rcases hdone with hdone | hdone
          · exact inv.stored i' d' hi' h1' h2' hdone
          · exact absurd hdone c2

theorem FInv.fold {size dim : Nat} {op : Nat → Nat → Option Nat} (hop : PInvOp size dim op) :
    ∀ (ps : List (Nat × Nat)) (s : DSetData) (done : Nat → Nat → Prop),
      (∀ p ∈ ps, p.1 ≤ dim ∧ 1 ≤ p.2 ∧ p.2 ≤ size) → FInv size dim op s done →
      ∃ s', ps.foldl (BS.step op) (.ok s) = .ok s' ∧
        FInv size dim op s' (fun i d => done i d ∨ (i, d) ∈ ps)
  | [], s, done, _, inv => by
    refine ⟨s, rfl, inv.size_eq, inv.dim_eq, inv.arr, inv.cons, ?_⟩
    intro i d hi h1 h2 hd
    rcases hd with hd | hd
    · exact inv.stored i d hi h1 h2 hd
    · cases hd
  | (i, d) :: ps, s, done, hps, inv => by
    have hp := hps (i, d) (List.mem_cons_self ..)
    obtain ⟨s1, hs1, inv1⟩ := inv.step hop hp.1 hp.2.1 hp.2.2
    obtain ⟨s', hs', inv'⟩ := FInv.fold hop ps s1 _ (fun p hp' => hps p (List.mem_cons_of_mem _ hp')) inv1
    rw [List.foldl_cons, hs1]
    refine ⟨s', hs', inv'.size_eq, inv'.dim_eq, inv'.arr, inv'.cons, ?_⟩
    intro i' d' hi' h1' h2' hd
    apply inv'.stored i' d' hi' h1' h2'
    rcases hd with hd | hd
    · exact Or.inl (Or.inl hd)
    · rcases List.mem_cons.1 hd with heq | hmem
      · cases heq; exact Or.inl (Or.inr ⟨rfl, rfl⟩)
      · exact Or.inr hmem

theorem new_ok {size dim : Nat} (hsize : 1 ≤ size) (hdim : 1 ≤ dim) :
    DSetData.new size dim = .ok { size := size, dim := dim, op := Array.replicate (size * (dim + 1)) 0 } := by
  unfold DSetData.new
  rw [if_neg]
  simp only [Bool.or_eq_true, decide_eq_true_eq]
  omega

theorem new_opU (size dim i d : Nat) :
    ({ size := size, dim := dim, op := Array.replicate (size * (dim + 1)) 0 } : DSetData).opU i d = 0 := by
  unfold DSetData.opU
  exact getD_replicate _ _ _

end BS

/-- **`build_set` accepts every partial involution.**  If the closure `op`, restricted to indices
    `i ≤ dim` and chambers `1 ≤ d ≤ size`, has its images in `1..size` and is undone by itself
    (`op i d = some e → op i e = some d`), then none of the assertions of `PartialDSet::new` /
    `PartialDSet::set` fires and the stored table is exactly the closure (0 = undefined). -/
theorem buildSet_of_involution {size dim : Nat} {op : Nat → Nat → Option Nat}
    (hsize : 1 ≤ size) (hdim : 1 ≤ dim)
    (hrange : ∀ i d e, i ≤ dim → 1 ≤ d → d ≤ size → op i d = some e → 1 ≤ e ∧ e ≤ size)
    (hinvol : ∀ i d e, i ≤ dim → 1 ≤ d → d ≤ size → op i d = some e → op i e = some d) :
    ∃ s, buildSet size dim op = .ok s ∧ s.size = size ∧ s.dim = dim ∧
      s.op.size = size * (dim + 1) ∧
      ∀ i d, i ≤ dim → 1 ≤ d → d ≤ size → s.opU i d = (op i d).getD 0 := by
  rw [BS.buildSet_eq_fold, BS.new_ok hsize hdim]
  simp only
  have inv0 : BS.FInv size dim op
      { size := size, dim := dim, op := Array.replicate (size * (dim + 1)) 0 } (fun _ _ => False) := by
    refine ⟨rfl, rfl, by simp, ?_, ?_⟩
    · intro i d _ _ _ h; exact absurd (BS.new_opU size dim i d) h
    · intro i d _ _ _ h; exact h.elim
  obtain ⟨s, hs, inv⟩ := BS.FInv.fold ⟨hrange, hinvol⟩ (BS.pairs size dim) _ _
    (fun p hp => by
      have : (p.1, p.2) ∈ BS.pairs size dim := hp
      exact BS.mem_pairs.1 this) inv0
  refine ⟨s, hs, inv.size_eq, inv.dim_eq, inv.arr, ?_⟩
  intro i d hi h1 h2
  exact inv.stored i d hi h1 h2 (Or.inr (BS.mem_pairs.2 ⟨hi, h1, h2⟩))

/-- complete version: a total involution gives a complete, valid D-set -/
theorem buildSet_of_total_involution {size dim : Nat} {op : Nat → Nat → Option Nat} {f : Nat → Nat → Nat}
    (hsize : 1 ≤ size) (hdim : 1 ≤ dim)
    (hop : ∀ i d, i ≤ dim → 1 ≤ d → d ≤ size → op i d = some (f i d))
    (hrange : ∀ i d, i ≤ dim → 1 ≤ d → d ≤ size → 1 ≤ f i d ∧ f i d ≤ size)
    (hinvol : ∀ i d, i ≤ dim → 1 ≤ d → d ≤ size → f i (f i d) = d) :
    ∃ s, buildSet size dim op = .ok s ∧ s.size = size ∧ s.dim = dim ∧ ValidSet s ∧
      ∀ i d, i ≤ dim → 1 ≤ d → d ≤ size → s.opU i d = f i d := by
  obtain ⟨s, hs, h1, h2, h3, h4⟩ := buildSet_of_involution (op := op) hsize hdim
    (fun i d e hi hd1 hd2 he => by
      rw [hop i d hi hd1 hd2] at he; cases he; exact hrange i d hi hd1 hd2)
    (fun i d e hi hd1 hd2 he => by
      rw [hop i d hi hd1 hd2] at he; cases he
      have r := hrange i d hi hd1 hd2
      rw [hop i _ hi r.1 r.2, hinvol i d hi hd1 hd2])
  have hf : ∀ i d, i ≤ dim → 1 ≤ d → d ≤ size → s.opU i d = f i d := by
    intro i d hi hd1 hd2
    rw [h4 i d hi hd1 hd2, hop i d hi hd1 hd2]; rfl
  refine ⟨s, hs, h1, h2, ⟨by rw [h1, h2]; exact h3, ?_, ?_⟩, hf⟩
  · intro i d hi hd1 hd2
    rw [h2] at hi; rw [h1] at hd2 ⊢
    rw [hf i d hi hd1 hd2]; exact hrange i d hi hd1 hd2
  · intro i d hi hd1 hd2
    rw [h2] at hi; rw [h1] at hd2
    have r := hrange i d hi hd1 hd2
    rw [hf i d hi hd1 hd2, hf i _ hi r.1 r.2]; exact hinvol i d hi hd1 hd2

namespace BS

/-! ### converse: whatever is accepted is stored, in range, and stored back -/

/-- loop invariant of the converse: for every processed pair with a defined value, the value
    is in range, stored, and stored back at the image -/
structure CInv (size dim : Nat) (op : Nat → Nat → Option Nat) (s : DSetData) (done : Nat → Nat → Prop) : Prop where
  size_eq : s.size = size
  dim_eq : s.dim = dim
  arr : s.op.size = size * (dim + 1)
  stored : ∀ i d e, i ≤ dim → 1 ≤ d → d ≤ size → done i d → op i d = some e →
    (1 ≤ e ∧ e ≤ size) ∧ s.opU i d = e ∧ s.opU i e = d

theorem CInv.step {size dim : Nat} {op : Nat → Nat → Option Nat}
    {s s' : DSetData} {done : Nat → Nat → Prop} (inv : CInv size dim op s done)
    {i d : Nat} (hi : i ≤ dim) (h1 : 1 ≤ d) (h2 : d ≤ size)
    (hs : BS.step op (.ok s) (i, d) = .ok s') :
    CInv size dim op s' (fun i' d' => done i' d' ∨ (i' = i ∧ d' = d)) := by
  unfold BS.step at hs
  simp only at hs
  cases hod : op i d with
  | none =>
    rw [hod] at hs
    cases hs
    refine ⟨inv.size_eq, inv.dim_eq, inv.arr, ?_⟩
    intro i' d' e' hi' h1' h2' hdone he'
    rcases hdone with hdone | ⟨rfl, rfl⟩
    · exact inv.stored i' d' e' hi' h1' h2' hdone he'
    · rw [hod] at he'; cases he'
  | some e =>
    rw [hod] at hs
    simp only at hs
    obtain ⟨⟨his, hds, hes, hsd, hse⟩, rfl⟩ := set_ok_inv hs
    have hss : s.op.size = s.size * (s.dim + 1) := by rw [inv.size_eq, inv.dim_eq]; exact inv.arr
    have hread : ∀ i' d', i' ≤ dim → 1 ≤ d' →
        (setRaw s i d e).opU i' d' =
          if i' = i ∧ d' = e then d else if i' = i ∧ d' = d then e else s.opU i' d' := by
      intro i' d' hi' h1'
      exact setRaw_opU hss his hds hes (by rw [inv.dim_eq]; exact hi') h1'
    -- non-zero entries are never changed
    have hkeep : ∀ i' d', i' ≤ dim → 1 ≤ d' → s.opU i' d' ≠ 0 →
        (setRaw s i d e).opU i' d' = s.opU i' d' := by
      intro i' d' hi' h1' hne
      rw [hread i' d' hi' h1']
      by_cases c1 : i' = i ∧ d' = e
      · obtain ⟨rfl, rfl⟩ := c1
        rw [if_pos ⟨rfl, rfl⟩]; omega
      · rw [if_neg c1]
        by_cases c2 : i' = i ∧ d' = d
        · obtain ⟨rfl, rfl⟩ := c2
          rw [if_pos ⟨rfl, rfl⟩]; omega
        · rw [if_neg c2]
    have hes' : 1 ≤ e ∧ e ≤ size := by rw [← inv.size_eq]; exact hes
    refine ⟨inv.size_eq, inv.dim_eq, by rw [setRaw_op_size]; exact inv.arr, ?_⟩
    intro i' d' e' hi' h1' h2' hdone he'
    rcases hdone with hdone | ⟨rfl, rfl⟩
    · obtain ⟨hr, ha, hb⟩ := inv.stored i' d' e' hi' h1' h2' hdone he'
      refine ⟨hr, ?_, ?_⟩
      · rw [hkeep i' d' hi' h1' (by omega)]; exact ha
      · rw [hkeep i' e' hi' hr.1 (by omega)]; exact hb
    · rw [hod] at he'; cases he'
      refine ⟨hes', ?_, ?_⟩
      · rw [hread i' d' hi' h1']
        by_cases c1 : d' = e
        · subst c1; rw [if_pos ⟨rfl, rfl⟩]
        · rw [if_neg (by intro h; exact c1 h.2), if_pos ⟨rfl, rfl⟩]
      · rw [hread i' e hi' hes'.1, if_pos ⟨rfl, rfl⟩]

theorem CInv.fold {size dim : Nat} {op : Nat → Nat → Option Nat} :
    ∀ (ps : List (Nat × Nat)) (s s' : DSetData) (done : Nat → Nat → Prop),
      (∀ p ∈ ps, p.1 ≤ dim ∧ 1 ≤ p.2 ∧ p.2 ≤ size) → CInv size dim op s done →
      ps.foldl (BS.step op) (.ok s) = .ok s' →
      CInv size dim op s' (fun i d => done i d ∨ (i, d) ∈ ps)
  | [], s, s', done, _, inv, hs => by
    cases hs
    refine ⟨inv.size_eq, inv.dim_eq, inv.arr, ?_⟩
    intro i d e hi h1 h2 hd
    rcases hd with hd | hd
    · exact inv.stored i d e hi h1 h2 hd
    · cases hd
  | (i, d) :: ps, s, s', done, hps, inv, hs => by
    have hp := hps (i, d) (List.mem_cons_self ..)
    rw [List.foldl_cons] at hs
    cases h1 : BS.step op (.ok s) (i, d) with
    | ok s1 =>
      rw [h1] at hs
      have inv1 := inv.step hp.1 hp.2.1 hp.2.2 h1
      have inv' := CInv.fold ps s1 s' _ (fun p hp' => hps p (List.mem_cons_of_mem _ hp')) inv1 hs
      refine ⟨inv'.size_eq, inv'.dim_eq, inv'.arr, ?_⟩
      intro i' d' e' hi' h1' h2' hd
      apply inv'.stored i' d' e' hi' h1' h2'
      rcases hd with hd | hd
      · exact Or.inl (Or.inl hd)
      · rcases List.mem_cons.1 hd with heq | hmem
        · cases heq; exact Or.inl (Or.inr ⟨rfl, rfl⟩)
        · exact Or.inr hmem
    | err =>
      rw [h1, fold_not_ok op ps .err (by intro s; simp)] at hs; cases hs
    | panic =>
      rw [h1, fold_not_ok op ps .panic (by intro s; simp)] at hs; cases hs

end BS

/-- `build_set` returns or panics, it has no error value -/
theorem buildSet_ne_err (size dim : Nat) (op : Nat → Nat → Option Nat) : buildSet size dim op ≠ .err := by
  rw [BS.buildSet_eq_fold]
  by_cases hsz : 1 ≤ size ∧ 1 ≤ dim
  · rw [BS.new_ok hsz.1 hsz.2]
    exact BS.fold_ne_err op _ _
  · unfold DSetData.new
    rw [if_pos (by simp only [Bool.or_eq_true, decide_eq_true_eq]; omega)]
    simp

/-- **Whatever `build_set` accepts is stored both ways.**  If `buildSet size dim op = .ok s`
    then `size, dim ≥ 1` and every defined value `op i d = some e` (in-range `i`, `d`) is a chamber,
    is stored at `(i, d)` and `d` is stored at `(i, e)`. -/
theorem buildSet_ok_inv {size dim : Nat} {op : Nat → Nat → Option Nat} {s : DSetData}
    (h : buildSet size dim op = .ok s) :
    1 ≤ size ∧ 1 ≤ dim ∧ s.size = size ∧ s.dim = dim ∧ s.op.size = size * (dim + 1) ∧
    ∀ i d e, i ≤ dim → 1 ≤ d → d ≤ size → op i d = some e →
      (1 ≤ e ∧ e ≤ size) ∧ s.opU i d = e ∧ s.opU i e = d := by
  rw [BS.buildSet_eq_fold] at h
  by_cases hsz : 1 ≤ size ∧ 1 ≤ dim
  · rw [BS.new_ok hsz.1 hsz.2] at h
    simp only at h
    have inv0 : BS.CInv size dim op
        { size := size, dim := dim, op := Array.replicate (size * (dim + 1)) 0 } (fun _ _ => False) :=
      ⟨rfl, rfl, by simp, fun i d e _ _ _ hf => hf.elim⟩
    have inv := BS.CInv.fold (BS.pairs size dim) _ s _
      (fun p hp => by
        have : (p.1, p.2) ∈ BS.pairs size dim := hp
        exact BS.mem_pairs.1 this) inv0 h
    refine ⟨hsz.1, hsz.2, inv.size_eq, inv.dim_eq, inv.arr, ?_⟩
    intro i d e hi h1 h2 he
    exact inv.stored i d e hi h1 h2 (Or.inr (BS.mem_pairs.2 ⟨hi, h1, h2⟩)) he
  · exfalso
    unfold DSetData.new at h
    rw [if_pos (by simp only [Bool.or_eq_true, decide_eq_true_eq]; omega)] at h
    cases h

/-- a closure that is total on the range and accepted by `build_set` is an involution with
    images in range — a non-involutive closure always trips an assertion -/
theorem buildSet_ok_involutive {size dim : Nat} {op : Nat → Nat → Option Nat} {f : Nat → Nat → Nat} {s : DSetData}
    (hop : ∀ i d, i ≤ dim → 1 ≤ d → d ≤ size → op i d = some (f i d))
    (h : buildSet size dim op = .ok s) :
    ∀ i d, i ≤ dim → 1 ≤ d → d ≤ size → (1 ≤ f i d ∧ f i d ≤ size) ∧ f i (f i d) = d ∧ s.opU i d = f i d := by
  obtain ⟨_, _, _, _, _, hst⟩ := buildSet_ok_inv h
  intro i d hi h1 h2
  obtain ⟨hr, ha, hb⟩ := hst i d (f i d) hi h1 h2 (hop i d hi h1 h2)
  obtain ⟨_, ha', _⟩ := hst i (f i d) (f i (f i d)) hi hr.1 hr.2 (hop i _ hi hr.1 hr.2)
  exact ⟨hr, by rw [← ha', hb], ha⟩

end DSymVerif.DS
