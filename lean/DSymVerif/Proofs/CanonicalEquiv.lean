/-
Helper lemmas for property C03, part 2: equivariance of the traversal and of the traversal
code under a renumbering of the chambers.

`φ : ℕ → ℕ` is an injective renumbering, `s'` is the renumbered view of `s`
(`s'.op i (φ d) = (s.op i d).map φ`).  The `Traversal` iterator is a state machine whose
state (`seeds`, `seen`, `todo`) mentions chambers only as data; applying `φ` to every
chamber of the state commutes with `next` (`travNext_equiv`), hence with the whole
traversal (`traversal_equiv`).  `TraversalCode` records first-visit numbers, indices and
branching numbers only, so the codes are equal and the chamber maps correspond
(`traversalCodeOf_equiv`).
-/
import DSymVerif.Proofs.CanonicalBuild

namespace DSymVerif.DS
namespace CanonP

open View

/-! ### `φ` on the traversal state -/

def mapTodo (φ : Nat → Nat) (t : Todo) : Todo := t.map (fun p => (p.1, p.2.map φ))

def mapSeen (φ : Nat → Nat) (l : List (Nat × Option Nat)) : List (Nat × Option Nat) :=
  l.map (fun p => (φ p.1, p.2))

def mapState (φ : Nat → Nat) (st : TravState) : TravState :=
  { seeds := st.seeds.map φ, seen := mapSeen φ st.seen, todo := mapTodo φ st.todo }

def mapItem (φ : Nat → Nat) (it : TravItem) : TravItem := (it.1, φ it.2.1, φ it.2.2)

/-- `s'` is `s` renumbered by `φ` -/
structure Renum (φ : Nat → Nat) (s s' : View) : Prop where
  inj : ∀ a b, φ a = φ b → a = b
  size : s'.size = s.size
  dim : s'.dim = s.dim
  op : ∀ i d, s'.op i (φ d) = (s.op i d).map φ

theorem todoPop_map (φ : Nat → Nat) : ∀ t : Todo,
    todoPop (mapTodo φ t) = (todoPop t).map (fun r => (r.1, φ r.2.1, mapTodo φ r.2.2))
  | [] => rfl
  | (i, []) :: rest => by
    have ih := todoPop_map φ rest
    simp only [mapTodo, List.map_cons, List.map_nil, todoPop] at ih ⊢
    rw [ih]
    cases todoPop rest with
    | none => rfl
    | some r => rfl
  | (i, d :: q) :: rest => by
    simp [mapTodo, todoPop]

theorem todoPush_map (φ : Nat → Nat) (t : Todo) (k di : Nat) :
    todoPush (mapTodo φ t) k (φ di) = mapTodo φ (todoPush t k di) := by
  unfold todoPush mapTodo
  rw [List.map_map, List.map_map]
  apply List.map_congr_left
  rintro ⟨i, q⟩ _
  simp only [Function.comp]
  by_cases hik : i = k
  · by_cases hk : k < 2
    · simp [hik, hk]
    · simp [hik, hk]
  · simp [hik]

theorem todoPushAll_map (φ : Nat → Nat) (di : Nat) : ∀ (idx : List Nat) (t : Todo),
    idx.foldl (fun t k => todoPush t k (φ di)) (mapTodo φ t) =
      mapTodo φ (idx.foldl (fun t k => todoPush t k di) t)
  | [], _ => rfl
  | k :: idx, t => by
    rw [List.foldl_cons, List.foldl_cons, todoPush_map, todoPushAll_map φ di idx]

theorem seen_contains_map {φ : Nat → Nat} (hφ : ∀ a b, φ a = φ b → a = b) (d : Nat) (mi : Option Nat) :
    ∀ l : List (Nat × Option Nat), (mapSeen φ l).contains (φ d, mi) = l.contains (d, mi)
  | [] => rfl
  | p :: l => by
    have ih := seen_contains_map hφ d mi l
    simp only [mapSeen, List.map_cons, List.contains_cons] at ih ⊢
    rw [ih]
    congr 1
    rcases p with ⟨e, mj⟩
    rw [Bool.eq_iff_iff]
    simp only [beq_iff_eq, Prod.mk.injEq]
    constructor
    · rintro ⟨h1, h2⟩; exact ⟨hφ _ _ h1, h2⟩
    · rintro ⟨h1, h2⟩; exact ⟨by rw [h1], h2⟩

/-- **one `next()` of the traversal commutes with the renumbering** -/
theorem travNext_equiv {φ : Nat → Nat} {s s' : View} (R : Renum φ s s') (idx : List Nat) :
    ∀ (fuel : Nat) (st : TravState),
      travNext s' idx fuel (mapState φ st) =
        (travNext s idx fuel st).map (fun r => (mapItem φ r.1, mapState φ r.2))
  | 0, _ => rfl
  | fuel + 1, st => by
    have ih := travNext_equiv R idx fuel
    rw [travNext, travNext]
    have hpop := todoPop_map φ st.todo
    show (match (match todoPop (mapTodo φ st.todo) with
            | some (i, d, todo') => some (some i, d, { (mapState φ st) with todo := todo' })
            | none => match (st.seeds.map φ) with
              | d :: rest => some (none, d, { (mapState φ st) with seeds := rest })
              | [] => none) with
          | none => none
          | some (mi, d, st1) =>
            if st1.seen.contains (d, mi) then travNext s' idx fuel st1
            else
              let di := match mi with
                | some i => (s'.op i d).getD d
                | none => d
              let todo := idx.foldl (fun t k => todoPush t k di) st1.todo
              let seen := (d, mi) :: (di, mi) :: (di, none) :: st1.seen
              some ((mi, d, di), { st1 with seen := seen, todo := todo })) = _
    rw [hpop]
    -- a common continuation for both ways of obtaining `(mi, d, st1)`
    have cont : ∀ (mi : Option Nat) (d : Nat) (st1 : TravState),
        (if (mapState φ st1).seen.contains (φ d, mi) then travNext s' idx fuel (mapState φ st1)
          else
            let di := match mi with
              | some i => (s'.op i (φ d)).getD (φ d)
              | none => φ d
            let todo := idx.foldl (fun t k => todoPush t k di) (mapState φ st1).todo
            let seen := (φ d, mi) :: (di, mi) :: (di, none) :: (mapState φ st1).seen
            some ((mi, φ d, di), { (mapState φ st1) with seen := seen, todo := todo })) =
        (if st1.seen.contains (d, mi) then travNext s idx fuel st1
          else
            let di := match mi with
              | some i => (s.op i d).getD d
              | none => d
            let todo := idx.foldl (fun t k => todoPush t k di) st1.todo
            let seen := (d, mi) :: (di, mi) :: (di, none) :: st1.seen
            some ((mi, d, di), { st1 with seen := seen, todo := todo })).map
          (fun r => (mapItem φ r.1, mapState φ r.2)) := by
      intro mi d st1
      have hc : (mapState φ st1).seen.contains (φ d, mi) = st1.seen.contains (d, mi) :=
        seen_contains_map R.inj d mi st1.seen
      rw [hc]
      by_cases hs : st1.seen.contains (d, mi) = true
      · rw [if_pos hs, if_pos hs]; exact ih st1
      · rw [if_neg hs, if_neg hs]
        cases mi with
        | none =>
          dsimp only
          rw [Option.map_some]
          simp only [mapItem, mapState, mapSeen, List.map_cons]
          rw [todoPushAll_map]
        | some i =>
          have hdi : (s'.op i (φ d)).getD (φ d) = φ ((s.op i d).getD d) := by
            rw [R.op i d]; cases s.op i d <;> rfl
          dsimp only
          rw [hdi, Option.map_some]
          simp only [mapItem, mapState, mapSeen, List.map_cons]
          rw [todoPushAll_map]
    cases hp : todoPop st.todo with
    | some r =>
      obtain ⟨i, d, todo'⟩ := r
      simp only [Option.map_some]
      exact cont (some i) d { st with todo := todo' }
    | none =>
      simp only [Option.map_none]
      cases hseeds : st.seeds with
      | nil => simp
      | cons d rest =>
        simp only [List.map_cons]
        have := cont none d { st with seeds := rest }
        simpa [mapState, hseeds] using this

/-! ### the whole traversal -/

theorem travCollect_equiv {φ : Nat → Nat} {s s' : View} (R : Renum φ s s') (idx : List Nat) (f : Nat) :
    ∀ (n : Nat) (st : TravState) (acc : List TravItem),
      travCollect s' idx f n (mapState φ st) (acc.map (mapItem φ)) =
        (travCollect s idx f n st acc).map (mapItem φ)
  | 0, _, acc => by simp [travCollect]
  | n + 1, st, acc => by
    rw [travCollect, travCollect, travNext_equiv R idx f st]
    cases travNext s idx f st with
    | none => simp
    | some r =>
      simp only [Option.map_some]
      have := travCollect_equiv R idx f n r.2 (r.1 :: acc)
      rw [List.map_cons] at this
      exact this

theorem mapTodo_todoInit (φ : Nat → Nat) (idx : List Nat) : mapTodo φ (todoInit idx) = todoInit idx := by
  unfold mapTodo todoInit
  simp only [List.map_map]
  apply List.map_congr_left
  intro i _
  rfl

/-- **the traversal of the renumbered view is the renumbered traversal** -/
theorem traversal_equiv {φ : Nat → Nat} {s s' : View} (R : Renum φ s s') (idx seeds : List Nat) :
    s'.traversal idx (seeds.map φ) = (s.traversal idx seeds).map (mapItem φ) := by
  unfold View.traversal
  have hf : s'.travFuel idx (seeds.map φ) = s.travFuel idx seeds := by
    unfold View.travFuel; rw [R.size, List.length_map]
  rw [hf]
  have h0 : ({ seeds := seeds.map φ, seen := [], todo := todoInit idx } : TravState) =
      mapState φ { seeds := seeds, seen := [], todo := todoInit idx } := by
    simp only [mapState, mapSeen, List.map_nil, mapTodo_todoInit]
  have := travCollect_equiv R idx (s.travFuel idx seeds) (s.travFuel idx seeds)
    { seeds := seeds, seen := [], todo := todoInit idx } []
  rw [List.map_nil] at this
  simp only
  rw [h0]
  exact this

/-! ### the code -/

/-- two outcomes agree in kind and, when both returned, are related -/
def OutRel {α β : Type} (r : α → β → Prop) : Outcome α → Outcome β → Prop
  | .ok a, .ok b => r a b
  | .err, .err => True
  | .panic, .panic => True
  | _, _ => False

/-- the code state over `s` and over the renumbered `s'`: same counter and buffer, and the
    element maps correspond under `φ` -/
structure CodeRel (φ : Nat → Nat) (st st' : CodeState) : Prop where
  next : st'.next = st.next
  buf : st'.buf = st.buf
  emap : ∀ d, st'.emap[φ d]? = st.emap[d]?

theorem pushVs_equiv {φ : Nat → Nat} {v v' : Nat → Nat → Option Nat} (d : Nat) :
    ∀ (is : List Nat) (buf : Array Int), (∀ i ∈ is, v' i (φ d) = v i d) →
      pushVs v' (φ d) is buf = pushVs v d is buf
  | [], _, _ => rfl
  | i :: is, buf, h => by
    rw [pushVs, pushVs, h i (List.mem_cons_self ..)]
    cases v i d with
    | none => rfl
    | some x => exact pushVs_equiv d is _ (fun j hj => h j (List.mem_cons_of_mem _ hj))

theorem getElem?_setIfInBounds_map {φ : Nat → Nat} (hφ : ∀ a b, φ a = φ b → a = b)
    {a a' : Array Nat} (h : ∀ d, a'[φ d]? = a[d]?) (t x : Nat) :
    ∀ d, (a'.setIfInBounds (φ t) x)[φ d]? = (a.setIfInBounds t x)[d]? := by
  intro d
  rw [Array.getElem?_setIfInBounds, Array.getElem?_setIfInBounds]
  by_cases hd : t = d
  · subst hd
    have := h t
    simp only [if_true]
    by_cases hl : t < a.size
    · have hl' : φ t < a'.size := by
        by_contra hc
        have e1 : a'[φ t]? = none := Array.getElem?_eq_none (by omega)
        have e2 : a[t]? = some a[t] := Array.getElem?_eq_getElem hl
        rw [e1, e2] at this
        cases this
      simp [hl, hl']
    · have hl' : ¬ φ t < a'.size := by
        intro hc
        have e1 : a[t]? = none := Array.getElem?_eq_none (by omega)
        have e2 : a'[φ t]? = some a'[φ t] := Array.getElem?_eq_getElem hc
        rw [e1, e2] at this
        cases this
      simp [hl, hl']
  · have : ¬ φ t = φ d := fun hc => hd (hφ _ _ hc)
    rw [if_neg this, if_neg hd]
    exact h d

/-- **one `advance()` commutes with the renumbering** -/
theorem codeAdvance_equiv {φ : Nat → Nat} (hφ : ∀ a b, φ a = φ b → a = b) {dim : Nat}
    {v v' : Nat → Nat → Option Nat} (hv : ∀ i d, i < dim → v' i (φ d) = v i d)
    {st st' : CodeState} (R : CodeRel φ st st') (it : TravItem) :
    OutRel (CodeRel φ) (codeAdvance dim v st it) (codeAdvance dim v' st' (mapItem φ it)) := by
  obtain ⟨mi, src, tgt⟩ := it
  unfold codeAdvance mapItem
  simp only
  rw [R.emap tgt, R.next, R.buf]
  cases h0 : st.emap[tgt]? with
  | none => trivial
  | some m0 =>
    simp only
    have hemap : ∀ d, (if m0 = 0 then st'.emap.setIfInBounds (φ tgt) st.next else st'.emap)[φ d]? =
        (if m0 = 0 then st.emap.setIfInBounds tgt st.next else st.emap)[d]? := by
      intro d
      by_cases hm : m0 = 0
      · rw [if_pos hm, if_pos hm]
        exact getElem?_setIfInBounds_map hφ R.emap tgt st.next d
      · rw [if_neg hm, if_neg hm]; exact R.emap d
    rw [hemap src]
    cases h1 : (if m0 = 0 then st.emap.setIfInBounds tgt st.next else st.emap)[src]? with
    | none => trivial
    | some ms =>
      simp only
      by_cases hn : (if m0 = 0 then st.next else m0) = st.next
      · rw [if_pos hn, if_pos hn]
        rw [pushVs_equiv (φ := φ) (v := v) (v' := v') tgt (List.range dim) _
          (fun i hi => hv i tgt (List.mem_range.1 hi))]
        cases pushVs v tgt (List.range dim)
            (match mi with
              | some i => ((st.buf.push (i : Int)).push (ms : Int)).push ((if m0 = 0 then st.next else m0 : Nat) : Int)
              | none => (st.buf.push (-1)).push (ms : Int)) with
        | ok b => exact ⟨rfl, rfl, hemap⟩
        | err => trivial
        | panic => trivial
      · rw [if_neg hn, if_neg hn]
        exact ⟨rfl, rfl, hemap⟩

theorem codeFold_equiv {φ : Nat → Nat} (hφ : ∀ a b, φ a = φ b → a = b) {dim : Nat}
    {v v' : Nat → Nat → Option Nat} (hv : ∀ i d, i < dim → v' i (φ d) = v i d) :
    ∀ (its : List TravItem) (st st' : CodeState), CodeRel φ st st' →
      OutRel (CodeRel φ) (codeFold dim v its st) (codeFold dim v' (its.map (mapItem φ)) st')
  | [], st, st', R => R
  | it :: its, st, st', R => by
    have h := codeAdvance_equiv hφ hv R it
    rw [List.map_cons, codeFold, codeFold]
    cases h1 : codeAdvance dim v st it with
    | ok a =>
      cases h2 : codeAdvance dim v' st' (mapItem φ it) with
      | ok a' =>
        rw [h1, h2] at h
        exact codeFold_equiv hφ hv its a a' h
      | err => rw [h1, h2] at h; exact h.elim
      | panic => rw [h1, h2] at h; exact h.elim
    | err =>
      cases h2 : codeAdvance dim v' st' (mapItem φ it) with
      | ok a' => rw [h1, h2] at h; exact h.elim
      | err => trivial
      | panic => rw [h1, h2] at h; exact h.elim
    | panic =>
      cases h2 : codeAdvance dim v' st' (mapItem φ it) with
      | ok a' => rw [h1, h2] at h; exact h.elim
      | err => rw [h1, h2] at h; exact h.elim
      | panic => trivial

/-- **Equivariance of the traversal code.**  For a renumbering `φ` (injective, respecting the
    index range of the element map) the code of the renumbered view started at `φ seed` is the
    code of the original view started at `seed`, and the element maps correspond:
    `map' (φ d) = map d`. -/
theorem traversalCodeOf_equiv {φ : Nat → Nat} {s s' : View} (R : Renum φ s s')
    (hb : ∀ d, φ d ≤ s.size ↔ d ≤ s.size)
    {v v' : Nat → Nat → Option Nat} (hv : ∀ i d, i < s.dim → v' i (φ d) = v i d) (seed : Nat) :
    OutRel (fun c c' => c'.code = c.code ∧ ∀ d, c'.map[φ d]? = c.map[d]?)
      (traversalCodeOf s v seed) (traversalCodeOf s' v' (φ seed)) := by
  unfold traversalCodeOf
  have hidx : s'.indices = s.indices := by unfold View.indices; rw [R.dim]
  have htr : s'.traversal s'.indices [φ seed] = (s.traversal s.indices [seed]).map (mapItem φ) := by
    rw [hidx]; exact traversal_equiv R s.indices [seed]
  have h0 : CodeRel φ (CodeState.init s.size) (CodeState.init s'.size) := by
    refine ⟨rfl, rfl, ?_⟩
    intro d
    show (Array.replicate (s'.size + 1) 0)[φ d]? = (Array.replicate (s.size + 1) 0)[d]?
    rw [R.size, Array.getElem?_replicate, Array.getElem?_replicate]
    by_cases hd : d ≤ s.size
    · rw [if_pos (by have := (hb d).2 hd; omega), if_pos (by omega)]
    · rw [if_neg (by have := (hb d).not.2 hd; omega), if_neg (by omega)]
  have h := codeFold_equiv R.inj (dim := s.dim) hv (s.traversal s.indices [seed]) _ _ h0
  rw [htr, R.dim]
  cases h1 : codeFold s.dim v (s.traversal s.indices [seed]) (CodeState.init s.size) with
  | ok a =>
    cases h2 : codeFold s.dim v' ((s.traversal s.indices [seed]).map (mapItem φ)) (CodeState.init s'.size) with
    | ok a' =>
      rw [h1, h2] at h
      exact ⟨by simp only; rw [h.buf], h.emap⟩
    | err => rw [h1, h2] at h; exact h.elim
    | panic => rw [h1, h2] at h; exact h.elim
  | err =>
    cases h2 : codeFold s.dim v' ((s.traversal s.indices [seed]).map (mapItem φ)) (CodeState.init s'.size) with
    | ok a' => rw [h1, h2] at h; exact h.elim
    | err => trivial
    | panic => rw [h1, h2] at h; exact h.elim
  | panic =>
    cases h2 : codeFold s.dim v' ((s.traversal s.indices [seed]).map (mapItem φ)) (CodeState.init s'.size) with
    | ok a' => rw [h1, h2] at h; exact h.elim
    | err => rw [h1, h2] at h; exact h.elim
    | panic => trivial

end CanonP
end DSymVerif.DS
