/-
Helper lemmas for property C03, part 2: equivariance of the traversal and of the traversal
code under a renumbering of the chambers.

`φ : ℕ → ℕ` is an injective renumbering, `s'` is the renumbered view of `s`
(`s'.op i (φ d) = (s.op i d).map φ`).  The `Traversal` iterator is a state machine whose
state (`seeds`, `seen`, `todo`) mentions chambers only as data; applying `φ` to every
chamber of the state commutes with `next` (`travNext_equiv`), hence with the whole
traversal (`traversal_equiv`).  `TraversalCode` records first-visit numbers, indices and
branching numbers only, so the codes are equal and the chamber maps correspond
(`traversalCodeOf_equiv`).
-/
import DSymVerif.Proofs.CanonicalBuild

namespace DSymVerif.DS
namespace CanonP

open View

/-! ### `φ` on the traversal state -/

def mapTodo (φ : Nat → Nat) (t : Todo) : Todo := t.map (fun p => (p.1, p.2.map φ))

def mapSeen (φ : Nat → Nat) (l : List (Nat × Option Nat)) : List (Nat × Option Nat) :=
  l.map (fun p => (φ p.1, p.2))

def mapState (φ : Nat → Nat) (st : TravState) : TravState :=
  { seeds := st.seeds.map φ, seen := mapSeen φ st.seen, todo := mapTodo φ st.todo }

def mapItem (φ : Nat → Nat) (it : TravItem) : TravItem := (it.1, φ it.2.1, φ it.2.2)

/-- `s'` is `s` renumbered by `φ` -/
structure Renum (φ : Nat → Nat) (s s' : View) : Prop where
  inj : ∀ a b, φ a = φ b → a = b
  size : s'.size = s.size
  dim : s'.dim = s.dim
  op : ∀ i d, s'.op i (φ d) = (s.op i d).map φ

theorem todoPop_map (φ : Nat → Nat) : ∀ t : Todo,
    todoPop (mapTodo φ t) = (todoPop t).map (fun r => (r.1, φ r.2.1, mapTodo φ r.2.2))
  | [] => rfl
  | (i, []) :: rest => by
    have ih := todoPop_map φ rest
    simp only [mapTodo, List.map_cons, List.map_nil, todoPop] at ih ⊢
    rw [ih]
    cases todoPop rest with
    | none => rfl
    | some r => rfl
  | (i, d :: q) :: rest => by
    simp [mapTodo, todoPop]

theorem todoPush_map (φ : Nat → Nat) (t : Todo) (k di : Nat) :
    todoPush (mapTodo φ t) k (φ di) = mapTodo φ (todoPush t k di) := by
  unfold todoPush mapTodo
  rw [List.map_map, List.map_map]
  apply List.map_congr_left
  rintro ⟨i, q⟩ _
  simp only [Function.comp]
  by_cases hik : i = k
  · by_cases hk : k < 2
    · simp [hik, hk]
    · simp [hik, hk]
  · simp [hik]

theorem todoPushAll_map (φ : Nat → Nat) (di : Nat) : ∀ (idx : List Nat) (t : Todo),
    idx.foldl (fun t k => todoPush t k (φ di)) (mapTodo φ t) =
      mapTodo φ (idx.foldl (fun t k => todoPush t k di) t)
  | [], _ => rfl
  | k :: idx, t => by
    rw [List.foldl_cons, List.foldl_cons, todoPush_map, todoPushAll_map φ di idx]

theorem seen_contains_map {φ : Nat → Nat} (hφ : ∀ a b, φ a = φ b → a = b) (d : Nat) (mi : Option Nat) :
    ∀ l : List (Nat × Option Nat), (mapSeen φ l).contains (φ d, mi) = l.contains (d, mi)
  | [] => rfl
  | p :: l => by
    have ih := seen_contains_map hφ d mi l
    simp only [mapSeen, List.map_cons, List.contains_cons] at ih ⊢
    rw [ih]
    congr 1
    rcases p with ⟨e, mj⟩
    rw [Bool.eq_iff_iff]
    simp only [beq_iff_eq, Prod.mk.injEq]
    constructor
    · rintro ⟨h1, h2⟩; exact ⟨hφ _ _ h1, h2⟩
    · rintro ⟨h1, h2⟩; exact ⟨by rw [h1], h2⟩

/-- **one `next()` of the traversal commutes with the renumbering** -/
theorem travNext_equiv {φ : Nat → Nat} {s s' : View} (R : Renum φ s s') (idx : List Nat) :
    ∀ (fuel : Nat) (st : TravState),
      travNext s' idx fuel (mapState φ st) =
        (travNext s idx fuel st).map (fun r => (mapItem φ r.1, mapState φ r.2))
  | 0, _ => rfl
  | fuel + 1, st => by
    have ih := travNext_equiv R idx fuel
    rw [travNext, travNext]
    have hpop := todoPop_map φ st.todo
    show (match (match todoPop (mapTodo φ st.todo) with
            | some (i, d, todo') => some (some i, d, { (mapState φ st) with todo := todo' })
            | none => match (st.seeds.map φ) with
              | d :: rest => some (none, d, { (mapState φ st) with seeds := rest })
              | [] => none) with
          | none => none
          | some (mi, d, st1) =>
            if st1.seen.contains (d, mi) then travNext s' idx fuel st1
            else
              let di := match mi with
                | some i => (s'.op i d).getD d
                | none => d
              let todo := idx.foldl (fun t k => todoPush t k di) st1.todo
              let seen := (d, mi) :: (di, mi) :: (di, none) :: st1.seen
              some ((mi, d, di), { st1 with seen := seen, todo := todo })) = _
    rw [hpop]
    -- a common continuation for both ways of obtaining `(mi, d, st1)`
    have cont : ∀ (mi : Option Nat) (d : Nat) (st1 : TravState),
        (if (mapState φ st1).seen.contains (φ d, mi) then travNext s' idx fuel (mapState φ st1)
          else
            let di := match mi with
              | some i => (s'.op i (φ d)).getD (φ d)
              | none => φ d
            let todo := idx.foldl (fun t k => todoPush t k di) (mapState φ st1).todo
            let seen := (φ d, mi) :: (di, mi) :: (di, none) :: (mapState φ st1).seen
            some ((mi, φ d, di), { (mapState φ st1) with seen := seen, todo := todo })) =
        (if st1.seen.contains (d, mi) then travNext s idx fuel st1
          else
            let di := match mi with
              | some i => (s.op i d).getD d
              | none => d
            let todo := idx.foldl (fun t k => todoPush t k di) st1.todo
            let seen := (d, mi) :: (di, mi) :: (di, none) :: st1.seen
            some ((mi, d, di), { st1 with seen := seen, todo := todo })).map
          (fun r => (mapItem φ r.1, mapState φ r.2)) := by
      intro mi d st1
      have hc : (mapState φ st1).seen.contains (φ d, mi) = st1.seen.contains (d, mi) :=
        seen_contains_map R.inj d mi st1.seen
      rw [hc]
      by_cases hs : st1.seen.contains (d, mi) = true
      · rw [if_pos hs, if_pos hs]; exact ih st1
      · rw [if_neg hs, if_neg hs]
        cases mi with
        | none =>
          dsimp only
          rw [Option.map_some]
          simp only [mapItem, mapState, mapSeen, List.map_cons]
          rw [todoPushAll_map]
        | some i =>
          have hdi : (s'.op i (φ d)).getD (φ d) = φ ((s.op i d).getD d) := by
            rw [R.op i d]; cases s.op i d <;> rfl
          dsimp only
          rw [hdi, Option.map_some]
          simp only [mapItem, mapState, mapSeen, List.map_cons]
          rw [todoPushAll_map]
    cases hp : todoPop st.todo with
    | some r =>
      obtain ⟨i, d, todo'⟩ := r
      simp only [Option.map_some]
      exact cont (some i) d { st with todo := todo' }
    | none =>
      simp only [Option.map_none]
      cases hseeds : st.seeds with
      | nil => simp
      | cons d rest =>
        simp only [List.map_cons]
        have := cont none d { st with seeds := rest }
        simpa [mapState, hseeds] using this

end CanonP
end DSymVerif.DS
