/-
Helper lemmas for property C08, part 12: boundary darts.  A dart `(j, k, e)` is a mirror end
`(j, e)` (`op j e = e`) together with a second index `k ≠ j`: it points into the (j,k)-orbit of
`e`, a chain.  `tau` moves a dart to the dart at the other end of its chain (`opposite`), `rho`
to the other dart at the same mirror end; one step of `trace_boundary` is `phi = rho ∘ tau`.
Both are involutions without fixed points on valid darts.
-/
import DSymVerif.Proofs.Delaney2dOpposite

namespace DSymVerif.D2
open DSymVerif.DS

abbrev Dart := Nat × Nat × Nat

/-- the mirror end of a dart -/
def Dart.le (δ : Dart) : Nat × Nat := (δ.1, δ.2.2)

def rho (δ : Dart) : Dart := (δ.1, 3 - δ.1 - δ.2.1, δ.2.2)

def ValidDart (y : DSymData) (δ : Dart) : Prop :=
  δ.1 ≤ 2 ∧ δ.2.1 ≤ 2 ∧ δ.1 ≠ δ.2.1 ∧ 1 ≤ δ.2.2 ∧ δ.2.2 ≤ y.size ∧ y.dset.opU δ.1 δ.2.2 = δ.2.2

instance (y : DSymData) (δ : Dart) : Decidable (ValidDart y δ) := by unfold ValidDart; infer_instance

/-- the sign `partial_orientation` gives a chamber is PLUS -/
def posB (y : DSymData) (d : Nat) : Bool := y.view.partialOrientation.getD d 0 == 1

/-- the direction in which `trace_boundary` leaves the mirror end `(i, d)` -/
def kplus (y : DSymData) (i d : Nat) : Nat := if posB y d = true then (i + 1) % 3 else (i + 2) % 3

/-- a dart that points in the direction `trace_boundary` walks -/
def Positive (y : DSymData) (δ : Dart) : Prop := δ.2.1 = kplus y δ.1 δ.2.2

instance (y : DSymData) (δ : Dart) : Decidable (Positive y δ) := by unfold Positive; infer_instance

def tauF (y : DSymData) (δ : Dart) : Dart :=
  match opposite ⟨y, .partialSym⟩ δ.2.1 δ.1 δ.2.2 with
  | .ok (k', e') => (k', δ.1 + δ.2.1 - k', e')
  | _ => δ

def tau (y : DSymData) (δ : Dart) : Dart := if ValidDart y δ then tauF y δ else δ
def rhoT (y : DSymData) (δ : Dart) : Dart := if ValidDart y δ then rho δ else δ
/-- one step of the boundary walk -/
def phi (y : DSymData) (δ : Dart) : Dart := rhoT y (tau y δ)

theorem opposite_rep' (y : DSymData) (rep : Rep) (i j e : Nat) :
    opposite ⟨y, rep⟩ i j e = opposite ⟨y, .partialSym⟩ i j e := by
  cases rep
  · rfl
  · exact opposite_rep y i j e

section
variable {y : DSymData} (hv : ValidSet y.dset) (hdim : y.dim = 2)
include hv hdim

omit hv hdim in
theorem rho_valid {δ : Dart} (h : ValidDart y δ) :
    ValidDart y (rho δ) ∧ rho (rho δ) = δ ∧ rho δ ≠ δ ∧ (rho δ).le = δ.le := by
  obtain ⟨j, k, e⟩ := δ
  obtain ⟨h1, h2, h3, h4, h5, h6⟩ := h
  simp only at h1 h2 h3 h4 h5 h6
  refine ⟨⟨h1, ?_, ?_, h4, h5, h6⟩, ?_, ?_, rfl⟩
  · show 3 - j - k ≤ 2; omega
  · show j ≠ 3 - j - k; omega
  · show (j, 3 - j - (3 - j - k), e) = (j, k, e)
    have : 3 - j - (3 - j - k) = k := by omega
    rw [this]
  · intro heq
    have : 3 - j - k = k := congrArg (fun d : Dart => d.2.1) heq
    omega

omit hv hdim in
/-- the two darts at a mirror end -/
theorem same_le {δ δ' : Dart} (h : ValidDart y δ) (h' : ValidDart y δ') (hle : δ'.le = δ.le) :
    δ' = δ ∨ δ' = rho δ := by
  obtain ⟨j, k, e⟩ := δ
  obtain ⟨j', k', e'⟩ := δ'
  obtain ⟨h1, h2, h3, _, _, _⟩ := h
  obtain ⟨h1', h2', h3', _, _, _⟩ := h'
  simp only [Dart.le, Prod.mk.injEq] at hle h1 h2 h3 h1' h2' h3'
  obtain ⟨rfl, rfl⟩ := hle
  by_cases hk : k' = k
  · left; rw [hk]
  · right
    show (j', k', e') = (j', 3 - j' - k, e')
    have : k' = 3 - j' - k := by omega
    rw [this]

theorem tau_spec {δ : Dart} (h : ValidDart y δ) (rep : Rep) :
    ValidDart y (tau y δ) ∧ tau y (tau y δ) = δ ∧ tau y δ ≠ δ ∧
    opposite ⟨y, rep⟩ δ.2.1 δ.1 δ.2.2 = .ok ((tau y δ).1, (tau y δ).2.2) ∧
    (tau y δ).1 + (tau y δ).2.1 = δ.1 + δ.2.1 ∧
    ((tau y δ).1 = δ.2.1 ∨ (tau y δ).1 = δ.1) ∧
    Orb2 y.dset δ.2.1 δ.1 δ.2.2 (tau y δ).2.2 := by
  obtain ⟨j, k, e⟩ := δ
  have hval := h
  obtain ⟨h1, h2, h3, h4, h5, h6⟩ := h
  simp only at h1 h2 h3 h4 h5 h6
  have hj : j ≤ y.dim := by omega
  have hk : k ≤ y.dim := by omega
  obtain ⟨k', e', hop, hk', he', hl', horb, hne, hback⟩ :=
    opposite_spec hv .partialSym hk hj (fun e => h3 e.symm) ⟨h4, h5⟩ h6
  have htau : tau y (j, k, e) = (k', j + k - k', e') := by
    unfold tau; rw [if_pos hval]; unfold tauF; simp only; rw [hop]
  have hval' : ValidDart y (k', j + k - k', e') := by
    refine ⟨?_, ?_, ?_, he'.1, he'.2, hl'⟩
    · show k' ≤ 2; rcases hk' with rfl | rfl <;> assumption
    · show j + k - k' ≤ 2; rcases hk' with rfl | rfl <;> omega
    · show k' ≠ j + k - k'; rcases hk' with rfl | rfl <;> omega
  rw [htau]
  refine ⟨hval', ?_, ?_, ?_, ?_, ?_, horb⟩
  · unfold tau; rw [if_pos hval']; unfold tauF; simp only
    have e1 : k + j - k' = j + k - k' := by omega
    rw [e1] at hback
    rw [hback]
    show (j, k' + (j + k - k') - j, e) = (j, k, e)
    have : k' + (j + k - k') - j = k := by rcases hk' with rfl | rfl <;> omega
    rw [this]
  · intro heq
    apply hne
    have a : k' = j := congrArg (fun d : Dart => d.1) heq
    have b : e' = e := congrArg (fun d : Dart => d.2.2) heq
    rw [a, b]
  · rw [opposite_rep']; exact hop
  · show k' + (j + k - k') = j + k
    rcases hk' with rfl | rfl <;> omega
  · exact hk'

theorem tau_invol : Function.Involutive (tau y) := by
  intro δ
  by_cases h : ValidDart y δ
  · exact (tau_spec hv hdim h .partialSym).2.1
  · unfold tau; rw [if_neg h, if_neg h]

omit hv hdim in
theorem rhoT_invol : Function.Involutive (rhoT y) := by
  intro δ
  by_cases h : ValidDart y δ
  · unfold rhoT
    rw [if_pos h, if_pos (rho_valid h).1, (rho_valid h).2.1]
  · unfold rhoT; rw [if_neg h, if_neg h]

theorem phi_valid {δ : Dart} (h : ValidDart y δ) :
    ValidDart y (phi y δ) ∧ phi y δ = ((tau y δ).1, 3 - δ.1 - δ.2.1, (tau y δ).2.2) := by
  obtain ⟨hv', _, _, _, hsum, hk', _⟩ := tau_spec hv hdim h .partialSym
  have e : phi y δ = rho (tau y δ) := by unfold phi rhoT; rw [if_pos hv']
  rw [e]
  refine ⟨(rho_valid hv').1, ?_⟩
  unfold rho
  have : 3 - (tau y δ).1 - (tau y δ).2.1 = 3 - δ.1 - δ.2.1 := by omega
  rw [this]

/-- darts in the ⟨tau, rho⟩-orbit of a valid dart are valid -/
theorem orbit_valid {δ z : Dart} (h : ValidDart y δ) (ho : Dihedral.Orbit (tau y) (rhoT y) δ z) :
    ValidDart y z := by
  induction ho with
  | refl => exact h
  | stepA _ ih => exact (tau_spec hv hdim ih .partialSym).1
  | stepB _ ih => unfold rhoT; rw [if_pos ih]; exact (rho_valid ih).1

/-- **no reflection**: the boundary walk never comes back to a mirror end in the other direction -/
theorem no_reflection {δ : Dart} (h : ValidDart y δ) (t : Nat) :
    (phi y)^[t] δ ≠ rho δ := by
  intro heq
  have hB : rhoT y δ = (Dihedral.cc (tau y) (rhoT y))^[t] δ := by
    unfold rhoT; rw [if_pos h]; exact heq.symm
  obtain ⟨z, hz, hl⟩ := Dihedral.loop_of_reflection_B (tau_invol hv hdim) (rhoT_invol) t δ hB
  have hzv := orbit_valid hv hdim h hz
  rcases hl with hl | hl
  · exact (tau_spec hv hdim hzv .partialSym).2.2.1 hl
  · unfold rhoT at hl; rw [if_pos hzv] at hl
    exact (rho_valid hzv).2.2.1 hl

theorem phi_eq {δ : Dart} (h : ValidDart y δ) : phi y δ = rho (tau y δ) := by
  have tv := (tau_spec hv hdim h .partialSym).1
  unfold phi rhoT; rw [if_pos tv]

theorem phi_tau {δ : Dart} (h : ValidDart y δ) : phi y (tau y δ) = rho δ := by
  unfold phi; rw [tau_invol hv hdim]; unfold rhoT; rw [if_pos h]

theorem phi_injective : Function.Injective (phi y) := by
  intro a b h
  have := congrArg (rhoT y) h
  unfold phi at this
  rw [rhoT_invol, rhoT_invol] at this
  have := congrArg (tau y) this
  rwa [tau_invol hv hdim, tau_invol hv hdim] at this

theorem phi_iter_valid {δ : Dart} (h : ValidDart y δ) (n : Nat) : ValidDart y ((phi y)^[n] δ) := by
  induction n with
  | zero => exact h
  | succ n ih => rw [Function.iterate_succ_apply']; exact (phi_valid hv hdim ih).1

end

/-- the darts visited by the first `n` steps of the walk from `δ0` -/
def dlist (y : DSymData) (δ0 : Dart) (n : Nat) : List Dart := (List.range n).map fun i => (phi y)^[i] δ0

theorem dlist_succ (y : DSymData) (δ0 : Dart) (n : Nat) :
    dlist y δ0 (n + 1) = dlist y δ0 n ++ [(phi y)^[n] δ0] := by
  unfold dlist; rw [List.range_succ, List.map_append]; rfl

theorem mem_dlist {y : DSymData} {δ0 δ : Dart} {n : Nat} :
    δ ∈ dlist y δ0 n ↔ ∃ p, p < n ∧ (phi y)^[p] δ0 = δ := by
  unfold dlist; simp [List.mem_map, List.mem_range]

/-- the state of the tracing between two traces: the marked darts -/
structure Marked (y : DSymData) (M : List Dart) : Prop where
  valid : ∀ δ ∈ M, ValidDart y δ
  fwd : ∀ δ ∈ M, phi y δ ∈ M
  bwd : ∀ δ ∈ M, tau y (rho δ) ∈ M
  nodup : (M.map Dart.le).Nodup

section
variable {y : DSymData} (hv : ValidSet y.dset) (hdim : y.dim = 2)
include hv hdim

/-- **closing**: the first mirror end the walk meets again is its own start, in the same direction -/
theorem closing {M : List Dart} (hM : Marked y M) {δ0 : Dart} (h0 : ValidDart y δ0) (m : Nat)
    (hnd : (((phi y)^[m] δ0).le :: (((dlist y δ0 m).reverse.map Dart.le) ++ M.map Dart.le)).Nodup)
    (hmem : ((phi y)^[m + 1] δ0).le ∈
      ((phi y)^[m] δ0).le :: (((dlist y δ0 m).reverse.map Dart.le) ++ M.map Dart.le)) :
    (phi y)^[m + 1] δ0 = δ0 := by
  have hvm := phi_iter_valid hv hdim h0 m
  have hvη := phi_iter_valid hv hdim h0 (m + 1)
  have hη : (phi y)^[m + 1] δ0 = rho (tau y ((phi y)^[m] δ0)) := by
    rw [Function.iterate_succ_apply']
    exact phi_eq hv hdim hvm
  rw [List.nodup_cons] at hnd
  obtain ⟨hnot, _⟩ := hnd
  -- where is the mirror end of η?
  have hcases : (∃ p, p ≤ m ∧ ((phi y)^[m + 1] δ0).le = ((phi y)^[p] δ0).le) ∨
      ((phi y)^[m + 1] δ0).le ∈ M.map Dart.le := by
    rcases List.mem_cons.1 hmem with h | h
    · exact Or.inl ⟨m, Nat.le_refl _, h⟩
    · rcases List.mem_append.1 h with h | h
      · left
        obtain ⟨δ, hδ, hle⟩ := List.mem_map.1 h
        obtain ⟨p, hp, rfl⟩ := mem_dlist.1 (List.mem_reverse.1 hδ)
        exact ⟨p, by omega, hle.symm⟩
      · exact Or.inr h
  rcases hcases with ⟨p, hp, hle⟩ | hold
  · have hvp := phi_iter_valid hv hdim h0 p
    rcases same_le hvp hvη hle with heq | heq
    · -- the walk closed up; it can only be at the start
      by_cases hp0 : p = 0
      · rw [hp0] at heq; exact heq
      · exfalso
        obtain ⟨q, rfl⟩ : ∃ q, p = q + 1 := ⟨p - 1, by omega⟩
        rw [Function.iterate_succ_apply', Function.iterate_succ_apply'] at heq
        have heq' := phi_injective hv hdim heq
        apply hnot
        apply List.mem_append.2
        left
        apply List.mem_map.2
        exact ⟨(phi y)^[q] δ0, List.mem_reverse.2 (mem_dlist.2 ⟨q, by omega, rfl⟩), by rw [heq']⟩
    · -- reflected: impossible
      exfalso
      have e : m + 1 = (m + 1 - p) + p := by omega
      rw [e, Function.iterate_add_apply] at heq
      exact no_reflection hv hdim hvp _ heq
  · exfalso
    obtain ⟨δ', hδ', hle⟩ := List.mem_map.1 hold
    have hv' := hM.valid δ' hδ'
    have hmold : ((phi y)^[m] δ0).le ∉ M.map Dart.le := fun hh => hnot (List.mem_append.2 (Or.inr hh))
    rcases same_le hvη hv' hle with heq | heq
    · -- δ' = η: go one step back
      have := hM.bwd δ' hδ'
      rw [heq, hη, (rho_valid (tau_spec hv hdim hvm .partialSym).1).2.1, tau_invol hv hdim] at this
      exact hmold (List.mem_map.2 ⟨_, this, rfl⟩)
    · -- δ' = rho η = tau δm: go one step forward
      have := hM.fwd δ' hδ'
      rw [heq, hη, (rho_valid (tau_spec hv hdim hvm .partialSym).1).2.1] at this
      rw [phi_tau hv hdim hvm] at this
      exact hmold (List.mem_map.2 ⟨_, this, (rho_valid hvm).2.2.2⟩)

end

end DSymVerif.D2
