/-
Helper lemmas for property C04, part 1: the queue loop of `morphism`
(Model/Morphism.lean): soundness (`morphLoop_sound`), forced extension and absence of
`None` / panic when a morphism exists (`morphLoop_complete`).

Vocabulary
  `gv m d`          `m.getD d 0` — the image vector read as a total function, 0 = unassigned
  `OpPos b`         operations of `b` never return chamber 0
  `OpRange a`       operations of `a` return chambers in 1..size
  `Closed a b m d`  degrees of d and `gv m d` agree and every operation image of d is mapped
                    to the operation image of `gv m d`
  `Ext m m'`        `m'` has the size of `m` and keeps every assigned entry
-/
import DSymVerif.Model.Morphism

namespace DSymVerif.Mor

/-- the image vector as a total function (0 = unassigned / out of range) -/
def gv (m : Array Nat) (d : Nat) : Nat := m.getD d 0

def OpPos (b : MV) : Prop := ∀ i x y, b.op i x = some y → y ≠ 0

def OpRange (a : MV) : Prop := ∀ i x y, a.op i x = some y → 1 ≤ y ∧ y ≤ a.size

def Closed (a b : MV) (m : Array Nat) (d : Nat) : Prop :=
  degreesMatch2 a b d (gv m d) = true ∧
  ∀ i, i ≤ a.dim → ∀ di ei, a.op i d = some di → b.op i (gv m d) = some ei → gv m di = ei

def Ext (m m' : Array Nat) : Prop := m.size = m'.size ∧ ∀ x, gv m x ≠ 0 → gv m' x = gv m x

theorem Ext.refl (m : Array Nat) : Ext m m := ⟨rfl, fun _ _ => rfl⟩

theorem Ext.trans {m m' m'' : Array Nat} (h1 : Ext m m') (h2 : Ext m' m'') : Ext m m'' := by
  refine ⟨h1.1.trans h2.1, fun x hx => ?_⟩
  have := h1.2 x hx
  rw [← this] at hx
  rw [h2.2 x hx, this]

theorem gv_set (m : Array Nat) (i v : Nat) (h : i < m.size) (j : Nat) :
    gv (m.set i v h) j = if j = i then v else gv m j := by
  unfold gv
  by_cases hji : j = i
  · subst hji; simp [Array.getD, h]
  · simp only [hji, if_false]
    simp [Array.getD, Array.getElem_set, Ne.symm hji]

theorem gv_of_lt (m : Array Nat) (i : Nat) (h : i < m.size) : gv m i = m[i] := by
  simp [gv, Array.getD, h]

theorem gv_ne_zero_lt {m : Array Nat} {i : Nat} (h : gv m i ≠ 0) : i < m.size := by
  by_cases hi : i < m.size
  · exact hi
  · exfalso; apply h; simp [gv, Array.getD, hi]

theorem Ext.set_zero (m : Array Nat) (i v : Nat) (h : i < m.size) (hz : gv m i = 0) :
    Ext m (m.set i v h) := by
  refine ⟨by simp, fun x hx => ?_⟩
  rw [gv_set]
  have : x ≠ i := fun hxi => hx (hxi ▸ hz)
  simp [this]

/-- what one run of the inner `for i` loop guarantees -/
structure InnerPost (a b : MV) (d e : Nat) (is : List Nat) (q : Queue) (m : Array Nat)
    (q' : Queue) (m' : Array Nat) : Prop where
  ext : Ext m m'
  sub : ∀ p, p ∈ q → p ∈ q'
  new : ∀ p, p ∈ q' → p ∈ q ∨ (gv m p.1 = 0 ∧ gv m' p.1 = p.2 ∧ ∃ i x, b.op i x = some p.2)
  assigned : ∀ x, gv m' x ≠ 0 → gv m x ≠ 0 ∨ (x, gv m' x) ∈ q'
  done : ∀ i, i ∈ is → ∀ di ei, a.op i d = some di → b.op i e = some ei → gv m' di = ei

theorem morphInner_post (a b : MV) (hb : OpPos b) (d e : Nat) :
    ∀ (is : List Nat) (q : Queue) (m : Array Nat) (q' : Queue) (m' : Array Nat),
      morphInner a b d e is q m = .ok (q', m') → InnerPost a b d e is q m q' m' := by
  intro is
  induction is with
  | nil =>
    intro q m q' m' h
    simp only [morphInner, Outcome.ok.injEq, Prod.mk.injEq] at h
    obtain ⟨rfl, rfl⟩ := h
    exact ⟨Ext.refl _, fun _ h => h, fun _ h => Or.inl h, fun _ h => Or.inl h,
      fun i hi => by cases hi⟩
  | cons i is ih =>
    intro q m q' m' h
    unfold morphInner at h
    split at h
    · rename_i di ei hdi hei
      split at h
      · rename_i hlt
        split at h
        · rename_i hz
          -- newly assigned
          have hz' : gv m di = 0 := by rw [gv_of_lt m di hlt]; exact hz
          have p := ih _ _ _ _ h
          have e0 := Ext.set_zero m di ei hlt hz'
          have hei0 : ei ≠ 0 := hb _ _ _ hei
          have hset : gv (m.set di ei hlt) di = ei := by rw [gv_set]; simp
          refine ⟨e0.trans p.ext, fun x hx => p.sub x (by simp [hx]), ?_, ?_, ?_⟩
          · intro x hx
            rcases p.new x hx with hx | ⟨h0, h1, h2⟩
            · rcases List.mem_append.1 hx with hx | hx
              · exact Or.inl hx
              · simp only [List.mem_singleton] at hx
                subst hx
                refine Or.inr ⟨hz', ?_, ⟨i, e, hei⟩⟩
                have := p.ext.2 di (by rw [hset]; exact hei0)
                rw [this, hset]
            · refine Or.inr ⟨?_, h1, h2⟩
              rw [gv_set] at h0
              by_cases hx1 : x.1 = di
              · rw [hx1]; exact hz'
              · simpa [hx1] using h0
          · intro x hx
            rcases p.assigned x hx with h1 | h1
            · rw [gv_set] at h1
              by_cases hxd : x = di
              · subst hxd
                right
                have := p.ext.2 x (by rw [hset]; exact hei0)
                rw [this, hset]
                exact p.sub _ (by simp)
              · left; simpa [hxd] using h1
            · exact Or.inr h1
          · intro j hj dj ej hdj hej
            rcases List.mem_cons.1 hj with hj | hj
            · subst hj
              rw [hdi] at hdj; rw [hei] at hej
              cases hdj; cases hej
              have := p.ext.2 di (by rw [hset]; exact hei0)
              rw [this, hset]
            · exact p.done j hj dj ej hdj hej
        · split at h
          · cases h
          · rename_i hnz hne
            have heq : m[di] = ei := by
              by_cases hh : m[di] = ei
              · exact hh
              · exact absurd hh hne
            have p := ih _ _ _ _ h
            refine ⟨p.ext, p.sub, p.new, p.assigned, ?_⟩
            intro j hj dj ej hdj hej
            rcases List.mem_cons.1 hj with hj | hj
            · subst hj
              rw [hdi] at hdj; rw [hei] at hej
              cases hdj; cases hej
              have hg : gv m di = ei := by rw [gv_of_lt m di hlt]; exact heq
              have hei0 : ei ≠ 0 := hb _ _ _ hei
              rw [p.ext.2 di (by rw [hg]; exact hei0), hg]
            · exact p.done j hj dj ej hdj hej
      · cases h
    · rename_i hnone
      have p := ih _ _ _ _ h
      refine ⟨p.ext, p.sub, p.new, p.assigned, ?_⟩
      intro j hj dj ej hdj hej
      rcases List.mem_cons.1 hj with hj | hj
      · subst hj
        exact (hnone dj ej hdj hej).elim
      · exact p.done j hj dj ej hdj hej

/-- loop invariant of the queue loop -/
structure Inv (a b : MV) (q : Queue) (m : Array Nat) : Prop where
  queued : ∀ p, p ∈ q → p.2 ≠ 0 ∧ gv m p.1 = p.2
  closed : ∀ d, gv m d ≠ 0 → (d, gv m d) ∈ q ∨ Closed a b m d

theorem Closed.ext {a b : MV} (hb : OpPos b) {m m' : Array Nat} {d : Nat} (h : Closed a b m d)
    (hd : gv m d ≠ 0) (e : Ext m m') : Closed a b m' d := by
  have hdd : gv m' d = gv m d := e.2 d hd
  refine ⟨by rw [hdd]; exact h.1, fun i hi di ei hdi hei => ?_⟩
  rw [hdd] at hei
  have := h.2 i hi di ei hdi hei
  have hei0 : ei ≠ 0 := hb _ _ _ hei
  rw [e.2 di (by rw [this]; exact hei0), this]

theorem morphLoop_sound (a b : MV) (hb : OpPos b) :
    ∀ (fuel : Nat) (q : Queue) (m f : Array Nat), Inv a b q m →
      morphLoop a b fuel q m = .ok f → Ext m f ∧ ∀ d, gv f d ≠ 0 → Closed a b f d := by
  intro fuel
  induction fuel with
  | zero => intro q m f _ h; simp [morphLoop] at h
  | succ fuel ih =>
    intro q m f inv h
    cases q with
    | nil =>
      simp only [morphLoop, Outcome.ok.injEq] at h
      subst h
      refine ⟨Ext.refl _, fun d hd => ?_⟩
      rcases inv.closed d hd with h | h
      · cases h
      · exact h
    | cons p q0 =>
      obtain ⟨d, e⟩ := p
      simp only [morphLoop] at h
      split at h
      · rename_i hdeg
        split at h
        · rename_i q' m' hin
          have post := morphInner_post a b hb d e _ _ _ _ _ hin
          have hde := inv.queued (d, e) (by simp)
          simp only at hde
          have inv' : Inv a b q' m' := by
            refine ⟨?_, ?_⟩
            · intro p hp
              rcases post.new p hp with h1 | ⟨_, h1, ⟨i, x, h2⟩⟩
              · have := inv.queued p (by simp [h1])
                refine ⟨this.1, ?_⟩
                rw [post.ext.2 p.1 (by rw [this.2]; exact this.1), this.2]
              · exact ⟨hb _ _ _ h2, h1⟩
            · intro x hx
              rcases post.assigned x hx with h1 | h1
              · have hxx := post.ext.2 x h1
                rcases inv.closed x h1 with h2 | h2
                · rcases List.mem_cons.1 h2 with h3 | h3
                  · -- x is the pair just processed
                    simp only [Prod.mk.injEq] at h3
                    obtain ⟨rfl, h4⟩ := h3
                    right
                    refine ⟨by rw [hxx, h4]; exact hdeg, fun i hi di ei hdi hei => ?_⟩
                    rw [hxx, h4] at hei
                    exact post.done i (List.mem_range.2 (by omega)) di ei hdi hei
                  · left; rw [hxx]; exact post.sub _ h3
                · exact Or.inr (h2.ext hb h1 post.ext)
              · exact Or.inl h1
          have r := ih _ _ _ inv' h
          exact ⟨post.ext.trans r.1, r.2⟩
        · cases h
        · cases h
      · cases h

theorem gv_replicate_set (n e : Nat) (h : 1 < (Array.replicate (n + 1) 0).size) (d : Nat) :
    gv ((Array.replicate (n + 1) 0).set 1 e h) d = if d = 1 then e else 0 := by
  rw [gv_set]
  by_cases hd : d = 1
  · simp [hd]
  · simp only [hd, if_false]
    unfold gv
    by_cases hlt : d < n + 1
    · simp [Array.getD, hlt]
    · simp [Array.getD, hlt]

theorem inv_init (a b : MV) (n e : Nat) (he : e ≠ 0) (h : 1 < (Array.replicate (n + 1) 0).size) :
    Inv a b [(1, e)] ((Array.replicate (n + 1) 0).set 1 e h) := by
  refine ⟨?_, ?_⟩
  · intro p hp
    simp only [List.mem_singleton] at hp
    subst hp
    exact ⟨he, by rw [gv_replicate_set]; simp⟩
  · intro d hd
    rw [gv_replicate_set] at hd
    by_cases h1 : d = 1
    · subst h1; left; rw [gv_replicate_set]; simp
    · simp [h1] at hd

/-- soundness of the (repaired) morphism search, on every chamber it assigned -/
theorem morphism_sound' (a b : MV) (hb : OpPos b) (e : Nat) (he : e ≠ 0) (f : Array Nat)
    (h : morphism a b e = .ok f) :
    f.size = a.size + 1 ∧ gv f 1 = e ∧ ∀ d, gv f d ≠ 0 → Closed a b f d := by
  unfold morphism at h
  split at h
  · rename_i h1
    have r := morphLoop_sound a b hb _ _ _ _ (inv_init a b a.size e he h1) h
    refine ⟨?_, ?_, r.2⟩
    · rw [← r.1.1]; simp
    · have := r.1.2 1 (by rw [gv_replicate_set]; simpa using he)
      rw [this, gv_replicate_set]; simp
  · cases h

/-! ### the loop never panics on a D-set (index bounds, fuel) -/

theorem count_set_zero (m : Array Nat) (i v : Nat) (h : i < m.size) (hz : m[i] = 0) (hv : v ≠ 0) :
    (m.set i v h).count 0 + 1 = m.count 0 := by
  rw [Array.count_set h]
  have h1 := Array.boole_getElem_le_count (xs := m) (i := i) (a := 0) h
  simp only [hz, beq_self_eq_true, if_true] at h1 ⊢
  have : (v == 0) = false := by simpa using hv
  simp [this]
  omega

theorem morphInner_no_panic (a b : MV) (ha : OpRange a) (hb : OpPos b) (d e : Nat) :
    ∀ (is : List Nat) (q : Queue) (m : Array Nat), m.size = a.size + 1 →
      morphInner a b d e is q m ≠ .panic ∧
      ∀ q' m', morphInner a b d e is q m = .ok (q', m') →
        m'.size = a.size + 1 ∧ q'.length + m'.count 0 = q.length + m.count 0 := by
  intro is
  induction is with
  | nil =>
    intro q m hs
    refine ⟨by simp [morphInner], fun q' m' h => ?_⟩
    simp only [morphInner, Outcome.ok.injEq, Prod.mk.injEq] at h
    obtain ⟨rfl, rfl⟩ := h
    exact ⟨hs, rfl⟩
  | cons i is ih =>
    intro q m hs
    unfold morphInner
    split
    · rename_i di ei hdi hei
      have hr := ha _ _ _ hdi
      have hlt : di < m.size := by omega
      simp only [hlt, dite_true]
      split
      · rename_i hz
        have hei0 : ei ≠ 0 := hb _ _ _ hei
        have r := ih (q ++ [(di, ei)]) (m.set di ei hlt) (by simp [hs])
        refine ⟨r.1, fun q' m' h => ?_⟩
        have r2 := r.2 q' m' h
        refine ⟨r2.1, ?_⟩
        have hc := count_set_zero m di ei hlt hz hei0
        have r3 := r2.2
        simp only [List.length_append, List.length_singleton] at r3
        omega
      · split
        · exact ⟨by simp, fun q' m' h => by cases h⟩
        · exact ih q m hs
    · exact ih q m hs

theorem morphLoop_no_panic (a b : MV) (ha : OpRange a) (hb : OpPos b) :
    ∀ (fuel : Nat) (q : Queue) (m : Array Nat), m.size = a.size + 1 →
      q.length + m.count 0 + 1 ≤ fuel → morphLoop a b fuel q m ≠ .panic := by
  intro fuel
  induction fuel with
  | zero => intro q m _ h; omega
  | succ fuel ih =>
    intro q m hs hf
    cases q with
    | nil => simp [morphLoop]
    | cons p q0 =>
      obtain ⟨d, e⟩ := p
      simp only [morphLoop]
      have r := morphInner_no_panic a b ha hb d e (List.range (a.dim + 1)) q0 m hs
      split
      · split
        · rename_i q' m' heq
          have r2 := r.2 q' m' heq
          apply ih _ _ r2.1
          simp only [List.length_cons] at hf
          omega
        · simp
        · rename_i heq; exact (r.1 heq).elim
      · simp

theorem init_count (n e : Nat) (he : e ≠ 0) (h : 1 < (Array.replicate (n + 1) 0).size) :
    ((Array.replicate (n + 1) 0).set 1 e h).count 0 = n := by
  have := count_set_zero (Array.replicate (n + 1) 0) 1 e h (by simp) he
  simp only [Array.count_replicate_self] at this
  omega

theorem morphism_no_panic (a b : MV) (ha : OpRange a) (hb : OpPos b) (h1 : 1 ≤ a.size)
    (e : Nat) (he : e ≠ 0) : morphism a b e ≠ .panic := by
  unfold morphism
  have h1 : 1 < (Array.replicate (a.size + 1) 0).size := by simp; omega
  simp only [h1, dite_true]
  apply morphLoop_no_panic a b ha hb
  · simp
  · rw [init_count a.size e he h1]; simp; omega

/-! ### forced extension: a morphism with the requested base image is found -/

/-- `g` is a morphism from `a` to `b` (as a function on chambers 1..size) -/
structure IsMor (a b : MV) (g : Nat → Nat) : Prop where
  deg : ∀ d, 1 ≤ d → d ≤ a.size → degreesMatch2 a b d (g d) = true
  op : ∀ d, 1 ≤ d → d ≤ a.size → ∀ i, i ≤ a.dim → ∀ di ei,
    a.op i d = some di → b.op i (g d) = some ei → g di = ei

structure CInv (a : MV) (g : Nat → Nat) (q : Queue) (m : Array Nat) : Prop where
  agree : ∀ d, gv m d ≠ 0 → gv m d = g d
  queued : ∀ p, p ∈ q → 1 ≤ p.1 ∧ p.1 ≤ a.size ∧ p.2 = g p.1

theorem morphInner_agree (a b : MV) (ha : OpRange a) (g : Nat → Nat) (hg : IsMor a b g)
    (d : Nat) (hd1 : 1 ≤ d) (hd2 : d ≤ a.size) :
    ∀ (is : List Nat) (q : Queue) (m : Array Nat), (∀ i, i ∈ is → i ≤ a.dim) → CInv a g q m →
      morphInner a b d (g d) is q m ≠ .err ∧
      ∀ q' m', morphInner a b d (g d) is q m = .ok (q', m') → CInv a g q' m' := by
  intro is
  induction is with
  | nil =>
    intro q m _ inv
    refine ⟨by simp [morphInner], fun q' m' h => ?_⟩
    simp only [morphInner, Outcome.ok.injEq, Prod.mk.injEq] at h
    obtain ⟨rfl, rfl⟩ := h
    exact inv
  | cons i is ih =>
    intro q m his inv
    have his' : ∀ j, j ∈ is → j ≤ a.dim := fun j hj => his j (by simp [hj])
    unfold morphInner
    split
    · rename_i di ei hdi hei
      have hr := ha _ _ _ hdi
      have hgd : g di = ei := hg.op d hd1 hd2 i (his i (by simp)) di ei hdi hei
      split
      · rename_i hlt
        split
        · rename_i hz
          apply ih _ _ his'
          refine ⟨fun x hx => ?_, fun p hp => ?_⟩
          · rw [gv_set] at hx ⊢
            by_cases hxd : x = di
            · simp [hxd, hgd]
            · simp only [hxd, if_false] at hx ⊢; exact inv.agree x hx
          · rcases List.mem_append.1 hp with hp | hp
            · exact inv.queued p hp
            · simp only [List.mem_singleton] at hp
              subst hp
              exact ⟨hr.1, hr.2, hgd.symm⟩
        · rename_i hnz
          have : m[di] = ei := by
            have := inv.agree di (by rw [gv_of_lt m di hlt]; exact hnz)
            rw [gv_of_lt m di hlt] at this
            rw [this, hgd]
          simp only [this, ne_eq, not_true_eq_false, if_false]
          exact ih q m his' inv
      · exact ⟨by simp, fun q' m' h => by cases h⟩
    · exact ih q m his' inv

theorem morphLoop_agree (a b : MV) (ha : OpRange a) (g : Nat → Nat) (hg : IsMor a b g) :
    ∀ (fuel : Nat) (q : Queue) (m : Array Nat), CInv a g q m →
      morphLoop a b fuel q m ≠ .err ∧
      ∀ f, morphLoop a b fuel q m = .ok f → ∀ d, gv f d ≠ 0 → gv f d = g d := by
  intro fuel
  induction fuel with
  | zero => intro q m _; simp [morphLoop]
  | succ fuel ih =>
    intro q m inv
    cases q with
    | nil =>
      refine ⟨by simp [morphLoop], fun f h => ?_⟩
      simp only [morphLoop, Outcome.ok.injEq] at h
      subst h
      exact inv.agree
    | cons p q0 =>
      obtain ⟨d, e⟩ := p
      have hq := inv.queued (d, e) (by simp)
      simp only at hq
      obtain ⟨hd1, hd2, rfl⟩ := hq
      have inv0 : CInv a g q0 m := ⟨inv.agree, fun p hp => inv.queued p (by simp [hp])⟩
      have r := morphInner_agree a b ha g hg d hd1 hd2 (List.range (a.dim + 1)) q0 m
        (fun i hi => by have := List.mem_range.1 hi; omega) inv0
      simp only [morphLoop, hg.deg d hd1 hd2, if_true]
      split
      · rename_i q' m' heq
        exact ih q' m' (r.2 q' m' heq)
      · rename_i heq; exact (r.1 heq).elim
      · exact ⟨by simp, fun f h => by cases h⟩

/-- if a morphism `g` with `g 1 = e` exists, the search returns a vector that agrees with it
    on every assigned chamber -/
theorem morphism_complete' (a b : MV) (ha : OpRange a) (hb : OpPos b) (h1 : 1 ≤ a.size)
    (g : Nat → Nat) (hg : IsMor a b g) (hg0 : g 1 ≠ 0) :
    ∃ f, morphism a b (g 1) = .ok f ∧ ∀ d, gv f d ≠ 0 → gv f d = g d := by
  have np := morphism_no_panic a b ha hb h1 (g 1) hg0
  have hlt : 1 < (Array.replicate (a.size + 1) 0).size := by simp; omega
  have inv : CInv a g [(1, g 1)] ((Array.replicate (a.size + 1) 0).set 1 (g 1) hlt) := by
    refine ⟨fun d hd => ?_, fun p hp => ?_⟩
    · rw [gv_replicate_set] at hd ⊢
      by_cases hd1 : d = 1
      · simp [hd1]
      · simp [hd1] at hd
    · simp only [List.mem_singleton] at hp
      subst hp
      exact ⟨Nat.le_refl 1, h1, rfl⟩
  have r := morphLoop_agree a b ha g hg (a.size + 3) _ _ inv
  unfold morphism at np ⊢
  simp only [hlt, dite_true] at np ⊢
  generalize hres : morphLoop a b (a.size + 3) [(1, g 1)]
      ((Array.replicate (a.size + 1) 0).set 1 (g 1) hlt) = res at np r
  cases res with
  | ok f => exact ⟨f, rfl, r.2 f rfl⟩
  | err => exact (r.1 rfl).elim
  | panic => exact (np rfl).elim

end DSymVerif.Mor
