/-
Property C05, π1 of a cover, part 10: the covering-space correspondence component by component,
with the exact range — no connectedness hypothesis on the base.

`comp_group_iso`: let `c` be a monodromy cover of `ds` for a representation `ρ` of the textbook
group of `ds` on `n` sheets, `x0` a chamber of `c`.  The homomorphism `φ : TGroup c →* TGroup ds`
induced by the projection (in a gauge `q` along the spanning forest of `c`, `q = 1` at the root
`r0` of the tree of `x0`) maps the group of the component of `x0` in `c` INJECTIVELY ONTO

    compGroup ds (π x0)  ⊓  Stab_ρ(sheet of r0),

the stabiliser of the sheet of `r0` in the group of the component of `π x0` in `ds`:
the fundamental group of a component of the cover is the sheet stabiliser in the fundamental group
of the component of the base below it.  (For a connected base `compGroup ds _` is everything and
this is `cover_group_embeds`.)

Proof: the twisted action `thetaC` of `TGroup ds` on `sheets × TGroup c` (voltage graph) is defined
without any connectedness; the three places where the connected proof walks along a spanning tree
are done inside one tree of the spanning forest (`Proofs/CoversForest.lean`):
* `T(q x)(k0,1) = (sheet x, C·ℓ⁻¹)` for the chambers `x` of the component of `x0`;
* `A(k,b) = A(k,root)` for the chambers `b` of the component of `π x0`;
* the labels `T(g)(k,p).2 · p⁻¹` of the elements `g` of the component group of `ds` at the sheets
  `k` of the component stay in the component group of `c` (sheet gauge `ℓ = 1` at the root).
-/
import DSymVerif.Proofs.CoversPi1Comp

namespace DSymVerif.CoversP
open DSymVerif DSymVerif.DS DSymVerif.FG DSymVerif.FGP

section
variable {ds c : DSymData} {n : Nat} {ρ : TGroup ds →* Equiv.Perm (Fin n)} {σ : Nat → Nat → Nat → Nat}
  (M : MCover ds c n ρ σ)

include M in
/-- the projection maps a component of the cover into a component of the base -/
theorem MCover.reach_proj {x0 x : Nat} (h1 : 1 ≤ x0) (h2 : x0 ≤ c.size)
    (h : c.view.Reach c.view.indices x0 x) :
    (1 ≤ x ∧ x ≤ c.size) ∧
      ds.view.Reach ds.view.indices (cproj ds.size x0) (cproj ds.size x) := by
  induction h with
  | refl => exact ⟨⟨h1, h2⟩, View.Reach.refl _⟩
  | @step e c' i _ _ hop ih =>
    obtain ⟨he, hr⟩ := ih
    obtain ⟨hic, _, _, hc'⟩ := (opSimple_eq_some (s := c.dset)).1 hop
    subst hc'
    have his : i ≤ ds.dim := by rw [← M.cov.dim]; exact hic
    have hp := cproj_range (d := e) M.hsz
    refine ⟨M.hc.set.range i e hic he.1 he.2, ?_⟩
    rw [M.proj' hic he.1 he.2, opT_eq his hp.1 hp.2]
    exact View.Reach.step hr ((mem_indices ds.view i).2 his)
      (opSimple_eq_some.2 ⟨his, hp.1, hp.2, rfl⟩)

include M in
/-- a sheet gauge that is `1` at a given chamber of `ds` -/
theorem exists_sheetGauge_at (rB : Nat) :
    ∃ ℓ, SheetGauge ds c n ℓ ∧ ∀ k : Fin n, ℓ k rB = 1 := by
  have : ∀ k : Fin n, ∃ γ : Nat → TGroup c, γ rB = 1 ∧ ∀ d i, (d, i, none) ∈ spanningTree ds →
      γ (ds.dset.opU i d) = γ d * yc ds c k d i :=
    fun k => exists_gauge_at M.hs.set (fun d i => yc ds c k d i) rB
  choose ℓ h1 hℓ using this
  exact ⟨ℓ, fun k d i h => hℓ k d i h, h1⟩

end

/-- **the group of a component of a monodromy cover is the sheet stabiliser in the group of the
    component of the base below it** — no connectedness hypothesis.  For every chamber `x0` of `c`:
    `φ` (induced by the projection, gauge `q`, `q r0 = 1` at the root `r0` of the tree of `x0`) has
    trivial kernel on `compGroup c x0`, and an element `g` of `TGroup ds` is the image of an element
    of `compGroup c x0` iff it lies in `compGroup ds (π x0)` and fixes the sheet `k0` of `r0`. -/
theorem comp_group_iso {ds c : DSymData} {n : Nat} {ρ : TGroup ds →* Equiv.Perm (Fin n)}
    {σ : Nat → Nat → Nat → Nat} (M : MCover ds c n ρ σ) {x0 : Nat} (hx1 : 1 ≤ x0) (hx2 : x0 ≤ c.size) :
    ∃ (φ : TGroup c →* TGroup ds) (q : Nat → TGroup ds) (r0 : Nat) (k0 : Fin n),
      (∀ x i, FacetR c x i → φ (xT c x i) = q x * xT ds (cproj ds.size x) i * (q (c.dset.opU i x))⁻¹) ∧
      (1 ≤ r0 ∧ r0 ≤ c.size) ∧ c.view.Reach c.view.indices x0 r0 ∧ q r0 = 1 ∧
      k0.val = csheet ds.size r0 ∧
      (∀ y ∈ compGroup c x0, φ y = 1 → y = 1) ∧
      ∀ g, (∃ y ∈ compGroup c x0, φ y = g) ↔
        (g ∈ compGroup ds (cproj ds.size x0) ∧ ρ g k0 = k0) := by
  have hpc : c.view.PInvol := (C02.traversal_hyp c.dset).2.2 c M.hc.set
  have hpd : ds.view.PInvol := (C02.traversal_hyp ds.dset).2.2 ds M.hs.set
  have hn : 0 < n := M.cov.sheets
  -- the root of the tree of x0 in c
  obtain ⟨r0, _, hr0, htx0, hclosed⟩ := exists_root M.hc.set hx1 hx2
  have hx0r0 : c.view.Reach c.view.indices x0 r0 :=
    ((treeReach_reach M.hc.set hr0.1 hr0.2 htx0).2).symm hpc
  -- the root of the tree of π x0 in ds
  have hb0 := cproj_range (d := x0) M.hsz
  obtain ⟨rB, _, hrB, htB, hclosedB⟩ := exists_root M.hs.set hb0.1 hb0.2
  have hb0rB : ds.view.Reach ds.view.indices (cproj ds.size x0) rB :=
    ((treeReach_reach M.hs.set hrB.1 hrB.2 htB).2).symm hpd
  -- gauges
  obtain ⟨q, hq1, hq⟩ := exists_gauge_at M.hc.set (px ds) r0
  obtain ⟨ℓ, hℓ, hℓ1⟩ := exists_sheetGauge_at M rB
  have hitems : ∀ it ∈ spanningTree c, 1 ≤ it.1 ∧ it.1 ≤ c.size ∧ it.2.1 ≤ c.dim :=
    spanningTree_items M.hc.set
  have hitemsB : ∀ it ∈ spanningTree ds, 1 ≤ it.1 ∧ it.1 ≤ ds.size ∧ it.2.1 ≤ ds.dim :=
    spanningTree_items M.hs.set
  have hr02' : r0 ≤ n * ds.size := by rw [← M.cov.size]; exact hr0.2
  -- base sheet and constant
  let k0 : Fin n := ⟨csheet ds.size r0, csheet_lt M.hsz hr0.1 hr02'⟩
  let br := cproj ds.size r0
  have hbr := cproj_range (d := r0) M.hsz
  have hr0eq : r0 = ds.size * k0.val + br := (cdecomp M.hsz hr0.1).symm
  let C : TGroup c := ℓ k0 br
  have hD0 : DInv M hℓ (q := q) k0 C r0 := by
    refine ⟨k0, br, hr0eq, hbr.1, hbr.2, ?_⟩
    unfold dEl
    rw [hq1, map_one, inv_one, Equiv.Perm.one_apply]
    exact Prod.ext rfl (mul_inv_cancel _).symm
  have hDall : ∀ x, c.view.Reach c.view.indices x0 x → DInv M hℓ (q := q) k0 C x :=
    fun x hx => dInv_reach M hq hℓ hitems hD0 (hclosed x hx)
  have hDmk : ∀ (k : Fin n) b, 1 ≤ b → b ≤ ds.size →
      c.view.Reach c.view.indices x0 (ds.size * k.val + b) →
      dEl M hℓ (q := q) k0 (ds.size * k.val + b) = (k, C * (ℓ k b)⁻¹) := by
    intro k b hb1 hb2 hreach
    obtain ⟨k', b', heq, hb1', hb2', hD⟩ := hDall _ hreach
    have e1 : b = b' := by
      have := congrArg (cproj ds.size) heq
      rw [cproj_mk hb1 hb2, cproj_mk hb1' hb2'] at this
      exact this
    have e2 : k = k' := by
      have := congrArg (csheet ds.size) heq
      rw [csheet_mk hb1 hb2, csheet_mk hb1' hb2'] at this
      exact Fin.ext this
    subst e1 e2
    exact hD
  let φ := phiC M hq
  -- Part 1: every element of the component group acts on (k0, p) by right multiplication
  let S : Subgroup (TGroup c) :=
    { carrier := {y | ∀ p, (thetaC M ℓ hℓ (φ y))⁻¹ (k0, p) = (k0, p * (C * y * C⁻¹))}
      one_mem' := by intro p; simp
      mul_mem' := by
        intro a b ha hb p
        have hΘ : (thetaC M ℓ hℓ (φ (a * b)))⁻¹ (k0, p) =
            (thetaC M ℓ hℓ (φ b))⁻¹ ((thetaC M ℓ hℓ (φ a))⁻¹ (k0, p)) := by
          rw [map_mul, map_mul, mul_inv_rev, Equiv.Perm.mul_apply]
        rw [hΘ, ha p, hb]
        congr 1
        group
      inv_mem' := by
        intro a ha p
        have hΘ : (thetaC M ℓ hℓ (φ a⁻¹))⁻¹ (k0, p) = thetaC M ℓ hℓ (φ a) (k0, p) := by
          rw [map_inv, map_inv, inv_inv]
        rw [hΘ]
        have := ha (p * (C * a⁻¹ * C⁻¹))
        have e : p * (C * a⁻¹ * C⁻¹) * (C * a * C⁻¹) = p := by group
        rw [e] at this
        rw [← this]
        simp }
  have hgenS : compGens c x0 ⊆ S := by
    rintro y ⟨x, i, hfc, hreach, rfl⟩
    intro p
    have hx2' : x ≤ n * ds.size := by rw [← M.cov.size]; exact hfc.2.1
    have hic : i ≤ ds.dim := by rw [← M.cov.dim]; exact hfc.2.2
    let k : Fin n := ⟨csheet ds.size x, csheet_lt M.hsz hfc.1 hx2'⟩
    have hb := cproj_range (d := x) M.hsz
    have hxeq : x = ds.size * k.val + cproj ds.size x := (cdecomp M.hsz hfc.1).symm
    have hfs : FacetR ds (cproj ds.size x) i := ⟨hb.1, hb.2, hic⟩
    have hb' := M.hs.set.range _ _ hic hb.1 hb.2
    have hφ : φ (xT c x i) = q x * xT ds (cproj ds.size x) i * (q (c.dset.opU i x))⁻¹ :=
      phiC_xT M hq hfc
    rw [hφ]
    have hΘ : (thetaC M ℓ hℓ (q x * xT ds (cproj ds.size x) i * (q (c.dset.opU i x))⁻¹))⁻¹ (k0, p) =
        thetaC M ℓ hℓ (q (c.dset.opU i x))
          ((thetaC M ℓ hℓ (xT ds (cproj ds.size x) i))⁻¹ ((thetaC M ℓ hℓ (q x))⁻¹ (k0, p))) := by
      rw [map_mul, map_mul, map_inv, mul_inv_rev, mul_inv_rev, inv_inv, Equiv.Perm.mul_apply,
        Equiv.Perm.mul_apply]
    rw [hΘ, thetaC_xT M ℓ hℓ hfs, inv_inv]
    have hopx : c.dset.opU i x =
        ds.size * (tau ρ (cproj ds.size x) i k).val + ds.dset.opU i (cproj ds.size x) := by
      have := M.op_mk hic hb.1 hb.2 k
      rw [← hxeq] at this
      exact this
    have hreach' : c.view.Reach c.view.indices x0 (c.dset.opU i x) :=
      View.Reach.step hreach ((mem_indices c.view i).2 hfc.2.2)
        (opSimple_eq_some.2 ⟨hfc.2.2, hfc.1, hfc.2.1, rfl⟩)
    have hstep1 : (thetaC M ℓ hℓ (q x))⁻¹ (k0, p) = (k, p * C * (ℓ k (cproj ds.size x))⁻¹) := by
      have := dEl_equivariant M hℓ (hDmk k _ hb.1 hb.2 (by rw [← hxeq]; exact hreach)) p
      rw [← hxeq] at this
      exact this
    rw [hstep1, permX_apply M ℓ hfs]
    have hstep3 := dEl_equivariant M hℓ
      (hDmk (tau ρ (cproj ds.size x) i k) _ hb'.1 hb'.2 (by rw [← hopx]; exact hreach'))
      (p * (C * xT c x i * C⁻¹))
    rw [← hopx] at hstep3
    have hgoal : stepX ρ ℓ (cproj ds.size x) i (k, p * C * (ℓ k (cproj ds.size x))⁻¹) =
        (tau ρ (cproj ds.size x) i k,
          p * (C * xT c x i * C⁻¹) * C *
            (ℓ (tau ρ (cproj ds.size x) i k) (ds.dset.opU i (cproj ds.size x)))⁻¹) := by
      unfold stepX lam yc
      simp only
      rw [← hxeq, opT_eq hic hb.1 hb.2]
      apply Prod.ext
      · rfl
      · simp only
        group
    rw [hgoal, ← hstep3]
    simp
  have hact : ∀ y ∈ compGroup c x0, ∀ p,
      (thetaC M ℓ hℓ (φ y))⁻¹ (k0, p) = (k0, p * (C * y * C⁻¹)) :=
    fun y hy => (Subgroup.closure_le S).2 hgenS hy
  have hker : ∀ y ∈ compGroup c x0, φ y = 1 → y = 1 := by
    intro y hy h1
    have := hact y hy 1
    rw [h1, map_one, inv_one, Equiv.Perm.one_apply, one_mul] at this
    have h2 := congrArg Prod.snd this
    simp only at h2
    have h3 : C * y * C⁻¹ = 1 := h2.symm
    have : y = C⁻¹ * (C * y * C⁻¹) * C := by group
    rw [this, h3]
    group
  have hfix : ∀ y ∈ compGroup c x0, ρ (φ y) k0 = k0 := by
    intro y hy
    have h1 := ((tinv_twisted M hℓ (φ y)) k0 1 1).1
    rw [hact y hy 1] at h1
    have : (ρ (φ y))⁻¹ k0 = k0 := h1.symm
    rw [Equiv.Perm.inv_eq_iff_eq] at this
    exact this.symm
  -- Part 2: the component of the base
  let TB : Subgroup (TGroup ds) := compGroup ds (cproj ds.size x0)
  -- q takes its values in TB on the component of x0
  have hqmem : ∀ x, TreeReach c (spanningTree c) r0 x → q x ∈ TB := by
    intro x ht
    induction ht with
    | root => rw [hq1]; exact TB.one_mem
    | @step d i htd hmem ih =>
      rw [hq d i hmem]
      refine TB.mul_mem ih (Subgroup.subset_closure ?_)
      have hd := treeReach_reach M.hc.set hr0.1 hr0.2 htd
      have hrd : c.view.Reach c.view.indices x0 d := hx0r0.trans hd.2
      have hpr := (M.reach_proj hx1 hx2 hrd).2
      have hp := cproj_range (d := d) M.hsz
      have hi : i ≤ ds.dim := by rw [← M.cov.dim]; exact (hitems _ hmem).2.2
      exact ⟨cproj ds.size d, i, ⟨hp.1, hp.2, hi⟩, hpr, rfl⟩
  -- the image of the component group lies in TB
  have himTB : ∀ y ∈ compGroup c x0, φ y ∈ TB := by
    have hsub : compGens c x0 ⊆ TB.comap φ := by
      rintro y ⟨x, i, hfc, hreach, rfl⟩
      show φ (xT c x i) ∈ TB
      rw [phiC_xT M hq hfc]
      have hreach' : c.view.Reach c.view.indices x0 (c.dset.opU i x) :=
        View.Reach.step hreach ((mem_indices c.view i).2 hfc.2.2)
          (opSimple_eq_some.2 ⟨hfc.2.2, hfc.1, hfc.2.1, rfl⟩)
      have hp := cproj_range (d := x) M.hsz
      have hi : i ≤ ds.dim := by rw [← M.cov.dim]; exact hfc.2.2
      refine TB.mul_mem (TB.mul_mem (hqmem x (hclosed x hreach)) (Subgroup.subset_closure ?_))
        (TB.inv_mem (hqmem _ (hclosed _ hreach')))
      exact ⟨cproj ds.size x, i, ⟨hp.1, hp.2, hi⟩, (M.reach_proj hx1 hx2 hreach).2, rfl⟩
    exact fun y hy => (Subgroup.closure_le (TB.comap φ)).2 hsub hy
  -- sheets of the component
  let K : Fin n → Prop := fun k => c.view.Reach c.view.indices x0 (ds.size * k.val + rB)
  have hsheet : ∀ (k : Fin n) b, ds.view.Reach ds.view.indices (cproj ds.size x0) b →
      (1 ≤ b ∧ b ≤ ds.size) ∧
      c.view.Reach c.view.indices (ds.size * k.val + rB) (ds.size * k.val + b) := by
    intro k b hb
    exact reach_tree M.hσ M.hs.set M.cov.size M.cov.dim M.hop hitemsB hrB.1 hrB.2 (hclosedB b hb) k
  have hKb : ∀ k, K k → ∀ b, ds.view.Reach ds.view.indices (cproj ds.size x0) b →
      c.view.Reach c.view.indices x0 (ds.size * k.val + b) :=
    fun k hk b hb => hk.trans (hsheet k b hb).2
  have hK0 : K k0 := by
    have hpr := (M.reach_proj hx1 hx2 hx0r0).2
    have h := (hsheet k0 br hpr).2
    show c.view.Reach c.view.indices x0 (ds.size * k0.val + rB)
    have h' : c.view.Reach c.view.indices (ds.size * k0.val + rB) r0 := by
      rw [hr0eq]; exact h
    exact hx0r0.trans (h'.symm hpc)
  have hKtau : ∀ (k : Fin n) b i, FacetR ds b i →
      ds.view.Reach ds.view.indices (cproj ds.size x0) b → (K k ↔ K (tau ρ b i k)) := by
    intro k b i hf hb
    have hb' : ds.view.Reach ds.view.indices (cproj ds.size x0) (ds.dset.opU i b) :=
      View.Reach.step hb ((mem_indices ds.view i).2 hf.2.2)
        (opSimple_eq_some.2 ⟨hf.2.2, hf.1, hf.2.1, rfl⟩)
    have cross := reach_cross M.hσ M.cov.size M.cov.dim M.hop hf.2.2 hf.1 hf.2.1 k
    constructor
    · intro hk
      exact ((hk.trans (hsheet k b hb).2).trans cross).trans
        ((hsheet (tau ρ b i k) _ hb').2.symm hpc)
    · intro hk
      exact ((hk.trans (hsheet (tau ρ b i k) _ hb').2).trans (cross.symm hpc)).trans
        ((hsheet k b hb).2.symm hpc)
  -- the sheet gauge takes its values in the component group on the sheets of the component
  have hℓmem : ∀ k, K k → ∀ b, TreeReach ds (spanningTree ds) rB b → ℓ k b ∈ compGroup c x0 := by
    intro k hk b ht
    induction ht with
    | root => rw [hℓ1 k]; exact (compGroup c x0).one_mem
    | @step d i htd hmem ih =>
      rw [hℓ k d i hmem]
      refine (compGroup c x0).mul_mem ih (Subgroup.subset_closure ?_)
      have hd := treeReach_reach M.hs.set hrB.1 hrB.2 htd
      have hi : i ≤ ds.dim := (hitemsB _ hmem).2.2
      have hrng := cmk_range (sz := ds.size) (n := n) k.isLt hd.1.1 hd.1.2
      refine ⟨ds.size * k.val + d, i, ⟨hrng.1, by rw [M.cov.size]; exact hrng.2,
        by rw [M.cov.dim]; exact hi⟩, hKb k hk d (hb0rB.trans hd.2), rfl⟩
  have hlam : ∀ (k : Fin n) b i, K k → FacetR ds b i →
      ds.view.Reach ds.view.indices (cproj ds.size x0) b → lam ρ ℓ k b i ∈ compGroup c x0 := by
    intro k b i hk hf hb
    have hb' : ds.view.Reach ds.view.indices (cproj ds.size x0) (ds.dset.opU i b) :=
      View.Reach.step hb ((mem_indices ds.view i).2 hf.2.2)
        (opSimple_eq_some.2 ⟨hf.2.2, hf.1, hf.2.1, rfl⟩)
    have hrng := cmk_range (sz := ds.size) (n := n) k.isLt hf.1 hf.2.1
    unfold lam
    rw [opT_eq hf.2.2 hf.1 hf.2.1]
    refine (compGroup c x0).mul_mem ((compGroup c x0).mul_mem (hℓmem k hk b (hclosedB b hb))
      (Subgroup.subset_closure ?_))
      ((compGroup c x0).inv_mem (hℓmem _ ((hKtau k b i hf hb).1 hk) _ (hclosedB _ hb')))
    exact ⟨ds.size * k.val + b, i, ⟨hrng.1, by rw [M.cov.size]; exact hrng.2,
      by rw [M.cov.dim]; exact hf.2.2⟩, hKb k hk b hb, rfl⟩
  -- the labels of the elements of TB stay in the component group
  let Q : Subgroup (TGroup ds) :=
    { carrier := {g | ∀ (k : Fin n) (p : TGroup c),
        (K k ↔ K ((thetaC M ℓ hℓ g)⁻¹ (k, p)).1) ∧
        (K k → p⁻¹ * ((thetaC M ℓ hℓ g)⁻¹ (k, p)).2 ∈ compGroup c x0)}
      one_mem' := by
        intro k p
        rw [map_one, inv_one, Equiv.Perm.one_apply]
        exact ⟨Iff.rfl, fun _ => by simp [(compGroup c x0).one_mem]⟩
      mul_mem' := by
        intro a b ha hb k p
        have hΘ : (thetaC M ℓ hℓ (a * b))⁻¹ (k, p) =
            (thetaC M ℓ hℓ b)⁻¹ ((thetaC M ℓ hℓ a)⁻¹ (k, p)) := by
          rw [map_mul, mul_inv_rev, Equiv.Perm.mul_apply]
        rw [hΘ]
        have hx : (thetaC M ℓ hℓ a)⁻¹ (k, p) =
            (((thetaC M ℓ hℓ a)⁻¹ (k, p)).1, ((thetaC M ℓ hℓ a)⁻¹ (k, p)).2) := rfl
        obtain ⟨a1, a2⟩ := ha k p
        obtain ⟨b1, b2⟩ := hb ((thetaC M ℓ hℓ a)⁻¹ (k, p)).1 ((thetaC M ℓ hℓ a)⁻¹ (k, p)).2
        rw [← hx] at b1 b2
        refine ⟨a1.trans b1, fun hk => ?_⟩
        have e : p⁻¹ * ((thetaC M ℓ hℓ b)⁻¹ ((thetaC M ℓ hℓ a)⁻¹ (k, p))).2 =
            (p⁻¹ * ((thetaC M ℓ hℓ a)⁻¹ (k, p)).2) *
              (((thetaC M ℓ hℓ a)⁻¹ (k, p)).2⁻¹ *
                ((thetaC M ℓ hℓ b)⁻¹ ((thetaC M ℓ hℓ a)⁻¹ (k, p))).2) := by group
        rw [e]
        exact (compGroup c x0).mul_mem (a2 hk) (b2 (a1.1 hk))
      inv_mem' := by
        intro a ha k p
        have hΘ : (thetaC M ℓ hℓ a⁻¹)⁻¹ (k, p) = thetaC M ℓ hℓ a (k, p) := by rw [map_inv, inv_inv]
        rw [hΘ]
        have hx : thetaC M ℓ hℓ a (k, p) =
            ((thetaC M ℓ hℓ a (k, p)).1, (thetaC M ℓ hℓ a (k, p)).2) := rfl
        obtain ⟨a1, a2⟩ := ha (thetaC M ℓ hℓ a (k, p)).1 (thetaC M ℓ hℓ a (k, p)).2
        rw [← hx] at a1 a2
        have hback : (thetaC M ℓ hℓ a)⁻¹ (thetaC M ℓ hℓ a (k, p)) = (k, p) := by simp
        rw [hback] at a1 a2
        refine ⟨a1.symm, fun hk => ?_⟩
        have := (compGroup c x0).inv_mem (a2 (a1.2 hk))
        have e : ((thetaC M ℓ hℓ a (k, p)).2⁻¹ * p)⁻¹ = p⁻¹ * (thetaC M ℓ hℓ a (k, p)).2 := by group
        rw [e] at this
        exact this }
  have hgenQ : compGens ds (cproj ds.size x0) ⊆ Q := by
    rintro g ⟨b, i, hf, hb, rfl⟩
    intro k p
    rw [thetaC_xT M ℓ hℓ hf, inv_inv, permX_apply M ℓ hf]
    unfold stepX
    simp only
    refine ⟨hKtau k b i hf hb, fun hk => ?_⟩
    have e : p⁻¹ * (p * lam ρ ℓ k b i) = lam ρ ℓ k b i := by group
    rw [e]
    exact hlam k b i hk hf hb
  have hQ : ∀ g ∈ TB, ∀ (k : Fin n) (p : TGroup c),
      (K k ↔ K ((thetaC M ℓ hℓ g)⁻¹ (k, p)).1) ∧
      (K k → p⁻¹ * ((thetaC M ℓ hℓ g)⁻¹ (k, p)).2 ∈ compGroup c x0) :=
    fun g hg => (Subgroup.closure_le Q).2 hgenQ hg
  -- A(k,b) does not depend on b inside the component
  have hroot : ∀ b, ds.view.Reach ds.view.indices (cproj ds.size x0) b → ∀ k : Fin n,
      aEl M hq (ℓ := ℓ) k b = aEl M hq (ℓ := ℓ) k rB :=
    fun b hb k => (aEl_reach M hq hℓ hitemsB hrB.1 hrB.2 (hclosedB b hb) k).2
  -- the relation between the twisted action and φ, for the elements of TB
  let R : Subgroup (TGroup ds) :=
    { carrier := {g | RelR M hq hℓ (root := rB) g}
      one_mem' := by
        intro k p
        simp
      mul_mem' := by
        intro a b ha hb k p
        have hΘ : (thetaC M ℓ hℓ (a * b))⁻¹ (k, p) =
            (thetaC M ℓ hℓ b)⁻¹ ((thetaC M ℓ hℓ a)⁻¹ (k, p)) := by
          rw [map_mul, mul_inv_rev, Equiv.Perm.mul_apply]
        have hρ : (ρ (a * b))⁻¹ k = (ρ b)⁻¹ ((ρ a)⁻¹ k) := by
          rw [map_mul, mul_inv_rev, Equiv.Perm.mul_apply]
        rw [hΘ, hρ]
        have hx : (thetaC M ℓ hℓ a)⁻¹ (k, p) =
            (((thetaC M ℓ hℓ a)⁻¹ (k, p)).1, ((thetaC M ℓ hℓ a)⁻¹ (k, p)).2) := rfl
        have h1 := ((tinv_twisted M hℓ a) k p 1).1
        have e1 := ha k p
        have e2 := hb ((thetaC M ℓ hℓ a)⁻¹ (k, p)).1 ((thetaC M ℓ hℓ a)⁻¹ (k, p)).2
        rw [← hx] at e2
        rw [h1] at e2
        have : p⁻¹ * ((thetaC M ℓ hℓ b)⁻¹ ((thetaC M ℓ hℓ a)⁻¹ (k, p))).2 =
            (p⁻¹ * ((thetaC M ℓ hℓ a)⁻¹ (k, p)).2) *
              (((thetaC M ℓ hℓ a)⁻¹ (k, p)).2⁻¹ * ((thetaC M ℓ hℓ b)⁻¹ ((thetaC M ℓ hℓ a)⁻¹ (k, p))).2) := by
          group
        rw [this, map_mul, e1, e2]
        group
      inv_mem' := by
        intro a ha k p
        have hΘ : (thetaC M ℓ hℓ a⁻¹)⁻¹ (k, p) = thetaC M ℓ hℓ a (k, p) := by rw [map_inv, inv_inv]
        have hρ : (ρ a⁻¹)⁻¹ k = ρ a k := by rw [map_inv, inv_inv]
        rw [hΘ, hρ]
        have hx : thetaC M ℓ hℓ a (k, p) = ((thetaC M ℓ hℓ a (k, p)).1, (thetaC M ℓ hℓ a (k, p)).2) := rfl
        have e := ha (thetaC M ℓ hℓ a (k, p)).1 (thetaC M ℓ hℓ a (k, p)).2
        rw [← hx] at e
        have hback : (thetaC M ℓ hℓ a)⁻¹ (thetaC M ℓ hℓ a (k, p)) = (k, p) := by simp
        rw [hback] at e
        have h1 := ((thetaC_twisted M ℓ hℓ a) k p 1).1
        rw [h1] at e
        have hk : (ρ a)⁻¹ (ρ a k) = k := by simp
        rw [hk] at e
        have e' : phiC M hq ((thetaC M ℓ hℓ a (k, p)).2⁻¹ * p) =
            aEl M hq (ℓ := ℓ) (ρ a k) rB * a * (aEl M hq (ℓ := ℓ) k rB)⁻¹ := e
        have : p⁻¹ * (thetaC M ℓ hℓ a (k, p)).2 = ((thetaC M ℓ hℓ a (k, p)).2⁻¹ * p)⁻¹ := by group
        rw [this, map_inv, e']
        group }
  have hgenR : compGens ds (cproj ds.size x0) ⊆ R := by
    rintro g ⟨b, i, hf, hb, rfl⟩
    intro k p
    have hb' : ds.view.Reach ds.view.indices (cproj ds.size x0) (ds.dset.opU i b) :=
      View.Reach.step hb ((mem_indices ds.view i).2 hf.2.2)
        (opSimple_eq_some.2 ⟨hf.2.2, hf.1, hf.2.1, rfl⟩)
    rw [thetaC_xT M ℓ hℓ hf, inv_inv, permX_apply M ℓ hf]
    unfold stepX
    simp only
    have : p⁻¹ * (p * lam ρ ℓ k b i) = lam ρ ℓ k b i := by group
    rw [this, phiC_lam M hq hf k, hroot _ hb k, hroot _ hb']
    rfl
  have hR : ∀ g ∈ TB, RelR M hq hℓ (root := rB) g :=
    fun g hg => (Subgroup.closure_le R).2 hgenR hg
  -- A := A(k0, rB) = q(k0, rB) lies in TB and fixes k0
  have hxB : c.view.Reach c.view.indices x0 (ds.size * k0.val + rB) := hK0
  have hAeq : aEl M hq (ℓ := ℓ) k0 rB = q (ds.size * k0.val + rB) := by
    unfold aEl
    rw [hℓ1 k0, map_one, one_mul]
  have hAmem : aEl M hq (ℓ := ℓ) k0 rB ∈ TB := by
    rw [hAeq]; exact hqmem _ (hclosed _ hxB)
  have hAinv : (ρ (aEl M hq (ℓ := ℓ) k0 rB))⁻¹ k0 = k0 := by
    rw [hAeq]
    have h1 := ((tinv_twisted M hℓ (q (ds.size * k0.val + rB))) k0 1 1).1
    have hD := hDmk k0 rB hrB.1 hrB.2 hxB
    unfold dEl at hD
    rw [hD] at h1
    exact h1.symm
  have hAfix : ρ (aEl M hq (ℓ := ℓ) k0 rB) k0 = k0 := by
    have := hAinv
    rw [Equiv.Perm.inv_eq_iff_eq] at this
    exact this.symm
  refine ⟨φ, q, r0, k0, fun x i h => phiC_xT M hq h, hr0, hx0r0, hq1, rfl, hker, ?_⟩
  intro g
  constructor
  · rintro ⟨y, hy, rfl⟩
    exact ⟨himTB y hy, hfix y hy⟩
  · rintro ⟨hgTB, hg⟩
    let A := aEl M hq (ℓ := ℓ) k0 rB
    have hg'mem : A⁻¹ * g * A ∈ TB := TB.mul_mem (TB.mul_mem (TB.inv_mem hAmem) hgTB) hAmem
    have hg' : (ρ (A⁻¹ * g * A))⁻¹ k0 = k0 := by
      rw [Equiv.Perm.inv_eq_iff_eq, map_mul, map_mul, map_inv, Equiv.Perm.mul_apply, Equiv.Perm.mul_apply,
        hAfix, hg, hAinv]
    have hRg := hR _ hg'mem k0 1
    rw [hg'] at hRg
    refine ⟨(1 : TGroup c)⁻¹ * ((thetaC M ℓ hℓ (A⁻¹ * g * A))⁻¹ (k0, 1)).2,
      (hQ _ hg'mem k0 1).2 hK0, ?_⟩
    show phiC M hq _ = g
    rw [hRg]
    show A * (A⁻¹ * g * A) * A⁻¹ = g
    group

end DSymVerif.CoversP
