/-
Helper lemmas for property C04, part 11: the quotient symbol.  Given a valid symbol `ds`, a
degree-respecting congruence `P` and a numbering `π` (chamber ↦ class number), `ρ` (class number
↦ a member) of its classes, `build_set` + `build_sym_using_ms` applied to the closures of
`minimal_image` return a valid symbol `c` with one chamber per class such that `π` commutes with
every operation and preserves every degree (the orbit length of the quotient divides the orbit
length of the source, which divides the degree, so `m / r` is exact).
-/
import DSymVerif.Proofs.MorphismQuot1

namespace DSymVerif.Mor
open DSymVerif.DS

/-- a numbering of the classes of `P` on 1..n by 1..K -/
structure Numbering (n : Nat) (P π ρ : Nat → Nat) (K : Nat) : Prop where
  range : ∀ d, 1 ≤ d → d ≤ n → 1 ≤ π d ∧ π d ≤ K
  iff : ∀ d d', 1 ≤ d → d ≤ n → 1 ≤ d' → d' ≤ n → (π d = π d' ↔ P d = P d')
  rep : ∀ k, 1 ≤ k → k ≤ K → (1 ≤ ρ k ∧ ρ k ≤ n) ∧ π (ρ k) = k
  one : π 1 = 1

theorem NInv.numbering {n : Nat} {p : Part} {st : NumState} (h : NInv n p n st) (hn : 1 ≤ n) :
    Numbering n p.find (fun d => st.src2img.getD d 0) (fun k => st.img2src.getD k 0) (st.next - 1) ∧
      2 ≤ st.next := by
  have h1 := h.cls 1 (h.done 1 (Nat.le_refl 1) hn)
  refine ⟨⟨fun d hd1 hd2 => ?_, fun d d' hd1 hd2 hd1' hd2' => ⟨fun heq => ?_, fun heq => ?_⟩,
    fun k hk1 hk2 => ?_, h.first hn⟩, by omega⟩
  · have c := h.cls d (h.done d hd1 hd2)
    show 1 ≤ st.src2img.getD d 0 ∧ st.src2img.getD d 0 ≤ st.next - 1
    omega
  · exact h.inj d d' (h.done d hd1 hd2) (h.done d' hd1' hd2') heq
  · show st.src2img.getD d 0 = st.src2img.getD d' 0
    rw [← (h.cls d (h.done d hd1 hd2)).1, ← (h.cls d' (h.done d' hd1' hd2')).1, heq]
  · have r := h.rep k hk1 (by omega)
    exact ⟨r.1, r.2.2⟩

section quotient
variable {ds : DSymData} (hs : ValidSym ds) {P π ρ : Nat → Nat} {K : Nat}
  (hcg : Cong (ofSym ds) P) (hN : Numbering ds.size P π ρ K)
include hs hcg hN

theorem cong_op {i x y : Nat} (hi : i ≤ ds.dim) (hx1 : 1 ≤ x) (hx2 : x ≤ ds.size) (hy1 : 1 ≤ y)
    (hy2 : y ≤ ds.size) (h : P x = P y) : P (ds.dset.opU i x) = P (ds.dset.opU i y) :=
  hcg.closed x y hx1 hx2 hy1 hy2 h i hi _ _
    (opSimple_of_range (t := ds.dset) hi hx1 hx2) (opSimple_of_range (t := ds.dset) hi hy1 hy2)

theorem cong_mVal {i x y : Nat} (hi : i < ds.dim) (hx1 : 1 ≤ x) (hx2 : x ≤ ds.size) (hy1 : 1 ≤ y)
    (hy2 : y ≤ ds.size) (h : P x = P y) : ds.mVal i x = ds.mVal i y := by
  have := (degreesMatch_iff (ofSym ds) x y).1 (hcg.deg x y h) i hi
  have e1 : (ofSym ds).m i x = some (ds.mVal i x) := hs.toValidTables.mAdj_eq hi hx1 hx2
  have e2 : (ofSym ds).m i y = some (ds.mVal i y) := hs.toValidTables.mAdj_eq hi hy1 hy2
  rw [e1, e2] at this
  exact Option.some.inj this

/-- the class number of an operation image depends only on the class -/
theorem num_op {i x y : Nat} (hi : i ≤ ds.dim) (hx1 : 1 ≤ x) (hx2 : x ≤ ds.size) (hy1 : 1 ≤ y)
    (hy2 : y ≤ ds.size) (h : π x = π y) : π (ds.dset.opU i x) = π (ds.dset.opU i y) := by
  have hP := (hN.iff x y hx1 hx2 hy1 hy2).1 h
  have rx := hs.set.range i x hi hx1 hx2
  have ry := hs.set.range i y hi hy1 hy2
  exact (hN.iff _ _ rx.1 rx.2 ry.1 ry.2).2 (cong_op hs hcg hN hi hx1 hx2 hy1 hy2 hP)

theorem rep_num {x : Nat} (hx1 : 1 ≤ x) (hx2 : x ≤ ds.size) :
    (1 ≤ ρ (π x) ∧ ρ (π x) ≤ ds.size) ∧ π (ρ (π x)) = π x := by
  have r := hN.range x hx1 hx2
  exact hN.rep (π x) r.1 r.2

/-- **the quotient symbol** -/
theorem quotient_ok (hK : 1 ≤ K) (hdim : 1 ≤ ds.dim)
    {opq : Nat → Nat → Option Nat} {mq : Nat → Nat → Option Nat}
    (hop : ∀ i k, i ≤ ds.dim → 1 ≤ k → k ≤ K → opq i k = some (π (ds.dset.opU i (ρ k))))
    (hm : ∀ i k, i < ds.dim → 1 ≤ k → k ≤ K → mq i k = some (ds.mVal i (ρ k))) :
    ∃ qs c, buildSet K ds.dim opq = .ok qs ∧ buildSymUsingMs qs mq = .ok c ∧ ValidSym c ∧
      c.size = K ∧ c.dim = ds.dim ∧ SemiConj ds.dset c.dset π ∧
      ∀ i d, i < ds.dim → 1 ≤ d → d ≤ ds.size → c.mVal i (π d) = ds.mVal i d := by
  -- the D-set
  have frange : ∀ i k, i ≤ ds.dim → 1 ≤ k → k ≤ K →
      1 ≤ π (ds.dset.opU i (ρ k)) ∧ π (ds.dset.opU i (ρ k)) ≤ K := by
    intro i k hi hk1 hk2
    have r := (hN.rep k hk1 hk2).1
    have r2 := hs.set.range i _ hi r.1 r.2
    exact hN.range _ r2.1 r2.2
  -- the numbering commutes with the operations
  have fconj : ∀ i x, i ≤ ds.dim → 1 ≤ x → x ≤ ds.size →
      π (ds.dset.opU i (ρ (π x))) = π (ds.dset.opU i x) := by
    intro i x hi hx1 hx2
    have r := rep_num hs hcg hN hx1 hx2
    exact num_op hs hcg hN hi r.1.1 r.1.2 hx1 hx2 r.2
  have finvol : ∀ i k, i ≤ ds.dim → 1 ≤ k → k ≤ K →
      π (ds.dset.opU i (ρ (π (ds.dset.opU i (ρ k))))) = k := by
    intro i k hi hk1 hk2
    have r := hN.rep k hk1 hk2
    have r2 := hs.set.range i _ hi r.1.1 r.1.2
    rw [fconj i _ hi r2.1 r2.2, hs.set.invol i _ hi r.1.1 r.1.2, r.2]
  obtain ⟨qs, hqs, hqsize, hqdim, hqvalid, hqop⟩ :=
    buildSet_of_total_involution (size := K) (dim := ds.dim) (op := opq)
      (f := fun i k => π (ds.dset.opU i (ρ k))) hK hdim hop frange finvol
  have hconj : SemiConj ds.dset qs π := by
    refine ⟨hqdim, fun x hx1 hx2 => by rw [hqsize]; exact hN.range x hx1 hx2, fun i x hi hx1 hx2 => ?_⟩
    have r := hN.range x hx1 hx2
    rw [hqop i (π x) hi r.1 r.2]
    exact fconj i x hi hx1 hx2
  -- far operations commute in the quotient
  have hqfar : FarCommute qs := by
    intro i j k hij hj hk1 hk2
    rw [hqdim] at hj
    rw [hqsize] at hk2
    have hi : i ≤ ds.dim := by omega
    have r := hN.rep k hk1 hk2
    have e : k = π (ρ k) := r.2.symm
    have ri := hs.set.range i _ hi r.1.1 r.1.2
    have rj := hs.set.range j _ hj r.1.1 r.1.2
    rw [e, hconj.op i _ hi r.1.1 r.1.2, hconj.op j _ hj ri.1 ri.2, hconj.op j _ hj r.1.1 r.1.2,
      hconj.op i _ hi rj.1 rj.2, hs.far i j _ hij hj r.1.1 r.1.2]
  -- the degrees
  have hm' : ∀ i k, i < qs.dim → 1 ≤ k → k ≤ qs.size → mq i k = some ((fun i k => ds.mVal i (ρ k)) i k) := by
    intro i k hi hk1 hk2
    rw [hqdim] at hi; rw [hqsize] at hk2
    exact hm i k hi hk1 hk2
  have hM : ∀ i x y, i < qs.dim → 1 ≤ x → x ≤ qs.size → Orb2 qs i (i + 1) x y →
      (fun i k => ds.mVal i (ρ k)) i x = (fun i k => ds.mVal i (ρ k)) i y := by
    intro i k k' hi hk1 hk2 ho
    rw [hqdim] at hi; rw [hqsize] at hk2
    have hk' := Orb2.range hqvalid (by rw [hqdim]; omega) (by rw [hqdim]; omega)
      ⟨hk1, by rw [hqsize]; exact hk2⟩ ho
    rw [hqsize] at hk'
    have r := hN.rep k hk1 hk2
    have r' := hN.rep k' hk'.1 hk'.2
    rw [← r.2] at ho
    obtain ⟨y, hy, hyk⟩ := hconj.orb_lift hs.set (Nat.le_of_lt hi) hi r.1.1 r.1.2 ho
    have ry := Orb2.range hs.set (Nat.le_of_lt hi) (show i + 1 ≤ ds.dset.dim from hi) r.1 hy
    show ds.mVal i (ρ k) = ds.mVal i (ρ k')
    rw [hs.toValidTables.mVal_orb hi r.1.1 r.1.2 hy]
    apply cong_mVal hs hcg hN hi ry.1 ry.2 r'.1.1 r'.1.2
    apply (hN.iff _ _ ry.1 ry.2 r'.1.1 r'.1.2).1
    rw [hyk, r'.2]
  obtain ⟨c, hc, hcd, hct, hdeg⟩ := buildSymUsingMs_ok hqvalid hm' hM
  have hcsize : c.size = K := by show c.dset.size = K; rw [hcd]; exact hqsize
  have hcdim : c.dim = ds.dim := by show c.dset.dim = ds.dim; rw [hcd]; exact hqdim
  refine ⟨qs, c, hqs, hc, ⟨hct, by rw [hcd]; exact hqfar⟩, hcsize, hcdim, by rw [hcd]; exact hconj, ?_⟩
  intro i d hi hd1 hd2
  have rk := hN.range d hd1 hd2
  obtain ⟨r, hr, _, _, hmr⟩ := hdeg i (π d) (by rw [hqdim]; exact hi) rk.1 (by rw [hqsize]; exact rk.2)
  -- m_c = r · (M / r) with r ∣ M
  have hmc := hct.mPartial_adj (i := i) (b := π d) (by rw [hcdim]; exact hi) rk.1 (by rw [hcsize]; exact rk.2)
  rw [hmr] at hmc
  have hval : c.mVal i (π d) = r * (ds.mVal i (ρ (π d)) / r) := by
    have := Outcome.ok.inj hmc
    exact (Option.some.inj this).symm
  have rr := rep_num hs hcg hN hd1 hd2
  have hrd := hs.toValidTables.rs_least hi rr.1.1 rr.1.2
  have hdvd1 : r ∣ ds.orbitRs.getD (ds.ixAt i (ρ (π d))) 0 := by
    have hr' : IsLeastPeriod qs i (i + 1) (π (ρ (π d))) r := by rw [rr.2]; exact hr
    exact hconj.least_dvd hs.set (Nat.le_of_lt hi) hi rr.1.1 rr.1.2 hrd hr'
  have hdvd : r ∣ ds.mVal i (ρ (π d)) := Dvd.dvd.mul_right hdvd1 _
  rw [hval, Nat.mul_div_cancel' hdvd]
  exact cong_mVal hs hcg hN hi rr.1.1 rr.1.2 hd1 hd2 ((hN.iff _ _ rr.1.1 rr.1.2 hd1 hd2).1 rr.2)

end quotient

end DSymVerif.Mor
