/-
Helper lemmas for property C08, part 8: the curvature corollaries for the model's own
constructions — isomorphic copies (`IsIso`, `rebuild`), `dual`, `cover`, `orientedCover`.
-/
import DSymVerif.Proofs.Delaney2dSum
import DSymVerif.Proofs.CanonicalIso
import DSymVerif.Proofs.CanonicalBuild
import DSymVerif.Props.C05

namespace DSymVerif.D2
open DSymVerif.DS

/-! ### least periods under maps that commute with the operations -/

section transport
variable {a b : DSetData} (ha : ValidSet a) (hb : ValidSet b) {f : Nat → Nat} {i j i' j' : Nat}
  (hi : i ≤ a.dim) (hj : j ≤ a.dim)
  (hr : ∀ d, 1 ≤ d → d ≤ a.size → 1 ≤ f d ∧ f d ≤ b.size)
  (hopi : ∀ d, 1 ≤ d → d ≤ a.size → b.opU i' (f d) = f (a.opU i d))
  (hopj : ∀ d, 1 ≤ d → d ≤ a.size → b.opU j' (f d) = f (a.opU j d))
include ha hi hj hopi hopj

theorem comp_iter_map {d : Nat} (hd : 1 ≤ d ∧ d ≤ a.size) (t : Nat) :
    (b.comp i' j')^[t] (f d) = f ((a.comp i j)^[t] d) := by
  induction t with
  | zero => rfl
  | succ t ih =>
    rw [Function.iterate_succ_apply', Function.iterate_succ_apply', ih]
    have x := ha.comp_range hi hj hd.1 hd.2 t
    have y := ha.range i _ hi x.1 x.2
    show b.opU j' (b.opU i' (f _)) = f (a.opU j (a.opU i _))
    rw [hopi _ x.1 x.2, hopj _ y.1 y.2]

/-- an injective such map preserves orbit lengths -/
theorem leastPeriod_map (hinj : ∀ d e, 1 ≤ d → d ≤ a.size → 1 ≤ e → e ≤ a.size → f d = f e → d = e)
    {d k : Nat} (hd : 1 ≤ d ∧ d ≤ a.size) (hk : IsLeastPeriod a i j d k) :
    IsLeastPeriod b i' j' (f d) k := by
  refine ⟨hk.1, ?_, ?_⟩
  · show (b.comp i' j')^[k] (f d) = f d
    rw [comp_iter_map ha hi hj hopi hopj hd, hk.2.1]
  · intro t ht1 ht2 hp
    apply hk.2.2 t ht1 ht2
    have hp' : (b.comp i' j')^[t] (f d) = f d := hp
    rw [comp_iter_map ha hi hj hopi hopj hd] at hp'
    have x := ha.comp_range hi hj hd.1 hd.2 t
    exact hinj _ _ x.1 x.2 hd.1 hd.2 hp'

end transport

theorem vN_of_vAdj {y : DSymData} (h : ValidSym y) {i d : Nat} (hi : i < y.dim) (hd : 1 ≤ d ∧ d ≤ y.size) :
    y.vAdj i d = some (vN y i (i + 1) d) := by
  obtain ⟨k, hk⟩ := h.vPartial_some (Nat.le_of_lt hi) (show i + 1 ≤ y.dim from hi) hd.1 hd.2
  unfold DSymData.vAdj vN
  rw [hk]

theorem rN_unique {y : DSymData} (h : ValidSym y) {i j d k : Nat} (hi : i ≤ y.dim) (hj : j ≤ y.dim)
    (hd : 1 ≤ d ∧ d ≤ y.size) (hk : IsLeastPeriod y.dset i j d k) : rN y i j d = k :=
  (rN_least h hi hj hd).unique hk

/-- all branching numbers non-zero means `is_complete()` -/
theorem complete_of_vN {y : DSymData} (h : ValidTables y)
    (hv : ∀ i d, i < y.dim → 1 ≤ d → d ≤ y.size → y.orbitVs.getD (y.ixAt i d) 0 ≠ 0) :
    y.isCompletePartial = true := by
  unfold DSymData.isCompletePartial
  rw [h.set.isCompletePartial, Bool.true_and, Array.all_eq_true]
  intro k hk
  have hk' : k < (collectOrbits y.dset).rs.size := by
    rw [← h.rs_eq, ← h.vs_size]; exact hk
  obtain ⟨i, x, hi, hx1, hx2, hkx⟩ := collectOrbits_surj h.set hk'
  have hkx' : y.ixAt i x = k := by unfold DSymData.ixAt; rw [h.index_eq]; exact hkx
  have := hv i x hi hx1 hx2
  rw [hkx'] at this
  have hget : y.orbitVs[k] = y.orbitVs.getD k 0 := by
    rw [Array.getD_eq_getD_getElem?, Array.getElem?_eq_getElem hk]; rfl
  rw [hget]
  exact decide_eq_true (Nat.pos_of_ne_zero this)

theorem vN_adj_eq {y : DSymData} (h : ValidTables y) {i d : Nat} (hi : i < y.dim) (hd : 1 ≤ d ∧ d ≤ y.size) :
    vN y i (i + 1) d = y.orbitVs.getD (y.ixAt i d) 0 := by
  unfold vN
  rw [h.vPartial_adj hi hd.1 hd.2]

/-! ### isomorphic copies -/

section iso
open DSymVerif.DS.CanonP

variable {a b : DSymData} {f : Nat → Nat} (iso : IsIso f a b) (ha : ValidSym a) (hb : ValidSym b)
include iso ha hb

omit ha hb in
theorem iso_opU {i d : Nat} (hi : i ≤ a.dim) (hd : 1 ≤ d ∧ d ≤ a.size) :
    b.dset.opU i (f d) = f (a.dset.opU i d) := by
  have h := iso.op i d hi hd.1 hd.2
  have e1 : a.op i d = some (a.dset.opU i d) := opSimple_eq_some.2 ⟨hi, hd.1, hd.2, rfl⟩
  rw [e1] at h
  exact (opSimple_eq_some.1 h).2.2.2

theorem iso_mQ {i d : Nat} (hi : i < a.dim) (hd : 1 ≤ d ∧ d ≤ a.size) :
    mQ b i (i + 1) (f d) = mQ a i (i + 1) d := by
  have hfd := iso.range d hd.1 hd.2
  have hfd' : 1 ≤ f d ∧ f d ≤ b.size := by rw [iso.size]; exact hfd
  have hib : i < b.dim := by rw [iso.dim]; exact hi
  have hr : rN b i (i + 1) (f d) = rN a i (i + 1) d := by
    apply rN_unique hb (Nat.le_of_lt hib) hib hfd'
    exact leastPeriod_map (f := f) (i := i) (j := i + 1) (i' := i) (j' := i + 1) ha.set (Nat.le_of_lt hi) hi
      (fun x h1 h2 => iso_opU iso (Nat.le_of_lt hi) ⟨h1, h2⟩)
      (fun x h1 h2 => iso_opU iso (show i + 1 ≤ a.dim from hi) ⟨h1, h2⟩)
      iso.inj hd (rN_least ha (Nat.le_of_lt hi) hi hd)
  have hv : vN b i (i + 1) (f d) = vN a i (i + 1) d := by
    have := iso.v i d hi hd.1 hd.2
    rw [vN_of_vAdj hb hib hfd', vN_of_vAdj ha hi hd] at this
    exact Option.some.inj this
  unfold mQ
  rw [hr, hv]

theorem iso_complete (hc : a.isCompletePartial = true) : b.isCompletePartial = true := by
  apply complete_of_vN hb.toValidTables
  intro i e hi h1 h2
  have hia : i < a.dim := by rw [← iso.dim]; exact hi
  obtain ⟨d, hd1, hd2, rfl⟩ := surj_of_inj iso.range iso.inj e h1 (by rw [← iso.size]; exact h2)
  rw [← vN_adj_eq hb.toValidTables hi ⟨h1, h2⟩]
  have := iso.v i d hia hd1 hd2
  rw [vN_of_vAdj hb hi ⟨h1, h2⟩, vN_of_vAdj ha hia ⟨hd1, hd2⟩] at this
  rw [Option.some.inj this]
  exact adj_v_ne ha hc hia ⟨hd1, hd2⟩

end iso

/-! ### `dual` -/

/-- **`dual` reverses the indices**: on a valid symbol the model of `derived::dual` returns a valid
    symbol of the same size and dimension with `op_i = op_{n-i}` and `v_{i,i+1} = v_{n-i-1,n-i}`. -/
theorem dual_spec {s : DSymData} (h : ValidSym s) (hsize : 1 ≤ s.size) (hdim : 1 ≤ s.dim) :
    ∃ t, dual s = .ok t ∧ ValidSym t ∧ t.size = s.size ∧ t.dim = s.dim ∧
      (∀ i d, i ≤ s.dim → 1 ≤ d → d ≤ s.size → t.dset.opU i d = s.dset.opU (s.dim - i) d) ∧
      (∀ i d, i < s.dim → 1 ≤ d → d ≤ s.size → t.vAdj i d = s.vAdj (s.dim - i - 1) d) := by
  have hs := h.set
  obtain ⟨ds, hb, hsz, hdm, hvalid, hop⟩ :=
    buildSet_of_total_involution (op := fun i d => s.op (s.dim - i) d)
      (f := fun i d => s.dset.opU (s.dim - i) d) hsize hdim
      (fun i d _ h1 h2 => opSimple_eq_some.2 ⟨Nat.sub_le _ _, h1, h2, rfl⟩)
      (fun i d _ h1 h2 => hs.range _ d (Nat.sub_le _ _) h1 h2)
      (fun i d _ h1 h2 => hs.invol _ d (Nat.sub_le _ _) h1 h2)
  have hfar : FarCommute ds := by
    intro i j d hij hj h1 h2
    rw [hdm] at hj; rw [hsz] at h2
    have hi : i ≤ s.dim := by omega
    have r1 := hs.range (s.dim - i) d (Nat.sub_le _ _) h1 h2
    have r2 := hs.range (s.dim - j) d (Nat.sub_le _ _) h1 h2
    rw [hop i d hi h1 h2, hop j d hj h1 h2, hop j _ hj r1.1 r1.2, hop i _ hi r2.1 r2.2]
    exact (h.far (s.dim - j) (s.dim - i) d (by omega) (Nat.sub_le _ _) h1 h2).symm
  -- orbits of the dual set are orbits of `s` with the indices reversed
  have horb : ∀ i x y, i < s.dim → 1 ≤ x → x ≤ s.size → Orb2 ds i (i + 1) x y →
      Orb2 s.dset (s.dim - i - 1) (s.dim - i - 1 + 1) x y := by
    intro i x y hi h1 h2 ho
    have e : s.dim - i - 1 + 1 = s.dim - i := by omega
    rw [e]
    apply Orb2.swap
    induction ho with
    | refl => exact Orb2.refl x
    | @stepI z _ ih =>
      have hz := Orb2.range hs (i := s.dim - i) (j := s.dim - i - 1) (Nat.sub_le _ _)
        (Nat.le_trans (Nat.sub_le _ _) (Nat.sub_le _ _)) ⟨h1, h2⟩ ih
      rw [hop i z (by omega) hz.1 hz.2]
      exact Orb2.stepI ih
    | @stepJ z _ ih =>
      have hz := Orb2.range hs (i := s.dim - i) (j := s.dim - i - 1) (Nat.sub_le _ _)
        (Nat.le_trans (Nat.sub_le _ _) (Nat.sub_le _ _)) ⟨h1, h2⟩ ih
      rw [hop (i + 1) z (by omega) hz.1 hz.2]
      have e' : s.dim - (i + 1) = s.dim - i - 1 := by omega
      rw [e']
      exact Orb2.stepJ ih
  obtain ⟨t, ht, htv, htd, htvs⟩ :=
    CanonP.buildSymUsingVs_spec (ds := ds) hvalid hfar
      (v := fun i d => s.vAdj (s.dim - i - 1) d)
      (V := fun i d => vN s (s.dim - i - 1) (s.dim - i - 1 + 1) d)
      (fun i d hi h1 h2 => by
        rw [hdm] at hi; rw [hsz] at h2
        exact vN_of_vAdj h (by omega) ⟨h1, h2⟩)
      (fun i x y hi h1 h2 ho => by
        rw [hdm] at hi; rw [hsz] at h2
        have ho' := horb i x y hi h1 h2 ho
        have := (rv_const_orb h (i := s.dim - i - 1) (j := s.dim - i - 1 + 1) (by omega) (by omega)
          ⟨h1, h2⟩ ho').2
        unfold vN
        rw [this])
  refine ⟨t, ?_, htv, ?_, ?_, ?_, ?_⟩
  · unfold dual
    simp only
    rw [hb]
    exact ht
  · show t.dset.size = _; rw [htd, hsz]
  · show t.dset.dim = _; rw [htd, hdm]
  · intro i d hi h1 h2
    rw [htd]; exact hop i d hi h1 h2
  · intro i d hi h1 h2
    rw [htvs i d (by rw [hdm]; exact hi) h1 (by rw [hsz]; exact h2)]
    exact (vN_of_vAdj h (by omega) ⟨h1, h2⟩).symm

/-- the degrees of the dual: `m_{i,i+1}` of the dual is `m_{n-i-1,n-i}` of the symbol -/
theorem dual_mQ {s t : DSymData} (h : ValidSym s) (ht : ValidSym t) (hsz : t.size = s.size) (hdm : t.dim = s.dim)
    (hop : ∀ i d, i ≤ s.dim → 1 ≤ d → d ≤ s.size → t.dset.opU i d = s.dset.opU (s.dim - i) d)
    (hv : ∀ i d, i < s.dim → 1 ≤ d → d ≤ s.size → t.vAdj i d = s.vAdj (s.dim - i - 1) d)
    {i d : Nat} (hi : i < s.dim) (hd : 1 ≤ d ∧ d ≤ s.size) :
    mQ t i (i + 1) d = mQ s (s.dim - i - 1) (s.dim - i - 1 + 1) d := by
  have hd' : 1 ≤ d ∧ d ≤ t.size := by rw [hsz]; exact hd
  have hit : i < t.dim := by rw [hdm]; exact hi
  have e : s.dim - i - 1 + 1 = s.dim - i := by omega
  have sdim : s.dset.dim = s.dim := rfl
  have hr : rN t i (i + 1) d = rN s (s.dim - i - 1) (s.dim - i - 1 + 1) d := by
    apply rN_unique ht (Nat.le_of_lt hit) hit hd'
    have hl := rN_least h (i := s.dim - i - 1) (j := s.dim - i - 1 + 1) (by omega) (by omega) hd
    have hl' := IsLeastPeriod.inv h.set (by rw [sdim]; omega) (by rw [sdim]; omega) hd hl
    rw [e] at hl' ⊢
    have := leastPeriod_map (f := id) (a := s.dset) (b := t.dset) (i := s.dim - i) (j := s.dim - i - 1)
      (i' := i) (j' := i + 1) h.set (Nat.sub_le _ _) (by rw [sdim]; omega)
      (fun x h1 h2 => hop i x (by omega) h1 h2)
      (fun x h1 h2 => by
        have := hop (i + 1) x (by omega) h1 h2
        have e' : s.dim - (i + 1) = s.dim - i - 1 := by omega
        rw [e'] at this; exact this)
      (fun _ _ _ _ _ _ hh => hh) hd hl'
    exact this
  have hvv : vN t i (i + 1) d = vN s (s.dim - i - 1) (s.dim - i - 1 + 1) d := by
    have := hv i d hi hd.1 hd.2
    rw [vN_of_vAdj ht hit hd', vN_of_vAdj h (by omega) hd] at this
    exact Option.some.inj this
  unfold mQ
  rw [hr, hvv]

/-! ### covers -/

theorem mQ_of_mPartial {y : DSymData} {i j d m : Nat} (h : y.mPartial i j d = .ok (some m)) :
    mQ y i j d = (m : ℚ) := by
  obtain ⟨a, b, ha, hb, rfl⟩ := DSymData.mOf_eq_some h
  unfold mQ rN vN
  rw [ha, hb]
  push_cast
  rfl

theorem mQ_congr {y z : DSymData} {i j d e : Nat} (h : y.mPartial i j d = z.mPartial i j e)
    (hz : ∃ m, z.mPartial i j e = .ok (some m)) : mQ y i j d = mQ z i j e := by
  obtain ⟨m, hm⟩ := hz
  rw [mQ_of_mPartial (h.trans hm), mQ_of_mPartial hm]

theorem icc_fibre_card {sz n b : Nat} (hb1 : 1 ≤ b) (hb2 : b ≤ sz) :
    ((Finset.Icc 1 (n * sz)).filter fun e => cproj sz e = b).card = n := by
  have hl := fibre_length hb1 hb2 n
  have hnd : ((List.range (n * sz)).map (· + 1)).Nodup :=
    (List.nodup_range).map (fun a b h => by simpa using h)
  have e : (Finset.Icc 1 (n * sz)).filter (fun e => cproj sz e = b) =
      (((List.range (n * sz)).map (· + 1)).filter (fun d => decide (cproj sz d = b))).toFinset := by
    ext x
    simp only [Finset.mem_filter, Finset.mem_Icc, List.mem_toFinset, List.mem_filter, List.mem_map,
      List.mem_range, decide_eq_true_eq]
    constructor
    · rintro ⟨⟨h1, h2⟩, h3⟩
      exact ⟨⟨x - 1, by omega, by omega⟩, h3⟩
    · rintro ⟨⟨a, ha, rfl⟩, h3⟩
      exact ⟨⟨by omega, by omega⟩, h3⟩
  rw [e, List.toFinset_card_of_nodup (hnd.filter _), hl]

/-- a cover with valid tables, commuting far operations and the degrees of the base is a good
    2D symbol, and its chamber sum is `n` times the chamber sum of the base -/
theorem cover_chamberSum {s c : DSymData} (hs : ValidSym s) (hdim : s.dim = 2)
    (hcs : s.isCompletePartial = true) (hsz : 1 ≤ s.size) (n : Nat)
    (hc : ValidSym c) (hsize : c.size = n * s.size) (hcdim : c.dim = s.dim)
    (hdeg : ∀ i d, i < s.dim → 1 ≤ d → d ≤ n * s.size →
      c.mPartial i (i + 1) d = s.mPartial i (i + 1) (cproj s.size d)) :
    c.isCompletePartial = true ∧ chamberSum c = (n : ℚ) * chamberSum s := by
  have hm : ∀ i d, i < s.dim → 1 ≤ d → d ≤ n * s.size →
      mQ c i (i + 1) d = mQ s i (i + 1) (cproj s.size d) := by
    intro i d hi h1 h2
    have hp := cproj_range (d := d) hsz
    obtain ⟨a, b, _, _, hab⟩ := hs.mPartial_some (Nat.le_of_lt hi) (show i + 1 ≤ s.dim from hi) hp.1 hp.2
    exact mQ_congr (hdeg i d hi h1 h2) ⟨_, hab⟩
  constructor
  · apply complete_of_vN hc.toValidTables
    intro i d hi h1 h2
    have hi' : i < s.dim := by rw [← hcdim]; exact hi
    have h2' : d ≤ n * s.size := by rw [← hsize]; exact h2
    have hp := cproj_range (d := d) hsz
    rw [← vN_adj_eq hc.toValidTables hi ⟨h1, h2⟩]
    intro h0
    have hmq := hm i d hi' h1 h2'
    have hz : mQ c i (i + 1) d = 0 := by unfold mQ; rw [h0]; simp
    rw [hz] at hmq
    have hv := adj_v_ne hs hcs hi' hp
    have hr : 1 ≤ rN s i (i + 1) (cproj s.size d) := (rN_least hs (Nat.le_of_lt hi') hi' hp).1
    unfold mQ at hmq
    have : (rN s i (i + 1) (cproj s.size d) : ℚ) * (vN s i (i + 1) (cproj s.size d) : ℚ) ≠ 0 := by
      apply mul_ne_zero
      · exact_mod_cast (by omega : rN s i (i + 1) (cproj s.size d) ≠ 0)
      · exact_mod_cast hv
    exact this hmq.symm
  · have e := chamberSum_cover (y := s) (y' := c) n (cproj s.size)
      (fun e _ _ => cproj_range hsz)
      (fun d h1 h2 => by rw [hsize]; exact icc_fibre_card h1 h2)
      (fun e h1 h2 => hm 0 e (by omega) h1 (by rw [← hsize]; exact h2))
      (fun e h1 h2 => hm 1 e (by omega) h1 (by rw [← hsize]; exact h2))
    exact e

/-! ### the oriented double cover -/

/-- everything about `oriented_cover` of a non-oriented valid symbol: a valid symbol (far
    operations commute again) with two sheets, whose operations follow the base under the
    projection and flip the colour `dcol`, and which has the degrees of the base -/
theorem oriCover_pkg {s : DSymData} (hs : ValidSym s) (hsz : 1 ≤ s.size) (hdim : 1 ≤ s.dim)
    (ho : s.view.isOriented = false) :
    ∃ c, orientedCover s = .ok c ∧ c.size = 2 * s.size ∧ c.dim = s.dim ∧ ValidSym c ∧
      (∀ i d, i ≤ s.dim → 1 ≤ d → d ≤ 2 * s.size →
        cproj s.size (c.dset.opU i d) = s.dset.opU i (cproj s.size d) ∧
        dcol s s.view.partialOrientation (c.dset.opU i d) = !dcol s s.view.partialOrientation d) ∧
      (∀ i d, i < s.dim → 1 ≤ d → d ≤ 2 * s.size →
        c.rPartial i (i + 1) d = s.rPartial i (i + 1) (cproj s.size d) ∧
        c.vPartial i (i + 1) d = s.vPartial i (i + 1) (cproj s.size d) ∧
        c.mPartial i (i + 1) d = s.mPartial i (i + 1) (cproj s.size d)) ∧
      (∀ i j d r, i ≤ s.dim → j ≤ s.dim → 1 ≤ d → d ≤ 2 * s.size →
        IsLeastPeriod s.dset i j (cproj s.size d) r → IsLeastPeriod c.dset i j d r) := by
  have hσ := oriSheetMap_compat s hs.set s.view.partialOrientation
  obtain ⟨c, hc, hsize, hdim', hct, hop, _⟩ := cover_ok s hs.toValidTables hsz hdim (n := 2) (by decide) hσ
  have hpin : s.view.PInvol := by rw [s.view_eq]; exact hs.set.pinvol
  have hori := partialOrientation_total hpin
  have hoc : orientedCover s = .ok c := by
    rw [orientedCover_eq, if_neg (by rw [ho]; simp)]; exact hc
  obtain ⟨c', hc', _, _, _, hdeg⟩ := orientedCover_degrees s hs.toValidTables hsz hdim ho
  rw [hoc] at hc'
  cases hc'
  have hstep := fun i d hi h1 h2 =>
    dc_step (s := s) (c := c.dset) hs.set hsz hori hop (i := i) (d := d) hi h1 h2
  refine ⟨c, hoc, hsize, hdim', ⟨hct, ?_⟩, hstep, hdeg,
    fun i j d r hi hj h1 h2 hr => dc_leastPeriod hs.set hsz hori hct.set hsize hdim' hop hi hj h1 h2 hr⟩
  -- far operations commute: same projection, same colour
  intro i j d hij hj h1 h2
  have hj' : j ≤ s.dim := by rw [← hdim']; exact hj
  have hi' : i ≤ s.dim := by omega
  have h2' : d ≤ 2 * s.size := by rw [← hsize]; exact h2
  have hic : i ≤ c.dset.dim := by omega
  have ri := hct.set.range i d hic h1 h2
  have rj := hct.set.range j d hj h1 h2
  have ri' : c.dset.opU i d ≤ 2 * s.size := by rw [← hsize]; exact ri.2
  have rj' : c.dset.opU j d ≤ 2 * s.size := by rw [← hsize]; exact rj.2
  have rji := hct.set.range j _ hj ri.1 ri.2
  have rij := hct.set.range i _ hic rj.1 rj.2
  obtain ⟨a1, a2⟩ := hstep i d hi' h1 h2'
  obtain ⟨b1, b2⟩ := hstep j _ hj' ri.1 ri'
  obtain ⟨c1, c2⟩ := hstep j d hj' h1 h2'
  obtain ⟨d1, d2⟩ := hstep i _ hi' rj.1 rj'
  have hp := cproj_range (d := d) hsz
  apply dc_determined (s := s) (ori := s.view.partialOrientation) hsz rji.1 (by rw [← hsize]; exact rji.2)
    rij.1 (by rw [← hsize]; exact rij.2)
  · rw [b1, a1, d1, c1]
    exact hs.far i j _ hij hj' hp.1 hp.2
  · rw [b2, a2, d2, c2]

/-! ### the corollaries for the model's own constructions -/

open DSymVerif.DS.CanonP in
/-- isomorphic copies (in particular renumberings) have the same curvature -/
theorem curvature_of_iso {a b : DSymData} {f : Nat → Nat} (iso : IsIso f a b) (ra rb : Rep)
    (ga : Good2d ⟨a, ra⟩) (hb : ValidSym b) :
    Good2d ⟨b, rb⟩ ∧ curvature ⟨b, rb⟩ = curvature ⟨a, ra⟩ := by
  have ha : ValidSym a := ga.valid
  have hdim : a.dim = 2 := ga.dim
  have gb : Good2d ⟨b, rb⟩ := ⟨hb, by show b.dim = 2; rw [iso.dim]; exact hdim, iso_complete iso ha hb ga.complete⟩
  refine ⟨gb, curvature_congr ga gb ?_⟩
  exact chamberSum_renumber f
    (fun d h1 h2 => by rw [iso.size]; exact iso.range d h1 h2) iso.inj
    (fun e h1 h2 => surj_of_inj iso.range iso.inj e h1 (by rw [← iso.size]; exact h2))
    (fun d h1 h2 => iso_mQ iso ha hb (i := 0) (by omega) ⟨h1, h2⟩)
    (fun d h1 h2 => iso_mQ iso ha hb (i := 1) (by omega) ⟨h1, h2⟩)

/-- `dual` preserves the curvature -/
theorem curvature_of_dual {s : DSymData} (rs rt : Rep) (g : Good2d ⟨s, rs⟩) (hsz : 1 ≤ s.size) :
    ∃ t, dual s = .ok t ∧ Good2d ⟨t, rt⟩ ∧ curvature ⟨t, rt⟩ = curvature ⟨s, rs⟩ := by
  have hs : ValidSym s := g.valid
  have hdim : s.dim = 2 := g.dim
  obtain ⟨t, ht, htv, htsz, htdm, hop, hv⟩ := dual_spec hs hsz (by omega)
  have hm := fun i d hi hd => dual_mQ hs htv htsz htdm hop hv (i := i) (d := d) hi hd
  have hcomp : t.isCompletePartial = true := by
    apply complete_of_vN htv.toValidTables
    intro i d hi h1 h2
    have hi' : i < s.dim := by rw [← htdm]; exact hi
    have h2' : d ≤ s.size := by rw [← htsz]; exact h2
    rw [← vN_adj_eq htv.toValidTables hi ⟨h1, h2⟩]
    have := hv i d hi' h1 h2'
    rw [vN_of_vAdj htv hi ⟨h1, h2⟩, vN_of_vAdj hs (by omega) ⟨h1, h2'⟩] at this
    rw [Option.some.inj this]
    exact adj_v_ne hs g.complete (by omega) ⟨h1, h2'⟩
  have gt : Good2d ⟨t, rt⟩ := ⟨htv, by show t.dim = 2; rw [htdm]; exact hdim, hcomp⟩
  refine ⟨t, ht, gt, curvature_congr g gt ?_⟩
  apply chamberSum_dual htsz
  · intro d h1 h2
    have := hm 0 d (by omega) ⟨h1, h2⟩
    rw [hdim] at this
    exact this
  · intro d h1 h2
    have := hm 1 d (by omega) ⟨h1, h2⟩
    rw [hdim] at this
    exact this

/-- `cover` multiplies the curvature by the number of sheets, provided the orbit lengths of the
    cover divide the degrees of the base (adjacent pairs) and its far operations commute -/
theorem curvature_of_cover {s : DSymData} (rs rc : Rep) (g : Good2d ⟨s, rs⟩) (hsz : 1 ≤ s.size)
    (n : Nat) (hn : 1 ≤ n) (σ : Nat → Nat → Nat → Nat) (hσ : SheetCompat s.dset n σ)
    (c : DSymData) (hc : cover s n σ = .ok c) (hfar : FarCommute c.dset)
    (hdiv : ∀ i d r m, i < s.dim → 1 ≤ d → d ≤ n * s.size →
      c.rPartial i (i + 1) d = .ok (some r) → s.mPartial i (i + 1) (cproj s.size d) = .ok (some m) → r ∣ m) :
    Good2d ⟨c, rc⟩ ∧ ∃ K K', curvature ⟨s, rs⟩ = .ok K ∧ curvature ⟨c, rc⟩ = .ok K' ∧
      K'.toRat = (n : ℚ) * K.toRat := by
  have hs : ValidSym s := g.valid
  have hdim : s.dim = 2 := g.dim
  obtain ⟨c', hc', hsize, hcdim, hct, _, _, _, _, hdeg⟩ :=
    C05.cover_is_covering s hs.toValidTables hsz (by omega) n hn σ hσ
  rw [hc] at hc'
  cases hc'
  have hcv : ValidSym c := ⟨hct, hfar⟩
  have hdeg' : ∀ i d, i < s.dim → 1 ≤ d → d ≤ n * s.size →
      c.mPartial i (i + 1) d = s.mPartial i (i + 1) (cproj s.size d) := by
    intro i d hi h1 h2
    obtain ⟨r, m, _, hm, hr, _, hpres⟩ := hdeg i d hi h1 h2
    rw [hpres (hdiv i d r m hi h1 h2 hr hm), hm]
  obtain ⟨hcomp, hsum⟩ := cover_chamberSum hs hdim g.complete hsz n hcv hsize hcdim hdeg'
  have gc : Good2d ⟨c, rc⟩ := ⟨hcv, by show c.dim = 2; rw [hcdim]; exact hdim, hcomp⟩
  refine ⟨gc, _, _, curvature_eq_chamberSum g, curvature_eq_chamberSum gc, ?_⟩
  rw [Frac.toRat_ofRat, Frac.toRat_ofRat]
  exact hsum

/-- `oriented_cover`: the symbol itself if it is oriented, else a double cover with twice the
    curvature — no side condition -/
theorem curvature_of_orientedCover {s : DSymData} (rs : Rep) (g : Good2d ⟨s, rs⟩) (hsz : 1 ≤ s.size) :
    ∃ c, orientedCover s = .ok c ∧ Good2d ⟨c, .partialSym⟩ ∧
      ∃ K K', curvature ⟨s, rs⟩ = .ok K ∧ curvature ⟨c, .partialSym⟩ = .ok K' ∧
        K'.toRat = (if s.view.isOriented then 1 else 2) * K.toRat := by
  have hs : ValidSym s := g.valid
  have hdim : s.dim = 2 := g.dim
  by_cases ho : s.view.isOriented = true
  · have := (C05.oriented_cover_covering s hs.toValidTables hsz (by omega)).2.1 ho
    have gs : Good2d ⟨s, .partialSym⟩ := ⟨hs, hdim, g.complete⟩
    refine ⟨s, this, gs, _, _, curvature_eq_chamberSum g, curvature_eq_chamberSum gs, ?_⟩
    rw [if_pos ho]; simp
  · have ho' : s.view.isOriented = false := by simpa using ho
    obtain ⟨c, hoc, hsize, hcdim, hcv, _, hdeg, _⟩ := oriCover_pkg hs hsz (by omega) ho'
    obtain ⟨hcomp, hsum⟩ := cover_chamberSum hs hdim g.complete hsz 2 hcv hsize hcdim
      (fun i d hi h1 h2 => (hdeg i d hi h1 h2).2.2)
    have gc : Good2d ⟨c, .partialSym⟩ := ⟨hcv, by show c.dim = 2; rw [hcdim]; exact hdim, hcomp⟩
    refine ⟨c, hoc, gc, _, _, curvature_eq_chamberSum g, curvature_eq_chamberSum gc, ?_⟩
    rw [Frac.toRat_ofRat, Frac.toRat_ofRat, if_neg ho]
    exact_mod_cast hsum

end DSymVerif.D2
