/-
Property C05, π1 of a cover, part 3: the twisted action `thetaC` of the textbook group of `ds` on
`sheets × TGroup c`.

Crossing facet `(b,i)` of `ds` from sheet `k` moves to sheet `τ(b,i) k` and multiplies the label by
    lam(k,b,i) = ℓ_k(b) · y(k,b,i) · ℓ_{τ k}(op_i b)⁻¹,
where `y(k,b,i)` is the generator of the facet of `c` over `(b,i)` in sheet `k` and `ℓ_k` is a gauge
of sheet `k` along the spanning tree of `ds` (so tree facets of `ds` have trivial label).  Pairing
relators lift to pairing relators of `c`, and the walk round a 2-orbit of `ds` to the power `v`
lifts to the walk round the 2-orbit of `c` to the power `v_c` (degrees are preserved), so the labels
respect every relator of `TGroup ds` (the voltage-graph construction, cf. C13 `actionHomP`).
-/
import DSymVerif.Proofs.CoversPi1Phi
import DSymVerif.Proofs.CoversConn

namespace DSymVerif.CoversP
open DSymVerif DSymVerif.DS DSymVerif.FG DSymVerif.FGP

section
variable {ds c : DSymData} {n : Nat} {ρ : TGroup ds →* Equiv.Perm (Fin n)} {σ : Nat → Nat → Nat → Nat}
  (M : MCover ds c n ρ σ)

/-- the generator of the facet of `c` over `(b,i)` in sheet `k` -/
noncomputable def yc (ds c : DSymData) {n : Nat} (k : Fin n) (b i : Nat) : TGroup c :=
  xT c (ds.size * k.val + b) i

/-- a gauge of every sheet along the spanning tree of `ds` -/
def SheetGauge (ds c : DSymData) (n : Nat) (ℓ : Fin n → Nat → TGroup c) : Prop :=
  ∀ (k : Fin n) d i, (d, i, none) ∈ spanningTree ds → ℓ k (ds.dset.opU i d) = ℓ k d * yc ds c k d i

include M in
theorem exists_sheetGauge : ∃ ℓ, SheetGauge ds c n ℓ := by
  have : ∀ k : Fin n, ∃ γ : Nat → TGroup c, ∀ d i, (d, i, none) ∈ spanningTree ds →
      γ (ds.dset.opU i d) = γ d * yc ds c k d i :=
    fun k => exists_gauge M.hs.set (fun d i => yc ds c k d i)
  choose ℓ hℓ using this
  exact ⟨ℓ, fun k d i h => hℓ k d i h⟩

variable (ℓ : Fin n → Nat → TGroup c)

/-- the label of crossing `(b,i)` from sheet `k` -/
noncomputable def lam (ρ : TGroup ds →* Equiv.Perm (Fin n)) (ℓ : Fin n → Nat → TGroup c)
    (k : Fin n) (b i : Nat) : TGroup c :=
  ℓ k b * yc ds c k b i * (ℓ (tau ρ b i k) (opT ds i b))⁻¹

/-- one crossing on `sheets × TGroup c` -/
noncomputable def stepX (ρ : TGroup ds →* Equiv.Perm (Fin n)) (ℓ : Fin n → Nat → TGroup c)
    (b i : Nat) (x : Fin n × TGroup c) : Fin n × TGroup c :=
  (tau ρ b i x.1, x.2 * lam ρ ℓ x.1 b i)

include M in
theorem stepX_cancel {b i : Nat} (h : FacetR ds b i) (x : Fin n × TGroup c) :
    stepX ρ ℓ (ds.dset.opU i b) i (stepX ρ ℓ b i x) = x := by
  obtain ⟨k, p⟩ := x
  have hb' := M.hs.set.range i b h.2.2 h.1 h.2.1
  have htau : tau ρ (ds.dset.opU i b) i (tau ρ b i k) = k := by
    rw [tau_pair ρ h.2.2 h.1 h.2.1]; simp
  unfold stepX
  simp only
  apply Prod.ext
  · exact htau
  · simp only
    unfold lam
    rw [htau, opT_eq h.2.2 h.1 h.2.1, opT_eq h.2.2 hb'.1 hb'.2, M.hs.set.invol i b h.2.2 h.1 h.2.1]
    -- the two generators of c are the two sides of one facet of c
    have hpair : yc ds c (tau ρ b i k) (ds.dset.opU i b) i = (yc ds c k b i)⁻¹ := by
      unfold yc
      have hd := cmk_range (sz := ds.size) (n := n) k.isLt h.1 h.2.1
      have hic : i ≤ c.dim := by rw [M.cov.dim]; exact h.2.2
      have h2c : ds.size * k.val + b ≤ c.size := by rw [M.cov.size]; exact hd.2
      rw [← M.op_mk h.2.2 h.1 h.2.1 k, ← opT_eq hic hd.1 h2c, xT_pair]
    rw [hpair]
    group

/-- the permutation of `sheets × TGroup c` of facet `(b,i)` (identity outside the symbol) -/
noncomputable def permX (b i : Nat) : Equiv.Perm (Fin n × TGroup c) :=
  if h : FacetR ds b i then
    { toFun := stepX ρ ℓ b i
      invFun := stepX ρ ℓ (ds.dset.opU i b) i
      left_inv := stepX_cancel M ℓ h
      right_inv := fun x => by
        have hb' := M.hs.set.range i b h.2.2 h.1 h.2.1
        have := stepX_cancel M ℓ (b := ds.dset.opU i b) (i := i) ⟨hb'.1, hb'.2, h.2.2⟩ x
        rw [M.hs.set.invol i b h.2.2 h.1 h.2.1] at this
        exact this }
  else 1

theorem permX_apply {b i : Nat} (h : FacetR ds b i) (x : Fin n × TGroup c) :
    permX M ℓ b i x = stepX ρ ℓ b i x := by
  unfold permX
  rw [dif_pos h]
  rfl

/-- facet values of the twisted action: the inverse crossings -/
noncomputable def valTheta (b i : Nat) : Equiv.Perm (Fin n × TGroup c) := (permX M ℓ b i)⁻¹

theorem valTheta_pair {b i : Nat} (h : FacetR ds b i) :
    valTheta M ℓ b i * valTheta M ℓ (ds.dset.opU i b) i = 1 := by
  unfold valTheta
  rw [← mul_inv_rev, inv_eq_one]
  apply Equiv.ext
  intro x
  have hb' := M.hs.set.range i b h.2.2 h.1 h.2.1
  rw [Equiv.Perm.mul_apply, permX_apply M ℓ h, permX_apply M ℓ ⟨hb'.1, hb'.2, h.2.2⟩]
  exact stepX_cancel M ℓ h x

theorem valTheta_tree (hℓ : SheetGauge ds c n ℓ) {d i : Nat} (hmem : (d, i, none) ∈ spanningTree ds)
    (h : FacetR ds d i) : valTheta M ℓ d i = 1 := by
  unfold valTheta
  rw [inv_eq_one]
  apply Equiv.ext
  rintro ⟨k, p⟩
  rw [permX_apply M ℓ h]
  have ht1 : tau ρ d i = 1 := by unfold tau; rw [xT_tree hmem, map_one, inv_one]
  unfold stepX lam
  simp only
  rw [ht1, opT_eq h.2.2 h.1 h.2.1]
  simp only [Equiv.Perm.coe_one, id_eq]
  rw [hℓ k d i hmem]
  simp

/-- **twisted walk lemma**: the inverse of the word of a walk of `ds` moves the sheet by the
    monodromy and multiplies the label by the gauged word of the lifted walk of `c` -/
theorem theta_walk {a b : Nat} (ha : a ≤ ds.dim) (hb : b ≤ ds.dim) {b0 : Nat} (h1 : 1 ≤ b0)
    (h2 : b0 ≤ ds.size) (k : Fin n) (p : TGroup c) : ∀ t,
    (Wf (opT ds) (valTheta M ℓ) a b t b0)⁻¹ (k, p) =
      ((ρ (Wf (opT ds) (xT ds) a b t b0))⁻¹ k,
        p * ℓ k b0 * Wf (opT c) (xT c) a b t (ds.size * k.val + b0) *
          (ℓ ((ρ (Wf (opT ds) (xT ds) a b t b0))⁻¹ k) (wk (opT ds) a b t b0))⁻¹)
  | 0 => by simp [Wf, wk]
  | t + 1 => by
    rw [Wf_succ_last, mul_inv_rev, Equiv.Perm.mul_apply, theta_walk ha hb h1 h2 k p t]
    have hi := ix_le ha hb t
    have hr := wk_range M.hs.set h1 h2 t a b
    have hfac : FacetR ds (wk (opT ds) a b t b0) (ix a b t) := ⟨hr.1, hr.2, hi⟩
    unfold valTheta
    rw [inv_inv, permX_apply M ℓ hfac]
    -- the lifted walk
    have hd := cmk_range (sz := ds.size) (n := n) k.isLt h1 h2
    have hac : a ≤ c.dim := by rw [M.cov.dim]; exact ha
    have hbc : b ≤ c.dim := by rw [M.cov.dim]; exact hb
    have h2c : ds.size * k.val + b0 ≤ c.size := by rw [M.cov.size]; exact hd.2
    have hwalk := cover_walk M.hσ M.hs.set M.hop ha hb h1 h2 k t
    rw [wk_opT_opU M.hc.set hac hbc t _ hd.1 h2c] at hwalk
    unfold stepX lam yc
    simp only
    rw [Wf_succ_last (opT ds) (xT ds), Wf_succ_last (opT c) (xT c), wk_succ_last (opT ds), hwalk,
      map_mul, mul_inv_rev, Equiv.Perm.mul_apply]
    apply Prod.ext
    · rfl
    · simp only
      have : tau ρ (wk (opT ds) a b t b0) (ix a b t) ((ρ (Wf (opT ds) (xT ds) a b t b0))⁻¹ k) =
          (ρ (xT ds (wk (opT ds) a b t b0) (ix a b t)))⁻¹ ((ρ (Wf (opT ds) (xT ds) a b t b0))⁻¹ k) := rfl
      rw [this]
      group

end

end DSymVerif.CoversP
