/-
Helper lemmas for property C08, part 30: the string `orbifold_symbol` returns, read by the Spec's
independent parser `SpecC08.parseSymbol`, is the orbifold of the structured answer — for all
orders (digits below 10, parenthesised decimal numbers from 10 on), any number of boundary
components, handles and cross-caps, including the special strings `1`, `1*`, `1x`.
Needs only the model, the Spec and core lemmas about `Nat.toDigits`.
-/
import DSymVerif.Model.Delaney2d
import DSymVerif.Spec.C08

namespace DSymVerif.D2
open DSymVerif.SpecC08

/-! ### the characters of one degree -/

/-- the token `degree_list_as_string` prints for one degree -/
def tok (v : Nat) : List Char :=
  if v < 10 then [Nat.digitChar v] else '(' :: Nat.toDigits 10 v ++ [')']

theorem toString_toList (n : Nat) : (toString n).toList = Nat.toDigits 10 n := by
  rw [Nat.toString_eq_repr, Nat.toList_repr]

theorem degreeList_toList (vs : List Nat) : (degreeListAsString vs).toList = vs.flatMap tok := by
  unfold degreeListAsString
  rw [String.toList_join, List.flatMap_map]
  congr 1
  funext v
  unfold tok
  split
  · rename_i hv
    rw [toString_toList, Nat.toDigits_of_lt_base hv]
  · rw [String.toList_append, String.toList_append, toString_toList]
    rfl

theorem spec_digit {d : Nat} (hd : d < 10) :
    isDigit (Nat.digitChar d) = true ∧ digitVal (Nat.digitChar d) = d ∧
    (Nat.digitChar d == ')') = false ∧ (Nat.digitChar d == '(') = false := by
  have : d = 0 ∨ d = 1 ∨ d = 2 ∨ d = 3 ∨ d = 4 ∨ d = 5 ∨ d = 6 ∨ d = 7 ∨ d = 8 ∨ d = 9 := by omega
  rcases this with rfl | rfl | rfl | rfl | rfl | rfl | rfl | rfl | rfl | rfl <;> decide

/-- the value of a digit string, read from the left -/
def dfold (acc : Nat) (ds : List Char) : Nat := ds.foldl (fun a c => a * 10 + digitVal c) acc

theorem parseParen_digits (ds : List Char) : ∀ (rest : List Char) (acc : Nat) (any : Bool),
    (∀ c ∈ ds, isDigit c = true ∧ (c == ')') = false) → (any = true ∨ ds ≠ []) →
    parseParen (ds ++ ')' :: rest) acc any = some (dfold acc ds, rest) := by
  induction ds with
  | nil =>
    intro rest acc any _ hne
    have : any = true := by rcases hne with e | e; exact e; exact absurd rfl e
    subst this
    simp [parseParen, dfold]
  | cons c ds ih =>
    intro rest acc any hds _
    have hc := hds c (by simp)
    rw [List.cons_append, parseParen, hc.2, hc.1]
    simp only [Bool.false_eq_true, if_false, if_true]
    rw [ih rest _ true (fun c' hc' => hds c' (by simp [hc'])) (Or.inl rfl)]
    rfl

/-- the decimal digits of `v` are digits, and read back as `v` -/
theorem toDigits_ok (v : Nat) :
    (∀ c ∈ Nat.toDigits 10 v, isDigit c = true ∧ (c == ')') = false) ∧ dfold 0 (Nat.toDigits 10 v) = v := by
  induction v using Nat.strongRecOn with
  | _ v ih =>
    rw [Nat.toDigits_eq_if (by omega)]
    split
    · rename_i hv
      have := spec_digit hv
      refine ⟨?_, ?_⟩
      · intro c hc
        rw [List.mem_singleton] at hc
        subst hc
        exact ⟨this.1, this.2.2.1⟩
      · simp [dfold, this.2.1]
    · rename_i hv
      have hlt : v / 10 < v := by omega
      obtain ⟨i1, i2⟩ := ih (v / 10) hlt
      have := spec_digit (show v % 10 < 10 by omega)
      refine ⟨?_, ?_⟩
      · intro c hc
        rw [List.mem_append, List.mem_singleton] at hc
        rcases hc with hc | hc
        · exact i1 c hc
        · subst hc; exact ⟨this.1, this.2.2.1⟩
      · unfold dfold at i2 ⊢
        rw [List.foldl_append, i2]
        simp only [List.foldl_cons, List.foldl_nil, this.2.1]
        omega

theorem tok_ne_nil (v : Nat) : tok v ≠ [] := by
  unfold tok; split <;> simp

theorem tok_length (c : List Nat) : c.length ≤ (c.flatMap tok).length := by
  induction c with
  | nil => simp
  | cons v c ih =>
    rw [List.flatMap_cons, List.length_append, List.length_cons]
    have : 1 ≤ (tok v).length := List.length_pos_iff.2 (tok_ne_nil v)
    omega

/-! ### the Spec's parser on printed degree lists -/

/-- what may follow a degree list -/
def Stop (rest : List Char) : Prop := ∀ c r, rest = c :: r → isDigit c = false ∧ (c == '(') = false

theorem parseDegrees_tok (vs : List Nat) : ∀ (fuel : Nat) (acc : List Nat) (rest : List Char),
    vs.length ≤ fuel → Stop rest →
    parseDegrees fuel (vs.flatMap tok ++ rest) acc = some (acc.reverse ++ vs, rest) := by
  induction vs with
  | nil =>
    intro fuel acc rest _ hstop
    cases fuel with
    | zero => simp [parseDegrees]
    | succ f =>
      cases rest with
      | nil => simp [parseDegrees]
      | cons c r =>
        obtain ⟨h1, h2⟩ := hstop c r rfl
        simp [parseDegrees, h1, h2]
  | cons v vs ih =>
    intro fuel acc rest hlen hstop
    obtain ⟨f, rfl⟩ : ∃ f, fuel = f + 1 := ⟨fuel - 1, by simp at hlen; omega⟩
    have hlen' : vs.length ≤ f := by simp at hlen; omega
    rw [List.flatMap_cons, List.append_assoc]
    by_cases hv : v < 10
    · have htok : tok v = [Nat.digitChar v] := by unfold tok; rw [if_pos hv]
      rw [htok]
      have hd := spec_digit hv
      rw [List.singleton_append, parseDegrees]
      simp only [hd.1, if_true]
      rw [hd.2.1, ih f (v :: acc) rest hlen' hstop]
      simp
    · have htok : tok v = '(' :: Nat.toDigits 10 v ++ [')'] := by unfold tok; rw [if_neg hv]
      rw [htok]
      have hok := toDigits_ok v
      have e0 : ('(' :: Nat.toDigits 10 v ++ [')']) ++ (vs.flatMap tok ++ rest) =
          '(' :: (Nat.toDigits 10 v ++ ')' :: (vs.flatMap tok ++ rest)) := by simp
      rw [e0, parseDegrees]
      have e1 : isDigit '(' = false := by decide
      have e2 : ('(' == '(') = true := by decide
      simp only [e1, e2, Bool.false_eq_true, if_false, if_true]
      rw [parseParen_digits _ _ 0 false hok.1 (Or.inr Nat.toDigits_ne_nil), hok.2]
      simp only
      rw [ih f (v :: acc) rest hlen' hstop]
      simp

/-- the characters of one boundary component -/
def bndTok (c : List Nat) : List Char := '*' :: c.flatMap tok

/-- what may follow the boundary components -/
def StopB (rest : List Char) : Prop :=
  ∀ c r, rest = c :: r → isDigit c = false ∧ (c == '(') = false ∧ c ≠ '*'

theorem stop_of_bnds (bs : List (List Nat)) (rest : List Char) (h : StopB rest) :
    Stop (bs.flatMap bndTok ++ rest) := by
  intro c r e
  cases bs with
  | nil =>
    simp only [List.flatMap_nil, List.nil_append] at e
    exact ⟨(h c r e).1, (h c r e).2.1⟩
  | cons b bs =>
    rw [List.flatMap_cons] at e
    unfold bndTok at e
    simp only [List.cons_append] at e
    have : c = '*' := (List.cons.inj e).1.symm
    subst this
    exact ⟨by decide, by decide⟩

theorem parseBnds_tok (bs : List (List Nat)) : ∀ (fuel : Nat) (acc : List (List Nat)) (rest : List Char),
    bs.length ≤ fuel → StopB rest →
    parseBnds fuel (bs.flatMap bndTok ++ rest) acc = some (acc.reverse ++ bs, rest) := by
  induction bs with
  | nil =>
    intro fuel acc rest _ hstop
    cases fuel with
    | zero => simp [parseBnds]
    | succ f =>
      simp only [List.flatMap_nil, List.nil_append, List.append_nil]
      cases rest with
      | nil => simp [parseBnds]
      | cons c r =>
        have hc := (hstop c r rfl).2.2
        unfold parseBnds
        split
        · rename_i heq
          exact absurd (List.cons.inj heq).1 hc
        · rfl
  | cons b bs ih =>
    intro fuel acc rest hlen hstop
    obtain ⟨f, rfl⟩ : ∃ f, fuel = f + 1 := ⟨fuel - 1, by simp at hlen; omega⟩
    have hlen' : bs.length ≤ f := by simp at hlen; omega
    rw [List.flatMap_cons, List.append_assoc]
    have e : bndTok b ++ (bs.flatMap bndTok ++ rest) = '*' :: (b.flatMap tok ++ (bs.flatMap bndTok ++ rest)) := rfl
    rw [e, parseBnds]
    rw [parseDegrees_tok b _ [] (bs.flatMap bndTok ++ rest)
      (by have := tok_length b; rw [List.length_append]; omega) (stop_of_bnds bs rest hstop)]
    simp only [List.reverse_nil, List.nil_append]
    rw [ih f (b :: acc) rest hlen' hstop]
    simp

/-! ### the whole symbol -/

theorem takeWhile_replicate_same (n : Nat) (c : Char) :
    (List.replicate n c).takeWhile (· == c) = List.replicate n c ∧
    (List.replicate n c).dropWhile (· == c) = [] := by
  induction n with
  | zero => simp
  | succ n ih => simp [List.replicate_succ, ih.1, ih.2]

theorem takeWhile_replicate_other (n : Nat) {c d : Char} (h : (c == d) = false) :
    (List.replicate n c).takeWhile (· == d) = [] ∧
    (List.replicate n c).dropWhile (· == d) = List.replicate n c := by
  cases n with
  | zero => simp
  | succ n => simp [List.replicate_succ, h]

/-- the characters `orbifold_symbol` prints before its special cases -/
def bodyL (o : OrbSym) : List Char :=
  o.cones.flatMap tok ++ (o.bnds.flatMap bndTok ++
    List.replicate o.count (if o.orientable then 'o' else 'x'))

/-- the orbifold the Spec reads from a symbol -/
def orbRead (o : OrbSym) : Orb :=
  { cones := o.cones, bnds := o.bnds,
    handles := if o.orientable then o.count else 0, caps := if o.orientable then 0 else o.count }

theorem stopB_tail (o : OrbSym) : StopB (List.replicate o.count (if o.orientable then 'o' else 'x')) := by
  intro c r e
  have hc : c ∈ List.replicate o.count (if o.orientable then 'o' else 'x') := by rw [e]; simp
  have := List.eq_of_mem_replicate hc
  cases ho : o.orientable <;> simp [ho] at this <;> subst this <;> decide

/-- **the Spec's parser reads the printed characters back** (before the special cases `1`, `1*`,
    `1x`), for all orders -/
theorem parse_body (o : OrbSym) (hwf : ∀ v ∈ o.cones ++ o.bnds.flatten, 1 ≤ v) (s : String)
    (hs : s.toList = bodyL o) : parseSymbol s = some (orbRead o) := by
  unfold parseSymbol
  simp only
  rw [hs]
  unfold bodyL
  have hst := stopB_tail o
  rw [parseDegrees_tok o.cones _ [] _ (by
    have := tok_length o.cones
    simp only [List.length_append]; omega) (stop_of_bnds o.bnds _ hst)]
  simp only [List.reverse_nil, List.nil_append]
  rw [parseBnds_tok o.bnds _ [] _ (by
    have : ∀ bs : List (List Nat), bs.length ≤ (bs.flatMap bndTok).length := by
      intro bs
      induction bs with
      | nil => simp
      | cons b bs ih =>
        rw [List.flatMap_cons, List.length_append, List.length_cons]
        have : 1 ≤ (bndTok b).length := by unfold bndTok; rw [List.length_cons]; omega
        omega
    have := this o.bnds
    simp only [List.length_append]; omega) hst]
  simp only [List.reverse_nil, List.nil_append]
  have hall : (o.cones ++ o.bnds.flatten).all (fun x => decide (x ≥ 1)) = true := by
    rw [List.all_eq_true]
    intro v hv
    exact decide_eq_true (hwf v hv)
  cases ho : o.orientable with
  | true =>
    simp only [if_true]
    have h1 := takeWhile_replicate_same o.count 'o'
    rw [h1.1, h1.2]
    simp only [List.dropWhile_nil, List.takeWhile_nil, List.isEmpty_nil, Bool.true_and, hall, if_true,
      List.length_replicate, List.length_nil]
    unfold orbRead
    simp [ho]
  | false =>
    simp only [Bool.false_eq_true, if_false]
    have h1 := takeWhile_replicate_other o.count (c := 'x') (d := 'o') (by decide)
    have h2 := takeWhile_replicate_same o.count 'x'
    rw [h1.1, h1.2, h2.1, h2.2]
    simp only [List.isEmpty_nil, Bool.true_and, hall, if_true, List.length_replicate, List.length_nil]
    unfold orbRead
    simp [ho]

/-- the characters of the unnormalised string -/
theorem body_toList (o : OrbSym) :
    (degreeListAsString o.cones ++
      String.join (o.bnds.map fun c => "*" ++ degreeListAsString c) ++
      String.join (List.replicate o.count (if o.orientable then "o" else "x"))).toList = bodyL o := by
  rw [String.toList_append, String.toList_append, degreeList_toList, String.toList_join,
    String.toList_join, List.flatMap_map, List.append_assoc]
  unfold bodyL
  congr 2
  · congr 1
    funext c
    rw [String.toList_append, degreeList_toList]
    rfl
  · cases o.orientable <;> simp [List.flatMap_replicate] <;> rfl

/-- **the Spec's parser reads the returned string back as the same orbifold**, for all orders
    (multi-digit orders parenthesised from 10 on): same boundary components, handles and
    cross-caps, and the same cones — except that the strings `1`, `1*`, `1x`, printed for an
    otherwise empty symbol, are read with one cone of order 1 (no singular point) -/
theorem parse_render (o : OrbSym) (hwf : ∀ v ∈ o.cones ++ o.bnds.flatten, 1 ≤ v) :
    ∃ o', parseSymbol o.render = some o' ∧ o'.bnds = o.bnds ∧
      o'.handles = (orbRead o).handles ∧ o'.caps = (orbRead o).caps ∧
      (o'.cones = o.cones ∨ (o.cones = [] ∧ o'.cones = [1])) := by
  have hp := parse_body o hwf _ (body_toList o)
  unfold OrbSym.render
  simp only
  generalize (degreeListAsString o.cones ++
      String.join (o.bnds.map fun c => "*" ++ degreeListAsString c) ++
      String.join (List.replicate o.count (if o.orientable then "o" else "x"))) = s at hp ⊢
  by_cases h1 : s = "x"
  · subst h1
    have e : parseSymbol "x" = some { cones := [], bnds := [], handles := 0, caps := 1 } := by decide
    rw [e] at hp
    have hr := (Option.some.inj hp).symm
    refine ⟨{ cones := [1], bnds := [], handles := 0, caps := 1 }, by decide, ?_, ?_, ?_, Or.inr ⟨?_, rfl⟩⟩
    · exact (congrArg Orb.bnds hr).symm
    · exact (congrArg Orb.handles hr).symm
    · exact (congrArg Orb.caps hr).symm
    · exact congrArg Orb.cones hr
  · by_cases h2 : s = "*"
    · subst h2
      have e : parseSymbol "*" = some { cones := [], bnds := [[]], handles := 0, caps := 0 } := by decide
      rw [e] at hp
      have hr := (Option.some.inj hp).symm
      refine ⟨{ cones := [1], bnds := [[]], handles := 0, caps := 0 }, by decide, ?_, ?_, ?_, Or.inr ⟨?_, rfl⟩⟩
      · exact (congrArg Orb.bnds hr).symm
      · exact (congrArg Orb.handles hr).symm
      · exact (congrArg Orb.caps hr).symm
      · exact congrArg Orb.cones hr
    · by_cases h3 : s = ""
      · subst h3
        have e : parseSymbol "" = some { cones := [], bnds := [], handles := 0, caps := 0 } := by decide
        rw [e] at hp
        have hr := (Option.some.inj hp).symm
        refine ⟨{ cones := [1], bnds := [], handles := 0, caps := 0 }, by decide, ?_, ?_, ?_, Or.inr ⟨?_, rfl⟩⟩
        · exact (congrArg Orb.bnds hr).symm
        · exact (congrArg Orb.handles hr).symm
        · exact (congrArg Orb.caps hr).symm
        · exact congrArg Orb.cones hr
      · have b1 : (s == "x") = false := beq_eq_false_iff_ne.2 h1
        have b2 : (s == "*") = false := beq_eq_false_iff_ne.2 h2
        have b3 : (s == "") = false := beq_eq_false_iff_ne.2 h3
        rw [b1, b2, b3]
        simp only [Bool.false_eq_true, if_false]
        exact ⟨orbRead o, hp, rfl, rfl, rfl, Or.inl rfl⟩

end DSymVerif.D2
