/-
Property C05, π1 of a cover, part 4: the twisted action respects the 2-orbit relators, hence is a
homomorphism `thetaC : TGroup ds →* Perm (sheets × TGroup c)`; it moves the sheet by the monodromy
and commutes with left multiplication of the label.
-/
import DSymVerif.Proofs.CoversPi1Theta

namespace DSymVerif.CoversP
open DSymVerif DSymVerif.DS DSymVerif.FG DSymVerif.FGP

section
variable {ds c : DSymData} {n : Nat} {ρ : TGroup ds →* Equiv.Perm (Fin n)} {σ : Nat → Nat → Nat → Nat}
  (M : MCover ds c n ρ σ) (ℓ : Fin n → Nat → TGroup c)

theorem valTheta_orbit {a b b0 : Nat} (hab : a < b) (hb : b ≤ ds.dim) (h1 : 1 ≤ b0) (h2 : b0 ≤ ds.size) :
    OW ds (valTheta M ℓ) a b b0 ^ orbV ds a b b0 = 1 := by
  have ha : a ≤ ds.dim := by omega
  have hac : a ≤ c.dim := by rw [M.cov.dim]; exact ha
  have hbc : b ≤ c.dim := by rw [M.cov.dim]; exact hb
  have hpers := (orbR_period M.hs ha hb h1 h2).2
  unfold OW
  rw [← Wf_rounds (opT ds) (valTheta M ℓ) hpers (orbV ds a b b0), ← inv_eq_one]
  apply Equiv.ext
  rintro ⟨k, p⟩
  rw [theta_walk M ℓ ha hb h1 h2 k p]
  -- the monodromy of the closed walk to the power v is trivial
  have hmono : ρ (Wf (opT ds) (xT ds) a b (2 * (orbR ds a b b0 * orbV ds a b b0)) b0) = 1 := by
    rw [Wf_rounds (opT ds) (xT ds) hpers]
    have := xT_orbit M.hs (show a ≠ b by omega) ha hb h1 h2
    unfold OW at this
    rw [this, map_one]
  rw [hmono, wk_rounds (opT ds) hpers]
  -- the lifted walk goes v_c times round the 2-orbit of the cover
  have hd := cmk_range (sz := ds.size) (n := n) k.isLt h1 h2
  have h2c : ds.size * k.val + b0 ≤ c.size := by rw [M.cov.size]; exact hd.2
  obtain ⟨m, hm, hmv⟩ := M.orbit_numbers hac hbc hd.1 h2c
  rw [cproj_mk h1 h2] at hm hmv
  have hperc := (orbR_period M.hc hac hbc hd.1 h2c).2
  have hlift : Wf (opT c) (xT c) a b (2 * (orbR ds a b b0 * orbV ds a b b0)) (ds.size * k.val + b0) = 1 := by
    have e : orbR ds a b b0 * orbV ds a b b0 =
        orbR c a b (ds.size * k.val + b0) * orbV c a b (ds.size * k.val + b0) := by
      rw [hm, ← hmv, Nat.mul_assoc]
    rw [e, Wf_rounds (opT c) (xT c) hperc]
    have := xT_orbit M.hc (show a ≠ b by omega) hac hbc hd.1 h2c
    unfold OW at this
    exact this
  rw [hlift]
  simp

/-- **the twisted action** -/
noncomputable def thetaC (hℓ : SheetGauge ds c n ℓ) : TGroup ds →* Equiv.Perm (Fin n × TGroup c) :=
  tgroupLift M.hs (valTheta M ℓ)
    (fun x i h => valTheta_pair M ℓ h)
    (fun x i hmem => by
      obtain ⟨hn, _⟩ := spanningTree_itemOk M.hs.set (x, i, none) hmem
      exact valTheta_tree M ℓ hℓ hmem (spanningTree_ok M.hs.set (x, i, none) hmem hn))
    (fun a b x hab hb h1 h2 => valTheta_orbit M ℓ hab hb h1 h2)

theorem thetaC_xT (hℓ : SheetGauge ds c n ℓ) {b i : Nat} (h : FacetR ds b i) :
    thetaC M ℓ hℓ (xT ds b i) = (permX M ℓ b i)⁻¹ := by
  unfold thetaC
  rw [tgroupLift_xT M.hs _ _ _ _ h]
  rfl

/-- a permutation of `sheets × labels` that moves the sheet by `r` and commutes with left
    multiplication of the label -/
def Twisted (π : Equiv.Perm (Fin n × TGroup c)) (r : Equiv.Perm (Fin n)) : Prop :=
  ∀ k p p0, (π (k, p)).1 = r k ∧ π (k, p0 * p) = ((π (k, p)).1, p0 * (π (k, p)).2)

omit M in
theorem Twisted.one : Twisted (1 : Equiv.Perm (Fin n × TGroup c)) 1 := fun _ _ _ => ⟨rfl, rfl⟩

omit M in
theorem Twisted.mul {π π' : Equiv.Perm (Fin n × TGroup c)} {r r' : Equiv.Perm (Fin n)}
    (h : Twisted π r) (h' : Twisted π' r') : Twisted (π * π') (r * r') := by
  intro k p p0
  rw [Equiv.Perm.mul_apply, Equiv.Perm.mul_apply, Equiv.Perm.mul_apply]
  have a := h' k p p0
  have hx : π' (k, p) = ((π' (k, p)).1, (π' (k, p)).2) := rfl
  refine ⟨?_, ?_⟩
  · rw [hx, (h _ _ 1).1, a.1]
  · rw [a.2]
    have b := h (π' (k, p)).1 (π' (k, p)).2 p0
    rw [b.2]

omit M in
theorem Twisted.inv {π : Equiv.Perm (Fin n × TGroup c)} {r : Equiv.Perm (Fin n)}
    (h : Twisted π r) : Twisted π⁻¹ r⁻¹ := by
  intro k p p0
  have hx : π (π⁻¹ (k, p)) = (k, p) := by simp
  have hpair : π⁻¹ (k, p) = ((π⁻¹ (k, p)).1, (π⁻¹ (k, p)).2) := rfl
  have h1 := (h (π⁻¹ (k, p)).1 (π⁻¹ (k, p)).2 p0)
  rw [← hpair, hx] at h1
  refine ⟨?_, ?_⟩
  · have : r (π⁻¹ (k, p)).1 = k := h1.1.symm
    rw [Equiv.Perm.eq_inv_iff_eq]
    exact this
  · rw [Equiv.Perm.inv_eq_iff_eq, h1.2]

theorem permX_twisted {b i : Nat} (h : FacetR ds b i) : Twisted (permX M ℓ b i) (tau ρ b i) := by
  intro k p p0
  rw [permX_apply M ℓ h, permX_apply M ℓ h]
  unfold stepX
  refine ⟨rfl, ?_⟩
  show (tau ρ b i k, p0 * p * lam ρ ℓ k b i) = (tau ρ b i k, p0 * (p * lam ρ ℓ k b i))
  rw [mul_assoc]

/-- the twisted action moves the sheet by the monodromy and commutes with left multiplication -/
theorem thetaC_twisted (hℓ : SheetGauge ds c n ℓ) (g : TGroup ds) :
    Twisted (thetaC M ℓ hℓ g) (ρ g) := by
  let S : Subgroup (TGroup ds) :=
    { carrier := {g | Twisted (thetaC M ℓ hℓ g) (ρ g)}
      one_mem' := by show Twisted _ _; rw [map_one, map_one]; exact Twisted.one
      mul_mem' := by
        intro a b ha hb
        show Twisted _ _
        rw [map_mul, map_mul]; exact Twisted.mul ha hb
      inv_mem' := by
        intro a ha
        show Twisted _ _
        rw [map_inv, map_inv]; exact Twisted.inv ha }
  have hgen : ∀ j : ℕ, (PresentedGroup.of j : TGroup ds) ∈ S := by
    intro j
    by_cases hj : isCode ds j
    · rw [of_eq_xT hj]
      show Twisted _ _
      rw [thetaC_xT M ℓ hℓ hj.1]
      have := Twisted.inv (permX_twisted M ℓ hj.1)
      unfold tau at this
      rw [inv_inv] at this
      exact this
    · rw [of_not_code hj]; exact S.one_mem
  exact PresentedGroup.generated_by _ S hgen g

end

end DSymVerif.CoversP
