/-
Orientation (a 2-colouring reversed by every operation) as an invariant of the rewriting steps, and
its consequences: no face is glued to itself, and the call sites of `fix_non_disk_face` are in
general position — its invariant theorem needs no hypothesis beyond those on the input.
-/
import DSymVerif.Proofs.SimplifyManifold

namespace DSymVerif.Simp
open DSymVerif DSymVerif.DS

theorem Colouring.cpi {ds : DSetData} {col : Nat → Bool} (hc : Colouring ds col) (hv : ValidSet ds) {i c : Nat}
    (hi : i ≤ ds.dim) (hcc : c ≤ ds.dim) {x : Nat} (h1 : 1 ≤ x) (h2 : x ≤ ds.size) :
    col (cpi ds i c x) = col x := by
  unfold Simp.cpi
  have r := hv.range c x hcc h1 h2
  rw [hc i _ hi r.1 r.2, hc c x hcc h1 h2]; simp

theorem Colouring.iter {ds : DSetData} {col : Nat → Bool} (hc : Colouring ds col) (hv : ValidSet ds) {i c : Nat}
    (hi : i ≤ ds.dim) (hcc : c ≤ ds.dim) {x : Nat} (h1 : 1 ≤ x) (h2 : x ≤ ds.size) :
    ∀ t, col ((Simp.cpi ds i c)^[t] x) = col x
  | 0 => rfl
  | t + 1 => by
    rw [Function.iterate_succ_apply']
    have r := cpi_iter_range hv hi hcc h1 h2 t
    rw [hc.cpi hv hi hcc r.1 r.2]
    exact Colouring.iter hc hv hi hcc h1 h2 t

theorem Colouring.loopless {ds : DSetData} {col : Nat → Bool} (hc : Colouring ds col) : Loopless ds := by
  intro i d hi h1 h2 he
  have := hc i d hi h1 h2
  rw [he] at this
  cases h : col d <;> simp [h] at this

/-! ### collapse -/

open Classical in
/-- **`collapse` keeps a D-set oriented**: the colouring of the kept chambers is a colouring of the
    result (the re-routed operation is an odd word) -/
theorem collapse_oriented {ds s : DSetData} {num : Nat → Nat} {remove : List Nat} {c : Nat}
    (hv : ValidSet ds) {col : Nat → Bool} (hcol : Colouring ds col) (res : CollapseRes ds remove c s num) (hc : c ≤ ds.dim) :
    ∃ col', Colouring s col' ∧ ∀ x, 1 ≤ x → x ≤ ds.size → x ∉ remove → col' (num x) = col x := by
  refine ⟨fun v => decide (∃ x, 1 ≤ x ∧ x ≤ ds.size ∧ x ∉ remove ∧ num x = v ∧ col x = true), ?_⟩
  have key : ∀ x, 1 ≤ x → x ≤ ds.size → x ∉ remove →
      decide (∃ x', 1 ≤ x' ∧ x' ≤ ds.size ∧ x' ∉ remove ∧ num x' = num x ∧ col x' = true) = col x := by
    intro x h1 h2 hx
    cases hcx : col x with
    | true => simp only [decide_eq_true_eq]; exact ⟨x, h1, h2, hx, rfl, hcx⟩
    | false =>
      simp only [decide_eq_false_iff_not]
      rintro ⟨x', a, b, c', e, f⟩
      have := res.num_inj x' x a b c' h1 h2 hx e
      rw [this, hcx] at f; cases f
  refine ⟨?_, key⟩
  intro i v hi hv1 hv2
  rw [res.dim] at hi
  obtain ⟨x, hx1, hx2, hx, rfl⟩ := res.num_surj v hv1 hv2
  simp only
  rw [key x hx1 hx2 hx]
  by_cases hic : i = c
  · subst hic
    obtain ⟨hk, hval⟩ := res.op_conn x hx1 hx2 hx
    have r := hv.range i x hi hx1 hx2
    rw [hval, key _ r.1 r.2 hk]; exact hcol i x hi hx1 hx2
  · obtain ⟨t0, _, hk0, hval⟩ := res.op_walk i x hi hic hx1 hx2 hx
    have re := hv.range i x hi hx1 hx2
    have ry := cpi_iter_range hv hi hc re.1 re.2 t0
    rw [hval, key _ ry.1 ry.2 hk0, hcol.iter hv hi hc re.1 re.2 t0]; exact hcol i x hi hx1 hx2

/-! ### reglue -/

theorem reglue_colouring {ds s : DSetData} {pairs : List (Nat × Nat)} {index : Nat} (hv : ValidSet ds)
    {col : Nat → Bool} (hcol : Colouring ds col) (h : reglue ds pairs index = .ok (some s)) (hidx : index ≤ ds.dim)
    (hp : ∀ p ∈ pairs, col p.2 = !col p.1) : Colouring s col := by
  obtain ⟨_, hs1, hs2, hoth, hpair, hunp⟩ := reglue_ok_valid hv h
  intro i v hi hv1 hv2
  rw [hs2] at hi; rw [hs1] at hv2
  by_cases hii : i = index
  · subst hii
    cases hq : pairedGet pairs v with
    | some y =>
      rw [(hpair v y hv1 hv2 hidx hq).1]
      obtain ⟨p, hpm, hpp⟩ := pairedGet_mem pairs v y hq
      have := hp p hpm
      obtain ⟨a, b⟩ := p
      rw [partnerIn_eq_some] at hpp
      rcases hpp with ⟨h1, h2⟩ | ⟨_, h1, h2⟩
      · simp only at this h1 h2; rw [h2, ← h1, this]; simp
      · simp only at this h1 h2; rw [h2, ← h1, this]
    | none => rw [hunp v hv1 hv2 hidx hq]; exact hcol i v hi hv1 hv2
  · rw [hoth i v hi hv1 hv2 hii]; exact hcol i v hi hv1 hv2


/-! ### a face is never glued to itself -/

/-- normal forms of the chambers of an (i,j)-orbit: even and odd alternating words applied to x -/
def InDihedral (ds : DSetData) (i j x y : Nat) : Prop :=
  ∃ t, y = (cpi ds i j)^[t] x ∨ y = (cpi ds j i)^[t] x ∨ y = (cpi ds i j)^[t] (ds.opU i x) ∨
    y = (cpi ds j i)^[t] (ds.opU j x)

theorem InDihedral.swap {ds : DSetData} {i j x y : Nat} (h : InDihedral ds i j x y) : InDihedral ds j i x y := by
  obtain ⟨t, h | h | h | h⟩ := h
  · exact ⟨t, Or.inr (Or.inl h)⟩
  · exact ⟨t, Or.inl h⟩
  · exact ⟨t, Or.inr (Or.inr (Or.inr h))⟩
  · exact ⟨t, Or.inr (Or.inr (Or.inl h))⟩

/-- closed under `s_i` -/
theorem InDihedral.step_i {ds : DSetData} (hv : ValidSet ds) {i j x y : Nat} (hi : i ≤ ds.dim) (hj : j ≤ ds.dim)
    (h1 : 1 ≤ x) (h2 : x ≤ ds.size) (h : InDihedral ds i j x y) : InDihedral ds i j x (ds.opU i y) := by
  have ri := hv.range i x hi h1 h2
  have rj := hv.range j x hj h1 h2
  obtain ⟨t, h | h | h | h⟩ := h
  · -- s_i (s_i s_j)^t x
    cases t with
    | zero => exact ⟨0, Or.inr (Or.inr (Or.inl (by rw [h]; rfl)))⟩
    | succ t =>
      refine ⟨t, Or.inr (Or.inr (Or.inr ?_))⟩
      rw [h, Function.iterate_succ_apply', cpi_conj j i t x]
      have r := cpi_iter_range hv hi hj h1 h2 t
      have rjj := hv.range j _ hj r.1 r.2
      show ds.opU i (ds.opU i (ds.opU j _)) = _
      rw [hv.invol i _ hi rjj.1 rjj.2]
  · refine ⟨t, Or.inr (Or.inr (Or.inl ?_))⟩
    rw [h, cpi_conj i j t x]
  · refine ⟨t, Or.inr (Or.inl ?_)⟩
    rw [h, cpi_conj i j t x]
    have r := cpi_iter_range hv hj hi h1 h2 t
    rw [hv.invol i _ hi r.1 r.2]
  · refine ⟨t + 1, Or.inl ?_⟩
    rw [h, cpi_conj j i t x, Function.iterate_succ_apply']
    rfl

theorem reach_inDihedral {ds : DSetData} (hv : ValidSet ds) {i j x y : Nat} (hi : i ≤ ds.dim) (hj : j ≤ ds.dim)
    (h1 : 1 ≤ x) (h2 : x ≤ ds.size) (h : ds.viewPartial.Reach [i, j] x y) : InDihedral ds i j x y := by
  induction h with
  | refl => exact ⟨0, Or.inl rfl⟩
  | step hre hk hop ih =>
    rename_i e c k
    have re := reach_range hv h1 h2 hre
    simp only [List.mem_cons, List.not_mem_nil, or_false] at hk
    rcases hk with rfl | rfl
    · rw [viewPartial_op hv hi re.1 re.2] at hop
      cases hop
      exact ih.step_i hv hi hj h1 h2
    · rw [viewPartial_op hv hj re.1 re.2] at hop
      cases hop
      exact (ih.swap.step_i hv hj hi h1 h2).swap

/-- an odd alternating word in two operations that both commute with and differ from s_k never
    agrees with s_k -/
theorem odd_word_ne_far {ds : DSetData} (hv : ValidSet ds) {k : Nat} (hk : k ≤ ds.dim)
    (hcomm : ∀ a, a ≤ ds.dim → (a + 1 < k ∨ k + 1 < a) → ∀ z, 1 ≤ z → z ≤ ds.size →
      ds.opU a (ds.opU k z) = ds.opU k (ds.opU a z))
    (hdiff : ∀ a, a ≤ ds.dim → (a + 1 < k ∨ k + 1 < a) → ∀ z, 1 ≤ z → z ≤ ds.size → ds.opU a z ≠ ds.opU k z) :
    ∀ (t a b : Nat), a ≤ ds.dim → b ≤ ds.dim → (a + 1 < k ∨ k + 1 < a) → (b + 1 < k ∨ k + 1 < b) →
    ∀ x, 1 ≤ x → x ≤ ds.size → (cpi ds a b)^[t] (ds.opU a x) ≠ ds.opU k x
  | 0, a, b, ha, hb, fa, fb, x, h1, h2 => hdiff a ha fa x h1 h2
  | t + 1, a, b, ha, hb, fa, fb, x, h1, h2 => by
    intro he
    have ra := hv.range a x ha h1 h2
    rw [Function.iterate_succ_apply] at he
    have : cpi ds a b (ds.opU a x) = ds.opU a (ds.opU b (ds.opU a x)) := rfl
    rw [this, cpi_conj a b t] at he
    have rb := hv.range b _ hb ra.1 ra.2
    have rr := cpi_iter_range hv hb ha rb.1 rb.2 t
    have he' := congrArg (ds.opU a) he
    rw [hv.invol a _ ha rr.1 rr.2, hcomm a ha fa x h1 h2] at he'
    exact odd_word_ne_far hv hk hcomm hdiff t b a hb ha fb fa (ds.opU a x) ra.1 ra.2 he'

/-- **no face is glued to itself**: in an oriented D-set whose far operations commute and differ,
    `s_3 x` never lies in the (0,1)-orbit of `x` -/
theorem face_not_self_glued {ds : DSetData} (hv : ValidSet ds) (hdim : ds.dim = 3) (hf : FarCommute ds)
    (hd : FarDiffer ds) {col : Nat → Bool} (hcol : Colouring ds col) {x : Nat} (h1 : 1 ≤ x) (h2 : x ≤ ds.size) :
    ¬ ds.viewPartial.Reach [0, 1] x (ds.opU 3 x) := by
  intro hr
  have hcomm : ∀ a, a ≤ ds.dim → (a + 1 < 3 ∨ 3 + 1 < a) → ∀ z, 1 ≤ z → z ≤ ds.size →
      ds.opU a (ds.opU 3 z) = ds.opU 3 (ds.opU a z) :=
    fun a ha fa z a1 a2 => FarCommute.symm' hf (by omega) ha (by omega) a1 a2
  have hdiff : ∀ a, a ≤ ds.dim → (a + 1 < 3 ∨ 3 + 1 < a) → ∀ z, 1 ≤ z → z ≤ ds.size → ds.opU a z ≠ ds.opU 3 z :=
    fun a ha fa z a1 a2 => FarDiffer.symm' hd ha (by omega) (by omega) a1 a2
  have c3 := hcol 3 x (by omega) h1 h2
  obtain ⟨t, h | h | h | h⟩ := reach_inDihedral hv (by omega) (by omega) h1 h2 hr
  · have := hcol.iter hv (i := 0) (c := 1) (by omega) (by omega) h1 h2 t
    rw [← h, c3] at this
    cases hx : col x <;> simp [hx] at this
  · have := hcol.iter hv (i := 1) (c := 0) (by omega) (by omega) h1 h2 t
    rw [← h, c3] at this
    cases hx : col x <;> simp [hx] at this
  · exact odd_word_ne_far hv (by omega) hcomm hdiff t 0 1 (by omega) (by omega) (by omega) (by omega) x h1 h2 h.symm
  · exact odd_word_ne_far hv (by omega) hcomm hdiff t 1 0 (by omega) (by omega) (by omega) (by omega) x h1 h2 h.symm


/-! ### general position of the corner re-gluing of `fix_non_disk_face` -/

theorem ne_of_col {col : Nat → Bool} {x y : Nat} (h : col x = !col y) : x ≠ y := by
  intro e; rw [e] at h; cases hy : col y <;> simp [hy] at h

/-- **the call sites of `fix_non_disk_face` are in general position**: for two different chambers
    d, e of the same colour in the same face, the eight chambers of the corner re-gluing are
    pairwise distinct (in an oriented D-set with commuting, differing far operations) -/
theorem corner_distinct {ds : DSetData} (hv : ValidSet ds) (hdim : ds.dim = 3) (hf : FarCommute ds) (hd : FarDiffer ds)
    {col : Nat → Bool} (hcol : Colouring ds col) {d e : Nat} (hd1 : 1 ≤ d) (hd2 : d ≤ ds.size) (he1 : 1 ≤ e)
    (he2 : e ≤ ds.size) (hne : d ≠ e) (hce : col e = col d) (hface : ds.viewPartial.Reach [0, 1] d e) :
    [d, ds.opU 1 e, e, ds.opU 1 d, ds.opU 3 d, ds.opU 1 (ds.opU 3 e), ds.opU 3 e, ds.opU 1 (ds.opU 3 d)].Nodup := by
  have hl := hcol.loopless
  have r1d := hv.range 1 d (by omega) hd1 hd2
  have r1e := hv.range 1 e (by omega) he1 he2
  have r3d := hv.range 3 d (by omega) hd1 hd2
  have r3e := hv.range 3 e (by omega) he1 he2
  have c1d := hcol 1 d (by omega) hd1 hd2
  have c1e := hcol 1 e (by omega) he1 he2
  have c3d := hcol 3 d (by omega) hd1 hd2
  have c3e := hcol 3 e (by omega) he1 he2
  have cg1 := hcol 1 _ (by omega) r3e.1 r3e.2
  have cf1 := hcol 1 _ (by omega) r3d.1 r3d.2
  have i1d := hv.invol 1 d (by omega) hd1 hd2
  have i1e := hv.invol 1 e (by omega) he1 he2
  have i3d := hv.invol 3 d (by omega) hd1 hd2
  have i3e := hv.invol 3 e (by omega) he1 he2
  have c13 : ∀ x, 1 ≤ x → x ≤ ds.size → ds.opU 3 (ds.opU 1 x) = ds.opU 1 (ds.opU 3 x) :=
    fun x a b => hf 1 3 x (by omega) (by omega) a b
  have d13 : ∀ x, 1 ≤ x → x ≤ ds.size → ds.opU 1 x ≠ ds.opU 3 x :=
    fun x a b => hd 1 3 x (by omega) (by omega) a b
  -- the one configuration that needs the face: e = s3 s1 d
  have hC : e ≠ ds.opU 3 (ds.opU 1 d) := by
    intro he
    apply face_not_self_glued hv hdim hf hd hcol r1d.1 r1d.2
    rw [← he]
    exact (View.Reach.step (i := 1) (View.Reach.refl _) (by simp)
      (by rw [viewPartial_op hv (by omega) r1d.1 r1d.2, i1d])).trans hface
  have inj1 : ∀ x y, 1 ≤ x → x ≤ ds.size → 1 ≤ y → y ≤ ds.size → ds.opU 1 x = ds.opU 1 y → x = y := by
    intro x y a b c d' h
    have := congrArg (ds.opU 1) h
    rwa [hv.invol 1 x (by omega) a b, hv.invol 1 y (by omega) c d'] at this
  have inj3 : ∀ x y, 1 ≤ x → x ≤ ds.size → 1 ≤ y → y ≤ ds.size → ds.opU 3 x = ds.opU 3 y → x = y := by
    intro x y a b c d' h
    have := congrArg (ds.opU 3) h
    rwa [hv.invol 3 x (by omega) a b, hv.invol 3 y (by omega) c d'] at this
  simp only [List.nodup_cons, List.mem_cons, List.not_mem_nil, or_false, not_or, List.nodup_nil, and_true,
    not_false_eq_true]
  refine ⟨⟨?_, hne, ?_, ?_, ?_, ?_, ?_⟩, ⟨?_, ?_, ?_, ?_, ?_, ?_⟩, ⟨?_, ?_, ?_, ?_, ?_⟩, ⟨?_, ?_, ?_, ?_⟩,
    ⟨?_, ?_, ?_⟩, ⟨?_, ?_⟩, ?_⟩
  · exact Ne.symm (ne_of_col (col := col) (by rw [c1e, hce]))
  · exact Ne.symm (ne_of_col (col := col) c1d)
  · exact Ne.symm (ne_of_col (col := col) c3d)
  · -- d ≠ s1 s3 e
    intro h
    apply hC
    have := congrArg (ds.opU 1) h
    rw [hv.invol 1 _ (by omega) r3e.1 r3e.2] at this
    have := congrArg (ds.opU 3) this
    rw [i3e] at this
    exact this.symm
  · exact Ne.symm (ne_of_col (col := col) (by rw [c3e, hce]))
  · -- d ≠ s1 s3 d
    intro h
    have := congrArg (ds.opU 1) h
    rw [hv.invol 1 _ (by omega) r3d.1 r3d.2] at this
    exact d13 d hd1 hd2 this
  · exact ne_of_col (col := col) c1e
  · exact fun h => hne (inj1 e d he1 he2 hd1 hd2 h).symm
  · -- s1 e ≠ s3 d
    intro h
    apply hC
    have := congrArg (ds.opU 1) h
    rw [i1e] at this
    rw [this, c13 d hd1 hd2]
  · exact ne_of_col (col := col) (by rw [c1e, cg1, c3e]; simp)
  · exact d13 e he1 he2
  · exact ne_of_col (col := col) (by rw [c1e, cf1, c3d, hce]; simp)
  · exact Ne.symm (ne_of_col (col := col) (by rw [c1d, hce]))
  · exact Ne.symm (ne_of_col (col := col) (by rw [c3d, hce]))
  · -- e ≠ s1 s3 e
    intro h
    have := congrArg (ds.opU 1) h
    rw [hv.invol 1 _ (by omega) r3e.1 r3e.2] at this
    exact d13 e he1 he2 this
  · exact Ne.symm (ne_of_col (col := col) c3e)
  · -- e ≠ s1 s3 d
    rw [← c13 d hd1 hd2]; exact hC
  · exact d13 d hd1 hd2
  · exact ne_of_col (col := col) (by rw [c1d, cg1, c3e, hce]; simp)
  · -- s1 d ≠ s3 e
    intro h
    apply hC
    have := congrArg (ds.opU 3) h
    rw [i3e] at this
    exact this.symm
  · exact ne_of_col (col := col) (by rw [c1d, cf1, c3d]; simp)
  · exact Ne.symm (ne_of_col (col := col) (by rw [cg1, c3e, c3d, hce]))
  · exact fun h => hne (inj3 d e hd1 hd2 he1 he2 h)
  · exact Ne.symm (ne_of_col (col := col) cf1)
  · exact ne_of_col (col := col) cg1
  · exact fun h => hne (inj3 e d he1 he2 hd1 hd2 (inj1 _ _ r3e.1 r3e.2 r3d.1 r3d.2 h)).symm
  · exact Ne.symm (ne_of_col (col := col) (by rw [cf1, c3d, c3e, hce]))


/-! ### `fix_non_disk_face` without the general-position hypothesis -/

/-- `face_rep`: chambers with the same entry lie in the same (0,1)-orbit -/
theorem faceRep_spec {ds : DSetData} (hv : ValidSet ds) {x y : Nat} (hx1 : 1 ≤ x) (hx2 : x ≤ ds.size)
    (hy1 : 1 ≤ y) (hy2 : y ≤ ds.size) (h : (faceRep ds).getD x 0 = (faceRep ds).getD y 0) :
    ds.viewPartial.Reach [0, 1] x y := by
  have pinv := hv.toPartial.pinvol
  obtain ⟨_, hr2, hr3⟩ := DSymVerif.C02.orbitReps_one_per_component ds.viewPartial pinv [0, 1] (seedsIncl ds)
  have memIncl : ∀ z, 1 ≤ z → z ≤ ds.size → z ∈ seedsIncl ds := by
    intro z h1 h2
    unfold seedsIncl
    simp only [List.mem_map, List.mem_range]
    exact ⟨z - 1, by omega, by omega⟩
  have hfr : faceRep ds = ((ds.viewPartial.orbitReps [0, 1] (seedsIncl ds)).map (fun d => (d, d))).foldl
      (fun (a : Array Nat) (di : Nat × Nat) =>
        (ds.viewPartial.orbit [0, 1] di.1).foldl (fun (a : Array Nat) e => a.setIfInBounds e di.2) a)
      (Array.replicate (ds.size + 1) 0) := by
    unfold faceRep
    rw [List.foldl_map]
  have hpw : ((ds.viewPartial.orbitReps [0, 1] (seedsIncl ds)).map (fun d => (d, d))).Pairwise
      (fun p q => ∀ z, z ∈ ds.viewPartial.orbit [0, 1] p.1 → z ∉ ds.viewPartial.orbit [0, 1] q.1) := by
    rw [List.pairwise_map]
    refine hr3.imp ?_
    intro p q hpq z hzp hzq
    exact hpq (((mem_orbit hv).1 hzp).trans (View.Reach.symm pinv ((mem_orbit hv).1 hzq)))
  have val : ∀ z, 1 ≤ z → z ≤ ds.size → ds.viewPartial.Reach [0, 1] ((faceRep ds).getD z 0) z := by
    intro z h1 h2
    obtain ⟨r, hr, hrz⟩ := hr2 z (memIncl z h1 h2)
    have := (e2i_fold (fun d => ds.viewPartial.orbit [0, 1] d) _ (Array.replicate (ds.size + 1) 0) z hpw
      (by simp; omega)).2.1 (r, r) (List.mem_map.2 ⟨r, hr, rfl⟩) ((mem_orbit hv).2 hrz)
    rw [hfr, this]
    exact hrz
  have a := val x hx1 hx2
  have b := val y hy1 hy2
  rw [h] at a
  exact (View.Reach.symm pinv a).trans b

theorem nonDiskWhile_site {ds : DSetData} {d : Nat} {x : DOE} (hv : ValidSet ds) (hdim : ds.dim = 3)
    {col : Nat → Bool} (hcol : Colouring ds col) : ∀ (fuel e : Nat),
    1 ≤ e → e ≤ ds.size → col e = col d → nonDiskWhile ds (faceRep ds) d fuel e = .ok (some x) →
    ∃ e', (1 ≤ e' ∧ e' ≤ ds.size) ∧ e' ≠ d ∧ col e' = col d ∧
      (faceRep ds).getD e' 0 = (faceRep ds).getD d 0 ∧ nonDiskGlue ds d e' = .ok (some x)
  | 0, e, _, _, _, h => by unfold nonDiskWhile at h; cases h
  | fuel + 1, e, h1, h2, hce, h => by
    unfold nonDiskWhile at h
    split at h
    · cases h
    · rename_i hne
      split at h
      · rename_i fe fd hfe hfd
        split at h
        · rename_i heq
          refine ⟨e, ⟨h1, h2⟩, hne, hce, ?_, h⟩
          unfold idxO at hfe hfd
          split at hfe
          · rename_i v1 hv1'
            split at hfd
            · rename_i v2 hv2'
              cases hfe; cases hfd
              simp only [Array.getD_eq_getD_getElem?, hv1', hv2', Option.getD_some]
              exact heq
            · cases hfd
          · cases hfe
        · rw [opx_valid hv (by omega) h1 h2] at h
          simp only at h
          have r2 := hv.range 2 e (by omega) h1 h2
          rw [opx_valid hv (by omega) r2.1 r2.2] at h
          simp only at h
          have r1 := hv.range 1 _ (by omega) r2.1 r2.2
          refine nonDiskWhile_site hv hdim hcol fuel _ r1.1 r1.2 ?_ h
          rw [hcol 1 _ (by omega) r2.1 r2.2, hcol 2 e (by omega) h1 h2, hce]; simp
      · cases h
      · cases h
      · cases h

theorem nonDiskLoop_site {ds : DSetData} {x : DOE} (hv : ValidSet ds) (hdim : ds.dim = 3)
    {col : Nat → Bool} (hcol : Colouring ds col) :
    ∀ {reps : List Nat}, (∀ d ∈ reps, 1 ≤ d ∧ d ≤ ds.size) → nonDiskLoop ds (faceRep ds) reps = .ok (some x) →
    ∃ d e, (1 ≤ d ∧ d ≤ ds.size) ∧ (1 ≤ e ∧ e ≤ ds.size) ∧ e ≠ d ∧ col e = col d ∧
      (faceRep ds).getD e 0 = (faceRep ds).getD d 0 ∧ nonDiskGlue ds d e = .ok (some x)
  | [], _, h => by unfold nonDiskLoop at h; cases h
  | d :: rest, hr, h => by
    have rd := hr d (List.mem_cons_self ..)
    unfold nonDiskLoop at h
    rw [opx_valid hv (by omega) rd.1 rd.2] at h
    simp only at h
    have r2 := hv.range 2 d (by omega) rd.1 rd.2
    rw [opx_valid hv (by omega) r2.1 r2.2] at h
    simp only at h
    have r1 := hv.range 1 _ (by omega) r2.1 r2.2
    cases hw : nonDiskWhile ds (faceRep ds) d (ds.size + 1) (ds.opU 1 (ds.opU 2 d)) with
    | ok o =>
      rw [hw] at h
      cases o with
      | none =>
        simp only at h
        exact nonDiskLoop_site hv hdim hcol (fun d' hd' => hr d' (List.mem_cons_of_mem _ hd')) h
      | some y =>
        simp only at h
        cases h
        have hc0 : col (ds.opU 1 (ds.opU 2 d)) = col d := by
          rw [hcol 1 _ (by omega) r2.1 r2.2, hcol 2 d (by omega) rd.1 rd.2]; simp
        obtain ⟨e', he, hne, hce, hfe, hg⟩ := nonDiskWhile_site hv hdim hcol _ _ r1.1 r1.2 hc0 hw
        exact ⟨d, e', rd, he, hne, hce, hfe, hg⟩
    | err => rw [hw] at h; cases h
    | panic => rw [hw] at h; cases h

/-- **`fix_non_disk_face` keeps the manifold clauses and the orientation — no general-position
    hypothesis**: the guards of the code (e ≠ d on the walk around the vertex, same face) imply
    that the eight chambers of the corner re-gluing are distinct -/
theorem fixNonDiskFace_oriented {ds s : DSetData} (hm : Manifold3 ds) {col : Nat → Bool} (hcol : Colouring ds col)
    (h : fixNonDiskFace (.dset ds) = .ok (some (.dset s))) : Manifold3 s ∧ Colouring s col ∧ s.size = ds.size := by
  obtain ⟨⟨hv, hdim, hf⟩, hl, hd⟩ := hm
  unfold fixNonDiskFace at h
  obtain ⟨d, e, rd, re, hne, hce, hfe, hg⟩ := nonDiskLoop_site hv hdim hcol
    (fun d hd' => mem_seedsIncl (orbitReps_mem_seeds hv hd')) h
  have hface := faceRep_spec hv rd.1 rd.2 re.1 re.2 hfe.symm
  have hnd := corner_distinct hv hdim hf hd hcol rd.1 rd.2 re.1 re.2 (Ne.symm hne) hce hface
  -- unfold the glue
  unfold nonDiskGlue at hg
  obtain ⟨f, hf', k1⟩ := bind_ok hg
  obtain ⟨g, hg', k2⟩ := bind_ok k1
  obtain ⟨d1, hd1', k3⟩ := bind_ok k2
  obtain ⟨e1, he1', k4⟩ := bind_ok k3
  obtain ⟨f1, hf1', k5⟩ := bind_ok k4
  obtain ⟨g1, hg1', k6⟩ := bind_ok k5
  obtain ⟨out, hout, k7⟩ := bind_ok k6
  clear hg k1 k2 k3 k4 k5 k6
  have vf := (opx_ok hf').2.2.2.1
  have vg := (opx_ok hg').2.2.2.1
  have vd1 := (opx_ok hd1').2.2.2.1
  have ve1 := (opx_ok he1').2.2.2.1
  subst vf vg vd1 ve1
  have vf1 := (opx_ok hf1').2.2.2.1
  have vg1 := (opx_ok hg1').2.2.2.1
  subst vf1 vg1
  have : out = s := by
    have h' : (Outcome.ok (some (DOE.dset out)) : Step) = .ok (some (.dset s)) := k7
    cases h'; rfl
  subst this
  have hr := reglueU_ok hout
  obtain ⟨m3, hsz⟩ := cornerGlue_manifold3 ⟨⟨hv, hdim, hf⟩, hl, hd⟩ rd.1 rd.2 re.1 re.2 hnd hr
  refine ⟨m3, ?_, hsz⟩
  apply reglue_colouring hv hcol hr (by omega)
  have r3d := hv.range 3 d (by omega) rd.1 rd.2
  have r3e := hv.range 3 e (by omega) re.1 re.2
  intro p hp
  simp only [List.mem_cons, List.not_mem_nil, or_false] at hp
  rcases hp with rfl | rfl | rfl | rfl
  · simp only; rw [hcol 1 e (by omega) re.1 re.2, hce]
  · simp only; rw [hcol 1 d (by omega) rd.1 rd.2, hce]
  · simp only; rw [hcol 1 _ (by omega) r3e.1 r3e.2, hcol 3 e (by omega) re.1 re.2, hcol 3 d (by omega) rd.1 rd.2, hce]
  · simp only; rw [hcol 1 _ (by omega) r3d.1 r3d.2, hcol 3 e (by omega) re.1 re.2, hcol 3 d (by omega) rd.1 rd.2, hce]


/-- the manifold clauses (except sphericity) together with an orientation -/
def OM (ds : DSetData) : Prop := Manifold3 ds ∧ Oriented ds

theorem collapse_face_orbit_OM {ds s : DSetData} (hm : OM ds) {c : Nat} (hc1 : 1 ≤ c) (hc2 : c ≤ ds.size)
    (h : collapse (.dset ds) (ds.viewPartial.orbit [0, 1, 3] c) 3 = .ok (some (.dset s))) : OM s := by
  obtain ⟨hm3, col, hcol⟩ := hm
  have hv := hm3.1.1
  have hdim := hm3.1.2.1
  obtain ⟨hr, hcl⟩ := orbit_closed hv (idx := [0, 1, 3]) hc1 hc2
  obtain ⟨num, res⟩ := collapse_ok_res hv (by omega) (by omega) hr (hcl 3 (by simp) (by omega)) h
  obtain ⟨col', hc', _⟩ := collapse_oriented hv hcol res (by omega)
  exact ⟨collapse_face_orbit_manifold hm3 hc1 hc2 h, col', hc'⟩

theorem mergeFacets_OM {ds s : DSetData} (hm : OM ds) (h : mergeFacets (.dset ds) = .ok (some (.dset s))) : OM s := by
  obtain ⟨hm3, col, hcol⟩ := hm
  obtain ⟨junk, num, res, _⟩ := mergeFacets_junk hm3.1.1 hm3.1.2.1 hm3.1.2.2 h
  obtain ⟨col', hc', _⟩ := collapse_oriented hm3.1.1 hcol res (by rw [hm3.1.2.1]; omega)
  exact ⟨mergeFacets_manifold hm3 h, col', hc'⟩

theorem mergeTiles_OM {ds s : DSetData} (hm : OM ds) (hw : TilesJunkFaces ds)
    (h : mergeTiles (.dset ds) = .ok (some (.dset s))) : OM s := by
  obtain ⟨hm3, col, hcol⟩ := hm
  have hm3' := mergeTiles_manifold hm3 hw h
  have hv := hm3.1.1
  have hdim := hm3.1.2.1
  unfold mergeTiles at h
  simp only at h
  cases hsym : asDSym ds with
  | err => rw [hsym] at h; cases h
  | panic => rw [hsym] at h; cases h
  | ok sym =>
    rw [hsym] at h
    simp only at h
    cases hin : FG.innerEdges sym with
    | err => rw [hin] at h; cases h
    | panic => rw [hin] at h; cases h
    | ok inner =>
      rw [hin] at h
      simp only at h
      obtain ⟨hin', _⟩ := hw sym inner hsym hin
      have hmem : ∀ x, x ∈ tilesJunk ds inner ↔ ∃ e ∈ inner, e.2 = 3 ∧ x ∈ ds.viewPartial.orbit [3] e.1 := by
        intro x
        unfold tilesJunk
        simp only [List.mem_flatMap, List.mem_filter, beq_iff_eq]
        constructor
        · rintro ⟨e, ⟨he, h3⟩, hx⟩; exact ⟨e, he, h3, hx⟩
        · rintro ⟨e, he, h3, hx⟩; exact ⟨e, ⟨he, h3⟩, hx⟩
      have hr : ∀ d ∈ tilesJunk ds inner, 1 ≤ d ∧ d ≤ ds.size := by
        intro d hd'
        obtain ⟨e, he, _, hx⟩ := (hmem d).1 hd'
        exact (orbit_closed hv (hin' e he).1 (hin' e he).2).1 d hx
      have h3 : ∀ d ∈ tilesJunk ds inner, ds.opU 3 d ∈ tilesJunk ds inner := by
        intro d hd'
        obtain ⟨e, he, h3, hx⟩ := (hmem d).1 hd'
        exact (hmem _).2 ⟨e, he, h3, (orbit_closed hv (hin' e he).1 (hin' e he).2).2 3 (by simp) (by omega) d hx⟩
      obtain ⟨num, res⟩ := collapse_ok_res hv (by omega) (by omega) hr h3 h
      obtain ⟨col', hc', _⟩ := collapse_oriented hv hcol res (by omega)
      exact ⟨hm3', col', hc'⟩

theorem dual_OM {ds s : DSetData} (hm : OM ds) (h : dual (.dset ds) = .ok (some (.dset s))) : OM s := by
  obtain ⟨hm3, col, hcol⟩ := hm
  have hm3' := dual_manifold hm3 h
  obtain ⟨⟨hv, hdim, hf⟩, _, _⟩ := hm3
  have hsz : 1 ≤ ds.size := by
    unfold dual ofBuild at h
    simp only at h
    cases hb : buildSet ds.size ds.dim (fun i d => ds.opPartial (ds.dim - i) d) with
    | ok s' => exact (buildSet_ok_inv hb).1
    | err => rw [hb] at h; cases h
    | panic => rw [hb] at h; cases h
  obtain ⟨_, h1, h2, _, hop⟩ := dual_preserves hv (by omega) hsz hf h
  refine ⟨hm3', col, ?_⟩
  intro i v hi hv1 hv2
  rw [h2] at hi; rw [h1] at hv2
  rw [hop i v hi hv1 hv2]; exact hcol _ v (by omega) hv1 hv2

/-- state of the `merge_all` loop -/
def AccOM (acc : Outcome DOE) : Prop :=
  match acc with
  | .ok (.dset ds) => OM ds
  | _ => True

theorem applyIf_accOM {op : DOE → Step} (hop : ∀ ds s, OM ds → op (.dset ds) = .ok (some (.dset s)) → OM s)
    {acc : Outcome DOE} (h : AccOM acc) (hempty : op .empty = .ok none) : AccOM (applyIf op acc) := by
  unfold applyIf
  cases acc with
  | err => trivial
  | panic => trivial
  | ok x =>
    cases x with
    | empty => simp only [hempty]; trivial
    | dset ds =>
      simp only
      cases hr : op (.dset ds) with
      | err => trivial
      | panic => trivial
      | ok o =>
        cases o with
        | none => exact h
        | some y =>
          cases y with
          | empty => trivial
          | dset s => exact hop ds s h hr

theorem mergeAll_OM (hw : InnerWallsAreFaces) {ds s : DSetData} (hm : OM ds)
    (h : mergeAll (.dset ds) = .ok (some (.dset s))) : OM s := by
  have hT : ∀ ds s, OM ds → mergeTiles (.dset ds) = .ok (some (.dset s)) → OM s :=
    fun ds s a b => mergeTiles_OM a (hw ds a.1.1) b
  have hF : ∀ ds s, OM ds → mergeFacets (.dset ds) = .ok (some (.dset s)) → OM s :=
    fun ds s a b => mergeFacets_OM a b
  have hD : ∀ ds s, OM ds → dual (.dset ds) = .ok (some (.dset s)) → OM s :=
    fun ds s a b => dual_OM a b
  have a0 : AccOM (.ok (.dset ds)) := hm
  have a1 := applyIf_accOM hT a0 rfl
  have a2 := applyIf_accOM hF a1 rfl
  have a3 := applyIf_accOM hD a2 rfl
  have a4 := applyIf_accOM hT a3 rfl
  have a5 := applyIf_accOM hF a4 rfl
  have a6 := applyIf_accOM hD a5 rfl
  unfold mergeAll at h
  simp only [List.foldl] at h
  generalize applyIf dual (applyIf mergeFacets (applyIf mergeTiles (applyIf dual (applyIf mergeFacets
    (applyIf mergeTiles (Outcome.ok (DOE.dset ds))))))) = fin at a6 h
  cases fin with
  | err => cases h
  | panic => cases h
  | ok x =>
    simp only [Outcome.ok.injEq, Option.some.injEq] at h
    subst h
    exact a6

theorem fixNonDiskFace_OM {ds s : DSetData} (hm : OM ds)
    (h : fixNonDiskFace (.dset ds) = .ok (some (.dset s))) : OM s := by
  obtain ⟨hm3, col, hcol⟩ := hm
  obtain ⟨a, b, _⟩ := fixNonDiskFace_oriented hm3 hcol h
  exact ⟨a, col, b⟩


theorem cornerGlue_colouring {ds s : DSetData} (hv : ValidSet ds) (hdim : ds.dim = 3) {col : Nat → Bool}
    (hcol : Colouring ds col) {d e : Nat} (hd1 : 1 ≤ d) (hd2 : d ≤ ds.size) (he1 : 1 ≤ e) (he2 : e ≤ ds.size)
    (hce : col e = col d)
    (h : reglue ds [(d, ds.opU 1 e), (e, ds.opU 1 d), (ds.opU 3 d, ds.opU 1 (ds.opU 3 e)),
      (ds.opU 3 e, ds.opU 1 (ds.opU 3 d))] 1 = .ok (some s)) : Colouring s col := by
  apply reglue_colouring hv hcol h (by omega)
  have r3d := hv.range 3 d (by omega) hd1 hd2
  have r3e := hv.range 3 e (by omega) he1 he2
  intro p hp
  simp only [List.mem_cons, List.not_mem_nil, or_false] at hp
  rcases hp with rfl | rfl | rfl | rfl
  · simp only; rw [hcol 1 e (by omega) he1 he2, hce]
  · simp only; rw [hcol 1 d (by omega) hd1 hd2, hce]
  · simp only; rw [hcol 1 _ (by omega) r3e.1 r3e.2, hcol 3 e (by omega) he1 he2, hcol 3 d (by omega) hd1 hd2, hce]
  · simp only; rw [hcol 1 _ (by omega) r3d.1 r3d.2, hcol 3 e (by omega) he1 he2, hcol 3 d (by omega) hd1 hd2, hce]

theorem squeeze_colouring {ds s : DSetData} (hv : ValidSet ds) (hdim : ds.dim = 3) {col : Nat → Bool}
    (hcol : Colouring ds col) {d e : Nat} (hd1 : 1 ≤ d) (hd2 : d ≤ ds.size) (he1 : 1 ≤ e) (he2 : e ≤ ds.size)
    (hce : col e = col d) (h : squeezeTile3d ds d e = .ok s) : Colouring s col := by
  unfold squeezeTile3d at h
  obtain ⟨f, hf', k1⟩ := bind_ok h
  obtain ⟨g, hg', k2⟩ := bind_ok k1
  obtain ⟨f2, hf2', k3⟩ := bind_ok k2
  obtain ⟨g2, hg2', k4⟩ := bind_ok k3
  obtain ⟨d2, hd2', k5⟩ := bind_ok k4
  obtain ⟨e2, he2', k6⟩ := bind_ok k5
  clear h k1 k2 k3 k4 k5
  have vf := (opx_ok hf').2.2.2.1
  have vg := (opx_ok hg').2.2.2.1
  subst vf vg
  have vf2 := (opx_ok hf2').2.2.2.1
  have vg2 := (opx_ok hg2').2.2.2.1
  have vd2 := (opx_ok hd2').2.2.2.1
  have ve2 := (opx_ok he2').2.2.2.1
  subst vf2 vg2 vd2 ve2
  apply reglue_colouring hv hcol (reglueU_ok k6) (by omega)
  have r0d := hv.range 0 d (by omega) hd1 hd2
  have r0e := hv.range 0 e (by omega) he1 he2
  intro p hp
  simp only [List.mem_cons, List.not_mem_nil, or_false] at hp
  rcases hp with rfl | rfl | rfl | rfl
  · simp only; rw [hcol 0 e (by omega) he1 he2, hce]; simp
  · simp only; rw [hcol 0 d (by omega) hd1 hd2, hce]; simp
  · simp only; rw [hcol 2 _ (by omega) r0e.1 r0e.2, hcol 0 e (by omega) he1 he2, hcol 2 d (by omega) hd1 hd2, hce]; simp
  · simp only; rw [hcol 2 _ (by omega) r0d.1 r0d.2, hcol 0 d (by omega) hd1 hd2, hcol 2 e (by omega) he1 he2, hce]; simp

theorem fixLocal1Vertex_OM {ds s : DSetData} (hm : OM ds)
    (hnd : ∀ c, 1 ≤ c → c ≤ ds.size → fixLocal1Body ds c = .ok (some (.dset s)) →
      [ds.opU 0 (ds.opU 1 c), ds.opU 1 (ds.opU 1 (ds.opU 0 c)), ds.opU 1 (ds.opU 0 c),
        ds.opU 1 (ds.opU 0 (ds.opU 1 c)), ds.opU 3 (ds.opU 0 (ds.opU 1 c)),
        ds.opU 1 (ds.opU 3 (ds.opU 1 (ds.opU 0 c))), ds.opU 3 (ds.opU 1 (ds.opU 0 c)),
        ds.opU 1 (ds.opU 3 (ds.opU 0 (ds.opU 1 c)))].Nodup)
    (h : fixLocal1Vertex (.dset ds) = .ok (some (.dset s))) : OM s := by
  obtain ⟨hm3, col, hcol⟩ := hm
  have hv := hm3.1.1
  have hdim := hm3.1.2.1
  obtain ⟨c, hc1, hc2, hb⟩ := fixLocal1Vertex_some hv h
  have hnd' := hnd c hc1 hc2 hb
  unfold fixLocal1Body at hb
  obtain ⟨c1, hc1', k1⟩ := bind_ok hb
  obtain ⟨d, hd', k2⟩ := bind_ok k1
  obtain ⟨c0, hc0', k3⟩ := bind_ok k2
  obtain ⟨e, he', k4⟩ := bind_ok k3
  obtain ⟨f, hf', k5⟩ := bind_ok k4
  obtain ⟨g, hg', k6⟩ := bind_ok k5
  obtain ⟨d1, hd1', k7⟩ := bind_ok k6
  obtain ⟨e1, he1', k8⟩ := bind_ok k7
  obtain ⟨f1, hf1', k9⟩ := bind_ok k8
  obtain ⟨g1, hg1', k10⟩ := bind_ok k9
  obtain ⟨tmp, htmp, k11⟩ := bind_ok k10
  clear hb k1 k2 k3 k4 k5 k6 k7 k8 k9 k10
  have v1 := (opx_ok hc1').2.2.2.1
  have v3 := (opx_ok hc0').2.2.2.1
  subst v1 v3
  have v2 := (opx_ok hd').2.2.2.1
  have v4 := (opx_ok he').2.2.2.1
  subst v2 v4
  have v5 := (opx_ok hf').2.2.2.1
  have v6 := (opx_ok hg').2.2.2.1
  have v7 := (opx_ok hd1').2.2.2.1
  have v8 := (opx_ok he1').2.2.2.1
  subst v5 v6 v7 v8
  have v9 := (opx_ok hf1').2.2.2.1
  have v10 := (opx_ok hg1').2.2.2.1
  subst v9 v10
  have rd := (opx_ok hd1')
  have re := (opx_ok he1')
  have r1c := hv.range 1 c (by omega) hc1 hc2
  have r0c := hv.range 0 c (by omega) hc1 hc2
  have hce : col (ds.opU 1 (ds.opU 0 c)) = col (ds.opU 0 (ds.opU 1 c)) := by
    rw [hcol 1 _ (by omega) r0c.1 r0c.2, hcol 0 c (by omega) hc1 hc2, hcol 0 _ (by omega) r1c.1 r1c.2,
      hcol 1 c (by omega) hc1 hc2]
  obtain ⟨tm, ts⟩ := cornerGlue_manifold3 hm3 rd.2.1 rd.2.2.1 re.2.1 re.2.2.1 hnd' (reglueU_ok htmp)
  have tc := cornerGlue_colouring hv hdim hcol rd.2.1 rd.2.2.1 re.2.1 re.2.2.1 hce (reglueU_ok htmp)
  exact collapse_face_orbit_OM ⟨tm, col, tc⟩ hc1 (by rw [ts]; exact hc2) k11

theorem cutIfLong_colouring {ds ds' : DSetData} {x : Nat} (hm : Manifold3 ds) {col : Nat → Bool} (hcol : Colouring ds col)
    (hx1 : 1 ≤ x) (hx2 : x ≤ ds.size) (h : cutIfLong ds x = .ok ds') :
    ∃ col', Colouring ds' col' ∧ ∀ z, z ≤ ds.size → col' z = col z := by
  obtain ⟨⟨hv, hdim, hf⟩, hl, hd⟩ := hm
  unfold cutIfLong at h
  obtain ⟨k, hk, k1⟩ := bind_ok h
  split at k1
  · obtain ⟨a, ha, k2⟩ := bind_ok k1
    obtain ⟨x1, hx1', k3⟩ := bind_ok k2
    obtain ⟨b, hb, k4⟩ := bind_ok k3
    have ra := opx_ok ha
    have rx1 := opx_ok hx1'
    have rb := opx_ok hb
    have r0 := hv.range 0 x (by omega) hx1 hx2
    have r1 := hv.range 1 x (by omega) hx1 hx2
    have va : a = ds.opU 0 x := ra.2.2.2.1.symm
    have vx1 : x1 = ds.opU 1 x := rx1.2.2.2.1.symm
    subst va vx1
    have r01 := hv.range 0 _ (by omega) r1.1 r1.2
    have vb : b = ds.opU 0 (ds.opU 1 x) := rb.2.2.2.1.symm
    subst vb
    obtain ⟨_, _, _, _, _, _, _, _, o', _⟩ := cutFace_commutes hv hdim r0.1 r0.2 r01.1 r01.2 k4
    apply o' col hcol
    rw [hcol 0 _ (by omega) r1.1 r1.2, hcol 1 x (by omega) hx1 hx2, hcol 0 x (by omega) hx1 hx2]
  · have : ds = ds' := by
      have k1' : (Outcome.ok ds : Outcome DSetData) = .ok ds' := k1
      cases k1'; rfl
    subst this
    exact ⟨col, hcol, fun _ _ => rfl⟩

theorem fixLocal2Vertex_OM {ds s : DSetData} (hm : OM ds)
    (hnd : ∀ d ds' a b, 1 ≤ d → d ≤ ds.size → fix2Pre ds d = .ok (ds', a, b) →
      [ds'.opU 0 b, a, ds'.opU 0 a, b, ds'.opU 2 (ds'.opU 0 b), ds'.opU 2 a, ds'.opU 2 (ds'.opU 0 a),
        ds'.opU 2 b].Nodup)
    (h : fixLocal2Vertex (.dset ds) = .ok (some (.dset s))) : OM s := by
  obtain ⟨hm3, col, hcol⟩ := hm
  have hm3' := fixLocal2Vertex_manifold hm3 hnd h
  unfold fixLocal2Vertex at h
  obtain ⟨d, hdm, hb⟩ := fixLocal2Loop_some h
  have rd := mem_seedsExcl (orbitReps_mem_seeds hm3.1.1 hdm)
  unfold fixLocal2Body at hb
  obtain ⟨dsA, hA, k1⟩ := bind_ok hb
  obtain ⟨d1, hd1', k2⟩ := bind_ok k1
  obtain ⟨e, he', k3⟩ := bind_ok k2
  obtain ⟨dsB, hB, k4⟩ := bind_ok k3
  obtain ⟨dsC, hC, k5⟩ := bind_ok k4
  obtain ⟨d0, hd0', k6⟩ := bind_ok k5
  obtain ⟨a, ha', k7⟩ := bind_ok k6
  obtain ⟨e0, he0', k8⟩ := bind_ok k7
  obtain ⟨b, hb', k9⟩ := bind_ok k8
  obtain ⟨dsD, hD, k10⟩ := bind_ok k9
  clear hb k1 k2 k3 k4 k5 k6 k7 k8 k9
  have hpre : fix2Pre ds d = .ok (dsC, a, b) := by
    unfold fix2Pre
    simp only [hA, hd1', he', hB, hC, hd0', ha', he0', hb', bind, Outcome.bind, pure]
  obtain ⟨mA, sA⟩ := asDSet_manifold hm3 hA
  obtain ⟨_, _, dimA, hvalA, _⟩ := asDSet_ok hm3.1.1 hA
  have hcolA : Colouring dsA col := by
    intro i v hi hv1 hv2
    rw [dimA] at hi; rw [sA] at hv2
    rw [hvalA i v hi hv1 hv2]; exact hcol i v hi hv1 hv2
  have re := opx_ok he'
  have rd1 := opx_ok hd1'
  have e1 : 1 ≤ e ∧ e ≤ dsA.size := by
    have := mA.1.1.range 2 d1 (by rw [mA.1.2.1]; omega) re.2.1 re.2.2.1
    rw [re.2.2.2.1] at this; exact this
  have hce : col e = col d := by
    rw [← re.2.2.2.1, hcolA 2 d1 re.1 re.2.1 re.2.2.1, ← rd1.2.2.2.1, hcolA 1 d rd1.1 rd1.2.1 rd1.2.2.1]; simp
  obtain ⟨mB, lB⟩ := cutIfLong_manifold mA rd.1 (by omega) hB
  obtain ⟨colB, hcolB, agB⟩ := cutIfLong_colouring mA hcolA rd.1 (by omega) hB
  obtain ⟨mC, lC⟩ := cutIfLong_manifold mB e1.1 (by omega) hC
  obtain ⟨colC, hcolC, agC⟩ := cutIfLong_colouring mB hcolB e1.1 (by omega) hC
  have ra := opx_ok ha'
  have rb := opx_ok hb'
  have rd0 := opx_ok hd0'
  have re0 := opx_ok he0'
  have ar : 1 ≤ a ∧ a ≤ dsC.size := by
    have := mC.1.1.range 1 d0 (by rw [mC.1.2.1]; omega) ra.2.1 ra.2.2.1
    rw [ra.2.2.2.1] at this; exact this
  have br : 1 ≤ b ∧ b ≤ dsC.size := by
    have := mC.1.1.range 1 e0 (by rw [mC.1.2.1]; omega) rb.2.1 rb.2.2.1
    rw [rb.2.2.2.1] at this; exact this
  have hcab : colC b = colC a := by
    rw [← rb.2.2.2.1, hcolC 1 e0 rb.1 rb.2.1 rb.2.2.1, ← re0.2.2.2.1, hcolC 0 e re0.1 re0.2.1 re0.2.2.1,
      ← ra.2.2.2.1, hcolC 1 d0 ra.1 ra.2.1 ra.2.2.1, ← rd0.2.2.2.1, hcolC 0 d rd0.1 rd0.2.1 rd0.2.2.1,
      agC e (by omega), agC d (by omega), agB e (by omega), agB d (by omega), hce]
  have hndC := hnd d dsC a b rd.1 rd.2 hpre
  obtain ⟨vD, sD, dD, fD⟩ := squeeze_far_commute mC.1.1 mC.1.2.1 mC.1.2.2 ar.1 ar.2 br.1 br.2 hndC hD
  obtain ⟨lD, gD⟩ := squeeze_manifold mC.1.1 mC.1.2.1 mC.2.1 mC.2.2 mC.1.2.2 ar.1 ar.2 br.1 br.2 hndC hD
  have cD := squeeze_colouring mC.1.1 mC.1.2.1 hcolC ar.1 ar.2 br.1 br.2 hcab hD
  exact collapse_face_orbit_OM ⟨⟨⟨vD, by rw [dD, mC.1.2.1], fD⟩, lD, gD⟩, colC, cD⟩ rd.1 (by omega) k10


/-- Boolean certificate of an orientation for the examples: the given colouring is reversed by
    every operation -/
def colouringB (s : DSetData) (col : Nat → Bool) : Bool :=
  (List.range (s.dim + 1)).all fun i => (List.range s.size).all fun d0 => col (s.opU i (d0 + 1)) == !col (d0 + 1)

theorem colouringB_sound {s : DSetData} {col : Nat → Bool} (h : colouringB s col = true) : Colouring s col := by
  unfold colouringB at h
  simp only [List.all_eq_true, List.mem_range, beq_iff_eq] at h
  intro i d hi hd1 hd2
  have := h i (by omega) (d - 1) (by omega)
  rwa [show d - 1 + 1 = d by omega] at this


/-! ### sphericity of tiles and vertex figures, on orbit counts (statements) -/

/-- number of `idx`-orbits inside the list `comp` (a union of such orbits): its chambers that are the
    least of their orbit (`orbit` is ascending) -/
def orbCountIn (ds : DSetData) (idx : List Nat) (comp : List Nat) : Nat :=
  (comp.filter fun x => (ds.viewPartial.orbit idx x).head? == some x).length

/-- Euler characteristic F − E + V of the component of d in the 2D part on the indices a, a+1, a+2:
    faces = (a,a+1)-orbits, edges = (a,a+2)-orbits, vertices = (a+1,a+2)-orbits -/
def chiOf (ds : DSetData) (a d : Nat) : Int :=
  let comp := ds.viewPartial.orbit [a, a + 1, a + 2] d
  (orbCountIn ds [a, a + 1] comp : Int) - (orbCountIn ds [a, a + 2] comp : Int) + (orbCountIn ds [a + 1, a + 2] comp : Int)

/-- every tile ({0,1,2}-component) and every vertex figure ({1,2,3}-component) has Euler
    characteristic 2; for loopless components with commuting, differing outer operations these are
    closed surfaces, so this says: all are spheres -/
def Spherical (ds : DSetData) : Prop :=
  ∀ d, 1 ≤ d → d ≤ ds.size → chiOf ds 0 d = 2 ∧ chiOf ds 1 d = 2

def sphericalB (ds : DSetData) : Bool :=
  (List.range ds.size).all fun d0 => chiOf ds 0 (d0 + 1) == 2 && chiOf ds 1 (d0 + 1) == 2

theorem sphericalB_sound {ds : DSetData} (h : sphericalB ds = true) : Spherical ds := by
  unfold sphericalB at h
  simp only [List.all_eq_true, List.mem_range, Bool.and_eq_true, beq_iff_eq] at h
  intro d h1 h2
  have := h (d - 1) (by omega)
  rwa [show d - 1 + 1 = d by omega] at this

end DSymVerif.Simp
