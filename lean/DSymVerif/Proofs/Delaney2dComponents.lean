/-
Helper lemmas for property C08, part 16: the corner word of a boundary component does not depend,
up to rotation and reversal, on the dart of the component the walk starts from.
-/
import DSymVerif.Proofs.Delaney2dCorners
import Mathlib.Data.List.Rotate

namespace DSymVerif.D2
open DSymVerif.DS

/-- corner words equal up to rotation and reversal -/
def CycEq (u w : List Nat) : Prop := u ~r w ∨ u.reverse ~r w

theorem CycEq.refl (u : List Nat) : CycEq u u := Or.inl (List.IsRotated.refl u)

theorem CycEq.symm {u w : List Nat} (h : CycEq u w) : CycEq w u := by
  rcases h with h | h
  · exact Or.inl h.symm
  · right
    have := h.symm.reverse
    rwa [List.reverse_reverse] at this

theorem CycEq.trans {u v w : List Nat} (h1 : CycEq u v) (h2 : CycEq v w) : CycEq u w := by
  rcases h1 with h1 | h1 <;> rcases h2 with h2 | h2
  · exact Or.inl (h1.trans h2)
  · exact Or.inr (h1.reverse.trans h2)
  · exact Or.inr (h1.trans h2)
  · left
    have := h1.reverse.trans h2
    rwa [List.reverse_reverse] at this

theorem isRotated_filter {l l' : List Nat} (p : Nat → Bool) (h : l ~r l') : l.filter p ~r l'.filter p := by
  obtain ⟨n, hn, rfl⟩ := List.isRotated_iff_mod.1 h
  rw [List.rotate_eq_drop_append_take hn, List.filter_append]
  have : l.filter p = (l.take n).filter p ++ (l.drop n).filter p := by
    rw [← List.filter_append, List.take_append_drop]
  rw [this]
  exact List.isRotated_append

section
variable {y : DSymData} (h : ValidSym y) (hdim : y.dim = 2)
include h hdim

/-- the dart at the other end of the chain reads the same branching number -/
theorem vOf_tau {δ : Dart} (hδ : ValidDart y δ) : vOf y (tau y δ) = vOf y δ := by
  obtain ⟨hτv, _, _, _, hsum, hk', horb⟩ := tau_spec h.set hdim hδ .partialSym
  obtain ⟨d, hd, hod, hkey, hv⟩ := key_of_dart h hdim hδ
  obtain ⟨d', hd', hod', hkey', hv'⟩ := key_of_dart h hdim hτv
  rw [hv, hv']
  congr 1
  -- the two darts have the same key
  have hne := hτv.2.2.1
  have hne0 := hδ.2.2.1
  have hmm : min (tau y δ).1 (tau y δ).2.1 = min δ.1 δ.2.1 ∧ max (tau y δ).1 (tau y δ).2.1 = max δ.1 δ.2.1 := by
    rcases hk' with hk' | hk' <;> constructor <;> omega
  rw [hkey, hkey']
  rw [hmm.1, hmm.2] at hd' hod' ⊢
  have ha : min δ.1 δ.2.1 ≤ y.dim := by have := hδ.1; have := hδ.2.1; omega
  have hb : max δ.1 δ.2.1 ≤ y.dim := by have := hδ.1; have := hδ.2.1; omega
  have ok := orbitReps2d_ok h.set ha hb
  -- Orb2 between the two chambers
  have horb' : Orb2 y.dset (min δ.1 δ.2.1) (max δ.1 δ.2.1) δ.2.2 (tau y δ).2.2 := by
    by_cases hjk : δ.1 ≤ δ.2.1
    · rw [Nat.min_eq_left hjk, Nat.max_eq_right hjk]; exact horb.swap
    · rw [Nat.min_eq_right (by omega), Nat.max_eq_left (by omega)]; exact horb
  have hrel : Orb2 y.dset (min δ.1 δ.2.1) (max δ.1 δ.2.1) d (tau y δ).2.2 := hod.trans horb'
  have := find_rep h ha hb hd hrel
  have := find_rep h ha hb hd' hod'
  congr 2
  omega

/-- the walk from the other dart at the same mirror end runs backwards -/
theorem phi_rho_iter {σ : Dart} (hσ : ValidDart y σ) {n : Nat} (hcl : (phi y)^[n] σ = σ) :
    ∀ j, j ≤ n → (phi y)^[j] (rho σ) = rho ((phi y)^[n - j] σ) := by
  intro j
  induction j with
  | zero => intro _; rw [Nat.sub_zero, hcl]; rfl
  | succ j ih =>
    intro hj
    rw [Function.iterate_succ_apply', ih (by omega)]
    have e : n - j = (n - (j + 1)) + 1 := by omega
    rw [e, Function.iterate_succ_apply']
    set θ := (phi y)^[n - (j + 1)] σ with hθ
    have hθv : ValidDart y θ := phi_iter_valid h.set hdim hσ _
    have hφθ := phi_valid h.set hdim hθv
    -- phi (rho (phi θ)) = rho θ
    rw [phi_eq h.set hdim (rho_valid hφθ.1).1]
    congr 1
    rw [phi_eq h.set hdim hθv, (rho_valid (tau_spec h.set hdim hθv .partialSym).1).2.1, tau_invol h.set hdim]

theorem vOf_walk_rho {σ : Dart} (hσ : ValidDart y σ) {n : Nat} (hcl : (phi y)^[n] σ = σ) {j : Nat}
    (hj : j < n) : vOf y ((phi y)^[j] (rho σ)) = vOf y ((phi y)^[n - 1 - j] σ) := by
  rw [phi_rho_iter h hdim hσ hcl j (by omega)]
  have e : n - j = (n - 1 - j) + 1 := by omega
  rw [e, Function.iterate_succ_apply']
  set θ := (phi y)^[n - 1 - j] σ with hθ
  have hθv : ValidDart y θ := phi_iter_valid h.set hdim hσ _
  have hτθ := (tau_spec h.set hdim hθv .partialSym).1
  rw [phi_eq h.set hdim hθv, (rho_valid hτθ).2.1, vOf_tau h hdim hθv]

/-- **reversal**: the corner word read from the other dart at a mirror end is the reversed word -/
theorem seqOf_rho {σ : Dart} (hσ : ValidDart y σ) {n : Nat} (hcl : (phi y)^[n] σ = σ) :
    seqOf y (rho σ) n = (seqOf y σ n).reverse := by
  unfold seqOf
  rw [← List.filter_reverse, ← List.map_reverse]
  congr 1
  apply List.ext_getElem
  · simp [dlist]
  · intro j h1 h2
    have hjn : j < n := by simpa [dlist] using h1
    simp only [dlist, List.getElem_map, List.getElem_range, List.getElem_reverse, List.length_map,
      List.length_range]
    rw [vOf_walk_rho h hdim hσ hcl hjn]

omit h hdim in
/-- **rotation**: starting the walk `m` steps later rotates the list of darts -/
theorem dlist_shift {σ : Dart} {n : Nat} (hcl : (phi y)^[n] σ = σ) (m : Nat) :
    dlist y ((phi y)^[m] σ) n = (dlist y σ n).rotate m := by
  apply List.ext_getElem
  · simp [dlist]
  · intro j h1 h2
    have hjn : j < n := by simpa [dlist] using h1
    have hn : 0 < n := by omega
    simp only [dlist, List.getElem_map, List.getElem_range, List.getElem_rotate, List.length_map,
      List.length_range]
    rw [← Function.iterate_add_apply]
    -- periodicity
    have hper : ∀ a, (phi y)^[a] σ = (phi y)^[a % n] σ := by
      intro a
      have hk : a = a % n + n * (a / n) := (Nat.mod_add_div a n).symm
      conv_lhs => rw [hk]
      rw [Function.iterate_add_apply]
      congr 1
      generalize a / n = q
      induction q with
      | zero => rfl
      | succ q ih => rw [Nat.mul_succ, Function.iterate_add_apply, hcl, ih]
    rw [hper (j + m)]

omit h hdim in
theorem seqOf_shift {σ : Dart} {n : Nat} (hcl : (phi y)^[n] σ = σ) (m : Nat) :
    seqOf y σ n ~r seqOf y ((phi y)^[m] σ) n := by
  unfold seqOf
  rw [dlist_shift hcl m, List.map_rotate]
  exact isRotated_filter _ (List.IsRotated.forall _ m).symm

end

end DSymVerif.D2
