/-
Helper lemmas for property C09, part 32 (for C16 `InnerWallsAreFaces`): the boundary after
`glue_recursively(spanning_tree)` — the state `inner_edges` reports.

* `final_state`: the invariants of the final boundary (`BInv`, `WInv`, `Unif`, only non-mirror
  facets glued, completeness `Sat`, tree facets glued, glued facets are the reported ones);
* `low_facets_glued`: every non-mirror 0- or 1-facet is glued when `v_01 = 1` everywhere;
* `wall_faces`: with commuting far operations, the glued 3-facets come in whole faces.
-/
import DSymVerif.Proofs.FundGroupInner2
import DSymVerif.Proofs.FundGroupInner3
import DSymVerif.Proofs.FundGroupIso

namespace DSymVerif.FGP
open DSymVerif DSymVerif.DS DSymVerif.FG

theorem mkRng {ds : DSymData} {d i j : Nat} (h1 : 1 ≤ d) (h2 : d ≤ ds.size) (hi : i ≤ ds.dim)
    (hj : j ≤ ds.dim) (hij : i ≠ j) : Rng ds (d, i, j) := ⟨h1, h2, hi, hj, hij⟩

/-- what is known about the boundary after `glue_recursively(spanning_tree)` -/
structure Final (ds : DSymData) (m' : OppMap) (out : List Item) : Prop where
  inv : BInv ds m'
  winv : WInv ds m'
  unif : Unif ds m'
  gnm : GNM ds m'
  sat : Sat ds m' []
  tree : ∀ it ∈ spanningTree ds, FacetR ds it.1 it.2.1 ∧ Glued ds m' it.1 it.2.1
  known : ∀ x b, FacetR ds x b → Glued ds m' x b → ∃ it ∈ out, touches ds it (x, b)
  done : ∀ it ∈ out, FacetR ds it.1 it.2.1 ∧ Glued ds m' it.1 it.2.1 ∧
    Glued ds m' (ds.dset.opU it.2.1 it.1) it.2.1

theorem final_state {ds : DSymData} (hs : ValidSym ds) (hdim : 1 ≤ ds.dim) {m' : OppMap}
    {out : List Item}
    (h : glueRecursively ds (boundaryNew ds) (spanningTree ds) = .ok (m', out)) :
    Final ds m' out := by
  have hv := hs.set
  have hm0 := boundaryNew_inv hv
  have hw0 := winv_boundaryNew ds
  have hu0 := unif_boundaryNew ds
  have hok := spanningTree_ok hv
  obtain ⟨hnm, _⟩ := spanningTree_01 hv hdim
  have hpres0 : ∀ k, Rng ds k → oppGet (boundaryNew ds) k ≠ none := by
    intro k hk; rw [oppGet_boundaryNew, if_pos hk]; simp
  have hg0 : GNM ds (boundaryNew ds) := fun k hk hn => absurd hn (hpres0 k hk)
  have htdn : TDN ds (spanningTree ds) (boundaryNew ds) :=
    ⟨fun it hit j hj => (by rw [(hnm it hit).1] at hj; cases hj), fun it hit _ => (hnm it hit).2⟩
  have hsat0 : Sat ds (boundaryNew ds) (spanningTree ds) := by
    intro e a b hr _ _ hall _
    obtain ⟨hr1, _⟩ := crossR_last hs hr
    exact absurd (hall 0 (by omega)) (hpres0 _ (crossR_rng hv hr 0))
  have hrun : glueRecLoop ds (glueFuel ds (spanningTree ds)) (boundaryNew ds) (spanningTree ds) [] =
      .ok (m', out) := h
  obtain ⟨i1, i2, i3, i4, i5⟩ := glueRecLoop_sat hs _ _ _ [] hm0 hw0 hu0 hg0 htdn hok hsat0 m' out hrun
  have htd : TD ds (spanningTree ds) (boundaryNew ds) := by
    intro it hit j hj
    rw [(hnm it hit).1] at hj; cases hj
  have hacc0 : Acc ds (boundaryNew ds) (boundaryNew ds) [] :=
    ⟨fun _ _ hn => hn, fun x b _ hg => Or.inl hg, fun it hit => by cases hit⟩
  obtain ⟨_, _, _, hacc, _⟩ := glueRecLoop_cert hs (boundaryNew ds) _ _ _ [] hm0 hw0 hu0 htd hacc0 hok
    m' out hrun
  obtain ⟨m2, out2, e2, _, _, _, hgl⟩ := glueRecursively_ok hs (boundaryNew_bnd hv) (spanningTree ds) hok
  rw [h] at e2
  injection e2 with e2
  have em : m' = m2 := congrArg Prod.fst e2
  subst em
  refine ⟨i1, i2, i3, i4, i5, fun it hit => ⟨hok it hit (hnm it hit).1, hgl it hit (hnm it hit).1⟩, ?_, ?_⟩
  · intro x b hx hg
    rcases hacc.known x b hx hg with h0 | ⟨it, hit, ht⟩
    · -- nothing is glued in the initial boundary (dim ≥ 1)
      exfalso
      have hb' : ∃ j, j ≤ ds.dim ∧ j ≠ b := by
        by_cases hb0 : b = 0
        · exact ⟨1, hdim, by omega⟩
        · exact ⟨0, Nat.zero_le _, fun e => hb0 e.symm⟩
      obtain ⟨j, hj, hjb⟩ := hb'
      have hr : Rng ds (x, b, j) := ⟨hx.1, hx.2.1, hx.2.2, hj, fun e => hjb e.symm⟩
      exact hpres0 _ hr (h0 j hr)
    · exact ⟨it, List.mem_reverse.1 hit, ht⟩
  · intro it hit
    exact hacc.done it (List.mem_reverse.2 hit)

/-- the other side of a glued facet is glued -/
theorem glued_other {ds : DSymData} (hv : ValidSet ds.dset) {m : OppMap} (hm : BInv ds m)
    {x b : Nat} (hx : FacetR ds x b) (hg : Glued ds m x b) : Glued ds m (opT ds b x) b := by
  intro j hj
  have hr : Rng ds (x, b, j) := ⟨hx.1, hx.2.1, hx.2.2, hj.2.2.2.1, hj.2.2.2.2⟩
  have := (hm.pres _ hr).1 (hg j hr)
  rwa [partner_eq hr] at this

/-- **every non-mirror 0- or 1-facet ends up glued**, when all `v_01 = 1` -/
theorem low_facets_glued {ds : DSymData} (hs : ValidSym ds) (hdim : 1 ≤ ds.dim)
    (hv01 : ∀ x, 1 ≤ x → x ≤ ds.size → orbV ds 0 1 x = 1) {m' : OppMap} {out : List Item}
    (F : Final ds m' out) {x k : Nat} (hk : k ≤ 1) (hx1 : 1 ≤ x) (hx2 : x ≤ ds.size)
    (hne : opT ds k x ≠ x) : Glued ds m' x k := by
  have hv := hs.set
  by_contra hng
  -- the other index
  obtain ⟨j, hj, hjk, hkj⟩ : ∃ j, j ≤ 1 ∧ j ≠ k ∧ (∀ l, l ≤ 1 → l = k ∨ l = j) := by
    rcases Nat.eq_zero_or_pos k with h0 | h0
    · exact ⟨1, by omega, by omega, fun l hl => by omega⟩
    · exact ⟨0, by omega, by omega, fun l hl => by omega⟩
  have hr : Rng ds (x, k, j) := mkRng hx1 hx2 (by omega) (by omega) (fun e => hjk e.symm)
  have hp : oppGet m' (x, k, j) ≠ none := fun hn => hng (unif_glued F.unif hr hn)
  have hv1 : orbV ds k j x = 1 := by
    rcases Nat.eq_zero_or_pos k with h0 | h0
    · have : j = 1 := by omega
      rw [h0, this]; exact hv01 x hx1 hx2
    · have h1 : k = 1 := by omega
      have : j = 0 := by omega
      rw [h1, this, orbV_swap]; exact hv01 x hx1 hx2
  obtain ⟨hr1, hlast⟩ := crossR_last hs hr
  have hBp : oppGet m' (crossR ds x k j (2 * orbR ds k j x - 1)) ≠ none := by
    rw [hlast, ← partner_eq hr]; exact fun hn => hp ((F.inv.pres _ hr).2 hn)
  -- the first crossing of the walk that is still in the boundary
  classical
  have hex : ∃ t, oppGet m' (crossR ds x k j t) ≠ none := ⟨_, hBp⟩
  let T := Nat.find hex
  have hT : oppGet m' (crossR ds x k j T) ≠ none := Nat.find_spec hex
  have hTle : T ≤ 2 * orbR ds k j x - 1 := Nat.find_min' hex hBp
  have hTmin : ∀ t, t < T → oppGet m' (crossR ds x k j t) = none := by
    intro t ht
    by_contra hc
    exact Nat.find_min hex ht hc
  have hnmT : ∀ t, t < T →
      opT ds (ix j k t) (wk (opT ds) j k t x) ≠ wk (opT ds) j k t x :=
    fun t ht => F.gnm _ (crossR_rng hv hr t) (hTmin t ht)
  -- the chambers of the walk up to there are closed under glued 0/1-facets
  let S : Nat → Prop := fun y => ∃ t, t ≤ T ∧ y = wk (opT ds) j k t x
  have hclosed : ∀ y l l', S y → ((l = k ∧ l' = j) ∨ (l = j ∧ l' = k)) →
      oppGet m' (y, l, l') = none → S (opT ds l y) := by
    rintro y l l' ⟨t, htT, rfl⟩ hl hn
    have hfwd : l = ix j k t ∧ l' = ix k j t → S (opT ds l (wk (opT ds) j k t x)) := by
      rintro ⟨e1, e2⟩
      have hne' : t ≠ T := by
        intro e
        apply hT
        rw [← e]
        show oppGet m' (wk (opT ds) j k t x, ix j k t, ix k j t) = none
        rw [← e1, ← e2]; exact hn
      exact ⟨t + 1, by omega, by rw [wk_succ_last, e1]⟩
    have hbwd : l = ix k j t ∧ l' = ix j k t → S (opT ds l (wk (opT ds) j k t x)) := by
      rintro ⟨e1, e2⟩
      cases t with
      | zero =>
        exfalso
        rw [ix_zero] at e1 e2
        rw [e1, e2] at hn
        exact hp hn
      | succ t' =>
        refine ⟨t', by omega, ?_⟩
        rw [wk_succ_last, e1, ix_succ, opT_invol hv]
    rcases ix_mem j k t with ⟨x1, x2⟩ | ⟨x1, x2⟩
    · rcases hl with ⟨a1, a2⟩ | ⟨a1, a2⟩
      · exact hbwd ⟨by rw [x2, a1], by rw [x1, a2]⟩
      · exact hfwd ⟨by rw [x1, a1], by rw [x2, a2]⟩
    · rcases hl with ⟨a1, a2⟩ | ⟨a1, a2⟩
      · exact hfwd ⟨by rw [x1, a1], by rw [x2, a2]⟩
      · exact hbwd ⟨by rw [x2, a1], by rw [x1, a2]⟩
  -- tree paths stay inside
  have hpath : ∀ {e0 y : Nat}, Path01 ds (spanningTree ds) e0 y → (S e0 ↔ S y) := by
    intro e0 y hpth
    induction hpth with
    | root => exact Iff.rfl
    | @step d i _ hmem hi ih =>
      obtain ⟨hf, hgl⟩ := F.tree _ hmem
      have hgl' := glued_other hv F.inv hf hgl
      have hop : opT ds i d = ds.dset.opU i d := opT_eq hf.2.2 hf.1 hf.2.1
      have hdr := opT_range hv (a := i) hf.1 hf.2.1
      rw [ih, ← hop]
      rcases hkj i hi with rfl | rfl
      · have r1 : Rng ds (d, i, j) := mkRng hf.1 hf.2.1 hf.2.2 (by omega) (fun e => hjk e.symm)
        have r2 : Rng ds (opT ds i d, i, j) := mkRng hdr.1 hdr.2 hf.2.2 (by omega) (fun e => hjk e.symm)
        constructor
        · exact fun h => hclosed d i j h (Or.inl ⟨rfl, rfl⟩) (hgl j r1)
        · intro h
          have := hclosed _ i j h (Or.inl ⟨rfl, rfl⟩) (hgl' j r2)
          rwa [opT_invol hv] at this
      · have r1 : Rng ds (d, i, k) := mkRng hf.1 hf.2.1 hf.2.2 (by omega) hjk
        have r2 : Rng ds (opT ds i d, i, k) := mkRng hdr.1 hdr.2 hf.2.2 (by omega) hjk
        constructor
        · exact fun h => hclosed d i k h (Or.inr ⟨rfl, rfl⟩) (hgl k r1)
        · intro h
          have := hclosed _ i k h (Or.inr ⟨rfl, rfl⟩) (hgl' k r2)
          rwa [opT_invol hv] at this
  -- `s_k x` is one of these chambers
  have hxr : opT ds k x = ds.dset.opU k x := opT_eq (by omega) hx1 hx2
  have horb : Orb2 ds.dset 0 1 x (ds.dset.opU k x) := by
    rcases Nat.eq_zero_or_pos k with h0 | h0
    · rw [h0]; exact Orb2.stepI (Orb2.refl _)
    · have : k = 1 := by omega
      rw [this]; exact Orb2.stepJ (Orb2.refl _)
  obtain ⟨e0, p0, p1⟩ := (spanningTree_01 hv hdim).2 x _ hx1 hx2 horb
  have hS : S (opT ds k x) := by
    rw [hxr]
    exact (hpath p1).1 ((hpath p0).2 ⟨0, Nat.zero_le _, rfl⟩)
  obtain ⟨t, htT, ht⟩ := hS
  rcases ix_mem j k t with ⟨x1, x2⟩ | ⟨x1, x2⟩
  · -- crossing `t` has index `j`
    cases t with
    | zero => exact hne ht
    | succ t' =>
      rw [ix_succ] at x1
      have hk' : ix j k t' = k := by
        rcases ix_mem j k t' with ⟨y1, y2⟩ | ⟨y1, y2⟩
        · rw [y2] at x1; exact absurd x1.symm hjk
        · exact y1
      have hc : wk (opT ds) j k t' x = x := by
        rw [wk_succ_last, hk'] at ht
        have := congrArg (opT ds k) ht
        rw [opT_invol hv, opT_invol hv] at this
        exact this.symm
      cases t' with
      | zero => rw [ix_zero] at hk'; exact hjk hk'
      | succ t'' =>
        exact walk_distinct hs hr hnmT (show 0 < t'' + 1 by omega) (by omega) (by omega) hc.symm
  · -- crossing `t` has index `k`: the walk closes up
    have hc : wk (opT ds) j k (t + 1) x = x := by
      rw [wk_succ_last, x1, ← ht, opT_invol hv]
    rcases Nat.lt_or_ge (t + 1) (2 * orbR ds k j x) with hlt | hge
    · have hnm' : ∀ t', t' < t + 1 →
          opT ds (ix j k t') (wk (opT ds) j k t' x) ≠ wk (opT ds) j k t' x := by
        intro t' ht'
        rcases Nat.lt_or_ge t' t with h' | h'
        · exact hnmT t' (by omega)
        · have : t' = t := by omega
          subst this
          rw [x1, ← ht, opT_invol hv]
          exact fun e => hne e.symm
      exact walk_distinct hs hr hnm' (show 0 < t + 1 by omega) (Nat.le_refl _) hlt hc.symm
    · have hTe : T = 2 * orbR ds k j x - 1 := by omega
      have := F.sat x k j hr hne hv1 (fun t' ht' => hTmin t' (by omega)) hp
      rcases this with h' | h' <;> cases h'

/-- orbit length and branching number the symbol reports for a pair of far indices whose
    operations differ at the chamber -/
theorem far_rv {ds : DSymData} {i a e : Nat} (hfar : a + 1 < i) (hi : i ≤ ds.dim) (h1 : 1 ≤ e)
    (h2 : e ≤ ds.size) (hne : ds.dset.opU i e ≠ ds.dset.opU a e) :
    orbR ds i a e = 2 ∧ orbV ds i a e = 1 := by
  have hor : ds.outOfRange i a e = false := by
    unfold DSymData.outOfRange
    simp only [Bool.or_eq_false_iff, decide_eq_false_iff_not]
    omega
  have hop : ¬ ds.op i e = ds.op a e := by
    rw [op_eq hi h1 h2, op_eq (by omega) h1 h2]
    exact fun h => hne (Option.some.inj h)
  have n1 : ¬ a = i := by omega
  have n2 : ¬ a = i + 1 := by omega
  have n3 : ¬ i = a + 1 := by omega
  unfold orbR orbV DSymData.rPartial DSymData.vPartial
  rw [hor]
  simp [n1, n2, n3, hop]

/-- **the glued 3-facets come in whole faces**: if the 3-facet of `x` is glued at the end, so is
    the 3-facet of `s_a x` for `a = 0, 1` -/
theorem wall_faces {ds : DSymData} (hs : ValidSym ds) (hdim : 3 ≤ ds.dim)
    (hv01 : ∀ x, 1 ≤ x → x ≤ ds.size → orbV ds 0 1 x = 1) {m' : OppMap} {out : List Item}
    (F : Final ds m' out) {x a : Nat} (ha : a ≤ 1) (hx1 : 1 ≤ x) (hx2 : x ≤ ds.size)
    (hg : Glued ds m' x 3) : Glued ds m' (opT ds a x) 3 := by
  have hv := hs.set
  have hd1 : 1 ≤ ds.dim := by omega
  have hx3 : FacetR ds x 3 := ⟨hx1, hx2, hdim⟩
  have r3 : Rng ds (x, 3, a) := mkRng hx1 hx2 hdim (by omega) (by omega)
  have h3ne : opT ds 3 x ≠ x := F.gnm _ r3 (hg a r3)
  by_cases h0 : opT ds a x = x
  · rw [h0]; exact hg
  by_cases h1 : opT ds a x = opT ds 3 x
  · rw [h1]; exact glued_other hv F.inv hx3 hg
  have hc : ∀ y, 1 ≤ y → y ≤ ds.size → opT ds 3 (opT ds a y) = opT ds a (opT ds 3 y) := by
    intro y hy1 hy2
    have ra := opT_range hv (a := a) hy1 hy2
    have rb := opT_range hv (a := 3) hy1 hy2
    rw [opT_eq (by omega) hy1 hy2, opT_eq hdim hy1 hy2] at *
    rw [opT_eq hdim ra.1 ra.2, opT_eq (by omega) rb.1 rb.2]
    exact hs.far a 3 y (by omega) hdim hy1 hy2
  have her := opT_range hv (a := a) hx1 hx2
  have hxr3 := opT_range hv (a := 3) hx1 hx2
  have hae : opT ds a (opT ds a x) = x := opT_invol hv a x
  -- the facets of the (a,3)-orbit of `s_a x`
  have he3 : opT ds 3 (opT ds a x) ≠ opT ds a x := by
    rw [hc x hx1 hx2]
    intro e
    have := congrArg (opT ds a) e
    rw [opT_invol hv, opT_invol hv] at this
    exact h3ne this
  have hfar : ds.dset.opU 3 (opT ds a x) ≠ ds.dset.opU a (opT ds a x) := by
    rw [← opT_eq hdim her.1 her.2, ← opT_eq (by omega) her.1 her.2, hae, hc x hx1 hx2]
    intro e
    have := congrArg (opT ds a) e
    rw [opT_invol hv] at this
    exact h1 this.symm
  obtain ⟨hR, hV⟩ := far_rv (show a + 1 < 3 by omega) hdim her.1 her.2 hfar
  have re : Rng ds (opT ds a x, 3, a) := mkRng her.1 her.2 hdim (by omega) (by omega)
  have g0 : Glued ds m' (opT ds a x) a :=
    low_facets_glued hs hd1 hv01 F ha her.1 her.2 (by rw [hae]; exact fun e => h0 e.symm)
  have g2 : Glued ds m' (opT ds 3 x) a :=
    low_facets_glued hs hd1 hv01 F ha hxr3.1 hxr3.2 (by
      rw [← hc x hx1 hx2]
      intro e
      have := congrArg (opT ds 3) e
      rw [opT_invol hv, opT_invol hv] at this
      exact h0 this)
  have c0 : crossR ds (opT ds a x) 3 a 0 = (opT ds a x, a, 3) := rfl
  have c1 : crossR ds (opT ds a x) 3 a 1 = (x, 3, a) := by
    show (opT ds a (opT ds a x), _, _) = _
    rw [hae]; rfl
  have c2 : crossR ds (opT ds a x) 3 a 2 = (opT ds 3 x, a, 3) := by
    show (opT ds 3 (opT ds a (opT ds a x)), _, _) = _
    rw [hae]; rfl
  have hall : ∀ t, t + 1 < 2 * orbR ds 3 a (opT ds a x) →
      oppGet m' (crossR ds (opT ds a x) 3 a t) = none := by
    intro t ht
    rw [hR] at ht
    have : t = 0 ∨ t = 1 ∨ t = 2 := by omega
    rcases this with rfl | rfl | rfl
    · rw [c0]; exact g0 3 (mkRng her.1 her.2 (by omega) hdim (by omega))
    · rw [c1]; exact hg a r3
    · rw [c2]; exact g2 3 (mkRng hxr3.1 hxr3.2 (by omega) hdim (by omega))
  have hnone : oppGet m' (opT ds a x, 3, a) = none := by
    by_contra hp
    rcases F.sat _ 3 a re he3 hV hall hp with h' | h' <;> cases h'
  exact unif_glued F.unif re hnone

/-- chamber `x` lies on one of the reported inner 3-facets -/
def OnInnerWall (ds : DSymData) (inner : List Edge) (x : Nat) : Prop :=
  ∃ e ∈ inner, e.2 = 3 ∧ (x = e.1 ∨ x = ds.dset.opU 3 e.1)

/-- **the inner 3-facets reported by `inner_edges` come in whole faces** -/
theorem innerEdges_walls {ds : DSymData} (hs : ValidSym ds) (hdim : 3 ≤ ds.dim)
    (hv01 : ∀ x, 1 ≤ x → x ≤ ds.size → orbV ds 0 1 x = 1) {inner : List Edge}
    (h : innerEdges ds = .ok inner) :
    (∀ e ∈ inner, FacetR ds e.1 e.2) ∧
    ∀ x, OnInnerWall ds inner x → ∀ a, a ≤ 1 → OnInnerWall ds inner (ds.dset.opU a x) := by
  have hv := hs.set
  unfold innerEdges at h
  cases hg : glueRecursively ds (boundaryNew ds) (spanningTree ds) with
  | err => rw [hg] at h; cases h
  | panic => rw [hg] at h; cases h
  | ok p =>
    obtain ⟨m', out⟩ := p
    rw [hg] at h
    simp only at h
    injection h with h
    subst h
    have F := final_state hs (by omega) hg
    refine ⟨?_, ?_⟩
    · intro e he
      obtain ⟨it, hit, rfl⟩ := List.mem_map.1 he
      exact (F.done it hit).1
    · rintro x ⟨e, he, he3, hx⟩ a ha
      obtain ⟨it, hit, rfl⟩ := List.mem_map.1 he
      simp only at he3 hx
      obtain ⟨hf, g1, g2⟩ := F.done it hit
      rw [he3] at hf g1 g2
      have hxg : (1 ≤ x ∧ x ≤ ds.size) ∧ Glued ds m' x 3 := by
        rcases hx with rfl | rfl
        · exact ⟨⟨hf.1, hf.2.1⟩, g1⟩
        · exact ⟨hv.range 3 it.1 hf.2.2 hf.1 hf.2.1, g2⟩
      obtain ⟨⟨hx1, hx2⟩, hxg⟩ := hxg
      have hw := wall_faces hs hdim hv01 F ha hx1 hx2 hxg
      rw [opT_eq (by omega) hx1 hx2] at hw
      have hr := hv.range a x (show a ≤ ds.dim by omega) hx1 hx2
      obtain ⟨it', hit', ht⟩ := F.known _ 3 ⟨hr.1, hr.2, hdim⟩ hw
      refine ⟨(it'.1, it'.2.1), List.mem_map.2 ⟨it', hit', rfl⟩, ?_⟩
      rcases ht with ht | ht
      · have e1 : ds.dset.opU a x = it'.1 := congrArg Prod.fst ht
        have e2 : 3 = it'.2.1 := congrArg Prod.snd ht
        exact ⟨e2.symm, Or.inl e1⟩
      · have e1 : ds.dset.opU a x = ds.dset.opU it'.2.1 it'.1 := congrArg Prod.fst ht
        have e2 : 3 = it'.2.1 := congrArg Prod.snd ht
        refine ⟨e2.symm, Or.inr ?_⟩
        simp only
        rw [e1, ← e2]

end DSymVerif.FGP
