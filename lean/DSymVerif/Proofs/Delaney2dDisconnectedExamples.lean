/-
Concrete symbols that are not connected, used as witnesses and counter-examples in section 14 of
Props/C08.lean.
-/
import DSymVerif.Proofs.Delaney2dDisconnected

namespace DSymVerif.C08
open DSymVerif.DS DSymVerif.D2

def okOr (o : Outcome DSymData) : DSymData :=
  match o with
  | .ok y => y
  | _ => default

/-- one chamber fixed by all three operations, v01 = v12 = 3: the disc `*332` -/
def exDiscData : DSymData := okOr (ofTables 1 2 (fun _ _ => 1) (fun _ _ => 3))

/-- two such chambers, not connected: two discs `*332` -/
def exTwoDiscsData : DSymData := okOr (ofTables 2 2 (fun _ d => d) (fun _ _ => 3))

/-- the operations of the projective plane with four chambers: s0 = (1 2)(3 4), s1 = (1 3)(2 4),
    s2 = (1 4)(2 3) -/
def ppOp (i d : Nat) : Nat :=
  match i, d with
  | 0, 1 => 2 | 0, 2 => 1 | 0, 3 => 4 | 0, 4 => 3
  | 1, 1 => 3 | 1, 2 => 4 | 1, 3 => 1 | 1, 4 => 2
  | 2, 1 => 4 | 2, 2 => 3 | 2, 3 => 2 | 2, 4 => 1
  | _, _ => 0

/-- the projective plane with one cone point of order 3 (`3x`): v01 = 3, v12 = 1 -/
def ex3xData : DSymData := okOr (ofTables 4 2 ppOp (fun i _ => if i = 0 then 3 else 1))

/-- the projective plane without singular points (`1x`) -/
def ex1xData : DSymData := okOr (ofTables 4 2 ppOp (fun _ _ => 1))

/-- the union of the two: chambers 1–4 carry `3x`, chambers 5–8 carry `1x` -/
def exTwoPlanesData : DSymData :=
  okOr (ofTables 8 2 (fun i d => if d ≤ 4 then ppOp i d else 4 + ppOp i (d - 4))
    (fun i d => if i = 0 ∧ d ≤ 4 then 3 else 1))

theorem exTwoDiscs_union : IsUnion id (· + 1) exDiscData exDiscData exTwoDiscsData :=
  isUnionB_sound (by decide +kernel)

theorem exTwoPlanes_union : IsUnion id (· + 4) ex3xData ex1xData exTwoPlanesData :=
  isUnionB_sound (by decide +kernel)

theorem exTwoDiscs_good (rep : Rep) : Good2d ⟨exTwoDiscsData, rep⟩ :=
  ⟨exTwoDiscs_union.ea.vs, by show exTwoDiscsData.dim = 2; decide +kernel,
   by show exTwoDiscsData.isCompletePartial = true; decide +kernel⟩

theorem exTwoPlanes_good (rep : Rep) : Good2d ⟨exTwoPlanesData, rep⟩ :=
  ⟨exTwoPlanes_union.ea.vs, by show exTwoPlanesData.dim = 2; decide +kernel,
   by show exTwoPlanesData.isCompletePartial = true; decide +kernel⟩

theorem exDisc_good (rep : Rep) : Good2d ⟨exDiscData, rep⟩ :=
  ⟨exTwoDiscs_union.ea.va, by show exDiscData.dim = 2; decide +kernel,
   by show exDiscData.isCompletePartial = true; decide +kernel⟩

theorem ex3x_good (rep : Rep) : Good2d ⟨ex3xData, rep⟩ :=
  ⟨exTwoPlanes_union.ea.va, by show ex3xData.dim = 2; decide +kernel,
   by show ex3xData.isCompletePartial = true; decide +kernel⟩

theorem ex1x_good (rep : Rep) : Good2d ⟨ex1xData, rep⟩ :=
  ⟨exTwoPlanes_union.eb.va, by show ex1xData.dim = 2; decide +kernel,
   by show ex1xData.isCompletePartial = true; decide +kernel⟩

/-- the answers of the model on two discs: curvature 1/6 + 1/6, spherical by the census rule,
    and `orbifold_symbol` panics -/
theorem exTwoDiscs_answers :
    exTwoDiscsData.view.isConnected = false ∧
    curvature ⟨exTwoDiscsData, .partialSym⟩ = .ok ⟨1, 3⟩ ∧
    isSpherical ⟨exTwoDiscsData, .partialSym⟩ = .ok true ∧
    orbifoldSymbol ⟨exTwoDiscsData, .partialSym⟩ = .panic ∧
    orbifoldSymbolString ⟨exTwoDiscsData, .partialSym⟩ = .panic ∧
    orbifoldSymbol ⟨exDiscData, .partialSym⟩ = .ok ⟨[], [[3, 3, 2]], true, 0⟩ := by
  decide +kernel

/-- the answers of the model on the union of `3x` and `1x`: it answers the tear-drop `3` -/
theorem exTwoPlanes_answers :
    exTwoPlanesData.view.isConnected = false ∧
    curvature ⟨exTwoPlanesData, .partialSym⟩ = .ok ⟨8, 3⟩ ∧
    isSpherical ⟨exTwoPlanesData, .partialSym⟩ = .ok true ∧
    orbifoldSymbol ⟨exTwoPlanesData, .partialSym⟩ = .ok ⟨[3], [], false, 0⟩ ∧
    orbifoldSymbolString ⟨exTwoPlanesData, .partialSym⟩ = .ok "3" ∧
    genusMonitor ⟨exTwoPlanesData, .partialSym⟩ = false ∧
    orbifoldSymbol ⟨ex3xData, .partialSym⟩ = .ok ⟨[3], [], false, 1⟩ ∧
    orbifoldSymbol ⟨ex1xData, .partialSym⟩ = .ok ⟨[], [], false, 1⟩ := by
  decide +kernel

end DSymVerif.C08
