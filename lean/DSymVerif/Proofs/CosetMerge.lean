/-
`CosetTable::merge` (C11 `merge_preserves`): processing a coincidence keeps the table
invariant — shape, entries in range, the coincidence invariant `UInv` (hence inverse
consistency under the union-find view once the queue is empty), creation edges — rows only
gain entries and no dead row becomes canonical again.
-/
import Mathlib.Data.List.Nodup
import DSymVerif.Proofs.CosetInv

namespace DSymVerif.CosetInvP
open DSymVerif DSymVerif.Cosets DSymVerif.LowIndexP DSymVerif.CosetPartP

/-- after the letter `g` has been handled, rows `a` and `b` agree at `g` up to the queue -/
def PL (t : Table) (q : List (Nat × Nat)) (a b : Nat) (g : Int) : Prop :=
  (∀ x y, t.get a g = .ok (some x) → t.get b g = .ok (some y) → Sim t q x y) ∧
    ((∃ x, t.get a g = .ok (some x)) ↔ (∃ y, t.get b g = .ok (some y)))

theorem compat_cons_append {t : Table} {a b : Nat} {q r : List (Nat × Nat)} {f : Nat → Nat}
    (h : Compat t ((a, b) :: (q ++ r)) f) : Compat t ((a, b) :: q) f :=
  ⟨h.1, fun p hp => h.2 p (by
    rcases List.mem_cons.mp hp with e | e
    · exact List.mem_cons.mpr (Or.inl e)
    · exact List.mem_cons_of_mem _ (List.mem_append_left _ e))⟩

theorem sim_pair {t : Table} {q : List (Nat × Nat)} {a b : Nat} (h : (a, b) ∈ q) : Sim t q a b :=
  fun _ hf => hf.2 (a, b) h

theorem mergeGens_spec (a b : Nat) (hab : a ≠ b) :
    ∀ (gs : List Int) (t : Table) (q : List (Nat × Nat)) (t' : Table) (q' : List (Nat × Nat)),
      gs.Nodup → (∀ g ∈ gs, g ∈ t.allGens) → t.canon a = a → t.canon b = b → a < t.len → b < t.len →
      TCq t ((a, b) :: q) → Table.mergeGens a b gs t q = .ok (t', q') →
      TCq t' ((a, b) :: q') ∧ Mono t t' ∧ t'.part = t.part ∧ t'.len = t.len ∧ (∃ r, q' = q ++ r) ∧
        (∀ g ∈ gs, PL t' q' a b g) ∧
        (∀ g', g' ∈ t.allGens → g' ∉ gs → t'.get a g' = t.get a g' ∧ t'.get b g' = t.get b g')
  | [], t, q, t', q', _, _, _, _, _, _, inv, h => by
    simp only [Table.mergeGens, Outcome.ok.injEq, Prod.mk.injEq] at h
    obtain ⟨rfl, rfl⟩ := h
    exact ⟨inv, Mono.refl _, rfl, rfl, ⟨[], by simp⟩, (fun g hg => by cases hg), fun _ _ _ => ⟨rfl, rfl⟩⟩
  | g :: gs, t, q, t', q', hnd, hgs, ha, hb, hal, hbl, inv, h => by
    have hg : g ∈ t.allGens := hgs g (by simp)
    have hng : -g ∈ t.allGens := neg_mem_allGensOf hg
    have hgn : g ∉ gs := (List.nodup_cons.mp hnd).1
    have hnd' : gs.Nodup := (List.nodup_cons.mp hnd).2
    have hsab : Sim t ((a, b) :: q) a b := sim_pair (by simp)
    -- common continuation
    have cont : ∀ (t1 : Table) (q1 : List (Nat × Nat)), TCq t1 ((a, b) :: q1) → Mono t t1 →
        t1.part = t.part → t1.len = t.len → (∃ r, q1 = q ++ r) → PL t1 q1 a b g →
        (∀ g', g' ∈ t.allGens → g' ≠ g → t1.get a g' = t.get a g' ∧ t1.get b g' = t.get b g') →
        Table.mergeGens a b gs t1 q1 = .ok (t', q') →
        TCq t' ((a, b) :: q') ∧ Mono t t' ∧ t'.part = t.part ∧ t'.len = t.len ∧ (∃ r, q' = q ++ r) ∧
          (∀ g0 ∈ g :: gs, PL t' q' a b g0) ∧
          (∀ g', g' ∈ t.allGens → g' ∉ g :: gs → t'.get a g' = t.get a g' ∧ t'.get b g' = t.get b g') := by
      intro t1 q1 inv1 m1 p1 l1 ⟨r1, hr1⟩ pl1 fr1 hrec
      have hg1 : t1.allGens = t.allGens := m1.allGens
      have hc1 : ∀ x, t1.canon x = t.canon x := fun x => by unfold Table.canon; rw [p1]
      obtain ⟨i1, i2, i3, i4, ⟨r2, hr2⟩, i6, i7⟩ := mergeGens_spec a b hab gs t1 q1 t' q' hnd'
        (fun g0 h0 => by rw [hg1]; exact hgs g0 (by simp [h0])) (by rw [hc1]; exact ha)
        (by rw [hc1]; exact hb) (by omega) (by omega) inv1 hrec
      have hc' : ∀ x, t'.canon x = t1.canon x := fun x => by unfold Table.canon; rw [i3]
      refine ⟨i1, m1.trans i2, i3.trans p1, i4.trans l1, ⟨r1 ++ r2, by rw [hr2, hr1, List.append_assoc]⟩, ?_, ?_⟩
      · intro g0 hg0
        rcases List.mem_cons.mp hg0 with rfl | hg0
        · obtain ⟨f1, f2⟩ := i7 g0 (by rw [hg1]; exact hg) hgn
          refine ⟨?_, ?_⟩
          · intro x y hx hy
            rw [f1] at hx; rw [f2] at hy
            refine (pl1.1 x y hx hy).mono ?_
            intro f hf
            refine ⟨fun z => by rw [← hc']; exact hf.1 z, fun p hp => hf.2 p ?_⟩
            rw [hr2]; exact List.mem_append_left _ hp
          · rw [f1, f2]; exact pl1.2
        · exact i6 g0 hg0
      · intro g' hg' hn
        have hne : g' ≠ g := fun e => hn (by simp [e])
        have hn' : g' ∉ gs := fun e => hn (by simp [e])
        obtain ⟨f1, f2⟩ := i7 g' (by rw [hg1]; exact hg') hn'
        obtain ⟨e1, e2⟩ := fr1 g' hg' hne
        exact ⟨f1.trans e1, f2.trans e2⟩
    rcases get_total inv.shape hal hg with ha0 | ⟨ag, ha1⟩ <;>
      rcases get_total inv.shape hbl hg with hb0 | ⟨bg, hb1⟩
    · -- neither defined
      simp only [Table.mergeGens, ha0, hb0] at h
      refine cont t q inv (Mono.refl _) rfl rfl ⟨[], by simp⟩ ⟨?_, ?_⟩ (fun _ _ _ => ⟨rfl, rfl⟩) h
      · intro x y hx; rw [ha0] at hx; cases hx
      · constructor
        · rintro ⟨x, hx⟩; rw [ha0] at hx; cases hx
        · rintro ⟨x, hx⟩; rw [hb0] at hx; cases hx
    · -- only b defined: copy into a
      simp only [Table.mergeGens, ha0, hb1] at h
      cases hs : t.set a g bg with
      | ok t1 =>
        simp only [hs] at h
        obtain ⟨e, he, hse⟩ := inv.uinv b g bg hg hb1
        obtain ⟨j1, j2, j3, j4, j5, j6⟩ := set_tcq inv hs hg hal ha0 (get_canon inv.shape hb1)
          (inv.shape.range b g bg hg hb1) ⟨e, he, hse.trans hsab.symm⟩
        have hbsame : t1.get b g = .ok (some bg) := by rw [j6 b g hg (Or.inl (Ne.symm hab))]; exact hb1
        refine cont t1 q j1 j2 j3 j4 ⟨[], by simp⟩ ⟨?_, ?_⟩ ?_ h
        · intro x y hx hy
          rw [j5] at hx; rw [hbsame] at hy
          injection hx with hx; injection hx with hx
          injection hy with hy; injection hy with hy
          rw [← hx, ← hy]; exact Sim.refl _ _ _
        · exact ⟨fun _ => ⟨bg, hbsame⟩, fun _ => ⟨bg, j5⟩⟩
        · intro g' hg' hne
          exact ⟨j6 a g' hg' (Or.inr hne), j6 b g' hg' (Or.inr hne)⟩
      | err => simp [hs] at h
      | panic => simp [hs] at h
    · -- only a defined: copy into b
      simp only [Table.mergeGens, ha1, hb0] at h
      cases hs : t.set b g ag with
      | ok t1 =>
        simp only [hs] at h
        obtain ⟨e, he, hse⟩ := inv.uinv a g ag hg ha1
        obtain ⟨j1, j2, j3, j4, j5, j6⟩ := set_tcq inv hs hg hbl hb0 (get_canon inv.shape ha1)
          (inv.shape.range a g ag hg ha1) ⟨e, he, hse.trans hsab⟩
        have hasame : t1.get a g = .ok (some ag) := by rw [j6 a g hg (Or.inl hab)]; exact ha1
        refine cont t1 q j1 j2 j3 j4 ⟨[], by simp⟩ ⟨?_, ?_⟩ ?_ h
        · intro x y hx hy
          rw [hasame] at hx; rw [j5] at hy
          injection hx with hx; injection hx with hx
          injection hy with hy; injection hy with hy
          rw [← hx, ← hy]; exact Sim.refl _ _ _
        · exact ⟨fun _ => ⟨ag, j5⟩, fun _ => ⟨ag, hasame⟩⟩
        · intro g' hg' hne
          exact ⟨j6 a g' hg' (Or.inr hne), j6 b g' hg' (Or.inr hne)⟩
      | err => simp [hs] at h
      | panic => simp [hs] at h
    · -- both defined: queue the pair
      simp only [Table.mergeGens, ha1, hb1] at h
      have inv1 : TCq t ((a, b) :: (q ++ [(ag, bg)])) := by
        refine ⟨inv.shape, ?_, inv.creation, ?_⟩
        · intro x y z hy hget
          obtain ⟨e, he, hs⟩ := inv.uinv x y z hy hget
          exact ⟨e, he, hs.mono (fun f hf => compat_cons_append hf)⟩
        · intro p hp
          rcases List.mem_cons.mp hp with rfl | hp
          · exact ⟨hal, hbl⟩
          · rcases List.mem_append.mp hp with hp | hp
            · exact inv.qrange p (List.mem_cons_of_mem _ hp)
            · simp only [List.mem_singleton] at hp
              subst hp
              exact ⟨inv.shape.range a g ag hg ha1, inv.shape.range b g bg hg hb1⟩
      refine cont t (q ++ [(ag, bg)]) inv1 (Mono.refl _) rfl rfl ⟨[(ag, bg)], rfl⟩ ⟨?_, ?_⟩
        (fun _ _ _ => ⟨rfl, rfl⟩) h
      · intro x y hx hy
        rw [ha1] at hx; rw [hb1] at hy
        injection hx with hx; injection hx with hx
        injection hy with hy; injection hy with hy
        rw [← hx, ← hy]
        exact sim_pair (by simp)
      · exact ⟨fun _ => ⟨bg, hb1⟩, fun _ => ⟨ag, ha1⟩⟩


/-- the `unite` at the end of one round of `merge`: the pair leaves the queue, the two classes
    become one -/
theorem unite_tcq {t : Table} {q : List (Nat × Nat)} {a b : Nat} (hab : a ≠ b)
    (ha : t.canon a = a) (hb : t.canon b = b) (hal : a < t.len) (hbl : b < t.len)
    (inv : TCq t ((a, b) :: q)) (hpl : ∀ g ∈ t.allGens, PL t q a b g) :
    TCq ({ t with part := t.part.unite a b } : Table) q ∧
      Mono t ({ t with part := t.part.unite a b } : Table) ∧
      (∀ c, ({ t with part := t.part.unite a b } : Table).canon c = c → t.canon c = c) ∧
      (∀ c, t.canon c ≠ a → t.canon c ≠ b →
        ({ t with part := t.part.unite a b } : Table).canon c = t.canon c) := by
  obtain ⟨wf2, hsz2, w, hw, hfind⟩ := unite_spec inv.shape.wfp a b
  have ha' : t.part.find a = a := ha
  have hb' : t.part.find b = b := hb
  rw [ha', hb'] at hw hfind
  generalize hF : (fun r => if r = a ∨ r = b then w else r) = F at *
  have hFdef : ∀ r, F r = if r = a ∨ r = b then w else r := fun r => by rw [← hF]
  have hcan2 : ∀ v, (t.part.unite a b).find v = F (t.part.find v) := fun v => by rw [hfind v, hFdef]
  set t2 : Table := { t with part := t.part.unite a b } with ht2
  have hc2 : ∀ v, t2.canon v = F (t.canon v) := hcan2
  have hwl : w < t.len := by rcases hw with rfl | rfl <;> assumption
  have hFl : ∀ r, r < t.len → F r < t.len := fun r hr => by rw [hFdef]; split <;> assumption
  have hgens : t2.allGens = t.allGens := rfl
  have hlen : t2.len = t.len := rfl
  have hget2 : ∀ c g, t2.get c g = match t.get c g with
      | .ok (some d) => .ok (some (F d))
      | o => o := fun c g => get_with_part t _ F hcan2 c g
  have h2s : ∀ c g d, t.get c g = .ok (some d) → t2.get c g = .ok (some (F d)) := by
    intro c g d h; rw [hget2, h]
  have h2n : ∀ c g d2, t2.get c g = .ok (some d2) → ∃ d, t.get c g = .ok (some d) ∧ d2 = F d := by
    intro c g d2 h
    rw [hget2] at h
    cases hg : t.get c g with
    | ok o =>
      cases o with
      | none => rw [hg] at h; cases h
      | some d =>
        rw [hg] at h
        injection h with h; injection h with h
        exact ⟨d, rfl, h.symm⟩
    | err => rw [hg] at h; cases h
    | panic => rw [hg] at h; cases h
  -- compatible labelings of the new state are compatible with the old one
  have hFcanon : ∀ v, F (t.canon (t.canon v)) = F (t.canon v) := fun v => by rw [canon_idem inv.shape]
  have hcompat : ∀ f, Compat t2 q f → Compat t ((a, b) :: q) f := by
    intro f hf
    have h1 : ∀ x, f (t.canon x) = f x := by
      intro x
      have e1 := hf.1 (t.canon x)
      have e2 := hf.1 x
      rw [hc2] at e1 e2
      rw [hFcanon] at e1
      rw [← e1, e2]
    refine ⟨h1, ?_⟩
    intro p hp
    rcases List.mem_cons.mp hp with rfl | hp
    · have e1 := hf.1 a
      have e2 := hf.1 b
      rw [hc2, ha, hFdef] at e1
      rw [hc2, hb, hFdef] at e2
      simp only [true_or, or_true, if_true] at e1 e2
      exact e1.symm.trans e2
    · exact hf.2 p hp
  have hcompat' : ∀ f, Compat t2 q f → Compat t q f := fun f hf =>
    ⟨(hcompat f hf).1, fun p hp => (hcompat f hf).2 p (List.mem_cons_of_mem _ hp)⟩
  -- F on canonical elements is canon2
  have hFc : ∀ e, t.canon e = e → t2.canon e = F e := fun e he => by rw [hc2, he]
  refine ⟨⟨⟨wf2, ?_, inv.shape.pos, inv.shape.width, ?_⟩, ?_, ?_, ?_⟩,
    ⟨rfl, Nat.le_refl _, fun _ _ h => h⟩, ?_, ?_⟩
  · show (t.part.unite a b).parent.size ≤ t.len
    rw [hsz2]; have := inv.shape.psize; omega
  · intro c g d2 hg hget
    obtain ⟨d, hd, rfl⟩ := h2n c g d2 hget
    exact hFl d (inv.shape.range c g d hg hd)
  · -- UInv
    intro x y z2 hy hget
    obtain ⟨z, hz, rfl⟩ := h2n x y z2 hget
    obtain ⟨e, he, hs⟩ := inv.uinv x y z hy hz
    have hny : -y ∈ t.allGens := neg_mem_allGensOf hy
    have hec : t.canon e = e := get_canon inv.shape he
    have hzc : t.canon z = z := get_canon inv.shape hz
    by_cases hzab : z = a ∨ z = b
    · -- the target row is one of the merged rows: read the entry of the winner
      have hFz : F z = w := by rw [hFdef]; simp [hzab]
      rw [hFz]
      -- both a and b have the entry at -y
      have hpl' := hpl (-y) hny
      have hboth : ∃ xa xb, t.get a (-y) = .ok (some xa) ∧ t.get b (-y) = .ok (some xb) ∧
          Sim t q xa xb ∧ (e = xa ∨ e = xb) := by
        rcases hzab with rfl | rfl
        · obtain ⟨xb, hxb⟩ := hpl'.2.mp ⟨e, he⟩
          exact ⟨e, xb, he, hxb, hpl'.1 e xb he hxb, Or.inl rfl⟩
        · obtain ⟨xa, hxa⟩ := hpl'.2.mpr ⟨e, he⟩
          exact ⟨xa, e, hxa, he, hpl'.1 xa e hxa he, Or.inr rfl⟩
      obtain ⟨xa, xb, hxa, hxb, hsab, hexy⟩ := hboth
      have hxw : ∃ xw, t.get w (-y) = .ok (some xw) ∧ Sim t q xw e := by
        rcases hw with rfl | rfl
        · refine ⟨xa, hxa, ?_⟩
          rcases hexy with rfl | rfl
          · exact Sim.refl _ _ _
          · exact hsab
        · refine ⟨xb, hxb, ?_⟩
          rcases hexy with rfl | rfl
          · exact hsab.symm
          · exact Sim.refl _ _ _
      obtain ⟨xw, hxw, hsw⟩ := hxw
      refine ⟨F xw, h2s _ _ _ hxw, ?_⟩
      intro f hf
      have hxwc : t.canon xw = xw := get_canon inv.shape hxw
      have e1 : f (F xw) = f xw := by rw [← hFc xw hxwc]; exact hf.1 xw
      rw [e1, hsw f (hcompat' f hf)]
      exact hs f (hcompat f hf)
    · have hFz : F z = z := by rw [hFdef]; simp [hzab]
      rw [hFz]
      refine ⟨F e, h2s _ _ _ he, ?_⟩
      intro f hf
      have e1 : f (F e) = f e := by rw [← hFc e hec]; exact hf.1 e
      rw [e1]
      exact hs f (hcompat f hf)
  · intro m hm0 hml
    obtain ⟨y, hy, i, hi, hget⟩ := inv.creation m hm0 hml
    exact ⟨y, hy, i, hi, by rw [hc2]; exact h2s _ _ _ hget⟩
  · intro p hp
    exact inv.qrange p (List.mem_cons_of_mem _ hp)
  · intro c hc
    rw [hc2, hFdef] at hc
    by_cases h : t.canon c = a ∨ t.canon c = b
    · simp only [h, if_true] at hc
      rcases hw with rfl | rfl
      · rw [← hc]; exact ha
      · rw [← hc]; exact hb
    · simp only [h, if_false] at hc; exact hc
  · intro c h1 h2
    rw [hc2, hFdef]
    simp [h1, h2]


theorem allGensOf_nodup (n : Nat) : (allGensOf n).Nodup := by
  unfold allGensOf
  rw [List.nodup_append]
  have i1 : Function.Injective (fun (g : Nat) => (g : Int)) := fun a b h => by
    have h' : (a : Int) = (b : Int) := h
    omega
  have i2 : Function.Injective (fun (g : Nat) => -(g : Int)) := fun a b h => by
    have h' : -(a : Int) = -(b : Int) := h
    omega
  refine ⟨List.Nodup.map i1 (List.nodup_range' (step := 1)),
    List.Nodup.map i2 (List.nodup_range' (step := 1)), ?_⟩
  intro x hx y hy
  simp only [List.mem_map, List.mem_range'_1] at hx hy
  obtain ⟨i, hi, rfl⟩ := hx
  obtain ⟨j, hj, rfl⟩ := hy
  omega

/-- `merge` processes all pending coincidences and re-establishes the invariant with an
    empty queue; rows only gain entries and no dead row comes back to life -/
theorem mergeLoop_spec : ∀ (fuel : Nat) (t : Table) (q : List (Nat × Nat)) (t' : Table),
    TCq t q → Table.mergeLoop fuel t q = .ok t' →
    TCq t' [] ∧ Mono t t' ∧ (∀ c, t'.canon c = c → t.canon c = c) ∧ t'.len = t.len := by
  intro fuel
  induction fuel with
  | zero =>
    intro t q t' inv h
    cases q with
    | nil =>
      simp only [Table.mergeLoop, Outcome.ok.injEq] at h
      subst h
      exact ⟨inv, Mono.refl _, fun _ h => h, rfl⟩
    | cons p q => simp [Table.mergeLoop] at h
  | succ f ih =>
    intro t q t' inv h
    cases q with
    | nil =>
      simp only [Table.mergeLoop, Outcome.ok.injEq] at h
      subst h
      exact ⟨inv, Mono.refl _, fun _ h => h, rfl⟩
    | cons p rest =>
      obtain ⟨a0, b0⟩ := p
      simp only [Table.mergeLoop] at h
      have hr := inv.qrange (a0, b0) (by simp)
      by_cases hab : t.canon a0 = t.canon b0
      · simp only [hab, if_true] at h
        refine ih t rest t' ⟨inv.shape, ?_, inv.creation, fun p hp => inv.qrange p (List.mem_cons_of_mem _ hp)⟩ h
        intro x y z hy hget
        obtain ⟨e, he, hs⟩ := inv.uinv x y z hy hget
        refine ⟨e, he, hs.mono ?_⟩
        intro f hf
        refine ⟨hf.1, fun p hp => ?_⟩
        rcases List.mem_cons.mp hp with rfl | hp
        · have e1 := hf.1 a0
          have e2 := hf.1 b0
          rw [hab] at e1
          exact e1.symm.trans e2
        · exact hf.2 p hp
      · simp only [hab, if_false] at h
        cases hm : Table.mergeGens (t.canon a0) (t.canon b0) t.allGens t rest with
        | ok r =>
          obtain ⟨t1, q1⟩ := r
          simp only [hm] at h
          have inv0 : TCq t ((t.canon a0, t.canon b0) :: rest) := by
            refine ⟨inv.shape, ?_, inv.creation, ?_⟩
            · intro x y z hy hget
              obtain ⟨e, he, hs⟩ := inv.uinv x y z hy hget
              refine ⟨e, he, hs.mono ?_⟩
              intro f hf
              refine ⟨hf.1, fun p hp => ?_⟩
              rcases List.mem_cons.mp hp with rfl | hp
              · have e1 := hf.1 a0
                have e2 := hf.1 b0
                have e3 := hf.2 (t.canon a0, t.canon b0) (by simp)
                exact e1.symm.trans (e3.trans e2)
              · exact hf.2 p (List.mem_cons_of_mem _ hp)
            · intro p hp
              rcases List.mem_cons.mp hp with rfl | hp
              · exact ⟨canon_lt inv.shape hr.1, canon_lt inv.shape hr.2⟩
              · exact inv.qrange p (List.mem_cons_of_mem _ hp)
          obtain ⟨i1, i2, i3, i4, _, i6, _⟩ := mergeGens_spec (t.canon a0) (t.canon b0) hab t.allGens t rest
            t1 q1 (allGensOf_nodup _) (fun g hg => hg) (canon_idem inv.shape _) (canon_idem inv.shape _)
            (canon_lt inv.shape hr.1) (canon_lt inv.shape hr.2) inv0 hm
          have hc1 : ∀ x, t1.canon x = t.canon x := fun x => by unfold Table.canon; rw [i3]
          have hg1 : t1.allGens = t.allGens := i2.allGens
          obtain ⟨u1, u2, u3, _⟩ := unite_tcq (t := t1) (q := q1) hab
            (by rw [hc1]; exact canon_idem inv.shape _) (by rw [hc1]; exact canon_idem inv.shape _)
            (by rw [i4]; exact canon_lt inv.shape hr.1) (by rw [i4]; exact canon_lt inv.shape hr.2)
            i1 (fun g hg => i6 g (by rw [← hg1]; exact hg))
          obtain ⟨k1, k2, k3, k4⟩ := ih _ q1 t' u1 h
          exact ⟨k1, (i2.trans u2).trans k2, fun c hc => by rw [← hc1]; exact u3 c (k3 c hc),
            k4.trans i4⟩
        | err => simp [hm] at h
        | panic => simp [hm] at h

theorem merge_spec {t t' : Table} {a b : Nat} (inv : TCq t []) (ha : a < t.len) (hb : b < t.len)
    (h : t.merge a b = .ok t') :
    TCq t' [] ∧ Mono t t' ∧ (∀ c, t'.canon c = c → t.canon c = c) ∧ t'.len = t.len := by
  unfold Table.merge at h
  refine mergeLoop_spec _ t [(a, b)] t' ⟨inv.shape, ?_, inv.creation, ?_⟩ h
  · intro x y z hy hget
    obtain ⟨e, he, hs⟩ := inv.uinv x y z hy hget
    exact ⟨e, he, hs.mono (fun f hf => ⟨hf.1, fun p hp => by cases hp⟩)⟩
  · intro p hp
    simp only [List.mem_singleton] at hp
    subst hp
    exact ⟨ha, hb⟩

end DSymVerif.CosetInvP
