/-
Null space, generically for a `Sem` back-end: `null_space_matrix` / `null_space` return the
columns `N` (`cols − rank` many) with `A·N = 0`, linearly independent.
-/
import DSymVerif.Proofs.RankDet

namespace DSymVerif.LA

open DSymVerif Matrix

theorem mapO_map {α β : Type} (f : α → Outcome β) (g : α → β) :
    ∀ xs : List α, (∀ x ∈ xs, f x = .ok (g x)) → mapO f xs = .ok (xs.map g) := by
  intro xs
  induction xs with
  | nil => intro _; rfl
  | cons x xs ih =>
    intro h
    unfold mapO
    rw [h x (List.mem_cons_self ..), ih (fun z hz => h z (List.mem_cons_of_mem _ hz))]
    rfl

/-- total entry accessor (default outside the shape; only used in range) -/
def entryD {α : Type} {nr nc : Nat} (m : Mat α nr nc) (d : α) (i j : Nat) : α :=
  if h : i < nr then if h' : j < nc then (m[i])[j] else d else d

theorem entryD_eq {α : Type} {nr nc : Nat} (m : Mat α nr nc) (d : α) {i j : Nat} (hi : i < nr)
    (hj : j < nc) : entryD m d i j = (m[i])[j] := by
  simp [entryD, hi, hj]

theorem submatrix_eq {α : Type} {nr nc : Nat} (m : Mat α nr nc) (d : α) (rows cols : List Nat)
    (hr : ∀ i ∈ rows, i < nr) (hc : ∀ j ∈ cols, j < nc) :
    submatrix m rows cols = .ok (rows.map fun i => cols.map fun j => entryD m d i j) := by
  unfold submatrix
  have h1 : rows.all (· < nr) = true := by simpa using hr
  have h2 : cols.all (· < nc) = true := by simpa using hc
  simp only [h1, h2, Bool.and_self, if_true]
  apply mapO_map
  intro i hi
  apply mapO_map
  intro j hj
  rw [Mat.get_ok m (hr i hi) (hc j hj), entryD_eq m d (hr i hi) (hc j hj)]

section nullspace
variable {α : Type} {B : Backend α} {E : α → Prop} {R : Type} [Field R] {val : α → R}

/-- what both null-space routines compute: the transposed multiplier `s` of the echelon form
    of the transpose, whose columns from `r = rank` on are a basis of the kernel -/
theorem nullCore_sem (hs : Sem B E val) {nr nc : Nat} (a : Mat α nr nc) (ha : AllE E a) :
    ∃ (mt : Mat α nc nr) (re : RowEchelon α nc nr) (s : Mat α nc nc),
      transpose B a = .ok mt ∧ echelon B true mt = .ok re ∧ transpose B re.multiplier = .ok s ∧
      re.rank = (toMatrix val a).rank ∧ re.rank ≤ nc ∧
      (∀ (j : Nat) (hj : j < nc), re.rank ≤ j → ∀ i : Fin nr,
        ∑ l : Fin nc, toMatrix val a i l * val ((s[l.1])[j]) = 0) ∧
      LinearIndependent R (fun (j : Fin (nc - re.rank)) (l : Fin nc) =>
        val ((s[l.1])[re.rank + j.1]'(by have := j.2; omega))) := by
  obtain ⟨mt, h1, hmtE, hmt⟩ := transpose_sem hs.safe a ha
  obtain ⟨re, h2, hmulE, _, hprod, hdet, hech⟩ := echelon_sem hs mt hmtE
  obtain ⟨s, h3, _, hsv⟩ := transpose_sem hs.safe re.multiplier hmulE
  have hunit : IsUnit (toMatrix val re.multiplier).det := by
    rw [hdet]; exact isUnit_iff_ne_zero.2 (pow_ne_zero _ (by norm_num))
  have hmtT : toMatrix val mt = (toMatrix val a)ᵀ := transpose_toMatrix a mt hmt
  refine ⟨mt, re, s, h1, h2, h3, ?_, hech.rank_le, ?_, ?_⟩
  · rw [← rank_of_isEchelon hech, ← hprod, rank_mul_eq_right_of_isUnit_det _ _ hunit, hmtT,
      rank_transpose]
  · intro j hj hrj i
    have e := congrFun (congrFun hprod ⟨j, hj⟩) i
    rw [toMatrix_apply, hech.zero j i.1 hj i.2 hrj, Matrix.mul_apply] at e
    rw [← e]
    apply Finset.sum_congr rfl
    intro l _
    rw [hmtT, Matrix.transpose_apply, toMatrix_apply, hsv l.1 j l.2 hj, mul_comm]
    rfl
  · have hli : LinearIndependent R (toMatrix val re.multiplier).row :=
      linearIndependent_rows_iff_isUnit.2 ((Matrix.isUnit_iff_isUnit_det _).2 hunit)
    have hinj : Function.Injective (fun j : Fin (nc - re.rank) =>
        (⟨re.rank + j.1, by have := j.2; omega⟩ : Fin nc)) := by
      intro x y hxy
      apply Fin.ext
      have := congrArg Fin.val hxy
      simp only at this
      omega
    have := hli.comp _ hinj
    convert this using 1
    funext j l
    simp only [Function.comp, Matrix.row, toMatrix_apply]
    rw [hsv l.1 (re.rank + j.1) l.2 (by have := j.2; omega)]

/-- `null_space_matrix`: the result is the `nc × (nc − rank A)` matrix `N` with `A·N = 0` and
    linearly independent columns -/
theorem nullSpaceMatrix_sem (hs : Sem B E val) {nr nc : Nat} (a : Mat α nr nc) (ha : AllE E a) :
    ∃ (r : Nat) (hr : r ≤ nc) (s : Mat α nc nc),
      nullSpaceMatrix B a = .ok ((List.range nc).map fun i =>
        ((List.range nc).drop r).map fun j => entryD s B.zero i j) ∧
      r = (toMatrix val a).rank ∧
      (toMatrix val a * Matrix.of (fun (l : Fin nc) (j : Fin (nc - r)) =>
        val ((s[l.1])[r + j.1]'(by have := j.2; omega))) = 0) ∧
      LinearIndependent R (fun (j : Fin (nc - r)) (l : Fin nc) =>
        val ((s[l.1])[r + j.1]'(by have := j.2; omega))) := by
  obtain ⟨mt, re, s, h1, h2, h3, hrank, hle, hzero, hli⟩ := nullCore_sem hs a ha
  refine ⟨re.rank, hle, s, ?_, hrank, ?_, hli⟩
  · unfold nullSpaceMatrix
    rw [h1]; simp only [bind_ok]
    rw [h2]; simp only [bind_ok]
    rw [h3]; simp only [bind_ok]
    exact submatrix_eq s B.zero _ _ (fun i hi => by simpa using hi) (fun j hj => mem_drop_range hj)
  · ext i j
    rw [Matrix.mul_apply, Matrix.zero_apply]
    exact hzero (re.rank + j.1) (by have := j.2; omega) (by omega) i

/-- `null_space`: the same columns, one `nc × 1` matrix each -/
theorem nullSpace_sem (hs : Sem B E val) {nr nc : Nat} (a : Mat α nr nc) (ha : AllE E a) :
    ∃ (r : Nat) (hr : r ≤ nc) (s : Mat α nc nc),
      nullSpace B a = .ok (((List.range nc).drop r).map fun j =>
        (List.range nc).map fun i => [entryD s B.zero i j]) ∧
      r = (toMatrix val a).rank ∧
      (toMatrix val a * Matrix.of (fun (l : Fin nc) (j : Fin (nc - r)) =>
        val ((s[l.1])[r + j.1]'(by have := j.2; omega))) = 0) ∧
      LinearIndependent R (fun (j : Fin (nc - r)) (l : Fin nc) =>
        val ((s[l.1])[r + j.1]'(by have := j.2; omega))) := by
  obtain ⟨mt, re, s, h1, h2, h3, hrank, hle, hzero, hli⟩ := nullCore_sem hs a ha
  refine ⟨re.rank, hle, s, ?_, hrank, ?_, hli⟩
  · unfold nullSpace
    rw [h1]; simp only [bind_ok]
    rw [h2]; simp only [bind_ok]
    rw [h3]; simp only [bind_ok]
    apply mapO_map
    intro j hj
    rw [submatrix_eq s B.zero _ _ (fun i hi => by simpa using hi)
      (fun j' hj' => by
        simp only [List.mem_singleton] at hj'
        subst hj'; exact mem_drop_range hj)]
    rfl
  · ext i j
    rw [Matrix.mul_apply, Matrix.zero_apply]
    exact hzero (re.rank + j.1) (by have := j.2; omega) (by omega) i

end nullspace

end DSymVerif.LA
