/-
Property C05, part 1: the D-set built by `derived::cover`.

For a complete valid base D-set and a sheet map σ that (a) keeps the sheets `0..n-1` and
(b) is undone across every edge (`σ(σ(k,i,d), i, op_i d) = k`), the closure handed to
`build_set` is a total involution on `1..n·size`, so (`buildSet_of_total_involution`) no
assertion fires and the stored operations are  `op_i(sz·k + b) = sz·σ(k,i,b) + op_i b`.
Conversely (`buildSet_ok_involutive`) whenever `build_set` returns, σ satisfies (a) and (b).
-/
import DSymVerif.Proofs.BuildSet
import DSymVerif.Proofs.DSetOrbit

namespace DSymVerif.DS

/-! ### chamber numbers of the cover: `d = sz·k + b`, sheet `k`, base chamber `1 ≤ b ≤ sz` -/

/-- the projection onto the base, `src` in `derived::cover` -/
def cproj (sz d : Nat) : Nat := (d - 1) % sz + 1

/-- the sheet of a chamber of the cover, `(d - src(d)) / sz` in `derived::cover` -/
def csheet (sz d : Nat) : Nat := (d - cproj sz d) / sz

theorem cproj_range {sz d : Nat} (hsz : 1 ≤ sz) : 1 ≤ cproj sz d ∧ cproj sz d ≤ sz := by
  unfold cproj
  have := Nat.mod_lt (d - 1) (show 0 < sz by omega)
  omega

theorem csheet_eq {sz d : Nat} (hsz : 1 ≤ sz) (hd : 1 ≤ d) : csheet sz d = (d - 1) / sz := by
  unfold csheet cproj
  have h := Nat.div_add_mod (d - 1) sz
  have : d - ((d - 1) % sz + 1) = sz * ((d - 1) / sz) := by omega
  rw [this, Nat.mul_div_cancel_left _ (show 0 < sz by omega)]

/-- `d = sz · sheet + projection` -/
theorem cdecomp {sz d : Nat} (hsz : 1 ≤ sz) (hd : 1 ≤ d) : sz * csheet sz d + cproj sz d = d := by
  rw [csheet_eq hsz hd]
  unfold cproj
  have h := Nat.div_add_mod (d - 1) sz
  omega

theorem csheet_lt {sz n d : Nat} (hsz : 1 ≤ sz) (hd : 1 ≤ d) (hdn : d ≤ n * sz) : csheet sz d < n := by
  rw [csheet_eq hsz hd]
  exact (Nat.div_lt_iff_lt_mul (show 0 < sz by omega)).2 (by omega)

theorem cproj_mk {sz k b : Nat} (hb1 : 1 ≤ b) (hb2 : b ≤ sz) : cproj sz (sz * k + b) = b := by
  unfold cproj
  have : sz * k + b - 1 = sz * k + (b - 1) := by omega
  rw [this, Nat.mul_add_mod, Nat.mod_eq_of_lt (by omega)]
  omega

theorem csheet_mk {sz k b : Nat} (hb1 : 1 ≤ b) (hb2 : b ≤ sz) : csheet sz (sz * k + b) = k := by
  rw [csheet_eq (by omega) (by omega)]
  have : sz * k + b - 1 = sz * k + (b - 1) := by omega
  rw [this, Nat.mul_add_div (by omega), Nat.div_eq_of_lt (by omega)]
  rfl

theorem cmk_range {sz n k b : Nat} (hk : k < n) (hb1 : 1 ≤ b) (hb2 : b ≤ sz) :
    1 ≤ sz * k + b ∧ sz * k + b ≤ n * sz := by
  have h : sz * (k + 1) ≤ sz * n := Nat.mul_le_mul_left _ hk
  rw [Nat.mul_add, Nat.mul_one, Nat.mul_comm sz n] at h
  omega

/-! ### sheet maps -/

/-- the two conditions on a sheet map: (a) sheets stay in `0..n-1`, (b) crossing the same
    edge back returns to the sheet one came from -/
structure SheetCompat (s : DSetData) (n : Nat) (σ : Nat → Nat → Nat → Nat) : Prop where
  range : ∀ k i d, k < n → i ≤ s.dim → 1 ≤ d → d ≤ s.size → σ k i d < n
  invol : ∀ k i d, k < n → i ≤ s.dim → 1 ≤ d → d ≤ s.size → σ (σ k i d) i (s.opU i d) = k

/-- the closure `op` of `derived::cover` (as written there) -/
def coverOp (s : DSymData) (σ : Nat → Nat → Nat → Nat) (i d : Nat) : Option Nat :=
  (s.op i ((d - 1) % s.size + 1)).map
    (fun di => s.size * σ ((d - ((d - 1) % s.size + 1)) / s.size) i ((d - 1) % s.size + 1) + di)

/-- the operations of the cover: `op_i(sz·k + b) = sz·σ(k,i,b) + op_i b` -/
def coverF (s : DSetData) (σ : Nat → Nat → Nat → Nat) (i d : Nat) : Nat :=
  s.size * σ (csheet s.size d) i (cproj s.size d) + s.opU i (cproj s.size d)

theorem coverOp_eq (s : DSymData) (hsz : 1 ≤ s.size) (σ : Nat → Nat → Nat → Nat) {i d : Nat}
    (hi : i ≤ s.dim) : coverOp s σ i d = some (coverF s.dset σ i d) := by
  have hp := cproj_range (d := d) hsz
  have e : s.op i ((d - 1) % s.size + 1) = some (s.dset.opU i (cproj s.size d)) :=
    opSimple_eq_some.2 ⟨hi, hp.1, hp.2, rfl⟩
  unfold coverOp
  rw [e]
  rfl

section
variable {s : DSetData} (h : ValidSet s) (hsz : 1 ≤ s.size) {n : Nat} {σ : Nat → Nat → Nat → Nat}
include h hsz

omit h hsz in
theorem coverF_mk {i k b : Nat} (hb1 : 1 ≤ b) (hb2 : b ≤ s.size) :
    coverF s σ i (s.size * k + b) = s.size * σ k i b + s.opU i b := by
  unfold coverF
  rw [cproj_mk hb1 hb2, csheet_mk hb1 hb2]

omit h in
theorem coverF_range (hr : ∀ i b, i ≤ s.dim → 1 ≤ b → b ≤ s.size → 1 ≤ s.opU i b ∧ s.opU i b ≤ s.size)
    (hσ : SheetCompat s n σ) {i d : Nat} (hi : i ≤ s.dim)
    (hd1 : 1 ≤ d) (hd2 : d ≤ n * s.size) :
    1 ≤ coverF s σ i d ∧ coverF s σ i d ≤ n * s.size := by
  have hp := cproj_range (d := d) hsz
  have hk := csheet_lt hsz hd1 hd2
  have hb := hr i _ hi hp.1 hp.2
  exact cmk_range (hσ.range _ i _ hk hi hp.1 hp.2) hb.1 hb.2

theorem coverF_invol (hσ : SheetCompat s n σ) {i d : Nat} (hi : i ≤ s.dim)
    (hd1 : 1 ≤ d) (hd2 : d ≤ n * s.size) : coverF s σ i (coverF s σ i d) = d := by
  have hp := cproj_range (d := d) hsz
  have hk := csheet_lt hsz hd1 hd2
  have hb := h.range i _ hi hp.1 hp.2
  have e : coverF s σ i d = s.size * σ (csheet s.size d) i (cproj s.size d) + s.opU i (cproj s.size d) := rfl
  rw [e, coverF_mk hb.1 hb.2, hσ.invol _ i _ hk hi hp.1 hp.2, h.invol i _ hi hp.1 hp.2]
  exact cdecomp hsz hd1

/-- the projection commutes with the operations of the cover -/
theorem cproj_coverF {i d : Nat} (hi : i ≤ s.dim) :
    cproj s.size (coverF s σ i d) = s.opU i (cproj s.size d) := by
  have hp := cproj_range (d := d) hsz
  have hb := h.range i _ hi hp.1 hp.2
  exact cproj_mk hb.1 hb.2

end

/-- **the D-set of `cover`**: for a compatible sheet map `build_set` returns a complete valid
    D-set on `n·size` chambers with `op_i(sz·k + b) = sz·σ(k,i,b) + op_i b` -/
theorem cover_buildSet_ok (s : DSymData) (h : ValidSet s.dset) (hsz : 1 ≤ s.size) (hdim : 1 ≤ s.dim)
    {n : Nat} (hn : 1 ≤ n) {σ : Nat → Nat → Nat → Nat} (hσ : SheetCompat s.dset n σ) :
    ∃ ds, buildSet (n * s.size) s.dim (coverOp s σ) = .ok ds ∧ ds.size = n * s.size ∧ ds.dim = s.dim ∧
      ValidSet ds ∧ ∀ i d, i ≤ s.dim → 1 ≤ d → d ≤ n * s.size → ds.opU i d = coverF s.dset σ i d := by
  have hN : 1 ≤ n * s.size := Nat.mul_le_mul hn hsz
  exact buildSet_of_total_involution (f := coverF s.dset σ) hN hdim
    (fun i d hi _ _ => coverOp_eq s hsz σ hi)
    (fun i d hi h1 h2 => coverF_range hsz h.range hσ hi h1 h2)
    (fun i d hi h1 h2 => coverF_invol h hsz hσ hi h1 h2)

/-- **a wrong sheet map cannot be accepted**: whenever `build_set` returns on the closure of
    `cover`, the sheet map satisfies (a) and (b) -/
theorem cover_buildSet_ok_inv (s : DSymData) (h : ValidSet s.dset) (hsz : 1 ≤ s.size)
    {n : Nat} {σ : Nat → Nat → Nat → Nat} {ds : DSetData}
    (hb : buildSet (n * s.size) s.dim (coverOp s σ) = .ok ds) : SheetCompat s.dset n σ := by
  have key := buildSet_ok_involutive (f := coverF s.dset σ)
    (fun i d hi _ _ => coverOp_eq s hsz σ hi) hb
  have hrange : ∀ k i b, k < n → i ≤ s.dset.dim → 1 ≤ b → b ≤ s.dset.size → σ k i b < n := by
    intro k i b hk hi hb1 hb2
    have hd := cmk_range (sz := s.dset.size) hk hb1 hb2
    obtain ⟨hr, _, _⟩ := key i _ hi hd.1 hd.2
    rw [coverF_mk hb1 hb2] at hr
    have ho := h.range i b hi hb1 hb2
    by_cases hlt : σ k i b < n
    · exact hlt
    · exfalso
      have : s.dset.size * n ≤ s.dset.size * σ k i b := Nat.mul_le_mul_left _ (by omega)
      rw [Nat.mul_comm s.dset.size n] at this
      have hr2 : s.dset.size * σ k i b + s.dset.opU i b ≤ n * s.dset.size := hr.2
      omega
  refine ⟨hrange, ?_⟩
  intro k i b hk hi hb1 hb2
  have hd := cmk_range (sz := s.dset.size) hk hb1 hb2
  obtain ⟨_, hinv, _⟩ := key i _ hi hd.1 hd.2
  have ho := h.range i b hi hb1 hb2
  rw [coverF_mk hb1 hb2, coverF_mk ho.1 ho.2, h.invol i b hi hb1 hb2] at hinv
  have : s.dset.size * σ (σ k i b) i (s.dset.opU i b) = s.dset.size * k := by omega
  exact Nat.eq_of_mul_eq_mul_left (show 0 < s.dset.size by exact hsz) this

end DSymVerif.DS
