/-
Helper lemmas for property C09, part 9: the relator representative of a word is a conjugate of the
word or of its inverse, so a group homomorphism kills one exactly when it kills the other.
-/
import Mathlib.Tactic.Group
import DSymVerif.Proofs.FreeWordCyclic

namespace DSymVerif.FGP
open DSymVerif DSymVerif.FWP DSymVerif.SpecC10

theorem den_rotated {a : List Int} (hn : a ≠ []) {k : Nat} (hk : k < a.length) :
    den (FW.rotated a (k : Int)) = (den (a.take k))⁻¹ * den a * den (a.take k) := by
  rw [rotated_natCast hn hk, den_normalized, den_append]
  have : den a = den (a.take k) * den (a.drop k) := by
    rw [← den_append, List.take_append_drop]
  rw [this]
  group

/-- a homomorphism kills the relator representative iff it kills the word -/
theorem hom_relRep_eq_one {G : Type} [Group G] (μ : FreeGroup ℕ →* G) {a : List Int}
    (hr : isReduced a = true) :
    μ (den (FW.relatorRepresentative a)) = 1 ↔ μ (den a) = 1 := by
  by_cases hn : a = []
  · subst hn
    have : FW.relatorRepresentative [] = [] := by simp [FW.relatorRepresentative]
    rw [this]
  · have hm := relRep_mem hr hn
    unfold rotInvList at hm
    simp only [List.mem_flatMap, List.mem_range, List.mem_cons, List.not_mem_nil, or_false] at hm
    obtain ⟨k, hk, h | h⟩ := hm
    · rw [h, den_rotated hn hk, map_mul, map_mul, map_inv]
      constructor
      · intro h1
        have : μ (den a) = μ (den (a.take k)) * 1 * (μ (den (a.take k)))⁻¹ := by
          rw [← h1]; group
        rw [this]; group
      · intro h1
        rw [h1]; group
    · rw [h, den_inverse, den_rotated hn hk, map_inv, map_mul, map_mul, map_inv, inv_eq_one]
      constructor
      · intro h1
        have : μ (den a) = μ (den (a.take k)) * 1 * (μ (den (a.take k)))⁻¹ := by
          rw [← h1]; group
        rw [this]; group
      · intro h1
        rw [h1]; group

end DSymVerif.FGP
