/-
C12 completeness, part 6 (Spec side): from every base point of a valid table `renumberFrom`
succeeds and returns an isomorphic table in standard form whose row 0 is the base point.
-/
import DSymVerif.Proofs.LowIndexStd

namespace DSymVerif.CanonP
open DSymVerif DSymVerif.SpecC11 DSymVerif.CosetP DSymVerif.RebaseP

theorem trace_inverse' {t : Tab} {n : Nat} (hinv : InvConsistent t n) : ∀ (w : List Int) (c d : Nat),
    traceWord t n c w = some d → traceWord t n d (w.reverse.map (fun x => -x)) = some c
  | [], c, d, h => by
    simp only [SpecC11.traceWord, Option.some.injEq] at h
    subst h
    rfl
  | g :: w, c, d, h => by
    simp only [SpecC11.traceWord] at h
    cases he : entry t n c g with
    | none => simp [he] at h
    | some e =>
      simp only [he] at h
      have ih := trace_inverse' hinv w e d h
      simp only [List.reverse_cons, List.map_append, List.map_cons, List.map_nil]
      exact traceWord_snoc_intro ih (hinv _ _ _ he)

theorem bfsLetters_prefix (t : Tab) (n c : Nat) (wc : List Int) : ∀ (gs : List Int) (s : St),
    s.1.size ≤ (bfsLetters t n c wc gs s).1.size ∧
      ∀ p, p < s.1.size → (bfsLetters t n c wc gs s).1.getD p 0 = s.1.getD p 0
  | [], s => by simp [bfsLetters]
  | g :: gs, (ord, ws) => by
    cases he : entry t n c g with
    | none =>
      rw [bfsLetters_cons_none he]
      exact bfsLetters_prefix t n c wc gs (ord, ws)
    | some d =>
      by_cases hv : (ws.getD d none).isNone = true
      · rw [bfsLetters_cons_new he hv]
        obtain ⟨h1, h2⟩ := bfsLetters_prefix t n c wc gs (ord.push d, ws.setIfInBounds d (some (g :: wc)))
        simp only [Array.size_push] at h1 h2
        refine ⟨by simp only []; omega, ?_⟩
        intro p hp
        simp only [] at hp
        rw [h2 p (by omega), getD_push_lt _ _ _ hp]
      · rw [bfsLetters_cons_old he hv]
        exact bfsLetters_prefix t n c wc gs (ord, ws)

theorem bfsLoop_prefix (t : Tab) (n : Nat) : ∀ (fuel i : Nat) (s : St),
    ∀ p, p < s.1.size → (bfsLoop t n fuel i s).1.getD p 0 = s.1.getD p 0
  | 0, _, s, p, _ => by simp [bfsLoop]
  | f + 1, i, (ord, ws), p, hp => by
    simp only [bfsLoop]
    by_cases hlt : i < ord.size
    · simp only [hlt, dif_pos]
      obtain ⟨h1, h2⟩ := bfsLetters_prefix t n ord[i] ((ws.getD ord[i] none).getD []) (letters n) (ord, ws)
      rw [bfsLoop_prefix t n f (i + 1) _ p (by simp only [] at hp h1; omega), h2 p hp]
    · simp only [hlt, dif_neg, not_false_eq_true]

/-- the BFS of a valid table from any base point visits every row, in standard order -/
theorem bfs_full {t : Tab} {n : Nat} {rels subs : List (List Int)} (hv : Valid t n rels subs)
    (b : Nat) (hb : b < t.size) :
    Marks t.size (bfs t n b) ∧ (bfs t n b).1.size = t.size ∧ StdOrd t n (bfs t n b).1 ∧
      (bfs t n b).1.getD 0 0 = b := by
  have hm0 : Marks t.size (#[b], (Array.replicate t.size none).setIfInBounds b (some [])) := by
    refine ⟨by simp, ?_, by simp, ?_⟩
    · intro d hd
      simp only [getD_setIfInBounds, Array.size_replicate]
      by_cases hsd : b = d
      · subst hsd; simp [hb]
      · have : ¬ (b = d ∧ b < t.size) := fun x => hsd x.1
        simp only [this, if_false]
        simp [Array.getD_eq_getD_getElem?, hd]
        exact fun e => hsd e.symm
    · intro d hd
      simp at hd
      exact hd ▸ hb
  have hw0 : WordsOK t n b (#[b], (Array.replicate t.size none).setIfInBounds b (some [])) := by
    intro d wr hd
    simp only [getD_setIfInBounds, Array.size_replicate] at hd
    by_cases e : b = d ∧ b < t.size
    · rw [if_pos e] at hd
      injection hd with hd
      subst hd
      rw [← e.1]; rfl
    · rw [if_neg e] at hd
      simp [Array.getD_eq_getD_getElem?, Array.getElem?_replicate] at hd
      split at hd <;> cases hd
  have hstd0 : StdOrd t n #[b] := by
    intro j h0 hj
    simp at hj
    omega
  obtain ⟨b1, b2, b3, b4⟩ := bfsLoop_inv t n b t.size 0 _ hm0 hw0
    (fun p _ hp => by omega) (by simp) (by omega)
  have hstd := bfsLoop_std hv.total b t.size 0 _ hm0 hw0 (fun p _ hp => by omega) (by simp) hstd0
  have hpre := bfsLoop_prefix t n t.size 0 (#[b], (Array.replicate t.size none).setIfInBounds b (some [])) 0 (by simp)
  have hall : ∀ (w : List Int) (x d : Nat), x ∈ (bfs t n b).1 → traceWord t n x w = some d → d ∈ (bfs t n b).1 := by
    intro w
    induction w with
    | nil =>
      intro x d hx h
      simp only [traceWord, Option.some.injEq] at h
      exact h ▸ hx
    | cons g w ih =>
      intro x d hx h
      simp only [traceWord] at h
      cases he : entry t n x g with
      | none => simp [he] at h
      | some e =>
        simp only [he] at h
        obtain ⟨p, hp, rfl⟩ := Array.mem_iff_getElem.mp hx
        have hg' : (bfs t n b).1.getD p 0 = (bfs t n b).1[p] := getD_of_lt _ hp
        refine ih e d (b4 p hp hp g (entry_some he).2.2 e ?_) h
        show entry t n ((bfs t n b).1.getD p 0) g = some e
        rw [hg']; exact he
  have hfull : ∀ c, c < t.size → c ∈ (bfs t n b).1 := by
    intro c hc
    obtain ⟨w, hw⟩ := hv.conn c hc
    obtain ⟨wb, hwb⟩ := hv.conn b hb
    have hback := trace_inverse' hv.inv wb 0 b hwb
    have : traceWord t n b (wb.reverse.map (fun x => -x) ++ w) = some c := by
      rw [traceWord_append, hback]; exact hw
    exact hall _ b c (b3 b (by simp)) this
  refine ⟨b1, ?_, hstd, ?_⟩
  · have h1 : (bfs t n b).1.toList.length ≤ (List.range t.size).length :=
      b1.nodup.length_le_of_subset (fun x hx => List.mem_range.mpr (b1.lt x (by simpa using hx)))
    have h2 : (List.range t.size).length ≤ (bfs t n b).1.toList.length :=
      List.nodup_range.length_le_of_subset (fun x hx => by
        have := hfull x (List.mem_range.mp hx)
        simpa using this)
    simp only [List.length_range, Array.length_toList] at h1 h2
    omega
  · have : (bfs t n b).1.getD 0 0 = (#[b] : Array Nat).getD 0 0 := hpre
    rw [this]; rfl

/-- a table in standard form -/
def StdTab (u : Tab) (n : Nat) : Prop :=
  ∀ j, 0 < j → j < u.size → ∃ k g pre post, k < j ∧ letters n = pre ++ g :: post ∧
    entry u n k g = some j ∧
    ∀ k' g', g' ∈ letters n → Before k' g' k pre → ∃ v, entry u n k' g' = some v ∧ v < j

/-- **re-basing**: from every base point of a valid table the Spec's BFS renumbering succeeds,
    is isomorphic to the table (new row `i` ↦ old row `ord[i]`, new row 0 ↦ the base point) and
    is in standard form -/
theorem renumberFrom_std {t : Tab} {n : Nat} {rels subs : List (List Int)} (hv : Valid t n rels subs)
    (b : Nat) (hb : b < t.size) :
    ∃ u ord o2n, renumberFrom t n b = some u ∧ Renum t n b u ord o2n ∧ ord.getD 0 0 = b ∧ StdTab u n := by
  obtain ⟨hm, hsz, hstd, h0⟩ := bfs_full hv b hb
  have hsome : renumberFrom t n b = some (renumTab t n (bfs t n b).1 (invertOrder t.size (bfs t n b).1)) := by
    rw [renumberFrom_eq]
    simp [hsz]
  have r := renum_of_some hb hsome
  refine ⟨_, _, _, hsome, r, h0, ?_⟩
  have husz : (renumTab t n (bfs t n b).1 (invertOrder t.size (bfs t n b).1)).size = t.size := by
    simp [renumTab, hsz]
  intro j hj0 hj
  rw [husz, ← hsz] at hj
  obtain ⟨k, g, pre, post, hk, hs, he, hbef⟩ := hstd j hj0 hj
  have hk' : k < (bfs t n b).1.size := by omega
  refine ⟨k, g, pre, post, hk, hs, ?_, ?_⟩
  · rw [entry_renumTab r.size (fun d hd => r.o2n_lt d hd) k hk' g]
    rw [getD_of_lt _ hk'] at he
    rw [he, getD_of_lt _ hj]
    simp only [Option.map_some, Option.some.injEq]
    exact r.inv j hj
  · intro k' g' hg' hb'
    obtain ⟨p, hp, hep⟩ := hbef k' g' hg' hb'
    have hk'' : k' < (bfs t n b).1.size := by rcases hb' with h | ⟨h, _⟩ <;> omega
    have hp' : p < (bfs t n b).1.size := by omega
    refine ⟨p, ?_, hp⟩
    rw [entry_renumTab r.size (fun d hd => r.o2n_lt d hd) k' hk'' g']
    rw [getD_of_lt _ hk''] at hep
    rw [hep, getD_of_lt _ hp']
    simp only [Option.map_some, Option.some.injEq]
    exact r.inv p hp'

end DSymVerif.CanonP
