/-
No routine built on the elimination panics, for any shape: `rank`, `null_space`,
`null_space_matrix`, `solve`, `determinant`, `inverse` (generic in a `Safe` back-end).
`solve`/`inverse` end in `ok` (a matrix) or `err` (`None`), never in `panic`.
-/
import DSymVerif.Proofs.Echelon

namespace DSymVerif.LA

open DSymVerif

section loops
variable {σ : Type}

/-- loop rule allowing an early `return None` (`err`) -/
theorem forLoop_np (f : Nat → σ → Outcome σ) (I : σ → Prop) :
    ∀ (n k : Nat) (s : σ), I s →
      (∀ j s, k ≤ j → j < k + n → I s → (∃ s', f j s = .ok s' ∧ I s') ∨ f j s = .err) →
      (∃ s', forLoop f n k s = .ok s' ∧ I s') ∨ forLoop f n k s = .err := by
  intro n
  induction n with
  | zero => intro k s hs _; exact Or.inl ⟨s, rfl, hs⟩
  | succ n ih =>
    intro k s hs hstep
    unfold forLoop
    rcases hstep k s (Nat.le_refl _) (by omega) hs with ⟨s1, h1, hI1⟩ | h1
    · rw [h1]
      exact ih (k + 1) s1 hI1 (fun j s hj hj' => hstep j s (by omega) (by omega))
    · rw [h1]; exact Or.inr rfl

theorem forRange_np (lo hi : Nat) (init : σ) (f : Nat → σ → Outcome σ) (I : σ → Prop)
    (h0 : I init)
    (hstep : ∀ j s, lo ≤ j → j < hi → I s → (∃ s', f j s = .ok s' ∧ I s') ∨ f j s = .err) :
    (∃ s', forRange lo hi init f = .ok s' ∧ I s') ∨ forRange lo hi init f = .err := by
  unfold forRange
  exact forLoop_np f I _ _ _ h0 (fun j s hj hj' => hstep j s hj (by omega))

theorem forDown_np (f : Nat → σ → Outcome σ) (I : σ → Prop) :
    ∀ (n : Nat) (s : σ), I s →
      (∀ j s, j < n → I s → (∃ s', f j s = .ok s' ∧ I s') ∨ f j s = .err) →
      (∃ s', forDown f n s = .ok s' ∧ I s') ∨ forDown f n s = .err := by
  intro n
  induction n with
  | zero => intro s hs _; exact Or.inl ⟨s, rfl, hs⟩
  | succ n ih =>
    intro s hs hstep
    unfold forDown
    rcases hstep n s (by omega) hs with ⟨s1, h1, hI1⟩ | h1
    · rw [h1]
      exact ih s1 hI1 (fun j s hj => hstep j s (by omega))
    · rw [h1]; exact Or.inr rfl

theorem mapO_ok {α β : Type} (f : α → Outcome β) (P : α → Prop) (hf : ∀ x, P x → ∃ y, f x = .ok y) :
    ∀ xs : List α, (∀ x ∈ xs, P x) → ∃ ys, mapO f xs = .ok ys := by
  intro xs
  induction xs with
  | nil => intro _; exact ⟨[], rfl⟩
  | cons x xs ih =>
    intro h
    obtain ⟨y, hy⟩ := hf x (h x (List.mem_cons_self ..))
    obtain ⟨ys, hys⟩ := ih (fun z hz => h z (List.mem_cons_of_mem _ hz))
    exact ⟨y :: ys, by unfold mapO; rw [hy, hys]⟩

end loops

section routines
variable {α : Type} {B : Backend α} {E Q : α → Prop}

theorem transpose_ok (hs : Safe B E Q) {nr nc : Nat} (m : Mat α nr nc) (hm : AllE E m) :
    ∃ t, transpose B m = .ok t ∧ AllE E t := by
  unfold transpose
  apply forRange_ok 0 nc _ _ (AllE E) (AllE.fill hs.zero)
  intro i res _ hi hres
  apply forRange_ok 0 nr res _ (AllE E) hres
  intro j res _ hj hres
  rw [Mat.get_ok m hj hi]
  simp only [bind_ok]
  exact ⟨_, Mat.set_ok res hi hj _, hres.set hi hj (hm j i hj hi)⟩

theorem matMul_ok (hs : Safe B E Q) {n m k : Nat} (a : Mat α n m) (b : Mat α m k)
    (ha : AllE E a) (hb : AllE E b) : ∃ c, matMul B a b = .ok c ∧ AllE E c := by
  unfold matMul
  apply forRange_ok 0 n _ _ (AllE E) (AllE.fill hs.zero)
  intro i res _ hi hres
  apply forRange_ok 0 k res _ (AllE E) hres
  intro j res _ hj hres
  obtain ⟨x, hx, hxE⟩ := forRange_ok 0 m B.zero
    (fun l x => (a.get i l).bind fun ail => (b.get l j).bind fun blj =>
      (B.mul ail blj).bind fun p => B.add x p) E hs.zero
    (by
      intro l x _ hl hxE
      rw [Mat.get_ok a hi hl, Mat.get_ok b hl hj]
      simp only [bind_ok]
      obtain ⟨p, hp, hpE⟩ := hs.mul _ _ (ha i l hi hl) (hb l j hl hj)
      rw [hp]
      simp only [bind_ok]
      exact hs.add x p hxE hpE)
  rw [hx]
  simp only [bind_ok]
  exact ⟨_, Mat.set_ok res hi hj _, hres.set hi hj hxE⟩

theorem submatrix_ok {nr nc : Nat} (m : Mat α nr nc) (rows cols : List Nat)
    (hr : ∀ i ∈ rows, i < nr) (hc : ∀ j ∈ cols, j < nc) : ∃ r, submatrix m rows cols = .ok r := by
  unfold submatrix
  have h1 : rows.all (· < nr) = true := by simpa using hr
  have h2 : cols.all (· < nc) = true := by simpa using hc
  simp only [h1, h2, Bool.and_self, if_true]
  apply mapO_ok _ (· < nr) _ rows hr
  intro i hi
  apply mapO_ok _ (· < nc) _ cols hc
  intro j hj
  exact ⟨_, Mat.get_ok m hi hj⟩

theorem mem_drop_range {n r i : Nat} (h : i ∈ (List.range n).drop r) : i < n := by
  have := List.mem_of_mem_drop h
  simpa using this

/-- `null_space_matrix` never panics -/
theorem nullSpaceMatrix_ok (hs : Safe B E Q) {nr nc : Nat} (m : Mat α nr nc) (hm : AllE E m) :
    ∃ r, nullSpaceMatrix B m = .ok r := by
  unfold nullSpaceMatrix
  obtain ⟨mt, h1, hmt⟩ := transpose_ok hs m hm
  rw [h1]; simp only [bind_ok]
  obtain ⟨re, h2, _, hmul, _⟩ := echelon_ok hs mt hmt
  rw [h2]; simp only [bind_ok]
  obtain ⟨s, h3, _⟩ := transpose_ok hs re.multiplier hmul
  rw [h3]; simp only [bind_ok]
  exact submatrix_ok s _ _ (fun i hi => by simpa using hi) (fun j hj => mem_drop_range hj)

/-- `null_space` never panics -/
theorem nullSpace_ok (hs : Safe B E Q) {nr nc : Nat} (m : Mat α nr nc) (hm : AllE E m) :
    ∃ r, nullSpace B m = .ok r := by
  unfold nullSpace
  obtain ⟨mt, h1, hmt⟩ := transpose_ok hs m hm
  rw [h1]; simp only [bind_ok]
  obtain ⟨re, h2, _, hmul, _⟩ := echelon_ok hs mt hmt
  rw [h2]; simp only [bind_ok]
  obtain ⟨s, h3, _⟩ := transpose_ok hs re.multiplier hmul
  rw [h3]; simp only [bind_ok]
  apply mapO_ok _ (· < nc) _ _ (fun j hj => mem_drop_range hj)
  intro i hi
  exact submatrix_ok s _ _ (fun i hi => by simpa using hi)
    (fun j hj => by simp only [List.mem_singleton] at hj; omega)

theorem rowTimes_ok (hs : Safe B E Q) {nr nc k : Nat} (a : Mat α nr nc) (row : Nat) (hrow : row < nr)
    (x : Mat α nc k) (ha : AllE E a) (hx : AllE E x) :
    ∃ r, rowTimes B a row x = .ok r ∧ AllE E r := by
  unfold rowTimes
  obtain ⟨r, hr, hrE⟩ := forRange_ok 0 nc (Mat.fill B.zero : Mat α 1 nc)
    (fun j r => (a.get row j).bind fun v => r.set 0 j v) (AllE E) (AllE.fill hs.zero)
    (by
      intro j r _ hj hrE
      rw [Mat.get_ok a hrow hj]
      simp only [bind_ok]
      exact ⟨_, Mat.set_ok r (by omega) hj _, hrE.set _ hj (ha row j hrow hj)⟩)
  rw [hr]; simp only [bind_ok]
  exact matMul_ok hs r x hrE hx

/-- `solve` returns `Some` (`ok`) or `None` (`err`): it never panics, whatever the shapes
    `nr × nc` of the matrix and `nr × k` of the right-hand side -/
theorem solve_np (hs : Safe B E Q) {nr nc k : Nat} (a : Mat α nr nc) (rhs : Mat α nr k)
    (ha : AllE E a) (hb : AllE E rhs) :
    (∃ x, solve B a rhs = .ok x ∧ AllE E x) ∨ solve B a rhs = .err := by
  unfold solve
  obtain ⟨re, h1, hrank, hmul, hres, hcols⟩ := echelon_ok hs a ha
  rw [h1]; simp only [bind_ok]
  obtain ⟨y, h2, hy⟩ := matMul_ok hs re.multiplier rhs hmul hb
  rw [h2]; simp only [bind_ok]
  obtain ⟨cons, h3, _⟩ := forRange_ok re.rank nr true
    (fun i acc => forRange 0 k acc fun j acc =>
      (y.get i j).bind fun v => Outcome.ok (acc && B.isZero v)) (fun _ => True) trivial
    (by
      intro i acc _ hi _
      apply forRange_ok 0 k acc _ (fun _ => True) trivial
      intro j acc _ hj _
      rw [Mat.get_ok y hi hj]
      exact ⟨_, rfl, trivial⟩)
  rw [h3]; simp only [bind_ok]
  cases cons with
  | false => exact Or.inr rfl
  | true =>
    simp only [Bool.not_true, Bool.false_eq_true, if_false]
    apply forDown_np _ (AllE E) re.rank _ (AllE.fill hs.zero)
    intro row result hrow hres'
    have hrow' : row < nr := by omega
    obtain ⟨av, h4, hav⟩ := rowTimes_ok hs re.result row hrow' result hres hres'
    rw [h4]; simp only [bind_ok, hrow', dite_true]
    have hc := hcols row hrow' hrow
    rw [Mat.get_ok re.result hrow' hc]; simp only [bind_ok]
    apply forRange_np 0 k result _ (AllE E) hres'
    intro kk result _ hkk hres''
    rw [Mat.get_ok y hrow' hkk, Mat.get_ok av (by omega) hkk]
    simp only [bind_ok]
    obtain ⟨t, ht, htE⟩ := hs.sub _ _ (hy row kk hrow' hkk) (hav 0 kk (by omega) hkk)
    rw [ht]; simp only [bind_ok]
    obtain ⟨cd, hcd, hdiv⟩ := hs.canDivide t _ htE (hres row _ hrow' hc)
    rw [hcd]; simp only [bind_ok]
    cases cd with
    | false => exact Or.inr rfl
    | true =>
      obtain ⟨q, hq, hqE⟩ := hdiv rfl
      simp only [if_true]
      rw [hq]; simp only [bind_ok]
      exact Or.inl ⟨_, Mat.set_ok result hc hkk q, hres''.set hc hkk hqE⟩

/-- `inverse` never panics -/
theorem inverse_np (hs : Safe B E Q) {n : Nat} (a : Mat α n n) (ha : AllE E a) :
    (∃ x, inverse B a = .ok x ∧ AllE E x) ∨ inverse B a = .err := by
  unfold inverse
  obtain ⟨i, hi, hiE⟩ := identity_ok hs n
  rw [hi]; simp only [bind_ok]
  exact solve_np hs a i ha hiE

/-- `determinant` never panics (closed formulas up to 3×3, elimination beyond) -/
theorem determinant_ok (hs : Safe B E Q) {n : Nat} (a : Mat α n n) (ha : AllE E a) :
    ∃ d, determinant B a = .ok d ∧ E d := by
  unfold determinant
  by_cases h0 : n = 0
  · simp only [h0, if_true]; exact ⟨_, rfl, hs.one⟩
  by_cases h1 : n = 1
  · subst h1
    simp only [if_true, Nat.succ_ne_zero, if_false]
    exact ⟨_, Mat.get_ok a (by omega) (by omega), ha 0 0 (by omega) (by omega)⟩
  by_cases h2 : n = 2
  · subst h2
    simp only [if_true, if_false, OfNat.ofNat_ne_one, OfNat.ofNat_ne_zero]
    rw [Mat.get_ok a (i := 0) (j := 0) (by omega) (by omega),
      Mat.get_ok a (i := 1) (j := 1) (by omega) (by omega),
      Mat.get_ok a (i := 0) (j := 1) (by omega) (by omega),
      Mat.get_ok a (i := 1) (j := 0) (by omega) (by omega)]
    simp only [bind_ok]
    obtain ⟨ad, had, hadE⟩ := hs.mul _ _ (ha 0 0 (by omega) (by omega)) (ha 1 1 (by omega) (by omega))
    rw [had]; simp only [bind_ok]
    obtain ⟨bc, hbc, hbcE⟩ := hs.mul _ _ (ha 0 1 (by omega) (by omega)) (ha 1 0 (by omega) (by omega))
    rw [hbc]; simp only [bind_ok]
    exact hs.sub _ _ hadE hbcE
  by_cases h3 : n = 3
  · subst h3
    simp only [if_true, if_false, OfNat.ofNat_ne_one, OfNat.ofNat_ne_zero,
      show (3 : Nat) ≠ 2 by omega]
    have e : ∀ (i j : Nat) (hi : i < 3) (hj : j < 3), E ((a[i])[j]) := fun i j hi hj => ha i j hi hj
    rw [Mat.get_ok a (i := 0) (j := 0) (by omega) (by omega),
      Mat.get_ok a (i := 0) (j := 1) (by omega) (by omega),
      Mat.get_ok a (i := 0) (j := 2) (by omega) (by omega),
      Mat.get_ok a (i := 1) (j := 0) (by omega) (by omega),
      Mat.get_ok a (i := 1) (j := 1) (by omega) (by omega),
      Mat.get_ok a (i := 1) (j := 2) (by omega) (by omega),
      Mat.get_ok a (i := 2) (j := 0) (by omega) (by omega),
      Mat.get_ok a (i := 2) (j := 1) (by omega) (by omega),
      Mat.get_ok a (i := 2) (j := 2) (by omega) (by omega)]
    simp only [bind_ok]
    obtain ⟨t1, ht1, ht1E⟩ := hs.mul _ _ (e 1 1 (by omega) (by omega)) (e 2 2 (by omega) (by omega))
    rw [ht1]; simp only [bind_ok]
    obtain ⟨p1, hp1, hp1E⟩ := hs.mul _ _ (e 0 0 (by omega) (by omega)) ht1E
    rw [hp1]; simp only [bind_ok]
    obtain ⟨t2, ht2, ht2E⟩ := hs.mul _ _ (e 1 2 (by omega) (by omega)) (e 2 0 (by omega) (by omega))
    rw [ht2]; simp only [bind_ok]
    obtain ⟨p2, hp2, hp2E⟩ := hs.mul _ _ (e 0 1 (by omega) (by omega)) ht2E
    rw [hp2]; simp only [bind_ok]
    obtain ⟨s1, hs1, hs1E⟩ := hs.add _ _ hp1E hp2E
    rw [hs1]; simp only [bind_ok]
    obtain ⟨t3, ht3, ht3E⟩ := hs.mul _ _ (e 1 0 (by omega) (by omega)) (e 2 1 (by omega) (by omega))
    rw [ht3]; simp only [bind_ok]
    obtain ⟨p3, hp3, hp3E⟩ := hs.mul _ _ (e 0 2 (by omega) (by omega)) ht3E
    rw [hp3]; simp only [bind_ok]
    obtain ⟨s2, hs2, hs2E⟩ := hs.add _ _ hs1E hp3E
    rw [hs2]; simp only [bind_ok]
    obtain ⟨t4, ht4, ht4E⟩ := hs.mul _ _ (e 1 1 (by omega) (by omega)) (e 2 0 (by omega) (by omega))
    rw [ht4]; simp only [bind_ok]
    obtain ⟨p4, hp4, hp4E⟩ := hs.mul _ _ (e 0 2 (by omega) (by omega)) ht4E
    rw [hp4]; simp only [bind_ok]
    obtain ⟨s3, hs3, hs3E⟩ := hs.sub _ _ hs2E hp4E
    rw [hs3]; simp only [bind_ok]
    obtain ⟨t5, ht5, ht5E⟩ := hs.mul _ _ (e 1 2 (by omega) (by omega)) (e 2 1 (by omega) (by omega))
    rw [ht5]; simp only [bind_ok]
    obtain ⟨p5, hp5, hp5E⟩ := hs.mul _ _ (e 0 0 (by omega) (by omega)) ht5E
    rw [hp5]; simp only [bind_ok]
    obtain ⟨s4, hs4, hs4E⟩ := hs.sub _ _ hs3E hp5E
    rw [hs4]; simp only [bind_ok]
    obtain ⟨t6, ht6, ht6E⟩ := hs.mul _ _ (e 1 0 (by omega) (by omega)) (e 2 2 (by omega) (by omega))
    rw [ht6]; simp only [bind_ok]
    obtain ⟨p6, hp6, hp6E⟩ := hs.mul _ _ (e 0 1 (by omega) (by omega)) ht6E
    rw [hp6]; simp only [bind_ok]
    exact hs.sub _ _ hs4E hp6E
  · simp only [h0, h1, h2, h3, if_false]
    obtain ⟨re, hre, _, _, hres, _⟩ := echelon_ok hs a ha
    rw [hre]; simp only [bind_ok]
    obtain ⟨res, hr, hrE⟩ := forRange_ok 0 n B.one
      (fun i acc => (re.result.get i i).bind fun d => B.mul acc d) E hs.one
      (by
        intro i acc _ hi haccE
        rw [Mat.get_ok re.result hi hi]
        simp only [bind_ok]
        exact hs.mul _ _ haccE (hres i i hi hi))
    rw [hr]; simp only [bind_ok]
    split
    · exact ⟨_, rfl, hrE⟩
    · exact hs.neg _ hrE

/-- all routines at once, any shape `nr × nc`, any right-hand side `nr × k` -/
theorem routines_np (hs : Safe B E Q) {nr nc k : Nat} (a : Mat α nr nc) (rhs : Mat α nr k)
    (ha : AllE E a) (hb : AllE E rhs) :
    (∃ r, rank B a = .ok r ∧ r ≤ nr) ∧ (∃ r, nullSpace B a = .ok r) ∧
    (∃ r, nullSpaceMatrix B a = .ok r) ∧ solve B a rhs ≠ .panic := by
  refine ⟨?_, nullSpace_ok hs a ha, nullSpaceMatrix_ok hs a ha, ?_⟩
  · obtain ⟨re, h, hr, _⟩ := echelon_ok hs a ha
    exact ⟨re.rank, by unfold rank; rw [h]; rfl, hr⟩
  · rcases solve_np hs a rhs ha hb with ⟨x, h, _⟩ | h <;> rw [h] <;> exact fun h => by cases h

theorem square_np (hs : Safe B E Q) {n : Nat} (a : Mat α n n) (ha : AllE E a) :
    (∃ d, determinant B a = .ok d) ∧ inverse B a ≠ .panic := by
  obtain ⟨d, hd, _⟩ := determinant_ok hs a ha
  refine ⟨⟨d, hd⟩, ?_⟩
  rcases inverse_np hs a ha with ⟨x, h, _⟩ | h <;> rw [h] <;> exact fun h => by cases h

end routines

end DSymVerif.LA
