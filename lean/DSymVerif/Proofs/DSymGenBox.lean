/-
Lemmas for property C07 about the Spec's oracle (`Spec/C07.lean`): **the box suffices**.

The oracle enumerates the branching assignments with vmin ≤ v ≤ 8 on every orbit.  The
curvature K(a) = Σ_orbits w_o / a_o − size/2 (w_o = |o|/r_o > 0) is strictly antitone in every
a_o, so: if wherever a member b of the box has K(b) ≥ 0 it still has K ≥ 0 after removing the
contributions of all orbits sitting at the top value 8 (the limit v → ∞; the decidable
`boxPremise`, evaluated by the Spec for every explored D-set), then

* every assignment whatsoever with an entry ≥ 8 has K ≠ 0, and
* every minimally hyperbolic assignment whatsoever has all entries ≤ 8,

i.e. the box contains every euclidean and every minimally hyperbolic assignment (the spherical
clause is bounded by 7 in the property itself).
-/
import Mathlib.Algebra.BigOperators.Group.Finset.Basic
import Mathlib.Algebra.BigOperators.Ring.Finset
import Mathlib.Algebra.Order.BigOperators.Group.Finset
import Mathlib.Tactic.Linarith
import Mathlib.Tactic.FieldSimp
import Mathlib.Tactic.Positivity
import DSymVerif.Proofs.Delaney2dFrac
import DSymVerif.Spec.C07

namespace DSymVerif.SpecC07
open Finset

/-! ### the arithmetic core, over functions ℕ → ℕ -/

section core
variable (w : ℕ → ℚ) (m : ℕ) (h : ℚ) (top : ℕ)

/-- K(a) = Σ_{i<m} w i / a i − h -/
def Kf (a : ℕ → ℕ) : ℚ := ∑ i ∈ range m, w i / (a i : ℚ) - h

/-- the contribution of the entries sitting at `top` -/
def Tf (a : ℕ → ℕ) : ℚ := ∑ i ∈ range m, if a i = top then w i / (top : ℚ) else 0

/-- entries above `top` lowered to `top` -/
def clamp (a : ℕ → ℕ) : ℕ → ℕ := fun i => min (a i) top

variable {w m h top}

theorem Kf_anti (hw : ∀ i, i < m → 0 < w i) (a b : ℕ → ℕ) (hb : ∀ i, i < m → 1 ≤ b i ∧ b i ≤ a i) :
    Kf w m h a ≤ Kf w m h b := by
  unfold Kf
  have : ∑ i ∈ range m, w i / (a i : ℚ) ≤ ∑ i ∈ range m, w i / (b i : ℚ) := by
    apply sum_le_sum
    intro i hi
    have hi' := mem_range.mp hi
    have hb1 : (0 : ℚ) < (b i : ℚ) := by exact_mod_cast (hb i hi').1
    have hab : (b i : ℚ) ≤ (a i : ℚ) := by exact_mod_cast (hb i hi').2
    exact div_le_div_of_nonneg_left (le_of_lt (hw i hi')) hb1 hab
  linarith

/-- term-wise: K(a) ≥ K(clamp a) − T(clamp a), strictly if some entry is ≥ top -/
theorem Kf_clamp (hw : ∀ i, i < m → 0 < w i) (htop : 1 ≤ top) (a : ℕ → ℕ) (ha : ∀ i, i < m → 1 ≤ a i) :
    Kf w m h (clamp top a) - Tf w m top (clamp top a) ≤ Kf w m h a ∧
    ((∃ j, j < m ∧ top ≤ a j) → Kf w m h (clamp top a) - Tf w m top (clamp top a) < Kf w m h a) := by
  unfold Kf Tf
  have hterm : ∀ i, i < m →
      w i / ((clamp top a i : ℕ) : ℚ) - (if clamp top a i = top then w i / (top : ℚ) else 0) ≤ w i / (a i : ℚ) ∧
      (top ≤ a i → w i / ((clamp top a i : ℕ) : ℚ) - (if clamp top a i = top then w i / (top : ℚ) else 0)
        < w i / (a i : ℚ)) := by
    intro i hi
    have hwi := hw i hi
    have hai : (0 : ℚ) < (a i : ℚ) := by exact_mod_cast (ha i hi)
    have htq : (0 : ℚ) < (top : ℚ) := by exact_mod_cast htop
    unfold clamp
    by_cases hlt : a i < top
    · have e : min (a i) top = a i := Nat.min_eq_left (le_of_lt hlt)
      rw [e, if_neg (by omega)]
      exact ⟨by linarith, fun h' => by omega⟩
    · have e : min (a i) top = top := Nat.min_eq_right (by omega)
      rw [e, if_pos rfl]
      have : 0 < w i / (a i : ℚ) := div_pos hwi hai
      exact ⟨by linarith, fun _ => by linarith⟩
  have hsum : ∑ i ∈ range m, (w i / ((clamp top a i : ℕ) : ℚ) - (if clamp top a i = top then w i / (top : ℚ) else 0))
      ≤ ∑ i ∈ range m, w i / (a i : ℚ) :=
    sum_le_sum fun i hi => (hterm i (mem_range.mp hi)).1
  rw [sum_sub_distrib] at hsum
  refine ⟨by linarith, ?_⟩
  rintro ⟨j, hj, hjt⟩
  have hlt : ∑ i ∈ range m, (w i / ((clamp top a i : ℕ) : ℚ) - (if clamp top a i = top then w i / (top : ℚ) else 0))
      < ∑ i ∈ range m, w i / (a i : ℚ) :=
    sum_lt_sum (fun i hi => (hterm i (mem_range.mp hi)).1) ⟨j, mem_range.mpr hj, (hterm j hj).2 hjt⟩
  rw [sum_sub_distrib] at hlt
  linarith

/-- the premise, over functions: every member of the box has K < 0 or K − T ≥ 0 -/
def Premise (w : ℕ → ℚ) (m : ℕ) (h : ℚ) (top : ℕ) (lo : ℕ → ℕ) : Prop :=
  ∀ b : ℕ → ℕ, (∀ i, i < m → lo i ≤ b i ∧ b i ≤ top) →
    Kf w m h b < 0 ∨ 0 ≤ Kf w m h b - Tf w m top b

theorem clamp_in_box {lo : ℕ → ℕ} (hlo : ∀ i, i < m → lo i ≤ top) (a : ℕ → ℕ)
    (ha : ∀ i, i < m → lo i ≤ a i) : ∀ i, i < m → lo i ≤ clamp top a i ∧ clamp top a i ≤ top := by
  intro i hi
  unfold clamp
  have := hlo i hi
  have := ha i hi
  exact ⟨by omega, Nat.min_le_right _ _⟩

/-- an assignment with an entry ≥ top has K > 0 or K < 0, according to its clamped version -/
theorem sign_of_clamp (hw : ∀ i, i < m → 0 < w i) (htop : 1 ≤ top) {lo : ℕ → ℕ}
    (hlo1 : ∀ i, i < m → 1 ≤ lo i) (hlo : ∀ i, i < m → lo i ≤ top) (hP : Premise w m h top lo)
    (a : ℕ → ℕ) (ha : ∀ i, i < m → lo i ≤ a i) (hex : ∃ j, j < m ∧ top ≤ a j) :
    (Kf w m h (clamp top a) < 0 ∧ Kf w m h a < 0) ∨ (0 ≤ Kf w m h (clamp top a) ∧ 0 < Kf w m h a) := by
  have ha1 : ∀ i, i < m → 1 ≤ a i := fun i hi => le_trans (hlo1 i hi) (ha i hi)
  have hbox := clamp_in_box hlo a ha
  have hanti : Kf w m h a ≤ Kf w m h (clamp top a) :=
    Kf_anti hw a (clamp top a) (fun i hi => ⟨le_trans (hlo1 i hi) (hbox i hi).1, Nat.min_le_left _ _⟩)
  rcases lt_or_ge (Kf w m h (clamp top a)) 0 with hneg | hnn
  · exact Or.inl ⟨hneg, by linarith⟩
  · right
    refine ⟨hnn, ?_⟩
    rcases hP (clamp top a) hbox with h1 | h1
    · linarith
    · have := (Kf_clamp (h := h) hw htop a ha1).2 hex
      linarith

/-- **euclidean assignments lie strictly inside the box** -/
theorem zero_lt_top (hw : ∀ i, i < m → 0 < w i) (htop : 1 ≤ top) {lo : ℕ → ℕ}
    (hlo1 : ∀ i, i < m → 1 ≤ lo i) (hlo : ∀ i, i < m → lo i ≤ top) (hP : Premise w m h top lo)
    (a : ℕ → ℕ) (ha : ∀ i, i < m → lo i ≤ a i) (hz : Kf w m h a = 0) :
    ∀ i, i < m → a i < top := by
  intro i hi
  by_contra hge
  rcases sign_of_clamp hw htop hlo1 hlo hP a ha ⟨i, hi, by omega⟩ with ⟨_, h1⟩ | ⟨_, h1⟩ <;> linarith

/-- **minimally hyperbolic assignments lie inside the box** -/
theorem minHyp_le_top (hw : ∀ i, i < m → 0 < w i) (htop : 1 ≤ top) {lo : ℕ → ℕ}
    (hlo1 : ∀ i, i < m → 1 ≤ lo i) (hlo : ∀ i, i < m → lo i ≤ top) (hP : Premise w m h top lo)
    (a : ℕ → ℕ) (ha : ∀ i, i < m → lo i ≤ a i) (hneg : Kf w m h a < 0)
    (hmin : ∀ j, j < m → lo j < a j → 0 ≤ Kf w m h (Function.update a j (a j - 1))) :
    ∀ i, i < m → a i ≤ top := by
  intro j hj
  by_contra hgt
  have hgt' : top < a j := by omega
  -- the lowered assignment
  let a' := Function.update a j (a j - 1)
  have hlow := hmin j hj (by have := hlo j hj; omega)
  have ha' : ∀ i, i < m → lo i ≤ a' i := by
    intro i hi
    simp only [a', Function.update_apply]
    split
    · rename_i e; subst e; have := hlo i hi; omega
    · exact ha i hi
  have hcl : ∀ i, clamp top a' i = clamp top a i := by
    intro i
    simp only [clamp, a', Function.update_apply]
    split
    · rename_i e; subst e
      rw [Nat.min_eq_right (by omega), Nat.min_eq_right (by omega)]
    · rfl
  have hK : Kf w m h (clamp top a') = Kf w m h (clamp top a) := by
    unfold Kf
    congr 1
    apply sum_congr rfl
    intro i _
    rw [hcl i]
  have hex' : ∃ i, i < m ∧ top ≤ a' i := ⟨j, hj, by simp only [a', Function.update_self]; omega⟩
  rcases sign_of_clamp hw htop hlo1 hlo hP a ha ⟨j, hj, by omega⟩ with ⟨h1, _⟩ | ⟨_, h2⟩
  · rcases sign_of_clamp hw htop hlo1 hlo hP a' ha' hex' with ⟨_, h3⟩ | ⟨h3, _⟩
    · linarith
    · rw [hK] at h3; linarith
  · linarith

end core

/-! ### bridging the Spec's lists and fractions -/

open DSymVerif.SpecC08 (Fr)

/-- w_o = |o| / r_o -/
def weight (o : Orbit) : ℚ := (o.members.length : ℚ) / (o.r : ℚ)

def wOf (orbs : List Orbit) : ℕ → ℚ := fun i => weight (orbs.getD i default)

def aOf (a : List Nat) : ℕ → ℕ := fun i => a.getD i 0

theorem sum_zipWith_range {α β : Type} (f : α → β → ℚ) (dx : α) (dy : β) :
    ∀ (xs : List α) (ys : List β), xs.length = ys.length →
      (List.zipWith f xs ys).sum = ∑ i ∈ range xs.length, f (xs.getD i dx) (ys.getD i dy) := by
  intro xs
  induction xs with
  | nil => intro ys _; simp
  | cons x xs ih =>
    intro ys hl
    cases ys with
    | nil => simp at hl
    | cons y ys =>
      simp only [List.zipWith_cons_cons, List.sum_cons, List.length_cons]
      rw [sum_range_succ', ih ys (by simpa using hl)]
      simp only [List.getD_cons_succ, List.getD_cons_zero]
      ring

theorem orbitsOk_getD {orbs : List Orbit} (hok : orbitsOk orbs = true) (i : Nat) (hi : i < orbs.length) :
    1 ≤ (orbs.getD i default).r ∧ 0 < (orbs.getD i default).members.length := by
  have hm : orbs.getD i default ∈ orbs := by
    simp only [List.getD, List.getElem?_eq_getElem hi, Option.getD_some]
    exact List.getElem_mem hi
  have := List.all_eq_true.mp hok _ hm
  simp only [Bool.and_eq_true, decide_eq_true_eq, Bool.not_eq_true', List.isEmpty_eq_false_iff] at this
  exact ⟨this.1, List.length_pos_iff.mpr this.2⟩

theorem weight_pos {orbs : List Orbit} (hok : orbitsOk orbs = true) (i : Nat) (hi : i < orbs.length) :
    0 < wOf orbs i := by
  obtain ⟨h1, h2⟩ := orbitsOk_getD hok i hi
  unfold wOf weight
  apply div_pos
  · exact_mod_cast h2
  · exact_mod_cast h1

theorem term_val (o : Orbit) (v : Nat) (hr : 1 ≤ o.r) (hv : 1 ≤ v) :
    (term o v).den ≠ 0 ∧ (term o v).val = weight o / (v : ℚ) := by
  have hr' : (o.r : ℚ) ≠ 0 := by exact_mod_cast (show o.r ≠ 0 by omega)
  have hv' : (v : ℚ) ≠ 0 := by exact_mod_cast (show v ≠ 0 by omega)
  refine ⟨?_, ?_⟩
  · simp only [term]; exact Nat.mul_ne_zero (by omega) (by omega)
  · simp only [term, Fr.val, weight]
    push_cast
    field_simp

theorem mem_of_getD {a : List Nat} {P : Nat → Prop} (h : ∀ i, i < a.length → P (a.getD i 0)) :
    ∀ v, v ∈ a → P v := by
  intro v hv
  obtain ⟨i, hi, rfl⟩ := List.mem_iff_getElem.mp hv
  have := h i hi
  simpa [List.getD, List.getElem?_eq_getElem hi] using this

theorem zipWith_den (f : Orbit → Nat → Fr) :
    ∀ (orbs : List Orbit) (a : List Nat), (∀ o, o ∈ orbs → ∀ v, v ∈ a → (f o v).den ≠ 0) →
      ∀ x, x ∈ List.zipWith f orbs a → x.den ≠ 0 := by
  intro orbs
  induction orbs with
  | nil => intro a _ x hx; simp at hx
  | cons o os ih =>
    intro a h x hx
    cases a with
    | nil => simp at hx
    | cons v vs =>
      simp only [List.zipWith_cons_cons, List.mem_cons] at hx
      rcases hx with rfl | hx
      · exact h o (by simp) v (by simp)
      · exact ih vs (fun o' ho' v' hv' => h o' (by simp [ho']) v' (by simp [hv'])) x hx

/-- the Spec's fraction for K(a) has the value Σ w_o / a_o − size/2 -/
theorem curvature_val (n : Nat) {orbs : List Orbit} (hok : orbitsOk orbs = true) (a : List Nat)
    (hlen : a.length = orbs.length) (ha : ∀ i, i < a.length → 1 ≤ a.getD i 0) :
    (curvature n orbs a).den ≠ 0 ∧
    (curvature n orbs a).val = Kf (wOf orbs) orbs.length ((n : ℚ) / 2) (aOf a) := by
  have hr : ∀ o, o ∈ orbs → 1 ≤ o.r := by
    intro o ho
    have := List.all_eq_true.mp hok o ho
    simp only [Bool.and_eq_true, decide_eq_true_eq] at this
    exact this.1
  have hv : ∀ v, v ∈ a → 1 ≤ v := mem_of_getD ha
  have hden : ∀ x, x ∈ List.zipWith term orbs a → x.den ≠ 0 :=
    zipWith_den term orbs a (fun o ho v hv' => (term_val o v (hr o ho) (hv v hv')).1)
  have hs := Fr.sum_val _ hden
  have h2 : (⟨(n : Int), 2⟩ : Fr).den ≠ 0 := by simp
  have hsub := Fr.sub_val _ ⟨(n : Int), 2⟩ hs.2 h2
  unfold curvature
  refine ⟨hsub.2, ?_⟩
  rw [hsub.1, hs.1, List.map_zipWith, sum_zipWith_range _ default 0 orbs a hlen.symm]
  unfold Kf
  congr 1
  · apply sum_congr rfl
    intro i hi
    have hi' := mem_range.mp hi
    have h1 := (orbitsOk_getD hok i hi').1
    have h3 := ha i (by omega)
    rw [(term_val _ _ h1 h3).2]
    rfl

theorem topTerms_val {orbs : List Orbit} (hok : orbitsOk orbs = true) (a : List Nat) (top : Nat) (htop : 1 ≤ top)
    (hlen : a.length = orbs.length) :
    (Fr.sum (topTerms orbs a top)).den ≠ 0 ∧
    (Fr.sum (topTerms orbs a top)).val = Tf (wOf orbs) orbs.length top (aOf a) := by
  have hr : ∀ o, o ∈ orbs → 1 ≤ o.r := by
    intro o ho
    have := List.all_eq_true.mp hok o ho
    simp only [Bool.and_eq_true, decide_eq_true_eq] at this
    exact this.1
  have hden : ∀ x, x ∈ topTerms orbs a top → x.den ≠ 0 := by
    apply zipWith_den
    intro o ho v _
    by_cases hv : (v == top) = true
    · simp only [hv, if_true]
      have : v = top := by simpa using hv
      exact (term_val o v (hr o ho) (by omega)).1
    · simp only [hv]; simp
  have hs := Fr.sum_val _ hden
  refine ⟨hs.2, ?_⟩
  rw [hs.1]
  unfold topTerms
  rw [List.map_zipWith, sum_zipWith_range _ default 0 orbs a hlen.symm]
  unfold Tf
  apply sum_congr rfl
  intro i hi
  have hi' := mem_range.mp hi
  have h1 := (orbitsOk_getD hok i hi').1
  show (if (a.getD i 0 == top) = true then term (orbs.getD i default) (a.getD i 0) else (⟨0, 1⟩ : Fr)).val =
    if a.getD i 0 = top then wOf orbs i / (top : ℚ) else 0
  by_cases hv : a.getD i 0 = top
  · rw [if_pos (by simpa using hv), if_pos hv, (term_val _ _ h1 (by omega)).2, hv]
    rfl
  · rw [if_neg (by simpa using hv), if_neg hv]
    simp [Fr.val]

/-! ### membership in the box -/

theorem mem_box : ∀ (bounds : List (Nat × Nat)) (a : List Nat),
    a ∈ box bounds ↔ a.length = bounds.length ∧
      ∀ i, i < bounds.length → (bounds.getD i (0, 0)).1 ≤ a.getD i 0 ∧ a.getD i 0 ≤ (bounds.getD i (0, 0)).2 := by
  intro bounds
  induction bounds with
  | nil =>
    intro a
    simp only [box, List.mem_singleton, List.length_nil]
    constructor
    · rintro rfl; exact ⟨rfl, fun i hi => by omega⟩
    · rintro ⟨h, _⟩; exact List.length_eq_zero_iff.mp h
  | cons b rest ih =>
    intro a
    obtain ⟨lo, hi⟩ := b
    simp only [box, List.mem_flatMap, List.mem_map, List.mem_range'_1]
    constructor
    · rintro ⟨v, ⟨hv1, hv2⟩, t, ht, rfl⟩
      obtain ⟨hl, hb⟩ := (ih t).mp ht
      refine ⟨by simp [hl], fun i hi' => ?_⟩
      cases i with
      | zero => simp only [List.getD_cons_zero]; omega
      | succ i =>
        simp only [List.getD_cons_succ]
        exact hb i (by simpa using hi')
    · rintro ⟨hl, hb⟩
      cases a with
      | nil => simp at hl
      | cons v t =>
        have h0 := hb 0 (by simp)
        simp only [List.getD_cons_zero] at h0
        refine ⟨v, ⟨h0.1, by omega⟩, t, (ih t).mpr ⟨by simpa using hl, fun i hi' => ?_⟩, rfl⟩
        have := hb (i + 1) (by simpa using hi')
        simpa only [List.getD_cons_succ] using this

theorem mem_boxOf (vmins : List Nat) (top : Nat) (a : List Nat) :
    a ∈ boxOf vmins top ↔ a.length = vmins.length ∧
      ∀ i, i < vmins.length → vmins.getD i 0 ≤ a.getD i 0 ∧ a.getD i 0 ≤ top := by
  unfold boxOf
  rw [mem_box]
  simp only [List.length_map]
  constructor
  · rintro ⟨hl, hb⟩
    refine ⟨hl, fun i hi => ?_⟩
    have := hb i hi
    simpa [List.getD, List.getElem?_map, List.getElem?_eq_getElem hi] using this
  · rintro ⟨hl, hb⟩
    refine ⟨hl, fun i hi => ?_⟩
    have := hb i hi
    simpa [List.getD, List.getElem?_map, List.getElem?_eq_getElem hi] using this

/-! ### the Spec-level statement -/

theorem vminOf_range (r : Nat) : 1 ≤ vminOf r ∧ vminOf r ≤ 3 := by
  unfold vminOf
  split
  · omega
  · split <;> omega

theorem getD_map_range (b : ℕ → ℕ) (m i : Nat) (hi : i < m) : ((List.range m).map b).getD i 0 = b i := by
  simp [List.getD, List.getElem?_map, List.getElem?_range hi]

theorem Kf_congr (w : ℕ → ℚ) (m : ℕ) (h : ℚ) (a b : ℕ → ℕ) (hab : ∀ i, i < m → a i = b i) :
    Kf w m h a = Kf w m h b := by
  unfold Kf
  congr 1
  apply sum_congr rfl
  intro i hi
  rw [hab i (mem_range.mp hi)]

theorem Tf_congr (w : ℕ → ℚ) (m top : ℕ) (a b : ℕ → ℕ) (hab : ∀ i, i < m → a i = b i) :
    Tf w m top a = Tf w m top b := by
  unfold Tf
  apply sum_congr rfl
  intro i hi
  rw [hab i (mem_range.mp hi)]

/-- the decidable premise evaluated by the Spec is the premise of the arithmetic core -/
theorem premise_of_bool (n : Nat) {orbs : List Orbit} (hok : orbitsOk orbs = true) (vmins : List Nat)
    (hvl : vmins.length = orbs.length) (hv1 : ∀ i, i < vmins.length → 1 ≤ vmins.getD i 0)
    (top : Nat) (htop : 1 ≤ top) (hp : boxPremise n orbs vmins top = true) :
    Premise (wOf orbs) orbs.length ((n : ℚ) / 2) top (aOf vmins) := by
  intro b hb
  let bl := (List.range orbs.length).map b
  have hbl : bl.length = orbs.length := by simp [bl]
  have hget : ∀ i, i < orbs.length → aOf bl i = b i := fun i hi => getD_map_range b _ i hi
  have hmem : bl ∈ boxOf vmins top := by
    rw [mem_boxOf]
    refine ⟨by rw [hbl, hvl], fun i hi => ?_⟩
    have := hb i (by omega)
    rw [show bl.getD i 0 = b i from hget i (by omega)]
    exact this
  have hone : ∀ i, i < bl.length → 1 ≤ bl.getD i 0 := by
    intro i hi
    rw [show bl.getD i 0 = b i from hget i (by omega)]
    have := hb i (by omega)
    have := hv1 i (by omega)
    unfold aOf at *
    omega
  have hall := List.all_eq_true.mp hp bl hmem
  have hk := curvature_val n hok bl hbl hone
  have ht := topTerms_val hok bl top htop hbl
  have hsub := Fr.sub_val _ _ hk.1 ht.1
  rw [Kf_congr _ _ _ _ _ hget] at hk
  rw [Tf_congr _ _ _ _ _ hget] at ht
  simp only [Bool.or_eq_true, Bool.not_eq_true'] at hall
  rcases hall with h1 | h1
  · left
    rw [← hk.2]
    exact (Fr.isNeg_iff _ hk.1).mp h1
  · right
    rw [← hk.2, ← ht.2, ← hsub.1]
    by_contra hneg
    have := (Fr.isNeg_iff _ hsub.2).mpr (not_le.mp hneg)
    rw [this] at h1
    cases h1

theorem aOf_set (a : List Nat) (k x : Nat) (hk : k < a.length) (i : Nat) :
    aOf (a.set k x) i = Function.update (aOf a) k x i := by
  unfold aOf
  simp only [List.getD, List.getElem?_set, Function.update_apply]
  by_cases h : k = i
  · subst h; simp [hk]
  · have h' : ¬ i = k := fun e => h e.symm
    simp [h, h']

/-- **`box_suffices`**: for orbit data with positive sizes and periods, whenever the Spec's
    `boxPremise` holds, every assignment whatsoever that gives each orbit at least its minimal
    admissible branching number and has curvature 0 lies in the box (indeed all its entries are
    < 8), and every such assignment that is minimally hyperbolic lies in the box. -/
theorem box_suffices_lists (n : Nat) (orbs : List Orbit) (hok : orbitsOk orbs = true)
    (hp : boxPremise n orbs (orbs.map fun o => vminOf o.r) boxTop = true)
    (a : List Nat) (hlen : a.length = orbs.length)
    (hadm : ∀ i, i < orbs.length → (orbs.map fun o => vminOf o.r).getD i 0 ≤ a.getD i 0) :
    ((curvature n orbs a).isZero = true →
        a ∈ boxOf (orbs.map fun o => vminOf o.r) boxTop ∧ ∀ i, i < a.length → a.getD i 0 < boxTop) ∧
    (minimallyHyperbolic n orbs (orbs.map fun o => vminOf o.r) a = true →
        a ∈ boxOf (orbs.map fun o => vminOf o.r) boxTop) := by
  generalize hvm : (orbs.map fun o => vminOf o.r) = vmins at *
  have hvl : vmins.length = orbs.length := by rw [← hvm]; simp
  have hvget : ∀ i, i < orbs.length → vmins.getD i 0 = vminOf (orbs.getD i default).r := by
    intro i hi
    rw [← hvm]
    simp [List.getD, List.getElem?_map, List.getElem?_eq_getElem hi]
  have hv1 : ∀ i, i < vmins.length → 1 ≤ vmins.getD i 0 := by
    intro i hi
    rw [hvget i (by omega)]
    exact (vminOf_range _).1
  have hvtop : ∀ i, i < orbs.length → aOf vmins i ≤ boxTop := by
    intro i hi
    show vmins.getD i 0 ≤ boxTop
    rw [hvget i hi]
    have := (vminOf_range (orbs.getD i default).r).2
    unfold boxTop
    omega
  have htop : 1 ≤ boxTop := by unfold boxTop; omega
  have hP := premise_of_bool n hok vmins hvl hv1 boxTop htop hp
  have hw := weight_pos hok
  have hlo1 : ∀ i, i < orbs.length → 1 ≤ aOf vmins i := fun i hi => hv1 i (by omega)
  have ha : ∀ i, i < orbs.length → aOf vmins i ≤ aOf a i := hadm
  have hone : ∀ i, i < a.length → 1 ≤ a.getD i 0 := by
    intro i hi
    have := hadm i (by omega)
    have := hv1 i (by omega)
    omega
  have hk := curvature_val n hok a hlen hone
  constructor
  · intro hz
    have hz' : Kf (wOf orbs) orbs.length ((n : ℚ) / 2) (aOf a) = 0 := by
      rw [← hk.2]; exact (Fr.isZero_iff _ hk.1).mp hz
    have hlt := zero_lt_top hw htop hlo1 hvtop hP (aOf a) ha hz'
    refine ⟨?_, fun i hi => hlt i (by omega)⟩
    rw [mem_boxOf]
    refine ⟨by rw [hlen, hvl], fun i hi => ⟨hadm i (by omega), le_of_lt (hlt i (by omega))⟩⟩
  · intro hm
    unfold minimallyHyperbolic at hm
    simp only [Bool.and_eq_true, List.all_eq_true, List.mem_range, Bool.or_eq_true,
      Bool.not_eq_true', decide_eq_false_iff_not] at hm
    obtain ⟨hneg, hmin⟩ := hm
    have hneg' : Kf (wOf orbs) orbs.length ((n : ℚ) / 2) (aOf a) < 0 := by
      rw [← hk.2]; exact (Fr.isNeg_iff _ hk.1).mp hneg
    have hmin' : ∀ j, j < orbs.length → aOf vmins j < aOf a j →
        0 ≤ Kf (wOf orbs) orbs.length ((n : ℚ) / 2) (Function.update (aOf a) j (aOf a j - 1)) := by
      intro j hj hlt
      have hj' : j < a.length := by omega
      have hone' : ∀ i, i < (lowered a j).length → 1 ≤ (lowered a j).getD i 0 := by
        intro i hi
        have hi' : i < a.length := by simpa [lowered] using hi
        have := aOf_set a j (a.getD j 0 - 1) hj' i
        unfold aOf at this
        unfold lowered
        rw [this, Function.update_apply]
        split
        · have := hv1 j (by omega)
          unfold aOf at hlt
          omega
        · exact hone i hi'
      have hk' := curvature_val n hok (lowered a j) (by simp [lowered, hlen]) hone'
      rcases hmin j hj' with h1 | h1
      · unfold aOf at hlt; exact absurd hlt h1
      · have hnn : ¬ (curvature n orbs (lowered a j)).val < 0 := by
          intro hlt'
          have := (Fr.isNeg_iff _ hk'.1).mpr hlt'
          rw [this] at h1
          cases h1
        rw [hk'.2] at hnn
        have hc := Kf_congr (wOf orbs) orbs.length ((n : ℚ) / 2) (aOf (lowered a j))
          (Function.update (aOf a) j (aOf a j - 1)) (fun i _ => aOf_set a j _ hj' i)
        rw [hc] at hnn
        exact not_lt.mp hnn
    have hle := minHyp_le_top hw htop hlo1 hvtop hP (aOf a) ha hneg' hmin'
    rw [mem_boxOf]
    exact ⟨by rw [hlen, hvl], fun i hi => ⟨hadm i (by omega), hle i (by omega)⟩⟩

/-! ### the pruned walk through the box -/

theorem getD_set' (l : List Nat) (n v i : Nat) (hn : n < l.length) :
    (l.set n v).getD i 0 = if i = n then v else l.getD i 0 := by
  simp only [List.getD, List.getElem?_set]
  by_cases h : n = i
  · subst h; simp [hn]
  · have h' : ¬ i = n := fun e => h e.symm
    simp [h, h']

theorem list_ext_getD' (a b : List Nat) (hl : a.length = b.length)
    (h : ∀ i, i < a.length → a.getD i 0 = b.getD i 0) : a = b := by
  apply List.ext_getElem hl
  intro i h1 h2
  have := h i h1
  simpa [List.getD, List.getElem?_eq_getElem h1, List.getElem?_eq_getElem h2] using this

/-- raising entries does not raise the Spec's curvature -/
theorem curvature_anti (n : Nat) {orbs : List Orbit} (hok : orbitsOk orbs = true) (a b : List Nat)
    (ha : a.length = orbs.length) (hb : b.length = orbs.length)
    (hab : ∀ i, i < orbs.length → 1 ≤ a.getD i 0 ∧ a.getD i 0 ≤ b.getD i 0) :
    (curvature n orbs a).den ≠ 0 ∧ (curvature n orbs b).den ≠ 0 ∧
    (curvature n orbs b).val ≤ (curvature n orbs a).val := by
  have h1 := curvature_val n hok a ha (fun i hi => (hab i (by omega)).1)
  have h2 := curvature_val n hok b hb (fun i hi => by have := hab i (by omega); omega)
  refine ⟨h1.1, h2.1, ?_⟩
  rw [h1.2, h2.2]
  exact Kf_anti (weight_pos hok) (aOf b) (aOf a) hab

theorem isNeg_of_le (n : Nat) {orbs : List Orbit} (hok : orbitsOk orbs = true) (a b : List Nat)
    (ha : a.length = orbs.length) (hb : b.length = orbs.length)
    (hab : ∀ i, i < orbs.length → 1 ≤ a.getD i 0 ∧ a.getD i 0 ≤ b.getD i 0)
    (hneg : (curvature n orbs a).isNeg = true) : (curvature n orbs b).isNeg = true := by
  obtain ⟨h1, h2, h3⟩ := curvature_anti n hok a b ha hb hab
  rw [Fr.isNeg_iff _ h2]
  have := (Fr.isNeg_iff _ h1).mp hneg
  linarith

/-- what the walk must not lose: K ≥ 0, or minimally hyperbolic -/
def Wanted (n : Nat) (orbs : List Orbit) (vmins b : List Nat) : Prop :=
  (curvature n orbs b).isNeg = false ∨ minimallyHyperbolic n orbs vmins b = true

theorem minHyp_unpack {n : Nat} {orbs : List Orbit} {vmins b : List Nat}
    (h : minimallyHyperbolic n orbs vmins b = true) :
    (curvature n orbs b).isNeg = true ∧
    ∀ k, k < b.length → b.getD k 0 > vmins.getD k 0 → (curvature n orbs (lowered b k)).isNeg = false := by
  unfold minimallyHyperbolic at h
  simp only [Bool.and_eq_true, List.all_eq_true, List.mem_range, Bool.or_eq_true,
    Bool.not_eq_true', decide_eq_false_iff_not] at h
  refine ⟨h.1, fun k hk hgt => ?_⟩
  rcases h.2 k hk with h1 | h1
  · exact absurd hgt h1
  · exact h1

theorem candidates_complete_aux (n : Nat) {orbs : List Orbit} (hok : orbitsOk orbs = true)
    (vmins : List Nat) (top : Nat) (hvl : vmins.length = orbs.length)
    (hv1 : ∀ i, i < vmins.length → 1 ≤ vmins.getD i 0)
    (b : List Nat) (hb : b ∈ boxOf vmins top) (hP : Wanted n orbs vmins b) :
    ∀ (fuel k : Nat) (a : List Nat), fuel + k = orbs.length → a.length = orbs.length →
      (∀ i, i < k → a.getD i 0 = b.getD i 0) →
      (∀ i, k ≤ i → i < orbs.length → a.getD i 0 = vmins.getD i 0) →
      b ∈ candidates n orbs vmins top fuel k a := by
  obtain ⟨hbl, hbb⟩ := (mem_boxOf vmins top b).mp hb
  intro fuel
  induction fuel with
  | zero =>
    intro k a hk hal h1 _
    simp only [candidates, List.mem_singleton]
    apply list_ext_getD' _ _ (by rw [hbl, hvl, hal])
    intro i hi
    exact (h1 i (by omega)).symm
  | succ fuel ih =>
    intro k a hk hal h1 h2
    have hkm : k < orbs.length := by omega
    simp only [candidates, List.mem_flatMap, List.mem_range'_1]
    have hbk := hbb k (by omega)
    refine ⟨b.getD k 0, ⟨hbk.1, by omega⟩, ?_⟩
    have hset : ∀ i, (a.set k (b.getD k 0)).getD i 0 = if i = k then b.getD k 0 else a.getD i 0 :=
      fun i => getD_set' a k _ i (by omega)
    have hlen' : (a.set k (b.getD k 0)).length = orbs.length := by simp [hal]
    -- the prefix vector is below b, entry-wise
    have hle : ∀ i, i < orbs.length →
        1 ≤ (a.set k (b.getD k 0)).getD i 0 ∧ (a.set k (b.getD k 0)).getD i 0 ≤ b.getD i 0 := by
      intro i hi
      rw [hset i]
      have hbi := hbb i (by omega)
      have hvi := hv1 i (by omega)
      by_cases hik : i = k
      · rw [if_pos hik]; rw [hik] at hbi hvi ⊢; omega
      · rw [if_neg hik]
        by_cases hlt : i < k
        · rw [h1 i hlt]; omega
        · rw [h2 i (by omega) hi]; omega
    by_cases hneg : (curvature n orbs (a.set k (b.getD k 0))).isNeg = true
    · rw [if_pos hneg, List.mem_singleton]
      -- b itself is negative, hence minimally hyperbolic, hence minimal after k
      have hbneg := isNeg_of_le n hok _ b hlen' (by rw [hbl, hvl]) hle hneg
      have hmh : minimallyHyperbolic n orbs vmins b = true := by
        rcases hP with h | h
        · rw [hbneg] at h; cases h
        · exact h
      obtain ⟨_, hlow⟩ := minHyp_unpack hmh
      apply list_ext_getD' _ _ (by rw [hbl, hvl, hlen'])
      intro i hi
      have hi' : i < orbs.length := by omega
      rw [hset i]
      by_cases hik : i = k
      · rw [if_pos hik, hik]
      · rw [if_neg hik]
        by_cases hlt : i < k
        · exact (h1 i hlt).symm
        · rw [h2 i (by omega) hi']
          by_contra hne
          have hgt : b.getD i 0 > vmins.getD i 0 := by
            have := (hbb i (by omega)).1
            omega
          have hnn := hlow i (by omega) hgt
          -- the lowered vector is still above the prefix vector
          have hle' : ∀ j, j < orbs.length →
              1 ≤ (a.set k (b.getD k 0)).getD j 0 ∧
              (a.set k (b.getD k 0)).getD j 0 ≤ (lowered b i).getD j 0 := by
            intro j hj
            refine ⟨(hle j hj).1, ?_⟩
            unfold lowered
            rw [getD_set' b i _ j (by omega)]
            by_cases hji : j = i
            · rw [if_pos hji, hset j, if_neg (by omega), h2 j (by omega) hj, hji]
              omega
            · rw [if_neg hji]; exact (hle j hj).2
          have := isNeg_of_le n hok _ (lowered b i) hlen' (by simp [lowered, hbl, hvl]) hle' hneg
          rw [this] at hnn
          cases hnn
    · rw [if_neg hneg]
      apply ih (k + 1) _ (by omega) hlen'
      · intro i hi
        rw [hset i]
        by_cases hik : i = k
        · rw [if_pos hik, hik]
        · rw [if_neg hik]; exact h1 i (by omega)
      · intro i hi1 hi2
        rw [hset i, if_neg (by omega)]
        exact h2 i (by omega) hi2

/-- **the walk loses nothing**: every member of the box that has K ≥ 0 or is minimally
    hyperbolic is a candidate -/
theorem candidates_complete_lists (n : Nat) {orbs : List Orbit} (hok : orbitsOk orbs = true)
    (vmins : List Nat) (top : Nat) (hvl : vmins.length = orbs.length)
    (hv1 : ∀ i, i < vmins.length → 1 ≤ vmins.getD i 0)
    (b : List Nat) (hb : b ∈ boxOf vmins top) (hP : Wanted n orbs vmins b) :
    b ∈ candidatesOf n orbs vmins top := by
  unfold candidatesOf
  exact candidates_complete_aux n hok vmins top hvl hv1 b hb hP vmins.length 0 vmins (by omega) hvl
    (fun i hi => by omega) (fun i _ _ => rfl)

/-- the premise evaluated on the candidates is the premise on the whole box -/
theorem premise_of_candidates_lists (n : Nat) {orbs : List Orbit} (hok : orbitsOk orbs = true)
    (vmins : List Nat) (top : Nat) (hvl : vmins.length = orbs.length)
    (hv1 : ∀ i, i < vmins.length → 1 ≤ vmins.getD i 0)
    (h : candPremise n orbs vmins top = true) : boxPremise n orbs vmins top = true := by
  unfold boxPremise
  rw [List.all_eq_true]
  intro b hb
  by_cases hneg : (curvature n orbs b).isNeg = true
  · simp [hneg]
  · have hw : Wanted n orbs vmins b := Or.inl (by simpa using hneg)
    have hc := candidates_complete_lists n hok vmins top hvl hv1 b hb hw
    exact List.all_eq_true.mp h b hc

end DSymVerif.SpecC07
