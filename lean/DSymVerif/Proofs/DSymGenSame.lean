/-
Lemmas for property C07, phase 2, part 12: comparing delaney2d's orbifold with a key of the
generator's list by `SpecC08.sameOrbifold`.  Multiset equality of number lists is `List.Perm`;
cyclic equivalence implies permutation and, for at most three corners, is implied by it.
-/
import DSymVerif.Proofs.DSymGenKey
import DSymVerif.Proofs.Delaney2dClassify

namespace DSymVerif.SymGen
open DSymVerif.SpecC08

/-! ### `multisetEq (· == ·)` is `Perm` -/

theorem countBy_eq_count (x : Nat) (l : List Nat) : countBy (fun y => x == y) l = l.count x := by
  unfold countBy
  rw [List.count_eq_countP, List.countP_eq_length_filter]
  congr 1
  apply List.filter_congr
  intro y _
  by_cases h : x = y
  · subst h; simp
  · have h' : ¬ y = x := fun e => h e.symm
    simp [h, h']

theorem multisetEq_iff_perm (xs ys : List Nat) :
    multisetEq (· == ·) xs ys = true ↔ xs.Perm ys := by
  unfold multisetEq
  simp only [Bool.and_eq_true, beq_iff_eq, List.all_eq_true]
  constructor
  · rintro ⟨hl, hc⟩
    have hsub : xs.Subperm ys := by
      rw [List.subperm_ext_iff]
      intro x hx
      have := hc x hx
      rw [countBy_eq_count, countBy_eq_count] at this
      omega
    exact hsub.perm_of_length_le (by omega)
  · intro hp
    refine ⟨hp.length_eq, fun x _ => ?_⟩
    rw [countBy_eq_count, countBy_eq_count, hp.count_eq]

/-! ### cyclic equivalence -/

theorem mem_rotations_perm {a b : List Nat} (h : b ∈ rotations a) : a.Perm b := by
  unfold rotations at h
  split at h
  · rename_i he
    rw [List.mem_singleton] at h
    rw [h, List.isEmpty_iff.mp he]
  · obtain ⟨i, _, rfl⟩ := List.mem_map.mp h
    have := List.take_append_drop i a
    exact (List.perm_append_comm.trans (by rw [this])).symm

theorem cycEquiv_perm {a b : List Nat} (h : cycEquiv a b = true) : a.Perm b := by
  unfold cycEquiv at h
  simp only [Bool.or_eq_true, List.contains_iff_mem] at h
  rcases h with h | h
  · exact mem_rotations_perm h
  · exact (List.reverse_perm a).symm.trans (mem_rotations_perm h)

theorem cycEquiv_refl (a : List Nat) : cycEquiv a a = true := by
  unfold cycEquiv rotations
  simp only [Bool.or_eq_true, List.contains_iff_mem]
  left
  cases a with
  | nil => simp
  | cons x xs =>
    simp only [List.isEmpty_cons, Bool.false_eq_true, if_false, List.mem_map, List.mem_range]
    exact ⟨0, by simp, by simp⟩

/-- up to three corners every arrangement is cyclically equivalent to the sorted one -/
theorem cycEquiv_sortDesc (a : List Nat) (h : a.length ≤ 3) : cycEquiv a (sortDesc a) = true := by
  match a, h with
  | [], _ => decide
  | [x], _ => simp [sortDesc, insertDesc, cycEquiv, rotations]
  | [x, y], _ =>
    simp only [sortDesc, List.foldr_cons, List.foldr_nil, insertDesc]
    split <;> simp [cycEquiv, rotations, List.range_succ]
  | [x, y, z], _ =>
    simp only [sortDesc, List.foldr_cons, List.foldr_nil, insertDesc]
    split <;> simp only [insertDesc] <;> split <;> (try split) <;>
      simp [cycEquiv, rotations, List.range_succ]

/-! ### one boundary component against one -/

theorem multisetEq_cyc_nil_nil : multisetEq cycEquiv ([] : List (List Nat)) [] = true := by decide

theorem multisetEq_cyc_length {xs ys : List (List Nat)} (h : multisetEq cycEquiv xs ys = true) :
    xs.length = ys.length := by
  unfold multisetEq at h
  simp only [Bool.and_eq_true, beq_iff_eq] at h
  exact h.1

theorem multisetEq_cyc_single (a b : List Nat) :
    multisetEq cycEquiv [a] [b] = cycEquiv a b := by
  unfold multisetEq countBy
  simp only [List.length_singleton, beq_self_eq_true, Bool.true_and, List.all_cons, List.all_nil,
    Bool.and_true, List.filter_cons, List.filter_nil, cycEquiv_refl a, if_true]
  cases cycEquiv a b <;> simp

end DSymVerif.SymGen
