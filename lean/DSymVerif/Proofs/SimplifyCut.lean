/-
`cut_face` of simplify.rs (model `Simp.cutFace`): the eight new chambers satisfy the commutation
relations s0s2 = s2s0, s0s3 = s3s0, s1s3 = s3s1 by construction.
-/
import DSymVerif.Proofs.Simplify

namespace DSymVerif.Simp
open DSymVerif DSymVerif.DS

/-- no operation has a fixed point (a fixed point of s_i is a mirror: boundary) -/
def Loopless (ds : DSetData) : Prop := ∀ i d, i ≤ ds.dim → 1 ≤ d → d ≤ ds.size → ds.opU i d ≠ d

/-- far operations differ everywhere: r_ij = 2 exactly (r = 1 would need a branching number 2) -/
def FarDiffer (ds : DSetData) : Prop :=
  ∀ i j d, i + 1 < j → j ≤ ds.dim → 1 ≤ d → d ≤ ds.size → ds.opU i d ≠ ds.opU j d

/-- a 2-colouring of the chambers that every operation reverses: an orientation -/
def Colouring (ds : DSetData) (col : Nat → Bool) : Prop :=
  ∀ i d, i ≤ ds.dim → 1 ≤ d → d ≤ ds.size → col (ds.opU i d) = !col d

/-- the D-set is oriented (bipartite chamber graph) -/
def Oriented (ds : DSetData) : Prop := ∃ col, Colouring ds col

theorem bind_ok {α β} {x : Outcome α} {f : α → Outcome β} {b : β} (h : (x >>= f) = .ok b) :
    ∃ a, x = .ok a ∧ f a = .ok b := by
  cases x with
  | ok a => exact ⟨a, rfl, h⟩
  | err => cases h
  | panic => cases h

theorem reglueU_ok {ds s : DSetData} {ps : List (Nat × Nat)} {i : Nat} (h : reglueU ds ps i = .ok s) :
    reglue ds ps i = .ok (some s) := by
  unfold reglueU at h
  split at h
  · rename_i s' hs; cases h; exact hs
  · cases h
  · cases h
  · cases h

theorem opx_ok {ds : DSetData} {i d e : Nat} (h : opx ds i d = .ok e) :
    i ≤ ds.dim ∧ 1 ≤ d ∧ d ≤ ds.size ∧ ds.opU i d = e ∧ e ≠ 0 := by
  unfold opx at h
  split at h
  · rename_i e' he; cases h; exact opPartial_eq_some.1 he
  · cases h

/-- the chain of facts one accepted `reglue` on a complete set provides -/
structure ReglueFacts (a b : DSetData) (pairs : List (Nat × Nat)) (index : Nat) : Prop where
  valid : ValidSet b
  size : b.size = a.size
  dim : b.dim = a.dim
  other : ∀ i d, i ≤ a.dim → 1 ≤ d → d ≤ a.size → i ≠ index → b.opU i d = a.opU i d
  paired : ∀ d x, 1 ≤ d → d ≤ a.size → index ≤ a.dim → pairedGet pairs d = some x →
    b.opU index d = x ∧ b.opU index x = d
  unpaired : ∀ d, 1 ≤ d → d ≤ a.size → index ≤ a.dim → pairedGet pairs d = none →
    b.opU index d = a.opU index d

theorem reglueFacts {a b : DSetData} {pairs : List (Nat × Nat)} {index : Nat} (hv : ValidSet a)
    (h : reglueU a pairs index = .ok b) : ReglueFacts a b pairs index := by
  obtain ⟨h1, h2, h3, h4, h5, h6⟩ := reglue_ok_valid hv (reglueU_ok h)
  exact ⟨h1, h2, h3, h4, h5, h6⟩

theorem grow_valid {ds : DSetData} (hv : ValidSet ds) (hsize : 1 ≤ ds.size) (hdim : 1 ≤ ds.dim) {m : Nat}
    {g : DSetData} (hg : grow ds m = .ok g) :
    ValidSet g ∧ g.size = ds.size + m ∧ g.dim = ds.dim ∧
      (∀ i d, i ≤ ds.dim → 1 ≤ d → d ≤ ds.size → g.opU i d = ds.opU i d) ∧
      (∀ i d, i ≤ ds.dim → ds.size < d → d ≤ ds.size + m → g.opU i d = d) := by
  obtain ⟨g', hg', h1, h2, h3, h4, h5⟩ := grow_ok hv.toPartial hsize hdim m
  rw [hg] at hg'
  cases hg'
  refine ⟨⟨by rw [h1, h2]; exact h3, ?_, ?_⟩, h1, h2, h4, h5⟩
  · intro i d hi hd1 hd2
    rw [h2] at hi; rw [h1] at hd2 ⊢
    by_cases hd : d ≤ ds.size
    · rw [h4 i d hi hd1 hd]
      have := hv.range i d hi hd1 hd
      omega
    · rw [h5 i d hi (by omega) hd2]; omega
  · intro i d hi hd1 hd2
    rw [h2] at hi; rw [h1] at hd2
    by_cases hd : d ≤ ds.size
    · have hr := hv.range i d hi hd1 hd
      rw [h4 i d hi hd1 hd, h4 i _ hi hr.1 hr.2]
      exact hv.invol i d hi hd1 hd
    · rw [h5 i d hi (by omega) hd2, h5 i d hi (by omega) hd2]


/-! ### the four pair lists of `cut_face` -/

def cfP0 (n : Nat) : List (Nat × Nat) :=
  [(n + 1 + 0, n + 1 + 1), (n + 1 + 2, n + 1 + 3), (n + 1 + 4, n + 1 + 5), (n + 1 + 6, n + 1 + 7)]
def cfP2 (n : Nat) : List (Nat × Nat) :=
  [(n + 1 + 0, n + 1 + 4), (n + 1 + 1, n + 1 + 5), (n + 1 + 2, n + 1 + 6), (n + 1 + 3, n + 1 + 7)]
def cfP3 (n : Nat) : List (Nat × Nat) :=
  [(n + 1 + 0, n + 1 + 3), (n + 1 + 1, n + 1 + 2), (n + 1 + 4, n + 1 + 7), (n + 1 + 5, n + 1 + 6)]
def cfP1 (n a0 a1 a2 a3 a4 a5 a6 a7 : Nat) : List (Nat × Nat) :=
  [(n + 1 + 0, a0), (n + 1 + 1, a1), (n + 1 + 2, a2), (n + 1 + 3, a3),
   (n + 1 + 4, a4), (n + 1 + 5, a5), (n + 1 + 6, a6), (n + 1 + 7, a7)]

theorem cfP0_none (n x : Nat) (h : x ≤ n) : pairedGet (cfP0 n) x = none := by
  unfold cfP0; simp (disch := omega) only [pairedGet, if_neg]
theorem cfP2_none (n x : Nat) (h : x ≤ n) : pairedGet (cfP2 n) x = none := by
  unfold cfP2; simp (disch := omega) only [pairedGet, if_neg]
theorem cfP3_none (n x : Nat) (h : x ≤ n) : pairedGet (cfP3 n) x = none := by
  unfold cfP3; simp (disch := omega) only [pairedGet, if_neg]

/-- partner index under the pairing k ↔ k xor 1, k ↔ k xor 4, k ↔ 3 − k (mod 4 blocks) -/
def cfN0 : Nat → Nat | 0 => 1 | 1 => 0 | 2 => 3 | 3 => 2 | 4 => 5 | 5 => 4 | 6 => 7 | _ => 6
def cfN2 : Nat → Nat | 0 => 4 | 1 => 5 | 2 => 6 | 3 => 7 | 4 => 0 | 5 => 1 | 6 => 2 | _ => 3
def cfN3 : Nat → Nat | 0 => 3 | 1 => 2 | 2 => 1 | 3 => 0 | 4 => 7 | 5 => 6 | 6 => 5 | _ => 4

theorem cfP0_get (n k : Nat) (hk : k < 8) : pairedGet (cfP0 n) (n + 1 + k) = some (n + 1 + cfN0 k) := by
  have : k = 0 ∨ k = 1 ∨ k = 2 ∨ k = 3 ∨ k = 4 ∨ k = 5 ∨ k = 6 ∨ k = 7 := by omega
  unfold cfP0
  rcases this with rfl | rfl | rfl | rfl | rfl | rfl | rfl | rfl <;>
    simp (disch := omega) only [pairedGet, if_neg, ↓reduceIte, cfN0]
theorem cfP2_get (n k : Nat) (hk : k < 8) : pairedGet (cfP2 n) (n + 1 + k) = some (n + 1 + cfN2 k) := by
  have : k = 0 ∨ k = 1 ∨ k = 2 ∨ k = 3 ∨ k = 4 ∨ k = 5 ∨ k = 6 ∨ k = 7 := by omega
  unfold cfP2
  rcases this with rfl | rfl | rfl | rfl | rfl | rfl | rfl | rfl <;>
    simp (disch := omega) only [pairedGet, if_neg, ↓reduceIte, cfN2]
theorem cfP3_get (n k : Nat) (hk : k < 8) : pairedGet (cfP3 n) (n + 1 + k) = some (n + 1 + cfN3 k) := by
  have : k = 0 ∨ k = 1 ∨ k = 2 ∨ k = 3 ∨ k = 4 ∨ k = 5 ∨ k = 6 ∨ k = 7 := by omega
  unfold cfP3
  rcases this with rfl | rfl | rfl | rfl | rfl | rfl | rfl | rfl <;>
    simp (disch := omega) only [pairedGet, if_neg, ↓reduceIte, cfN3]

theorem cfP1_get (n a0 a1 a2 a3 a4 a5 a6 a7 : Nat) (h0 : a0 ≤ n) (h1 : a1 ≤ n) (h2 : a2 ≤ n) (h3 : a3 ≤ n)
    (h4 : a4 ≤ n) (h5 : a5 ≤ n) (h6 : a6 ≤ n) (h7 : a7 ≤ n) (k : Nat) (hk : k < 8) :
    pairedGet (cfP1 n a0 a1 a2 a3 a4 a5 a6 a7) (n + 1 + k) = some ([a0, a1, a2, a3, a4, a5, a6, a7].getD k 0) := by
  have : k = 0 ∨ k = 1 ∨ k = 2 ∨ k = 3 ∨ k = 4 ∨ k = 5 ∨ k = 6 ∨ k = 7 := by omega
  unfold cfP1
  rcases this with rfl | rfl | rfl | rfl | rfl | rfl | rfl | rfl <;>
    simp (disch := omega) only [pairedGet, if_neg, ↓reduceIte] <;> rfl

theorem cfP1_none (n a0 a1 a2 a3 a4 a5 a6 a7 x : Nat) (hx : x ≤ n) (h0 : x ≠ a0) (h1 : x ≠ a1) (h2 : x ≠ a2)
    (h3 : x ≠ a3) (h4 : x ≠ a4) (h5 : x ≠ a5) (h6 : x ≠ a6) (h7 : x ≠ a7) :
    pairedGet (cfP1 n a0 a1 a2 a3 a4 a5 a6 a7) x = none := by
  unfold cfP1
  simp (disch := omega) only [pairedGet, if_neg]

theorem cfN_lt (k : Nat) (hk : k < 8) : cfN0 k < 8 ∧ cfN2 k < 8 ∧ cfN3 k < 8 := by
  have : k = 0 ∨ k = 1 ∨ k = 2 ∨ k = 3 ∨ k = 4 ∨ k = 5 ∨ k = 6 ∨ k = 7 := by omega
  rcases this with rfl | rfl | rfl | rfl | rfl | rfl | rfl | rfl <;> decide

theorem cfN_comm (k : Nat) (hk : k < 8) :
    cfN2 (cfN0 k) = cfN0 (cfN2 k) ∧ cfN3 (cfN0 k) = cfN0 (cfN3 k) := by
  have : k = 0 ∨ k = 1 ∨ k = 2 ∨ k = 3 ∨ k = 4 ∨ k = 5 ∨ k = 6 ∨ k = 7 := by omega
  rcases this with rfl | rfl | rfl | rfl | rfl | rfl | rfl | rfl <;> decide

theorem cfN_ne (k : Nat) (hk : k < 8) :
    cfN0 k ≠ k ∧ cfN2 k ≠ k ∧ cfN3 k ≠ k ∧ cfN0 k ≠ cfN2 k ∧ cfN0 k ≠ cfN3 k := by
  have : k = 0 ∨ k = 1 ∨ k = 2 ∨ k = 3 ∨ k = 4 ∨ k = 5 ∨ k = 6 ∨ k = 7 := by omega
  rcases this with rfl | rfl | rfl | rfl | rfl | rfl | rfl | rfl <;> decide

/-- colour pattern of the eight old chambers of `cut_face` relative to d1 -/
def cfSign : Nat → Bool | 0 => true | 2 => true | 5 => true | 7 => true | _ => false

theorem cfSign_flip (k : Nat) (hk : k < 8) :
    cfSign (cfN0 k) = !cfSign k ∧ cfSign (cfN2 k) = !cfSign k ∧ cfSign (cfN3 k) = !cfSign k := by
  have : k = 0 ∨ k = 1 ∨ k = 2 ∨ k = 3 ∨ k = 4 ∨ k = 5 ∨ k = 6 ∨ k = 7 := by omega
  rcases this with rfl | rfl | rfl | rfl | rfl | rfl | rfl | rfl <;> decide

/-- **`cut_face`: the eight new chambers satisfy the commutation relations.**  If `cut_face`
    returns on a complete 3-dimensional D-set (valid chamber arguments), the result is complete
    with involutive operations, has 8 more chambers, keeps operations 0, 2, 3 of the old
    chambers, and on every new chamber s0s2 = s2s0, s0s3 = s3s0 and s1s3 = s3s1.  Last conjunct:
    the new edge joins the two cut corners (`s1 d1`, `s1 d2` are the first two new chambers, which
    are 0-neighbours), so afterwards `walk(d1, [1, 0, 1]) = d2`. -/
theorem cutFace_commutes {ds s : DSetData} (hv : ValidSet ds) (hdim : ds.dim = 3)
    {d1 d2 : Nat} (h11 : 1 ≤ d1) (h12 : d1 ≤ ds.size) (h21 : 1 ≤ d2) (h22 : d2 ≤ ds.size)
    (h : cutFace ds d1 d2 = .ok s) :
    ValidSet s ∧ s.size = ds.size + 8 ∧ s.dim = 3 ∧
    (∀ i d, i ≤ 3 → i ≠ 1 → 1 ≤ d → d ≤ ds.size → s.opU i d = ds.opU i d) ∧
    (∀ c, ds.size < c → c ≤ ds.size + 8 →
      s.opU 2 (s.opU 0 c) = s.opU 0 (s.opU 2 c) ∧ s.opU 3 (s.opU 0 c) = s.opU 0 (s.opU 3 c) ∧
      s.opU 3 (s.opU 1 c) = s.opU 1 (s.opU 3 c)) ∧
    (FarCommute ds → FarCommute s) ∧ (Loopless ds → Loopless s) ∧ (FarDiffer ds → FarDiffer s) ∧
    (∀ col, Colouring ds col → col d2 = !col d1 →
      ∃ col', Colouring s col' ∧ ∀ x, x ≤ ds.size → col' x = col x) ∧
    (s.opU 1 d1 = ds.size + 1 ∧ s.opU 1 d2 = ds.size + 2 ∧ s.opU 0 (ds.size + 1) = ds.size + 2) := by
  unfold cutFace at h
  obtain ⟨g, hg, h⟩ := bind_ok h
  obtain ⟨o2, ho2, h⟩ := bind_ok h
  obtain ⟨o3, ho3, h⟩ := bind_ok h
  obtain ⟨o4, ho4, h⟩ := bind_ok h
  obtain ⟨o5, ho5, h⟩ := bind_ok h
  obtain ⟨o6, ho6, h⟩ := bind_ok h
  obtain ⟨o7, ho7, h⟩ := bind_ok h
  obtain ⟨r0, hr0, h⟩ := bind_ok h
  obtain ⟨r1, hr1, h⟩ := bind_ok h
  obtain ⟨r2, hr2, h⟩ := bind_ok h
  obtain ⟨vg, gsize, gdim, gold, gnew⟩ := grow_valid hv (by omega) (by omega) hg
  rw [hdim] at gdim gold gnew
  -- the eight old chambers
  have e2 := opx_ok ho2
  have e3 := opx_ok ho3
  have e4 := opx_ok ho4
  have e5 := opx_ok ho5
  have r4 := hv.range 1 d1 (by omega) h11 h12
  have r5 := hv.range 1 d2 (by omega) h21 h22
  have v2 : o2 = ds.opU 3 d2 := by rw [← e2.2.2.2.1, gold 3 d2 (by omega) h21 h22]
  have v3 : o3 = ds.opU 3 d1 := by rw [← e3.2.2.2.1, gold 3 d1 (by omega) h11 h12]
  have v4 : o4 = ds.opU 1 d1 := by rw [← e4.2.2.2.1, gold 1 d1 (by omega) h11 h12]
  have v5 : o5 = ds.opU 1 d2 := by rw [← e5.2.2.2.1, gold 1 d2 (by omega) h21 h22]
  have e6 := opx_ok ho6
  have e7 := opx_ok ho7
  have b4 : 1 ≤ o4 ∧ o4 ≤ ds.size := by rw [v4]; exact r4
  have b5 : 1 ≤ o5 ∧ o5 ≤ ds.size := by rw [v5]; exact r5
  have v6 : o6 = ds.opU 3 o5 := by rw [← e6.2.2.2.1, gold 3 o5 (by omega) b5.1 b5.2]
  have v7 : o7 = ds.opU 3 o4 := by rw [← e7.2.2.2.1, gold 3 o4 (by omega) b4.1 b4.2]
  have b2 : 1 ≤ o2 ∧ o2 ≤ ds.size := by rw [v2]; exact hv.range 3 d2 (by omega) h21 h22
  have b3 : 1 ≤ o3 ∧ o3 ≤ ds.size := by rw [v3]; exact hv.range 3 d1 (by omega) h11 h12
  have b6 : 1 ≤ o6 ∧ o6 ≤ ds.size := by rw [v6]; exact hv.range 3 o5 (by omega) b5.1 b5.2
  have b7 : 1 ≤ o7 ∧ o7 ≤ ds.size := by rw [v7]; exact hv.range 3 o4 (by omega) b4.1 b4.2
  -- the old chambers, indexed, and s3 on them (an involution of the old set)
  have hold : ∀ k, k < 8 → 1 ≤ [d1, d2, o2, o3, o4, o5, o6, o7].getD k 0 ∧
      [d1, d2, o2, o3, o4, o5, o6, o7].getD k 0 ≤ ds.size ∧
      ds.opU 3 ([d1, d2, o2, o3, o4, o5, o6, o7].getD k 0) = [d1, d2, o2, o3, o4, o5, o6, o7].getD (cfN3 k) 0 := by
    intro k hk
    have : k = 0 ∨ k = 1 ∨ k = 2 ∨ k = 3 ∨ k = 4 ∨ k = 5 ∨ k = 6 ∨ k = 7 := by omega
    rcases this with rfl | rfl | rfl | rfl | rfl | rfl | rfl | rfl
    · exact ⟨h11, h12, v3.symm⟩
    · exact ⟨h21, h22, v2.symm⟩
    · exact ⟨b2.1, b2.2, by show ds.opU 3 o2 = d2; rw [v2]; exact hv.invol 3 d2 (by omega) h21 h22⟩
    · exact ⟨b3.1, b3.2, by show ds.opU 3 o3 = d1; rw [v3]; exact hv.invol 3 d1 (by omega) h11 h12⟩
    · exact ⟨b4.1, b4.2, v7.symm⟩
    · exact ⟨b5.1, b5.2, v6.symm⟩
    · exact ⟨b6.1, b6.2, by show ds.opU 3 o6 = o5; rw [v6]; exact hv.invol 3 o5 (by omega) b5.1 b5.2⟩
    · exact ⟨b7.1, b7.2, by show ds.opU 3 o7 = o4; rw [v7]; exact hv.invol 3 o4 (by omega) b4.1 b4.2⟩
  -- the four reglue steps
  have f0 : ReglueFacts g r0 (cfP0 ds.size) 0 := reglueFacts vg hr0
  have f1 : ReglueFacts r0 r1 (cfP1 ds.size d1 d2 o2 o3 o4 o5 o6 o7) 1 := reglueFacts f0.valid hr1
  have f2 : ReglueFacts r1 r2 (cfP2 ds.size) 2 := reglueFacts f1.valid hr2
  have f3 : ReglueFacts r2 s (cfP3 ds.size) 3 := reglueFacts f2.valid h
  have s0 : r0.size = ds.size + 8 := by rw [f0.size, gsize]
  have s1 : r1.size = ds.size + 8 := by rw [f1.size, s0]
  have s2 : r2.size = ds.size + 8 := by rw [f2.size, s1]
  have s3 : s.size = ds.size + 8 := by rw [f3.size, s2]
  have m0 : r0.dim = 3 := by rw [f0.dim, gdim]
  have m1 : r1.dim = 3 := by rw [f1.dim, m0]
  have m2 : r2.dim = 3 := by rw [f2.dim, m1]
  have m3 : s.dim = 3 := by rw [f3.dim, m2]
  clear hg ho2 ho3 ho4 ho5 ho6 ho7 hr0 hr1 hr2 h e2 e3 e4 e5 e6 e7
  -- reading the final table on the new chambers
  have Z0 : ∀ k, k < 8 → s.opU 0 (ds.size + 1 + k) = ds.size + 1 + cfN0 k := by
    intro k hk
    rw [f3.other 0 _ (by omega) (by omega) (by omega) (by omega),
      f2.other 0 _ (by omega) (by omega) (by omega) (by omega),
      f1.other 0 _ (by omega) (by omega) (by omega) (by omega)]
    exact (f0.paired _ _ (by omega) (by omega) (by omega) (cfP0_get ds.size k hk)).1
  have Z2 : ∀ k, k < 8 → s.opU 2 (ds.size + 1 + k) = ds.size + 1 + cfN2 k := by
    intro k hk
    rw [f3.other 2 _ (by omega) (by omega) (by omega) (by omega)]
    exact (f2.paired _ _ (by omega) (by omega) (by omega) (cfP2_get ds.size k hk)).1
  have Z3 : ∀ k, k < 8 → s.opU 3 (ds.size + 1 + k) = ds.size + 1 + cfN3 k := by
    intro k hk
    exact (f3.paired _ _ (by omega) (by omega) (by omega) (cfP3_get ds.size k hk)).1
  have Z1 : ∀ k, k < 8 → s.opU 1 (ds.size + 1 + k) = [d1, d2, o2, o3, o4, o5, o6, o7].getD k 0 := by
    intro k hk
    rw [f3.other 1 _ (by omega) (by omega) (by omega) (by omega),
      f2.other 1 _ (by omega) (by omega) (by omega) (by omega)]
    exact (f1.paired _ _ (by omega) (by omega) (by omega)
      (cfP1_get ds.size d1 d2 o2 o3 o4 o5 o6 o7 h12 h22 b2.2 b3.2 b4.2 b5.2 b6.2 b7.2 k hk)).1
  have B : ∀ i x, i ≤ 3 → i ≠ 1 → 1 ≤ x → x ≤ ds.size → s.opU i x = ds.opU i x := by
    intro i x hi hi1 hx1 hx2
    have c0 : r0.opU i x = ds.opU i x := by
      by_cases h0 : i = 0
      · subst h0
        rw [f0.unpaired x hx1 (by omega) (by omega) (cfP0_none ds.size x hx2)]; exact gold 0 x (by omega) hx1 hx2
      · rw [f0.other i x (by omega) hx1 (by omega) h0]; exact gold i x hi hx1 hx2
    have c1 : r1.opU i x = ds.opU i x := by
      rw [f1.other i x (by omega) hx1 (by omega) hi1]; exact c0
    have c2 : r2.opU i x = ds.opU i x := by
      by_cases h2 : i = 2
      · subst h2
        rw [f2.unpaired x hx1 (by omega) (by omega) (cfP2_none ds.size x hx2)]; exact c1
      · rw [f2.other i x (by omega) hx1 (by omega) h2]; exact c1
    by_cases h3 : i = 3
    · subst h3
      rw [f3.unpaired x hx1 (by omega) (by omega) (cfP3_none ds.size x hx2)]; exact c2
    · rw [f3.other i x (by omega) hx1 (by omega) h3]; exact c2
  have Z1' : ∀ k, k < 8 → s.opU 1 ([d1, d2, o2, o3, o4, o5, o6, o7].getD k 0) = ds.size + 1 + k := by
    intro k hk
    obtain ⟨ho1, ho2, _⟩ := hold k hk
    rw [f3.other 1 _ (by omega) ho1 (by omega) (by omega),
      f2.other 1 _ (by omega) ho1 (by omega) (by omega)]
    exact (f1.paired _ _ (by omega) (by omega) (by omega)
      (cfP1_get ds.size d1 d2 o2 o3 o4 o5 o6 o7 h12 h22 b2.2 b3.2 b4.2 b5.2 b6.2 b7.2 k hk)).2
  have U1 : ∀ x, 1 ≤ x → x ≤ ds.size → x ≠ d1 → x ≠ d2 → x ≠ o2 → x ≠ o3 → x ≠ o4 → x ≠ o5 → x ≠ o6 → x ≠ o7 →
      s.opU 1 x = ds.opU 1 x := by
    intro x hx1 hx2 n0 n1 n2 n3 n4 n5 n6 n7
    rw [f3.other 1 x (by omega) hx1 (by omega) (by omega), f2.other 1 x (by omega) hx1 (by omega) (by omega),
      f1.unpaired x hx1 (by omega) (by omega) (cfP1_none ds.size d1 d2 o2 o3 o4 o5 o6 o7 x hx2 n0 n1 n2 n3 n4 n5 n6 n7),
      f0.other 1 x (by omega) hx1 (by omega) (by omega)]
    exact gold 1 x (by omega) hx1 hx2
  have hnewc : ∀ c, ds.size < c → c ≤ ds.size + 8 →
      s.opU 2 (s.opU 0 c) = s.opU 0 (s.opU 2 c) ∧ s.opU 3 (s.opU 0 c) = s.opU 0 (s.opU 3 c) ∧
      s.opU 3 (s.opU 1 c) = s.opU 1 (s.opU 3 c) := by
    intro c hc1 hc2
    obtain ⟨k, hk, rfl⟩ : ∃ k, k < 8 ∧ c = ds.size + 1 + k := ⟨c - ds.size - 1, by omega, by omega⟩
    have hl := cfN_lt k hk
    have hc := cfN_comm k hk
    refine ⟨?_, ?_, ?_⟩
    · rw [Z0 k hk, Z2 _ hl.1, Z2 k hk, Z0 _ hl.2.1, hc.1]
    · rw [Z0 k hk, Z3 _ hl.1, Z3 k hk, Z0 _ hl.2.2, hc.2]
    · obtain ⟨ho1, ho2, ho3⟩ := hold k hk
      rw [Z1 k hk, B 3 _ (by omega) (by omega) ho1 ho2, ho3, Z3 k hk, Z1 _ hl.2.2]
  have classify : ∀ v, (∃ k, k < 8 ∧ v = [d1, d2, o2, o3, o4, o5, o6, o7].getD k 0) ∨
      (v ≠ d1 ∧ v ≠ d2 ∧ v ≠ o2 ∧ v ≠ o3 ∧ v ≠ o4 ∧ v ≠ o5 ∧ v ≠ o6 ∧ v ≠ o7) := by
    intro v
    by_cases h8 : v = d1 ∨ v = d2 ∨ v = o2 ∨ v = o3 ∨ v = o4 ∨ v = o5 ∨ v = o6 ∨ v = o7
    · left
      rcases h8 with h | h | h | h | h | h | h | h
      · exact ⟨0, by omega, h⟩
      · exact ⟨1, by omega, h⟩
      · exact ⟨2, by omega, h⟩
      · exact ⟨3, by omega, h⟩
      · exact ⟨4, by omega, h⟩
      · exact ⟨5, by omega, h⟩
      · exact ⟨6, by omega, h⟩
      · exact ⟨7, by omega, h⟩
    · right
      simp only [not_or] at h8
      exact h8
  refine ⟨f3.valid, s3, m3, B, hnewc, ?_, ?_, ?_, ?_,
    ⟨by simpa using Z1' 0 (by omega), by simpa using Z1' 1 (by omega), by simpa [cfN0] using Z0 0 (by omega)⟩⟩
  rotate_left
  · -- loopless
    intro hl i v hi hv1 hv2
    rw [m3] at hi; rw [s3] at hv2
    by_cases hvn : ds.size < v
    · obtain ⟨k, hk, rfl⟩ : ∃ k, k < 8 ∧ v = ds.size + 1 + k := ⟨v - ds.size - 1, by omega, by omega⟩
      have hne := cfN_ne k hk
      have : i = 0 ∨ i = 1 ∨ i = 2 ∨ i = 3 := by omega
      rcases this with rfl | rfl | rfl | rfl
      · rw [Z0 k hk]; omega
      · rw [Z1 k hk]; have := (hold k hk).2.1; omega
      · rw [Z2 k hk]; omega
      · rw [Z3 k hk]; omega
    · have hvo : v ≤ ds.size := by omega
      by_cases hi1 : i = 1
      · subst hi1
        rcases classify v with ⟨k, hk, hvk⟩ | ⟨n0, n1, n2, n3, n4, n5, n6, n7⟩
        · rw [hvk, Z1' k hk]; have := (hold k hk).2.1; omega
        · rw [U1 v hv1 hvo n0 n1 n2 n3 n4 n5 n6 n7]; exact hl 1 v (by omega) hv1 hvo
      · rw [B i v hi hi1 hv1 hvo]; exact hl i v (by omega) hv1 hvo
  · -- far operations differ
    intro hd a b v hab hb hv1 hv2
    rw [m3] at hb; rw [s3] at hv2
    have hab' : (a = 0 ∧ b = 2) ∨ (a = 0 ∧ b = 3) ∨ (a = 1 ∧ b = 3) := by omega
    by_cases hvn : ds.size < v
    · obtain ⟨k, hk, rfl⟩ : ∃ k, k < 8 ∧ v = ds.size + 1 + k := ⟨v - ds.size - 1, by omega, by omega⟩
      have hne := cfN_ne k hk
      rcases hab' with ⟨rfl, rfl⟩ | ⟨rfl, rfl⟩ | ⟨rfl, rfl⟩
      · rw [Z0 k hk, Z2 k hk]; omega
      · rw [Z0 k hk, Z3 k hk]; omega
      · rw [Z1 k hk, Z3 k hk]; have := (hold k hk).2.1; omega
    · have hvo : v ≤ ds.size := by omega
      rcases hab' with ⟨rfl, rfl⟩ | ⟨rfl, rfl⟩ | ⟨rfl, rfl⟩
      · rw [B 0 v (by omega) (by omega) hv1 hvo, B 2 v (by omega) (by omega) hv1 hvo]
        exact hd 0 2 v (by omega) (by omega) hv1 hvo
      · rw [B 0 v (by omega) (by omega) hv1 hvo, B 3 v (by omega) (by omega) hv1 hvo]
        exact hd 0 3 v (by omega) (by omega) hv1 hvo
      · rw [B 3 v (by omega) (by omega) hv1 hvo]
        rcases classify v with ⟨k, hk, hvk⟩ | ⟨n0, n1, n2, n3, n4, n5, n6, n7⟩
        · rw [hvk, Z1' k hk]
          have := (hv.range 3 _ (by omega) (hold k hk).1 (hold k hk).2.1).2
          omega
        · rw [U1 v hv1 hvo n0 n1 n2 n3 n4 n5 n6 n7]; exact hd 1 3 v (by omega) (by omega) hv1 hvo
  · -- orientation
    intro col hcol hc21
    have hcolold : ∀ k, k < 8 → col ([d1, d2, o2, o3, o4, o5, o6, o7].getD k 0) = (if cfSign k then col d1 else !col d1) := by
      intro k hk
      have c3d2 := hcol 3 d2 (by omega) h21 h22
      have c3d1 := hcol 3 d1 (by omega) h11 h12
      have c1d1 := hcol 1 d1 (by omega) h11 h12
      have c1d2 := hcol 1 d2 (by omega) h21 h22
      have c6 := hcol 3 o5 (by omega) b5.1 b5.2
      have c7 := hcol 3 o4 (by omega) b4.1 b4.2
      rw [← v2] at c3d2; rw [← v3] at c3d1; rw [← v4] at c1d1; rw [← v5] at c1d2
      rw [← v6] at c6; rw [← v7] at c7
      have : k = 0 ∨ k = 1 ∨ k = 2 ∨ k = 3 ∨ k = 4 ∨ k = 5 ∨ k = 6 ∨ k = 7 := by omega
      rcases this with rfl | rfl | rfl | rfl | rfl | rfl | rfl | rfl
      · rfl
      · exact hc21
      · show col o2 = col d1; rw [c3d2, hc21]; simp
      · show col o3 = !col d1; exact c3d1
      · show col o4 = !col d1; exact c1d1
      · show col o5 = col d1; rw [c1d2, hc21]; simp
      · show col o6 = !col d1; rw [c6, c1d2, hc21]; simp
      · show col o7 = col d1; rw [c7, c1d1]; simp
    refine ⟨fun x => if x ≤ ds.size then col x else !col ([d1, d2, o2, o3, o4, o5, o6, o7].getD (x - ds.size - 1) 0), ?_,
      fun x hx => by simp only [hx, if_true]⟩
    have newcol : ∀ k, k < 8 → (if ds.size + 1 + k ≤ ds.size then col (ds.size + 1 + k)
        else !col ([d1, d2, o2, o3, o4, o5, o6, o7].getD (ds.size + 1 + k - ds.size - 1) 0)) =
        (if cfSign k then !col d1 else col d1) := by
      intro k hk
      rw [if_neg (by omega), show ds.size + 1 + k - ds.size - 1 = k by omega, hcolold k hk]
      cases cfSign k <;> simp
    have oldcol : ∀ x, x ≤ ds.size → (if x ≤ ds.size then col x
        else !col ([d1, d2, o2, o3, o4, o5, o6, o7].getD (x - ds.size - 1) 0)) = col x := by
      intro x hx; rw [if_pos hx]
    intro i v hi hv1 hv2
    rw [m3] at hi; rw [s3] at hv2
    by_cases hvn : ds.size < v
    · obtain ⟨k, hk, rfl⟩ : ∃ k, k < 8 ∧ v = ds.size + 1 + k := ⟨v - ds.size - 1, by omega, by omega⟩
      have hl' := cfN_lt k hk
      have hfl := cfSign_flip k hk
      simp only
      rw [newcol k hk]
      have : i = 0 ∨ i = 1 ∨ i = 2 ∨ i = 3 := by omega
      rcases this with rfl | rfl | rfl | rfl
      · rw [Z0 k hk, newcol _ hl'.1, hfl.1]; cases cfSign k <;> simp
      · rw [Z1 k hk, oldcol _ (hold k hk).2.1, hcolold k hk]; cases cfSign k <;> simp
      · rw [Z2 k hk, newcol _ hl'.2.1, hfl.2.1]; cases cfSign k <;> simp
      · rw [Z3 k hk, newcol _ hl'.2.2, hfl.2.2]; cases cfSign k <;> simp
    · have hvo : v ≤ ds.size := by omega
      simp only
      rw [oldcol v hvo]
      by_cases hi1 : i = 1
      · subst hi1
        rcases classify v with ⟨k, hk, hvk⟩ | ⟨n0, n1, n2, n3, n4, n5, n6, n7⟩
        · rw [hvk, Z1' k hk, newcol k hk, hcolold k hk]; cases cfSign k <;> simp
        · rw [U1 v hv1 hvo n0 n1 n2 n3 n4 n5 n6 n7, oldcol _ (hv.range 1 v (by omega) hv1 hvo).2]
          exact hcol 1 v (by omega) hv1 hvo
      · rw [B i v hi hi1 hv1 hvo, oldcol _ (hv.range i v (by omega) hv1 hvo).2]
        exact hcol i v (by omega) hv1 hvo
  intro hfc a b v hab hb hv1 hv2
  rw [m3] at hb
  rw [s3] at hv2
  by_cases hvn : ds.size < v
  · obtain ⟨c02, c03, c13⟩ := hnewc v hvn hv2
    have : (a = 0 ∧ b = 2) ∨ (a = 0 ∧ b = 3) ∨ (a = 1 ∧ b = 3) := by omega
    rcases this with ⟨rfl, rfl⟩ | ⟨rfl, rfl⟩ | ⟨rfl, rfl⟩
    · exact c02
    · exact c03
    · exact c13
  · have hvo : v ≤ ds.size := by omega
    -- old chambers: operations 0, 2, 3 are the old ones
    have far023 : ∀ a b, a ≠ 1 → b ≠ 1 → a + 1 < b → b ≤ 3 → s.opU b (s.opU a v) = s.opU a (s.opU b v) := by
      intro a b ha1 hb1 hab hb
      have ra := hv.range a v (by omega) hv1 hvo
      have rb := hv.range b v (by omega) hv1 hvo
      rw [B a v (by omega) ha1 hv1 hvo, B b v hb hb1 hv1 hvo, B b _ hb hb1 ra.1 ra.2, B a _ (by omega) ha1 rb.1 rb.2]
      exact hfc a b v hab (by omega) hv1 hvo
    by_cases hb1 : a = 1
    · -- the pair (1, 3)
      have hb3 : b = 3 := by omega
      subst hb1 hb3
      have hmem : ∀ k, k < 8 → ([d1, d2, o2, o3, o4, o5, o6, o7].getD k 0 = d1 ∨
          [d1, d2, o2, o3, o4, o5, o6, o7].getD k 0 = d2 ∨ [d1, d2, o2, o3, o4, o5, o6, o7].getD k 0 = o2 ∨
          [d1, d2, o2, o3, o4, o5, o6, o7].getD k 0 = o3 ∨ [d1, d2, o2, o3, o4, o5, o6, o7].getD k 0 = o4 ∨
          [d1, d2, o2, o3, o4, o5, o6, o7].getD k 0 = o5 ∨ [d1, d2, o2, o3, o4, o5, o6, o7].getD k 0 = o6 ∨
          [d1, d2, o2, o3, o4, o5, o6, o7].getD k 0 = o7) := by
        intro k hk
        have : k = 0 ∨ k = 1 ∨ k = 2 ∨ k = 3 ∨ k = 4 ∨ k = 5 ∨ k = 6 ∨ k = 7 := by omega
        rcases this with rfl | rfl | rfl | rfl | rfl | rfl | rfl | rfl <;> simp
      by_cases h8 : v = d1 ∨ v = d2 ∨ v = o2 ∨ v = o3 ∨ v = o4 ∨ v = o5 ∨ v = o6 ∨ v = o7
      · obtain ⟨k, hk, hvk⟩ : ∃ k, k < 8 ∧ v = [d1, d2, o2, o3, o4, o5, o6, o7].getD k 0 := by
          rcases h8 with h | h | h | h | h | h | h | h
          · exact ⟨0, by omega, h⟩
          · exact ⟨1, by omega, h⟩
          · exact ⟨2, by omega, h⟩
          · exact ⟨3, by omega, h⟩
          · exact ⟨4, by omega, h⟩
          · exact ⟨5, by omega, h⟩
          · exact ⟨6, by omega, h⟩
          · exact ⟨7, by omega, h⟩
        obtain ⟨ho1, ho2, ho3⟩ := hold k hk
        have hl := cfN_lt k hk
        rw [hvk, Z1' k hk, Z3 k hk, B 3 _ (by omega) (by omega) ho1 ho2, ho3, Z1' _ hl.2.2]
      · simp only [not_or] at h8
        obtain ⟨n0, n1, n2, n3, n4, n5, n6, n7⟩ := h8
        have r1v := hv.range 1 v (by omega) hv1 hvo
        have r3v := hv.range 3 v (by omega) hv1 hvo
        rw [U1 v hv1 hvo n0 n1 n2 n3 n4 n5 n6 n7, B 3 _ (by omega) (by omega) r1v.1 r1v.2,
          B 3 v (by omega) (by omega) hv1 hvo]
        -- s3 v is not among the eight either: they are closed under s3
        have hz : ∀ k, k < 8 → ds.opU 3 v ≠ [d1, d2, o2, o3, o4, o5, o6, o7].getD k 0 := by
          intro k hk hz
          obtain ⟨ho1, ho2, ho3⟩ := hold k hk
          have hback : v = [d1, d2, o2, o3, o4, o5, o6, o7].getD (cfN3 k) 0 := by
            rw [← ho3, ← hz]; exact (hv.invol 3 v (by omega) hv1 hvo).symm
          have := hmem (cfN3 k) (cfN_lt k hk).2.2
          rw [← hback] at this
          rcases this with h | h | h | h | h | h | h | h
          · exact n0 h
          · exact n1 h
          · exact n2 h
          · exact n3 h
          · exact n4 h
          · exact n5 h
          · exact n6 h
          · exact n7 h
        rw [U1 _ r3v.1 r3v.2 (hz 0 (by omega)) (hz 1 (by omega)) (hz 2 (by omega)) (hz 3 (by omega))
          (hz 4 (by omega)) (hz 5 (by omega)) (hz 6 (by omega)) (hz 7 (by omega))]
        exact hfc 1 3 v (by omega) (by omega) hv1 hvo
    · have hb1' : b ≠ 1 := by omega
      exact far023 a b hb1 hb1' hab hb

/-! ### witnesses for the non-vacuity examples -/

/-- Boolean form of `ValidSet` -/
def validSetB (s : DSetData) : Bool :=
  s.op.size == s.size * (s.dim + 1) &&
  (List.range (s.dim + 1)).all fun i => (List.range s.size).all fun d0 =>
    1 ≤ s.opU i (d0 + 1) && s.opU i (d0 + 1) ≤ s.size && s.opU i (s.opU i (d0 + 1)) == d0 + 1

theorem validSetB_sound {s : DSetData} (h : validSetB s = true) : ValidSet s := by
  unfold validSetB at h
  simp only [Bool.and_eq_true, beq_iff_eq, List.all_eq_true, List.mem_range, decide_eq_true_eq] at h
  obtain ⟨h1, h2⟩ := h
  refine ⟨h1, ?_, ?_⟩
  · intro i d hi hd1 hd2
    have := h2 i (by omega) (d - 1) (by omega)
    rw [show d - 1 + 1 = d by omega] at this
    exact ⟨this.1.1, this.1.2⟩
  · intro i d hi hd1 hd2
    have := h2 i (by omega) (d - 1) (by omega)
    rw [show d - 1 + 1 = d by omega] at this
    exact this.2

/-- eight chambers (a, b, c) ∈ {0,1}³ numbered 1 + a + 2b + 4c; s0 flips a, s1 flips b,
    s2 flips a and b, s3 flips c -/
def ex8 : DSetData :=
  { size := 8, dim := 3,
    op := #[2, 3, 4, 5,  1, 4, 3, 6,  4, 1, 2, 7,  3, 2, 1, 8,  6, 7, 8, 1,  5, 8, 7, 2,  8, 5, 6, 3,  7, 6, 5, 4] }

theorem ex8_valid : ValidSet ex8 := validSetB_sound (by decide)

theorem isOk_exists {α} {x : Outcome α} (h : x.isOk = true) : ∃ a, x = .ok a := by
  cases x with
  | ok a => exact ⟨a, rfl⟩
  | err => cases h
  | panic => cases h

end DSymVerif.Simp
