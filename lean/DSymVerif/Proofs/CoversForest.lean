/-
Property C05, part 30: `spanning_tree(ds)` of a symbol that need NOT be connected is a spanning
forest — one tree per component.

`IsRoot ds r`: `r` is the start chamber of a start item of the traversal behind `spanning_tree`
(the chamber from which a new component is entered).  Every chamber is joined to exactly one root
by tree facets (each crossed from its recorded side), roots of different trees lie in different
components, and therefore the chambers tree-reachable from a root are exactly its component.
(For a connected symbol: C09 `spanningTree_spanning`.)
-/
import DSymVerif.Proofs.CoversConn

namespace DSymVerif.CoversP
open DSymVerif DSymVerif.DS DSymVerif.FG DSymVerif.FGP

/-- `r` is the chamber of a start item of the traversal behind `spanning_tree(ds)` -/
def IsRoot (ds : DSymData) (r : Nat) : Prop :=
  ∃ s ∈ ds.view.traversal ds.view.indices ds.view.elements.reverse, s.1 = none ∧ s.2.1 = r

theorem spanningTree_items {ds : DSymData} (hv : ValidSet ds.dset) :
    ∀ it ∈ spanningTree ds, 1 ≤ it.1 ∧ it.1 ≤ ds.size ∧ it.2.1 ≤ ds.dim := by
  intro it hit
  obtain ⟨hn, _⟩ := spanningTree_itemOk hv it hit
  exact spanningTree_ok hv it hit hn

/-- tree-reachable chambers are chambers of the component -/
theorem treeReach_reach {ds : DSymData} (hv : ValidSet ds.dset) {r x : Nat} (hr1 : 1 ≤ r)
    (hr2 : r ≤ ds.size) (h : TreeReach ds (spanningTree ds) r x) :
    (1 ≤ x ∧ x ≤ ds.size) ∧ ds.view.Reach ds.view.indices r x := by
  induction h with
  | root => exact ⟨⟨hr1, hr2⟩, View.Reach.refl _⟩
  | @step d i _ hmem ih =>
    obtain ⟨hd, hreach⟩ := ih
    have hi : i ≤ ds.dim := (spanningTree_items hv _ hmem).2.2
    have hop : ds.view.op i d = some (ds.dset.opU i d) := opSimple_eq_some.2 ⟨hi, hd.1, hd.2, rfl⟩
    exact ⟨hv.range i d hi hd.1 hd.2, View.Reach.step hreach ((mem_indices ds.view i).2 hi) hop⟩

/-- **`spanning_tree(ds)` is a spanning forest**: every chamber is tree-reachable from a root, roots
    are chambers, and two roots in one component coincide -/
theorem spanning_forest {ds : DSymData} (hv : ValidSet ds.dset) :
    (∀ x, 1 ≤ x → x ≤ ds.size → ∃ r, IsRoot ds r ∧ TreeReach ds (spanningTree ds) r x) ∧
    (∀ r, IsRoot ds r → 1 ≤ r ∧ r ≤ ds.size) ∧
    (∀ r r', IsRoot ds r → IsRoot ds r' → ds.view.Reach ds.view.indices r r' → r = r') := by
  have hp : ds.view.PInvol := (C02.traversal_hyp ds.dset).2.2 ds hv
  have hseeds : ∀ d ∈ ds.view.elements.reverse, 1 ≤ d ∧ d ≤ ds.size := fun d hd =>
    (DS.mem_elements ds.view d).1 (List.mem_reverse.1 hd)
  have hinv := tree_fold hv (ds.view.traversal ds.view.indices ds.view.elements.reverse) [] ([], [])
    (by simp) ⟨fun x => (by simp), List.nodup_nil, (by simp), fun x hx => (by cases hx),
      fun it hit => (by cases hit),
      ⟨[], OForest.nil, fun x => (by simp [ReachedF, edgesOf]), (by simp), fun x => (by simp)⟩⟩
  rw [List.nil_append] at hinv
  obtain ⟨c1, _, _, _, c5, _⟩ := C02.traversal_complete ds.view hp ds.view.indices ds.view.elements.reverse
  set tr := ds.view.traversal ds.view.indices ds.view.elements.reverse with htr
  set acc := tr.foldl treeStep ([], []) with hacc
  have htree : spanningTree ds = acc.2 := rfl
  have hseen : ∀ x, x ∈ acc.1 ↔ 1 ≤ x ∧ x ≤ ds.size := by
    intro x
    rw [hinv.seen x, c1 x]
    constructor
    · rintro ⟨d, hd, hr⟩
      exact reach_range hp (hseeds d hd) hr
    · intro hx
      exact ⟨x, List.mem_reverse.2 ((DS.mem_elements ds.view x).2 hx), View.Reach.refl x⟩
  have hstart : ∀ s ∈ tr, s.1 = none → 1 ≤ s.2.1 ∧ s.2.1 ≤ ds.size := by
    intro s hs hsn
    obtain ⟨pre, post, hsp⟩ := List.append_of_mem hs
    obtain ⟨_, s2, _⟩ := C02.traversal_sound ds.view ds.view.indices ds.view.elements.reverse
      pre post s hsp
    exact hseeds _ (s2 hsn).2.1
  refine ⟨?_, ?_, ?_⟩
  · intro x h1 h2
    obtain ⟨s, hs, hsn, hr⟩ := hinv.reach x ((hseen x).2 ⟨h1, h2⟩)
    exact ⟨s.2.1, ⟨s, hs, hsn, rfl⟩, by rw [htree]; exact hr⟩
  · rintro r ⟨s, hs, hsn, rfl⟩
    exact hstart s hs hsn
  · rintro r r' ⟨s, hs, hsn, rfl⟩ ⟨s', hs', hsn', rfl⟩ hreach
    by_cases he : s = s'
    · rw [he]
    · exfalso
      haveI : Std.Symm (fun t t' : View.TravItem => t.1 = none → t'.1 = none →
          ¬ ds.view.Reach ds.view.indices t.2.1 t'.2.1) :=
        ⟨fun t t' h a b hr => h b a (hr.symm hp)⟩
      exact c5.forall hs hs' he hsn hsn' hreach

/-- the chambers tree-reachable from a root are its whole component -/
theorem root_closed {ds : DSymData} (hv : ValidSet ds.dset) {r y : Nat} (hr : IsRoot ds r)
    (h : ds.view.Reach ds.view.indices r y) : TreeReach ds (spanningTree ds) r y := by
  have hp : ds.view.PInvol := (C02.traversal_hyp ds.dset).2.2 ds hv
  obtain ⟨f1, f2, f3⟩ := spanning_forest hv
  have hrr := f2 r hr
  have hy := reach_range hp hrr h
  obtain ⟨r', hr', ht⟩ := f1 y hy.1 hy.2
  have hrr' := f2 r' hr'
  have h2 := (treeReach_reach hv hrr'.1 hrr'.2 ht).2
  have : r = r' := f3 r r' hr hr' (h.trans (h2.symm hp))
  rw [this]
  exact ht

/-- every chamber has a root whose tree contains its whole component -/
theorem exists_root {ds : DSymData} (hv : ValidSet ds.dset) {x : Nat} (h1 : 1 ≤ x) (h2 : x ≤ ds.size) :
    ∃ r, IsRoot ds r ∧ (1 ≤ r ∧ r ≤ ds.size) ∧ TreeReach ds (spanningTree ds) r x ∧
      ∀ y, ds.view.Reach ds.view.indices x y → TreeReach ds (spanningTree ds) r y := by
  have hp : ds.view.PInvol := (C02.traversal_hyp ds.dset).2.2 ds hv
  obtain ⟨f1, f2, _⟩ := spanning_forest hv
  obtain ⟨r, hr, ht⟩ := f1 x h1 h2
  have hrr := f2 r hr
  refine ⟨r, hr, hrr, ht, fun y hy => root_closed hv hr ?_⟩
  exact (treeReach_reach hv hrr.1 hrr.2 ht).2.trans hy

end DSymVerif.CoversP
