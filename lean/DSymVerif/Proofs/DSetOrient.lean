/-
Helper lemmas for property C02, part 9: `partial_orientation` and `is_weakly_oriented`.
The signs assigned along the full traversal form a proper 2-colouring of the non-loop
edges iff one exists.
-/
import DSymVerif.Proofs.DSetTravSpec
import DSymVerif.Proofs.DSetCollect

namespace DSymVerif.DS
open View

/-- one step of the fold in `partial_orientation` -/
def oriStep (sgn : Array Nat) (t : TravItem) : Array Nat :=
  if sgn.getD t.2.2 0 = 0 then sgn.setIfInBounds t.2.2 (if sgn.getD t.2.1 0 = 1 then 2 else 1) else sgn

/-- the orientation after the items `acc` (newest first) -/
def oriOf (s : View) (acc : List TravItem) : Array Nat :=
  acc.foldr (fun t sgn => oriStep sgn t) (Array.replicate (s.size + 1) 0)

theorem partialOrientation_eq (s : View) (acc : List TravItem) (h : s.fullTraversal = acc.reverse) :
    s.partialOrientation = oriOf s acc := by
  unfold View.partialOrientation oriOf
  rw [h, List.foldl_reverse]
  rfl

/-- a proper 2-colouring of the non-loop edges (the graph-theoretic definition of bipartite) -/
def Proper (s : View) (c : Nat → Bool) : Prop :=
  ∀ i d e, i ≤ s.dim → 1 ≤ d → d ≤ s.size → s.op i d = some e → e ≠ d → c e ≠ c d

structure OriInv (s : View) (acc : List TravItem) (sgn : Array Nat) : Prop where
  size : sgn.size = s.size + 1
  assigned : ∀ x, 1 ≤ x → x ≤ s.size → (sgn.getD x 0 ≠ 0 ↔ IsTarget acc x)
  vals : ∀ x, sgn.getD x 0 = 0 ∨ sgn.getD x 0 = 1 ∨ sgn.getD x 0 = 2
  proper : ∀ c, Proper s c → ∀ x y, 1 ≤ x → x ≤ s.size → 1 ≤ y → y ≤ s.size →
    sgn.getD x 0 ≠ 0 → sgn.getD y 0 ≠ 0 → s.Reach s.indices x y →
    (sgn.getD x 0 = sgn.getD y 0 ↔ c x = c y)

theorem mem_indices (s : View) (i : Nat) : i ∈ s.indices ↔ i ≤ s.dim := by
  unfold View.indices; simp only [List.mem_range]; omega

theorem inCh_elements {s : View} {x : Nat} (h : InCh s s.elements x) : 1 ≤ x ∧ x ≤ s.size := by
  rcases h with h | h
  · exact h
  · exact (mem_elements s x).1 h

theorem oriInv {s : View} (h : s.PInvol) :
    ∀ {acc : List TravItem}, AllOK s s.indices s.elements acc → OriInv s acc (oriOf s acc)
  | [], _ => by
    refine ⟨by simp [oriOf], ?_, ?_, ?_⟩
    · intro x _ _
      simp only [oriOf, List.foldr_nil, getD_replicate, ne_eq, not_true_eq_false, false_iff]
      rintro ⟨t, ht, _⟩; cases ht
    · intro x; left
      show (Array.replicate (s.size + 1) 0).getD x 0 = 0
      exact getD_replicate _ _ _
    · intro c _ x y _ _ _ _ hx
      exact absurd (getD_replicate (s.size + 1) x 0) hx
  | t :: acc, hall => by
    have ih := oriInv h hall.2
    have hch := (AllOK.inCh h.range hall t List.mem_cons_self)
    have hd := inCh_elements hch.1
    have hdi := inCh_elements hch.2
    show OriInv s (t :: acc) (oriStep (oriOf s acc) t)
    generalize oriOf s acc = sgn at ih
    have htgt : ∀ x, IsTarget (t :: acc) x ↔ x = t.2.2 ∨ IsTarget acc x := by
      intro x
      constructor
      · rintro ⟨u, hu, hux⟩
        rcases List.mem_cons.1 hu with rfl | hu
        · exact Or.inl hux.symm
        · exact Or.inr ⟨u, hu, hux⟩
      · rintro (hx | hx)
        · exact ⟨t, List.mem_cons_self, hx.symm⟩
        · exact hx.mono t
    unfold oriStep
    by_cases hz : sgn.getD t.2.2 0 = 0
    · rw [if_pos hz]
      have hnt : ¬ IsTarget acc t.2.2 := fun hc => ((ih.assigned _ hdi.1 hdi.2).2 hc) hz
      -- the new value
      generalize hv : (if sgn.getD t.2.1 0 = 1 then 2 else 1) = v
      have hget : ∀ x, (sgn.setIfInBounds t.2.2 v).getD x 0 = if x = t.2.2 then v else sgn.getD x 0 := by
        intro x
        rw [getD_setIfInBounds]
        by_cases hx : x = t.2.2
        · rw [if_pos hx, if_pos ⟨hx.symm, by rw [ih.size]; omega⟩]
        · rw [if_neg hx, if_neg (fun hc => hx hc.1.symm)]
      have hv12 : v = 1 ∨ v = 2 := by
        rw [← hv]; split
        · exact Or.inr rfl
        · exact Or.inl rfl
      refine ⟨by simp [ih.size], ?_, ?_, ?_⟩
      · intro x hx1 hx2
        rw [hget, htgt]
        by_cases hx : x = t.2.2
        · rw [if_pos hx]
          exact ⟨fun _ => Or.inl hx, fun _ => by omega⟩
        · rw [if_neg hx, ih.assigned x hx1 hx2]
          exact ⟨fun hc => Or.inr hc, fun hc => hc.resolve_left hx⟩
      · intro x
        rw [hget]
        by_cases hx : x = t.2.2
        · rw [if_pos hx]; omega
        · rw [if_neg hx]; exact ih.vals x
      · intro c hc x y hx1 hx2 hy1 hy2 hxa hya hr
        rw [hget] at hxa ⊢
        rw [hget] at hya ⊢
        -- facts about the reported item
        cases hmi : t.1 with
        | none =>
          -- a start item: nothing assigned in its component
          obtain ⟨hdd, _, hcl, _⟩ := hall.1.start hmi
          by_cases hx : x = t.2.2
          · by_cases hy : y = t.2.2
            · rw [hx, hy]; simp
            · exfalso
              rw [if_neg hy] at hya
              have hyt := (ih.assigned y hy1 hy2).1 hya
              have := target_closed h hall.2 hcl hyt (hr.symm h)
              rw [hx] at this; exact hnt this
          · by_cases hy : y = t.2.2
            · exfalso
              rw [if_neg hx] at hxa
              have hxt := (ih.assigned x hx1 hx2).1 hxa
              have := target_closed h hall.2 hcl hxt hr
              rw [hy] at this; exact hnt this
            · rw [if_neg hx] at hxa ⊢
              rw [if_neg hy] at hya ⊢
              exact ih.proper c hc x y hx1 hx2 hy1 hy2 hxa hya hr
        | some i =>
          obtain ⟨hi, hdi', hdt⟩ := hall.1.edge i hmi
          have hda : sgn.getD t.2.1 0 ≠ 0 := (ih.assigned _ hd.1 hd.2).2 hdt
          have hne : t.2.2 ≠ t.2.1 := fun hc => hda (hc ▸ hz)
          have hop : s.op i t.2.1 = some t.2.2 := by
            cases hop : s.op i t.2.1 with
            | none => rw [hop] at hdi'; exact absurd hdi' hne
            | some e => rw [hop] at hdi'; simp only [Option.getD_some] at hdi'; rw [hdi']
          have hcne : c t.2.2 ≠ c t.2.1 := hc i _ _ ((mem_indices s i).1 hi) hd.1 hd.2 hop hne
          have hvd : v ≠ sgn.getD t.2.1 0 := by
            rw [← hv]; split <;> omega
          have hrd : s.Reach s.indices t.2.1 t.2.2 := View.Reach.step (View.Reach.refl _) hi hop
          have hdvals := ih.vals t.2.1
          by_cases hx : x = t.2.2
          · by_cases hy : y = t.2.2
            · rw [hx, hy]; simp
            · rw [if_pos hx, if_neg hy]
              rw [if_neg hy] at hya
              have hr' : s.Reach s.indices t.2.1 y := hrd.trans (hx ▸ hr)
              have := ih.proper c hc t.2.1 y hd.1 hd.2 hy1 hy2 hda hya hr'
              have hyv := ih.vals y
              rw [hx]
              constructor
              · intro he
                have : ¬ c t.2.1 = c y := fun hcc => hvd (he.trans (this.2 hcc).symm)
                revert this hcne; cases c t.2.2 <;> cases c t.2.1 <;> cases c y <;> simp
              · intro he
                have : ¬ sgn.getD t.2.1 0 = sgn.getD y 0 := by
                  intro hs; have := this.1 hs; rw [← this] at he; exact hcne he
                omega
          · by_cases hy : y = t.2.2
            · rw [if_neg hx, if_pos hy]
              rw [if_neg hx] at hxa
              have hr' : s.Reach s.indices t.2.1 x := hrd.trans ((hy ▸ hr).symm h)
              have := ih.proper c hc t.2.1 x hd.1 hd.2 hx1 hx2 hda hxa hr'
              have hxv := ih.vals x
              rw [hy]
              constructor
              · intro he
                have : ¬ c t.2.1 = c x := fun hcc => hvd (he.symm.trans (this.2 hcc).symm)
                revert this hcne; cases c t.2.2 <;> cases c t.2.1 <;> cases c x <;> simp
              · intro he
                have : ¬ sgn.getD t.2.1 0 = sgn.getD x 0 := by
                  intro hs; have := this.1 hs; rw [← this] at he; exact hcne he.symm
                omega
            · rw [if_neg hx] at hxa ⊢
              rw [if_neg hy] at hya ⊢
              exact ih.proper c hc x y hx1 hx2 hy1 hy2 hxa hya hr
    · rw [if_neg hz]
      have hdt : IsTarget acc t.2.2 := (ih.assigned _ hdi.1 hdi.2).1 hz
      refine ⟨ih.size, ?_, ih.vals, ih.proper⟩
      intro x hx1 hx2
      rw [htgt, ih.assigned x hx1 hx2]
      exact ⟨fun hc => Or.inr hc, fun hc => hc.elim (fun hx => hx ▸ hdt) id⟩

/-- `is_weakly_oriented()` ⇔ the chamber graph without loops is bipartite -/
theorem isWeaklyOriented_iff {s : View} (h : s.PInvol) :
    s.isWeaklyOriented = true ↔ ∃ c, Proper s c := by
  obtain ⟨acc, st', hacc, inv, hex⟩ := traversal_run h.range s.indices s.elements
  have hfin := inv.final hex
  have hori := oriInv h inv.allOK
  have hpo : s.partialOrientation = oriOf s acc := partialOrientation_eq s acc hacc
  have hass : ∀ x, 1 ≤ x → x ≤ s.size → (oriOf s acc).getD x 0 = 1 ∨ (oriOf s acc).getD x 0 = 2 := by
    intro x h1 h2
    have := (hori.assigned x h1 h2).2 (hfin.2 x ((mem_elements s x).2 ⟨h1, h2⟩))
    have := hori.vals x
    omega
  have hwo : s.isWeaklyOriented = true ↔
      ∀ i d, i ≤ s.dim → 1 ≤ d → d ≤ s.size → s.orientationsMatch i d (oriOf s acc) = true := by
    unfold View.isWeaklyOriented
    simp only [hpo, List.all_eq_true]
    constructor
    · intro hc i d hi h1 h2
      exact hc i ((mem_indices s i).2 hi) d ((mem_elements s d).2 ⟨h1, h2⟩)
    · intro hc i hi d hd
      have := (mem_elements s d).1 hd
      exact hc i d ((mem_indices s i).1 hi) this.1 this.2
  rw [hwo]
  constructor
  · intro hm
    refine ⟨fun x => decide ((oriOf s acc).getD x 0 = 1), ?_⟩
    intro i d e hi h1 h2 hop hne
    have := hm i d hi h1 h2
    unfold View.orientationsMatch at this
    rw [hop] at this
    simp only [Bool.or_eq_true, beq_iff_eq, bne_iff_ne, ne_eq] at this
    have he := h.range i d e hop
    have hd12 := hass d h1 h2
    have he12 := hass e he.1 he.2
    have hne' : (oriOf s acc).getD e 0 ≠ (oriOf s acc).getD d 0 := by
      rcases this with (h3 | h3) | h3
      · exact absurd h3 hne
      · omega
      · exact h3
    simp only [ne_eq, decide_eq_decide]
    omega
  · rintro ⟨c, hc⟩ i d hi h1 h2
    unfold View.orientationsMatch
    cases hop : s.op i d with
    | none => rfl
    | some e =>
      simp only [Bool.or_eq_true, beq_iff_eq, bne_iff_ne, ne_eq]
      by_cases hne : e = d
      · exact Or.inl (Or.inl hne)
      · right
        have he := h.range i d e hop
        have hd12 := hass d h1 h2
        have he12 := hass e he.1 he.2
        have hr : s.Reach s.indices e d :=
          (View.Reach.step (View.Reach.refl d) ((mem_indices s i).2 hi) hop).symm h
        have := hori.proper c hc e d he.1 he.2 h1 h2 (by omega) (by omega) hr
        intro heq
        exact hc i d e hi h1 h2 hop hne (this.1 heq)

end DSymVerif.DS
