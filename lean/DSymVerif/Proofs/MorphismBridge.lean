/-
Helper lemmas for property C04, part 6: the abstract hypotheses of the morphism theorems
(`OpRange`, `OpPos`, `Complete`, `Invol`) hold for the views `ofSym` / `ofSet` of the
model's concrete data whenever the stored operation table is a complete family of
involutions on 1..size (what `build_set` + `SimpleDSet::from` establish).
-/
import DSymVerif.Proofs.MorphismBij

namespace DSymVerif.Mor
open DSymVerif.DS

/-- the stored table is complete with entries in 1..size -/
def TableRange (t : DSetData) : Prop :=
  ∀ i d, i ≤ t.dim → 1 ≤ d → d ≤ t.size → 1 ≤ t.opU i d ∧ t.opU i d ≤ t.size

def TableInvol (t : DSetData) : Prop :=
  ∀ i d, i ≤ t.dim → 1 ≤ d → d ≤ t.size → t.opU i (t.opU i d) = d

theorem opSimple_some {t : DSetData} {i d y : Nat} (h : t.opSimple i d = some y) :
    i ≤ t.dim ∧ 1 ≤ d ∧ d ≤ t.size ∧ y = t.opU i d := by
  unfold DSetData.opSimple at h
  split at h
  · cases h
  · rename_i hc
    simp only [Bool.or_eq_true, decide_eq_true_eq, not_or, Nat.not_lt] at hc
    simp only [Option.some.injEq] at h
    exact ⟨by omega, by omega, by omega, h.symm⟩

theorem opSimple_of_range {t : DSetData} {i d : Nat} (hi : i ≤ t.dim) (h1 : 1 ≤ d) (h2 : d ≤ t.size) :
    t.opSimple i d = some (t.opU i d) := by
  unfold DSetData.opSimple
  split
  · rename_i hc
    simp only [Bool.or_eq_true, decide_eq_true_eq] at hc
    omega
  · rfl

theorem ofSym_valid (ds : DSymData) (hr : TableRange ds.dset) (hi : TableInvol ds.dset) :
    OpRange (ofSym ds) ∧ OpPos (ofSym ds) ∧ Complete (ofSym ds) (ofSym ds).dim ∧ Invol (ofSym ds) := by
  have hR : OpRange (ofSym ds) := by
    intro i x y h
    obtain ⟨h1, h2, h3, rfl⟩ := opSimple_some (t := ds.dset) h
    exact hr i x h1 h2 h3
  refine ⟨hR, fun i x y h => by have := hR i x y h; omega, ?_, ?_⟩
  · intro i hi' x hx1 hx2
    exact ⟨ds.dset.opU i x, opSimple_of_range (t := ds.dset) hi' hx1 hx2, hr i x hi' hx1 hx2⟩
  · intro i hi' x y hx1 hx2 h
    obtain ⟨_, _, _, rfl⟩ := opSimple_some (t := ds.dset) h
    have r := hr i x hi' hx1 hx2
    show ds.dset.opSimple i (ds.dset.opU i x) = some x
    rw [opSimple_of_range (t := ds.dset) hi' r.1 r.2, hi i x hi' hx1 hx2]

end DSymVerif.Mor

namespace DSymVerif.Mor

/-! ### two concrete views used for non-vacuity examples and the D3 documentation -/

/-- two chambers swapped by operation 0 and fixed by operations 1 and 2, all degrees 4 -/
def ex2 : MV :=
  { size := 2, dim := 2,
    op := fun i d => if i ≤ 2 ∧ 1 ≤ d ∧ d ≤ 2 then some (if i = 0 then 3 - d else d) else none,
    m := fun i d => if i < 2 ∧ 1 ≤ d ∧ d ≤ 2 then some 4 else none }

theorem ex2_opRange : OpRange ex2 := by
  intro i x y h
  simp only [ex2] at h ⊢
  split at h
  · simp only [Option.some.injEq] at h
    split at h <;> omega
  · cases h

theorem ex2_opPos : OpPos ex2 := fun i x y h => by have := ex2_opRange i x y h; omega

theorem ex2_complete : Complete ex2 ex2.dim := by
  intro i hi x hx1 hx2
  simp only [ex2] at hi hx2 ⊢
  refine ⟨if i = 0 then 3 - x else x, by simp [hi, hx1, hx2], ?_, ?_⟩ <;> split <;> omega

theorem ex2_invol : Invol ex2 := by
  intro i hi x y hx1 hx2 h
  simp only [ex2] at hi hx2 h ⊢
  simp only [hi, hx1, hx2, and_self, if_true, Option.some.injEq] at h
  subst h
  by_cases h0 : i = 0
  · simp only [h0, if_true]
    have : 1 ≤ 3 - x ∧ 3 - x ≤ 2 := by omega
    simp only [Nat.zero_le, this, and_self, if_true, Option.some.injEq]
    omega
  · simp [h0, hi, hx1, hx2]

theorem ex2_connected : Connected ex2 := by
  intro R h1 hcl d hd1 hd2
  simp only [ex2] at hd2
  have : d = 1 ∨ d = 2 := by omega
  rcases this with rfl | rfl
  · exact h1
  · exact hcl 1 0 2 (by decide) (by decide) (by decide) h1 (by decide)

theorem ex2_idMor : IsMor ex2 ex2 (fun d => d) :=
  ⟨fun _ _ _ => by simp [degreesMatch2],
   fun d _ _ i _ di ei h1 h2 => by rw [h1] at h2; cases h2; rfl⟩

/-- a table given by rows, 0 = undefined -/
def tab (rows : List (List Nat)) (i d : Nat) : Option Nat :=
  match rows[i]? with
  | some r =>
    match r[d]? with
    | some 0 => none
    | some x => some x
    | none => none
  | none => none

/-- the symbol of defect D3, `<1.1:8:1 2 3 4 7 8,2 5 6 7 8,3 4 5 6 7 8:4 3 3,6 4 3>`:
    the D-set has the symmetry 1↔2, 3↔4, 5↔6, 7↔8, but m12(7) = 4 ≠ 3 = m12(8) -/
def d3 : MV :=
  { size := 8, dim := 2,
    op := tab [[0, 1, 2, 3, 4, 7, 8, 5, 6], [0, 2, 1, 5, 6, 3, 4, 7, 8], [0, 3, 4, 1, 2, 5, 6, 7, 8]],
    m := tab [[0, 4, 4, 3, 3, 3, 3, 3, 3], [0, 6, 6, 6, 6, 6, 6, 4, 3]] }

end DSymVerif.Mor
