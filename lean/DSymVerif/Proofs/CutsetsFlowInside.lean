/-
Helper lemmas for property C19, part 7: the `inside` sets of all four entry points are
exactly the vertices reachable from the source once the cut is removed; wrappers for the
undirected entry points (totality, hygiene, minimality).
-/
import DSymVerif.Proofs.CutsetsFlowVertex

namespace DSymVerif.CutP
open DSymVerif.Cut DSymVerif.SpecC19

/-! ### walks stay inside closed sets -/

theorem walk_stays (H : List (Nat × Nat)) (S : Nat → Prop)
    (hclosed : ∀ e ∈ H, S e.1 → S e.2) :
    ∀ (p : List Nat) (a : Nat), p.head? = some a → S a → (∀ e ∈ walkEdges p, e ∈ H) →
      ∀ x ∈ p, S x
  | [], _, h, _, _, _, _ => by simp at h
  | [y], a, h, ha, _, x, hx => by
    simp at h hx; subst h; subst hx; exact ha
  | y :: z :: r, a, h, ha, hw, x, hx => by
    simp only [List.head?_cons, Option.some.injEq] at h
    subst h
    rcases List.mem_cons.1 hx with hx | hx
    · rw [hx]; exact ha
    · have hyz : (y, z) ∈ H := hw (y, z) (by rw [walkEdges_cons_cons]; exact List.mem_cons_self)
      exact walk_stays H S hclosed (z :: r) z rfl (hclosed _ hyz ha)
        (fun e he => hw e (by rw [walkEdges_cons_cons]; exact List.mem_cons_of_mem _ he)) x hx

/-! ### directed edge cut -/

/-- **inside_is_reachable** for the model of `min_edge_cut` -/
theorem minEdgeCut_inside_iff (input : List (Nat × Nat)) (s t : Nat) (r : EdgeCut)
    (h : minEdgeCut input s t = .ok r) (hst : s ≠ t) (v : Nat) :
    v ∈ r.inside ↔ ∃ p, IsWalk (removeEdges input r.cut) s v p :=
  ⟨minEdgeCut_inside_reachable input s t r h hst v,
   fun ⟨p, hp⟩ => minEdgeCut_inside_contains_reachable input s t r h v p hp⟩

/-- a walk from the source that avoids the cut never leaves `inside` -/
theorem minEdgeCut_walk_inside (input : List (Nat × Nat)) (s t : Nat) (r : EdgeCut)
    (h : minEdgeCut input s t = .ok r) (v : Nat) (p : List Nat)
    (hp : IsWalk (removeEdges input r.cut) s v p) : ∀ x ∈ p, x ∈ r.inside := by
  obtain ⟨_, hs, _⟩ := minEdgeCut_shape input s t r h
  refine walk_stays (removeEdges input r.cut) (· ∈ r.inside) ?_ p s hp.1 hs hp.2.2
  intro e he h1
  have := (mem_removeEdges input r.cut e).1 he
  exact minEdgeCut_inside_closed input s t r h e this.1 this.2 h1

/-! ### undirected edge cut -/

theorem mem_input' (input : List (Nat × Nat)) (e : Nat × Nat) :
    e ∈ edgeSet (symm input) ↔ e ∈ sym input := by
  rw [mem_edgeSet, mem_symm, mem_sym]

theorem minEdgeCutUndirected_inside_iff (input : List (Nat × Nat)) (s t : Nat) (r : EdgeCut)
    (h : minEdgeCutUndirected input s t = .ok r) (hst : s ≠ t) (v : Nat) :
    v ∈ r.inside ↔ ∃ p, IsWalk (removeEdgesU (sym input) r.cut) s v p := by
  have h' : minEdgeCut (edgeSet (symm input)) s t = .ok r := h
  obtain ⟨hcut, _, _⟩ := minEdgeCut_shape _ s t r h'
  rw [minEdgeCut_inside_iff _ s t r h' hst v]
  constructor
  · rintro ⟨p, hp⟩
    have hin := minEdgeCut_walk_inside _ s t r h' v p hp
    refine ⟨p, hp.mono ?_⟩
    intro e he heH
    have := (mem_removeEdges _ r.cut e).1 heH
    refine (mem_removeEdgesU _ r.cut e).2 ⟨(mem_input' input e).1 this.1, this.2, ?_⟩
    intro hsw
    rw [hcut, mem_leaving] at hsw
    exact hsw.2.2 (hin e.1 (mem_of_mem_walkEdges p e he).1)
  · rintro ⟨p, hp⟩
    refine ⟨p, hp.mono ?_⟩
    intro e _ heH
    have := (mem_removeEdgesU _ r.cut e).1 heH
    exact (mem_removeEdges _ r.cut e).2 ⟨(mem_input' input e).2 this.1, this.2.1⟩

theorem minEdgeCutUndirected_total (input : List (Nat × Nat)) (s t : Nat) :
    minEdgeCutUndirected input s t ≠ .err ∧
    ((∃ e ∈ input, e.1 = s ∨ e.2 = s) → ∃ r, minEdgeCutUndirected input s t = .ok r) := by
  have := minEdgeCut_total (edgeSet (symm input)) s t
  refine ⟨this.1, fun ⟨e, he, hes⟩ => this.2 ⟨e, ?_, hes⟩⟩
  exact (mem_input' input e).2 ((mem_sym input e).2 (Or.inl he))

/-! ### vertex cut -/

theorem minVertexCut_ne_err (input : List (Nat × Nat)) (s t : Nat) :
    minVertexCut input s t ≠ .err := by
  unfold minVertexCut
  simp only
  split
  · simp
  · rename_i herr; exact absurd herr (minEdgeCut_total _ _ _).1
  · simp

/-- **inside_is_reachable for the vertex cut**: the reported inside vertices together with the
    source are exactly the vertices reachable from the source once the cut vertices are
    removed. -/
theorem minVertexCut_inside_iff (input : List (Nat × Nat)) (s t : Nat) (r : VertexCut)
    (h : minVertexCut input s t = .ok r) (hst : s ≠ t)
    (htE : ∃ e ∈ input, e.1 = t ∨ e.2 = t) (hadj : (s, t) ∉ input) (v : Nat) :
    (v = s ∨ v ∈ r.inside) ↔ ∃ p, IsWalk (removeVertices input r.cut) s v p := by
  have hyg := minVertexCut_hygiene input s t r h hst htE hadj
  obtain ⟨ec, hec, hcutV, hinside⟩ := minVertexCut_unfold input s t r h
  have hsp := splitOK input
  have htlt := endpoint_lt_offset input t htE
  generalize hoffdef : offsetOf (natSet ((edgeSet input).flatMap fun e => [e.1, e.2])) = off
    at hec hsp htlt hinside
  generalize hVdef : natSet ((edgeSet input).flatMap fun e => [e.1, e.2]) = V at hec hsp
  have hne : s + off ≠ t := by omega
  obtain ⟨hcut, hsS, _⟩ := minEdgeCut_shape _ _ _ ec hec
  rw [← hcutV] at hinside
  have hmemin : ∀ x, x ∈ r.inside ↔ x ∈ ec.inside ∧ x < off ∧ x ∉ r.cut := by
    intro x; rw [hinside]; simp
  -- edges leaving `seen` are read back into the cut
  have hread1 : ∀ a b, (a, b) ∈ edgeSet input → a + off ∈ ec.inside → b ∉ ec.inside → b ∈ r.cut := by
    intro a b hab ha hb
    rw [hcutV]
    refine List.mem_map.2 ⟨(a + off, b), ?_, ?_⟩
    · rw [hcut, mem_leaving]
      exact ⟨(hsp.memE' _).2 (Or.inl ⟨(a, b), hab, rfl⟩), ha, hb⟩
    · have := hsp.ltV b (hsp.memV _ hab).2
      simp only; omega
  have hread2 : ∀ b, b ∈ V → b ∈ ec.inside → b + off ∉ ec.inside → b ∈ r.cut := by
    intro b hbV hb hbo
    rw [hcutV]
    refine List.mem_map.2 ⟨(b, b + off), ?_, ?_⟩
    · rw [hcut, mem_leaving]
      exact ⟨(hsp.memE' _).2 (Or.inr ⟨b, hbV, rfl⟩), hb, hbo⟩
    · simp only; omega
  constructor
  · -- inside ⊆ reachable: project a walk of the split graph
    rintro (hv | hv)
    · rw [hv]; exact ⟨[s], self_walk _ s⟩
    · obtain ⟨hvS, hvlt, hvcut⟩ := (hmemin v).1 hv
      obtain ⟨p', hp'⟩ := minEdgeCut_inside_reachable _ _ _ ec hec hne v hvS
      have hstay := minEdgeCut_walk_inside _ _ _ ec hec v p' hp'
      obtain ⟨h1, h2, h3⟩ := hp'
      cases p' with
      | nil => simp at h1
      | cons a' rest =>
        simp only [List.head?_cons, Option.some.injEq] at h1
        subst h1
        have h3' : ∀ e ∈ walkEdges ((s + off) :: rest), e ∈ edgeSet (splitEdges (edgeSet input) V off) :=
          fun e he => (mem_edgeSet e _).2 ((mem_removeEdges _ _ e).1 (h3 e he)).1
        obtain ⟨q, hq, hq4⟩ := hsp.project v hvlt rest s h2 h3'
        refine ⟨q, hq.1, hq.2.1, ?_⟩
        -- no vertex of q is a cut vertex
        have hqcut : ∀ x ∈ q, x ∉ r.cut := by
          intro x hx hxc
          cases q with
          | nil => simp at hx
          | cons a q' =>
            have : a = s := by simpa using hq.1
            subst this
            rcases List.mem_cons.1 hx with hx | hx
            · rw [hx] at hxc; exact hyg.2.1 hxc
            · by_cases hxv : x = v
              · rw [hxv] at hxc; exact hvcut hxc
              · have hedge := hq4 x (by simpa using hx) hxv
                have hxS : x ∈ ec.inside := hstay x (mem_of_mem_walkEdges _ _ hedge).1
                have hnotcut := ((mem_removeEdges _ _ _).1 (h3 _ hedge)).2
                rw [hcutV] at hxc
                obtain ⟨e, he, hmin⟩ := List.mem_map.1 hxc
                have he' := he
                rw [hcut, mem_leaving] at he'
                rcases (hsp.memE' e).1 he'.1 with ⟨f, hf, hef⟩ | ⟨c, hc, hec'⟩
                · have hflt := hsp.ltV f.2 (hsp.memV f hf).2
                  have : e.2 = x := by rw [hef] at hmin ⊢; simp only at hmin ⊢; omega
                  exact he'.2.2 (this ▸ hxS)
                · have : c = x := by rw [hec'] at hmin; simp only at hmin; omega
                  rw [hec', this] at he
                  exact hnotcut he
        intro e he
        have hm := mem_of_mem_walkEdges q e he
        exact (mem_removeVertices input r.cut e).2
          ⟨(mem_edgeSet e input).1 (hq.2.2 e he), hqcut _ hm.1, hqcut _ hm.2⟩
  · -- reachable ⊆ inside ∪ {s}: follow the walk through the split graph
    rintro ⟨p, hp⟩
    have key : ∀ (rest : List Nat) (a : Nat), a + off ∈ ec.inside →
        (∀ e ∈ walkEdges (a :: rest), e ∈ removeVertices input r.cut) →
        ∀ x ∈ rest, x ∈ r.inside := by
      intro rest
      induction rest with
      | nil => intro a _ _ x hx; simp at hx
      | cons b rest ih =>
        intro a ha hw x hx
        have hab := (mem_removeVertices input r.cut (a, b)).1
          (hw (a, b) (by rw [walkEdges_cons_cons]; exact List.mem_cons_self))
        have habE : (a, b) ∈ edgeSet input := (mem_edgeSet _ input).2 hab.1
        have hbV : b ∈ V := (hsp.memV _ habE).2
        have hbS : b ∈ ec.inside := by
          by_cases hb : b ∈ ec.inside
          · exact hb
          · exact absurd (hread1 a b habE ha hb) hab.2.2
        have hboS : b + off ∈ ec.inside := by
          by_cases hb : b + off ∈ ec.inside
          · exact hb
          · exact absurd (hread2 b hbV hbS hb) hab.2.2
        rcases List.mem_cons.1 hx with hx | hx
        · rw [hx]; exact (hmemin b).2 ⟨hbS, hsp.ltV b hbV, hab.2.2⟩
        · exact ih b hboS
            (fun e he => hw e (by rw [walkEdges_cons_cons]; exact List.mem_cons_of_mem _ he)) x hx
    obtain ⟨h1, h2, h3⟩ := hp
    cases p with
    | nil => simp at h1
    | cons a rest =>
      simp only [List.head?_cons, Option.some.injEq] at h1
      subst h1
      cases rest with
      | nil => simp at h2; exact Or.inl h2.symm
      | cons b rest' =>
        right
        have hvmem : v ∈ b :: rest' := by
          rw [List.getLast?_cons_cons] at h2
          exact List.mem_of_getLast? h2
        exact key (b :: rest') a hsS h3 v hvmem

/-! ### undirected vertex cut -/

theorem endpoint_input' (input : List (Nat × Nat)) (x : Nat)
    (hx : ∃ e ∈ input, e.1 = x ∨ e.2 = x) : ∃ e ∈ edgeSet (symm input), e.1 = x ∨ e.2 = x := by
  obtain ⟨e, he, hex⟩ := hx
  exact ⟨e, (mem_input' input e).2 ((mem_sym input e).2 (Or.inl he)), hex⟩

theorem not_adj_input' (input : List (Nat × Nat)) (s t : Nat) (h1 : (s, t) ∉ input)
    (h2 : (t, s) ∉ input) : (s, t) ∉ edgeSet (symm input) := by
  rw [mem_input', mem_sym]
  rintro (h | h)
  · exact h1 h
  · exact h2 h

theorem isWalk_input' {input : List (Nat × Nat)} {s t : Nat} {p : List Nat} :
    IsWalk (edgeSet (symm input)) s t p ↔ IsWalk (sym input) s t p :=
  ⟨fun h => h.mono (fun e _ he => (mem_input' input e).1 he),
   fun h => h.mono (fun e _ he => (mem_input' input e).2 he)⟩

theorem minVertexCutUndirected_hygiene (input : List (Nat × Nat)) (s t : Nat) (r : VertexCut)
    (h : minVertexCutUndirected input s t = .ok r) (hst : s ≠ t)
    (htE : ∃ e ∈ input, e.1 = t ∨ e.2 = t) (h1 : (s, t) ∉ input) (h2 : (t, s) ∉ input) :
    r.cut.Nodup ∧ s ∉ r.cut ∧ t ∉ r.cut :=
  minVertexCut_hygiene _ s t r h hst (endpoint_input' input t htE) (not_adj_input' input s t h1 h2)

theorem minVertexCutUndirected_minimum (input : List (Nat × Nat)) (s t : Nat) (r : VertexCut)
    (h : minVertexCutUndirected input s t = .ok r) (hst : s ≠ t)
    (htE : ∃ e ∈ input, e.1 = t ∨ e.2 = t)
    (C : List Nat) (hsC : s ∉ C) (htC : t ∉ C)
    (hsep : ∀ p, IsWalk (sym input) s t p → ∃ x ∈ p, x ∈ C) :
    r.cut.length ≤ C.length :=
  minVertexCut_minimum _ s t r h hst (endpoint_input' input t htE) C hsC htC
    (fun p hp => hsep p (isWalk_input'.1 hp))

theorem removeVertices_input' (input : List (Nat × Nat)) (C : List Nat) (e : Nat × Nat) :
    e ∈ removeVertices (edgeSet (symm input)) C ↔ e ∈ removeVertices (sym input) C := by
  rw [mem_removeVertices, mem_removeVertices, mem_input']

theorem minVertexCutUndirected_inside_iff (input : List (Nat × Nat)) (s t : Nat) (r : VertexCut)
    (h : minVertexCutUndirected input s t = .ok r) (hst : s ≠ t)
    (htE : ∃ e ∈ input, e.1 = t ∨ e.2 = t) (h1 : (s, t) ∉ input) (h2 : (t, s) ∉ input)
    (v : Nat) :
    (v = s ∨ v ∈ r.inside) ↔ ∃ p, IsWalk (removeVertices (sym input) r.cut) s v p := by
  rw [minVertexCut_inside_iff _ s t r h hst (endpoint_input' input t htE)
    (not_adj_input' input s t h1 h2) v]
  constructor
  · rintro ⟨p, hp⟩
    exact ⟨p, hp.mono (fun e _ he => (removeVertices_input' input r.cut e).1 he)⟩
  · rintro ⟨p, hp⟩
    exact ⟨p, hp.mono (fun e _ he => (removeVertices_input' input r.cut e).2 he)⟩

theorem minVertexCutUndirected_total (input : List (Nat × Nat)) (s t : Nat) :
    minVertexCutUndirected input s t ≠ .err ∧
    ((∃ e ∈ input, e.1 = s ∨ e.2 = s) → ∃ r, minVertexCutUndirected input s t = .ok r) :=
  ⟨minVertexCut_ne_err _ s t, fun hs => minVertexCut_total _ s t (endpoint_input' input s hs)⟩

end DSymVerif.CutP
