/-
Lemmas about the model of the D-set generator, part 2: `scan_single_direction`,
`scan_orbit` and the `set` that follows a reported gap of 1, on well-formed partial
D-sets (`ValidPartialSet` of `Proofs/DSetBasic.lean`).  Core Lean only.
-/
import DSymVerif.Proofs.DSetGen
import DSymVerif.Proofs.DSetBasic

namespace DSymVerif.DSG
open DSymVerif.DS

theorem idx_lt {s : DSetData} (hs : s.op.size = s.size * (s.dim + 1)) {i d : Nat}
    (hi : i ≤ s.dim) (h1 : 1 ≤ d) (h2 : d ≤ s.size) : s.idx i d < s.op.size := by
  unfold DSetData.idx
  rw [hs]
  have h3 : (d - 1 + 1) * (s.dim + 1) ≤ s.size * (s.dim + 1) :=
    Nat.mul_le_mul_right _ (by omega)
  rw [Nat.add_mul, Nat.one_mul] at h3
  omega

/-- on a well-formed table `op_unchecked` with in-range arguments cannot panic -/
theorem opC_valid {s : DSetData} (hv : ValidPartialSet s) {i d : Nat}
    (hi : i ≤ s.dim) (h1 : 1 ≤ d) (h2 : d ≤ s.size) : opC s i d = .ok (s.opU i d) :=
  opC_of_lt (by omega) (idx_lt hv.size_eq hi h1 h2)

/-- `scan_single_direction` on a well-formed partial D-set: it never panics, reports the
    number `k'` of steps taken, stays inside 1..size, and when it stopped before the end
    of the word the entry it stopped at is undefined -/
theorem scanSingle_spec {ds : DSetData} (hv : ValidPartialSet ds) :
    ∀ (w : List Nat) (e k : Nat), (∀ x, x ∈ w → x ≤ ds.dim) → 1 ≤ e → e ≤ ds.size →
    ∃ e' k', scanSingle ds w e k = .ok (e', k') ∧ k ≤ k' ∧ k' ≤ k + w.length ∧
      1 ≤ e' ∧ e' ≤ ds.size ∧
      (k' < k + w.length → ds.opU (w.getD (k' - k) 0) e' = 0) := by
  intro w
  induction w with
  | nil =>
    intro e k _ h1 h2
    exact ⟨e, k, rfl, Nat.le_refl _, by simp, h1, h2, by simp⟩
  | cons i w ih =>
    intro e k hw h1 h2
    have hi : i ≤ ds.dim := hw i (by simp)
    simp only [scanSingle, opC_valid hv hi h1 h2]
    by_cases hz : ds.opU i e = 0
    · refine ⟨e, k, by simp [hz], Nat.le_refl _, by omega, h1, h2, ?_⟩
      intro _
      simpa using hz
    · have hr := hv.range i e hi h1 h2
      obtain ⟨e', k', hs, hk1, hk2, he1, he2, hstop⟩ :=
        ih (ds.opU i e) (k + 1) (fun x hx => hw x (by simp [hx])) (by omega) hr
      refine ⟨e', k', by simp [hz, hs], by omega, by simp only [List.length_cons]; omega,
        he1, he2, ?_⟩
      intro hlt
      have : k' - k = (k' - (k + 1)) + 1 := by omega
      rw [this, List.getD_cons_succ]
      exact hstop (by simp only [List.length_cons] at hlt; omega)

/-- `scan_orbit` on a well-formed partial D-set with in-range arguments -/
theorem scanOrbit_spec {ds : DSetData} (hv : ValidPartialSet ds) {i j d : Nat}
    (hi : i ≤ ds.dim) (hj : j ≤ ds.dim) (h1 : 1 ≤ d) (h2 : d ≤ ds.size) :
    ∃ head tail a b,
      scanOrbit ds i j d = .ok (head, tail, 4 - a - b, if a % 2 = 0 then i else j) ∧
      scanSingle ds [i, j, i, j] d 0 = .ok (head, a) ∧
      scanSingle ds ([j, i, j, i].take (4 - a)) d 0 = .ok (tail, b) ∧
      a ≤ 4 ∧ b ≤ 4 - a ∧ 1 ≤ head ∧ head ≤ ds.size ∧ 1 ≤ tail ∧ tail ≤ ds.size ∧
      (a < 4 → ds.opU ([i, j, i, j].getD a 0) head = 0) ∧
      (b < 4 - a → ds.opU ([j, i, j, i].getD b 0) tail = 0) := by
  have hw1 : ∀ x, x ∈ [i, j, i, j] → x ≤ ds.dim := by
    intro x hx; simp at hx; rcases hx with rfl | rfl | rfl | rfl <;> assumption
  obtain ⟨head, a, hs1, _, ha, hh1, hh2, hstop1⟩ := scanSingle_spec hv [i, j, i, j] d 0 hw1 h1 h2
  have hw2 : ∀ x, x ∈ [j, i, j, i].take (4 - a) → x ≤ ds.dim := by
    intro x hx
    have := List.mem_of_mem_take hx
    simp at this; rcases this with rfl | rfl | rfl | rfl <;> assumption
  obtain ⟨tail, b, hs2, _, hb, ht1, ht2, hstop2⟩ :=
    scanSingle_spec hv ([j, i, j, i].take (4 - a)) d 0 hw2 h1 h2
  have hlen : ([j, i, j, i].take (4 - a)).length = 4 - a := by
    simp only [List.length_take, List.length_cons, List.length_nil]; omega
  simp only [List.length_cons, List.length_nil, Nat.zero_add] at ha
  rw [hlen, Nat.zero_add] at hb
  refine ⟨head, tail, a, b, ?_, hs1, hs2, ha, hb, hh1, hh2, ht1, ht2, ?_, ?_⟩
  · simp only [scanOrbit, hs1, hs2]
  · intro hlt
    have := hstop1 (by simpa using hlt)
    simpa using this
  · intro hlt
    have := hstop2 (by rw [hlen]; omega)
    simp only [Nat.sub_zero] at this
    have e : ([j, i, j, i].take (4 - a)).getD b 0 = [j, i, j, i].getD b 0 := by
      simp only [List.getD_eq_getElem?_getD, List.getElem?_take]
      rw [if_pos hlt]
    rw [← e]
    exact this

/-- `set(k, h, t)` on two undefined in-range entries passes every assert -/
theorem setC_of_free {ds : DSetData} (hv : ValidPartialSet ds) {k h t : Nat}
    (hk : k ≤ ds.dim) (hh1 : 1 ≤ h) (hh2 : h ≤ ds.size) (ht1 : 1 ≤ t) (ht2 : t ≤ ds.size)
    (z1 : ds.opU k h = 0) (z2 : ds.opU k t = 0) : ∃ ds', setC ds k h t = .ok ds' := by
  have hb1 := idx_lt hv.size_eq hk hh1 hh2
  have hb2 := idx_lt hv.size_eq hk ht1 ht2
  unfold setC
  rw [if_pos ⟨hb1, hb2⟩]
  unfold DSetData.set
  simp only [z1, z2]
  have c1 : (!decide (k ≤ ds.dim)) = false := by simp [hk]
  have c2 : (!(decide (1 ≤ h) && decide (h ≤ ds.size))) = false := by simp [hh1, hh2]
  have c3 : (!(decide (1 ≤ t) && decide (t ≤ ds.size))) = false := by simp [ht1, ht2]
  simp only [c1, c2, c3]
  simp

/-- **scan_orbit_gap1_free.**  On a well-formed partial D-set, with in-range arguments,
    `scan_orbit` does not panic; and when it reports gap = 1 then `head`, `tail` are
    chambers, `k ∈ {i, j}` is an index, the entry `(k, head)` is undefined and so is
    `(k, tail)` — hence the `dset.set(k, head, tail)` that `check_and_apply_implications`
    performs next passes all five asserts and both `Vec` index checks. -/
theorem scanOrbit_gap1 {ds : DSetData} (hv : ValidPartialSet ds) {i j d : Nat}
    (hi : i ≤ ds.dim) (hj : j ≤ ds.dim) (h1 : 1 ≤ d) (h2 : d ≤ ds.size) :
    ∃ head tail gap k, scanOrbit ds i j d = .ok (head, tail, gap, k) ∧
      (k = i ∨ k = j) ∧ 1 ≤ head ∧ head ≤ ds.size ∧ 1 ≤ tail ∧ tail ≤ ds.size ∧
      (gap = 1 → ds.opU k head = 0 ∧ ds.opU k tail = 0 ∧
        ∃ ds', setC ds k head tail = .ok ds') := by
  obtain ⟨head, tail, a, b, hs, _, _, ha, hb, hh1, hh2, ht1, ht2, hstop1, hstop2⟩ :=
    scanOrbit_spec hv hi hj h1 h2
  refine ⟨head, tail, 4 - a - b, if a % 2 = 0 then i else j, hs, ?_, hh1, hh2, ht1, ht2, ?_⟩
  · split
    · exact Or.inl rfl
    · exact Or.inr rfl
  · intro hgap
    have hk : (if a % 2 = 0 then i else j) ≤ ds.dim := by split <;> assumption
    have hab : a = 0 ∧ b = 3 ∨ a = 1 ∧ b = 2 ∨ a = 2 ∧ b = 1 ∨ a = 3 ∧ b = 0 := by omega
    have hhead : ds.opU (if a % 2 = 0 then i else j) head = 0 := by
      rcases hab with ⟨rfl, rfl⟩ | ⟨rfl, rfl⟩ | ⟨rfl, rfl⟩ | ⟨rfl, rfl⟩ <;>
        simpa using hstop1 (by omega)
    have htail : ds.opU (if a % 2 = 0 then i else j) tail = 0 := by
      rcases hab with ⟨rfl, rfl⟩ | ⟨rfl, rfl⟩ | ⟨rfl, rfl⟩ | ⟨rfl, rfl⟩ <;>
        simpa using hstop2 (by omega)
    refine ⟨hhead, htail, ?_⟩
    exact setC_of_free hv hk hh1 hh2 ht1 ht2 hhead htail

end DSymVerif.DSG
