/-
Kernel evaluation of the syntax check of `Proofs/EuclidicityTable.lean` over the GENERATED
table `Tables.euclideanInvariants`, in index chunks (the conversion of a string literal to its
character list is slow in the kernel; one call over all 235 tokens takes over a minute).
-/
import DSymVerif.Proofs.EuclidicityTable
import DSymVerif.Generated.Tables
import Mathlib.Data.List.Dedup

namespace DSymVerif.Euc.Tab
open DSymVerif

/-- tokens of the comment lines `# Dup: <entry>` and `### Processed 219 symbols in 36 seconds.`,
    `### Found 7 duplicates.`: the Rust parser drops only the tokens that START with `#` -/
def strayTokens : List String :=
  ["Dup:", "Processed", "219", "symbols", "in", "36", "seconds.", "Found", "7", "duplicates."]

def okAt (i : Nat) : Bool :=
  let s := Tables.euclideanInvariants.getD i ""
  wellFormed s || strayTokens.contains s

theorem table_length : Tables.euclideanInvariants.length = 235 := by decide +kernel

theorem chunk0 : ((List.range' 0 40).all okAt) = true := by decide +kernel
theorem chunk1 : ((List.range' 40 40).all okAt) = true := by decide +kernel
theorem chunk2 : ((List.range' 80 30).all okAt) = true := by decide +kernel
theorem chunk3 : ((List.range' 110 25).all okAt) = true := by decide +kernel
theorem chunk4 : ((List.range' 135 20).all okAt) = true := by decide +kernel
theorem chunk5 : ((List.range' 155 20).all okAt) = true := by decide +kernel
theorem chunk6 : ((List.range' 175 15).all okAt) = true := by decide +kernel
theorem chunk7 : ((List.range' 190 15).all okAt) = true := by decide +kernel
theorem chunk8 : ((List.range' 205 15).all okAt) = true := by decide +kernel
theorem chunk9 : ((List.range' 220 15).all okAt) = true := by decide +kernel

theorem stray_not_wellFormed : ∀ s ∈ strayTokens, wellFormed s = false := by decide +kernel

theorem stray_in_table : ∀ s ∈ strayTokens, s ∈ Tables.euclideanInvariants := by decide +kernel

theorem stray_nodup : strayTokens.Nodup := by decide

theorem dedup_length : Tables.euclideanInvariants.dedup.length = 222 := by decide +kernel

theorem stray_counts :
    Tables.euclideanInvariants.count "Dup:" = 7 ∧
    (strayTokens.drop 1).all (fun s => Tables.euclideanInvariants.count s == 1) = true := by
  decide +kernel

end DSymVerif.Euc.Tab
