/-
Property C15: `cover_leastPeriod_flat` for an arbitrary pair of indices `i < j` (Proofs/Delaney3dBranch.lean
proves the adjacent case; the argument is the same), and its consequence for the far pairs:
a cover built from a regular cone-flattening table has branching number 1 on EVERY index pair.
-/
import DSymVerif.Proofs.Delaney3dBranch

namespace DSymVerif.D3
open DSymVerif DSymVerif.DS DSymVerif.Cosets DSymVerif.SpecC11 DSymVerif.CosetP DSymVerif.FWP
  DSymVerif.CoversP DSymVerif.FGP DSymVerif.FG DSymVerif.SpecC10

section
variable {oc : DSymData} (hs : ValidSym oc) (hdim : 1 ≤ oc.dim) {fg : FundGroup}
  (hfg : fundamentalGroup oc = .ok fg) {t : Tab} (hv : Valid t fg.nrGenerators fg.relators [])


include hs hdim hfg hv in
/-- **the orbit length of the cover is `r·v` of the base**, for ANY pair of indices `i < j` -/
theorem cover_leastPeriod_flat_pair (hsz : 1 ≤ oc.size)
    (hreg : Regular t fg.nrGenerators fg.relators)
    (hflat : flattensAll fg.nrGenerators t fg.cones = .ok true)
    {c : DSetData}
    (hop : ∀ i d, i ≤ oc.dim → 1 ≤ d → d ≤ t.size * oc.size →
      c.opU i d = coverF oc.dset (Covers.sheetMap (tableData (tbl fg.nrGenerators t)) fg.edgeToWord) i d)
    {i j d : Nat} (hij : i < j) (hj' : j ≤ oc.dim) (hd1 : 1 ≤ d) (hd2 : d ≤ t.size * oc.size)
    (hpos : 1 ≤ orbR oc i j (cproj oc.size d) * orbV oc i j (cproj oc.size d)) :
    IsLeastPeriod c i j d
      (orbR oc i j (cproj oc.size d) * orbV oc i j (cproj oc.size d)) := by
  have hσ := sheetMap_agrees hs hdim hfg hv
  have hi' : i ≤ oc.dim := by omega
  have hp := cproj_range (d := d) hsz
  have hk := csheet_lt hsz hd1 hd2
  have hdec : oc.size * csheet oc.size d + cproj oc.size d = d := cdecomp hsz hd1
  generalize hb : cproj oc.size d = b at hp hdec hpos ⊢
  generalize hkk : csheet oc.size d = k at hk hdec
  set R := orbR oc i j b with hR
  set V := orbV oc i j b with hV
  obtain ⟨hR1, hperR⟩ := orbR_period hs hi' hj' hp.1 hp.2
  refine ⟨hpos, ?_, ?_⟩
  · have := cover_period hσ hs.set hop hs hsz (show i ≠ j by omega) hi' hj' hd1 hd2
    rw [hb] at this
    exact this
  · intro p hp1 hp2 hper
    -- the walk of the cover after 2p crossings
    have hwalk := cover_walk hσ hs.set hop hi' hj' hp.1 hp.2 ⟨k, hk⟩ (2 * p)
    have hev := wk_even (fun i e => c.opU i e) i j p (oc.size * k + b)
    have hper' : (fun e => c.opU j (c.opU i e))^[p] (oc.size * k + b) = oc.size * k + b := by
      rw [hdec]; exact hper
    rw [hev, hper'] at hwalk
    have hrange := wk_range hs.set hp.1 hp.2 (2 * p) i j
    obtain ⟨_, hbase⟩ := cmk_inj (s := oc.dset) hsz hp.1 hp.2 hrange.1 hrange.2 hwalk
    -- p is a period of b, hence a multiple of R
    have hbper : IsPeriod oc.dset i j p b := by
      show (oc.dset.comp i j)^[p] b = b
      rw [← wk_opT_even hs.set hi' hj' hp.1 hp.2]
      exact hbase.symm
    obtain ⟨q, hq⟩ := IsLeastPeriod.dvd (orbR_spec hs hi' hj' hp.1 hp.2).2 hbper
    rw [← hR] at hq
    have hq1 : 1 ≤ q := by
      rcases Nat.eq_zero_or_pos q with h0 | h0
      · subst h0; omega
      · exact h0
    have hq2 : q < V := by
      rw [hq] at hp2
      exact Nat.lt_of_mul_lt_mul_left hp2
    -- the holonomy to the power q fixes the sheet k
    have hround := cover_rounds hσ hs.set hop hi' hj' hp.1 hp.2 hperR ⟨k, hk⟩ q
    rw [← hq] at hround
    rw [hev, hper'] at hround
    obtain ⟨hsheet, _⟩ := cmk_inj (s := oc.dset) hsz hp.1 hp.2 hp.1 hp.2 hround
    set W := Wf (opT oc) (xT oc) i j (2 * R) b with hW
    have hfix : ((rhoT hs hdim hfg hv W)⁻¹ ^ q) ⟨k, hk⟩ = ⟨k, hk⟩ := Fin.ext hsheet.symm
    -- regular: the permutation is trivial
    have hone : (rhoT hs hdim hfg hv W) ^ q = 1 := by
      have himg : (rhoT hs hdim hfg hv W)⁻¹ ^ q = rhoM hv (presIso hs hdim hfg (W⁻¹ ^ q)) := by
        have hrho : rhoT hs hdim hfg hv W = rhoM hv (presIso hs hdim hfg W) := rfl
        rw [map_pow, map_inv, map_pow, map_inv, hrho]
      rw [himg] at hfix
      have := hreg hv _ ⟨k, hk⟩ hfix
      rw [← himg, inv_pow, inv_eq_one] at this
      exact this
    -- transport along the orbit to the cone word
    let val' : Nat → Nat → Equiv.Perm (Fin t.size) := fun c a => rhoT hs hdim hfg hv (xT oc c a)
    have hpair' : ∀ a c, val' (opT oc a c) a = (val' c a)⁻¹ := by
      intro a c
      show rhoT hs hdim hfg hv (xT oc (opT oc a c) a) = (rhoT hs hdim hfg hv (xT oc c a))⁻¹
      rw [xT_pair, map_inv]
    have hOW : ∀ a b c, OW oc val' a b c = rhoT hs hdim hfg hv (OW oc (xT oc) a b c) := by
      intro a b c
      unfold OW
      exact (map_Wf (op := opT oc) (val := xT oc) (rhoT hs hdim hfg hv) _ a b c).symm
    have hb1 : OW oc val' i j b ^ q = 1 := by
      rw [hOW]; exact hone
    obtain ⟨d0, hd0m, hd0orb⟩ := (D2.orbitReps2d_ok hs.set hi' hj').cover b hp.1 hp.2
    have hd0r := (D2.orbitReps2d_ok hs.set hi' hj').range d0 hd0m
    have hd0 : OW oc val' i j d0 ^ q = 1 :=
      (OW_orbit hs hpair' hi' hj' hd0r.1 hd0r.2 hd0orb q).mp hb1
    have hdir := hs.set.range i d0 hi' hd0r.1 hd0r.2
    have hdi : OW oc val' i j (oc.dset.opU i d0) ^ q = 1 :=
      (OW_orbit hs hpair' hi' hj' hd0r.1 hd0r.2 (Orb2.stepI (Orb2.refl d0)) q).mpr hd0
    have hswap : OW oc val' j i (oc.dset.opU i d0) ^ q = 1 := by
      rw [OW_swap hs hpair' hi' hj' hdir.1 hdir.2, inv_pow, hdi, inv_one]
    -- the traced word of the representative
    obtain ⟨word, hword⟩ := traceWord_ok hs.set fg.edgeToWord hdir.1 hdir.2 (some j) (some i)
      (fun j hj => by cases hj; exact hj') (fun j hj => by cases hj; exact hi')
    have hwordperm : rhoM hv (PresentedGroup.mk _ (den word)) ^ q = 1 := by
      rw [← rhoT_OW_word hs hdim hfg hv hj' hi' hdir.1 hdir.2 hword, ← hOW]
      exact hswap
    have hred := traceWord_isReduced oc fg.edgeToWord _ _ _ word hword
    have hrel : rhoM hv (PresentedGroup.mk _ (den (FW.relatorRepresentative word))) ^ q = 1 :=
      (hom_relRep_pow_eq_one ((rhoM hv).comp (PresentedGroup.mk _)) hred q).mpr hwordperm
    -- the cone of the orbit
    have hV0 : orbV oc i j d0 = V := by
      rw [hV]; exact (orbV_orbit hs hi' hj' hd0r.1 hd0r.2 hd0orb).symm
    have hvp : oc.vPartial i j d0 = .ok (some V) := by
      obtain ⟨b', hb'⟩ := hs.vPartial_some hi' hj' hd0r.1 hd0r.2
      have h2 : orbV oc i j d0 = b' := by unfold orbV; rw [hb']
      rw [hb', ← h2, hV0]
    have hcone : (FW.relatorRepresentative word, V) ∈ fg.cones := by
      apply (C09.cones_are_traced_words oc fg hfg _).mpr
      exact ⟨i, j, d0, word, V, Nat.le_of_lt hij, hj', hd0m,
        ⟨oc.dset.opU i d0, op_eq_opU hi' hd0r.1 hd0r.2, hword, hvp⟩, by omega, rfl⟩
    have hdeg := flattensAll_mem hflat _ hcone
    have hletters : ∀ g ∈ FW.relatorRepresentative word, g ∈ letters fg.nrGenerators := by
      intro g hg
      rw [← allGensOf_eq_letters]
      exact (fundamentalGroup_letters oc fg hfg).2.1 _ hcone g hg
    exact degree_min_perm hv _ hletters hdeg q hq1 hq2 hrel

end

end DSymVerif.D3
