/-
Property C05: small concrete witnesses used by the non-vacuity examples of Props/C05.lean
(kept out of the Props file so that only property theorems are counted there).
-/
import DSymVerif.Proofs.CoversTable

namespace DSymVerif.C05W
open DSymVerif.DS DSymVerif.Covers

/-- one chamber, dimension 1, both operations fix it -/
def ex1 : DSetData := { size := 1, dim := 1, op := #[1, 1] }

theorem ex1_valid : ValidSet ex1 := by
  refine ⟨by decide, ?_, ?_⟩
  · intro i d hi h1 h2
    have hi' : i ≤ 1 := hi
    have h2' : d ≤ 1 := h2
    have : (i = 0 ∨ i = 1) ∧ d = 1 := by omega
    rcases this with ⟨rfl | rfl, rfl⟩ <;> decide
  · intro i d hi h1 h2
    have hi' : i ≤ 1 := hi
    have h2' : d ≤ 1 := h2
    have : (i = 0 ∨ i = 1) ∧ d = 1 := by omega
    rcases this with ⟨rfl | rfl, rfl⟩ <;> decide

/-- the symbol on `ex1` as `PartialDSym::from` builds it -/
def sym1 : DSymData := DSymData.ofSimple ex1

theorem sym1_valid : ValidTables sym1 := ValidTables.ofSimple ex1_valid

/-- two sheets exchanged across every edge -/
def swap2 : Nat → Nat → Nat → Nat := fun k _ _ => k ^^^ 1

theorem swap2_compat : SheetCompat sym1.dset 2 swap2 :=
  ⟨fun _ _ _ hk _ _ _ => (xor_one_lt_two hk).1, fun _ _ _ hk _ _ _ => (xor_one_lt_two hk).2⟩

end DSymVerif.C05W
