/-
Metamorphic invariances of the result, from the main statement:
the Spec's list depends only on `n` and the determinantal divisors of the relation matrix, and
these depend only on the row lattice (left) and are unchanged by signed permutations of the
columns (right).
-/
import DSymVerif.Proofs.InvariantsMain

namespace DSymVerif.Inv
open DSymVerif.SpecC14 Matrix

/-! ### the Spec's list is a function of `n` and the determinantal divisors -/

theorem detDivisor_zero_of_gt (a : Mat) (n k : ℕ) (hk : min a.length n < k) : detDivisor a n k = 0 := by
  unfold detDivisor minors
  have hempty : ∀ N, N < k → subsets k (List.range N) = [] := by
    intro N hN
    apply List.eq_nil_iff_forall_not_mem.mpr
    intro l hl
    rw [mem_subsets] at hl
    have := hl.1.length_le
    simp at this
    omega
  by_cases h1 : a.length < k
  · rw [hempty _ h1]; rfl
  · have h2 : n < k := by omega
    rw [hempty _ h2]
    rw [List.flatMap_eq_nil_iff.mpr (by intro _ _; rfl)]
    rfl

theorem rankFrom_congr (a a' : Mat) (n : ℕ) (h : ∀ k, detDivisor a n k = detDivisor a' n k)
    (F t : ℕ) : rankFrom a n F t = rankFrom a' n F t := by
  induction F generalizing t with
  | zero => rfl
  | succ F ih => unfold rankFrom; rw [h t, ih (t + 1)]

theorem rankFrom_extra (a : Mat) (n F t : ℕ) (hz : ∀ k, t + F ≤ k → detDivisor a n k = 0) (G : ℕ) :
    rankFrom a n (F + G) t = rankFrom a n F t := by
  induction F generalizing t with
  | zero =>
    cases G with
    | zero => rfl
    | succ G =>
      rw [Nat.zero_add]
      unfold rankFrom
      rw [if_neg (by rw [hz t (by omega)]; exact fun h => h rfl)]
  | succ F ih =>
    rw [show F + 1 + G = (F + G) + 1 by omega]
    unfold rankFrom
    rw [ih (t + 1) (fun k hk => hz k (by omega))]

theorem rank_congr (a a' : Mat) (n : ℕ) (h : ∀ k, detDivisor a n k = detDivisor a' n k) :
    rank a n = rank a' n := by
  unfold rank
  have e1 := rankFrom_extra a n (min a.length n) 1
    (fun k hk => detDivisor_zero_of_gt a n k (by omega)) (min a'.length n)
  have e2 := rankFrom_extra a' n (min a'.length n) 1
    (fun k hk => detDivisor_zero_of_gt a' n k (by omega)) (min a.length n)
  rw [← e1, ← e2, Nat.add_comm, rankFrom_congr a a' n h]

theorem expectedOfMatrix_congr (a a' : Mat) (n : ℕ)
    (h : ∀ k, detDivisor a n k = detDivisor a' n k) : expectedOfMatrix a n = expectedOfMatrix a' n := by
  unfold expectedOfMatrix invariantFactors
  rw [rank_congr a a' n h]
  simp only [h]

/-! ### the row lattice -/

theorem get_relMatrix (n : ℕ) (rels : List (List ℤ)) (i c : ℕ) (hi : i < rels.length) (hc : c < n) :
    get (relMatrix n rels) i c = expSum c rels[i] := by
  unfold get relMatrix expVec
  simp [List.getD_eq_getElem?_getD, List.getElem?_map, List.getElem?_eq_getElem hi,
    List.getElem?_range hc]

/-- the exponent-sum vector of `w` is an integer combination of those of `rels` -/
def InLat (n : ℕ) (rels : List (List ℤ)) (w : List ℤ) : Prop :=
  ∃ coeffs : Fin rels.length → ℤ, ∀ k, k < n → expSum k w = ∑ i, coeffs i * expSum k rels[i]

theorem inLat_mem (n : ℕ) (rels : List (List ℤ)) (w : List ℤ) (hw : w ∈ rels) : InLat n rels w := by
  obtain ⟨i, hi, rfl⟩ := List.mem_iff_getElem.mp hw
  refine ⟨fun j => if j = ⟨i, hi⟩ then 1 else 0, ?_⟩
  intro k _
  simp [Finset.sum_ite_eq']

theorem inLat_of_neg (n : ℕ) (rels : List (List ℤ)) (w w' : List ℤ) (h : InLat n rels w)
    (he : ∀ k, expSum k w' = - expSum k w) : InLat n rels w' := by
  obtain ⟨c, hc⟩ := h
  refine ⟨fun i => - c i, ?_⟩
  intro k hk
  rw [he k, hc k hk]
  simp [Finset.sum_neg_distrib]

theorem inLat_congr (n : ℕ) (rels : List (List ℤ)) (w w' : List ℤ) (h : InLat n rels w)
    (he : ∀ k, expSum k w' = expSum k w) : InLat n rels w' := by
  obtain ⟨c, hc⟩ := h
  exact ⟨c, fun k hk => by rw [he k, hc k hk]⟩

theorem inLat_add (n : ℕ) (rels : List (List ℤ)) (a b w' : List ℤ) (ha : InLat n rels a)
    (hb : InLat n rels b) (he : ∀ k, expSum k w' = expSum k a + expSum k b) : InLat n rels w' := by
  obtain ⟨c, hc⟩ := ha
  obtain ⟨d, hd⟩ := hb
  refine ⟨fun i => c i + d i, ?_⟩
  intro k hk
  rw [he k, hc k hk, hd k hk, ← Finset.sum_add_distrib]
  apply Finset.sum_congr rfl
  intro i _; ring

theorem inLat_nil (n : ℕ) (rels : List (List ℤ)) : InLat n rels [] :=
  ⟨fun _ => 0, fun k _ => by simp [expSum_nil]⟩

theorem inLat_trans (n : ℕ) (rels R : List (List ℤ)) (w : List ℤ)
    (hR : ∀ u ∈ rels, InLat n R u) (h : InLat n rels w) : InLat n R w := by
  obtain ⟨c, hc⟩ := h
  have : ∀ i : Fin rels.length, ∃ d : Fin R.length → ℤ,
      ∀ k, k < n → expSum k rels[i] = ∑ j, d j * expSum k R[j] :=
    fun i => hR _ (List.getElem_mem i.isLt)
  choose d hd using this
  refine ⟨fun j => ∑ i, c i * d i j, ?_⟩
  intro k hk
  rw [hc k hk]
  simp only [Finset.sum_mul]
  rw [Finset.sum_comm]
  apply Finset.sum_congr rfl
  intro i _
  rw [hd i k hk, Finset.mul_sum]
  apply Finset.sum_congr rfl
  intro j _; ring

/-- every row of `rels'` lies in the lattice spanned by the rows of `rels` -/
def RowsIn (n : ℕ) (rels rels' : List (List ℤ)) : Prop := ∀ w' ∈ rels', InLat n rels w'

theorem dk_dvd_of_rowsIn (n : ℕ) (rels rels' : List (List ℤ)) (h : RowsIn n rels rels') (k : ℕ) :
    dk (toMatrix (relMatrix n rels) rels.length n) k ∣
      dk (toMatrix (relMatrix n rels') rels'.length n) k := by
  have : ∀ i' : Fin rels'.length, ∃ c : Fin rels.length → ℤ,
      ∀ k, k < n → expSum k rels'[i'] = ∑ i, c i * expSum k rels[i] :=
    fun i' => h _ (List.getElem_mem i'.isLt)
  choose W hW using this
  have e : toMatrix (relMatrix n rels') rels'.length n
      = (Matrix.of W) * toMatrix (relMatrix n rels) rels.length n := by
    ext i' c
    simp only [toMatrix, Matrix.mul_apply, Matrix.of_apply]
    rw [get_relMatrix n rels' i'.val c.val i'.isLt c.isLt]
    refine (hW i' c.val c.isLt).trans ?_
    apply Finset.sum_congr rfl
    intro i _
    rw [get_relMatrix n rels i.val c.val i.isLt c.isLt]
    rfl
  rw [e]
  exact dk_dvd_mul_left _ _ _

/-- presentations whose relation matrices have the same row lattice get the same Spec list -/
theorem expected_eq_of_same_lattice (n : ℕ) (rels rels' : List (List ℤ))
    (h1 : RowsIn n rels rels') (h2 : RowsIn n rels' rels) : expected n rels' = expected n rels := by
  unfold expected
  apply expectedOfMatrix_congr
  intro k
  rw [detDivisor_eq_dk _ rels'.length n k (relMatrix_rect n rels'),
    detDivisor_eq_dk _ rels.length n k (relMatrix_rect n rels)]
  exact Nat.dvd_antisymm (dk_dvd_of_rowsIn n rels' rels h2 k) (dk_dvd_of_rowsIn n rels rels' h1 k)

/-- … and the same result -/
theorem abelianInvariants_same_lattice (n : ℕ) (rels rels' : List (List ℤ))
    (hin : ∀ w ∈ rels, ∀ g ∈ w, InRange n g) (hin' : ∀ w ∈ rels', ∀ g ∈ w, InRange n g)
    (h1 : RowsIn n rels rels') (h2 : RowsIn n rels' rels) :
    abelianInvariants n rels' = abelianInvariants n rels := by
  rw [abelianInvariants_eq_expected n rels hin, abelianInvariants_eq_expected n rels' hin',
    expected_eq_of_same_lattice n rels rels' h1 h2]

/-! ### the clauses of the property on relators -/

/-- products of existing relators and their inverses -/
inductive RelProd (rels : List (List ℤ)) : List ℤ → Prop
  | mem (w) : w ∈ rels → RelProd rels w
  | one : RelProd rels FW.empty
  | mul (a b) : RelProd rels a → RelProd rels b → RelProd rels (FW.mul a b)
  | inv (a) : RelProd rels a → RelProd rels (FW.inverse a)

theorem RelProd.inLat (n : ℕ) (rels : List (List ℤ)) (w : List ℤ) (h : RelProd rels w) :
    InLat n rels w := by
  induction h with
  | mem w hw => exact inLat_mem n rels w hw
  | one => exact inLat_nil n rels
  | mul a b _ _ iha ihb => exact inLat_add n rels a b _ iha ihb (fun k => expSum_mul k a b)
  | inv a _ iha => exact inLat_of_neg n rels a _ iha (fun k => expSum_inverse k a)

theorem rowsIn_reorder (n : ℕ) (rels rels' : List (List ℤ)) (h : rels'.Perm rels) :
    RowsIn n rels rels' ∧ RowsIn n rels' rels :=
  ⟨fun w' hw' => inLat_mem n rels w' (h.mem_iff.mp hw'),
   fun w hw => inLat_mem n rels' w (h.mem_iff.mpr hw)⟩

theorem rowsIn_invert (n : ℕ) (rels rels' : List (List ℤ))
    (h : List.Forall₂ (fun w w' => w' = w ∨ w' = FW.inverse w) rels rels') :
    RowsIn n rels rels' ∧ RowsIn n rels' rels := by
  induction h with
  | nil => exact ⟨fun _ h => by simp at h, fun _ h => by simp at h⟩
  | @cons w w' ws ws' hw _ ih =>
    obtain ⟨ih1, ih2⟩ := ih
    have up1 : ∀ u, InLat n ws u → InLat n (w :: ws) u := fun u hu =>
      inLat_trans n ws (w :: ws) u (fun v hv => inLat_mem n _ v (List.mem_cons_of_mem _ hv)) hu
    have up2 : ∀ u, InLat n ws' u → InLat n (w' :: ws') u := fun u hu =>
      inLat_trans n ws' (w' :: ws') u (fun v hv => inLat_mem n _ v (List.mem_cons_of_mem _ hv)) hu
    constructor
    · intro u hu
      rcases List.mem_cons.mp hu with rfl | hu
      · rcases hw with rfl | rfl
        · exact inLat_mem n _ _ List.mem_cons_self
        · exact inLat_of_neg n _ w _ (inLat_mem n _ _ List.mem_cons_self) (fun k => expSum_inverse k w)
      · exact up1 u (ih1 u hu)
    · intro u hu
      rcases List.mem_cons.mp hu with rfl | hu
      · rcases hw with rfl | rfl
        · exact inLat_mem n _ _ List.mem_cons_self
        · exact inLat_of_neg n _ (FW.inverse u) _ (inLat_mem n _ _ List.mem_cons_self)
            (fun k => by rw [expSum_inverse]; ring)
      · exact up2 u (ih2 u hu)

theorem rowsIn_append (n : ℕ) (rels extra : List (List ℤ)) (h : ∀ u ∈ extra, RelProd rels u) :
    RowsIn n rels (rels ++ extra) ∧ RowsIn n (rels ++ extra) rels := by
  constructor
  · intro u hu
    rcases List.mem_append.mp hu with hu | hu
    · exact inLat_mem n rels u hu
    · exact (h u hu).inLat n rels u
  · intro u hu
    exact inLat_mem n _ u (List.mem_append_left _ hu)

/-! ### renaming and inverting generators: signed permutations of the columns -/

/-- generator `k+1` becomes `π k + 1`, inverted when `flip k`; letters outside `±1…±n` are kept -/
def renameLetter {n : ℕ} (π : Equiv.Perm (Fin n)) (flip : Fin n → Bool) (g : ℤ) : ℤ :=
  if h : g ≠ 0 ∧ g.natAbs ≤ n then
    (if (decide (g < 0)) != flip ⟨g.natAbs - 1, by omega⟩ then -1 else 1) *
      (((π ⟨g.natAbs - 1, by omega⟩).val : ℤ) + 1)
  else g

def renameWord {n : ℕ} (π : Equiv.Perm (Fin n)) (flip : Fin n → Bool) (w : List ℤ) : List ℤ :=
  w.map (renameLetter π flip)

theorem renameLetter_inRange {n : ℕ} (π : Equiv.Perm (Fin n)) (flip : Fin n → Bool) (g : ℤ)
    (hg : InRange n g) : InRange n (renameLetter π flip g) := by
  have hg' : g ≠ 0 ∧ g.natAbs ≤ n := hg
  unfold renameLetter
  rw [dif_pos hg']
  have := (π ⟨g.natAbs - 1, by omega⟩).isLt
  unfold InRange
  split <;> constructor <;> omega

theorem lv_rename_arith (k kg m mg : ℕ) (g : ℤ) (fk fkg : Bool) (hg : g ≠ 0)
    (hkg : kg = g.natAbs - 1) (hinj : kg = k ↔ mg = m) (hf : kg = k → fkg = fk) :
    lv m ((if (decide (g < 0)) != fkg then -1 else 1) * ((mg : ℤ) + 1))
      = (if fk then -1 else 1) * lv k g := by
  unfold lv
  by_cases hk : kg = k
  · have hm := hinj.mp hk
    have hff := hf hk
    subst hff
    by_cases hneg : g < 0 <;> cases fkg <;> simp [hneg] <;> split_ifs <;> omega
  · have hm : ¬ mg = m := fun h => hk (hinj.mpr h)
    by_cases hneg : g < 0 <;> cases fkg <;> cases fk <;> simp [hneg] <;> split_ifs <;> omega

theorem expSum_renameWord {n : ℕ} (π : Equiv.Perm (Fin n)) (flip : Fin n → Bool) (w : List ℤ)
    (hw : ∀ g ∈ w, InRange n g) (k : Fin n) :
    expSum (π k).val (renameWord π flip w) = (if flip k then -1 else 1) * expSum k.val w := by
  induction w with
  | nil => simp [renameWord, expSum_nil]
  | cons g w ih =>
    have hg := hw g List.mem_cons_self
    have ih' := ih (fun x hx => hw x (List.mem_cons_of_mem _ hx))
    unfold renameWord at ih' ⊢
    rw [List.map_cons, expSum_cons, expSum_cons, ih']
    have : lv (π k).val (renameLetter π flip g) = (if flip k then -1 else 1) * lv k.val g := by
      have hg' : g ≠ 0 ∧ g.natAbs ≤ n := hg
      unfold renameLetter
      rw [dif_pos hg']
      apply lv_rename_arith k.val (g.natAbs - 1) (π k).val _ g (flip k) _ hg.1 rfl
      · constructor
        · intro h
          have : (⟨g.natAbs - 1, by omega⟩ : Fin n) = k := Fin.ext h
          rw [this]
        · intro h
          have := π.injective (Fin.ext h)
          exact congrArg Fin.val this
      · intro h
        have : (⟨g.natAbs - 1, by omega⟩ : Fin n) = k := Fin.ext h
        rw [this]
    rw [this]; ring

/-- the signed permutation matrix of a renaming -/
def renameMatrix {n : ℕ} (π : Equiv.Perm (Fin n)) (flip : Fin n → Bool) : Matrix (Fin n) (Fin n) ℤ :=
  fun k c => if π k = c then (if flip k then -1 else 1) else 0

theorem renameMatrix_isUnit {n : ℕ} (π : Equiv.Perm (Fin n)) (flip : Fin n → Bool) :
    IsUnit (renameMatrix π flip) := by
  apply isUnit_of_left_inv _ (renameMatrix π flip)ᵀ
  ext c c'
  simp only [Matrix.mul_apply, Matrix.transpose_apply, renameMatrix, Matrix.one_apply]
  rw [Finset.sum_eq_single (π.symm c)]
  · simp only [Equiv.apply_symm_apply, if_true]
    by_cases hcc : c = c'
    · subst hcc; simp only [if_true]; cases flip (π.symm c) <;> simp
    · simp [hcc]
  · intro k _ hk
    have : ¬ π k = c := fun h => hk (by rw [← h]; simp)
    simp [this]
  · intro h; exact absurd (Finset.mem_univ _) h

theorem relMatrix_rename {n : ℕ} (π : Equiv.Perm (Fin n)) (flip : Fin n → Bool)
    (rels : List (List ℤ)) (hin : ∀ w ∈ rels, ∀ g ∈ w, InRange n g) :
    toMatrix (relMatrix n (rels.map (renameWord π flip))) rels.length n
      = toMatrix (relMatrix n rels) rels.length n * renameMatrix π flip := by
  ext i c
  simp only [toMatrix, Matrix.mul_apply, renameMatrix]
  have hi' : i.val < (rels.map (renameWord π flip)).length := by simp
  rw [get_relMatrix n _ i.val c.val hi' c.isLt, Finset.sum_eq_single (π.symm c)]
  · simp only [Equiv.apply_symm_apply, if_true]
    rw [get_relMatrix n rels i.val _ i.isLt (π.symm c).isLt]
    have := expSum_renameWord π flip rels[i.val] (hin _ (List.getElem_mem i.isLt)) (π.symm c)
    rw [Equiv.apply_symm_apply] at this
    simp only [List.getElem_map]
    rw [this]; ring
  · intro k _ hk
    have : ¬ π k = c := fun h => hk (by rw [← h]; simp)
    simp [this]
  · intro h; exact absurd (Finset.mem_univ _) h

/-- renaming / inverting generators does not change the Spec list -/
theorem expected_rename {n : ℕ} (π : Equiv.Perm (Fin n)) (flip : Fin n → Bool)
    (rels : List (List ℤ)) (hin : ∀ w ∈ rels, ∀ g ∈ w, InRange n g) :
    expected n (rels.map (renameWord π flip)) = expected n rels := by
  unfold expected
  apply expectedOfMatrix_congr
  intro k
  have hR' : Rect (relMatrix n (rels.map (renameWord π flip))) rels.length n := by
    have := relMatrix_rect n (rels.map (renameWord π flip))
    rwa [List.length_map] at this
  rw [detDivisor_eq_dk _ rels.length n k hR', detDivisor_eq_dk _ rels.length n k (relMatrix_rect n rels),
    relMatrix_rename π flip rels hin, dk_mul_unit _ _ (renameMatrix_isUnit π flip)]

theorem rename_inRange {n : ℕ} (π : Equiv.Perm (Fin n)) (flip : Fin n → Bool)
    (rels : List (List ℤ)) (hin : ∀ w ∈ rels, ∀ g ∈ w, InRange n g) :
    ∀ w ∈ rels.map (renameWord π flip), ∀ g ∈ w, InRange n g := by
  intro w hw g hg
  obtain ⟨w0, hw0, rfl⟩ := List.mem_map.mp hw
  unfold renameWord at hg
  obtain ⟨g0, hg0, rfl⟩ := List.mem_map.mp hg
  exact renameLetter_inRange π flip g0 (hin w0 hw0 g0 hg0)

theorem abelianInvariants_rename {n : ℕ} (π : Equiv.Perm (Fin n)) (flip : Fin n → Bool)
    (rels : List (List ℤ)) (hin : ∀ w ∈ rels, ∀ g ∈ w, InRange n g) :
    abelianInvariants n (rels.map (renameWord π flip)) = abelianInvariants n rels := by
  rw [abelianInvariants_eq_expected n rels hin,
    abelianInvariants_eq_expected n _ (rename_inRange π flip rels hin),
    expected_rename π flip rels hin]

end DSymVerif.Inv
