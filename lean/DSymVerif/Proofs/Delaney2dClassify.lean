/-
Helper lemmas for property C08, part 7: the classification of the 2-orbifolds of positive Euler
characteristic — every symbol with χ > 0 that is not bad (tear-drop, spindle, `*p`, `*pq`) is,
up to the order of cones and corners, in the good-spherical list.
-/
import Mathlib.Data.List.Sort
import Mathlib.Tactic.IntervalCases
import Mathlib.Algebra.BigOperators.Group.List.Basic
import DSymVerif.Proofs.Delaney2dChi

namespace DSymVerif.SpecC08

theorem dq_one : dq 1 = 0 := by simp [dq]

theorem dq_ge_half (v : Nat) (h : 2 ≤ v) : (1 : ℚ) / 2 ≤ dq v := by
  unfold dq
  have hv : (2 : ℚ) ≤ (v : ℚ) := by exact_mod_cast h
  have : (1 : ℚ) / (v : ℚ) ≤ 1 / 2 := one_div_le_one_div_of_le (by norm_num) hv
  linarith

theorem inv_le_of_le (a b : Nat) (ha : 1 ≤ a) (h : a ≤ b) : (1 : ℚ) / (b : ℚ) ≤ 1 / (a : ℚ) := by
  have ha' : (0 : ℚ) < (a : ℚ) := by exact_mod_cast ha
  have hab : (a : ℚ) ≤ (b : ℚ) := by exact_mod_cast h
  exact one_div_le_one_div_of_le ha' hab

theorem proper_ge (l : List Nat) : ∀ v ∈ proper l, 2 ≤ v := by
  intro v hv
  simp only [proper, List.mem_filter, decide_eq_true_eq] at hv
  omega

theorem sum_proper (l : List Nat) (h : ∀ v ∈ l, 1 ≤ v) : (l.map dq).sum = ((proper l).map dq).sum := by
  induction l with
  | nil => rfl
  | cons a l ih =>
    have ha := h a (by simp)
    have ih' := ih (fun v hv => h v (by simp [hv]))
    by_cases h1 : a > 1
    · have : proper (a :: l) = a :: proper l := by simp [proper, h1]
      rw [this]; simp only [List.map_cons, List.sum_cons]; rw [ih']
    · have e : a = 1 := by omega
      have : proper (a :: l) = proper l := by simp [proper, h1]
      rw [this]; simp only [List.map_cons, List.sum_cons]; rw [ih', e, dq_one]; ring

theorem sum_ge_half_len (l : List Nat) (h : ∀ v ∈ l, 2 ≤ v) : (l.length : ℚ) / 2 ≤ (l.map dq).sum := by
  induction l with
  | nil => simp
  | cons a l ih =>
    have := dq_ge_half a (h a (by simp))
    have := ih (fun v hv => h v (by simp [hv]))
    simp only [List.map_cons, List.sum_cons, List.length_cons]
    push_cast
    linarith

/-- a list of three numbers is a permutation of a descending triple -/
theorem exists_sorted3 (L : List Nat) (h : L.length = 3) :
    ∃ x y z, L.Perm [x, y, z] ∧ y ≤ x ∧ z ≤ y := by
  have hp := List.perm_insertionSort (· ≥ ·) L
  have hs := List.pairwise_insertionSort (· ≥ ·) L
  have hl := List.length_insertionSort (· ≥ ·) L
  rw [h] at hl
  match hS : L.insertionSort (· ≥ ·), hl with
  | [x, y, z], _ =>
    rw [hS] at hp hs
    refine ⟨x, y, z, hp.symm, ?_, ?_⟩
    · simp only [List.pairwise_cons, List.mem_cons, List.not_mem_nil, or_false, forall_eq_or_imp,
        forall_eq] at hs
      exact hs.1.1
    · simp only [List.pairwise_cons, List.mem_cons, List.not_mem_nil, or_false, forall_eq_or_imp,
        forall_eq] at hs
      exact hs.2.1

/-- the spherical triples: 1/x + 1/y + 1/z > 1 with x ≥ y ≥ z ≥ 2 -/
theorem triple_cases (x y z : Nat) (hz : 2 ≤ z) (hyz : z ≤ y) (hxy : y ≤ x)
    (h : dq x + dq y + dq z < 2) :
    (y = 2 ∧ z = 2) ∨ (z = 2 ∧ y = 3 ∧ (x = 3 ∨ x = 4 ∨ x = 5)) := by
  unfold dq at h
  have hz2 : z = 2 := by
    by_contra hne
    have h3 : 3 ≤ z := by omega
    have a := inv_le_of_le 3 z (by omega) h3
    have b := inv_le_of_le 3 y (by omega) (by omega)
    have c := inv_le_of_le 3 x (by omega) (by omega)
    simp only [one_div] at a b c h
    norm_num at a b c
    linarith
  subst hz2
  have hy3 : y ≤ 3 := by
    by_contra hne
    have b := inv_le_of_le 4 y (by omega) (by omega)
    have c := inv_le_of_le 4 x (by omega) (by omega)
    simp only [one_div] at b c h
    norm_num at b c h
    linarith
  have hy : y = 2 ∨ y = 3 := by omega
  rcases hy with rfl | rfl
  · exact Or.inl ⟨rfl, rfl⟩
  · right
    refine ⟨rfl, rfl, ?_⟩
    have hx6 : x < 6 := by
      by_contra hne
      have c := inv_le_of_le 6 x (by omega) (by omega)
      simp only [one_div] at c h
      norm_num at c h
      linarith
    omega


/-- the spherical (good) 2-orbifolds: `1`, `*`, `x`, `nn`, `*nn`, `n*`, `nx`, `22n`, `*22n`,
    `2*n` (n ≥ 1) and `332`, `*332`, `3*2`, `432`, `*432`, `532`, `*532` -/
inductive GoodSpherical : Orb → Prop
  | sphere : GoodSpherical ⟨[], [], 0, 0⟩
  | disc : GoodSpherical ⟨[], [[]], 0, 0⟩
  | projective : GoodSpherical ⟨[], [], 0, 1⟩
  | nn (n : Nat) : 1 ≤ n → GoodSpherical ⟨[n, n], [], 0, 0⟩
  | star_nn (n : Nat) : 1 ≤ n → GoodSpherical ⟨[], [[n, n]], 0, 0⟩
  | n_star (n : Nat) : 1 ≤ n → GoodSpherical ⟨[n], [[]], 0, 0⟩
  | n_x (n : Nat) : 1 ≤ n → GoodSpherical ⟨[n], [], 0, 1⟩
  | d22n (n : Nat) : 1 ≤ n → GoodSpherical ⟨[2, 2, n], [], 0, 0⟩
  | star_22n (n : Nat) : 1 ≤ n → GoodSpherical ⟨[], [[2, 2, n]], 0, 0⟩
  | d2_star_n (n : Nat) : 1 ≤ n → GoodSpherical ⟨[2], [[n]], 0, 0⟩
  | t332 : GoodSpherical ⟨[3, 3, 2], [], 0, 0⟩
  | star_332 : GoodSpherical ⟨[], [[3, 3, 2]], 0, 0⟩
  | t3_star_2 : GoodSpherical ⟨[3], [[2]], 0, 0⟩
  | o432 : GoodSpherical ⟨[4, 3, 2], [], 0, 0⟩
  | star_432 : GoodSpherical ⟨[], [[4, 3, 2]], 0, 0⟩
  | i532 : GoodSpherical ⟨[5, 3, 2], [], 0, 0⟩
  | star_532 : GoodSpherical ⟨[], [[5, 3, 2]], 0, 0⟩

/-- the same orbifold up to the order of cones and of the corners on each boundary component
    (orders 1 dropped) -/
def SameUpToOrder (o g : Orb) : Prop :=
  (proper o.cones).Perm (proper g.cones) ∧
  List.Forall₂ (fun c c' => (proper c).Perm (proper c')) o.bnds g.bnds ∧
  o.handles = g.handles ∧ o.caps = g.caps

/-- singular points on a sphere (or corners on a disc) with total defect < 2 that are not
    "one, or two of different order" -/
theorem sphere_lists (Q : List Nat) (hQ : ∀ v ∈ Q, 2 ≤ v) (hsum : (Q.map dq).sum < 2)
    (hnb : oneOrTwoDifferent Q = false) :
    Q = [] ∨ (∃ n, 2 ≤ n ∧ Q = [n, n]) ∨ (∃ n, 2 ≤ n ∧ Q.Perm [2, 2, n]) ∨
    Q.Perm [3, 3, 2] ∨ Q.Perm [4, 3, 2] ∨ Q.Perm [5, 3, 2] := by
  have hlen := sum_ge_half_len Q hQ
  have hl4 : Q.length < 4 := by
    have : (Q.length : ℚ) < 4 := by linarith
    exact_mod_cast this
  match Q, hQ, hsum, hnb, hl4 with
  | [], _, _, _, _ => exact Or.inl rfl
  | [a], _, _, hnb, _ => simp [oneOrTwoDifferent] at hnb
  | [a, b], hQ, _, hnb, _ =>
    have : a = b := by simpa [oneOrTwoDifferent] using hnb
    subst this
    exact Or.inr (Or.inl ⟨a, hQ a (by simp), rfl⟩)
  | [a, b, c], hQ, hsum, _, _ =>
    obtain ⟨x, y, z, hp, hxy, hyz⟩ := exists_sorted3 [a, b, c] rfl
    have hmem : ∀ v, v ∈ [x, y, z] → 2 ≤ v := fun v hv => hQ v (hp.mem_iff.2 hv)
    have hsum' : dq x + dq y + dq z < 2 := by
      have := (hp.map dq).sum_eq
      rw [this] at hsum
      simpa [add_assoc] using hsum
    rcases triple_cases x y z (hmem z (by simp)) hyz hxy hsum' with ⟨rfl, rfl⟩ | ⟨rfl, rfl, rfl | rfl | rfl⟩
    · refine Or.inr (Or.inr (Or.inl ⟨x, hmem x (by simp), hp.trans ?_⟩))
      exact (List.perm_append_comm (l₁ := [x]) (l₂ := [2, 2]))
    · exact Or.inr (Or.inr (Or.inr (Or.inl hp)))
    · exact Or.inr (Or.inr (Or.inr (Or.inr (Or.inl hp))))
    · exact Or.inr (Or.inr (Or.inr (Or.inr (Or.inr hp))))
  | _ :: _ :: _ :: _ :: _, _, _, _, hl4 => simp at hl4; omega

theorem proper_of_ge (l : List Nat) (h : ∀ v ∈ l, 2 ≤ v) : proper l = l := by
  unfold proper
  rw [List.filter_eq_self]
  intro v hv
  have := h v hv
  simp only [decide_eq_true_eq]; omega

theorem chi_closed (cones : List Nat) (caps : Nat) (h : ∀ v ∈ cones, 1 ≤ v) :
    chiQ ⟨cones, [], 0, caps⟩ = 2 - ((proper cones).map dq).sum - (caps : ℚ) := by
  simp [chiQ, sum_proper cones h]

theorem chi_disc (cones c : List Nat) (h : ∀ v ∈ cones, 1 ≤ v) (hc : ∀ v ∈ c, 1 ≤ v) :
    chiQ ⟨cones, [c], 0, 0⟩ = 1 - ((proper cones).map dq).sum - ((proper c).map dq).sum / 2 := by
  simp [chiQ, sum_proper cones h, sum_proper c hc]
  ring

/-- **classification of the spherical 2-orbifolds**: a symbol with χ > 0 that is not bad is, up to
    the order of its cones and corners, one of the good-spherical list -/
theorem spherical_classification (o : Orb) (h : o.WF) (hpos : 0 < chiQ o) (hb : bad o = false) :
    ∃ g, GoodSpherical g ∧ SameUpToOrder o g := by
  obtain ⟨hh, hbc⟩ := chi_pos_shape o h hpos
  obtain ⟨cones, bnds, handles, caps⟩ := o
  simp only at hh hbc
  subst hh
  have hP := proper_ge cones
  cases bnds with
  | nil =>
    simp only [List.length_nil, Nat.zero_add] at hbc
    rw [chi_closed cones caps h.1] at hpos
    rcases Nat.le_one_iff_eq_zero_or_eq_one.mp hbc with rfl | rfl
    · -- sphere with cones
      have hb' : oneOrTwoDifferent (proper cones) = false := by simpa [bad] using hb
      have hsum : ((proper cones).map dq).sum < 2 := by push_cast at hpos; linarith
      rcases sphere_lists (proper cones) hP hsum hb' with e | ⟨n, hn, e⟩ | ⟨n, hn, e⟩ | e | e | e
      · exact ⟨_, .sphere, by rw [e]; exact List.Perm.refl _, List.Forall₂.nil, rfl, rfl⟩
      · refine ⟨_, .nn n (by omega), ?_, List.Forall₂.nil, rfl, rfl⟩
        show (proper cones).Perm (proper [n, n])
        rw [e, proper_of_ge [n, n] (by simp; omega)]
      · refine ⟨_, .d22n n (by omega), ?_, List.Forall₂.nil, rfl, rfl⟩
        show (proper cones).Perm (proper [2, 2, n])
        rw [proper_of_ge [2, 2, n] (by simp; omega)]; exact e
      · exact ⟨_, .t332, e, List.Forall₂.nil, rfl, rfl⟩
      · exact ⟨_, .o432, e, List.Forall₂.nil, rfl, rfl⟩
      · exact ⟨_, .i532, e, List.Forall₂.nil, rfl, rfl⟩
    · -- projective plane with cones
      have hlen := sum_ge_half_len (proper cones) hP
      have hl : (proper cones).length < 2 := by
        have : ((proper cones).length : ℚ) < 2 := by push_cast at hpos; linarith
        exact_mod_cast this
      match hc : proper cones, hl with
      | [], _ => exact ⟨_, .projective, by rw [hc]; exact List.Perm.refl _, List.Forall₂.nil, rfl, rfl⟩
      | [n], _ =>
        have hn : 2 ≤ n := hP n (by rw [hc]; simp)
        refine ⟨_, .n_x n (by omega), ?_, List.Forall₂.nil, rfl, rfl⟩
        show (proper cones).Perm (proper [n])
        rw [hc, proper_of_ge [n] (by simp; omega)]
      | _ :: _ :: _, hl => simp at hl; omega
  | cons c bs =>
    have hbs : bs = [] := by
      cases bs with
      | nil => rfl
      | cons _ _ => simp at hbc; omega
    have hcaps : caps = 0 := by simp at hbc; omega
    subst hbs; subst hcaps
    have hQ := proper_ge c
    rw [chi_disc cones c h.1 (h.2 c (by simp))] at hpos
    have hlenP := sum_ge_half_len (proper cones) hP
    have hlenQ := sum_ge_half_len (proper c) hQ
    have hnonnegQ : 0 ≤ ((proper c).map dq).sum := by
      have : (0 : ℚ) ≤ ((proper c).length : ℚ) / 2 := by positivity
      linarith
    have hlP : (proper cones).length < 2 := by
      have : ((proper cones).length : ℚ) < 2 := by linarith
      exact_mod_cast this
    have one : ∀ (c' : List Nat), (proper c).Perm (proper c') →
        List.Forall₂ (fun c c' => (proper c).Perm (proper c')) [c] [c'] :=
      fun c' hp => List.Forall₂.cons hp List.Forall₂.nil
    match hc : proper cones, hlP with
    | [], _ =>
      rw [hc] at hpos
      have hb' : oneOrTwoDifferent (proper c) = false := by simpa [bad, hc] using hb
      have hsum : ((proper c).map dq).sum < 2 := by simp at hpos; linarith
      rcases sphere_lists (proper c) hQ hsum hb' with e | ⟨n, hn, e⟩ | ⟨n, hn, e⟩ | e | e | e
      · exact ⟨_, .disc, by rw [hc]; exact List.Perm.refl _, one [] (by rw [e]; exact List.Perm.refl _), rfl, rfl⟩
      · exact ⟨_, .star_nn n (by omega), by rw [hc]; exact List.Perm.refl _,
          one [n, n] (by rw [e, proper_of_ge [n, n] (by simp; omega)]), rfl, rfl⟩
      · exact ⟨_, .star_22n n (by omega), by rw [hc]; exact List.Perm.refl _,
          one [2, 2, n] (by rw [proper_of_ge [2, 2, n] (by simp; omega)]; exact e), rfl, rfl⟩
      · exact ⟨_, .star_332, by rw [hc]; exact List.Perm.refl _, one [3, 3, 2] e, rfl, rfl⟩
      · exact ⟨_, .star_432, by rw [hc]; exact List.Perm.refl _, one [4, 3, 2] e, rfl, rfl⟩
      · exact ⟨_, .star_532, by rw [hc]; exact List.Perm.refl _, one [5, 3, 2] e, rfl, rfl⟩
    | [p], _ =>
      rw [hc] at hpos
      have hp : 2 ≤ p := hP p (by rw [hc]; simp)
      have hdp := dq_ge_half p hp
      simp only [List.map_cons, List.map_nil, List.sum_cons, List.sum_nil, add_zero] at hpos
      have hlQ : (proper c).length < 2 := by
        have : ((proper c).length : ℚ) < 2 := by linarith
        exact_mod_cast this
      have conesPerm : ∀ k, 2 ≤ k → p = k → (proper cones).Perm (proper [k]) := by
        intro k hk e
        rw [hc, e, proper_of_ge [k] (by simp; omega)]
      match hq : proper c, hlQ with
      | [], _ =>
        exact ⟨_, .n_star p (by omega), conesPerm p hp rfl, one [] (by rw [hq]; exact List.Perm.refl _), rfl, rfl⟩
      | [q], _ =>
        rw [hq] at hpos
        have hq2 : 2 ≤ q := hQ q (by rw [hq]; simp)
        simp only [List.map_cons, List.map_nil, List.sum_cons, List.sum_nil, add_zero] at hpos
        unfold dq at hpos
        by_cases hp2 : p = 2
        · subst hp2
          exact ⟨_, .d2_star_n q (by omega), conesPerm 2 (by omega) rfl,
            one [q] (by rw [hq, proper_of_ge [q] (by simp; omega)]), rfl, rfl⟩
        · have hp3 : 3 ≤ p := by omega
          have a := inv_le_of_le 3 p (by omega) hp3
          have hq' : q = 2 := by
            by_contra hne
            have b := inv_le_of_le 3 q (by omega) (by omega)
            simp only [one_div] at a b hpos
            norm_num at a b
            linarith
          subst hq'
          have hp' : p = 3 := by
            by_contra hne
            have b := inv_le_of_le 4 p (by omega) (by omega)
            simp only [one_div] at b hpos
            norm_num at b hpos
            linarith
          subst hp'
          exact ⟨_, .t3_star_2, conesPerm 3 (by omega) rfl,
            one [2] (by rw [hq]; exact List.Perm.refl _), rfl, rfl⟩
      | _ :: _ :: _, hl => simp at hl; omega
    | _ :: _ :: _, hl => simp at hl; omega

end DSymVerif.SpecC08
