/-
C12, group-theoretic reading, part 3: the yielded tables represent the conjugacy classes of
subgroups of index at most `k`, each exactly once.
-/
import DSymVerif.Proofs.LowIndexSubgroup

namespace DSymVerif.CanonP
open DSymVerif DSymVerif.Cosets DSymVerif.SpecC11 DSymVerif.SpecC12 DSymVerif.CosetP DSymVerif.RebaseP
open DSymVerif.CosetSoundP DSymVerif.CosetInvP DSymVerif.LowIndexP

/-- **C12 in group-theoretic terms, for the model**: the stabilisers of row 0 of the tables
    yielded by the model of `coset_tables(n, rels, k)` are a system of representatives of the
    conjugacy classes of subgroups of index at most `k` of `⟨1..n | rels⟩` (Mathlib's
    `PresentedGroup`): each item is a valid table whose stabiliser has index = number of rows
    `≤ max k 1`; the stabilisers of two items at different positions are not conjugate; every
    subgroup of index `1..k` is conjugate to the stabiliser of an item -/
theorem cosetTables_subgroup_classes (n : Nat) (rels : List (List Int)) (k fuel : Nat)
    (hlet : ∀ w ∈ rels, ∀ x ∈ w, x ∈ allGensOf n)
    (hf : (BT.dfs (btProblem n (expandedRelatorSet rels) k) (height k) (.ok (Table.new n))).length ≤ fuel) :
    (∀ x ∈ cosetTables n rels k fuel, ∃ (t' : Table) (v : List (List Int)) (hv : Valid (viewTab v) n rels []),
      x = .ok t' ∧ t'.view = .ok v ∧ (stab0 hv).index = (viewTab v).size ∧ (viewTab v).size ≤ max k 1) ∧
    (cosetTables n rels k fuel).Pairwise (fun x y => ∀ (t1 t2 : Table) (v1 v2 : List (List Int))
      (hv1 : Valid (viewTab v1) n rels []) (hv2 : Valid (viewTab v2) n rels []),
      x = .ok t1 → y = .ok t2 → t1.view = .ok v1 → t2.view = .ok v2 →
      ¬ SubConj (stab0 hv1) (stab0 hv2)) ∧
    (∀ H : Subgroup (G n rels), H.index ≠ 0 → H.index ≤ k →
      ∃ (t' : Table) (v : List (List Int)) (hv : Valid (viewTab v) n rels []),
        (Outcome.ok t') ∈ cosetTables n rels k fuel ∧ t'.view = .ok v ∧ SubConj H (stab0 hv)) := by
  obtain ⟨p1, p2, p3⟩ := cosetTables_complete_irredundant_all n rels k fuel hlet hf
  refine ⟨?_, ?_, ?_⟩
  · intro x hx
    obtain ⟨t', v, e, hview, hval, hsz⟩ := p1 x hx
    have hv := valid_of_validTable hval
    exact ⟨t', v, hv, e, hview, index_stab0 hv, hsz⟩
  · refine p2.imp ?_
    intro x y hno t1 t2 v1 v2 hv1 hv2 e1 e2 h1 h2 hconj
    exact hno t1 t2 v1 v2 e1 e2 h1 h2 (iso_of_stab_conj hv1 hv2 hconj)
  · intro H hj hk
    obtain ⟨A, hvA, hsz, hst⟩ := table_of_subgroup hlet H hj
    obtain ⟨t', v, σ, hmem, hview, iso⟩ := p3 A (validTable_of_valid hvA) (by rw [hsz]; exact hk)
    obtain ⟨t1, v1, e, hview1, hval, _⟩ := p1 _ hmem
    injection e with e
    subst e
    rw [hview] at hview1
    injection hview1 with hview1
    subst hview1
    have hv := valid_of_validTable hval
    refine ⟨t', v, hv, hmem, hview, ?_⟩
    have := stab_conj_of_iso iso hvA hv
    rw [hst] at this
    exact this

end DSymVerif.CanonP
