/-
Property C05, part 18: a representation of the textbook group `TGroup ds` gives, through the C09
isomorphism with the returned presentation, a representation of the presented group
`G n rels = ⟨1..n | relators⟩` in the encoding of C11/C12 (free group on `Fin n`).
-/
import DSymVerif.Proofs.CoversRhoC
import DSymVerif.Proofs.CoversTableOfAction

namespace DSymVerif.CoversP
open DSymVerif DSymVerif.DS DSymVerif.FG DSymVerif.FGP DSymVerif.FWP DSymVerif.Cosets DSymVerif.SpecC11
open DSymVerif.CosetP DSymVerif.CosetSoundP

section
variable {ds : DSymData} (hs : ValidSym ds) (hdim : 1 ≤ ds.dim) {f : FundGroup}
  (hf : fundamentalGroup ds = .ok f) {j : Nat} (ρ : TGroup ds →* Equiv.Perm (Fin j))

/-- the element of the textbook group of a word over the returned generators -/
noncomputable def tword (w : List Int) : TGroup ds :=
  (presIso hs hdim hf).symm (PresentedGroup.mk _ (den w))

theorem tword_append (a b : List Int) : tword hs hdim hf (a ++ b) = tword hs hdim hf a * tword hs hdim hf b := by
  unfold tword
  rw [den_append, map_mul, map_mul]

/-- images of the generators `Fin n` -/
noncomputable def genP (i : Fin f.nrGenerators) : Equiv.Perm (Fin j) :=
  ρ (tword hs hdim hf [((i.val + 1 : Nat) : Int)])

theorem lift_genP_letter {g : Int} (hg : g ∈ allGensOf f.nrGenerators) :
    FreeGroup.lift (genP hs hdim hf ρ) (letterElt f.nrGenerators g) = ρ (tword hs hdim hf [g]) := by
  rw [LowIndexP.mem_allGensOf] at hg
  unfold letterElt
  by_cases h1 : 1 ≤ g ∧ g ≤ f.nrGenerators
  · rw [dif_pos h1, FreeGroup.lift_apply_of]
    unfold genP
    congr 3
    show (((g.toNat - 1 + 1 : Nat)) : Int) = g
    omega
  · have h2 : 1 ≤ -g ∧ -g ≤ f.nrGenerators := by omega
    rw [dif_neg h1, dif_pos h2, map_inv, FreeGroup.lift_apply_of]
    unfold genP
    have e : ((((-g).toNat - 1 + 1 : Nat)) : Int) = -g := by omega
    show (ρ (tword hs hdim hf [((((-g).toNat - 1 + 1 : Nat)) : Int)]))⁻¹ = _
    rw [e, ← map_inv]
    congr 1
    unfold tword
    rw [← map_inv, ← map_inv]
    congr 2
    have hm : ∃ m : ℕ, 0 < m ∧ g = -(m : Int) := ⟨(-g).toNat, by omega, by omega⟩
    obtain ⟨m, hm0, rfl⟩ := hm
    rw [neg_neg, den_pos m hm0, den_neg m hm0]

theorem lift_genP_word : ∀ (w : List Int), (∀ x ∈ w, x ∈ allGensOf f.nrGenerators) →
    FreeGroup.lift (genP hs hdim hf ρ) (wordElt f.nrGenerators w) = ρ (tword hs hdim hf w)
  | [], _ => by
    rw [wordElt_nil, map_one]
    unfold tword
    rw [den_nil, map_one, map_one, map_one]
  | g :: w, h => by
    have : g :: w = [g] ++ w := rfl
    rw [wordElt_cons, map_mul, lift_genP_letter hs hdim hf ρ (h g (List.mem_cons_self ..)),
      lift_genP_word w (fun x hx => h x (List.mem_cons_of_mem _ hx)), this, tword_append, map_mul]

theorem genP_rel : ∀ r ∈ relSet f.nrGenerators f.relators, FreeGroup.lift (genP hs hdim hf ρ) r = 1 := by
  rintro _ ⟨w, hw, rfl⟩
  have hlet := (fundamentalGroup_letters ds f hf).1
  rw [lift_genP_word hs hdim hf ρ w (hlet w hw)]
  unfold tword
  have : (PresentedGroup.mk (MRel f.nrGenerators f.relators) (den w)) = 1 :=
    PresentedGroup.one_of_mem (Or.inl ⟨w, hw, rfl⟩)
  rw [this, map_one, map_one]

/-- the representation of `⟨1..n | relators⟩` in the C11 encoding -/
noncomputable def actG : G f.nrGenerators f.relators →* Equiv.Perm (Fin j) :=
  PresentedGroup.toGroup (genP_rel hs hdim hf ρ)

theorem actG_wbar (w : List Int) (hw : ∀ x ∈ w, x ∈ allGensOf f.nrGenerators) :
    actG hs hdim hf ρ (wbar f.nrGenerators f.relators w) = ρ (tword hs hdim hf w) := by
  unfold actG wbar
  show FreeGroup.lift (genP hs hdim hf ρ) (wordElt f.nrGenerators w) = _
  exact lift_genP_word hs hdim hf ρ w hw

/-- the word of a facet acts as the facet generator -/
theorem actG_facet {b i : Nat} (h : FacetR ds b i) :
    actG hs hdim hf ρ (wbar f.nrGenerators f.relators (e2wGet f.edgeToWord (b, i))) = ρ (xT ds b i) := by
  have hlet := (fundamentalGroup_letters ds f hf).2.2.1
  rw [actG_wbar hs hdim hf ρ _ (hlet (b, i))]
  unfold tword
  rw [← presIso_xT hs hdim hf h.1 h.2.1 h.2.2, MulEquiv.symm_apply_apply]

/-- every element of the textbook group acts as an element of the presented group -/
theorem actG_surj (g : TGroup ds) : ∃ y, actG hs hdim hf ρ y = ρ g := by
  let S : Subgroup (MGroup f) :=
    { carrier := {x | ∃ y, actG hs hdim hf ρ y = ρ ((presIso hs hdim hf).symm x)}
      one_mem' := ⟨1, by rw [map_one, map_one, map_one]⟩
      mul_mem' := by
        rintro a b ⟨ya, ha⟩ ⟨yb, hb⟩
        exact ⟨ya * yb, by rw [map_mul, ha, hb, map_mul, map_mul]⟩
      inv_mem' := by
        rintro a ⟨ya, ha⟩
        exact ⟨ya⁻¹, by rw [map_inv, ha, map_inv, map_inv]⟩ }
  have hgen : ∀ m : ℕ, (PresentedGroup.of m : MGroup f) ∈ S := by
    intro m
    by_cases hm : 1 ≤ m ∧ m ≤ f.nrGenerators
    · have hl : (m : Int) ∈ allGensOf f.nrGenerators := by rw [LowIndexP.mem_allGensOf]; omega
      refine ⟨wbar f.nrGenerators f.relators [(m : Int)], ?_⟩
      rw [actG_wbar hs hdim hf ρ _ (by intro x hx; simp only [List.mem_singleton] at hx; rw [hx]; exact hl)]
      unfold tword
      rw [den_pos m (by omega)]
      rfl
    · have : (PresentedGroup.of m : MGroup f) = 1 :=
        PresentedGroup.one_of_mem (Or.inr ⟨m, by omega, rfl⟩)
      rw [this]; exact S.one_mem
  have hall := PresentedGroup.generated_by _ S hgen (presIso hs hdim hf g)
  obtain ⟨y, hy⟩ := hall
  rw [MulEquiv.symm_apply_apply] at hy
  exact ⟨y, hy⟩

end

end DSymVerif.CoversP
