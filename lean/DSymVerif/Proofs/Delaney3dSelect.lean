/-
Property C15, phase 2: what the selection loops of `pseudo_toroidal_cover` return, and the
returned cover as a covering of the oriented cover and of the input.
-/
import DSymVerif.Proofs.Delaney3dCover
import DSymVerif.Proofs.Delaney3dTotal

namespace DSymVerif.D3
open DSymVerif DSymVerif.DS DSymVerif.Cosets DSymVerif.SpecC11 DSymVerif.CosetP DSymVerif.StabP
  DSymVerif.FG DSymVerif.FGP

theorem firstTorusTable_some (n : Nat) (rels : List (List Int)) :
    ∀ (ts : List Tab) (t : Tab), firstTorusTable n rels ts = .ok (some t) →
      t ∈ ts ∧ stabilizerInvariants n rels t = .ok [0, 0, 0]
  | [], t, h => by simp [firstTorusTable] at h
  | x :: rest, t, h => by
    unfold firstTorusTable at h
    split at h
    · rename_i inv hinv
      split at h
      · rename_i h0
        cases h
        exact ⟨List.mem_cons_self .., by rw [hinv, h0]⟩
      · obtain ⟨hm, hs⟩ := firstTorusTable_some n rels rest t h
        exact ⟨List.mem_cons_of_mem _ hm, hs⟩
    · cases h
    · cases h

theorem groupLoop_some (n : Nat) (rels : List (List Int)) (cands : Candidates) :
    ∀ (names : List String) (t : Tab), groupLoop n rels cands names = .ok (some t) →
      ∃ name ts, name ∈ names ∧ candGet cands name = .ok ts ∧ t ∈ ts ∧
        stabilizerInvariants n rels t = .ok [0, 0, 0]
  | [], t, h => by simp [groupLoop] at h
  | tp :: rest, t, h => by
    unfold groupLoop at h
    split at h
    · rename_i ts hts
      split at h
      · rename_i t' ht'
        cases h
        obtain ⟨hm, hs⟩ := firstTorusTable_some n rels ts t ht'
        exact ⟨tp, ts, List.mem_cons_self .., hts, hm, hs⟩
      · obtain ⟨name, ts', hn, hc, hm, hs⟩ := groupLoop_some n rels cands rest t h
        exact ⟨name, ts', List.mem_cons_of_mem _ hn, hc, hm, hs⟩
      · cases h
      · cases h
    · cases h
    · cases h

theorem candGet_mem {cands : Candidates} {name : String} {ts : List Tab}
    (h : candGet cands name = .ok ts) : ∃ e ∈ cands, e.2 = ts := by
  unfold candGet at h
  split at h
  · rename_i e he
    cases h
    exact ⟨e, List.mem_of_find?_eq_some he, rfl⟩
  · cases h

/-- the run behind a returned cover -/
structure PtcRun (s c : DSymData) where
  oc : DSymData
  fg : FundGroup
  cands : Candidates
  t : Tab
  name : String
  ts : List Tab
  dim3 : s.dim = 3
  complete : s.isCompletePartial = true
  hoc : orientedCover s = .ok oc
  hfg : fundamentalGroup oc = .ok fg
  hcands : constructCandidates fg = .ok cands
  hname : name ∈ pointGroups
  hget : candGet cands name = .ok ts
  hmem : t ∈ ts
  hinv : stabilizerInvariants fg.genToEdge.length fg.relators t = .ok [0, 0, 0]
  hcov : Covers.coverForTable oc (tableData (tbl fg.genToEdge.length t)) fg.edgeToWord = .ok c

/-- unfolding of the model: a returned cover comes from such a run -/
theorem ptc_run (s c : DSymData) (h : pseudoToroidalCover s = .ok (some c)) : Nonempty (PtcRun s c) := by
  unfold pseudoToroidalCover at h
  split at h
  · cases h
  · rename_i hdim
    split at h
    · cases h
    · rename_i hcomp
      split at h
      · split at h
        · rename_i oc hoc
          split at h
          · rename_i fg hfg
            split at h
            · rename_i cands hcands
              split at h
              · rename_i t ht
                split at h
                · rename_i c' hc'
                  cases h
                  obtain ⟨name, ts, hn, hget, hm, hs⟩ :=
                    groupLoop_some fg.genToEdge.length fg.relators cands pointGroups t ht
                  exact ⟨⟨oc, fg, cands, t, name, ts, Decidable.not_not.mp hdim, by simpa using hcomp,
                    hoc, hfg, hcands, hn, hget, hm, hs, hc'⟩⟩
                · cases h
                · cases h
              · cases h
              · cases h
              · cases h
            · cases h
            · cases h
          · cases h
          · cases h
        · cases h
        · cases h
      · cases h
      · cases h

theorem cproj_cproj (m x : Nat) (k : Nat) (hk : 0 < k) : cproj m (cproj (k * m) x) = cproj m x := by
  unfold cproj
  have : ((x - 1) % (k * m) + 1 - 1) % m = (x - 1) % m := by
    rw [Nat.add_sub_cancel]
    exact Nat.mod_mod_of_dvd _ (Dvd.intro_left k rfl)
  rw [this]

end DSymVerif.D3
