/-
Helper lemmas for property C08, part 9: the cone census of the oriented double cover — every
loopless 2-orbit of the base lifts to two 2-orbits of the cover with the same branching number,
every 2-orbit with a mirror to one.
-/
import DSymVerif.Proofs.Delaney2dConstr
import DSymVerif.Proofs.Delaney2dChi

namespace DSymVerif.D2
open DSymVerif.DS

/-- the `loopless` flag of `orbit_types_2d` -/
def looplessB (y : DSymData) (i j d : Nat) : Bool :=
  (y.view.orbit [i, j] d).all fun e => y.op i e != some e && y.op j e != some e

section
variable {y : DSymData} (h : ValidSym y) {i j : Nat} (hi : i ≤ y.dim) (hj : j ≤ y.dim)
include h hi hj

/-- weighted orbit count: Σ_{x in orbit} F(v x)/r x = (2 or 1)·F(v) -/
theorem orbit_sum_gen (F : Nat → ℚ) {d : Nat} (hd : 1 ≤ d ∧ d ≤ y.size) :
    ∑ x ∈ (y.view.orbit [i, j] d).toFinset, F (vN y i j x) / (rN y i j x : ℚ) =
      (if looplessB y i j d = true then 2 else 1) * F (vN y i j d) := by
  have hconst : ∀ x ∈ (y.view.orbit [i, j] d).toFinset,
      F (vN y i j x) / (rN y i j x : ℚ) = F (vN y i j d) / (rN y i j d : ℚ) := by
    intro x hx
    rw [List.mem_toFinset, mem_orbit_iff h.set hi hj hd] at hx
    obtain ⟨a, b⟩ := rv_const_orb h hi hj hd hx
    unfold rN vN
    rw [a, b]
  rw [Finset.sum_congr rfl hconst, Finset.sum_const, List.toFinset_card_of_nodup (orbit_nodup h.set i j d),
    orbit_length h.set hi hj hd (rN_least h hi hj hd), nsmul_eq_mul]
  have hr : (rN y i j d : ℚ) ≠ 0 := by
    have := (rN_least h hi hj hd).1
    exact_mod_cast (by omega : rN y i j d ≠ 0)
  unfold looplessB
  split
  · push_cast; field_simp
  · field_simp

theorem pair_sum_gen (F : Nat → ℚ) :
    ((y.view.orbitReps2d i j).map fun d =>
      (if looplessB y i j d = true then (2 : ℚ) else 1) * F (vN y i j d)).sum =
    ∑ x ∈ Finset.Icc 1 y.size, F (vN y i j x) / (rN y i j x : ℚ) := by
  have ok := orbitReps2d_ok h.set hi hj
  have hnodup : (y.view.orbitReps2d i j).Nodup :=
    ok.distinct.imp (fun {a b} hab he => hab (by subst he; exact Orb2.refl _))
  have hdist : ∀ a ∈ y.view.orbitReps2d i j, ∀ b ∈ y.view.orbitReps2d i j, a ≠ b →
      ¬ Orb2 y.dset i j a b := by
    have hp : (y.view.orbitReps2d i j).Pairwise (fun a b => ¬ Orb2 y.dset i j a b ∧ ¬ Orb2 y.dset i j b a) :=
      ok.distinct.imp_of_mem (fun {a b} ha hb hab =>
        ⟨hab, fun hba => hab (Orb2.symm h.set hi hj (ok.range b hb) hba)⟩)
    have : Std.Symm (fun a b => ¬ Orb2 y.dset i j a b ∧ ¬ Orb2 y.dset i j b a) := ⟨fun _ _ hh => ⟨hh.2, hh.1⟩⟩
    intro a ha b hb hne
    exact (hp.forall ha hb hne).1
  have hunion : Finset.Icc 1 y.size =
      (y.view.orbitReps2d i j).toFinset.biUnion fun d => (y.view.orbit [i, j] d).toFinset := by
    ext x
    simp only [Finset.mem_Icc, Finset.mem_biUnion, List.mem_toFinset]
    constructor
    · rintro ⟨h1, h2⟩
      obtain ⟨d, hd, ho⟩ := ok.cover x h1 h2
      exact ⟨d, hd, (mem_orbit_iff h.set hi hj (ok.range d hd)).2 ho⟩
    · rintro ⟨d, hd, hx⟩
      exact Orb2.range h.set hi hj (ok.range d hd) ((mem_orbit_iff h.set hi hj (ok.range d hd)).1 hx)
  have hdisj : ((y.view.orbitReps2d i j).toFinset : Set Nat).PairwiseDisjoint
      fun d => (y.view.orbit [i, j] d).toFinset := by
    intro a ha b hb hne
    simp only [Finset.mem_coe, List.mem_toFinset] at ha hb
    rw [Function.onFun, Finset.disjoint_left]
    intro x hxa hxb
    rw [List.mem_toFinset, mem_orbit_iff h.set hi hj (ok.range a ha)] at hxa
    rw [List.mem_toFinset, mem_orbit_iff h.set hi hj (ok.range b hb)] at hxb
    exact hdist a ha b hb hne (hxa.trans (Orb2.symm h.set hi hj (ok.range b hb) hxb))
  rw [hunion, Finset.sum_biUnion hdisj, ← List.sum_toFinset _ hnodup]
  apply Finset.sum_congr rfl
  intro d hd
  rw [List.mem_toFinset] at hd
  exact (orbit_sum_gen h hi hj F (ok.range d hd)).symm

end

/-- sums over the chambers of a cover, fibre by fibre -/
theorem sum_cproj (sz n : Nat) (G : Nat → ℚ) :
    ∑ e ∈ Finset.Icc 1 (n * sz), G (cproj sz e) = (n : ℚ) * ∑ b ∈ Finset.Icc 1 sz, G b := by
  by_cases hsz : 1 ≤ sz
  · have hmap : ∀ e ∈ Finset.Icc 1 (n * sz), cproj sz e ∈ Finset.Icc 1 sz := by
      intro e _
      rw [Finset.mem_Icc]; exact cproj_range hsz
    rw [← Finset.sum_fiberwise_of_maps_to' hmap G, Finset.mul_sum]
    apply Finset.sum_congr rfl
    intro b hb
    rw [Finset.mem_Icc] at hb
    rw [Finset.sum_const, icc_fibre_card hb.1 hb.2, nsmul_eq_mul]
  · have : sz = 0 := by omega
    subst this
    simp

/-- a list is determined up to permutation by the sums of all functions over it -/
theorem perm_of_sums {L1 L2 : List Nat}
    (hs : ∀ F : Nat → ℚ, (L1.map F).sum = (L2.map F).sum) : L1.Perm L2 := by
  rw [List.perm_iff_count]
  intro w
  have key : ∀ L : List Nat, (L.map fun x => if x = w then (1 : ℚ) else 0).sum = (L.count w : ℚ) := by
    intro L
    induction L with
    | nil => simp
    | cons a L ih =>
      simp only [List.map_cons, List.sum_cons, ih, List.count_cons]
      by_cases ha : a = w
      · simp [ha]; ring
      · simp [ha]
  have := hs (fun x => if x = w then (1 : ℚ) else 0)
  rw [key, key] at this
  exact_mod_cast this

/-! ### the double cover, pair by pair -/

theorem rN_of_rPartial_eq {y z : DSymData} {i j d e : Nat} (h : y.rPartial i j d = z.rPartial i j e) :
    rN y i j d = rN z i j e := by unfold rN; rw [h]

theorem vN_of_vPartial_eq {y z : DSymData} {i j d e : Nat} (h : y.vPartial i j d = z.vPartial i j e) :
    vN y i j d = vN z i j e := by unfold vN; rw [h]

theorem far_rv {y : DSymData} (hdim : y.dim = 2) {d : Nat} (hd : 1 ≤ d ∧ d ≤ y.size) :
    rN y 0 2 d * vN y 0 2 d = 2 := by
  have := far_m hdim hd
  unfold mQ at this
  exact_mod_cast this

/-- the facts about the oriented double cover of a non-oriented good 2D symbol used below -/
structure DoubleCover (s c : DSymData) : Prop where
  vs : ValidSym s
  vc : ValidSym c
  dim : s.dim = 2
  cdim : c.dim = 2
  sz : 1 ≤ s.size
  size : c.size = 2 * s.size
  ccomplete : c.isCompletePartial = true
  noloop : ∀ i e, i ≤ 2 → 1 ≤ e → e ≤ c.size → c.dset.opU i e ≠ e
  rv : ∀ i j d, i < j → j ≤ 2 → 1 ≤ d → d ≤ c.size →
    rN c i j d = rN s i j (cproj s.size d) ∧ vN c i j d = vN s i j (cproj s.size d)

theorem doubleCover_of_pkg {s : DSymData} (hs : ValidSym s) (hdim : s.dim = 2) (hsz : 1 ≤ s.size)
    (hcs : s.isCompletePartial = true) (ho : s.view.isOriented = false) :
    ∃ c, orientedCover s = .ok c ∧ DoubleCover s c := by
  obtain ⟨c, hoc, hsize, hcdim, hcv, hstep, hdeg, hper⟩ := oriCover_pkg hs hsz (by omega) ho
  have hcdim2 : c.dim = 2 := by rw [hcdim]; exact hdim
  have hcomp := (cover_chamberSum hs hdim hcs hsz 2 hcv hsize hcdim
    (fun i d hi h1 h2 => (hdeg i d hi h1 h2).2.2)).1
  refine ⟨c, hoc, hs, hcv, hdim, hcdim2, hsz, hsize, hcomp, ?_, ?_⟩
  · intro i e hi h1 h2 he
    have := (hstep i e (by omega) h1 (by rw [← hsize]; exact h2)).2
    rw [he] at this
    cases hb : dcol s s.view.partialOrientation e <;> rw [hb] at this <;> cases this
  · intro i j d hij hj h1 h2
    have h2' : d ≤ 2 * s.size := by rw [← hsize]; exact h2
    have hp := cproj_range (d := d) hsz
    have hr : rN c i j d = rN s i j (cproj s.size d) := by
      apply rN_unique hcv (by omega) (by omega) ⟨h1, h2⟩
      exact hper i j d _ (by omega) (by omega) h1 h2' (rN_least hs (by omega) (by omega) hp)
    refine ⟨hr, ?_⟩
    have hcases : (i = 0 ∧ j = 1) ∨ (i = 1 ∧ j = 2) ∨ (i = 0 ∧ j = 2) := by omega
    rcases hcases with ⟨rfl, rfl⟩ | ⟨rfl, rfl⟩ | ⟨rfl, rfl⟩
    · exact vN_of_vPartial_eq (hdeg 0 d (by omega) h1 h2').2.1
    · exact vN_of_vPartial_eq (hdeg 1 d (by omega) h1 h2').2.1
    · have a := far_rv hcdim2 ⟨h1, h2⟩
      have b := far_rv hdim hp
      rw [hr] at a
      have hpos : 0 < rN s 0 2 (cproj s.size d) := (rN_least hs (by omega) (by omega) hp).1
      exact Nat.eq_of_mul_eq_mul_left hpos (a.trans b.symm)

/-- the expansion of one orbit of the base: twice if loopless, once otherwise -/
def liftList (y : DSymData) (i j : Nat) : List Nat :=
  (y.view.orbitReps2d i j).flatMap fun d =>
    if looplessB y i j d = true then [vN y i j d, vN y i j d] else [vN y i j d]

theorem looplessB_cover {s c : DSymData} (dc : DoubleCover s c) {i j d : Nat} (hij : i < j) (hj : j ≤ 2)
    (hd : 1 ≤ d ∧ d ≤ c.size) : looplessB c i j d = true := by
  unfold looplessB
  rw [List.all_eq_true]
  intro e he
  have hi' : i ≤ c.dim := by rw [dc.cdim]; omega
  have hj' : j ≤ c.dim := by rw [dc.cdim]; omega
  have her := Orb2.range dc.vc.set hi' hj' hd ((mem_orbit_iff dc.vc.set hi' hj' hd).1 he)
  have e1 : c.op i e = some (c.dset.opU i e) := opSimple_eq_some.2 ⟨hi', her.1, her.2, rfl⟩
  have e2 : c.op j e = some (c.dset.opU j e) := opSimple_eq_some.2 ⟨hj', her.1, her.2, rfl⟩
  rw [e1, e2]
  simp only [Bool.and_eq_true, bne_iff_ne, ne_eq, Option.some.injEq]
  exact ⟨dc.noloop i e (by omega) her.1 her.2, dc.noloop j e hj her.1 her.2⟩

/-- **one index pair**: the branching numbers of the (i,j)-orbits of the double cover are those of
    the base, each loopless orbit counted twice -/
theorem cover_pair_census {s c : DSymData} (dc : DoubleCover s c) {i j : Nat} (hij : i < j) (hj : j ≤ 2) :
    ((c.view.orbitReps2d i j).map (vN c i j)).Perm (liftList s i j) := by
  apply perm_of_sums
  intro F
  have hic : i ≤ c.dim := by rw [dc.cdim]; omega
  have hjc : j ≤ c.dim := by rw [dc.cdim]; omega
  have his : i ≤ s.dim := by rw [dc.dim]; omega
  have hjs : j ≤ s.dim := by rw [dc.dim]; omega
  have okc := orbitReps2d_ok dc.vc.set hic hjc
  have hc := pair_sum_gen dc.vc hic hjc F
  have hs := pair_sum_gen dc.vs his hjs F
  -- cover side: every orbit is loopless
  have hcl : ((c.view.orbitReps2d i j).map fun d =>
      (if looplessB c i j d = true then (2 : ℚ) else 1) * F (vN c i j d)).sum =
      2 * (((c.view.orbitReps2d i j).map (vN c i j)).map F).sum := by
    rw [List.map_map, ← List.sum_map_mul_left]
    congr 1
    apply List.map_congr_left
    intro d hd
    rw [looplessB_cover dc hij hj (okc.range d hd)]
    simp
  -- the chamber sum of the cover is twice the chamber sum of the base
  have hsum : ∑ x ∈ Finset.Icc 1 c.size, F (vN c i j x) / (rN c i j x : ℚ) =
      2 * ∑ b ∈ Finset.Icc 1 s.size, F (vN s i j b) / (rN s i j b : ℚ) := by
    have e1 : ∑ x ∈ Finset.Icc 1 c.size, F (vN c i j x) / (rN c i j x : ℚ) =
        ∑ x ∈ Finset.Icc 1 (2 * s.size), (fun b => F (vN s i j b) / (rN s i j b : ℚ)) (cproj s.size x) := by
      rw [dc.size]
      apply Finset.sum_congr rfl
      intro x hx
      rw [Finset.mem_Icc] at hx
      obtain ⟨a, b⟩ := dc.rv i j x hij hj hx.1 (by rw [dc.size]; exact hx.2)
      rw [a, b]
    rw [e1, sum_cproj s.size 2 (fun b => F (vN s i j b) / (rN s i j b : ℚ))]
    norm_num
  -- base side
  have hbase : ((liftList s i j).map F).sum =
      ((s.view.orbitReps2d i j).map fun d =>
        (if looplessB s i j d = true then (2 : ℚ) else 1) * F (vN s i j d)).sum := by
    unfold liftList
    generalize s.view.orbitReps2d i j = reps
    induction reps with
    | nil => rfl
    | cons d reps ih =>
      simp only [List.flatMap_cons, List.map_append, List.sum_append, List.map_cons, List.sum_cons, ih]
      congr 1
      split
      · simp; ring
      · simp
  rw [hbase, hs]
  rw [hcl, hsum] at hc
  linarith

/-! ### the whole census -/

/-- the list `orbit_types_2d` returns on a good 2D symbol -/
def typesOf (y : DSymData) : List (Nat × Bool) :=
  (y.view.orbitReps2d 0 1).map (fun d => (vN y 0 1 d, looplessB y 0 1 d)) ++
  ((y.view.orbitReps2d 0 2).map (fun d => (vN y 0 2 d, looplessB y 0 2 d)) ++
   (y.view.orbitReps2d 1 2).map (fun d => (vN y 1 2 d, looplessB y 1 2 d)))

theorem orbitTypes2d_good {s : Sym} (g : Good2d s) : orbitTypes2d s = .ok (typesOf s.data) := by
  obtain ⟨y, rep⟩ := s
  have h : ValidSym y := g.valid
  have hdim : y.dim = 2 := g.dim
  have ok01 := orbitReps2d_ok h.set (i := 0) (j := 1) (by omega) (by omega)
  have ok02 := orbitReps2d_ok h.set (i := 0) (j := 2) (by omega) (by omega)
  have ok12 := orbitReps2d_ok h.set (i := 1) (j := 2) (by omega) (by omega)
  have hkeys := orbitKeys_dim2 ⟨y, rep⟩ hdim
  have hview : (⟨y, rep⟩ : Sym).view = y.view := rfl
  rw [hview] at hkeys
  unfold orbitTypes2d
  rw [mapO_ok _ (fun k => (vN y k.1 k.2.1 k.2.2, looplessB y k.1 k.2.1 k.2.2))]
  · rw [hkeys]
    simp only [List.map_append, List.map_map, typesOf]
    rfl
  · intro k hk
    rw [hkeys] at hk
    simp only [List.mem_append, List.mem_map] at hk
    rcases hk with ⟨d, hd, rfl⟩ | ⟨d, hd, rfl⟩ | ⟨d, hd, rfl⟩
    · rw [unwrapV_v h rep (i := 0) (j := 1) (by omega) (by omega) (ok01.range d hd)]; rfl
    · rw [unwrapV_v h rep (i := 0) (j := 2) (by omega) (by omega) (ok02.range d hd)]; rfl
    · rw [unwrapV_v h rep (i := 1) (j := 2) (by omega) (by omega) (ok12.range d hd)]; rfl

def expand (t : Nat × Bool) : List Nat := if t.2 = true then [t.1, t.1] else [t.1]

/-- cone orders: loopless 2-orbits with v > 1 (= `cone_degrees`) -/
def conesOf (ts : List (Nat × Bool)) : List Nat := (ts.filter fun t => t.2 && t.1 > 1).map (·.1)
/-- corner orders: 2-orbits with a mirror and v > 1 -/
def cornersOf (ts : List (Nat × Bool)) : List Nat := (ts.filter fun t => !t.2 && t.1 > 1).map (·.1)

theorem liftList_eq (y : DSymData) (i j : Nat) :
    liftList y i j = ((y.view.orbitReps2d i j).map (fun d => (vN y i j d, looplessB y i j d))).flatMap expand := by
  unfold liftList expand
  rw [List.flatMap_map]

theorem expand_census (ts : List (Nat × Bool)) :
    ((ts.flatMap expand).filter (· > 1)).Perm (conesOf ts ++ conesOf ts ++ cornersOf ts) := by
  rw [List.perm_iff_count]
  intro w
  induction ts with
  | nil => simp [conesOf, cornersOf]
  | cons t ts ih =>
    obtain ⟨v, l⟩ := t
    simp only [List.flatMap_cons, List.filter_append, List.count_append, conesOf, cornersOf] at ih ⊢
    rw [ih]
    cases l <;> by_cases hv : v > 1 <;>
      simp [expand, hv, List.count_cons] <;> omega

theorem coneDegrees_good {s : Sym} (g : Good2d s) : coneDegrees s = .ok (conesOf (typesOf s.data)) := by
  unfold coneDegrees
  rw [orbitTypes2d_good g]
  rfl

/-- the census of the oriented cover of a non-oriented good 2D symbol -/
theorem cover_census {s c : DSymData} (dc : DoubleCover s c) :
    (((typesOf c).map (·.1)).filter (· > 1)).Perm
      (conesOf (typesOf s) ++ conesOf (typesOf s) ++ cornersOf (typesOf s)) := by
  refine List.Perm.trans ?_ (expand_census (typesOf s))
  apply List.Perm.filter
  have e : (typesOf c).map (·.1) =
      (c.view.orbitReps2d 0 1).map (vN c 0 1) ++ ((c.view.orbitReps2d 0 2).map (vN c 0 2) ++
        (c.view.orbitReps2d 1 2).map (vN c 1 2)) := by
    simp only [typesOf, List.map_append, List.map_map]
    rfl
  rw [e]
  have e2 : (typesOf s).flatMap expand = liftList s 0 1 ++ (liftList s 0 2 ++ liftList s 1 2) := by
    simp only [typesOf, List.flatMap_append, liftList_eq]
  rw [e2]
  exact (cover_pair_census dc (by omega) (by omega)).append
    ((cover_pair_census dc (by omega) (by omega)).append (cover_pair_census dc (by omega) (by omega)))

/-! ### `is_spherical` -/

/-- the cone orders of the oriented cover, from the census of the symbol itself: its cones if it
    is oriented (then there are no corners), else every cone twice and every corner once -/
def coverCensus (y : DSymData) : List Nat :=
  if y.view.isOriented = true then conesOf (typesOf y)
  else conesOf (typesOf y) ++ conesOf (typesOf y) ++ cornersOf (typesOf y)

theorem filter_fst_of_all_loopless (ts : List (Nat × Bool)) (h : ∀ t ∈ ts, t.2 = true) :
    (ts.map (·.1)).filter (· > 1) = conesOf ts := by
  induction ts with
  | nil => rfl
  | cons t ts ih =>
    have ht := h t (by simp)
    have ih' := ih (fun u hu => h u (by simp [hu]))
    obtain ⟨v, l⟩ := t
    simp only at ht
    subst ht
    unfold conesOf at ih' ⊢
    by_cases hv : v > 1
    · simp [hv, ← ih']
    · simp [hv, ← ih']

theorem types_loopless_of_oriented {y : DSymData} (h : ValidSym y) (hdim : y.dim = 2)
    (ho : y.view.isOriented = true) : ∀ t ∈ typesOf y, t.2 = true := by
  have hl : y.view.isLoopless = true := by
    unfold View.isOriented at ho
    simp only [Bool.and_eq_true] at ho
    exact ho.1
  have hl' := ((C02.isComplete_isLoopless_iff y.view y.dset).2.1).1 hl
  have key : ∀ i j d, i ≤ 2 → j ≤ 2 → 1 ≤ d ∧ d ≤ y.size → looplessB y i j d = true := by
    intro i j d hi hj hd
    unfold looplessB
    rw [List.all_eq_true]
    intro e he
    have hi' : i ≤ y.dim := by omega
    have hj' : j ≤ y.dim := by omega
    have her := Orb2.range h.set hi' hj' hd ((mem_orbit_iff h.set hi' hj' hd).1 he)
    simp only [Bool.and_eq_true, bne_iff_ne, ne_eq]
    exact ⟨hl' i e hi' her.1 her.2, hl' j e hj' her.1 her.2⟩
  have ok01 := orbitReps2d_ok h.set (i := 0) (j := 1) (by omega) (by omega)
  have ok02 := orbitReps2d_ok h.set (i := 0) (j := 2) (by omega) (by omega)
  have ok12 := orbitReps2d_ok h.set (i := 1) (j := 2) (by omega) (by omega)
  intro t ht
  simp only [typesOf, List.mem_append, List.mem_map] at ht
  rcases ht with ⟨d, hd, rfl⟩ | ⟨d, hd, rfl⟩ | ⟨d, hd, rfl⟩
  · exact key 0 1 d (by omega) (by omega) (ok01.range d hd)
  · exact key 0 2 d (by omega) (by omega) (ok02.range d hd)
  · exact key 1 2 d (by omega) (by omega) (ok12.range d hd)

/-- **`is_spherical` from the symbol's own census**: on a good 2D symbol the model's `is_spherical`
    answers "positive curvature and the census rule holds for the cone orders of the oriented
    cover", the latter computed from the cones and corners of the symbol itself -/
theorem isSpherical_good {s : Sym} (g : Good2d s) (hsz : 1 ≤ s.size) :
    ∃ K, curvature s = .ok K ∧
      isSpherical s = .ok (decide (0 < K.toRat) && censusRule (coverCensus s.data)) := by
  have hK := curvature_eq_chamberSum g
  refine ⟨_, hK, ?_⟩
  have hs : ValidSym s.data := g.valid
  have hdim : s.data.dim = 2 := g.dim
  unfold isSpherical
  rw [hK]
  simp only
  rw [Frac.isPos_ofRat, Frac.toRat_ofRat]
  by_cases hpos : 0 < chamberSum s.data
  · rw [if_neg (by simp [hpos])]
    simp only [hpos, decide_true, Bool.true_and]
    by_cases ho : s.data.view.isOriented = true
    · rw [(C05.oriented_cover_covering s.data hs.toValidTables hsz (by omega)).2.1 ho]
      have gp : Good2d ⟨s.data, .partialSym⟩ := ⟨hs, hdim, g.complete⟩
      simp only
      rw [orbitTypes2d_good gp]
      simp only
      rw [filter_fst_of_all_loopless _ (types_loopless_of_oriented hs hdim ho)]
      unfold coverCensus
      rw [if_pos ho]
    · have ho' : s.data.view.isOriented = false := by simpa using ho
      obtain ⟨c, hoc, dc⟩ := doubleCover_of_pkg hs hdim hsz g.complete ho'
      rw [hoc]
      have gc : Good2d ⟨c, .partialSym⟩ := ⟨dc.vc, dc.cdim, dc.ccomplete⟩
      simp only
      rw [orbitTypes2d_good gc]
      simp only
      rw [SpecC08.censusRule_perm (cover_census dc)]
      unfold coverCensus
      rw [if_neg ho]
  · rw [if_pos (by simp [hpos])]
    simp [hpos]

/-- "tear-drop or spindle (one cone or corner point, or two of different order)" on the census of
    the symbol: for an oriented symbol (closed orientable orbifold, no corners) on its cones; else
    (a mirror or a cross-cap is present) no cone and one corner or two corners of different order -/
def badCensus (y : DSymData) : Bool :=
  if y.view.isOriented = true then SpecC08.oneOrTwoDifferent (conesOf (typesOf y))
  else (conesOf (typesOf y)).isEmpty && SpecC08.oneOrTwoDifferent (cornersOf (typesOf y))

theorem census_eq_not_bad (y : DSymData) : censusRule (coverCensus y) = !badCensus y := by
  unfold coverCensus badCensus
  by_cases ho : y.view.isOriented = true
  · rw [if_pos ho, if_pos ho, SpecC08.censusRule_eq_not]
  · rw [if_neg ho, if_neg ho, SpecC08.census_cover, SpecC08.censusRule_eq_not]
    cases (conesOf (typesOf y)).isEmpty <;> simp

/-- **`isSpherical_iff`** -/
theorem isSpherical_iff_good {s : Sym} (g : Good2d s) (hsz : 1 ≤ s.size) :
    ∃ K, curvature s = .ok K ∧
      isSpherical s = .ok (decide (0 < K.toRat) && !badCensus s.data) := by
  obtain ⟨K, hK, hs⟩ := isSpherical_good g hsz
  exact ⟨K, hK, by rw [hs, census_eq_not_bad]⟩

/-- the Spec's `bad` of any orbifold symbol with positive χ that carries the census of the D-symbol
    (cones, all corners, closed-orientable ⇔ oriented) is `badCensus` -/
theorem bad_eq_badCensus (y : DSymData) (o : SpecC08.Orb) (hw : o.WF) (hpos : 0 < SpecC08.chiQ o)
    (hc : (SpecC08.proper o.cones).Perm (conesOf (typesOf y)))
    (hb : (SpecC08.proper o.bnds.flatten).Perm (cornersOf (typesOf y)))
    (ho : (o.bnds.isEmpty && o.caps == 0) = y.view.isOriented) :
    SpecC08.bad o = badCensus y := by
  rw [SpecC08.bad_eq_not_census o hw hpos]
  have : censusRule (SpecC08.coverCones o) = censusRule (coverCensus y) := by
    unfold SpecC08.coverCones coverCensus
    rw [ho]
    by_cases hor : y.view.isOriented = true
    · rw [if_pos hor, if_pos hor]
      exact SpecC08.censusRule_perm hc
    · rw [if_neg hor, if_neg hor]
      exact SpecC08.censusRule_perm ((hc.append hc).append hb)
  rw [this, census_eq_not_bad]
  simp

end DSymVerif.D2
